import Cppcheck.Model.AstLadder
/-
C07 — helper lemmas, part 1 (independent of the operand level):
  * balanced bracket strings, `closeOff` / `openOff` over them, `print e` is balanced
  * `scanQ` / `prep` (prepareTernaryOpForAST) on printed trees:  prep (print e) = print (prepE e)
  * unfolding lemmas for the generic ladder (`loopLeft`, `assignTern`, `ladder`)
-/
namespace Cppcheck.AstLadder
open PExpr

/-- running bracket depth; `none` when a closer meets depth 0 -/
def balAux : Nat → List Tok → Option Nat
  | k, [] => some k
  | k, t :: r =>
    if t.isOpener then balAux (k + 1) r
    else if t.isCloser then
      match k with
      | 0 => none
      | k' + 1 => balAux k' r
    else balAux k r

theorem balAux_append (a b : List Tok) : ∀ k, balAux k (a ++ b) = (balAux k a).bind (fun k' => balAux k' b) := by
  induction a with
  | nil => intro k; simp [balAux]
  | cons t r ih =>
    intro k
    simp only [List.cons_append, balAux]
    split
    · exact ih _
    · split
      · cases k with
        | zero => simp
        | succ k' => exact ih _
      · exact ih _

theorem balAux_mono (b : List Tok) : ∀ k k2 j, balAux k b = some k2 → balAux (k + j) b = some (k2 + j) := by
  induction b with
  | nil => intro k k2 j h; simp [balAux] at h ⊢; omega
  | cons t r ih =>
    intro k k2 j h
    simp only [balAux] at h ⊢
    split at h
    · rename_i ho
      simp only [ho, if_true]
      have := ih _ _ j h
      rw [show k + j + 1 = k + 1 + j by omega]; exact this
    · rename_i ho
      simp only [ho]
      split at h
      · rename_i hc
        simp only [hc, if_true]
        cases k with
        | zero => simp at h
        | succ k' =>
          simp only at h
          rw [show k' + 1 + j = (k' + j) + 1 by omega]
          exact ih _ _ j h
      · rename_i hc
        simp only [hc]
        exact ih _ _ j h

def Balanced (b : List Tok) : Prop := balAux 0 b = some 0

theorem Balanced.at (b : List Tok) (h : Balanced b) (k : Nat) : balAux k b = some k := by
  have := balAux_mono b 0 0 k h
  simpa using this

theorem map_add_add (o : Option Nat) (n : Nat) : (o.map (· + n)).map (· + 1) = o.map (· + (n + 1)) := by
  cases o with
  | none => rfl
  | some a => simp only [Option.map_some]; congr 1

theorem closeOff_skip (b r : List Tok) : ∀ d k k2, balAux k b = some k2 →
    closeOff (d + k) (b ++ r) = (closeOff (d + k2) r).map (· + b.length) := by
  induction b with
  | nil => intro d k k2 h; simp [balAux] at h; subst h; simp
  | cons t rr ih =>
    intro d k k2 h
    simp only [balAux] at h
    simp only [List.cons_append, closeOff, List.length_cons]
    split at h
    · rename_i ho
      simp only [ho, if_true]
      rw [show d + k + 1 = d + (k + 1) by omega, ih d (k + 1) k2 h]
      exact map_add_add _ _
    · rename_i ho
      simp only [ho]
      split at h
      · rename_i hc
        simp only [hc, if_true]
        cases k with
        | zero => simp at h
        | succ k' =>
          simp only at h
          rw [show d + (k' + 1) = (d + k') + 1 by omega]
          simp only
          rw [ih d k' k2 h]
          exact map_add_add _ _
      · rename_i hc
        simp only [hc]
        rw [ih d k k2 h]
        exact map_add_add _ _

theorem closeOff_group (b r : List Tok) (h : Balanced b) : closeOff 0 (b ++ Tok.rp :: r) = some b.length := by
  have := closeOff_skip b (Tok.rp :: r) 0 0 0 h
  simp only [Nat.add_zero] at this
  rw [this]
  simp [closeOff, Tok.isOpener, Tok.isCloser]

theorem closeOff_groupB (b r : List Tok) (h : Balanced b) : closeOff 0 (b ++ Tok.rb :: r) = some b.length := by
  have := closeOff_skip b (Tok.rb :: r) 0 0 0 h
  simp only [Nat.add_zero] at this
  rw [this]
  simp [closeOff, Tok.isOpener, Tok.isCloser]

theorem balanced_append {a b : List Tok} (ha : Balanced a) (hb : Balanced b) : Balanced (a ++ b) := by
  unfold Balanced at *
  rw [balAux_append, ha]; simpa using hb

theorem balanced_group {b : List Tok} (hb : Balanced b) : Balanced (Tok.lp :: (b ++ [Tok.rp])) := by
  unfold Balanced
  simp only [balAux, Tok.isOpener, if_true]
  rw [balAux_append, Balanced.at b hb 1]
  simp [balAux, Tok.isOpener, Tok.isCloser]

theorem balanced_groupB {b : List Tok} (hb : Balanced b) : Balanced (Tok.lb :: (b ++ [Tok.rb])) := by
  unfold Balanced
  simp only [balAux, Tok.isOpener, if_true]
  rw [balAux_append, Balanced.at b hb 1]
  simp [balAux, Tok.isOpener, Tok.isCloser]

theorem balanced_flat (b : List Tok) (h : ∀ t ∈ b, t.isOpener = false ∧ t.isCloser = false) : Balanced b := by
  unfold Balanced
  induction b with
  | nil => rfl
  | cons t r ih =>
    have := h t (by simp)
    simp only [balAux, this.1, this.2]
    exact ih (fun t' ht' => h t' (by simp [ht']))

theorem balanced_print : ∀ e : PExpr, Balanced (print e) := by
  intro e
  induction e with
  | var s => exact balanced_flat _ (by simp [print, Tok.isOpener, Tok.isCloser])
  | num s => exact balanced_flat _ (by simp [print, Tok.isOpener, Tok.isCloser])
  | paren e ih => exact balanced_group ih
  | bin op l r ihl ihr =>
    exact balanced_append ihl (balanced_append (a := [Tok.op op]) (balanced_flat _ (by simp [Tok.isOpener, Tok.isCloser])) ihr)
  | tern c t e ihc iht ihe =>
    simp only [print]
    exact balanced_append ihc (balanced_append (a := [Tok.op ['?']]) (balanced_flat _ (by simp [Tok.isOpener, Tok.isCloser]))
      (balanced_append iht (balanced_append (a := [Tok.op [':']]) (balanced_flat _ (by simp [Tok.isOpener, Tok.isCloser])) ihe)))
  | pre op e ih => exact balanced_append (a := [Tok.op op]) (balanced_flat _ (by simp [Tok.isOpener, Tok.isCloser])) ih
  | post op e ih => exact balanced_append ih (balanced_flat _ (by simp [Tok.isOpener, Tok.isCloser]))
  | cast ty k e ih =>
    simp only [print]
    have hb : Balanced (ty.map Tok.ty ++ List.replicate k (Tok.op ['*'])) := by
      apply balanced_flat
      intro t ht
      simp only [List.mem_append, List.mem_map, List.mem_replicate] at ht
      rcases ht with ⟨s, _, rfl⟩ | ⟨_, rfl⟩ <;> simp [Tok.isOpener, Tok.isCloser]
    have := balanced_append (balanced_group hb) ih
    simpa [List.append_assoc] using this
  | index a i iha ihi => exact balanced_append iha (balanced_groupB ihi)
  | member a m ih => exact balanced_append ih (balanced_flat _ (by simp [Tok.isOpener, Tok.isCloser]))
  | call0 f v =>
    have := balanced_append (a := [fname f v]) (balanced_flat _ (by
      intro t ht; simp at ht; subst ht; unfold fname; split <;> simp [Tok.isOpener, Tok.isCloser])) (balanced_group (b := []) rfl)
    simpa [print] using this
  | call f v a ih =>
    have := balanced_append (a := [fname f v]) (balanced_flat _ (by
      intro t ht; simp at ht; subst ht; unfold fname; split <;> simp [Tok.isOpener, Tok.isCloser])) (balanced_group ih)
    simpa [print] using this

theorem scanQ_congr {pd dp : Nat} {nd nd' : Bool} {off off' : Nat} {l : List Tok} (hn : nd = nd') (ho : off = off') :
    scanQ pd dp nd off l = scanQ pd dp nd' off' l := by rw [hn, ho]

/-- inside a bracket group the scan only counts brackets -/
theorem scanQ_inside (b r : List Tok) : ∀ p k k2 dp nd off, balAux k b = some k2 →
    scanQ (p + 1 + k) dp nd off (b ++ r) = scanQ (p + 1 + k2) dp nd (off + b.length) r := by
  induction b with
  | nil => intro p k k2 dp nd off h; simp [balAux] at h; subst h; simp
  | cons t rr ih =>
    intro p k k2 dp nd off h
    simp only [balAux] at h
    simp only [List.cons_append, List.length_cons]
    rw [show p + 1 + k = (p + k) + 1 by omega]
    simp only [scanQ]
    split at h
    · rename_i ho
      simp only [ho, if_true]
      rw [show p + k + 2 = p + 1 + (k + 1) by omega, ih p (k + 1) k2 dp nd (off + 1) h]
      exact scanQ_congr rfl (by omega)
    · rename_i ho
      simp only [ho]
      split at h
      · rename_i hc
        simp only [hc, if_true]
        cases k with
        | zero => simp at h
        | succ k' =>
          simp only at h
          rw [show p + (k' + 1) = p + 1 + k' by omega, ih p k' k2 dp nd (off + 1) h]
          exact scanQ_congr rfl (by omega)
      · rename_i hc
        simp only [hc]
        rw [show p + k + 1 = p + 1 + k by omega, ih p k k2 dp nd (off + 1) h]
        exact scanQ_congr rfl (by omega)

theorem scanQ_group (b r : List Tok) (hb : Balanced b) (dp : Nat) (nd : Bool) (off : Nat) :
    scanQ 0 dp nd off (Tok.lp :: (b ++ Tok.rp :: r)) = scanQ 0 dp nd (off + b.length + 2) r := by
  simp only [scanQ, Tok.isOpener, if_true]
  have := scanQ_inside b (Tok.rp :: r) 0 0 0 dp nd (off + 1) hb
  simp only [Nat.zero_add, Nat.add_zero] at this
  rw [this]
  simp only [scanQ, Tok.isOpener, Tok.isCloser, if_true]
  exact scanQ_congr rfl (by omega)

theorem scanQ_groupB (b r : List Tok) (hb : Balanced b) (dp : Nat) (nd : Bool) (off : Nat) :
    scanQ 0 dp nd off (Tok.lb :: (b ++ Tok.rb :: r)) = scanQ 0 dp nd (off + b.length + 2) r := by
  simp only [scanQ, Tok.isOpener, if_true]
  have := scanQ_inside b (Tok.rb :: r) 0 0 0 dp nd (off + 1) hb
  simp only [Nat.zero_add, Nat.add_zero] at this
  rw [this]
  simp only [scanQ, Tok.isOpener, Tok.isCloser, if_true]
  exact scanQ_congr rfl (by omega)

/-- an operator token that is not `? : ;` -/
theorem scanQ_op (s : Wire.Str) (h : okOpStr s = true) (r : List Tok) (dp : Nat) (nd : Bool) (off : Nat) :
    scanQ 0 dp nd off (Tok.op s :: r) = scanQ 0 dp (nd || (s == [','] || s == ['<'])) (off + 1) r := by
  simp only [okOpStr, Bool.and_eq_true, bne_iff_ne, ne_eq] at h
  obtain ⟨⟨h1, h2⟩, h3⟩ := h
  simp only [scanQ, Tok.isOpener, Tok.isCloser, Tok.op.injEq, h1, h2, h3, Bool.false_eq_true, if_false, Bool.or_false]
  by_cases hc : s = [',']
  · subst hc; simp
  · by_cases hl : s = ['<']
    · subst hl; simp
    · simp only [hc, hl, if_false]
      exact scanQ_congr (by simp [hc, hl]) rfl

theorem scanQ_atom (t : Tok) (h : (∃ s, t = Tok.var s) ∨ (∃ s, t = Tok.num s) ∨ (∃ s, t = Tok.fn s) ∨ (∃ s, t = Tok.ty s))
    (r : List Tok) (dp : Nat) (nd : Bool) (off : Nat) :
    scanQ 0 dp nd off (t :: r) = scanQ 0 dp nd (off + 1) r := by
  rcases h with ⟨s, rfl⟩ | ⟨s, rfl⟩ | ⟨s, rfl⟩ | ⟨s, rfl⟩ <;> simp [scanQ, Tok.isOpener, Tok.isCloser]

/-- scanning across a printed tree: only `parenthesesNeeded` can change -/
theorem scanQ_print : ∀ (e : PExpr), plain e = true → ∀ (r : List Tok) (dp : Nat) (nd : Bool) (off : Nat),
    scanQ 0 dp nd off (print e ++ r) = scanQ 0 dp (nd || !topFree e) (off + (print e).length) r := by
  intro e
  induction e with
  | var s => intro _ r dp nd off; simp [print, topFree, scanQ_atom]
  | num s => intro _ r dp nd off; simp [print, topFree, scanQ_atom]
  | paren e ih =>
    intro _ r dp nd off
    simp only [print, topFree, List.cons_append, List.append_assoc, List.singleton_append]
    rw [scanQ_group _ _ (balanced_print e)]
    exact scanQ_congr (by simp) (by simp; omega)
  | bin op l r ihl ihr =>
    intro hp rest dp nd off
    simp only [plain, Bool.and_eq_true] at hp
    simp only [print, topFree, List.append_assoc, List.cons_append]
    rw [ihl hp.1.2, scanQ_op op hp.1.1, ihr hp.2]
    have hq : (op != ['?']) = true := by
      have := hp.1.1; simp only [okOpStr, Bool.and_eq_true] at this; exact this.1.1
    have hq' : op ≠ ['?'] := by simpa using hq
    refine scanQ_congr ?_ (by simp only [List.length_append, List.length_cons]; omega)
    have e3 : (op == ['?']) = false := by simpa using hq'
    by_cases h1 : (op == [',']) = true <;> by_cases h2 : (op == ['<']) = true <;> cases nd <;> cases topFree l <;> cases topFree r <;> simp [bne, e3, h1, h2]
  | tern c t e ihc iht ihe =>
    intro hp rest dp nd off
    simp only [plain, Bool.and_eq_true] at hp
    simp only [print, topFree, List.append_assoc, List.cons_append]
    rw [ihc hp.1.1]
    simp only [scanQ, Tok.isOpener, Tok.isCloser, Tok.op.injEq, List.cons.injEq, Char.reduceEq, and_true, and_self, if_false, if_true, reduceCtorEq, Bool.false_eq_true, Bool.or_self]
    rw [iht hp.1.2]
    simp only [scanQ, Tok.isOpener, Tok.isCloser, Tok.op.injEq, List.cons.injEq, Char.reduceEq, and_true, and_self, if_false, if_true, reduceCtorEq, Bool.false_eq_true, Bool.or_self]
    rw [ihe hp.2]
    exact scanQ_congr (by simp) (by simp only [List.length_append, List.length_cons]; omega)
  | pre op e ih =>
    intro hp rest dp nd off
    simp only [plain, Bool.and_eq_true] at hp
    simp only [print, topFree, List.cons_append]
    rw [scanQ_op op hp.1, ih hp.2]
    have hq : (op != ['?']) = true := by
      have := hp.1; simp only [okOpStr, Bool.and_eq_true] at this; exact this.1.1
    have hq' : op ≠ ['?'] := by simpa using hq
    refine scanQ_congr ?_ (by simp only [List.length_cons]; omega)
    have e3 : (op == ['?']) = false := by simpa using hq'
    by_cases h1 : (op == [',']) = true <;> by_cases h2 : (op == ['<']) = true <;> cases nd <;> cases topFree e <;> simp [bne, e3, h1, h2]
  | post op e ih =>
    intro hp rest dp nd off
    simp only [plain, Bool.and_eq_true] at hp
    simp only [print, topFree, List.append_assoc, List.singleton_append]
    rw [ih hp.2, scanQ_op op hp.1]
    have hq : (op != ['?']) = true := by
      have := hp.1; simp only [okOpStr, Bool.and_eq_true] at this; exact this.1.1
    have hq' : op ≠ ['?'] := by simpa using hq
    refine scanQ_congr ?_ (by simp only [List.length_append, List.length_cons, List.length_nil]; omega)
    have e3 : (op == ['?']) = false := by simpa using hq'
    by_cases h1 : (op == [',']) = true <;> by_cases h2 : (op == ['<']) = true <;> cases nd <;> cases topFree e <;> simp [bne, e3, h1, h2]
  | cast ty k e ih =>
    intro hp rest dp nd off
    simp only [plain] at hp
    simp only [print, topFree, List.cons_append, List.append_assoc]
    have hb : Balanced (ty.map Tok.ty ++ List.replicate k (Tok.op ['*'])) := by
      apply balanced_flat
      intro t ht
      simp only [List.mem_append, List.mem_map, List.mem_replicate] at ht
      rcases ht with ⟨s, _, rfl⟩ | ⟨_, rfl⟩ <;> simp [Tok.isOpener, Tok.isCloser]
    have := scanQ_group _ (print e ++ rest) hb dp nd off
    simp only [List.append_assoc] at this
    rw [this, ih hp]
    exact scanQ_congr rfl (by simp only [List.length_cons, List.length_append, List.length_map, List.length_replicate]; omega)
  | index a i iha ihi =>
    intro hp rest dp nd off
    simp only [plain, Bool.and_eq_true] at hp
    simp only [print, topFree, List.append_assoc, List.cons_append, List.singleton_append]
    rw [iha hp.1, scanQ_groupB _ _ (balanced_print i)]
    exact scanQ_congr rfl (by simp only [List.length_append, List.length_cons, List.length_nil]; omega)
  | member a m ih =>
    intro hp rest dp nd off
    simp only [plain] at hp
    simp only [print, topFree, List.append_assoc, List.cons_append, List.nil_append]
    rw [ih hp, scanQ_op ['.'] (by decide), scanQ_atom _ (Or.inr (Or.inr (Or.inl ⟨m, rfl⟩)))]
    exact scanQ_congr (by simp) (by simp only [List.length_append, List.length_cons, List.length_nil]; omega)
  | call0 f v =>
    intro _ rest dp nd off
    simp only [print, topFree, List.cons_append, List.nil_append]
    rw [scanQ_atom _ (by unfold fname; split <;> simp)]
    have := scanQ_group [] rest rfl dp nd (off + 1)
    simp only [List.nil_append, List.length_nil] at this
    rw [this]; exact scanQ_congr (by simp) (by simp)
  | call f v a ih =>
    intro _ rest dp nd off
    simp only [print, topFree, List.cons_append, List.append_assoc, List.singleton_append]
    rw [scanQ_atom _ (by unfold fname; split <;> simp), scanQ_group _ _ (balanced_print a)]
    simp; congr 1; omega

theorem prep_cons_ne (t : Tok) (h : t ≠ Tok.op ['?']) (r : List Tok) : prep (t :: r) = t :: prep r := by
  rw [prep.eq_2]; simp [h]

theorem insertAt_append (a b : List Tok) (x : Tok) : insertAt a.length x (a ++ b) = a ++ x :: b := by
  simp [insertAt]

theorem topFree_prepE : ∀ e : PExpr, topFree (prepE e) = topFree e := by
  intro e
  induction e with
  | var s => rfl
  | num s => rfl
  | paren e _ => rfl
  | bin op l r ihl ihr => simp [prepE, topFree, ihl, ihr]
  | tern c t e _ _ _ => rfl
  | pre op e ih => simp [prepE, topFree, ih]
  | post op e ih => simp [prepE, topFree, ih]
  | cast ty k e ih => simp [prepE, topFree, ih]
  | index a i iha _ => simp [prepE, topFree, iha]
  | member a m ih => simp [prepE, topFree, ih]
  | call0 f v => rfl
  | call f v a _ => rfl

/-- prepareTernaryOpForAST on a printed tree = printing the tree with the non-`topFree` middle operands parenthesised -/
theorem prep_print : ∀ (e : PExpr), plain e = true → ∀ (r : List Tok),
    prep (print e ++ r) = print (prepE e) ++ prep r := by
  intro e
  induction e with
  | var s => intro _ r; simp [print, prepE, prep_cons_ne]
  | num s => intro _ r; simp [print, prepE, prep_cons_ne]
  | paren e ih =>
    intro hp r
    simp only [plain] at hp
    simp only [print, prepE, List.cons_append, List.append_assoc]
    rw [prep_cons_ne _ (by simp), ih hp, prep_cons_ne _ (by simp)]
    simp
  | bin op l r ihl ihr =>
    intro hp rest
    simp only [plain, Bool.and_eq_true] at hp
    simp only [print, prepE, List.append_assoc, List.cons_append]
    have hq : op ≠ ['?'] := by
      have := hp.1.1; simp only [okOpStr, Bool.and_eq_true, bne_iff_ne, ne_eq] at this; exact this.1.1
    rw [ihl hp.1.2, prep_cons_ne _ (by simp [hq]), ihr hp.2]
  | tern c t e ihc iht ihe =>
    intro hp rest
    simp only [plain, Bool.and_eq_true] at hp
    simp only [print, prepE, List.append_assoc, List.cons_append]
    rw [ihc hp.1.1, prep.eq_2]
    simp only [if_true]
    rw [scanQ_print t hp.1.2]
    simp only [scanQ, Tok.isOpener, Bool.false_eq_true, if_false, if_true, Bool.false_or, Nat.zero_add]
    cases htf : topFree t with
    | true =>
      simp only [Bool.not_true, if_true]
      rw [iht hp.1.2, prep_cons_ne _ (by simp), ihe hp.2]
    | false =>
      simp only [Bool.not_false, Bool.false_eq_true, if_false]
      rw [insertAt_append, prep_cons_ne _ (by simp), iht hp.1.2, prep_cons_ne _ (by simp), prep_cons_ne _ (by simp), ihe hp.2]
      simp [print]
  | pre op e ih =>
    intro hp rest
    simp only [plain, Bool.and_eq_true] at hp
    have hq : op ≠ ['?'] := by
      have := hp.1; simp only [okOpStr, Bool.and_eq_true, bne_iff_ne, ne_eq] at this; exact this.1.1
    simp only [print, prepE, List.cons_append]
    rw [prep_cons_ne _ (by simp [hq]), ih hp.2]
  | post op e ih =>
    intro hp rest
    simp only [plain, Bool.and_eq_true] at hp
    have hq : op ≠ ['?'] := by
      have := hp.1; simp only [okOpStr, Bool.and_eq_true, bne_iff_ne, ne_eq] at this; exact this.1.1
    simp only [print, prepE, List.append_assoc, List.singleton_append]
    rw [ih hp.2, prep_cons_ne _ (by simp [hq])]
  | cast ty k e ih =>
    intro hp rest
    simp only [plain] at hp
    simp only [print, prepE, List.cons_append, List.append_assoc]
    rw [prep_cons_ne _ (by simp)]
    have flat : ∀ (a : List Tok), (∀ t ∈ a, t ≠ Tok.op ['?']) → ∀ r, prep (a ++ r) = a ++ prep r := by
      intro a
      induction a with
      | nil => intro _ r; rfl
      | cons x xs ihx =>
        intro h r
        simp only [List.cons_append]
        rw [prep_cons_ne _ (h x (by simp)), ihx (fun t ht => h t (by simp [ht]))]
    rw [flat _ (by intro t ht; simp only [List.mem_map] at ht; obtain ⟨s, _, rfl⟩ := ht; simp)]
    rw [flat _ (by intro t ht; simp only [List.mem_replicate] at ht; rw [ht.2]; simp)]
    rw [prep_cons_ne _ (by simp), ih hp]
  | index a i iha ihi =>
    intro hp rest
    simp only [plain, Bool.and_eq_true] at hp
    simp only [print, prepE, List.append_assoc, List.cons_append, List.singleton_append]
    rw [iha hp.1, prep_cons_ne _ (by simp), ihi hp.2, prep_cons_ne _ (by simp)]
    simp
  | member a m ih =>
    intro hp rest
    simp only [plain] at hp
    simp only [print, prepE, List.append_assoc, List.cons_append, List.nil_append]
    rw [ih hp, prep_cons_ne _ (by simp), prep_cons_ne _ (by simp)]
  | call0 f v =>
    intro _ rest
    simp only [print, prepE, List.cons_append, List.nil_append]
    rw [prep_cons_ne _ (by unfold fname; split <;> simp), prep_cons_ne _ (by simp), prep_cons_ne _ (by simp)]
  | call f v a ih =>
    intro hp rest
    simp only [plain] at hp
    simp only [print, prepE, List.cons_append, List.append_assoc, List.singleton_append]
    rw [prep_cons_ne _ (by unfold fname; split <;> simp), prep_cons_ne _ (by simp), ih hp, prep_cons_ne _ (by simp)]
    simp

theorem prep_print_nil (e : PExpr) (h : plain e = true) : prep (print e) = print (prepE e) := by
  have := prep_print e h []
  simpa [prep.eq_1] using this

theorem plain_prepE : ∀ e : PExpr, plain (prepE e) = plain e := by
  intro e
  induction e with
  | var s => rfl
  | num s => rfl
  | paren e ih => simpa [prepE, plain] using ih
  | bin op l r ihl ihr => simp [prepE, plain, ihl, ihr]
  | tern c t e ihc iht ihe =>
    simp only [prepE]
    split <;> simp [plain, ihc, iht, ihe]
  | pre op e ih => simp [prepE, plain, ih]
  | post op e ih => simp [prepE, plain, ih]
  | cast ty k e ih => simpa [prepE, plain] using ih
  | index a i iha ihi => simp [prepE, plain, iha, ihi]
  | member a m ih => simpa [prepE, plain] using ih
  | call0 f v => rfl
  | call f v a ih => simpa [prepE, plain] using ih

theorem prepE_idem : ∀ e : PExpr, prepE (prepE e) = prepE e := by
  intro e
  induction e with
  | var s => rfl
  | num s => rfl
  | paren e ih => simp [prepE, ih]
  | bin op l r ihl ihr => simp [prepE, ihl, ihr]
  | tern c t e ihc iht ihe =>
    cases h : topFree t with
    | true => simp [prepE, h, topFree_prepE, ihc, iht, ihe]
    | false => simp [prepE, h, topFree, ihc, iht, ihe]
  | pre op e ih => simp [prepE, ih]
  | post op e ih => simp [prepE, ih]
  | cast ty k e ih => simp [prepE, ih]
  | index a i iha ihi => simp [prepE, iha, ihi]
  | member a m ih => simp [prepE, ih]
  | call0 f v => rfl
  | call f v a ih => simp [prepE, ih]

/-- the pass runs twice in simplifyTokenList1; the second run changes nothing -/
theorem prep_prep_print (e : PExpr) (h : plain e = true) : prep (prep (print e)) = print (prepE e) := by
  rw [prep_print_nil e h, prep_print_nil (prepE e) (by rw [plain_prepE]; exact h), prepE_idem]

section Generic
variable (M : Nat) (cpp : Bool) (prim : Nat → St → R)

/-- the loop of the topmost level of `ls` (what remains to be done at that level once an operand is on the stack) -/
def K : List Level → Nat → St → R
  | [], _, st => .ok st
  | lv :: below, d, st =>
    match lv.kind with
    | .left => loopLeft M cpp lv (ladder M cpp prim below) d st
    | .assignTernary => assignTern M cpp lv (ladder M cpp prim below) false d st

theorem ladder_cons_left {lv : Level} (ls : List Level) (h : lv.kind = .left) (d : Nat) (st : St) :
    ladder M cpp prim (lv :: ls) d st =
      match ladder M cpp prim ls d st with
      | .error e => .error e
      | .ok st1 => loopLeft M cpp lv (ladder M cpp prim ls) d st1 := by
  rw [ladder]; simp only [h]
  cases ladder M cpp prim ls d st <;> rfl

theorem ladder_cons_at {lv : Level} (ls : List Level) (h : lv.kind = .assignTernary) (d : Nat) (st : St) :
    ladder M cpp prim (lv :: ls) d st = assignTern M cpp lv (ladder M cpp prim ls) true d st := by
  rw [ladder]; simp only [h]

/-- level `lv` does not continue at `rest` when `state.assign = a` -/
def LvStop (lv : Level) (a : Nat) (rest : List Tok) : Prop :=
  lv.step cpp rest = .stop ∧
  (lv.kind = .assignTernary → rest.head? ≠ some (.op ['?']) ∧ (rest.head? = some (.op [':']) → a > 0))

theorem K_stop {lv : Level} (below : List Level) (d : Nat) (st : St) (h : LvStop cpp lv st.assign st.inp) :
    K M cpp prim (lv :: below) d st = .ok st := by
  cases hk : lv.kind with
  | left => simp only [K, hk]; rw [loopLeft.eq_1, h.1]
  | assignTernary =>
    simp only [K, hk]
    rw [assignTern.eq_1]
    simp only [Bool.false_eq_true, if_false]
    have h2 := h.2 hk
    cases hi : st.inp with
    | nil => rfl
    | cons t rest =>
      simp only
      rw [← hi, h.1]
      simp only
      rw [hi] at h2
      simp only [List.head?_cons, ne_eq, Option.some.injEq] at h2
      simp only [h2.1, if_false]
      by_cases hc : t = Tok.op [':']
      · simp only [hc, if_true]
        have := h2.2 hc
        simp [this]
      · simp [hc]

/-- from the levels `more` up to `a0 :: more`, when `a0` does not continue at the rest -/
theorem descend {a0 : Level} (more : List Level) (d : Nat) (st0 st' : St)
    (hsub : ladder M cpp prim more d st0 = .ok st') (hlen : st'.inp.length ≤ st0.inp.length) :
    ladder M cpp prim (a0 :: more) d st0 = K M cpp prim (a0 :: more) d st' := by
  cases hk : a0.kind with
  | left => simp only [K, hk]; rw [ladder_cons_left M cpp prim more hk, hsub]
  | assignTernary =>
    simp only [K, hk]
    rw [ladder_cons_at M cpp prim more hk, assignTern.eq_1]
    simp only [if_true, hsub, hlen]


theorem next_inp {st : St} {t : Tok} {r : List Tok} (h : st.inp = t :: r) : st.next.inp = r := by
  simp [St.next, h]

theorem next_pre {st : St} {t : Tok} {r : List Tok} (h : st.inp = t :: r) : st.next.pre = t :: st.pre := by
  simp [St.next, h]

theorem next_stk (st : St) : st.next.stk = st.stk := by
  unfold St.next; split <;> rfl

theorem next_assign (st : St) : st.next.assign = st.assign := by
  unfold St.next; split <;> rfl

/-- one iteration of a left-associative level -/
theorem step_left {lv : Level} (below : List Level) (hk : lv.kind = .left) (d : Nat) (st1 st2 : St) (s : Wire.Str)
    (t : Tok) (r : List Tok) (hinp : st1.inp = t :: r)
    (hstep : lv.step cpp st1.inp = .take s) (hd : d + 1 ≤ M) (hne : r ≠ [])
    (h2 : ladder M cpp prim below (d + 1) st1.next = .ok st2)
    (hlen : st2.inp.length < st1.inp.length) :
    K M cpp prim (lv :: below) d st1 =
      K M cpp prim (lv :: below) d { st2 with stk := combine2 s st1.pos st2.stk } := by
  simp only [K, hk]
  conv => lhs; rw [loopLeft.eq_1]
  have hne' : st1.next.inp.isEmpty = false := by
    rw [next_inp hinp]; cases r with
    | nil => exact absurd rfl hne
    | cons _ _ => rfl
  simp only [hstep, binopWith, show ¬ (d + 1 > M) by omega, if_false, hne', Bool.false_eq_true, h2, hlen, if_true]

/-- an assignment operator in compileAssignTernary -/
theorem step_assign {lv : Level} (below : List Level) (hk : lv.kind = .assignTernary) (d : Nat) (st1 st2 : St) (s : Wire.Str)
    (t : Tok) (r : List Tok) (hinp : st1.inp = t :: r)
    (hstep : lv.step cpp st1.inp = .take s) (hd : d + 1 ≤ M) (hne : r ≠ [])
    (h2 : assignTern M cpp lv (ladder M cpp prim below) true (d + 1) ({ st1 with assign := st1.assign + 1 } : St).next = .ok st2)
    (hlen : st2.inp.length < st1.inp.length) :
    K M cpp prim (lv :: below) d st1 =
      K M cpp prim (lv :: below) d { st2 with stk := combine2 s st1.pos st2.stk, assign := st2.assign - 1 } := by
  simp only [K, hk]
  conv => lhs; rw [assignTern.eq_1]
  have hi' : ({ st1 with assign := st1.assign + 1 } : St).inp = t :: r := hinp
  have hne' : (({ st1 with assign := st1.assign + 1 } : St).next).inp.isEmpty = false := by
    rw [next_inp hi']; cases r with
    | nil => exact absurd rfl hne
    | cons _ _ => rfl
  have hl1 : (({ st1 with assign := st1.assign + 1 } : St).next).inp.length < st1.inp.length := by
    rw [next_inp hi', hinp]; simp
  simp only [Bool.false_eq_true, if_false, hinp]
  rw [← hinp]
  simp only [hstep, binopWith, show ¬ (d + 1 > M) by omega, if_false, hne', Bool.false_eq_true, hl1, if_true, h2, hlen]
  rfl

/-- `?` in compileAssignTernary -/
theorem step_quest {lv : Level} (below : List Level) (hk : lv.kind = .assignTernary) (d : Nat) (st1 st2 : St)
    (r : List Tok) (hinp : st1.inp = Tok.op ['?'] :: r)
    (hstep : lv.step cpp st1.inp = .stop) (hcolon : r.head? ≠ some (Tok.op [':'])) (hd : d + 1 ≤ M) (hne : r ≠ [])
    (h2 : assignTern M cpp lv (ladder M cpp prim below) true (d + 1) ({ st1 with assign := 0 } : St).next = .ok st2)
    (hlen : st2.inp.length < st1.inp.length) :
    K M cpp prim (lv :: below) d st1 =
      K M cpp prim (lv :: below) d { st2 with stk := combine2 ['?'] st1.pos st2.stk, assign := st1.assign } := by
  simp only [K, hk]
  conv => lhs; rw [assignTern.eq_1]
  have hi' : ({ st1 with assign := 0 } : St).inp = Tok.op ['?'] :: r := hinp
  have hne' : (({ st1 with assign := 0 } : St).next).inp.isEmpty = false := by
    rw [next_inp hi']; cases r with
    | nil => exact absurd rfl hne
    | cons _ _ => rfl
  have hl1 : (({ st1 with assign := 0 } : St).next).inp.length < st1.inp.length := by
    rw [next_inp hi', hinp]; simp
  simp only [Bool.false_eq_true, if_false, hinp]
  rw [← hinp]
  simp only [hstep, if_true, hcolon, if_false, binopWith, show ¬ (d + 1 > M) by omega, hne', Bool.false_eq_true, hl1, h2, hlen]
  rfl

/-- `:` in compileAssignTernary (with `state.assign == 0`) -/
theorem step_colon {lv : Level} (below : List Level) (hk : lv.kind = .assignTernary) (d : Nat) (st1 st2 : St)
    (r : List Tok) (hinp : st1.inp = Tok.op [':'] :: r)
    (hstep : lv.step cpp st1.inp = .stop) (ha : st1.assign = 0) (hd : d + 1 ≤ M) (hne : r ≠ [])
    (h2 : assignTern M cpp lv (ladder M cpp prim below) true (d + 1) st1.next = .ok st2)
    (hlen : st2.inp.length < st1.inp.length) :
    K M cpp prim (lv :: below) d st1 =
      K M cpp prim (lv :: below) d { st2 with stk := combine2 [':'] st1.pos st2.stk } := by
  simp only [K, hk]
  conv => lhs; rw [assignTern.eq_1]
  have hne' : st1.next.inp.isEmpty = false := by
    rw [next_inp hinp]; cases r with
    | nil => exact absurd rfl hne
    | cons _ _ => rfl
  have hl1 : st1.next.inp.length < st1.inp.length := by
    rw [next_inp hinp, hinp]; simp
  simp only [Bool.false_eq_true, if_false, hinp]
  rw [← hinp]
  simp only [hstep, if_true, binopWith, show ¬ (d + 1 > M) by omega, if_false, hne', Bool.false_eq_true, hl1, h2, hlen,
    Tok.op.injEq, List.cons.injEq, Char.reduceEq, and_true, ha, Nat.lt_irrefl, gt_iff_lt]
  rfl

/-- entering compileAssignTernary -/
theorem at_entry {lv : Level} (below : List Level) (hk : lv.kind = .assignTernary) (d : Nat) (st0 st1 : St)
    (h1 : ladder M cpp prim below d st0 = .ok st1) (hlen : st1.inp.length ≤ st0.inp.length) :
    assignTern M cpp lv (ladder M cpp prim below) true d st0 = K M cpp prim (lv :: below) d st1 := by
  simp only [K, hk]
  conv => lhs; rw [assignTern.eq_1]
  simp only [if_true, h1, hlen]

end Generic
end Cppcheck.AstLadder

import Cppcheck.Model.LeakStraight
/-!
Proofs for Props/C04.lean, part 2: the straight-line leak automaton against the concrete-heap reference.
`Inv` relates the automaton state to the concrete state (soundness direction); `Exact` is the two-way relation that holds as
long as no pointer is copied.
-/
namespace Cppcheck.LeakStraight

/-! ### basic facts -/

theorem setA_same (a : AState) (x : Nat) (s : St) : setA a x s x = s := by simp [setA]
theorem setA_other (a : AState) {x y : Nat} (s : St) (h : y ≠ x) : setA a x s y = a y := by simp [setA, h]
theorem setE_same (e : Nat → Option Nat) (x : Nat) (v : Option Nat) : setE e x v x = v := by simp [setE]
theorem setE_other (e : Nat → Option Nat) {x y : Nat} (v : Option Nat) (h : y ≠ x) : setE e x v y = e y := by simp [setE, h]

theorem mem_retReports {n : Nat} {a : AState} {rx : Option Nat} {pos : Nat} {r : Rep} :
    r ∈ retReports n a rx pos ↔
      ∃ v, v < n ∧ ((rx = some v ∧ a v = .dealloc ∧ r = ⟨.deallocret, v, pos⟩) ∨
                    (rx ≠ some v ∧ a v = .alloc ∧ r = ⟨.memleak, v, pos⟩)) := by
  unfold retReports
  simp only [List.mem_filterMap, List.mem_range]
  constructor
  · rintro ⟨v, hv, h⟩
    refine ⟨v, hv, ?_⟩
    by_cases h1 : rx = some v
    · simp only [h1, if_true] at h
      by_cases h2 : a v = .dealloc
      · simp [h2] at h; exact Or.inl ⟨h1, h2, h.symm⟩
      · simp [h2] at h
    · simp only [h1, if_false] at h
      by_cases h2 : a v = .alloc
      · simp [h2] at h; exact Or.inr ⟨h1, h2, h.symm⟩
      · simp [h2] at h
  · rintro ⟨v, hv, h⟩
    refine ⟨v, hv, ?_⟩
    rcases h with ⟨h1, h2, h3⟩ | ⟨h1, h2, h3⟩
    · simp [h1, h2, h3]
    · simp [h1, h2, h3]

theorem mem_retEvents {n : Nat} {c : CState} {rx : Option Nat} {pos : Nat} {r : Rep} :
    r ∈ retEvents n c rx pos ↔
      ∃ v, v < n ∧
        ((rx = some v ∧ ((∃ b, c.env v = some b ∧ c.freed b = true ∧ r = ⟨.deallocret, v, pos⟩) ∨
                         (c.env v = none ∧ r = ⟨.uninit, v, pos⟩))) ∨
         (rx ≠ some v ∧ ∃ b, c.env v = some b ∧ c.live b = true ∧ rx.bind c.env ≠ some b ∧ r = ⟨.memleak, v, pos⟩)) := by
  unfold retEvents
  simp only [List.mem_filterMap, List.mem_range]
  constructor
  · rintro ⟨v, hv, h⟩
    refine ⟨v, hv, ?_⟩
    by_cases h1 : rx = some v
    · simp only [h1, if_true] at h
      left
      refine ⟨h1, ?_⟩
      cases he : c.env v with
      | none => simp [he] at h; exact Or.inr ⟨rfl, h.symm⟩
      | some b =>
        simp only [he] at h
        by_cases hf : c.freed b = true
        · simp [hf] at h; exact Or.inl ⟨b, rfl, hf, h.symm⟩
        · simp [hf] at h
    · simp only [h1, if_false] at h
      right
      refine ⟨h1, ?_⟩
      cases he : c.env v with
      | none => simp [he] at h
      | some b =>
        simp only [he] at h
        by_cases hl : (c.live b && (rx.bind c.env) != some b) = true
        · simp only [hl, if_true] at h
          simp at hl h
          exact ⟨b, rfl, hl.1, hl.2, h.symm⟩
        · simp [hl] at h
  · rintro ⟨v, hv, h⟩
    refine ⟨v, hv, ?_⟩
    rcases h with ⟨h1, h⟩ | ⟨h1, b, he, hl, hne, hr⟩
    · rcases h with ⟨b, he, hf, hr⟩ | ⟨he, hr⟩
      · simp [h1, he, hf, hr]
      · simp [h1, he, hr]
    · have : (c.live b && (rx.bind c.env) != some b) = true := by simp [hl, hne]
      simp only [h1, if_false, he, this, if_true, hr]

theorem retReports_pos {n : Nat} {a : AState} {rx : Option Nat} {pos : Nat} {r : Rep}
    (h : r ∈ retReports n a rx pos) : r.pos = pos := by
  obtain ⟨v, _, h⟩ := mem_retReports.mp h
  rcases h with ⟨_, _, h⟩ | ⟨_, _, h⟩ <;> subst h <;> rfl

theorem step_pos (n : Nat) (a : AState) (pos : Nat) (op : Op) : ∀ r ∈ (step n a pos op).2, r.pos = pos := by
  intro r hr
  cases op with
  | alloc x => simp only [step] at hr; split at hr <;> simp at hr; subst hr; rfl
  | free x => simp only [step] at hr; split at hr <;> simp at hr; subst hr; rfl
  | use x => simp only [step] at hr; split at hr <;> simp at hr; subst hr; rfl
  | assign x y =>
    simp only [step] at hr
    split at hr
    · simp at hr
    · split at hr <;> simp at hr; subst hr; rfl
  | ret x => exact retReports_pos hr
  | ret0 => exact retReports_pos hr

theorem scan_pos_ge (n : Nat) : ∀ (ops : List Op) (a : AState) (pos : Nat), ∀ r ∈ scan n a pos ops, pos ≤ r.pos := by
  intro ops
  induction ops with
  | nil => intro a pos r hr; simp only [scan] at hr; rw [retReports_pos hr]; exact Nat.le_refl _
  | cons op rest ih =>
    intro a pos r hr
    simp only [scan, List.mem_append] at hr
    rcases hr with hr | hr
    · rw [step_pos n a pos op r hr]; exact Nat.le_refl _
    · exact Nat.le_of_succ_le (ih _ _ r hr)

theorem cstep_stop (n : Nat) (c : CState) (pos : Nat) (op : Op) : (cstep n c pos op).2.2 = op.isRet := by
  cases op <;> simp only [cstep, Op.isRet]
  · split <;> (try split) <;> rfl
  · split <;> rfl
  · split <;> rfl

/-! ### soundness invariant -/

/-- automaton state `a` under-approximates the concrete state `c` -/
structure Inv (a : AState) (c : CState) : Prop where
  alloc : ∀ x, a x = .alloc → ∃ b, c.env x = some b ∧ c.live b = true ∧ ∀ y, y ≠ x → c.env y ≠ some b
  dealloc : ∀ x, a x = .dealloc → ∃ b, c.env x = some b ∧ c.freed b = true
  bound : ∀ y b, c.env y = some b → b < c.next
  freedBound : ∀ b, c.freed b = true → b < c.next

theorem inv_init : Inv clearA init := by
  constructor <;> intros <;> simp_all [clearA, init]

theorem inv_clear {a : AState} {c : CState} (h : Inv a c) : Inv clearA c := by
  constructor
  · intro x hx; simp [clearA] at hx
  · intro x hx; simp [clearA] at hx
  · exact h.bound
  · exact h.freedBound

theorem not_otherHolder {n : Nat} {c : CState} {x b : Nat} (h : ∀ y, y ≠ x → c.env y ≠ some b) :
    otherHolder n c x b = false := by
  unfold otherHolder
  rw [Bool.eq_false_iff]
  intro hany
  obtain ⟨y, _, hy⟩ := List.any_eq_true.mp hany
  simp at hy
  exact h y hy.1 hy.2

theorem lost_of_alloc {n : Nat} {a : AState} {c : CState} (h : Inv a c) {x pos : Nat} (hx : a x = .alloc) :
    lostOnOverwrite n c x pos = [⟨.memleak, x, pos⟩] := by
  obtain ⟨b, he, hl, hu⟩ := h.alloc x hx
  unfold lostOnOverwrite
  simp [he, hl, not_otherHolder hu]

/-- reports of the return step are events of the concrete return -/
theorem retReports_sub {n : Nat} {a : AState} {c : CState} (h : Inv a c) (rx : Option Nat) (pos : Nat) :
    ∀ r ∈ retReports n a rx pos, r ∈ retEvents n c rx pos := by
  intro r hr
  obtain ⟨v, hv, hr⟩ := mem_retReports.mp hr
  refine mem_retEvents.mpr ⟨v, hv, ?_⟩
  rcases hr with ⟨h1, h2, h3⟩ | ⟨h1, h2, h3⟩
  · obtain ⟨b, he, hf⟩ := h.dealloc v h2
    exact Or.inl ⟨h1, Or.inl ⟨b, he, hf, h3⟩⟩
  · obtain ⟨b, he, hl, hu⟩ := h.alloc v h2
    refine Or.inr ⟨h1, b, he, hl, ?_, h3⟩
    cases rx with
    | none => simp
    | some x =>
      have hxv : x ≠ v := fun e => h1 (by rw [e])
      simpa using hu x hxv

/-- one statement: every report is an event, and the invariant survives unless an uninitialised pointer was read -/
theorem step_sound (n : Nat) {a : AState} {c : CState} (h : Inv a c) (pos : Nat) (op : Op) :
    (∀ r ∈ (step n a pos op).2, r ∈ (cstep n c pos op).2.1) ∧
    (Inv (step n a pos op).1 (cstep n c pos op).1 ∨ ∃ u ∈ (cstep n c pos op).2.1, u.kind = .uninit ∧ u.pos = pos) := by
  cases op with
  | alloc x =>
    simp only [step, cstep]
    constructor
    · intro r hr
      split at hr
      · rename_i hx; rw [lost_of_alloc h hx]; exact hr
      · simp at hr
    · left
      constructor
      · intro z hz
        by_cases hzx : z = x
        · subst hzx
          refine ⟨c.next, by simp [setE], ?_, ?_⟩
          · simp only [CState.live]
            have : c.freed c.next = false := by
              cases hf : c.freed c.next with
              | false => rfl
              | true => exact absurd (h.freedBound _ hf) (Nat.lt_irrefl _)
            simp [this]
          · intro y hy hey
            simp only [setE_other _ _ hy] at hey
            exact absurd (h.bound y _ hey) (Nat.lt_irrefl _)
        · rw [setA_other _ _ hzx] at hz
          obtain ⟨b, he, hl, hu⟩ := h.alloc z hz
          refine ⟨b, by simp only [setE_other _ _ hzx]; exact he, ?_, ?_⟩
          · simp only [CState.live] at hl ⊢
            simp at hl ⊢
            exact ⟨Nat.lt_succ_of_lt hl.1, hl.2⟩
          · intro y hy
            by_cases hyx : y = x
            · subst hyx
              simp only [setE_same]
              intro heq; injection heq with heq
              have := h.bound z b he
              omega
            · simp only [setE_other _ _ hyx]; exact hu y hy
      · intro z hz
        by_cases hzx : z = x
        · subst hzx; simp [setA_same] at hz
        · rw [setA_other _ _ hzx] at hz
          obtain ⟨b, he, hf⟩ := h.dealloc z hz
          exact ⟨b, by simp only [setE_other _ _ hzx]; exact he, hf⟩
      · intro y b hy
        by_cases hyx : y = x
        · subst hyx; simp [setE_same] at hy; subst hy; exact Nat.lt_succ_self _
        · simp only [setE_other _ _ hyx] at hy; exact Nat.lt_succ_of_lt (h.bound y b hy)
      · intro b hb; exact Nat.lt_succ_of_lt (h.freedBound b hb)
  | free x =>
    simp only [step, cstep]
    by_cases hx : a x = .dealloc
    · obtain ⟨b, he, hf⟩ := h.dealloc x hx
      simp only [hx, if_true, he, hf]
      exact ⟨fun r hr => hr, Or.inl h⟩
    · simp only [hx, if_false]
      constructor
      · intro r hr; simp at hr
      · cases he : c.env x with
        | none => right; exact ⟨⟨.uninit, x, pos⟩, by simp, rfl, rfl⟩
        | some b =>
          by_cases hf : c.freed b = true
          · -- concrete double free that the automaton does not know about: state unchanged, x is marked DEALLOC
            left
            simp only [hf, if_true]
            constructor
            · intro z hz
              by_cases hzx : z = x
              · subst hzx; simp [setA_same] at hz
              · rw [setA_other _ _ hzx] at hz; exact h.alloc z hz
            · intro z hz
              by_cases hzx : z = x
              · subst hzx; exact ⟨b, he, hf⟩
              · rw [setA_other _ _ hzx] at hz; exact h.dealloc z hz
            · exact h.bound
            · exact h.freedBound
          · left
            simp only [hf]
            constructor
            · intro z hz
              by_cases hzx : z = x
              · subst hzx; simp [setA_same] at hz
              · rw [setA_other _ _ hzx] at hz
                obtain ⟨b', he', hl, hu⟩ := h.alloc z hz
                refine ⟨b', he', ?_, hu⟩
                have hne : b' ≠ b := by
                  intro e; subst e; exact hu x (fun e => hzx e.symm) he
                simp only [CState.live] at hl ⊢
                simp at hl ⊢
                exact ⟨hl.1, hne, hl.2⟩
            · intro z hz
              by_cases hzx : z = x
              · subst hzx; exact ⟨b, he, by simp⟩
              · rw [setA_other _ _ hzx] at hz
                obtain ⟨b', he', hf'⟩ := h.dealloc z hz
                exact ⟨b', he', by simp [hf']⟩
            · exact h.bound
            · intro b' hb'
              simp at hb'
              rcases hb' with hb' | hb'
              · subst hb'; exact h.bound x _ he
              · exact h.freedBound b' hb'
  | use x =>
    simp only [step, cstep]
    by_cases hx : a x = .dealloc
    · obtain ⟨b, he, hf⟩ := h.dealloc x hx
      simp only [hx, if_true, he, hf]
      exact ⟨fun r hr => hr, Or.inl h⟩
    · simp only [hx, if_false]
      refine ⟨fun r hr => by simp at hr, ?_⟩
      cases he : c.env x with
      | none => right; exact ⟨⟨.uninit, x, pos⟩, by simp, rfl, rfl⟩
      | some b => left; exact h
  | assign x y =>
    simp only [step, cstep]
    by_cases hxy : x = y
    · simp only [hxy, if_true]
      refine ⟨fun r hr => by simp at hr, Or.inl ?_⟩
      constructor
      · intro z hz
        by_cases hzy : z = y
        · subst hzy; simp [setA_same] at hz
        · rw [setA_other _ _ hzy] at hz; exact h.alloc z hz
      · intro z hz
        by_cases hzy : z = y
        · subst hzy; simp [setA_same] at hz
        · rw [setA_other _ _ hzy] at hz; exact h.dealloc z hz
      · exact h.bound
      · exact h.freedBound
    · simp only [hxy, if_false]
      constructor
      · intro r hr
        split at hr
        · rename_i hx; rw [lost_of_alloc h hx]; exact List.mem_append_left _ hr
        · simp at hr
      · cases hey : c.env y with
        | none => right; exact ⟨⟨.uninit, y, pos⟩, by simp, rfl, rfl⟩
        | some by_ =>
          left
          constructor
          · intro z hz
            by_cases hzy : z = y
            · subst hzy; simp [setA_same] at hz
            · rw [setA_other _ _ hzy] at hz
              by_cases hzx : z = x
              · subst hzx; simp [setA_same] at hz
              · rw [setA_other _ _ hzx] at hz
                obtain ⟨b, he, hl, hu⟩ := h.alloc z hz
                refine ⟨b, by simp only [setE_other _ _ hzx]; exact he, hl, ?_⟩
                intro w hw
                by_cases hwx : w = x
                · subst hwx; simp only [setE_same]
                  rw [← hey]
                  exact hu y (fun e => hzy e.symm)
                · simp only [setE_other _ _ hwx]; exact hu w hw
          · intro z hz
            by_cases hzy : z = y
            · subst hzy; simp [setA_same] at hz
            · rw [setA_other _ _ hzy] at hz
              by_cases hzx : z = x
              · subst hzx; simp [setA_same] at hz
              · rw [setA_other _ _ hzx] at hz
                obtain ⟨b, he, hf⟩ := h.dealloc z hz
                exact ⟨b, by simp only [setE_other _ _ hzx]; exact he, hf⟩
          · intro w b hw
            by_cases hwx : w = x
            · subst hwx; simp only [setE_same] at hw; exact h.bound y b (by rw [hey]; exact hw)
            · simp only [setE_other _ _ hwx] at hw; exact h.bound w b hw
          · exact h.freedBound
  | ret x =>
    simp only [step, cstep]
    exact ⟨retReports_sub h _ _, Or.inl (inv_clear h)⟩
  | ret0 =>
    simp only [step, cstep]
    exact ⟨retReports_sub h _ _, Or.inl (inv_clear h)⟩

theorem retOnlyLast_cons {op : Op} {rest : List Op} (h : retOnlyLast (op :: rest) = true) :
    (rest = [] ∨ op.isRet = false) ∧ retOnlyLast rest = true := by
  cases rest with
  | nil => exact ⟨Or.inl rfl, rfl⟩
  | cons o r =>
    simp only [retOnlyLast, Bool.and_eq_true, Bool.not_eq_true'] at h
    exact ⟨Or.inr h.1, h.2⟩

theorem scan_clear_nil (n pos : Nat) : scan n clearA pos [] = [] := by
  simp only [scan]
  apply List.eq_nil_iff_forall_not_mem.mpr
  intro r hr
  obtain ⟨v, _, h⟩ := mem_retReports.mp hr
  rcases h with ⟨_, h, _⟩ | ⟨_, h, _⟩ <;> simp [clearA] at h

/-- soundness of the scan against the concrete execution, for any related start states -/
theorem scan_sound (n : Nat) : ∀ (ops : List Op) (a : AState) (c : CState) (pos : Nat),
    Inv a c → retOnlyLast ops = true →
    ∀ r ∈ scan n a pos ops, r ∈ oscan n c pos ops ∨ ∃ u ∈ oscan n c pos ops, u.kind = .uninit ∧ u.pos < r.pos := by
  intro ops
  induction ops with
  | nil =>
    intro a c pos h _ r hr
    simp only [scan] at hr
    simp only [oscan]
    exact Or.inl (retReports_sub h none pos r hr)
  | cons op rest ih =>
    intro a c pos h hl r hr
    obtain ⟨hlast, hrest⟩ := retOnlyLast_cons hl
    obtain ⟨hsub, hinv⟩ := step_sound n h pos op
    simp only [scan, List.mem_append] at hr
    simp only [oscan, cstep_stop]
    rcases hr with hr | hr
    · -- a report of this statement
      left
      by_cases hret : op.isRet = true
      · simp only [hret, if_true]; exact hsub r hr
      · simp only [hret]; exact List.mem_append_left _ (hsub r hr)
    · -- a report of a later statement
      by_cases hret : op.isRet = true
      · rcases hlast with hnil | hnr
        · subst hnil
          have hclear : (step n a pos op).1 = clearA := by
            cases op <;> simp [Op.isRet] at hret <;> rfl
          rw [hclear, scan_clear_nil] at hr
          simp at hr
        · rw [hnr] at hret; simp at hret
      · simp only [hret]
        rcases hinv with hinv | ⟨u, hu, hk, hp⟩
        · rcases ih _ _ (pos + 1) hinv hrest r hr with h1 | ⟨u, hu, hk, hp⟩
          · exact Or.inl (List.mem_append_right _ h1)
          · exact Or.inr ⟨u, List.mem_append_right _ hu, hk, hp⟩
        · have hge := scan_pos_ge n rest _ (pos + 1) r hr
          exact Or.inr ⟨u, List.mem_append_left _ hu, hk, by omega⟩

/-! ### exactness (no pointer copies, no uninitialised reads) -/

/-- the automaton status that corresponds to the concrete value of `x` -/
def absSt (c : CState) (x : Nat) : St :=
  match c.env x with
  | none => .none
  | some b => if c.freed b then .dealloc else .alloc

structure Exact (a : AState) (c : CState) : Prop where
  abs : ∀ x, a x = absSt c x
  noAlias : ∀ x y b, x ≠ y → c.env x = some b → c.env y ≠ some b
  bound : ∀ y b, c.env y = some b → b < c.next
  freedBound : ∀ b, c.freed b = true → b < c.next

theorem filterMap_congr' {α β : Type} {f g : α → Option β} : ∀ {l : List α}, (∀ x ∈ l, f x = g x) →
    l.filterMap f = l.filterMap g
  | [], _ => rfl
  | x :: r, h => by
    have hx := h x List.mem_cons_self
    have hr := filterMap_congr' (l := r) (fun y hy => h y (List.mem_cons_of_mem _ hy))
    simp only [List.filterMap_cons, hx, hr]

theorem exact_init : Exact clearA init := by
  constructor <;> intros <;> simp_all [clearA, init, absSt]

theorem retReports_eq {n : Nat} {a : AState} {c : CState} (h : Exact a c) (rx : Option Nat) (pos : Nat)
    (hu : ∀ u ∈ retEvents n c rx pos, u.kind ≠ .uninit) : retReports n a rx pos = retEvents n c rx pos := by
  unfold retReports retEvents
  apply filterMap_congr'
  intro v hv
  have hvn : v < n := List.mem_range.mp hv
  have ha := h.abs v
  unfold absSt at ha
  by_cases h1 : rx = some v
  · simp only [h1, if_true]
    cases he : c.env v with
    | none =>
      exfalso
      exact hu ⟨.uninit, v, pos⟩ (mem_retEvents.mpr ⟨v, hvn, Or.inl ⟨h1, Or.inr ⟨he, rfl⟩⟩⟩) rfl
    | some b =>
      simp only [he] at ha
      by_cases hf : c.freed b = true
      · simp [hf] at ha; simp [ha, hf]
      · simp [hf] at ha; simp [ha, hf]
  · simp only [h1, if_false]
    cases he : c.env v with
    | none => simp only [he] at ha; simp [ha]
    | some b =>
      simp only [he] at ha
      by_cases hf : c.freed b = true
      · simp [hf] at ha; simp [ha, hf, CState.live]
      · simp [hf] at ha
        have hl : c.live b = true := by
          simp only [CState.live]; simp [hf]; exact h.bound v b he
        have hne : (rx.bind c.env != some b) = true := by
          cases rx with
          | none => simp
          | some x =>
            have hxv : x ≠ v := fun e => h1 (by rw [e])
            simpa using h.noAlias v x b (fun e => hxv e.symm) he
        simp [ha, hl, hne]

theorem lost_eq {n : Nat} {a : AState} {c : CState} (h : Exact a c) (x pos : Nat) :
    (if a x = .alloc then [(⟨.memleak, x, pos⟩ : Rep)] else []) = lostOnOverwrite n c x pos := by
  have ha := h.abs x
  unfold absSt at ha
  unfold lostOnOverwrite
  cases he : c.env x with
  | none => simp only [he] at ha; simp [ha]
  | some b =>
    simp only [he] at ha
    by_cases hf : c.freed b = true
    · simp [hf] at ha; simp [ha, hf, CState.live]
    · simp [hf] at ha
      have hl : c.live b = true := by
        simp only [CState.live]; simp [hf]; exact h.bound x b he
      have ho : otherHolder n c x b = false := not_otherHolder (fun y hy => h.noAlias x y b (fun e => hy e.symm) he)
      simp [ha, hl, ho]

/-- one statement that is neither a pointer copy nor reads an uninitialised pointer: same reports, and (unless it returns)
    the exact relation is kept -/
theorem step_exact (n : Nat) {a : AState} {c : CState} (h : Exact a c) (pos : Nat) (op : Op)
    (hna : op.isAssign = false) (hu : ∀ u ∈ (cstep n c pos op).2.1, u.kind ≠ .uninit) :
    (step n a pos op).2 = (cstep n c pos op).2.1 ∧
    (op.isRet = false → Exact (step n a pos op).1 (cstep n c pos op).1) := by
  cases op with
  | alloc x =>
    simp only [step, cstep]
    refine ⟨lost_eq h x pos, fun _ => ?_⟩
    have hfn : c.freed c.next = false := by
      cases hf : c.freed c.next with
      | false => rfl
      | true => exact absurd (h.freedBound _ hf) (Nat.lt_irrefl _)
    constructor
    · intro z
      unfold absSt
      by_cases hzx : z = x
      · subst hzx; simp [setA_same, setE_same, hfn]
      · simp only [setA_other _ _ hzx, setE_other _ _ hzx]; exact h.abs z
    · intro z y b hzy hz
      by_cases hzx : z = x
      · subst hzx
        simp only [setE_same] at hz
        injection hz with hz; subst hz
        simp only [setE_other _ _ (fun e => hzy e.symm)]
        intro hy; exact absurd (h.bound y _ hy) (Nat.lt_irrefl _)
      · simp only [setE_other _ _ hzx] at hz
        by_cases hyx : y = x
        · subst hyx
          simp only [setE_same]
          intro heq; injection heq with heq
          have := h.bound z b hz
          omega
        · simp only [setE_other _ _ hyx]; exact h.noAlias z y b hzy hz
    · intro y b hy
      by_cases hyx : y = x
      · subst hyx; simp [setE_same] at hy; subst hy; exact Nat.lt_succ_self _
      · simp only [setE_other _ _ hyx] at hy; exact Nat.lt_succ_of_lt (h.bound y b hy)
    · intro b hb; exact Nat.lt_succ_of_lt (h.freedBound b hb)
  | free x =>
    simp only [step, cstep] at hu ⊢
    have ha := h.abs x
    unfold absSt at ha
    cases he : c.env x with
    | none => simp only [he] at hu; exact absurd rfl (hu ⟨.uninit, x, pos⟩ (by simp))
    | some b =>
      simp only [he] at ha
      by_cases hf : c.freed b = true
      · simp [hf] at ha
        simp only [ha, if_true, hf]
        exact ⟨trivial, fun _ => h⟩
      · simp [hf] at ha
        simp only [ha, hf]
        refine ⟨by simp, fun _ => ?_⟩
        simp
        constructor
        · intro z
          unfold absSt
          by_cases hzx : z = x
          · subst hzx; simp [setA_same, he]
          · simp only [setA_other _ _ hzx]
            have hz := h.abs z
            unfold absSt at hz
            cases hez : c.env z with
            | none => simp only [hez] at hz; simp [hz]
            | some b' =>
              simp only [hez] at hz
              have hne : b' ≠ b := fun e => h.noAlias z x b' hzx hez (e ▸ he)
              simp [hz, hne]
        · exact h.noAlias
        · exact h.bound
        · intro b' hb'
          simp at hb'
          rcases hb' with hb' | hb'
          · subst hb'; exact h.bound x _ he
          · exact h.freedBound b' hb'
  | use x =>
    simp only [step, cstep] at hu ⊢
    have ha := h.abs x
    unfold absSt at ha
    cases he : c.env x with
    | none => simp only [he] at hu; exact absurd rfl (hu ⟨.uninit, x, pos⟩ (by simp))
    | some b =>
      simp only [he] at ha
      refine ⟨?_, fun _ => h⟩
      by_cases hf : c.freed b = true
      · simp [hf] at ha; simp [ha, hf]
      · simp [hf] at ha; simp [ha, hf]
  | assign x y => simp [Op.isAssign] at hna
  | ret x =>
    simp only [step, cstep] at hu ⊢
    exact ⟨retReports_eq h _ _ hu, fun hr => by simp [Op.isRet] at hr⟩
  | ret0 =>
    simp only [step, cstep] at hu ⊢
    exact ⟨retReports_eq h _ _ hu, fun hr => by simp [Op.isRet] at hr⟩

theorem scan_exact (n : Nat) : ∀ (ops : List Op) (a : AState) (c : CState) (pos : Nat),
    Exact a c → retOnlyLast ops = true → noAssign ops = true →
    (∀ u ∈ oscan n c pos ops, u.kind ≠ .uninit) → scan n a pos ops = oscan n c pos ops := by
  intro ops
  induction ops with
  | nil =>
    intro a c pos h _ _ hu
    simp only [scan, oscan] at hu ⊢
    exact retReports_eq h none pos hu
  | cons op rest ih =>
    intro a c pos h hl hna hu
    obtain ⟨hlast, hrest⟩ := retOnlyLast_cons hl
    simp only [noAssign, List.all_cons, Bool.and_eq_true, Bool.not_eq_true'] at hna
    simp only [oscan, cstep_stop] at hu
    simp only [scan, oscan, cstep_stop]
    by_cases hret : op.isRet = true
    · simp only [hret, if_true] at hu ⊢
      obtain ⟨hrep, _⟩ := step_exact n h pos op hna.1 hu
      rcases hlast with hnil | hnr
      · subst hnil
        have hclear : (step n a pos op).1 = clearA := by
          cases op <;> simp [Op.isRet] at hret <;> rfl
        rw [hclear, scan_clear_nil, hrep]; simp
      · rw [hnr] at hret; simp at hret
    · simp only [hret] at hu ⊢
      have hu1 : ∀ u ∈ (cstep n c pos op).2.1, u.kind ≠ .uninit := fun u hm => hu u (List.mem_append_left _ hm)
      obtain ⟨hrep, hex⟩ := step_exact n h pos op hna.1 hu1
      rw [hrep]
      congr 1
      exact ih _ _ (pos + 1) (hex (by simpa using hret)) hrest (by simpa [noAssign] using hna.2)
        (fun u hm => hu u (List.mem_append_right _ hm))

end Cppcheck.LeakStraight

namespace Cppcheck.LibGroups

theorem lookup_map_append_mem {n : String} {g : Nat} : ∀ {l : List String} {rest : List (String × Nat)}, n ∈ l →
    (l.map (fun m => (m, g)) ++ rest).lookup n = some g
  | [], _, h => by simp at h
  | m :: l, rest, h => by
    by_cases hm : n = m
    · subst hm; simp [List.lookup]
    · have hl : n ∈ l := by simpa [hm] using h
      have : (n == m) = false := by simpa using hm
      simp only [List.map_cons, List.cons_append, List.lookup, this]
      exact lookup_map_append_mem hl

theorem lookup_map_append_not_mem {n : String} {g : Nat} : ∀ {l : List String} {rest : List (String × Nat)}, n ∉ l →
    (l.map (fun m => (m, g)) ++ rest).lookup n = rest.lookup n
  | [], _, _ => by simp
  | m :: l, rest, h => by
    have hm : n ≠ m := fun e => h (by simp [e])
    have hl : n ∉ l := fun e => h (by simp [e])
    have : (n == m) = false := by simpa using hm
    simp only [List.map_cons, List.cons_append, List.lookup, this]
    exact lookup_map_append_not_mem hl

theorem firstKnown_some {dealloc : List (String × Nat)} : ∀ {names : List String} {g : Nat},
    firstKnown dealloc names = some g → ∃ n ∈ names, dealloc.lookup n = some g
  | [], g, h => by simp [firstKnown] at h
  | n :: r, g, h => by
    unfold firstKnown at h
    cases hl : dealloc.lookup n with
    | some g' => simp [hl] at h; subst h; exact ⟨n, List.mem_cons_self, hl⟩
    | none =>
      simp [hl] at h
      obtain ⟨m, hm, hg⟩ := firstKnown_some h
      exact ⟨m, List.mem_cons_of_mem _ hm, hg⟩

theorem firstKnown_none {dealloc : List (String × Nat)} : ∀ {names : List String},
    firstKnown dealloc names = none → ∀ n ∈ names, dealloc.lookup n = none
  | [], _, n, hn => by simp at hn
  | m :: r, h, n, hn => by
    unfold firstKnown at h
    cases hl : dealloc.lookup m with
    | some g' => simp [hl] at h
    | none =>
      simp [hl] at h
      rcases List.mem_cons.mp hn with e | e
      · subst e; exact hl
      · exact firstKnown_none h n e

end Cppcheck.LibGroups

import Cppcheck.Model.MathLit
import Cppcheck.Proofs.Trunc
import Cppcheck.Model.ValueTypeConv
/-
Helper lemmas for C10: digit runs, the strtoull model on rendered literals, classification of rendered
literals, and the converse direction (every accepted string is a rendered literal).
-/
namespace Cppcheck.MathLit
open Cppcheck.Wire Cppcheck.CharLit Cppcheck.Trunc

/-! ## characters -/

/-- first characters of a string the suffix machine can accept -/
def sufStart (c : Char) : Bool := isU c || isL c || isZ c || isI c || c == '_'

theorem sufStart_cases {c : Char} (h : sufStart c = true) :
    c = 'u' ∨ c = 'U' ∨ c = 'l' ∨ c = 'L' ∨ c = 'z' ∨ c = 'Z' ∨ c = 'i' ∨ c = 'I' ∨ c = '_' := by
  simp only [sufStart, isU, isL, isZ, isI, Bool.or_eq_true, beq_iff_eq] at h
  rcases h with ((((h | h) | (h | h)) | (h | h)) | (h | h)) | h <;> simp [h]

theorem sufStart_of_valid {c : Char} {r : Str} {ms : Bool} (h : isValidIntegerSuffix (c :: r) ms = true) : sufStart c = true := by
  simp only [isValidIntegerSuffix, sufRun, sufStep] at h
  simp only [sufStart]
  by_cases h1 : isU c = true
  · simp [h1]
  by_cases h2 : isL c = true
  · simp [h2]
  by_cases h3 : isZ c = true
  · simp [h3]
  by_cases h4 : isI c = true
  · simp [h4]
  by_cases h5 : (c == '_') = true
  · simp [h5]
  simp [h1, h2, h3, h4, h5] at h

theorem digitOf_none_of_sufStart {b : Nat} (hb : b ≤ 16) {c : Char} (h : sufStart c = true) : digitOf b c = none := by
  rcases sufStart_cases h with h | h | h | h | h | h | h | h | h <;> subst h <;>
    simp [digitOf, CharLit.isDigit] <;> omega

theorem not_digit_of_sufStart {c : Char} (h : sufStart c = true) :
    CharLit.isDigit c = false ∧ isXDigit c = false ∧ isOctDigit c = false ∧ isBinDigit c = false := by
  rcases sufStart_cases h with h | h | h | h | h | h | h | h | h <;> subst h <;> decide

theorem digitOf_of_isDigit {b : Base} {c : Char} (h : b.isDigit c = true) : digitOf b.radix c = some (digitVal c) := by
  cases b <;> simp only [Base.isDigit, Base.radix, isXDigit, CharLit.isDigit, isOctDigit, isBinDigit, Bool.and_eq_true,
    Bool.or_eq_true, decide_eq_true_eq, beq_iff_eq] at h ⊢
  · simp only [digitOf, digitVal, CharLit.isDigit]
    have h1 : (decide (48 ≤ c.toNat) && decide (c.toNat ≤ 57)) = true := by simp; omega
    simp only [h1, if_true]
    split <;> first | rfl | omega
  · simp only [digitOf, digitVal, CharLit.isDigit]
    rcases h with (h | h) | h
    · have h1 : (decide (48 ≤ c.toNat) && decide (c.toNat ≤ 57)) = true := by simp; omega
      simp only [h1, if_true]
      split <;> first | rfl | omega
    · have h1 : (decide (48 ≤ c.toNat) && decide (c.toNat ≤ 57)) = false := by simp; omega
      have h2 : (decide (97 ≤ c.toNat) && decide (c.toNat ≤ 122)) = true := by simp; omega
      have h3 : 97 ≤ c.toNat := by omega
      simp only [h1, h2, if_true, Bool.false_eq_true, if_false]
      simp only [h3, if_true]
      split <;> first | rfl | omega
    · have h1 : (decide (48 ≤ c.toNat) && decide (c.toNat ≤ 57)) = false := by simp; omega
      have h2 : (decide (97 ≤ c.toNat) && decide (c.toNat ≤ 122)) = false := by simp; omega
      have h3 : (decide (65 ≤ c.toNat) && decide (c.toNat ≤ 90)) = true := by simp; omega
      have h4 : ¬ 97 ≤ c.toNat := by omega
      simp only [h1, h2, h3, if_true, Bool.false_eq_true, if_false]
      simp only [h4, if_false]
      split <;> first | rfl | omega
  · simp only [digitOf, digitVal, CharLit.isDigit]
    have h1 : (decide (48 ≤ c.toNat) && decide (c.toNat ≤ 57)) = true := by simp; omega
    simp only [h1, if_true]
    split <;> first | rfl | omega
  · rcases h with h | h <;> subst h <;> decide

/-! ## digit runs -/

theorem positional_append (r : Nat) (a b : Str) :
    positional r (a ++ b) = positional r a * r ^ b.length + positional r b := by
  induction a with
  | nil => simp [positional]
  | cons c cs ih =>
    simp only [List.cons_append, positional, ih, List.length_append, Nat.pow_add]
    rw [Nat.add_mul, Nat.mul_assoc, Nat.add_assoc]

/-- the accumulator loop of strtoull reads a digit string positionally and stops at the first non-digit -/
theorem digitsGo_run (b : Base) (ds : Str) (hds : ds.all b.isDigit = true) (rest : Str)
    (hrest : rest = [] ∨ ∃ c r, rest = c :: r ∧ digitOf b.radix c = none) :
    ∀ acc n, digitsGo b.radix acc n (ds ++ rest) = (acc * b.radix ^ ds.length + positional b.radix ds, n + ds.length) := by
  induction ds with
  | nil =>
    intro acc n
    rcases hrest with h | ⟨c, r, h, hc⟩
    · subst h; simp [digitsGo, positional]
    · subst h; simp [digitsGo, hc, positional]
  | cons d ds ih =>
    intro acc n
    simp only [List.all_cons, Bool.and_eq_true] at hds
    simp only [List.cons_append, digitsGo, digitOf_of_isDigit hds.1, ih hds.2, positional, List.length_cons, Nat.pow_succ]
    congr 1
    · rw [Nat.add_mul, Nat.mul_assoc, Nat.mul_comm (b.radix ^ ds.length) b.radix, Nat.add_assoc]
    · omega

theorem positional_lt (b : Base) (ds : Str) (hds : ds.all b.isDigit = true) : positional b.radix ds < b.radix ^ ds.length := by
  induction ds with
  | nil => simp [positional]
  | cons d ds ih =>
    simp only [List.all_cons, Bool.and_eq_true] at hds
    have h1 := digitOf_of_isDigit hds.1
    have hd : digitVal d < b.radix := by
      simp only [digitOf] at h1
      split at h1
      · split at h1
        · simp at h1; omega
        · simp at h1
      · simp at h1
    have := ih hds.2
    simp only [positional, List.length_cons, Nat.pow_succ]
    have hp : 0 < b.radix ^ ds.length := Nat.pow_pos (by cases b <;> decide)
    calc digitVal d * b.radix ^ ds.length + positional b.radix ds
        < digitVal d * b.radix ^ ds.length + b.radix ^ ds.length := by omega
      _ = (digitVal d + 1) * b.radix ^ ds.length := by rw [Nat.add_mul, Nat.one_mul]
      _ ≤ b.radix * b.radix ^ ds.length := Nat.mul_le_mul_right _ hd
      _ = b.radix ^ ds.length * b.radix := Nat.mul_comm _ _

/-! ## strtoull / stoull on a rendered literal -/

def body (l : Lit) : Str := l.base.pfx l.upper ++ l.digits ++ l.suffix

theorem render_eq (l : Lit) : render l = signStr l.sign ++ body l := by
  simp [render, body, List.append_assoc]

theorem wf_digits {l : Lit} (h : l.WF = true) : l.digits ≠ [] ∧ l.digits.all l.base.isDigit = true ∧
    (l.suffix = [] ∨ isValidIntegerSuffix l.suffix = true) := by
  simp only [Lit.WF, Bool.and_eq_true, Bool.or_eq_true, Bool.not_eq_true', List.isEmpty_iff] at h
  refine ⟨?_, h.1.2, h.2⟩
  intro hd; simp [hd] at h

theorem radix_le (b : Base) : b.radix ≤ 16 := by cases b <;> decide

theorem suffix_stops {l : Lit} (h : l.WF = true) :
    l.suffix = [] ∨ ∃ c r, l.suffix = c :: r ∧ sufStart c = true := by
  rcases (wf_digits h).2.2 with h1 | h1
  · exact Or.inl h1
  · cases hs : l.suffix with
    | nil => exact Or.inl rfl
    | cons c r => rw [hs] at h1; exact Or.inr ⟨c, r, rfl, sufStart_of_valid h1⟩

theorem suffix_stops_digit {l : Lit} (h : l.WF = true) :
    l.suffix = [] ∨ ∃ c r, l.suffix = c :: r ∧ digitOf l.base.radix c = none := by
  rcases suffix_stops h with h1 | ⟨c, r, h1, h2⟩
  · exact Or.inl h1
  · exact Or.inr ⟨c, r, h1, digitOf_none_of_sufStart (radix_le _) h2⟩

theorem isDigit_dec_of_base {b : Base} {c : Char} (h : b.isDigit c = true) (hb : b ≠ .hex) : CharLit.isDigit c = true := by
  cases b with
  | dec => exact h
  | hex => exact absurd rfl hb
  | oct =>
    simp only [Base.isDigit, isOctDigit, Bool.and_eq_true, decide_eq_true_eq] at h
    simp only [CharLit.isDigit, Bool.and_eq_true, decide_eq_true_eq]; omega
  | bin =>
    simp only [Base.isDigit, isBinDigit, Bool.or_eq_true, beq_iff_eq] at h
    rcases h with h | h <;> subst h <;> decide

theorem digit_not_space_sign {c : Char} (h : isXDigit c = true) :
    isSpace c = false ∧ (c == '-') = false ∧ (c == '+') = false := by
  simp only [isXDigit, CharLit.isDigit, Bool.or_eq_true, Bool.and_eq_true, decide_eq_true_eq] at h
  refine ⟨?_, ?_, ?_⟩
  · simp only [isSpace, Bool.or_eq_false_iff, decide_eq_false_iff_not, Bool.and_eq_false_iff]
    omega
  · apply Bool.eq_false_iff.2; intro hc; simp only [beq_iff_eq] at hc; subst hc; revert h; decide
  · apply Bool.eq_false_iff.2; intro hc; simp only [beq_iff_eq] at hc; subst hc; revert h; decide

theorem isXDigit_of_base {b : Base} {c : Char} (h : b.isDigit c = true) : isXDigit c = true := by
  cases b with
  | hex => exact h
  | dec => simp only [Base.isDigit] at h; simp [isXDigit, h]
  | oct => have := isDigit_dec_of_base h (by decide); simp [isXDigit, this]
  | bin => have := isDigit_dec_of_base h (by decide); simp [isXDigit, this]

/-- the body starts with a hex-digit character (the `0` of a prefix or the first digit) -/
theorem body_head {l : Lit} (h : l.WF = true) : ∃ c r, body l = c :: r ∧ isXDigit c = true := by
  obtain ⟨hne, hall, _⟩ := wf_digits h
  cases hd : l.digits with
  | nil => exact absurd hd hne
  | cons d ds =>
    rw [hd] at hall
    simp only [List.all_cons, Bool.and_eq_true] at hall
    cases hb : l.base with
    | dec => exact ⟨d, ds ++ l.suffix, by simp [body, hb, hd, Base.pfx], isXDigit_of_base hall.1⟩
    | hex => exact ⟨'0', _, by simp [body, hb, hd, Base.pfx]; rfl, by decide⟩
    | oct => exact ⟨'0', _, by simp [body, hb, hd, Base.pfx]; rfl, by decide⟩
    | bin => exact ⟨'0', _, by simp [body, hb, hd, Base.pfx]; rfl, by decide⟩

/-- prefix skipping and the digit loop on the body of a literal (bases handled by strtoull) -/
theorem body_run {l : Lit} (h : l.WF = true) (hb : l.base ≠ .bin) :
    digitsGo l.base.radix 0 0 (skipPfx l.base.radix (body l)).1 =
      (l.magnitude, (body l).length - l.suffix.length - (skipPfx l.base.radix (body l)).2) ∧
    (skipPfx l.base.radix (body l)).2 < (body l).length - l.suffix.length := by
  obtain ⟨hne, hall, _⟩ := wf_digits h
  have hstop := suffix_stops_digit h
  cases hd : l.digits with
  | nil => exact absurd hd hne
  | cons d ds =>
    cases hbase : l.base with
    | bin => exact absurd hbase hb
    | dec =>
      rw [hbase] at hall hstop
      have hrun := digitsGo_run .dec l.digits hall l.suffix hstop 0 0
      simp only [body, hbase, Base.pfx, Base.radix, skipPfx, List.nil_append, List.length_append] at hrun ⊢
      simp only [show (10 : Nat) = 16 ↔ False from by decide, if_false]
      rw [hrun]
      simp [Lit.magnitude, hbase, Base.radix, hd]
    | oct =>
      rw [hbase] at hall hstop
      have hall' : ('0' :: l.digits).all Base.oct.isDigit = true := by
        simp only [List.all_cons, hall, Bool.and_true]; decide
      have hrun := digitsGo_run .oct ('0' :: l.digits) hall' l.suffix hstop 0 0
      simp only [body, hbase, Base.pfx, Base.radix, skipPfx, List.length_append, List.cons_append, List.nil_append] at hrun ⊢
      simp only [show (8 : Nat) = 16 ↔ False from by decide, if_false]
      rw [hrun]
      simp [Lit.magnitude, hbase, Base.radix, positional, digitVal, CharLit.isDigit, hd]
      omega
    | hex =>
      rw [hbase] at hall hstop
      have hrun := digitsGo_run .hex l.digits hall l.suffix hstop 0 0
      have hx : ((if l.upper = true then 'X' else 'x') == 'x' || (if l.upper = true then 'X' else 'x') == 'X') = true := by
        cases l.upper <;> decide
      have hdig : (digitOf 16 d).isSome = true := by
        rw [hd] at hall
        simp only [List.all_cons, Bool.and_eq_true] at hall
        have := digitOf_of_isDigit (b := .hex) hall.1
        simp only [Base.radix] at this
        simp [this]
      simp only [body, hbase, Base.pfx, Base.radix, skipPfx, List.length_append, List.cons_append, List.nil_append, hd, if_true] at hrun ⊢
      simp only [hx, hdig, Bool.and_self, if_true]
      rw [hrun]
      simp [Lit.magnitude, hbase, Base.radix, hd]
      omega

theorem strtoull_body {l : Lit} (h : l.WF = true) (hb : l.base ≠ .bin) (neg : Bool) (nsign : Nat) (s : Str)
    (hs : skipSpaces s 0 = (s, 0)) (hsp : splitSign s = (neg, body l, nsign)) :
    strtoull l.base.radix s =
      if 2 ^ 64 ≤ l.magnitude then ⟨2 ^ 64 - 1, nsign + ((body l).length - l.suffix.length), true⟩
      else ⟨if neg then (2 ^ 64 - l.magnitude) % 2 ^ 64 else l.magnitude, nsign + ((body l).length - l.suffix.length), false⟩ := by
  obtain ⟨hrun, hlt⟩ := body_run h hb
  rcases hpf : skipPfx l.base.radix (body l) with ⟨s3, npfx⟩
  rw [hpf] at hrun hlt
  simp only at hrun hlt
  simp only [strtoull, hs, hsp, hpf, hrun]
  have hnd : ¬ ((body l).length - l.suffix.length - npfx = 0) := by omega
  simp only [hnd, if_false, Nat.zero_add]
  have e : nsign + npfx + ((body l).length - l.suffix.length - npfx) = nsign + ((body l).length - l.suffix.length) := by omega
  by_cases hov : 2 ^ 64 ≤ l.magnitude
  · simp [hov, e]
  · simp [hov, e]

theorem stoull_render {l : Lit} (h : l.WF = true) (hb : l.base ≠ .bin) :
    stoull l.base.radix (render l) =
      if 2 ^ 64 ≤ l.magnitude then .error .outOfRange
      else .ok (if l.sign = some true then (2 ^ 64 - l.magnitude) % 2 ^ 64 else l.magnitude,
                (render l).length - l.suffix.length) := by
  obtain ⟨c, r, hbody, hc⟩ := body_head h
  obtain ⟨hsp, hm, hp⟩ := digit_not_space_sign hc
  have hpos : 0 < (body l).length - l.suffix.length := by have := (body_run h hb).2; omega
  have key : ∀ (neg : Bool) (nsign : Nat) (s : Str), skipSpaces s 0 = (s, 0) → splitSign s = (neg, body l, nsign) →
      s.length = nsign + (body l).length → (neg = true ↔ l.sign = some true) →
      stoull l.base.radix s =
        if 2 ^ 64 ≤ l.magnitude then .error .outOfRange
        else .ok (if l.sign = some true then (2 ^ 64 - l.magnitude) % 2 ^ 64 else l.magnitude, s.length - l.suffix.length) := by
    intro neg nsign s hs hsplit hlen hneg
    have hsuf : l.suffix.length ≤ (body l).length := by simp [body]; omega
    simp only [stoull, strtoull_body h hb neg nsign s hs hsplit]
    by_cases hov : 2 ^ 64 ≤ l.magnitude
    · simp only [hov, if_true]
      have : ¬ (nsign + ((body l).length - l.suffix.length) = 0) := by omega
      simp only [this, if_false]
    · simp only [hov, if_false]
      have : ¬ (nsign + ((body l).length - l.suffix.length) = 0) := by omega
      have e : nsign + ((body l).length - l.suffix.length) = s.length - l.suffix.length := by omega
      simp only [this, if_false, Bool.false_eq_true]
      rw [e]
      cases neg with
      | false =>
        have : ¬ (l.sign = some true) := fun hh => by have := hneg.2 hh; simp at this
        simp [this]
      | true =>
        have : l.sign = some true := hneg.1 rfl
        simp [this]
  rw [render_eq]
  cases hsg : l.sign with
  | none =>
    have := key false 0 (body l) (by simp [hbody, skipSpaces, hsp]) (by simp [hbody, splitSign, hm, hp]) (by simp) (by simp [hsg])
    simpa [signStr, hsg] using this
  | some b =>
    cases b with
    | false =>
      have := key false 1 ('+' :: body l) (by simp only [skipSpaces]; rw [if_neg (by decide)]) (by simp [splitSign])
        (by simp; omega) (by simp [hsg])
      simpa [signStr, hsg] using this
    | true =>
      have := key true 1 ('-' :: body l) (by simp only [skipSpaces]; rw [if_neg (by decide)]) (by simp [splitSign])
        (by simp; omega) (by simp [hsg])
      simpa [signStr, hsg] using this

/-! ## classification of rendered literals -/

theorem digSuf_append (p : Char → Bool) (ds suf : Str) (hds : ds.all p = true)
    (hsuf : suf = [] ∨ (isValidIntegerSuffix suf = true ∧ ∃ c r, suf = c :: r ∧ p c = false)) :
    ∀ seen, (seen = true ∨ ds ≠ []) → digSuf p seen (ds ++ suf) = true := by
  induction ds with
  | nil =>
    intro seen hs
    have hseen : seen = true := by rcases hs with h | h; exact h; exact absurd rfl h
    subst hseen
    rcases hsuf with h | ⟨hv, c, r, h, hc⟩
    · subst h; simp [digSuf]
    · subst h; simp [digSuf, hc, hv]
  | cons d ds ih =>
    intro seen _
    simp only [List.all_cons, Bool.and_eq_true] at hds
    cases seen <;> simp [digSuf, hds.1, ih hds.2 true (Or.inl rfl)]

/-- the converse: an accepted string is a non-empty digit run followed by nothing or a valid suffix -/
theorem digSuf_elim (p : Char → Bool) : ∀ (s : Str) (seen : Bool), digSuf p seen s = true →
    ∃ ds suf, s = ds ++ suf ∧ (seen = true ∨ ds ≠ []) ∧ ds.all p = true ∧ (suf = [] ∨ isValidIntegerSuffix suf = true) := by
  intro s
  induction s with
  | nil =>
    intro seen h
    cases seen
    · simp [digSuf] at h
    · exact ⟨[], [], rfl, Or.inl rfl, rfl, Or.inl rfl⟩
  | cons c r ih =>
    intro seen h
    by_cases hc : p c = true
    · have h' : digSuf p true r = true := by cases seen <;> simpa [digSuf, hc] using h
      obtain ⟨ds, suf, hr, _, hall, hsuf⟩ := ih true h'
      exact ⟨c :: ds, suf, by simp [hr], Or.inr (by simp), by simp [hc, hall], hsuf⟩
    · cases seen
      · simp [digSuf, hc] at h
      · simp only [digSuf, hc, Bool.false_eq_true, if_false] at h
        exact ⟨[], c :: r, rfl, Or.inl rfl, rfl, Or.inr h⟩

theorem stripSign_render {l : Lit} (h : l.WF = true) : stripSign (render l) = body l := by
  obtain ⟨c, r, hbody, hc⟩ := body_head h
  obtain ⟨_, hm, hp⟩ := digit_not_space_sign hc
  rw [render_eq]
  cases l.sign with
  | none => simp [signStr, hbody, stripSign, hm, hp]
  | some b => cases b <;> simp [signStr, stripSign]

theorem suffix_ok {l : Lit} (h : l.WF = true) :
    l.suffix = [] ∨ (isValidIntegerSuffix l.suffix = true ∧ ∃ c r, l.suffix = c :: r ∧ l.base.isDigit c = false) := by
  rcases (wf_digits h).2.2 with h1 | h1
  · exact Or.inl h1
  · rcases suffix_stops h with h2 | ⟨c, r, h2, h3⟩
    · exact Or.inl h2
    · refine Or.inr ⟨h1, c, r, h2, ?_⟩
      obtain ⟨a, b, c', d⟩ := not_digit_of_sufStart h3
      cases l.base <;> simp [Base.isDigit, a, b, c', d]

theorem digSuf_digits {l : Lit} (h : l.WF = true) : digSuf l.base.isDigit false (l.digits ++ l.suffix) = true :=
  digSuf_append _ _ _ (wf_digits h).2.1 (suffix_ok h) false (Or.inr (wf_digits h).1)

theorem isIntHex_render {l : Lit} (h : l.WF = true) (hc : l.canonical = true) : isIntHex (render l) = (l.base == .hex) := by
  have hds := digSuf_digits h
  obtain ⟨hne, hall, _⟩ := wf_digits h
  simp only [isIntHex, stripSign_render h, body]
  cases hd : l.digits with
  | nil => exact absurd hd hne
  | cons d ds =>
    rw [hd] at hall hds
    simp only [List.all_cons, Bool.and_eq_true] at hall
    cases hb : l.base with
    | hex =>
      rw [hb] at hds
      simp only [Base.isDigit, List.cons_append] at hds
      cases l.upper <;> simp [Base.pfx, hds]
    | oct =>
      rw [hb] at hall
      have : (d == 'x' || d == 'X') = false := by
        apply Bool.eq_false_iff.2; intro hx
        simp only [Bool.or_eq_true, beq_iff_eq] at hx
        rcases hx with hx | hx <;> subst hx <;> simp [Base.isDigit, isOctDigit] at hall
      simp [Base.pfx, this]
    | bin => cases l.upper <;> simp [Base.pfx]
    | dec =>
      simp only [Lit.canonical, hb, hd, bne_self_eq_false, Bool.false_or, List.head?_cons, Bool.or_eq_true, bne_iff_ne, ne_eq,
        Option.some.injEq, beq_iff_eq, List.cons.injEq] at hc
      simp only [Base.pfx, List.nil_append, List.cons_append]
      rcases hc with hc | hc
      · split
        · rename_i heq; simp at heq; exact absurd heq.1 hc
        · rfl
      · obtain ⟨h1, h2⟩ := hc
        subst h1 h2
        rcases suffix_stops h with h3 | ⟨c, r, h3, h4⟩
        · simp [h3]
        · rw [h3]
          have : (c == 'x' || c == 'X') = false := by
            rcases sufStart_cases h4 with e | e | e | e | e | e | e | e | e <;> subst e <;> decide
          simp [this]

theorem isOct_render {l : Lit} (h : l.WF = true) (hc : l.canonical = true) (hx : l.base ≠ .hex) : isOct (render l) = (l.base == .oct) := by
  have hds := digSuf_digits h
  obtain ⟨hne, hall, _⟩ := wf_digits h
  simp only [isOct, stripSign_render h, body]
  cases hd : l.digits with
  | nil => exact absurd hd hne
  | cons d ds =>
    rw [hd] at hall hds
    simp only [List.all_cons, Bool.and_eq_true] at hall
    cases hb : l.base with
    | hex => exact absurd hb hx
    | oct =>
      rw [hb] at hds
      simp only [Base.isDigit, List.cons_append] at hds
      simp [Base.pfx, hds]
    | bin =>
      cases l.upper <;>
        simp [Base.pfx, digSuf, show isOctDigit 'b' = false from by decide, show isOctDigit 'B' = false from by decide]
    | dec =>
      simp only [Lit.canonical, hb, hd, bne_self_eq_false, Bool.false_or, List.head?_cons, Bool.or_eq_true, bne_iff_ne, ne_eq,
        Option.some.injEq, beq_iff_eq, List.cons.injEq] at hc
      simp only [Base.pfx, List.nil_append, List.cons_append]
      rcases hc with hc | hc
      · split
        · rename_i heq; simp at heq; exact absurd heq.1 hc
        · rfl
      · obtain ⟨h1, h2⟩ := hc
        subst h1 h2
        rcases suffix_stops h with h3 | ⟨c, r, h3, h4⟩
        · simp [h3, digSuf]
        · rw [h3]
          simp [digSuf, (not_digit_of_sufStart h4).2.2.1]

theorem isBin_render {l : Lit} (h : l.WF = true) (hc : l.canonical = true) (hx : l.base ≠ .hex) (ho : l.base ≠ .oct) :
    isBin (render l) = (l.base == .bin) := by
  have hds := digSuf_digits h
  obtain ⟨hne, hall, _⟩ := wf_digits h
  simp only [isBin, stripSign_render h, body]
  cases hd : l.digits with
  | nil => exact absurd hd hne
  | cons d ds =>
    rw [hd] at hall hds
    simp only [List.all_cons, Bool.and_eq_true] at hall
    cases hb : l.base with
    | hex => exact absurd hb hx
    | oct => exact absurd hb ho
    | bin =>
      rw [hb] at hds
      simp only [Base.isDigit, List.cons_append] at hds
      cases l.upper <;> simp [Base.pfx, hds]
    | dec =>
      simp only [Lit.canonical, hb, hd, bne_self_eq_false, Bool.false_or, List.head?_cons, Bool.or_eq_true, bne_iff_ne, ne_eq,
        Option.some.injEq, beq_iff_eq, List.cons.injEq] at hc
      simp only [Base.pfx, List.nil_append, List.cons_append]
      rcases hc with hc | hc
      · split
        · rename_i heq; simp at heq; exact absurd heq.1 hc
        · rfl
      · obtain ⟨h1, h2⟩ := hc
        subst h1 h2
        rcases suffix_stops h with h3 | ⟨c, r, h3, h4⟩
        · simp [h3]
        · rw [h3]
          have : (c == 'b' || c == 'B') = false := by
            rcases sufStart_cases h4 with e | e | e | e | e | e | e | e | e <;> subst e <;> decide
          simp [this]

theorem digit_not_e_dot {c : Char} (h : CharLit.isDigit c = true) : isE c = false ∧ (c == '.') = false := by
  simp only [CharLit.isDigit, Bool.and_eq_true, decide_eq_true_eq] at h
  constructor
  · apply Bool.eq_false_iff.2; intro hc
    simp only [isE, Bool.or_eq_true, beq_iff_eq] at hc
    rcases hc with hc | hc <;> subst hc <;> revert h <;> decide
  · apply Bool.eq_false_iff.2; intro hc
    simp only [beq_iff_eq] at hc
    subst hc; revert h; decide

theorem dfRun_digits (ds suf : Str) (hds : ds.all CharLit.isDigit = true) :
    dfRun .baseDigits1 (ds ++ suf) = dfRun .baseDigits1 suf := by
  induction ds with
  | nil => rfl
  | cons d ds ih =>
    simp only [List.all_cons, Bool.and_eq_true] at hds
    obtain ⟨h1, h2⟩ := digit_not_e_dot hds.1
    simp [dfRun, dfStep, h1, h2, hds.1, ih hds.2]

theorem dfStep_bd1_suf {c : Char} (h : sufStart c = true) : dfStep .baseDigits1 c = none := by
  rcases sufStart_cases h with e | e | e | e | e | e | e | e | e <;> subst e <;> decide

theorem isFloat_render_dec {l : Lit} (h : l.WF = true) (hc : l.canonical = true) (hb : l.base = .dec) : isFloat (render l) = false := by
  obtain ⟨hne, hall, _⟩ := wf_digits h
  rw [hb] at hall
  simp only [Base.isDigit] at hall
  have hbody : body l = l.digits ++ l.suffix := by simp [body, hb, Base.pfx]
  simp only [isFloat, isDecimalFloat, isFloatHex, stripSign_render h, hbody, Bool.or_eq_false_iff]
  cases hd : l.digits with
  | nil => exact absurd hd hne
  | cons d ds =>
    rw [hd] at hall
    simp only [List.all_cons, Bool.and_eq_true] at hall
    obtain ⟨h1, h2⟩ := digit_not_e_dot hall.1
    constructor
    · apply Bool.and_eq_false_imp.2
      intro _
      simp only [List.cons_append, dfRun, dfStep, h2, hall.1, Bool.false_eq_true, if_false, if_true]
      rw [dfRun_digits _ _ hall.2]
      rcases suffix_stops h with h3 | ⟨c, r, h3, h4⟩
      · rw [h3]; rfl
      · rw [h3]; simp [dfRun, dfStep_bd1_suf h4]
    · apply Bool.and_eq_false_imp.2
      intro _
      simp only [Lit.canonical, hb, hd, bne_self_eq_false, Bool.false_or, List.head?_cons, Bool.or_eq_true, bne_iff_ne, ne_eq,
        Option.some.injEq, beq_iff_eq, List.cons.injEq] at hc
      rcases hc with hc | hc
      · simp [fhRun, fhStep, hc]
      · obtain ⟨e1, e2⟩ := hc
        subst e1 e2
        rcases suffix_stops h with h3 | ⟨c, r, h3, h4⟩
        · rw [h3]; rfl
        · rw [h3]
          have : (c == 'x' || c == 'X') = false := by
            rcases sufStart_cases h4 with e | e | e | e | e | e | e | e | e <;> subst e <;> decide
          simp only [List.cons_append, List.nil_append, fhRun, fhStep, beq_self_eq_true, if_true]
          simp only [Bool.or_eq_false_iff] at this
          simp [this.1, this.2]

theorem render_head {l : Lit} (h : l.WF = true) : ∃ c r, render l = c :: r ∧ (c = '+' ∨ c = '-' ∨ isXDigit c = true) := by
  obtain ⟨c, r, hbody, hc⟩ := body_head h
  rw [render_eq]
  cases l.sign with
  | none => exact ⟨c, r, by simp [signStr, hbody], Or.inr (Or.inr hc)⟩
  | some b => cases b
              · exact ⟨'+', body l, by simp [signStr], Or.inl rfl⟩
              · exact ⟨'-', body l, by simp [signStr], Or.inr (Or.inl rfl)⟩

theorem isCharLiteral_render {l : Lit} (h : l.WF = true) : isCharLiteral (render l) = false := by
  obtain ⟨c, r, hr, hc⟩ := render_head h
  have hne : c ≠ '\'' ∧ c ≠ 'u' ∧ c ≠ 'U' ∧ c ≠ 'L' := by
    rcases hc with hc | hc | hc
    · subst hc; decide
    · subst hc; decide
    · refine ⟨?_, ?_, ?_, ?_⟩ <;> (intro e; subst e; revert hc; decide)
  rw [hr]
  simp [isCharLiteral, isPrefixStringCharLiteral, List.take, hne.1, hne.2.1, hne.2.2.1, hne.2.2.2]

/-! ## the binary branch -/

theorem binLoop_run (ds suf : Str) (hds : ds.all isBinDigit = true)
    (hsuf : suf = [] ∨ ∃ c r, suf = c :: r ∧ isBinDigit c = false) :
    ∀ acc, acc < 2 ^ 64 → binLoop acc (ds ++ suf) = (acc * 2 ^ ds.length + positional 2 ds) % 2 ^ 64 := by
  induction ds with
  | nil =>
    intro acc hacc
    rcases hsuf with h | ⟨c, r, h, hc⟩
    · subst h; simp [binLoop, positional, Nat.mod_eq_of_lt hacc]
    · subst h
      simp only [isBinDigit, Bool.or_eq_false_iff] at hc
      have h1 : (c == '1') = false := hc.2
      have h0 : (c == '0') = false := hc.1
      simp [binLoop, h1, h0, positional, Nat.mod_eq_of_lt hacc]
  | cons d ds ih =>
    intro acc hacc
    simp only [List.all_cons, Bool.and_eq_true] at hds
    have hd := hds.1
    simp only [isBinDigit, Bool.or_eq_true, beq_iff_eq] at hd
    rcases hd with hd | hd
    · subst hd
      have h1 : ('0' == '1') = false := by decide
      simp only [List.cons_append, binLoop, h1, Bool.false_eq_true, if_false, beq_self_eq_true, if_true]
      rw [ih hds.2 _ (Nat.mod_lt _ (by decide))]
      simp only [positional, List.length_cons, Nat.pow_succ]
      have : digitVal '0' = 0 := by decide
      rw [this, Nat.zero_mul, Nat.zero_add]
      rw [Nat.add_mod, Nat.mul_mod, Nat.mod_mod, ← Nat.mul_mod, ← Nat.add_mod]
      congr 2
      rw [Nat.mul_assoc, Nat.mul_comm 2]
    · subst hd
      simp only [List.cons_append, binLoop, beq_self_eq_true, if_true]
      rw [ih hds.2 _ (Nat.mod_lt _ (by decide))]
      simp only [positional, List.length_cons, Nat.pow_succ]
      have : digitVal '1' = 1 := by decide
      rw [this, Nat.one_mul]
      rw [Nat.add_mod, Nat.mul_mod, Nat.mod_mod, ← Nat.mul_mod, ← Nat.add_mod]
      congr 1
      rw [Nat.add_mul, Nat.one_mul, Nat.mul_assoc, Nat.mul_comm 2, Nat.add_assoc]

theorem binStart_render {l : Lit} (h : l.WF = true) (hb : l.base = .bin) : binStart (render l) = l.digits ++ l.suffix := by
  rw [render_eq]
  have hbody : body l = '0' :: (if l.upper = true then 'B' else 'b') :: (l.digits ++ l.suffix) := by
    simp [body, hb, Base.pfx]
  cases l.sign with
  | none => simp [signStr, hbody, binStart]
  | some b => cases b <;> simp [signStr, hbody, binStart]

theorem isNegative_render {l : Lit} (h : l.WF = true) : isNegative (render l) = (l.sign == some true) := by
  obtain ⟨c, r, hbody, hc⟩ := body_head h
  obtain ⟨_, hm, _⟩ := digit_not_space_sign hc
  rw [render_eq]
  cases l.sign with
  | none =>
    simp only [signStr, List.nil_append, hbody, isNegative]
    split
    · rename_i heq; simp at heq; simp [heq.1] at hm
    · rfl
  | some b => cases b <;> simp [signStr, isNegative]

theorem binLoop_render {l : Lit} (h : l.WF = true) (hb : l.base = .bin) :
    binLoop 0 (binStart (render l)) = l.magnitude % 2 ^ 64 := by
  obtain ⟨_, hall, _⟩ := wf_digits h
  rw [hb] at hall
  rw [binStart_render h hb]
  have hsuf : l.suffix = [] ∨ ∃ c r, l.suffix = c :: r ∧ isBinDigit c = false := by
    rcases suffix_stops h with h1 | ⟨c, r, h1, h2⟩
    · exact Or.inl h1
    · exact Or.inr ⟨c, r, h1, (not_digit_of_sufStart h2).2.2.2⟩
  rw [binLoop_run _ _ hall hsuf 0 (by decide)]
  simp [Lit.magnitude, hb, Base.radix]

/-! ## values -/

theorem toI64_neg_mag {m : Nat} (h : m < 2 ^ 64) : toI64 ((2 ^ 64 - m) % 2 ^ 64) = Int.bmod (-(m : Int)) (2 ^ 64) := by
  rw [toI64_nat, Int.bmod_def, Int.bmod_def]
  have e : ((2 ^ 64 : Nat) : Int) = 2 ^ 64 := by norm_cast
  rw [e]
  have : (((2 ^ 64 - m) % 2 ^ 64 : Nat) : Int) % 2 ^ 64 = (-(m : Int)) % 2 ^ 64 := by omega
  rw [this]

theorem toI64_mod (m : Nat) : toI64 (m % 2 ^ 64) = Int.bmod (m : Int) (2 ^ 64) := by
  have : toI64 (m % 2 ^ 64) = toI64 m := by unfold toI64; rw [Nat.mod_mod]
  rw [this, toI64_nat]

theorem toU64_neg_mag {m : Nat} (h : m < 2 ^ 64) : (((2 ^ 64 - m) % 2 ^ 64 : Nat) : Int) = (-(m : Int)) % 2 ^ 64 := by
  omega

theorem drop_render_suffix (l : Lit) : (render l).drop ((render l).length - l.suffix.length) = l.suffix := by
  have : render l = (signStr l.sign ++ l.base.pfx l.upper ++ l.digits) ++ l.suffix := by simp [render]
  rw [this]
  apply List.drop_left'
  simp
  omega

theorem value_neg {l : Lit} (h : l.sign = some true) : l.value = -(l.magnitude : Int) := by simp [Lit.value, h]
theorem value_pos {l : Lit} (h : ¬ l.sign = some true) : l.value = (l.magnitude : Int) := by simp [Lit.value, h]

/-- `toBigNumber` on every rendered literal: exact value as a 64-bit two's-complement number -/
theorem toBigNumber_render {l : Lit} (hwf : l.WF = true) (hc : l.canonical = true)
    (h : l.base = .bin ∨ l.magnitude < 2 ^ 64) : toBigNumber (render l) = .ok (Int.bmod l.value (2 ^ 64)) := by
  cases hb : l.base with
  | hex =>
    have hlt : l.magnitude < 2 ^ 64 := by rcases h with h | h; simp [hb] at h; exact h
    have hs := stoull_render hwf (by simp [hb])
    rw [hb] at hs
    simp only [Base.radix] at hs
    simp only [toBigNumber, isIntHex_render hwf hc, hb, beq_self_eq_true, if_true, hs, show ¬ 2 ^ 64 ≤ l.magnitude from by omega, if_false]
    by_cases hn : l.sign = some true
    · simp only [hn, if_true, value_neg hn, toI64_neg_mag hlt]
    · simp only [hn, if_false, value_pos hn, toI64_nat]
  | oct =>
    have hlt : l.magnitude < 2 ^ 64 := by rcases h with h | h; simp [hb] at h; exact h
    have hs := stoull_render hwf (by simp [hb])
    rw [hb] at hs
    simp only [Base.radix] at hs
    have h1 := isIntHex_render hwf hc
    have h2 := isOct_render hwf hc (by simp [hb])
    rw [hb] at h1 h2
    simp only [toBigNumber, h1, h2, show (Base.oct == Base.hex) = false from rfl, beq_self_eq_true, if_true, hs,
      show ¬ 2 ^ 64 ≤ l.magnitude from by omega, if_false, Bool.false_eq_true]
    by_cases hn : l.sign = some true
    · simp only [hn, if_true, value_neg hn, toI64_neg_mag hlt]
    · simp only [hn, if_false, value_pos hn, toI64_nat]
  | bin =>
    have h1 := isIntHex_render hwf hc
    have h2 := isOct_render hwf hc (by simp [hb])
    have h3 := isBin_render hwf hc (by simp [hb]) (by simp [hb])
    rw [hb] at h1 h2 h3
    simp only [toBigNumber, h1, h2, h3, show (Base.bin == Base.hex) = false from rfl, show (Base.bin == Base.oct) = false from rfl,
      beq_self_eq_true, if_true, Bool.false_eq_true, if_false, binLoop_render hwf hb, isNegative_render hwf]
    by_cases hn : l.sign = some true
    · simp only [hn, beq_self_eq_true, if_true, value_neg hn, toI64_toU64, toI64_mod]
      exact congrArg _ Int.bmod_neg_bmod
    · have : (l.sign == some true) = false := by simp [hn]
      simp only [this, Bool.false_eq_true, if_false, value_pos hn, toI64_mod]
  | dec =>
    have hlt : l.magnitude < 2 ^ 64 := by rcases h with h | h; simp [hb] at h; exact h
    have hs := stoull_render hwf (by simp [hb])
    rw [hb] at hs
    simp only [Base.radix] at hs
    have h1 := isIntHex_render hwf hc
    have h2 := isOct_render hwf hc (by simp [hb])
    have h3 := isBin_render hwf hc (by simp [hb]) (by simp [hb])
    rw [hb] at h1 h2 h3
    simp only [toBigNumber, h1, h2, h3, isFloat_render_dec hwf hc hb, isCharLiteral_render hwf,
      show (Base.dec == Base.hex) = false from rfl, show (Base.dec == Base.oct) = false from rfl,
      show (Base.dec == Base.bin) = false from rfl, Bool.false_eq_true, if_false, hs, show ¬ 2 ^ 64 ≤ l.magnitude from by omega,
      drop_render_suffix]
    have hcond : ((render l).length - l.suffix.length ≠ (render l).length && !isValidIntegerSuffix l.suffix) = false := by
      rcases (wf_digits hwf).2.2 with h4 | h4
      · simp [h4]
      · simp [h4]
    simp only [hcond, Bool.false_eq_true, if_false]
    by_cases hn : l.sign = some true
    · simp only [hn, if_true, value_neg hn, toI64_neg_mag hlt]
    · simp only [hn, if_false, value_pos hn, toI64_nat]

theorem toBigUNumber_render {l : Lit} (hwf : l.WF = true) (hc : l.canonical = true)
    (h : l.base = .bin ∨ l.magnitude < 2 ^ 64) : toBigUNumber (render l) = .ok (l.value % 2 ^ 64) := by
  cases hb : l.base with
  | hex =>
    have hlt : l.magnitude < 2 ^ 64 := by rcases h with h | h; simp [hb] at h; exact h
    have hs := stoull_render hwf (by simp [hb])
    rw [hb] at hs
    simp only [Base.radix] at hs
    simp only [toBigUNumber, isIntHex_render hwf hc, hb, beq_self_eq_true, if_true, hs, show ¬ 2 ^ 64 ≤ l.magnitude from by omega, if_false]
    by_cases hn : l.sign = some true
    · simp only [hn, if_true, value_neg hn, toU64_neg_mag hlt]
    · simp only [hn, if_false, value_pos hn]
      congr 1; omega
  | oct =>
    have hlt : l.magnitude < 2 ^ 64 := by rcases h with h | h; simp [hb] at h; exact h
    have hs := stoull_render hwf (by simp [hb])
    rw [hb] at hs
    simp only [Base.radix] at hs
    have h1 := isIntHex_render hwf hc
    have h2 := isOct_render hwf hc (by simp [hb])
    rw [hb] at h1 h2
    simp only [toBigUNumber, h1, h2, show (Base.oct == Base.hex) = false from rfl, beq_self_eq_true, if_true, hs,
      show ¬ 2 ^ 64 ≤ l.magnitude from by omega, if_false, Bool.false_eq_true]
    by_cases hn : l.sign = some true
    · simp only [hn, if_true, value_neg hn, toU64_neg_mag hlt]
    · simp only [hn, if_false, value_pos hn]
      congr 1; omega
  | bin =>
    have h1 := isIntHex_render hwf hc
    have h2 := isOct_render hwf hc (by simp [hb])
    have h3 := isBin_render hwf hc (by simp [hb]) (by simp [hb])
    rw [hb] at h1 h2 h3
    simp only [toBigUNumber, h1, h2, h3, show (Base.bin == Base.hex) = false from rfl, show (Base.bin == Base.oct) = false from rfl,
      beq_self_eq_true, if_true, Bool.false_eq_true, if_false, binLoop_render hwf hb, isNegative_render hwf]
    by_cases hn : l.sign = some true
    · simp only [hn, beq_self_eq_true, if_true, value_neg hn]
      congr 1; omega
    · have : (l.sign == some true) = false := by simp [hn]
      simp only [this, Bool.false_eq_true, if_false, value_pos hn]
      congr 1
  | dec =>
    have hlt : l.magnitude < 2 ^ 64 := by rcases h with h | h; simp [hb] at h; exact h
    have hs := stoull_render hwf (by simp [hb])
    rw [hb] at hs
    simp only [Base.radix] at hs
    have h1 := isIntHex_render hwf hc
    have h2 := isOct_render hwf hc (by simp [hb])
    have h3 := isBin_render hwf hc (by simp [hb]) (by simp [hb])
    rw [hb] at h1 h2 h3
    simp only [toBigUNumber, h1, h2, h3, isFloat_render_dec hwf hc hb, isCharLiteral_render hwf,
      show (Base.dec == Base.hex) = false from rfl, show (Base.dec == Base.oct) = false from rfl,
      show (Base.dec == Base.bin) = false from rfl, Bool.false_eq_true, if_false, hs, show ¬ 2 ^ 64 ≤ l.magnitude from by omega,
      drop_render_suffix]
    have hcond : ((render l).length - l.suffix.length ≠ (render l).length && !isValidIntegerSuffix l.suffix) = false := by
      rcases (wf_digits hwf).2.2 with h4 | h4
      · simp [h4]
      · simp [h4]
    simp only [hcond, Bool.false_eq_true, if_false]
    by_cases hn : l.sign = some true
    · simp only [hn, if_true, value_neg hn, toU64_neg_mag hlt]
    · simp only [hn, if_false, value_pos hn]
      congr 1; omega

/-- decimal, hexadecimal and octal literals above 2^64−1 are rejected (InternalError out_of_range) by both converters -/
theorem toBig_overflow {l : Lit} (hwf : l.WF = true) (hc : l.canonical = true) (hbin : l.base ≠ .bin) (h : 2 ^ 64 ≤ l.magnitude) :
    toBigNumber (render l) = .err .outOfRange ∧ toBigUNumber (render l) = .err .outOfRange := by
  have hs := stoull_render hwf hbin
  have h1 := isIntHex_render hwf hc
  cases hb : l.base with
  | bin => exact absurd hb hbin
  | hex =>
    rw [hb] at hs h1
    simp only [Base.radix] at hs
    simp [toBigNumber, toBigUNumber, h1, hs, h]
  | oct =>
    have h2 := isOct_render hwf hc (by simp [hb])
    rw [hb] at hs h1 h2
    simp only [Base.radix] at hs
    simp [toBigNumber, toBigUNumber, h1, h2, hs, h]
  | dec =>
    have h2 := isOct_render hwf hc (by simp [hb])
    have h3 := isBin_render hwf hc (by simp [hb]) (by simp [hb])
    rw [hb] at hs h1 h2 h3
    simp only [Base.radix] at hs
    simp [toBigNumber, toBigUNumber, h1, h2, h3, isFloat_render_dec hwf hc hb, isCharLiteral_render hwf, hs, h]

/-! ## the accepted language = the grammar -/

theorem stripSign_split (s : Str) : ∃ sg : Option Bool, s = signStr sg ++ stripSign s := by
  cases s with
  | nil => exact ⟨none, rfl⟩
  | cons c r =>
    by_cases hp : c = '+'
    · subst hp; exact ⟨some false, by simp [stripSign, signStr]⟩
    · by_cases hm : c = '-'
      · subst hm; exact ⟨some true, by simp [stripSign, signStr]⟩
      · exact ⟨none, by simp [stripSign, signStr, hp, hm]⟩

theorem isInt_of_render {l : Lit} (h : l.WF = true) : isInt (render l) = true := by
  cases hb : l.base with
  | dec =>
    have : isDec (render l) = true := by
      have hd := digSuf_digits h
      rw [hb] at hd
      simp only [isDec, stripSign_render h, body, hb, Base.pfx, List.nil_append]
      exact hd
    simp [isInt, this]
  | hex =>
    have := isIntHex_render h (by simp [Lit.canonical, hb])
    simp [isInt, this, hb]
  | oct =>
    have := isOct_render h (by simp [Lit.canonical, hb]) (by simp [hb])
    simp [isInt, this, hb]
  | bin =>
    have := isBin_render h (by simp [Lit.canonical, hb]) (by simp [hb]) (by simp [hb])
    simp [isInt, this, hb]

theorem render_of_isInt {s : Str} (h : isInt s = true) : ∃ l : Lit, l.WF = true ∧ render l = s := by
  obtain ⟨sg, hsg⟩ := stripSign_split s
  have mk : ∀ (b : Base) (up : Bool) (ds suf : Str), stripSign s = b.pfx up ++ ds ++ suf →
      (true = true ∨ ds ≠ []) → False ∨ ds ≠ [] → ds.all b.isDigit = true → (suf = [] ∨ isValidIntegerSuffix suf = true) →
      ∃ l : Lit, l.WF = true ∧ render l = s := by
    intro b up ds suf hs _ hne hall hsuf
    have hne' : ds ≠ [] := by rcases hne with h | h; exact absurd h id; exact h
    refine ⟨⟨sg, b, up, ds, suf⟩, ?_, ?_⟩
    · simp only [Lit.WF, Bool.and_eq_true, Bool.or_eq_true, Bool.not_eq_true', List.isEmpty_iff]
      refine ⟨⟨?_, hall⟩, hsuf⟩
      cases ds with
      | nil => exact absurd rfl hne'
      | cons _ _ => rfl
    · rw [hsg]; simp only [render]; rw [hs]; simp [List.append_assoc]
  simp only [isInt, Bool.or_eq_true] at h
  rcases h with ((h | h) | h) | h
  · obtain ⟨ds, suf, hs, hne, hall, hsuf⟩ := digSuf_elim _ _ _ (by simpa [isDec] using h)
    exact mk .dec false ds suf (by simp [Base.pfx, hs]) (Or.inl rfl) (by simpa using hne) hall hsuf
  · simp only [isIntHex] at h
    split at h
    · rename_i x r heq
      simp only [Bool.and_eq_true, Bool.or_eq_true, beq_iff_eq] at h
      obtain ⟨ds, suf, hs, hne, hall, hsuf⟩ := digSuf_elim _ _ _ h.2
      refine mk .hex (x == 'X') ds suf ?_ (Or.inl rfl) (by simpa using hne) hall hsuf
      rw [heq, hs]
      rcases h.1 with hx | hx <;> subst hx <;> simp [Base.pfx]
    · simp at h
  · simp only [isOct] at h
    split at h
    · rename_i r heq
      obtain ⟨ds, suf, hs, hne, hall, hsuf⟩ := digSuf_elim _ _ _ h
      refine mk .oct false ds suf ?_ (Or.inl rfl) (by simpa using hne) hall hsuf
      rw [heq, hs]; simp [Base.pfx]
    · simp at h
  · simp only [isBin] at h
    split at h
    · rename_i x r heq
      simp only [Bool.and_eq_true, Bool.or_eq_true, beq_iff_eq] at h
      obtain ⟨ds, suf, hs, hne, hall, hsuf⟩ := digSuf_elim _ _ _ h.2
      refine mk .bin (x == 'B') ds suf ?_ (Or.inl rfl) (by simpa using hne) hall hsuf
      rw [heq, hs]
      rcases h.1 with hx | hx <;> subst hx <;> simp [Base.pfx]
    · simp at h

/-! ## the suffix machine accepts exactly the suffix table -/

theorem sufRun_lit : ∀ r, sufRun true .lit r = true := by
  intro r; induction r with
  | nil => rfl
  | cons c r ih => simp [sufRun, sufStep, ih]

theorem suffix_spec (s : Str) : isValidIntegerSuffix s true = specSuffix s := by
  match s with
  | [] => rfl
  | [a] =>
    simp only [isValidIntegerSuffix, sufRun, sufStep, specSuffix, isU, isL, isZ, isI]
    grind [sufAccept]
  | [a, b] =>
    simp only [isValidIntegerSuffix, sufRun, sufStep, specSuffix, isU, isL, isZ, isI]
    grind [sufAccept, sufRun, sufStep]
  | [a, b, c] =>
    simp only [isValidIntegerSuffix, sufRun, sufStep, specSuffix, isU, isL, isZ, isI]
    grind [sufAccept, sufRun, sufStep, sufRun_lit]
  | [a, b, c, d] =>
    simp only [isValidIntegerSuffix, sufRun, sufStep, specSuffix, isU, isL, isZ, isI]
    grind [sufAccept, sufRun, sufStep, sufRun_lit]
  | a :: b :: c :: d :: e :: r =>
    simp only [isValidIntegerSuffix, sufRun, sufStep, specSuffix, isU, isL, isZ, isI]
    grind [sufAccept, sufRun, sufStep, sufRun_lit]

theorem sufRun_lit_std : ∀ r, sufRun false .lit r = true := by
  intro r; induction r with
  | nil => rfl
  | cons c r ih => simp [sufRun, sufStep, ih]

theorem suffix_spec_std (s : Str) : isValidIntegerSuffix s false = specSuffixStd s := by
  match s with
  | [] => rfl
  | [a] =>
    simp only [isValidIntegerSuffix, sufRun, sufStep, specSuffixStd, isU, isL, isZ, isI]
    grind [sufAccept]
  | [a, b] =>
    simp only [isValidIntegerSuffix, sufRun, sufStep, specSuffixStd, isU, isL, isZ, isI]
    grind [sufAccept, sufRun, sufStep]
  | [a, b, c] =>
    simp only [isValidIntegerSuffix, sufRun, sufStep, specSuffixStd, isU, isL, isZ, isI]
    grind [sufAccept, sufRun, sufStep, sufRun_lit_std]
  | a :: b :: c :: d :: r =>
    simp only [isValidIntegerSuffix, sufRun, sufStep, specSuffixStd, isU, isL, isZ, isI]
    grind [sufAccept, sufRun, sufStep, sufRun_lit_std]

/-! ## literal spelling → type (C09's model of `setValueTypeInTokenList`) → reported value -/

open Cppcheck.ValueTypeConv in
/-- bit count of the type the literal typing can choose -/
def litBits (ib lb llb : Nat) : VType → Nat
  | .int => ib | .long => lb | .llong => llb | _ => 0

theorem maxValue_big {b : Nat} (h : 2 ^ 62 ≤ Cppcheck.ValueTypeConv.maxValue b) : 64 ≤ b := by
  apply Classical.byContradiction
  intro hb
  have hb' : b < 64 := by omega
  have : ¬ (b ≥ 64) := by omega
  simp only [Cppcheck.ValueTypeConv.maxValue, this, if_false] at h
  have : 2 ^ (b - 1) ≤ 2 ^ 62 := Nat.pow_le_pow_right (by decide) (by omega)
  omega

theorem maxValue_le (b : Nat) : Cppcheck.ValueTypeConv.maxValue b ≤ 2 ^ 63 - 1 := by
  simp only [Cppcheck.ValueTypeConv.maxValue]
  split
  · exact Nat.le_refl _
  · rename_i h
    have : 2 ^ (b - 1) ≤ 2 ^ 63 := Nat.pow_le_pow_right (by decide) (by omega)
    omega

open Cppcheck.ValueTypeConv in
/-- a literal that bigint cannot hold as a non-negative number is typed unsigned with 64 bits (given 64-bit `long long`) -/
theorem litType_large (ib lb : Nat) (hib : ib ≤ 64) (hlb : lb ≤ 64) (dec us : Bool) (longs m : Nat)
    (h1 : 2 ^ 63 ≤ m) (h2 : m < 2 ^ 64) :
    (litTypeCore (maxValue ib) (maxValue lb) (maxValue 64) dec us longs m).sign = .unsigned ∧
    litBits ib lb 64 (litTypeCore (maxValue ib) (maxValue lb) (maxValue 64) dec us longs m).type = 64 := by
  have e1 : m >>> 1 = m / 2 := by simp [Nat.shiftRight_eq_div_pow]
  have hi := maxValue_le ib
  have hl := maxValue_le lb
  have hhalf : 2 ^ 62 ≤ m / 2 := by omega
  have bigI : m / 2 ≤ maxValue ib → ib = 64 := fun h => by have := maxValue_big (b := ib) (by omega); omega
  have bigL : m / 2 ≤ maxValue lb → lb = 64 := fun h => by have := maxValue_big (b := lb) (by omega); omega
  have h64 : maxValue 64 = 2 ^ 63 - 1 := by simp [maxValue]
  unfold litTypeCore
  simp only [e1, h64]
  cases us with
  | true =>
    simp only [if_true]
    split
    · rename_i h; exact ⟨rfl, by simp [litBits, bigI h.2]⟩
    · split
      · rename_i h; exact ⟨rfl, by simp [litBits, bigI h.2.2]⟩
      · split
        · rename_i h; exact ⟨rfl, by simp [litBits, bigL h.2]⟩
        · split
          · rename_i h; exact ⟨rfl, by simp [litBits, bigL h.2.2]⟩
          · split
            · exact ⟨rfl, rfl⟩
            · exact ⟨rfl, rfl⟩
  | false =>
    simp only [Bool.false_eq_true, if_false]
    split
    · rename_i h; omega
    · split
      · rename_i h; exact ⟨rfl, by simp [litBits, bigI h.2.2]⟩
      · split
        · rename_i h; omega
        · split
          · rename_i h; exact ⟨rfl, by simp [litBits, bigL h.2.2]⟩
          · split
            · rename_i h; omega
            · exact ⟨rfl, rfl⟩

end Cppcheck.MathLit

import Cppcheck.Model.XmlEsc
/-
Helper lemmas for C26 (XML): what the reader `XmlRd` makes of the pieces `toXML` prints.
-/
namespace Cppcheck.XmlEsc

theorem run_append (s : St) (a b : Str) : run s (a ++ b) = run (run s a) b := by simp [run, List.foldl_append]
theorem run_cons (s : St) (c : Char) (r : Str) : run s (c :: r) = run (step s c) r := rfl
@[simp] theorem run_nil (s : St) : run s [] = s := rfl

/-! ### characters -/

theorem ascii_utf8Valid : ∀ s : Str, (∀ c ∈ s, c.toNat < 0x80) → utf8Valid s = true := by
  intro s
  induction s with
  | nil => intro _; rfl
  | cons a r ih =>
    intro h
    have ha : a.toNat < 0x80 := h a (by simp)
    unfold utf8Valid
    rw [if_pos ha]
    exact ih (fun c hc => h c (by simp [hc]))

theorem printChar_attr (c : Char) : printChar false c =
    if c = '"' then "&quot;".toList else if c = '&' then "&amp;".toList else if c = '\'' then "&apos;".toList
    else if c = '<' then "&lt;".toList else if c = '>' then "&gt;".toList else [c] := by
  by_cases h1 : c = '"'
  · subst h1; decide
  by_cases h2 : c = '&'
  · subst h2; decide
  by_cases h3 : c = '\''
  · subst h3; decide
  by_cases h4 : c = '<'
  · subst h4; decide
  by_cases h5 : c = '>'
  · subst h5; decide
  have e1 : ('"' = c) = False := by simp [eq_comm, h1]
  have e2 : ('&' = c) = False := by simp [eq_comm, h2]
  have e3 : ('\'' = c) = False := by simp [eq_comm, h3]
  have e4 : ('<' = c) = False := by simp [eq_comm, h4]
  have e5 : ('>' = c) = False := by simp [eq_comm, h5]
  simp [printChar, printCharWith, entityFlag, tinyEntities, h1, h2, h3, h4, h5, e1, e2, e3, e4, e5]

theorem printChar_text (c : Char) : printChar true c =
    if c = '&' then "&amp;".toList else if c = '<' then "&lt;".toList else if c = '>' then "&gt;".toList else [c] := by
  by_cases h2 : c = '&'
  · subst h2; decide
  by_cases h4 : c = '<'
  · subst h4; decide
  by_cases h5 : c = '>'
  · subst h5; decide
  simp [printChar, printCharWith, entityFlag, h2, h4, h5]

theorem printString_eq (r : Bool) (v : Str) : printString r v = (cstr v).flatMap (printChar r) := rfl

/-! ### attribute values -/

theorem step_value_plain (tag : Str) (as : List (Str × Str)) (an av : Str) (stk : List Str) (evs : List Ev) (root : Bool)
    (c : Char) (h20 : 0x20 ≤ c.toNat) (hq : c ≠ '"') (hlt : c ≠ '<') (hamp : c ≠ '&') :
    step ⟨.value tag as an '"' av false, stk, evs, root⟩ c = ⟨.value tag as an '"' (c :: av) false, stk, evs, root⟩ := by
  have h1 : c ≠ '\r' := by intro h; subst h; revert h20; decide
  have h2 : c ≠ '\n' := by intro h; subst h; revert h20; decide
  have h3 : c ≠ '\t' := by intro h; subst h; revert h20; decide
  simp [step, hq, hlt, hamp, h1, h2, h3, h20]

theorem run_value_char (tag : Str) (as : List (Str × Str)) (an av : Str) (stk : List Str) (evs : List Ev) (root : Bool)
    (c : Char) (h20 : 0x20 ≤ c.toNat) :
    run ⟨.value tag as an '"' av false, stk, evs, root⟩ (printChar false c) =
      ⟨.value tag as an '"' (c :: av) false, stk, evs, root⟩ := by
  rw [printChar_attr]
  by_cases h1 : c = '"'
  · subst h1; rfl
  by_cases h2 : c = '&'
  · subst h2; rfl
  by_cases h3 : c = '\''
  · subst h3; rfl
  by_cases h4 : c = '<'
  · subst h4; rfl
  by_cases h5 : c = '>'
  · subst h5; rfl
  simp only [h1, h2, h3, h4, h5, if_false]
  rw [run_cons, run_nil]
  exact step_value_plain tag as an av stk evs root c h20 h1 h4 h2

theorem run_value_string (tag : Str) (as : List (Str × Str)) (an : Str) (stk : List Str) (evs : List Ev) (root : Bool) :
    ∀ (v av : Str), (∀ c ∈ v, 0x20 ≤ c.toNat) →
    run ⟨.value tag as an '"' av false, stk, evs, root⟩ (v.flatMap (printChar false)) =
      ⟨.value tag as an '"' (v.reverse ++ av) false, stk, evs, root⟩ := by
  intro v
  induction v with
  | nil => intro av _; rfl
  | cons c r ih =>
    intro av h
    rw [List.flatMap_cons, run_append, run_value_char _ _ _ _ _ _ _ c (h c (by simp)),
      ih (c :: av) (fun x hx => h x (by simp [hx]))]
    simp

/-! ### attributes -/

def validName : Str → Bool
  | [] => false
  | c :: r => nameStart c && r.all nameChar

theorem nameStart_facts (c : Char) (h : nameStart c = true) :
    isWs c = false ∧ c ≠ '/' ∧ c ≠ '>' ∧ nameChar c = true := by
  refine ⟨?_, ?_, ?_, by simp [nameChar, h]⟩
  · cases hw : isWs c with
    | false => rfl
    | true =>
      simp only [isWs, Bool.or_eq_true, decide_eq_true_eq] at hw
      rcases hw with ((h1 | h1) | h1) | h1 <;> (subst h1; revert h; decide)
  · intro h1; subst h1; revert h; decide
  · intro h1; subst h1; revert h; decide

theorem run_attrName (tag : Str) (as : List (Str × Str)) (stk : List Str) (evs : List Ev) (root : Bool) :
    ∀ (r acc : Str), (∀ c ∈ r, nameChar c = true) →
    run ⟨.attrName tag as acc, stk, evs, root⟩ r = ⟨.attrName tag as (r.reverse ++ acc), stk, evs, root⟩ := by
  intro r
  induction r with
  | nil => intro acc _; rfl
  | cons c r ih =>
    intro acc h
    have hc := h c (by simp)
    rw [run_cons]
    have : step ⟨.attrName tag as acc, stk, evs, root⟩ c = ⟨.attrName tag as (c :: acc), stk, evs, root⟩ := by
      simp [step, hc]
    rw [this, ih (c :: acc) (fun x hx => h x (by simp [hx]))]
    simp

/-- the body of one printed attribute (behind the blank): name="escaped value" -/
theorem run_attr_body (tag : Str) (as : List (Str × Str)) (stk : List Str) (evs : List Ev) (root : Bool)
    (name v : Str) (hn : validName name = true) (hv : attrOK v = true) (hdup : as.any (fun p => p.1 = name) = false) :
    run ⟨.attrs tag as true, stk, evs, root⟩ (name ++ ('=' :: '"' :: (printString false v ++ ['"']))) =
      ⟨.attrs tag ((name, cstr v) :: as) false, stk, evs, root⟩ := by
  cases name with
  | nil => simp [validName] at hn
  | cons c r =>
    simp only [validName, Bool.and_eq_true, List.all_eq_true] at hn
    obtain ⟨hc, hr⟩ := hn
    obtain ⟨hws, hsl, hgt, _⟩ := nameStart_facts c hc
    unfold attrOK at hv
    simp only [Bool.and_eq_true, List.all_eq_true, decide_eq_true_eq] at hv
    obtain ⟨h20, hutf⟩ := hv
    rw [List.cons_append, run_cons]
    have s1 : step ⟨.attrs tag as true, stk, evs, root⟩ c = ⟨.attrName tag as [c], stk, evs, root⟩ := by
      simp [step, hws, hsl, hgt, hc]
    rw [s1, run_append, run_attrName tag as stk evs root r [c] hr, run_cons]
    have s2 : step ⟨.attrName tag as (r.reverse ++ [c]), stk, evs, root⟩ '=' =
        ⟨.beforeQuote tag as (c :: r), stk, evs, root⟩ := by
      have : nameChar '=' = false := by decide
      simp [step, this]
    rw [s2, run_cons]
    have s3 : step ⟨.beforeQuote tag as (c :: r), stk, evs, root⟩ '"' =
        ⟨.value tag as (c :: r) '"' [] false, stk, evs, root⟩ := by
      have : isWs '"' = false := by decide
      simp [step, this]
    rw [s3, run_append, printString_eq, run_value_string tag as (c :: r) stk evs root (cstr v) [] h20, run_cons, run_nil]
    simp [step, hdup, hutf]

theorem run_attr (tag : Str) (as : List (Str × Str)) (ws : Bool) (stk : List Str) (evs : List Ev) (root : Bool)
    (name : String) (v : Str) (hn : validName name.toList = true) (hv : attrOK v = true)
    (hdup : as.any (fun p => p.1 = name.toList) = false) :
    run ⟨.attrs tag as ws, stk, evs, root⟩ (attr name v) =
      ⟨.attrs tag ((name.toList, cstr v) :: as) false, stk, evs, root⟩ := by
  unfold attr
  rw [run_cons]
  have : step ⟨.attrs tag as ws, stk, evs, root⟩ ' ' = ⟨.attrs tag as true, stk, evs, root⟩ := by
    have : isWs ' ' = true := by decide
    simp [step, this]
  rw [this]
  exact run_attr_body tag as stk evs root name.toList v hn hv hdup

/-- name and carried value of a printed attribute -/
def san (p : String × Str) : Str × Str := (p.1.toList, cstr p.2)

theorem carried_eq (t : List (String × Bool × Str)) : carried t = (present t).map san := rfl

theorem run_attrs_list (tag : Str) (stk : List Str) (evs : List Ev) (root : Bool) :
    ∀ (ps : List (String × Str)) (as : List (Str × Str)) (ws : Bool),
    (∀ p ∈ ps, validName p.1.toList = true ∧ attrOK p.2 = true) →
    ((ps.map (fun p => p.1.toList)) ++ as.map (fun q => q.1)).Nodup →
    ∃ ws', run ⟨.attrs tag as ws, stk, evs, root⟩ (ps.flatMap (fun p => attr p.1 p.2)) =
      ⟨.attrs tag ((ps.map san).reverse ++ as) ws', stk, evs, root⟩ := by
  intro ps
  induction ps with
  | nil => intro as ws _ _; exact ⟨ws, rfl⟩
  | cons p ps ih =>
    intro as ws hok hnd
    have hp := hok p (by simp)
    have hdup : as.any (fun q => q.1 = p.1.toList) = false := by
      apply Bool.eq_false_iff.mpr
      intro h
      simp only [List.any_eq_true, decide_eq_true_eq] at h
      obtain ⟨q, hq, he⟩ := h
      simp only [List.map_cons, List.cons_append, List.nodup_cons, List.mem_append, List.mem_map] at hnd
      exact hnd.1 (Or.inr ⟨q, hq, he⟩)
    have hnd' : ((ps.map (fun p => p.1.toList)) ++ (san p :: as).map (fun q => q.1)).Nodup := by
      simp only [List.map_cons, List.cons_append, List.nodup_cons, List.nodup_append, List.mem_append, List.mem_cons,
        List.mem_map, san] at hnd ⊢
      obtain ⟨h1, h2, h3, h4⟩ := hnd
      refine ⟨h2, ⟨?_, h3⟩, ?_⟩
      · intro hm; exact h1 (Or.inr hm)
      · intro a ha b hb
        rcases hb with rfl | hb
        · intro he; subst he; exact h1 (Or.inl ha)
        · exact h4 a ha b hb
    obtain ⟨ws', hrun⟩ := ih (san p :: as) false (fun q hq => hok q (by simp [hq])) hnd'
    refine ⟨ws', ?_⟩
    rw [List.flatMap_cons, run_append, run_attr tag as ws stk evs root p.1 p.2 hp.1 hp.2 hdup]
    rw [show ((p.1.toList, cstr p.2) :: as) = san p :: as from rfl, hrun]
    simp

/-- the first attribute follows the element name -/
theorem run_attrs_open (tagr : Str) (stk : List Str) (evs : List Ev) (root : Bool)
    (ps : List (String × Str)) (hne : ps ≠ [])
    (hok : ∀ p ∈ ps, validName p.1.toList = true ∧ attrOK p.2 = true)
    (hnd : (ps.map (fun p => p.1.toList)).Nodup) :
    ∃ ws', run ⟨.openName tagr, stk, evs, root⟩ (ps.flatMap (fun p => attr p.1 p.2)) =
      ⟨.attrs tagr.reverse (ps.map san).reverse ws', stk, evs, root⟩ := by
  cases ps with
  | nil => exact absurd rfl hne
  | cons p ps =>
    have hp := hok p (by simp)
    simp only [List.map_cons, List.nodup_cons] at hnd
    rw [List.flatMap_cons]
    have h1 : run ⟨.openName tagr, stk, evs, root⟩ (attr p.1 p.2) =
        ⟨.attrs tagr.reverse [(p.1.toList, cstr p.2)] false, stk, evs, root⟩ := by
      unfold attr
      rw [run_cons]
      have : step ⟨.openName tagr, stk, evs, root⟩ ' ' = ⟨.attrs tagr.reverse [] true, stk, evs, root⟩ := by
        have h1 : nameChar ' ' = false := by decide
        have h2 : isWs ' ' = true := by decide
        simp [step, h1, h2]
      rw [this]
      exact run_attr_body tagr.reverse [] stk evs root p.1.toList p.2 hp.1 hp.2 (by simp)
    obtain ⟨ws', hrun⟩ := run_attrs_list tagr.reverse stk evs root ps [san p] false
      (fun q hq => hok q (by simp [hq]))
      (by
        simp only [List.map_cons, List.map_nil, san]
        rw [List.nodup_append]
        refine ⟨hnd.2, by simp, ?_⟩
        intro a ha b hb
        simp only [List.mem_singleton] at hb
        subst hb
        intro he; subst he; exact hnd.1 ha)
    refine ⟨ws', ?_⟩
    rw [run_append, h1, show [(p.1.toList, cstr p.2)] = [san p] from rfl, hrun]
    simp

/-! ### values that are always safe -/

theorem octDigit_range : ∀ m, m < 8 → 0x20 ≤ (Char.ofNat (48 + m)).toNat ∧ (Char.ofNat (48 + m)).toNat < 0x80 := by decide

theorem fix_printable (s : Str) : ∀ c ∈ fixInvalidChars s, 0x20 ≤ c.toNat ∧ c.toNat < 0x80 := by
  intro c hc
  simp only [fixInvalidChars, List.mem_flatMap] at hc
  obtain ⟨a, _, hca⟩ := hc
  unfold fixChar at hca
  split at hca
  · rename_i hp
    simp only [List.mem_singleton] at hca
    subst hca
    simp only [isPrintC, Bool.and_eq_true, decide_eq_true_eq] at hp
    omega
  · simp only [List.mem_cons, List.not_mem_nil, or_false] at hca
    rcases hca with rfl | rfl | rfl | rfl
    · decide
    · exact octDigit_range _ (Nat.mod_lt _ (by decide))
    · exact octDigit_range _ (Nat.mod_lt _ (by decide))
    · exact octDigit_range _ (Nat.mod_lt _ (by decide))

theorem cstr_mem {v : Str} {c : Char} (h : c ∈ cstr v) : c ∈ v := by
  unfold cstr at h
  exact (List.takeWhile_sublist _).mem h

theorem attrOK_of_printable (v : Str) (h : ∀ c ∈ v, 0x20 ≤ c.toNat ∧ c.toNat < 0x80) : attrOK v = true := by
  unfold attrOK
  simp only [Bool.and_eq_true, List.all_eq_true, decide_eq_true_eq]
  refine ⟨fun c hc => (h c (cstr_mem hc)).1, ?_⟩
  exact ascii_utf8Valid _ (fun c hc => (h c (cstr_mem hc)).2)

theorem digit_range : ∀ m, m < 10 → 0x20 ≤ (Char.ofNat (48 + m)).toNat ∧ (Char.ofNat (48 + m)).toNat < 0x80 := by decide

theorem natDecAux_printable : ∀ (fuel n : Nat) (acc : Str), (∀ c ∈ acc, 0x20 ≤ c.toNat ∧ c.toNat < 0x80) →
    ∀ c ∈ natDecAux fuel n acc, 0x20 ≤ c.toNat ∧ c.toNat < 0x80 := by
  intro fuel
  induction fuel with
  | zero => intro n acc h; exact h
  | succ fuel ih =>
    intro n acc h
    have hd : ∀ c ∈ digitChar n :: acc, 0x20 ≤ c.toNat ∧ c.toNat < 0x80 := by
      intro c hc
      simp only [List.mem_cons] at hc
      rcases hc with rfl | hc
      · exact digit_range (n % 10) (Nat.mod_lt _ (by decide))
      · exact h c hc
    simp only [natDecAux]
    split
    · exact hd
    · exact ih _ _ hd

theorem natDec_printable (n : Nat) : ∀ c ∈ natDec n, 0x20 ≤ c.toNat ∧ c.toNat < 0x80 :=
  natDecAux_printable _ _ [] (fun c hc => by simp at hc)

theorem intDec_printable (i : Int) : ∀ c ∈ intDec i, 0x20 ≤ c.toNat ∧ c.toNat < 0x80 := by
  cases i with
  | ofNat n => exact natDec_printable n
  | negSucc n =>
    intro c hc
    simp only [intDec, List.mem_cons] at hc
    rcases hc with rfl | hc
    · decide
    · exact natDec_printable _ c hc

theorem sevStr_attrOK (n : Nat) : attrOK (sevStr n) = true := by
  unfold sevStr
  split <;> decide +kernel

/-! ### elements -/

def ws12 : Str := '\n' :: spaces 12
def ws8 : Str := '\n' :: spaces 8

theorem run_open_error : run init (spaces 8 ++ "<error".toList) = ⟨.openName "rorre".toList, [], [], false⟩ := by rfl

theorem run_open_location (top : Str) (rest : List Str) (evs : List Ev) :
    run ⟨.content [] false, top :: rest, evs, true⟩ (ws12 ++ "<location".toList) =
      ⟨.openName "noitacol".toList, top :: rest, .txt ws12 :: evs, true⟩ := by rfl

theorem run_open_symbol (top : Str) (rest : List Str) (evs : List Ev) :
    run ⟨.content [] false, top :: rest, evs, true⟩ (ws12 ++ "<symbol>".toList) =
      ⟨.content [] false, "symbol".toList :: top :: rest, .opn "symbol".toList [] :: .txt ws12 :: evs, true⟩ := by rfl

theorem run_close_error (evs : List Ev) :
    run ⟨.content [] false, ["error".toList], evs, true⟩ (ws8 ++ "</error>".toList) =
      ⟨.content [] false, [], .cls "error".toList :: .txt ws8 :: evs, true⟩ := by rfl

theorem run_empty_close (tag : Str) (as : List (Str × Str)) (ws : Bool) (top : Str) (rest : List Str) (evs : List Ev) (root : Bool) :
    run ⟨.attrs tag as ws, top :: rest, evs, root⟩ "/>".toList =
      ⟨.content [] false, top :: rest, .cls tag :: .opn tag as.reverse :: evs, true⟩ := by
  have h1 : isWs '/' = false := by decide
  simp [run, step, emitEmpty, h1]

theorem run_empty_close_root (tag : Str) (as : List (Str × Str)) (ws : Bool) :
    run ⟨.attrs tag as ws, [], [], false⟩ "/>".toList =
      ⟨.content [] false, [], [.cls tag, .opn tag as.reverse], true⟩ := by
  have h1 : isWs '/' = false := by decide
  simp [run, step, emitEmpty, h1]

theorem run_gt_root (tag : Str) (as : List (Str × Str)) (ws : Bool) :
    run ⟨.attrs tag as ws, [], [], false⟩ ['>'] = ⟨.content [] false, [tag], [.opn tag as.reverse], true⟩ := by
  have h1 : isWs '>' = false := by decide
  simp [run, step, emitOpen, h1]

/-! ### character data -/

theorem step_content_plain (acc : Str) (stk : List Str) (evs : List Ev) (root : Bool) (c : Char)
    (h20 : 0x20 ≤ c.toNat ∨ c = '\t') (hlt : c ≠ '<') (hamp : c ≠ '&') (hgt : c ≠ '>') :
    step ⟨.content acc false, stk, evs, root⟩ c = ⟨.content (c :: acc) false, stk, evs, root⟩ := by
  have h1 : c ≠ '\r' := by
    intro h; subst h; rcases h20 with h | h
    · revert h; decide
    · revert h; decide
  have h2 : c ≠ '\n' := by
    intro h; subst h; rcases h20 with h | h
    · revert h; decide
    · revert h; decide
  simp [step, hlt, hamp, hgt, h1, h2, h20]

theorem run_text_char (acc : Str) (top : Str) (rest : List Str) (evs : List Ev) (root : Bool) (c : Char)
    (h20 : 0x20 ≤ c.toNat ∨ c = '\t') :
    run ⟨.content acc false, top :: rest, evs, root⟩ (printChar true c) =
      ⟨.content (c :: acc) false, top :: rest, evs, root⟩ := by
  rw [printChar_text]
  by_cases h2 : c = '&'
  · subst h2; rfl
  by_cases h4 : c = '<'
  · subst h4; rfl
  by_cases h5 : c = '>'
  · subst h5; rfl
  simp only [h2, h4, h5, if_false]
  rw [run_cons, run_nil]
  exact step_content_plain acc _ evs root c h20 h4 h2 h5

theorem run_text_string (top : Str) (rest : List Str) (evs : List Ev) (root : Bool) :
    ∀ (v acc : Str), (∀ c ∈ v, 0x20 ≤ c.toNat ∨ c = '\t') →
    run ⟨.content acc false, top :: rest, evs, root⟩ (v.flatMap (printChar true)) =
      ⟨.content (v.reverse ++ acc) false, top :: rest, evs, root⟩ := by
  intro v
  induction v with
  | nil => intro acc _; rfl
  | cons c r ih =>
    intro acc h
    rw [List.flatMap_cons, run_append, run_text_char _ _ _ _ _ c (h c (by simp)),
      ih (c :: acc) (fun x hx => h x (by simp [hx]))]
    simp

theorem run_close_symbol (acc : Str) (rest : List Str) (evs : List Ev) (hutf : utf8Valid acc.reverse = true) :
    run ⟨.content acc false, "symbol".toList :: rest, evs, true⟩ "</symbol>".toList =
      ⟨.content [] false, rest,
        .cls "symbol".toList :: ((if acc = [] then [] else [Ev.txt acc.reverse]) ++ evs), true⟩ := by
  cases acc with
  | nil => rfl
  | cons a r =>
    have : run ⟨.content (a :: r) false, "symbol".toList :: rest, evs, true⟩ ['<'] =
        ⟨.tagStart, "symbol".toList :: rest, .txt (a :: r).reverse :: evs, true⟩ := by
      have hutf' : utf8Valid (r.reverse ++ [a]) = true := by simpa using hutf
      simp [run, step, flushText, hutf']
    have h2 : "</symbol>".toList = ['<'] ++ "/symbol>".toList := by decide
    rw [h2, run_append, this]
    rfl

/-! ### the children of `<error>` -/

def locEvs (l : Loc) : List Ev :=
  [.txt ws12, .opn "location".toList (carried (locAttrTable l)), .cls "location".toList]

def symEvs (s : Str) : List Ev :=
  [.txt ws12, .opn "symbol".toList []] ++ (if cstr s = [] then [] else [Ev.txt (cstr s)]) ++ [.cls "symbol".toList]

theorem locAttr_names (l : Loc) : (locAttrTable l).map (fun x => x.1.toList) =
    ["origfile".toList, "file".toList, "line".toList, "column".toList, "info".toList] := rfl

theorem present_names_nodup (t : List (String × Bool × Str)) (h : (t.map (fun x => x.1.toList)).Nodup) :
    ((present t).map (fun p => p.1.toList)).Nodup := by
  unfold present
  rw [List.map_map]
  have : (List.filter (fun x => x.2.1) t).map ((fun p : String × Str => p.1.toList) ∘ fun x => (x.1, x.2.2)) =
      (List.filter (fun x => x.2.1) t).map (fun x => x.1.toList) := rfl
  rw [this]
  exact List.Nodup.sublist ((List.filter_sublist).map _) h

theorem present_mem (t : List (String × Bool × Str)) (p : String × Str) (h : p ∈ present t) :
    ∃ x ∈ t, x.2.1 = true ∧ p = (x.1, x.2.2) := by
  unfold present at h
  simp only [List.mem_map, List.mem_filter] at h
  obtain ⟨x, ⟨hx, hb⟩, he⟩ := h
  exact ⟨x, hx, hb, he.symm⟩

theorem loc_present_ok (l : Loc) (hf : attrOK l.file = true) (ho : attrOK l.origFile = true) :
    ∀ p ∈ present (locAttrTable l), validName p.1.toList = true ∧ attrOK p.2 = true := by
  intro p hp
  obtain ⟨x, hx, _, rfl⟩ := present_mem _ p hp
  simp only [locAttrTable, List.mem_cons, List.not_mem_nil, or_false] at hx
  rcases hx with rfl | rfl | rfl | rfl | rfl
  · exact ⟨by show validName "origfile".toList = true; decide +kernel, ho⟩
  · exact ⟨by show validName "file".toList = true; decide +kernel, hf⟩
  · exact ⟨by show validName "line".toList = true; decide +kernel, attrOK_of_printable _ (intDec_printable _)⟩
  · exact ⟨by show validName "column".toList = true; decide +kernel, attrOK_of_printable _ (natDec_printable _)⟩
  · exact ⟨by show validName "info".toList = true; decide +kernel, attrOK_of_printable _ (fix_printable _)⟩

theorem loc_present_ne (l : Loc) : present (locAttrTable l) ≠ [] := by
  intro h
  have : ("file", l.file) ∈ present (locAttrTable l) := by
    unfold present
    exact List.mem_map.mpr ⟨("file", true, l.file), List.mem_filter.mpr ⟨by simp [locAttrTable], rfl⟩, rfl⟩
  rw [h] at this
  simp at this

theorem run_locXml (top : Str) (rest : List Str) (evs : List Ev) (l : Loc)
    (hf : attrOK l.file = true) (ho : attrOK l.origFile = true) :
    run ⟨.content [] false, top :: rest, evs, true⟩ (locXml l) =
      ⟨.content [] false, top :: rest, (locEvs l).reverse ++ evs, true⟩ := by
  have hx : locXml l = (ws12 ++ "<location".toList) ++ (locAttrs l ++ "/>".toList) := by
    simp [locXml, ws12]
  obtain ⟨ws', hrun⟩ := run_attrs_open "noitacol".toList (top :: rest) (.txt ws12 :: evs) true
    (present (locAttrTable l)) (loc_present_ne l) (loc_present_ok l hf ho)
    (present_names_nodup _ (by rw [locAttr_names]; decide +kernel))
  rw [hx, run_append, run_open_location, run_append]
  unfold locAttrs
  rw [hrun, run_empty_close]
  have : "noitacol".toList.reverse = "location".toList := by decide
  simp [locEvs, carried_eq]

theorem run_locs (top : Str) (rest : List Str) : ∀ (ls : List Loc) (evs : List Ev),
    (∀ l ∈ ls, attrOK l.file = true ∧ attrOK l.origFile = true) →
    run ⟨.content [] false, top :: rest, evs, true⟩ (ls.flatMap locXml) =
      ⟨.content [] false, top :: rest, (ls.flatMap locEvs).reverse ++ evs, true⟩ := by
  intro ls
  induction ls with
  | nil => intro evs _; rfl
  | cons l r ih =>
    intro evs h
    have hl := h l (by simp)
    rw [List.flatMap_cons, run_append, run_locXml top rest evs l hl.1 hl.2, ih _ (fun x hx => h x (by simp [hx]))]
    simp

theorem run_symXml (top : Str) (rest : List Str) (evs : List Ev) (s : Str) (hs : textOK s = true) :
    run ⟨.content [] false, top :: rest, evs, true⟩ (symXml s) =
      ⟨.content [] false, top :: rest, (symEvs s).reverse ++ evs, true⟩ := by
  unfold textOK at hs
  simp only [Bool.and_eq_true, List.all_eq_true, Bool.or_eq_true, decide_eq_true_eq] at hs
  obtain ⟨h20, hutf⟩ := hs
  have hx : symXml s = (ws12 ++ "<symbol>".toList) ++ (printString true s ++ "</symbol>".toList) := by
    simp [symXml, ws12]
  rw [hx, run_append, run_open_symbol, run_append, printString_eq,
    run_text_string _ _ _ _ (cstr s) [] h20, List.append_nil,
    run_close_symbol _ _ _ (by simpa using hutf)]
  by_cases he : cstr s = []
  · simp [symEvs, he]
  · simp [symEvs, he]

theorem run_syms (top : Str) (rest : List Str) : ∀ (ss : List Str) (evs : List Ev),
    (∀ s ∈ ss, textOK s = true) →
    run ⟨.content [] false, top :: rest, evs, true⟩ (ss.flatMap symXml) =
      ⟨.content [] false, top :: rest, (ss.flatMap symEvs).reverse ++ evs, true⟩ := by
  intro ss
  induction ss with
  | nil => intro evs _; rfl
  | cons s r ih =>
    intro evs h
    rw [List.flatMap_cons, run_append, run_symXml top rest evs s (h s (by simp)), ih _ (fun x hx => h x (by simp [hx]))]
    simp

/-! ### the whole `<error>` element -/

/-- the events a conforming reader reports for `toXML f` -/
def xmlEvents (f : Finding) : List Ev :=
  if f.stack = [] ∧ splitSymbols f.symbols = [] then
    [.opn "error".toList (carried (errAttrTable f)), .cls "error".toList]
  else
    [.opn "error".toList (carried (errAttrTable f))] ++ f.stack.reverse.flatMap locEvs ++
      (splitSymbols f.symbols).flatMap symEvs ++ [.txt ws8, .cls "error".toList]

theorem errAttr_names (f : Finding) : (errAttrTable f).map (fun x => x.1.toList) =
    ["id".toList, "guideline".toList, "severity".toList, "classification".toList, "msg".toList, "verbose".toList,
     "cwe".toList, "hash".toList, "inconclusive".toList, "file0".toList, "remark".toList] := rfl

theorem err_present_ok (f : Finding) (h : RawOK f = true) :
    ∀ p ∈ present (errAttrTable f), validName p.1.toList = true ∧ attrOK p.2 = true := by
  unfold RawOK at h
  simp only [Bool.and_eq_true] at h
  obtain ⟨⟨⟨⟨⟨hid, hgl⟩, hcl⟩, hf0⟩, _⟩, _⟩ := h
  intro p hp
  obtain ⟨x, hx, _, rfl⟩ := present_mem _ p hp
  simp only [errAttrTable, List.mem_cons, List.not_mem_nil, or_false] at hx
  rcases hx with rfl | rfl | rfl | rfl | rfl | rfl | rfl | rfl | rfl | rfl | rfl
  · exact ⟨by show validName "id".toList = true; decide +kernel, hid⟩
  · exact ⟨by show validName "guideline".toList = true; decide +kernel, hgl⟩
  · exact ⟨by show validName "severity".toList = true; decide +kernel, sevStr_attrOK _⟩
  · exact ⟨by show validName "classification".toList = true; decide +kernel, hcl⟩
  · exact ⟨by show validName "msg".toList = true; decide +kernel, attrOK_of_printable _ (fix_printable _)⟩
  · exact ⟨by show validName "verbose".toList = true; decide +kernel, attrOK_of_printable _ (fix_printable _)⟩
  · exact ⟨by show validName "cwe".toList = true; decide +kernel, attrOK_of_printable _ (natDec_printable _)⟩
  · exact ⟨by show validName "hash".toList = true; decide +kernel, attrOK_of_printable _ (natDec_printable _)⟩
  · exact ⟨by show validName "inconclusive".toList = true; decide +kernel, by show attrOK "true".toList = true; decide +kernel⟩
  · exact ⟨by show validName "file0".toList = true; decide +kernel, hf0⟩
  · exact ⟨by show validName "remark".toList = true; decide +kernel, attrOK_of_printable _ (fix_printable _)⟩

theorem err_present_ne (f : Finding) : present (errAttrTable f) ≠ [] := by
  intro h
  have : ("id", f.id) ∈ present (errAttrTable f) := by
    unfold present
    exact List.mem_map.mpr ⟨("id", true, f.id), List.mem_filter.mpr ⟨by simp [errAttrTable], rfl⟩, rfl⟩
  rw [h] at this
  simp at this

/-- **reading back**: for a finding whose unsanitised strings are plain, the reader accepts `toXML f` and reports
    exactly `xmlEvents f` -/
theorem readXml_toXML (f : Finding) (h : RawOK f = true) : readXml (toXML f) = some (xmlEvents f) := by
  have hok := err_present_ok f h
  obtain ⟨ws', hrun⟩ := run_attrs_open "rorre".toList [] [] false (present (errAttrTable f)) (err_present_ne f) hok
    (present_names_nodup _ (by rw [errAttr_names]; decide +kernel))
  have hrev : "rorre".toList.reverse = "error".toList := by decide
  unfold RawOK at h
  simp only [Bool.and_eq_true, List.all_eq_true] at h
  obtain ⟨⟨_, hlocs⟩, hsyms⟩ := h
  unfold readXml toXML xmlEvents
  rw [run_append, run_append, run_open_error]
  unfold errAttrs
  rw [hrun, hrev]
  split
  · rw [run_empty_close_root]
    simp [finish, carried_eq]
  · have hsp : ('>' :: (children f ++ '\n' :: (spaces 8 ++ "</error>".toList))) =
        ['>'] ++ (children f ++ (ws8 ++ "</error>".toList)) := by simp [ws8]
    rw [hsp, run_append, run_gt_root, run_append]
    unfold children
    rw [run_append _ (f.stack.reverse.flatMap locXml) _, run_locs "error".toList [] f.stack.reverse _ (fun l hl => by
        have := hlocs l (by simpa using hl); simpa using this),
      run_syms "error".toList [] _ _ hsyms, run_close_error]
    simp [finish, carried_eq]

/-! ### from events to the carried data -/

theorem ws12_ws : ws12.all isWs = true := by decide
theorem ws8_ws : ws8.all isWs = true := by decide
theorem sym_ne_loc : ("symbol".toList = "location".toList) = False := by decide

theorem rc_locs : ∀ (ls : List Loc) (rest : List Ev) (la : List (List (Str × Str))) (sa : List Str),
    readChildren (ls.flatMap locEvs ++ rest) la sa =
      readChildren rest ((ls.map (fun l => carried (locAttrTable l))).reverse ++ la) sa := by
  intro ls
  induction ls with
  | nil => intro rest la sa; rfl
  | cons l r ih =>
    intro rest la sa
    rw [List.flatMap_cons, List.append_assoc]
    simp only [locEvs, List.cons_append, List.nil_append]
    rw [readChildren]
    simp only [ws12_ws, if_true]
    rw [readChildren]
    simp only [and_self, if_true]
    rw [ih]; simp

theorem rc_syms : ∀ (ss : List Str) (rest : List Ev) (la : List (List (Str × Str))) (sa : List Str),
    readChildren (ss.flatMap symEvs ++ rest) la sa = readChildren rest la ((ss.map cstr).reverse ++ sa) := by
  intro ss
  induction ss with
  | nil => intro rest la sa; rfl
  | cons s r ih =>
    intro rest la sa
    rw [List.flatMap_cons, List.append_assoc]
    by_cases he : cstr s = []
    · simp only [symEvs, he, if_true, List.cons_append, List.nil_append, List.append_nil]
      rw [readChildren]
      simp only [ws12_ws, if_true]
      rw [readChildren]
      simp only [sym_ne_loc, false_and, if_false, and_self, if_true]
      rw [ih]; simp [he]
    · simp only [symEvs, he, if_false, List.cons_append, List.nil_append]
      rw [readChildren]
      simp only [ws12_ws, if_true]
      rw [readChildren]
      simp only [and_self, if_true]
      rw [ih]; simp

theorem rc_end (la : List (List (Str × Str))) (sa : List Str) :
    readChildren [.txt ws8, .cls "error".toList] la sa = some (la.reverse, sa.reverse) := by
  rw [readChildren]
  simp only [ws8_ws, if_true]
  rw [readChildren]
  simp

/-- the carried data read from the events of `toXML f` is `sanitize f` -/
theorem readError_events (f : Finding) : readError (xmlEvents f) = some (sanitize f) := by
  unfold xmlEvents
  split
  · rename_i hc
    simp only [readError, if_true]
    rw [readChildren]
    simp [sanitize, hc.1, hc.2]
  · simp only [List.cons_append, List.nil_append, readError, if_true, List.append_assoc]
    rw [rc_locs, rc_syms, rc_end]
    simp [sanitize]

/-! ### attribute names against a grammar -/

/-- names printed, as a function of the `if`s around the `PushAttribute` calls -/
def namesOf (t : List (Str × Bool)) : List Str := (t.filter (fun x => x.2)).map (fun x => x.1)

theorem carried_names (t : List (String × Bool × Str)) :
    (carried t).map (fun a => a.1) = namesOf (t.map (fun x => (x.1.toList, x.2.1))) := by
  simp [carried, present, namesOf, List.map_map, List.filter_map, Function.comp_def]

def errNameTable (bgl bcl bcwe bhash binc bf0 brem : Bool) : List (Str × Bool) :=
  [("id".toList, true), ("guideline".toList, bgl), ("severity".toList, true), ("classification".toList, bcl),
   ("msg".toList, true), ("verbose".toList, true), ("cwe".toList, bcwe), ("hash".toList, bhash),
   ("inconclusive".toList, binc), ("file0".toList, bf0), ("remark".toList, brem)]

def locNameTable (borig binfo : Bool) : List (Str × Bool) :=
  [("origfile".toList, borig), ("file".toList, true), ("line".toList, true), ("column".toList, true), ("info".toList, binfo)]

theorem lookup_severity (f : Finding) :
    (sanitize f).attrs.lookup "severity".toList = some (cstr (sevStr f.severity)) := by
  have h1 : ("severity".toList == "id".toList) = false := by decide +kernel
  simp only [sanitize, carried, present, errAttrTable, List.filter, List.map_cons, List.lookup, h1]
  cases decide (f.guideline ≠ []) <;> simp [List.lookup]

end Cppcheck.XmlEsc

import Cppcheck.Model.AstStore
/-
Helper lemmas for C14: the invariant of the AST pointer store and its preservation by every setter.
-/
namespace Cppcheck.AstStore

/-- `a` is a proper ancestor of `b` along parent pointers -/
inductive Anc (s : Store) : Nat → Nat → Prop
  | base {a b : Nat} : s.parent b = some a → Anc s a b
  | step {a p b : Nat} : s.parent b = some p → Anc s a p → Anc s a b

/-- the parent pointers form a forest -/
def Acyclic (s : Store) : Prop := ∀ i, ¬ Anc s i i
/-- an operand's parent pointer points back -/
def OpBack (s : Store) : Prop := ∀ p c, (s.op1 p = some c ∨ s.op2 p = some c) → s.parent c = some p
/-- a node's parent lists it as one of its operands -/
def Listed (s : Store) : Prop := ∀ c p, s.parent c = some p → (s.op1 p = some c ∨ s.op2 p = some c)
/-- no node is both operands of its parent -/
def Distinct (s : Store) : Prop := ∀ p c, s.op1 p = some c → s.op2 p = some c → False

/-- what ALL four setters preserve (also direct `astParent` calls) -/
structure WeakInv (s : Store) : Prop where
  acyclic : Acyclic s
  opBack : OpBack s
  distinct : Distinct s

/-- what `astOperand1` / `astOperand2` / the cache setter preserve: the design invariant -/
structure Inv (s : Store) : Prop extends WeakInv s where
  listed : Listed s

/-- `Listed` for every node but `x` (the state between `astParent` and the operand store) -/
def ListedExcept (s : Store) (x : Nat) : Prop :=
  ∀ c p, c ≠ x → s.parent c = some p → (s.op1 p = some c ∨ s.op2 p = some c)

@[simp] theorem upd_same (f : Nat → Option Nat) (i : Nat) (v : Option Nat) : upd f i v i = v := by simp [upd]
theorem upd_apply (f : Nat → Option Nat) (i : Nat) (v : Option Nat) (j : Nat) :
    upd f i v j = if j = i then v else f j := rfl

/-! ### ancestors -/

theorem Anc.inv {s : Store} {a b : Nat} (h : Anc s a b) : ∃ p, s.parent b = some p ∧ (p = a ∨ Anc s a p) := by
  cases h with
  | base h => exact ⟨a, h, .inl rfl⟩
  | step h1 h2 => exact ⟨_, h1, .inr h2⟩

theorem Anc.trans {s : Store} {a b c : Nat} (h1 : Anc s a b) (h2 : Anc s b c) : Anc s a c := by
  induction h2 with
  | base h => exact .step h h1
  | step h _ ih => exact .step h ih

/-- removing edges only removes ancestors -/
theorem Anc.mono {s s' : Store} (h : ∀ c p, s'.parent c = some p → s.parent c = some p) {a b : Nat}
    (ha : Anc s' a b) : Anc s a b := by
  induction ha with
  | base h1 => exact .base (h _ _ h1)
  | step h1 _ ih => exact .step (h _ _ h1) ih

/-- ancestors after `u.parent := x` -/
theorem Anc.of_link {s s' : Store} {u x : Nat}
    (hp : ∀ c, s'.parent c = if c = u then some x else s.parent c) {a b : Nat} (h : Anc s' a b) :
    Anc s a b ∨ ((a = x ∨ Anc s a x) ∧ (b = u ∨ Anc s u b)) := by
  induction h with
  | @base b h1 =>
    rw [hp] at h1
    by_cases hb : b = u
    · simp [hb] at h1; subst hb; exact .inr ⟨.inl h1.symm, .inl rfl⟩
    · simp [hb] at h1; exact .inl (.base h1)
  | @step p b h1 _ ih =>
    rw [hp] at h1
    by_cases hb : b = u
    · simp [hb] at h1
      subst hb; subst h1
      rcases ih with ih | ⟨ih1, _⟩
      · exact .inr ⟨.inr ih, .inl rfl⟩
      · exact .inr ⟨ih1, .inl rfl⟩
    · simp [hb] at h1
      rcases ih with ih | ⟨ih1, ih2⟩
      · exact .inl (.step h1 ih)
      · refine .inr ⟨ih1, .inr ?_⟩
        rcases ih2 with ih2 | ih2
        · subst ih2; exact .base h1
        · exact .step h1 ih2

theorem acyclic_of_link {s s' : Store} {u x : Nat} (hac : Acyclic s)
    (hp : ∀ c, s'.parent c = if c = u then some x else s.parent c)
    (hne : x ≠ u) (hna : ¬ Anc s u x) : Acyclic s' := by
  intro i hi
  rcases Anc.of_link hp hi with h | ⟨h1, h2⟩
  · exact hac i h
  · rcases h1 with h1 | h1 <;> rcases h2 with h2 | h2
    · exact hne (h1.symm.trans h2)
    · subst h1; exact hna h2
    · subst h2; exact hna h1
    · exact hna (h2.trans h1)

theorem acyclic_of_sub {s s' : Store} (hac : Acyclic s)
    (h : ∀ c p, s'.parent c = some p → s.parent c = some p) : Acyclic s' :=
  fun i hi => hac i (Anc.mono h hi)

/-! ### the cycle check -/

theorem cycleWalk_none (s : Store) (x f : Nat) : cycleWalk s x f none = .clear := by
  cases f <;> rfl

theorem cycleWalk_clear {s : Store} {x : Nat} : ∀ {f : Nat} {t : Option Nat}, cycleWalk s x f t = .clear →
    ∀ c, t = some c → c ≠ x ∧ ¬ Anc s x c := by
  intro f
  induction f with
  | zero => intro t h c hc; subst hc; simp [cycleWalk] at h
  | succ f ih =>
    intro t h c hc
    subst hc
    simp only [cycleWalk] at h
    split at h
    · cases h
    · rename_i hne
      refine ⟨hne, fun ha => ?_⟩
      obtain ⟨p, hp, hpa⟩ := ha.inv
      have := ih h p hp
      rcases hpa with hpa | hpa
      · exact this.1 hpa
      · exact this.2 hpa

/-! ### `clearAtParent` -/

@[simp] theorem clearAtParent_parent (s : Store) (x : Nat) : (clearAtParent s x).parent = s.parent := by
  unfold clearAtParent
  cases s.parent x with
  | none => rfl
  | some p => by_cases h1 : s.op1 p = some x <;> by_cases h2 : s.op2 p = some x <;> simp [h1, h2]
@[simp] theorem clearAtParent_top (s : Store) (x : Nat) : (clearAtParent s x).top = s.top := by
  unfold clearAtParent
  cases s.parent x with
  | none => rfl
  | some p => by_cases h1 : s.op1 p = some x <;> by_cases h2 : s.op2 p = some x <;> simp [h1, h2]
@[simp] theorem clearAtParent_n (s : Store) (x : Nat) : (clearAtParent s x).n = s.n := by
  unfold clearAtParent
  cases s.parent x with
  | none => rfl
  | some p => by_cases h1 : s.op1 p = some x <;> by_cases h2 : s.op2 p = some x <;> simp [h1, h2]

theorem clearAtParent_op1 (s : Store) (x q : Nat) :
    (clearAtParent s x).op1 q = if s.parent x = some q ∧ s.op1 q = some x then none else s.op1 q := by
  unfold clearAtParent
  split
  · rename_i h; simp [h]
  · rename_i p h
    by_cases h1 : s.op1 p = some x <;> by_cases h2 : s.op2 p = some x <;> simp [h, h1, h2, upd_apply] <;> grind

theorem clearAtParent_op2 (s : Store) (x q : Nat) :
    (clearAtParent s x).op2 q = if s.parent x = some q ∧ s.op2 q = some x then none else s.op2 q := by
  unfold clearAtParent
  split
  · rename_i h; simp [h]
  · rename_i p h
    by_cases h1 : s.op1 p = some x <;> by_cases h2 : s.op2 p = some x <;> simp [h, h1, h2, upd_apply] <;> grind

/-! ### `astParent` -/

/-- the effect of a returning `x->astParent(t)` -/
structure ParentSet (s s' : Store) (x : Nat) (t : Option Nat) : Prop where
  n : s'.n = s.n
  top : s'.top = s.top
  parent : ∀ c, s'.parent c = if c = x then t else s.parent c
  op1 : ∀ q, s'.op1 q = if s.parent x = some q ∧ s.op1 q = some x then none else s.op1 q
  op2 : ∀ q, s'.op2 q = if s.parent x = some q ∧ s.op2 q = some x then none else s.op2 q
  nocycle : ∀ y, t = some y → y ≠ x ∧ ¬ Anc s x y

theorem astParent_cases (s : Store) (x : Nat) (t : Option Nat) :
    (∃ s', astParent s x t = (s', .ok) ∧ ParentSet s s' x t) ∨ astParent s x t = (s, .throw) ∨ astParent s x t = (s, .hang) := by
  unfold astParent
  cases h : cycleWalk s x s.n t with
  | hang => simp
  | cycle => simp
  | clear =>
    refine .inl ⟨_, rfl, ?_⟩
    refine ⟨by simp, by simp, ?_, ?_, ?_, fun y hy => cycleWalk_clear h y hy⟩
    · intro c; simp [upd_apply]
    · intro q; simp [clearAtParent_op1]
    · intro q; simp [clearAtParent_op2]

theorem astParent_none_ok (s : Store) (x : Nat) : ∃ s', astParent s x none = (s', .ok) ∧ ParentSet s s' x none := by
  rcases astParent_cases s x none with h | h | h
  · exact h
  · simp [astParent, cycleWalk_none] at h
  · simp [astParent, cycleWalk_none] at h

theorem ParentSet.weak {s s' : Store} {x : Nat} {t : Option Nat} (h : ParentSet s s' x t) (w : WeakInv s) : WeakInv s' := by
  refine ⟨?_, ?_, ?_⟩
  · cases t with
    | none =>
      refine acyclic_of_sub w.acyclic fun c p hc => ?_
      rw [h.parent] at hc; split at hc <;> simp_all
    | some y =>
      have := h.nocycle y rfl
      exact acyclic_of_link (u := x) (x := y) w.acyclic h.parent this.1 this.2
  · intro p c hc
    have hb := w.opBack p c
    rw [h.op1, h.op2] at hc
    rw [h.parent]
    by_cases hcx : c = x
    · subst hcx
      rcases hc with hc | hc <;> split at hc <;> simp_all
    · simp only [hcx, if_false]
      rcases hc with hc | hc <;> split at hc <;> simp_all
  · intro p c h1 h2
    rw [h.op1] at h1; rw [h.op2] at h2
    split at h1 <;> split at h2 <;> simp_all
    exact w.distinct p c h1 h2

theorem ParentSet.listedExcept {s s' : Store} {x : Nat} {t : Option Nat} (h : ParentSet s s' x t)
    (l : ListedExcept s x) : ListedExcept s' x := by
  intro c p hcx hp
  rw [h.parent] at hp
  simp only [hcx, if_false] at hp
  have := l c p hcx hp
  rw [h.op1, h.op2]
  rcases this with h1 | h1
  · left; rw [if_neg]; · exact h1
    intro ⟨_, h2⟩; rw [h1] at h2; exact hcx (Option.some.inj h2)
  · right; rw [if_neg]; · exact h1
    intro ⟨_, h2⟩; rw [h1] at h2; exact hcx (Option.some.inj h2)

theorem Listed.except {s : Store} (l : Listed s) (x : Nat) : ListedExcept s x := fun c p _ hp => l c p hp

/-! ### slots -/

theorem or_iff_getOp (s : Store) (p c : Nat) :
    (s.op1 p = some c ∨ s.op2 p = some c) ↔ ∃ sd, getOp s sd p = some c := by
  constructor
  · rintro (h | h)
    · exact ⟨.one, h⟩
    · exact ⟨.two, h⟩
  · rintro ⟨sd, h⟩
    cases sd
    · exact .inl h
    · exact .inr h

def Side.other : Side → Side
  | .one => .two
  | .two => .one

theorem getOp_setOp (s : Store) (sd sd' : Side) (x q : Nat) (v : Option Nat) :
    getOp (setOp s sd x v) sd' q = if sd' = sd ∧ q = x then v else getOp s sd' q := by
  cases sd <;> cases sd' <;> simp [getOp, setOp, upd_apply]

@[simp] theorem setOp_parent (s : Store) (sd : Side) (x : Nat) (v : Option Nat) : (setOp s sd x v).parent = s.parent := by
  cases sd <;> rfl
@[simp] theorem setOp_top (s : Store) (sd : Side) (x : Nat) (v : Option Nat) : (setOp s sd x v).top = s.top := by
  cases sd <;> rfl
@[simp] theorem setOp_n (s : Store) (sd : Side) (x : Nat) (v : Option Nat) : (setOp s sd x v).n = s.n := by
  cases sd <;> rfl

theorem ParentSet.getOp {s s' : Store} {x : Nat} {t : Option Nat} (h : ParentSet s s' x t) (sd : Side) (q : Nat) :
    getOp s' sd q = if s.parent x = some q ∧ getOp s sd q = some x then none else getOp s sd q := by
  cases sd
  · exact h.op1 q
  · exact h.op2 q

theorem WeakInv.slot_ne {s : Store} (w : WeakInv s) {sd sd' : Side} {p c : Nat}
    (h1 : getOp s sd p = some c) (h2 : getOp s sd' p = some c) : sd = sd' := by
  cases sd <;> cases sd' <;> first | rfl | (exfalso; first | exact w.distinct p c h1 h2 | exact w.distinct p c h2 h1)

theorem WeakInv.back {s : Store} (w : WeakInv s) {sd : Side} {p c : Nat} (h : getOp s sd p = some c) : s.parent c = some p :=
  w.opBack p c ((or_iff_getOp s p c).2 ⟨sd, h⟩)

/-! ### `detach` -/

theorem detach_spec (sd : Side) (s : Store) (x : Nat) (w : WeakInv s) :
    ∃ s1, detach sd s x = (s1, .ok) ∧ WeakInv s1 ∧ (Listed s → Listed s1) ∧ getOp s1 sd x = none ∧ s1.n = s.n ∧ s1.top = s.top
      ∧ (∀ c p, s1.parent c = some p → s.parent c = some p)
      ∧ (∀ sd' q c, getOp s1 sd' q = some c → getOp s sd' q = some c) := by
  unfold detach
  cases hc : getOp s sd x with
  | none => exact ⟨s, rfl, w, id, hc, rfl, rfl, fun _ _ h => h, fun _ _ _ h => h⟩
  | some c =>
    obtain ⟨s1, h1, ps⟩ := astParent_none_ok s c
    have hpc : s.parent c = some x := w.back hc
    refine ⟨s1, h1, ps.weak w, ?_, ?_, ps.n, ps.top, ?_, ?_⟩
    · intro l c' p hp
      by_cases hcc : c' = c
      · subst hcc; rw [ps.parent] at hp; simp at hp
      · exact ps.listedExcept (l.except c) c' p hcc hp
    · rw [ps.getOp]; simp [hpc, hc]
    · intro c' p hp; rw [ps.parent] at hp; split at hp <;> simp_all
    · intro sd' q c' hq; rw [ps.getOp] at hq; split at hq <;> simp_all

/-! ### `attach` -/

theorem attach_spec (sd : Side) (s1 : Store) (x : Nat) (t : Option Nat) (w : WeakInv s1) (hfree : getOp s1 sd x = none) :
    WeakInv (attach sd s1 x t).1 ∧ (Listed s1 → Listed (attach sd s1 x t).1) := by
  unfold attach
  cases t with
  | none =>
    -- storing nullptr into a slot that is already null
    have hg : ∀ sd' q, getOp (setOp s1 sd x none) sd' q = getOp s1 sd' q := by
      intro sd' q; rw [getOp_setOp]; split
      · rename_i h; rw [h.1, h.2, hfree]
      · rfl
    have h1 : ∀ q, (setOp s1 sd x none).op1 q = s1.op1 q := fun q => hg .one q
    have h2 : ∀ q, (setOp s1 sd x none).op2 q = s1.op2 q := fun q => hg .two q
    refine ⟨⟨?_, ?_, ?_⟩, ?_⟩
    · exact acyclic_of_sub w.acyclic (by simp)
    · intro p c; rw [h1, h2]; simpa using w.opBack p c
    · intro p c; rw [h1, h2]; exact w.distinct p c
    · intro l c p; rw [h1, h2]; simpa using l c p
  | some t0 =>
    simp only
    cases htop : astTop s1 t0 with
    | none => exact ⟨w, id⟩
    | some u =>
      simp only
      rcases astParent_cases s1 u (some x) with ⟨s2, h2, ps⟩ | h2 | h2
      · rw [h2]; simp only
        have w2 : WeakInv s2 := ps.weak w
        have hux : x ≠ u := (ps.nocycle x rfl).1
        have hpu : s2.parent u = some x := by rw [ps.parent]; simp
        -- the slot that is overwritten is still null, and `u` is in no slot of `s2`
        have hfree2 : getOp s2 sd x = none := by rw [ps.getOp, hfree]; simp
        have hnou : ∀ sd' q, getOp s2 sd' q ≠ some u := by
          intro sd' q hq
          rw [ps.getOp] at hq
          split at hq
          · cases hq
          · rename_i hn
            exact hn ⟨w.back hq, hq⟩
        have hg : ∀ sd' q, getOp (setOp s2 sd x (some u)) sd' q = if sd' = sd ∧ q = x then some u else getOp s2 sd' q :=
          fun sd' q => getOp_setOp s2 sd sd' x q (some u)
        have hor : ∀ p c, ((setOp s2 sd x (some u)).op1 p = some c ∨ (setOp s2 sd x (some u)).op2 p = some c) ↔
            ((p = x ∧ c = u) ∨ (s2.op1 p = some c ∨ s2.op2 p = some c)) := by
          intro p c
          rw [or_iff_getOp, or_iff_getOp]
          constructor
          · rintro ⟨sd', h⟩
            rw [hg] at h
            split at h
            · rename_i hh; exact .inl ⟨hh.2, (Option.some.inj h).symm⟩
            · exact .inr ⟨sd', h⟩
          · rintro (⟨hp, hc⟩ | ⟨sd', h⟩)
            · exact ⟨sd, by rw [hg]; simp [hp, hc]⟩
            · refine ⟨sd', ?_⟩
              rw [hg]
              split
              · rename_i hh; rw [hh.1, hh.2, hfree2] at h; cases h
              · exact h
        refine ⟨⟨?_, ?_, ?_⟩, ?_⟩
        · exact acyclic_of_sub w2.acyclic (by simp)
        · intro p c hc
          rw [setOp_parent]
          rcases (hor p c).1 hc with ⟨hp, hcu⟩ | hc
          · rw [hp, hcu]; exact hpu
          · exact w2.opBack p c hc
        · intro p c h1 h2'
          have g1 : getOp (setOp s2 sd x (some u)) .one p = some c := h1
          have g2 : getOp (setOp s2 sd x (some u)) .two p = some c := h2'
          rw [hg] at g1 g2
          split at g1 <;> split at g2
          · rename_i a b; exact absurd (a.1.trans b.1.symm) (by decide)
          · exact hnou .two p (by rw [Option.some.inj g1]; exact g2)
          · exact hnou .one p (by rw [Option.some.inj g2]; exact g1)
          · exact w2.distinct p c g1 g2
        · intro l c p hp
          rw [setOp_parent] at hp
          apply (hor p c).2
          by_cases hcu : c = u
          · subst hcu; rw [hpu] at hp; exact .inl ⟨(Option.some.inj hp).symm, rfl⟩
          · exact .inr (ps.listedExcept (l.except u) c p hcu hp)
      · rw [h2]; exact ⟨w, id⟩
      · rw [h2]; exact ⟨w, id⟩

/-! ### the setters -/

theorem astParent_weak (s : Store) (x : Nat) (t : Option Nat) (w : WeakInv s) : WeakInv (astParent s x t).1 := by
  rcases astParent_cases s x t with ⟨s', h, ps⟩ | h | h <;> rw [h]
  · exact ps.weak w
  · exact w
  · exact w

theorem astOperand_spec (sd : Side) (s : Store) (x : Nat) (t : Option Nat) (w : WeakInv s) :
    WeakInv (astOperand sd s x t).1 ∧ (Listed s → Listed (astOperand sd s x t).1) := by
  obtain ⟨s1, h1, w1, l1, hfree, _, _, _, _⟩ := detach_spec sd s x w
  unfold astOperand
  rw [h1]
  have := attach_spec sd s1 x t w1 hfree
  exact ⟨this.1, fun l => this.2 (l1 l)⟩

theorem step_weak (s : Store) (o : Op) (w : WeakInv s) : WeakInv (step s o).1 := by
  cases o with
  | o1 x t => exact (astOperand_spec .one s x t w).1
  | o2 x t => exact (astOperand_spec .two s x t w).1
  | pa x t => exact astParent_weak s x t w
  | tp x t => exact ⟨acyclic_of_sub w.acyclic (fun _ _ h => h), w.opBack, w.distinct⟩

theorem step_inv (s : Store) (o : Op) (h : Inv s) (ho : o.viaOperands = true) : Inv (step s o).1 := by
  cases o with
  | o1 x t => exact ⟨(astOperand_spec .one s x t h.toWeakInv).1, (astOperand_spec .one s x t h.toWeakInv).2 h.listed⟩
  | o2 x t => exact ⟨(astOperand_spec .two s x t h.toWeakInv).1, (astOperand_spec .two s x t h.toWeakInv).2 h.listed⟩
  | pa x t => simp [Op.viaOperands] at ho
  | tp x t => exact ⟨step_weak s (.tp x t) h.toWeakInv, h.listed⟩

theorem init_inv (n : Nat) : Inv (init n) := by
  refine ⟨⟨?_, ?_, ?_⟩, ?_⟩
  · intro i hi; obtain ⟨p, hp, _⟩ := hi.inv; simp [init] at hp
  · intro p c h; simp [init] at h
  · intro p c h; simp [init] at h
  · intro c p h; simp [init] at h

/-! ### termination of the two pointer-chasing loops -/

/-- every parent pointer designates an existing token -/
def ParentsClosed (s : Store) : Prop := ∀ i v, s.parent i = some v → v < s.n

/-- the parent chain from `c`: at most `k+1` nodes -/
def chain (s : Store) : Nat → Nat → List Nat
  | 0, c => [c]
  | k + 1, c => c :: (match s.parent c with | none => [] | some p => chain s k p)

theorem chain_anc (s : Store) : ∀ k c y, y ∈ chain s k c → y = c ∨ Anc s y c := by
  intro k
  induction k with
  | zero => intro c y h; simp [chain] at h; exact .inl h
  | succ k ih =>
    intro c y h
    simp only [chain, List.mem_cons] at h
    rcases h with h | h
    · exact .inl h
    · cases hp : s.parent c with
      | none => simp [hp] at h
      | some p =>
        simp only [hp] at h
        rcases ih p y h with h | h
        · subst h; exact .inr (.base hp)
        · exact .inr (.step hp h)

theorem chain_nodup (s : Store) (hac : Acyclic s) : ∀ k c, (chain s k c).Nodup := by
  intro k
  induction k with
  | zero => intro c; simp [chain]
  | succ k ih =>
    intro c
    simp only [chain]
    cases hp : s.parent c with
    | none => simp
    | some p =>
      simp only
      refine List.nodup_cons.2 ⟨fun hm => ?_, ih p⟩
      rcases chain_anc s k p c hm with h | h
      · subst h; exact hac _ (.base hp)
      · exact hac _ (.step hp h)

theorem chain_lt (s : Store) (hcl : ParentsClosed s) : ∀ k c, c < s.n → ∀ y ∈ chain s k c, y < s.n := by
  intro k
  induction k with
  | zero => intro c hc y h; simp [chain] at h; exact h ▸ hc
  | succ k ih =>
    intro c hc y h
    simp only [chain, List.mem_cons] at h
    rcases h with h | h
    · exact h ▸ hc
    · cases hp : s.parent c with
      | none => simp [hp] at h
      | some p => simp only [hp] at h; exact ih p (hcl c p hp) y h

/-- pigeonhole: a duplicate-free list of numbers below `n` has at most `n` elements -/
theorem nodup_length_le : ∀ (n : Nat) (l : List Nat), l.Nodup → (∀ x ∈ l, x < n) → l.length ≤ n := by
  intro n
  induction n with
  | zero =>
    intro l _ h
    cases l with
    | nil => simp
    | cons a r => exact absurd (h a (by simp)) (by omega)
  | succ n ih =>
    intro l hnd h
    have h1 : (l.erase n).Nodup := hnd.sublist (List.erase_sublist ..)
    have h2 : ∀ x ∈ l.erase n, x < n := by
      intro x hx
      have := (List.Nodup.mem_erase_iff hnd).1 hx
      have := h x this.2
      omega
    have h3 := ih _ h1 h2
    have h4 : l.length ≤ (l.erase n).length + 1 := by
      by_cases hm : n ∈ l
      · rw [List.length_erase_of_mem hm]; omega
      · rw [List.erase_of_not_mem hm]; omega
    omega

theorem cycleWalk_hang_chain (s : Store) (x : Nat) : ∀ f c, cycleWalk s x f (some c) = .hang → (chain s f c).length = f + 1 := by
  intro f
  induction f with
  | zero => intro c _; simp [chain]
  | succ f ih =>
    intro c h
    simp only [cycleWalk] at h
    split at h
    · cases h
    · cases hp : s.parent c with
      | none => rw [hp, cycleWalk_none] at h; cases h
      | some p =>
        rw [hp] at h
        simp [chain, hp, ih p h]

theorem topWalk_none_chain (s : Store) : ∀ f c, topWalk s f c = none → (chain s (f + 1) c).length = f + 2 := by
  intro f
  induction f with
  | zero =>
    intro c h
    unfold topWalk at h
    cases hp : s.parent c with
    | none => simp [hp] at h
    | some p => simp [chain, hp]
  | succ f ih =>
    intro c h
    unfold topWalk at h
    cases hp : s.parent c with
    | none => simp [hp] at h
    | some p =>
      simp only [hp] at h
      have := ih p h
      simp [chain, hp] at this ⊢
      omega

theorem cycleWalk_no_hang (s : Store) (hac : Acyclic s) (hcl : ParentsClosed s) (x : Nat) (t : Option Nat)
    (ht : ∀ c, t = some c → c < s.n) : cycleWalk s x s.n t ≠ .hang := by
  intro h
  cases t with
  | none => rw [cycleWalk_none] at h; cases h
  | some c =>
    have h1 := cycleWalk_hang_chain s x s.n c h
    have h2 := nodup_length_le s.n _ (chain_nodup s hac s.n c) (chain_lt s hcl s.n c (ht c rfl))
    omega

theorem astTop_some (s : Store) (hac : Acyclic s) (hcl : ParentsClosed s) (c : Nat) (hc : c < s.n) : ∃ u, astTop s c = some u := by
  unfold astTop
  cases s.top c with
  | some u => exact ⟨u, rfl⟩
  | none =>
    simp only
    cases h : topWalk s s.n c with
    | some u => exact ⟨u, rfl⟩
    | none =>
      have h1 := topWalk_none_chain s s.n c h
      have h2 := nodup_length_le s.n _ (chain_nodup s hac (s.n + 1) c) (chain_lt s hcl (s.n + 1) c hc)
      omega

theorem astParent_no_hang (s : Store) (hac : Acyclic s) (hcl : ParentsClosed s) (x : Nat) (t : Option Nat)
    (ht : ∀ c, t = some c → c < s.n) : (astParent s x t).2 ≠ .hang := by
  rcases astParent_cases s x t with ⟨s', h, _⟩ | h | h
  · rw [h]; simp
  · rw [h]; simp
  · exfalso
    have := cycleWalk_no_hang s hac hcl x t ht
    unfold astParent at h
    split at h <;> simp_all

theorem ParentSet.closed {s s' : Store} {x : Nat} {t : Option Nat} (h : ParentSet s s' x t) (hcl : ParentsClosed s)
    (ht : ∀ c, t = some c → c < s.n) : ParentsClosed s' := by
  intro i v hv
  rw [h.parent] at hv
  rw [h.n]
  split at hv
  · exact ht v hv
  · exact hcl i v hv

theorem astParent_closed (s : Store) (hcl : ParentsClosed s) (x : Nat) (t : Option Nat) (ht : ∀ c, t = some c → c < s.n) :
    ParentsClosed (astParent s x t).1 ∧ (astParent s x t).1.n = s.n := by
  rcases astParent_cases s x t with ⟨s', h, ps⟩ | h | h <;> rw [h]
  · exact ⟨ps.closed hcl ht, ps.n⟩
  · exact ⟨hcl, rfl⟩
  · exact ⟨hcl, rfl⟩

theorem astOperand_total (sd : Side) (s : Store) (x : Nat) (t : Option Nat) (w : WeakInv s) (hcl : ParentsClosed s)
    (hx : x < s.n) (ht : ∀ c, t = some c → c < s.n) :
    (astOperand sd s x t).2 ≠ .hang ∧ ParentsClosed (astOperand sd s x t).1 ∧ (astOperand sd s x t).1.n = s.n := by
  obtain ⟨s1, h1, w1, _, _, hn, _, hsub, _⟩ := detach_spec sd s x w
  have hcl1 : ParentsClosed s1 := fun i v hv => hn ▸ hcl i v (hsub i v hv)
  unfold astOperand
  rw [h1]
  simp only
  unfold attach
  cases t with
  | none => exact ⟨by simp, by simpa [ParentsClosed] using hcl1, by simp [hn]⟩
  | some t0 =>
    simp only
    obtain ⟨u, hu⟩ := astTop_some s1 w1.acyclic hcl1 t0 (hn ▸ ht t0 rfl)
    rw [hu]
    simp only
    have hx1 : ∀ c, some x = some c → c < s1.n := fun c hc => by cases hc; exact hn ▸ hx
    have hnh := astParent_no_hang s1 w1.acyclic hcl1 u (some x) hx1
    have hc2 := astParent_closed s1 hcl1 u (some x) hx1
    rcases astParent_cases s1 u (some x) with ⟨s2, h2, ps⟩ | h2 | h2
    · rw [h2] at hc2 ⊢
      exact ⟨by simp, by simpa [ParentsClosed] using hc2.1, by simp only [setOp_n]; exact ps.n.trans hn⟩
    · rw [h2]; exact ⟨by simp, hcl1, hn⟩
    · rw [h2] at hnh; simp at hnh

theorem step_total (s : Store) (o : Op) (w : WeakInv s) (hcl : ParentsClosed s) (ho : o.inRange s.n = true) :
    (step s o).2 ≠ .hang ∧ ParentsClosed (step s o).1 ∧ (step s o).1.n = s.n := by
  cases o with
  | o1 x t =>
    simp only [Op.inRange, Bool.and_eq_true, decide_eq_true_eq] at ho
    exact astOperand_total .one s x t w hcl ho.1 (fun c hc => by subst hc; simpa using ho.2)
  | o2 x t =>
    simp only [Op.inRange, Bool.and_eq_true, decide_eq_true_eq] at ho
    exact astOperand_total .two s x t w hcl ho.1 (fun c hc => by subst hc; simpa using ho.2)
  | pa x t =>
    simp only [Op.inRange, Bool.and_eq_true, decide_eq_true_eq] at ho
    have ht : ∀ c, t = some c → c < s.n := fun c hc => by subst hc; simpa using ho.2
    exact ⟨astParent_no_hang s w.acyclic hcl x t ht, astParent_closed s hcl x t ht⟩
  | tp x t => exact ⟨by simp [step], hcl, rfl⟩

/-! ### runs -/

theorem run_all (P : Store → Prop) (Q : Op → Bool) (hstep : ∀ s o, P s → Q o = true → P (step s o).1) :
    ∀ (ops : List Op) (s : Store), P s → ops.all Q = true → P (run s ops).1 ∧ ∀ p ∈ trace s ops, P p.2 := by
  intro ops
  induction ops with
  | nil => intro s h _; exact ⟨h, by simp [trace]⟩
  | cons o r ih =>
    intro s h ho
    simp only [List.all_cons, Bool.and_eq_true] at ho
    have h1 := hstep s o h ho.1
    simp only [run, trace]
    cases hs : step s o with
    | mk s1 oc =>
      rw [hs] at h1
      have := ih s1 h1 ho.2
      cases oc with
      | hang => exact ⟨h1, by simpa using h1⟩
      | ok =>
        refine ⟨this.1, ?_⟩
        intro p hp
        rcases List.mem_cons.1 hp with hp | hp
        · rw [hp]; exact h1
        · exact this.2 p hp
      | throw =>
        refine ⟨this.1, ?_⟩
        intro p hp
        rcases List.mem_cons.1 hp with hp | hp
        · rw [hp]; exact h1
        · exact this.2 p hp

theorem run_total : ∀ (ops : List Op) (s : Store), WeakInv s → ParentsClosed s → ops.all (Op.inRange s.n) = true →
    (run s ops).2 ≠ .hang := by
  intro ops
  induction ops with
  | nil => intro s _ _ _; simp [run]
  | cons o r ih =>
    intro s w hcl ho
    simp only [List.all_cons, Bool.and_eq_true] at ho
    have ht := step_total s o w hcl ho.1
    have hw := step_weak s o w
    simp only [run]
    cases hs : step s o with
    | mk s1 oc =>
      rw [hs] at ht hw
      cases oc with
      | hang => exact absurd rfl ht.1
      | ok => exact ih s1 hw ht.2.1 (by rw [ht.2.2]; exact ho.2)
      | throw => exact ih s1 hw ht.2.1 (by rw [ht.2.2]; exact ho.2)

end Cppcheck.AstStore

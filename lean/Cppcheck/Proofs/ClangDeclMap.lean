import Cppcheck.Model.ClangDeclMap
import Cppcheck.Proofs.AstStore
/-
Helper lemmas for C35: the address-keyed declaration map, the AST discipline of the model import, the invariant checker.
-/
namespace Cppcheck.ClangDeclMap
open Cppcheck.ClangLine

/-! ### association lists -/

theorem lookup_append (m : List (Addr × α)) (a k : Addr) (v : α) :
    lookup (m ++ [(k, v)]) a = (lookup m a).or (if k = a then some v else none) := by
  induction m with
  | nil => simp [lookup]
  | cons kv r ih =>
    obtain ⟨k', v'⟩ := kv
    simp only [List.cons_append, lookup]
    split
    · rfl
    · exact ih

theorem lookup_eraseKey (m : List (Addr × α)) (a k : Addr) :
    lookup (eraseKey m k) a = if a = k then none else lookup m a := by
  induction m with
  | nil => simp [lookup, eraseKey]
  | cons kv r ih =>
    obtain ⟨k', v'⟩ := kv
    simp only [eraseKey, List.filter] at ih ⊢
    by_cases hk : k' = k
    · subst hk
      simp only [ne_eq, not_true_eq_false, decide_false]
      rw [ih]
      by_cases ha : a = k'
      · simp [ha]
      · have : ¬ k' = a := fun h => ha h.symm
        simp [ha, lookup, this]
    · simp only [ne_eq, hk, not_false_eq_true, decide_true, lookup]
      rw [ih]
      by_cases ha : a = k
      · subst ha; simp [hk]
      · simp [ha]

theorem emplace_of_none (m : List (Addr × Decl)) (a : Addr) (d : Decl) (h : lookup m a = none) : emplace m a d = m ++ [(a, d)] := by
  simp [emplace, h]

/-! ### events -/

/-- the update `Decl::ref` applies to the token it is given -/
def Decl.mark (dt : Data) (d : Decl) : Attr → Attr :=
  match d.kind with
  | .enumr => fun a => a.setEnumerator d.obj
  | .func => fun a => a.setFunction d.obj
  | .var => fun a => (a.setVariable d.obj).setVarId (dt.attrs (dt.varDef d.obj)).varId
  | .scope => fun a => a

theorem updAttr_id (f : Nat → Attr) (t : Nat) : updAttr f t (fun a => a) = f := by
  funext u; simp [updAttr]

theorem Decl.ref_eq (dt : Data) (d : Decl) (t : Nat) : d.ref dt t = { dt with attrs := updAttr dt.attrs t (d.mark dt) } := by
  unfold Decl.ref Decl.mark
  cases d.kind <;> simp [updAttr_id]


/-- the only thing `mark` reads from the state: the varId of the name token of the variable -/
def Decl.rid (dt : Data) (d : Decl) : Nat := (dt.attrs (dt.varDef d.obj)).varId

theorem Decl.mark_congr (dt dt' : Data) (d : Decl) (h : d.kind = .var → d.rid dt = d.rid dt') : d.mark dt = d.mark dt' := by
  unfold Decl.mark
  cases hk : d.kind <;> simp only
  have := h hk
  unfold Decl.rid at this
  rw [this]

/-! ### one call -/

theorem ref_found (dt : Data) (a : Addr) (t : Nat) (d : Decl) (h : lookup dt.declMap a = some d) :
    dt.ref a t = { dt with attrs := updAttr dt.attrs t (d.mark dt) } := by
  simp [Data.ref, h, Decl.ref_eq]

structure RefPending (dt dt' : Data) (a : Addr) (t : Nat) : Prop where
  declMap : dt'.declMap = dt.declMap
  attrs : dt'.attrs = dt.attrs
  varId : dt'.varId = dt.varId
  varDef : dt'.varDef = dt.varDef
  pend : ∀ b, lookup dt'.notFound b = if b = a then some ((lookup dt.notFound a).getD [] ++ [t]) else lookup dt.notFound b

theorem ref_pending (dt : Data) (a : Addr) (t : Nat) (h : lookup dt.declMap a = none) : RefPending dt (dt.ref a t) a t := by
  unfold Data.ref
  rw [h]
  cases hl : lookup dt.notFound a with
  | none =>
    refine ⟨rfl, rfl, rfl, rfl, ?_⟩
    intro b
    simp only [lookup_append, Option.getD_none, List.nil_append]
    by_cases hb : b = a
    · subst hb; simp [hl]
    · have : ¬ a = b := fun h => hb h.symm
      simp only [hb, if_false, this]
      cases lookup dt.notFound b <;> rfl
  | some l =>
    refine ⟨rfl, rfl, rfl, rfl, ?_⟩
    intro b
    simp only [lookup_append, lookup_eraseKey, Option.getD_some]
    by_cases hb : b = a
    · subst hb; simp [hl]
    · have : ¬ a = b := fun h => hb h.symm
      simp only [hb, if_false, this]
      cases lookup dt.notFound b <;> rfl

/-- resolving the pending tokens of `a` once `a` is in the map -/
theorem fold_ref (a : Addr) (d : Decl) : ∀ (l : List Nat) (dt : Data), lookup dt.declMap a = some d →
    (d.kind = .var → dt.varDef d.obj ∉ l) → l.Nodup →
    let r := l.foldl (fun x t => x.ref a t) dt
    r.declMap = dt.declMap ∧ r.notFound = dt.notFound ∧ r.varId = dt.varId ∧ r.varDef = dt.varDef ∧
      ∀ u, r.attrs u = if u ∈ l then (d.mark dt) (dt.attrs u) else dt.attrs u
  | [], dt, _, _, _ => by simp
  | t :: l, dt, h, hn, hnd => by
    simp only [List.foldl_cons]
    rw [ref_found dt a t d h]
    have hn' : d.kind = .var → dt.varDef d.obj ∉ l := fun hk hm => hn hk (by simp [hm])
    have hne : d.kind = .var → dt.varDef d.obj ≠ t := fun hk he => hn hk (by simp [he])
    have htl : t ∉ l := (List.nodup_cons.1 hnd).1
    have ih := fold_ref a d l { dt with attrs := updAttr dt.attrs t (d.mark dt) } h hn' (List.nodup_cons.1 hnd).2
    obtain ⟨h1, h2, h3, h4, h5⟩ := ih
    refine ⟨h1, h2, h3, h4, ?_⟩
    intro u
    rw [h5 u]
    have hm : d.mark { dt with attrs := updAttr dt.attrs t (d.mark dt) } = d.mark dt := by
      apply Decl.mark_congr
      intro hk
      simp [Decl.rid, updAttr, hne hk]
    rw [hm]
    by_cases hu : u ∈ l
    · simp only [hu, if_true, List.mem_cons, or_true]
      by_cases hut : u = t
      · subst hut; exact absurd hu htl
      · simp [updAttr, hut]
    · by_cases hut : u = t
      · subst hut; simp [updAttr, hu]
      · simp [updAttr, hut, hu]


/-! ### bookkeeping over event lists -/

theorem declPairs_append (a b : List Ev) : declPairs (a ++ b) = declPairs a ++ declPairs b := by simp [declPairs]
theorem evToks_append (a b : List Ev) : evToks (a ++ b) = evToks a ++ evToks b := by simp [evToks]
theorem varObjs_append (a b : List Ev) : varObjs (a ++ b) = varObjs a ++ varObjs b := by simp [varObjs]
theorem refToks_append (a b : List Ev) (x : Addr) : refToks (a ++ b) x = refToks a x ++ refToks b x := by simp [refToks]

theorem mem_refToks {evs : List Ev} {a : Addr} {t : Nat} : t ∈ refToks evs a ↔ Ev.ref a t ∈ evs := by
  simp only [refToks, List.mem_filterMap]
  constructor
  · rintro ⟨e, he, h⟩
    cases e <;> simp at h
    rename_i b u
    obtain ⟨rfl, rfl⟩ := h
    exact he
  · intro h
    exact ⟨_, h, by simp⟩

theorem tok_mem_evToks {evs : List Ev} {e : Ev} {t : Nat} (he : e ∈ evs) (ht : e.tok? = some t) : t ∈ evToks evs := by
  simp only [evToks, List.mem_filterMap]
  exact ⟨e, he, ht⟩

/-- with fresh tokens an event is determined by its token -/
theorem ev_of_tok : ∀ {evs : List Ev}, (evToks evs).Nodup → ∀ {e1 e2 : Ev} {t : Nat}, e1 ∈ evs → e2 ∈ evs →
    e1.tok? = some t → e2.tok? = some t → e1 = e2
  | [], _, _, _, _, h, _, _, _ => by cases h
  | e :: r, hnd, e1, e2, t, h1, h2, t1, t2 => by
    have hnd' : (evToks r).Nodup := by
      simp only [evToks, List.filterMap_cons] at hnd
      cases he : e.tok? <;> simp only [he] at hnd
      · exact hnd
      · exact (List.nodup_cons.1 hnd).2
    rcases List.mem_cons.1 h1 with h1e | h1r
    · rcases List.mem_cons.1 h2 with h2e | h2r
      · rw [h1e, h2e]
      · exfalso
        subst h1e
        simp only [evToks, List.filterMap_cons, t1] at hnd
        exact (List.nodup_cons.1 hnd).1 (tok_mem_evToks h2r t2)
    · rcases List.mem_cons.1 h2 with h2e | h2r
      · exfalso
        subst h2e
        simp only [evToks, List.filterMap_cons, t2] at hnd
        exact (List.nodup_cons.1 hnd).1 (tok_mem_evToks h1r t1)
      · exact ev_of_tok hnd' h1r h2r t1 t2

theorem refToks_sublist (evs : List Ev) (a : Addr) : (refToks evs a).Sublist (evToks evs) := by
  induction evs with
  | nil => simp [refToks, evToks]
  | cons e r ih =>
    simp only [refToks, evToks, List.filterMap_cons] at ih ⊢
    cases e with
    | ref b t =>
      by_cases hb : b = a
      · simp only [hb, if_true, Ev.tok?]; exact ih.cons₂ _
      · simp only [hb, if_false, Ev.tok?]; exact ih.cons _
    | varDecl b t o => simp only [Ev.tok?]; exact ih.cons _
    | funcDecl b t o => simp only [Ev.tok?]; exact ih.cons _
    | enumDecl b t o => simp only [Ev.tok?]; exact ih.cons _
    | scopeDecl b o => simpa [Ev.tok?] using ih
    | replace f t => simpa [Ev.tok?] using ih

theorem lookup_mem {m : List (Addr × α)} {a : Addr} {v : α} (h : lookup m a = some v) : (a, v) ∈ m := by
  induction m with
  | nil => simp [lookup] at h
  | cons kv r ih =>
    obtain ⟨k, w⟩ := kv
    simp only [lookup] at h
    split at h
    · rename_i hk; subst hk; cases h; simp
    · exact List.mem_cons_of_mem _ (ih h)

theorem lookup_none_of_not_mem {m : List (Addr × α)} {a : Addr} (h : a ∉ m.map (·.1)) : lookup m a = none := by
  induction m with
  | nil => rfl
  | cons kv r ih =>
    obtain ⟨k, w⟩ := kv
    simp only [List.map_cons, List.mem_cons, not_or] at h
    have : ¬ k = a := fun hk => h.1 hk.symm
    simp only [lookup, this, if_false]
    exact ih h.2

theorem mem_declPairs {evs : List Ev} {a : Addr} {d : Decl} : (a, d) ∈ declPairs evs ↔ ∃ e ∈ evs, e.pair? = some (a, d) := by
  simp [declPairs, List.mem_filterMap]


/-! ### resolving pending uses -/

structure Resolved (D2 D' : Data) (a : Addr) (dcl : Decl) (l : List Nat) : Prop where
  declMap : D'.declMap = D2.declMap
  varId : D'.varId = D2.varId
  varDef : D'.varDef = D2.varDef
  pend : ∀ b, b ≠ a → lookup D'.notFound b = lookup D2.notFound b
  attrs : ∀ u, D'.attrs u = if u ∈ l then (dcl.mark D2) (D2.attrs u) else D2.attrs u

theorem resolve_spec (D2 : Data) (a : Addr) (dcl : Decl) (l : List Nat) (hm : lookup D2.declMap a = some dcl)
    (hp : lookup D2.notFound a = if l = [] then none else some l) (hd : dcl.kind = .var → D2.varDef dcl.obj ∉ l) (hn : l.Nodup) :
    Resolved D2 (D2.resolve a) a dcl l := by
  unfold Data.resolve
  by_cases hl : l = []
  · subst hl
    simp only [if_true] at hp
    rw [hp]
    exact ⟨rfl, rfl, rfl, fun _ _ => rfl, fun u => by simp⟩
  · simp only [hl, if_false] at hp
    rw [hp]
    obtain ⟨h1, h2, h3, h4, h5⟩ := fold_ref a dcl l D2 hm hd hn
    refine ⟨h1, h3, h4, ?_, h5⟩
    intro b hb
    simp only [lookup_eraseKey, hb, if_false, h2]

/-! ### the invariant of the map along an event sequence -/

structure J (done : List Ev) (D : Data) : Prop where
  map : D.declMap = declPairs done
  pend : ∀ a, lookup (declPairs done) a = none → lookup D.notFound a = if refToks done a = [] then none else some (refToks done a)
  untouched : ∀ u, u ∉ evToks done → D.attrs u = {}
  pendAttr : ∀ a t, t ∈ refToks done a → lookup (declPairs done) a = none → D.attrs t = {}
  link : ∀ a t d, t ∈ refToks done a → lookup (declPairs done) a = some d → D.attrs t = d.mark D {}
  vdef : ∀ a d o, Ev.varDecl a d o ∈ done →
    D.varDef o = d ∧ (D.attrs d).ty = .variable ∧ (D.attrs d).ptr = some o ∧ 1 ≤ (D.attrs d).varId ∧ (D.attrs d).varId ≤ D.varId
  odef : ∀ a d o, (Ev.funcDecl a d o ∈ done → (D.attrs d).func = some o) ∧ (Ev.enumDecl a d o ∈ done → (D.attrs d).enumr = some o)
  inj : ∀ a d o a' d' o', Ev.varDecl a d o ∈ done → Ev.varDecl a' d' o' ∈ done → d ≠ d' → (D.attrs d).varId ≠ (D.attrs d').varId

theorem J_init : J [] {} := by
  refine ⟨rfl, ?_, fun _ _ => rfl, ?_, ?_, ?_, ?_, ?_⟩
  · intro a _; simp [refToks, lookup]
  · intro a t h; simp [refToks] at h
  · intro a t d h; simp [refToks] at h
  · intro a d o h; exact absurd h (List.not_mem_nil)
  · intro a d o; exact ⟨fun h => absurd h (List.not_mem_nil), fun h => absurd h (List.not_mem_nil)⟩
  · intro a d o a' d' o' h; exact absurd h (List.not_mem_nil)

/-- a declaration of `done` is not disturbed by a change of the state that leaves the definition tokens and the objects of `done` alone -/
theorem mark_stable {done : List Ev} {D D' : Data} (hJ : J done D) {b : Addr} {d' : Decl} (hd : lookup (declPairs done) b = some d')
    (hv : ∀ o ∈ varObjs done, D'.varDef o = D.varDef o) (ha : ∀ u ∈ evToks done, (∀ x, u ∉ refToks done x) → D'.attrs u = D.attrs u)
    (hnd : (evToks done).Nodup) : d'.mark D' = d'.mark D := by
  apply Decl.mark_congr
  intro hk
  obtain ⟨e, he, hp⟩ := mem_declPairs.1 (lookup_mem hd)
  cases e with
  | varDecl b' t o =>
    simp only [Ev.pair?, Option.some.injEq, Prod.mk.injEq] at hp
    obtain ⟨rfl, rfl⟩ := hp
    have hvd := (hJ.vdef _ t o he).1
    have ho : o ∈ varObjs done := by
      simp only [varObjs, List.mem_filterMap]; exact ⟨_, he, rfl⟩
    have ht : t ∈ evToks done := tok_mem_evToks he rfl
    have hnr : ∀ x, t ∉ refToks done x := by
      intro x hx
      have := ev_of_tok hnd he (mem_refToks.1 hx) rfl rfl
      cases this
    simp only [Decl.rid, hv o ho, hvd, ha t ht hnr]
  | funcDecl b' t o => simp only [Ev.pair?, Option.some.injEq, Prod.mk.injEq] at hp; obtain ⟨_, rfl⟩ := hp; cases hk
  | enumDecl b' t o => simp only [Ev.pair?, Option.some.injEq, Prod.mk.injEq] at hp; obtain ⟨_, rfl⟩ := hp; cases hk
  | scopeDecl b' o => simp only [Ev.pair?, Option.some.injEq, Prod.mk.injEq] at hp; obtain ⟨_, rfl⟩ := hp; cases hk
  | ref b' t => simp [Ev.pair?] at hp
  | replace f t => simp [Ev.pair?] at hp


structure Hyp (evs : List Ev) : Prop where
  addrs : addrsUnique evs
  toks : toksFresh evs
  objs : objsFresh evs
  norep : evs.all (fun e => !isReplace e) = true

theorem Hyp.prefix' {done rest : List Ev} (h : Hyp (done ++ rest)) : Hyp done := by
  obtain ⟨h1, h2, h3, h4⟩ := h
  refine ⟨?_, ?_, ?_, ?_⟩
  · unfold addrsUnique at h1 ⊢; rw [declPairs_append, List.map_append] at h1; exact (List.nodup_append.1 h1).1
  · unfold toksFresh at h2 ⊢; rw [evToks_append] at h2; exact (List.nodup_append.1 h2).1
  · unfold objsFresh at h3 ⊢; rw [varObjs_append] at h3; exact (List.nodup_append.1 h3).1
  · simp only [List.all_append, Bool.and_eq_true] at h4; exact h4.1

theorem Hyp.prefix {done : List Ev} {e : Ev} (h : Hyp (done ++ [e])) : Hyp done := h.prefix'

theorem Hyp.tok_fresh {done : List Ev} {e : Ev} (h : Hyp (done ++ [e])) {t : Nat} (ht : e.tok? = some t) : t ∉ evToks done := by
  have := h.toks
  unfold toksFresh at this
  rw [evToks_append] at this
  simp only [evToks, List.filterMap_cons, ht, List.filterMap_nil] at this
  intro hm
  exact (List.nodup_append.1 this).2.2 t hm t (by simp) rfl

theorem Hyp.addr_fresh {done : List Ev} {e : Ev} (h : Hyp (done ++ [e])) {a : Addr} {d : Decl} (hp : e.pair? = some (a, d)) :
    lookup (declPairs done) a = none := by
  have := h.addrs
  unfold addrsUnique at this
  rw [declPairs_append, List.map_append] at this
  simp only [declPairs, List.filterMap_cons, hp, List.filterMap_nil, List.map_cons, List.map_nil] at this
  apply lookup_none_of_not_mem
  intro hm
  exact (List.nodup_append.1 this).2.2 a hm a (by simp) rfl

theorem J_step_ref {done : List Ev} {D : Data} (hJ : J done D) {a : Addr} {t : Nat} (h : Hyp (done ++ [Ev.ref a t])) :
    J (done ++ [Ev.ref a t]) (D.ref a t) := by
  have hnd : (evToks done).Nodup := h.prefix.toks
  have htf : t ∉ evToks done := h.tok_fresh rfl
  have hdp : declPairs (done ++ [Ev.ref a t]) = declPairs done := by simp [declPairs_append, declPairs, Ev.pair?]
  have het : evToks (done ++ [Ev.ref a t]) = evToks done ++ [t] := by simp [evToks_append, evToks, Ev.tok?]
  have hrt : ∀ b, refToks (done ++ [Ev.ref a t]) b = refToks done b ++ (if a = b then [t] else []) := by
    intro b
    rw [refToks_append]
    congr 1
    by_cases hab : a = b <;> simp [refToks, hab]
  have hmem : ∀ e, e ∈ done ++ [Ev.ref a t] → e ∈ done ∨ e = Ev.ref a t := by
    intro e he; simpa using he
  have hnot : ∀ b, t ∉ refToks done b := fun b hb => htf ((refToks_sublist done b).subset hb)
  cases hl : lookup (declPairs done) a with
  | some d =>
    have hD : D.ref a t = { D with attrs := updAttr D.attrs t (d.mark D) } := ref_found D a t d (by rw [hJ.map]; exact hl)
    rw [hD]
    have hst : ∀ b d', lookup (declPairs done) b = some d' → d'.mark { D with attrs := updAttr D.attrs t (d.mark D) } = d'.mark D := by
      intro b d' hb
      refine mark_stable hJ hb (fun _ _ => rfl) ?_ hnd
      intro u hu _
      have : u ≠ t := fun hh => htf (hh ▸ hu)
      simp [updAttr, this]
    refine ⟨by simp [hdp, hJ.map], ?_, ?_, ?_, ?_, ?_, ?_, ?_⟩
    · intro b hb
      rw [hdp] at hb
      have hba : ¬ a = b := by intro hh; subst hh; rw [hl] at hb; cases hb
      simp only [hrt b, hba, if_false, List.append_nil]
      exact hJ.pend b hb
    · intro u hu
      rw [het] at hu
      simp only [List.mem_append, List.mem_singleton, not_or] at hu
      simp only [updAttr, hu.2, if_false]
      exact hJ.untouched u hu.1
    · intro b t' ht' hb
      rw [hdp] at hb
      have hba : ¬ a = b := by intro hh; subst hh; rw [hl] at hb; cases hb
      simp only [hrt b, hba, if_false, List.append_nil] at ht'
      have : t' ≠ t := fun hh => hnot b (hh ▸ ht')
      simp only [updAttr, this, if_false]
      exact hJ.pendAttr b t' ht' hb
    · intro b t' d' ht' hb
      rw [hdp] at hb
      rw [hst b d' hb]
      rw [hrt b] at ht'
      rcases List.mem_append.1 ht' with ht' | ht'
      · have : t' ≠ t := fun hh => hnot b (hh ▸ ht')
        simp only [updAttr, this, if_false]
        exact hJ.link b t' d' ht' hb
      · by_cases hab : a = b
        · subst hab
          simp only [if_true, List.mem_singleton] at ht'
          subst ht'
          rw [hl] at hb; cases hb
          simp only [updAttr, if_true]
          rw [hJ.untouched t' htf]
        · simp [hab] at ht'
    · intro b dd o he
      rcases hmem _ he with he | he
      · have hd : dd ≠ t := fun hh => htf (hh ▸ tok_mem_evToks he rfl)
        simp only [updAttr, hd, if_false]
        exact hJ.vdef b dd o he
      · cases he
    · intro b dd o
      refine ⟨fun he => ?_, fun he => ?_⟩
      · rcases hmem _ he with he | he
        · have hd : dd ≠ t := fun hh => htf (hh ▸ tok_mem_evToks he rfl)
          simp only [updAttr, hd, if_false]
          exact (hJ.odef b dd o).1 he
        · cases he
      · rcases hmem _ he with he | he
        · have hd : dd ≠ t := fun hh => htf (hh ▸ tok_mem_evToks he rfl)
          simp only [updAttr, hd, if_false]
          exact (hJ.odef b dd o).2 he
        · cases he
    · intro b dd o b' dd' o' he he' hne
      rcases hmem _ he with he | he
      · rcases hmem _ he' with he' | he'
        · have hd : dd ≠ t := fun hh => htf (hh ▸ tok_mem_evToks he rfl)
          have hd' : dd' ≠ t := fun hh => htf (hh ▸ tok_mem_evToks he' rfl)
          simp only [updAttr, hd, hd', if_false]
          exact hJ.inj b dd o b' dd' o' he he' hne
        · cases he'
      · cases he
  | none =>
    have hR := ref_pending D a t (by rw [hJ.map]; exact hl)
    refine ⟨by rw [hR.declMap, hdp, hJ.map], ?_, ?_, ?_, ?_, ?_, ?_, ?_⟩
    · intro b hb
      rw [hdp] at hb
      rw [hR.pend b, hrt b]
      by_cases hba : b = a
      · subst hba
        simp only [if_true]
        rw [hJ.pend b hb]
        by_cases hr : refToks done b = []
        · simp [hr]
        · simp [hr]
      · have : ¬ a = b := fun hh => hba hh.symm
        simp only [hba, this, if_false, List.append_nil]
        exact hJ.pend b hb
    · intro u hu
      rw [het] at hu
      simp only [List.mem_append, not_or] at hu
      rw [hR.attrs]; exact hJ.untouched u hu.1
    · intro b t' ht' hb
      rw [hdp] at hb
      rw [hR.attrs]
      rw [hrt b] at ht'
      rcases List.mem_append.1 ht' with ht' | ht'
      · exact hJ.pendAttr b t' ht' hb
      · by_cases hab : a = b
        · simp only [hab, if_true, List.mem_singleton] at ht'
          subst ht'; exact hJ.untouched t' htf
        · simp [hab] at ht'
    · intro b t' d' ht' hb
      rw [hdp] at hb
      have hba : ¬ a = b := by intro hh; subst hh; rw [hl] at hb; cases hb
      simp only [hrt b, hba, if_false, List.append_nil] at ht'
      rw [hR.attrs]
      have : d'.mark (D.ref a t) = d'.mark D :=
        mark_stable hJ hb (fun _ _ => by rw [hR.varDef]) (fun u _ _ => by rw [hR.attrs]) hnd
      rw [this]
      exact hJ.link b t' d' ht' hb
    · intro b dd o he
      rcases hmem _ he with he | he
      · rw [hR.attrs, hR.varDef, hR.varId]; exact hJ.vdef b dd o he
      · cases he
    · intro b dd o
      rw [hR.attrs]
      refine ⟨fun he => ?_, fun he => ?_⟩
      · rcases hmem _ he with he | he
        · exact (hJ.odef b dd o).1 he
        · cases he
      · rcases hmem _ he with he | he
        · exact (hJ.odef b dd o).2 he
        · cases he
    · intro b dd o b' dd' o' he he' hne
      rw [hR.attrs]
      rcases hmem _ he with he | he
      · rcases hmem _ he' with he' | he'
        · exact hJ.inj b dd o b' dd' o' he he' hne
        · cases he'
      · cases he


/-- what the three `…Decl` calls have in common before they resolve the pending uses -/
structure Registered (done : List Ev) (D D2 : Data) (a : Addr) (dcl : Decl) (d : Nat) : Prop where
  declMap : D2.declMap = emplace D.declMap a dcl
  notFound : D2.notFound = D.notFound
  attrs : ∀ u, u ≠ d → D2.attrs u = D.attrs u
  varId : D.varId ≤ D2.varId
  varDef : ∀ o' ∈ varObjs done, D2.varDef o' = D.varDef o'
  ownDef : dcl.kind = .var → D2.varDef dcl.obj = d

theorem J_step_decl {done : List Ev} {D D2 : Data} (hJ : J done D) {e : Ev} (h : Hyp (done ++ [e])) {a : Addr} {dcl : Decl} {d : Nat}
    (hp : e.pair? = some (a, dcl)) (ht : e.tok? = some d) (hR : Registered done D D2 a dcl d)
    (qv : ∀ a' o, e = Ev.varDecl a' d o → (D2.attrs d).ty = .variable ∧ (D2.attrs d).ptr = some o ∧ D.varId < (D2.attrs d).varId ∧
      (D2.attrs d).varId ≤ D2.varId)
    (qf : ∀ a' o, e = Ev.funcDecl a' d o → (D2.attrs d).func = some o)
    (qe : ∀ a' o, e = Ev.enumDecl a' d o → (D2.attrs d).enumr = some o) :
    J (done ++ [e]) (D2.resolve a) := by
  have hnd : (evToks done).Nodup := h.prefix.toks
  have hdf : d ∉ evToks done := h.tok_fresh ht
  have haf : lookup (declPairs done) a = none := h.addr_fresh hp
  have hdp : declPairs (done ++ [e]) = declPairs done ++ [(a, dcl)] := by simp [declPairs_append, declPairs, hp]
  have het : evToks (done ++ [e]) = evToks done ++ [d] := by simp [evToks_append, evToks, ht]
  have hrt : ∀ b, refToks (done ++ [e]) b = refToks done b := by
    intro b
    rw [refToks_append]
    have : refToks [e] b = [] := by
      cases e <;> simp [Ev.pair?] at hp <;> simp [refToks]
    rw [this, List.append_nil]
  have hmem : ∀ e', e' ∈ done ++ [e] → e' ∈ done ∨ e' = e := by
    intro e' he; simpa using he
  let l := refToks done a
  have hl_sub : ∀ u ∈ l, u ∈ evToks done := fun u hu => (refToks_sublist done a).subset hu
  have hl_nd : l.Nodup := (refToks_sublist done a).nodup hnd
  have hdl : d ∉ l := fun hm => hdf (hl_sub d hm)
  have hmap2 : lookup D2.declMap a = some dcl := by
    rw [hR.declMap, emplace_of_none _ _ _ (by rw [hJ.map]; exact haf), lookup_append, hJ.map, haf]; simp
  have hpend2 : lookup D2.notFound a = if l = [] then none else some l := by rw [hR.notFound]; exact hJ.pend a haf
  have hRes := resolve_spec D2 a dcl l hmap2 hpend2 (fun hk => by rw [hR.ownDef hk]; exact hdl) hl_nd
  -- tokens of other events are neither `d` nor pending for `a`
  have hother : ∀ u ∈ evToks done, (∀ x, x ≠ a → True) → u ≠ d := fun u hu _ hh => hdf (hh ▸ hu)
  have hcross : ∀ b t', t' ∈ refToks done b → b ≠ a → t' ∉ l := by
    intro b t' hb hba hm
    have := ev_of_tok hnd (mem_refToks.1 hb) (mem_refToks.1 hm) rfl rfl
    cases this; exact hba rfl
  have hattr_old : ∀ u, u ≠ d → u ∉ l → (D2.resolve a).attrs u = D.attrs u := by
    intro u h1 h2; rw [hRes.attrs u]; simp only [h2, if_false]; exact hR.attrs u h1
  have hdecltok : ∀ e' ∈ done, ∀ u, e'.tok? = some u → e'.pair?.isSome → u ≠ d ∧ u ∉ l := by
    intro e' he' u hu hpr
    refine ⟨fun hh => hdf (hh ▸ tok_mem_evToks he' hu), fun hm => ?_⟩
    have := ev_of_tok hnd he' (mem_refToks.1 hm) hu rfl
    subst this; simp [Ev.pair?] at hpr
  have hstable : ∀ b d', lookup (declPairs done) b = some d' → d'.mark (D2.resolve a) = d'.mark D := by
    intro b d' hb
    refine mark_stable hJ hb (fun o' ho' => by rw [hRes.varDef]; exact hR.varDef o' ho') ?_ hnd
    intro u hu hnr
    exact hattr_old u (fun hh => hdf (hh ▸ hu)) (hnr a)
  have hlk : ∀ b, lookup (declPairs (done ++ [e])) b = (lookup (declPairs done) b).or (if a = b then some dcl else none) := by
    intro b; rw [hdp]; exact lookup_append _ _ _ _
  refine ⟨?_, ?_, ?_, ?_, ?_, ?_, ?_, ?_⟩
  · rw [hRes.declMap, hR.declMap, emplace_of_none _ _ _ (by rw [hJ.map]; exact haf), hJ.map, hdp]
  · intro b hb
    rw [hlk b] at hb
    cases hob : lookup (declPairs done) b with
    | some x => rw [hob] at hb; simp only [Option.some_or] at hb; cases hb
    | none =>
      rw [hob] at hb; simp only [Option.none_or] at hb
      have hba : b ≠ a := by intro hh; subst hh; simp at hb
      rw [hRes.pend b hba, hR.notFound, hrt b]
      exact hJ.pend b hob
  · intro u hu
    rw [het] at hu
    simp only [List.mem_append, List.mem_singleton, not_or] at hu
    rw [hattr_old u hu.2 (fun hm => hu.1 (hl_sub u hm))]
    exact hJ.untouched u hu.1
  · intro b t' ht' hb
    rw [hrt b] at ht'
    rw [hlk b] at hb
    cases hob : lookup (declPairs done) b with
    | some x => rw [hob] at hb; simp only [Option.some_or] at hb; cases hb
    | none =>
      rw [hob] at hb; simp only [Option.none_or] at hb
      have hba : b ≠ a := by intro hh; subst hh; simp at hb
      rw [hattr_old t' (fun hh => hdf (hh ▸ (refToks_sublist done b).subset ht')) (hcross b t' ht' hba)]
      exact hJ.pendAttr b t' ht' hob
  · intro b t' d' ht' hb
    rw [hrt b] at ht'
    rw [hlk b] at hb
    cases hob : lookup (declPairs done) b with
    | some x =>
      rw [hob] at hb; simp only [Option.some_or] at hb; cases hb
      have hba : b ≠ a := by intro hh; subst hh; rw [haf] at hob; cases hob
      rw [hstable b d' hob, hattr_old t' (fun hh => hdf (hh ▸ (refToks_sublist done b).subset ht')) (hcross b t' ht' hba)]
      exact hJ.link b t' d' ht' hob
    | none =>
      rw [hob] at hb; simp only [Option.none_or] at hb
      by_cases hab : a = b
      · subst hab
        simp only [if_true, Option.some.injEq] at hb
        subst hb
        have htl : t' ∈ l := ht'
        have htd : t' ≠ d := fun hh => hdl (hh ▸ htl)
        rw [hRes.attrs t']
        simp only [htl, if_true]
        rw [hR.attrs t' htd, hJ.pendAttr a t' ht' haf]
        have hm : dcl.mark (D2.resolve a) = dcl.mark D2 :=
          Decl.mark_congr _ _ _ (fun hk => by simp only [Decl.rid, hRes.varDef, hR.ownDef hk, hRes.attrs d, hdl, if_false])
        rw [hm]
      · simp [hab] at hb
  · intro b dd o he
    rcases hmem _ he with he | he
    · obtain ⟨h1, h2⟩ := hdecltok _ he dd rfl (by simp [Ev.pair?])
      have ho : o ∈ varObjs done := by simp only [varObjs, List.mem_filterMap]; exact ⟨_, he, rfl⟩
      rw [hattr_old dd h1 h2, hRes.varDef, hR.varDef o ho, hRes.varId]
      obtain ⟨v1, v2, v3, v4, v5⟩ := hJ.vdef b dd o he
      exact ⟨v1, v2, v3, v4, Nat.le_trans v5 hR.varId⟩
    · subst he
      simp only [Ev.tok?, Option.some.injEq] at ht
      subst ht
      simp only [Ev.pair?, Option.some.injEq, Prod.mk.injEq] at hp
      obtain ⟨rfl, rfl⟩ := hp
      obtain ⟨q1, q2, q3, q4⟩ := qv b o rfl
      have : (D2.resolve b).attrs dd = D2.attrs dd := by rw [hRes.attrs dd]; simp [hdl]
      rw [this, hRes.varDef, hRes.varId]
      exact ⟨hR.ownDef rfl, q1, q2, by omega, q4⟩
  · intro b dd o
    refine ⟨fun he => ?_, fun he => ?_⟩
    · rcases hmem _ he with he | he
      · obtain ⟨h1, h2⟩ := hdecltok _ he dd rfl (by simp [Ev.pair?])
        rw [hattr_old dd h1 h2]; exact (hJ.odef b dd o).1 he
      · subst he
        simp only [Ev.tok?, Option.some.injEq] at ht
        subst ht
        have : (D2.resolve a).attrs dd = D2.attrs dd := by rw [hRes.attrs dd]; simp [hdl]
        rw [this]; exact qf b o rfl
    · rcases hmem _ he with he | he
      · obtain ⟨h1, h2⟩ := hdecltok _ he dd rfl (by simp [Ev.pair?])
        rw [hattr_old dd h1 h2]; exact (hJ.odef b dd o).2 he
      · subst he
        simp only [Ev.tok?, Option.some.injEq] at ht
        subst ht
        have : (D2.resolve a).attrs dd = D2.attrs dd := by rw [hRes.attrs dd]; simp [hdl]
        rw [this]; exact qe b o rfl
  · intro b dd o b' dd' o' he he' hne
    have hown : (D2.resolve a).attrs d = D2.attrs d := by rw [hRes.attrs d]; simp [hdl]
    rcases hmem _ he with he1 | he1
    · rcases hmem _ he' with he2 | he2
      · obtain ⟨h1, h2⟩ := hdecltok _ he1 dd rfl (by simp [Ev.pair?])
        obtain ⟨h1', h2'⟩ := hdecltok _ he2 dd' rfl (by simp [Ev.pair?])
        rw [hattr_old dd h1 h2, hattr_old dd' h1' h2']
        exact hJ.inj b dd o b' dd' o' he1 he2 hne
      · obtain ⟨h1, h2⟩ := hdecltok _ he1 dd rfl (by simp [Ev.pair?])
        subst he2
        simp only [Ev.tok?, Option.some.injEq] at ht
        subst ht
        rw [hattr_old dd h1 h2, hown]
        have := (hJ.vdef b dd o he1).2.2.2.2
        have := (qv b' o' rfl).2.2.1
        omega
    · rcases hmem _ he' with he2 | he2
      · obtain ⟨h1', h2'⟩ := hdecltok _ he2 dd' rfl (by simp [Ev.pair?])
        subst he1
        simp only [Ev.tok?, Option.some.injEq] at ht
        subst ht
        rw [hattr_old dd' h1' h2', hown]
        have := (hJ.vdef b' dd' o' he2).2.2.2.2
        have := (qv b o rfl).2.2.1
        omega
      · subst he1
        cases he2
        exact absurd rfl hne


theorem Hyp.obj_fresh {done : List Ev} {a : Addr} {d o : Nat} (h : Hyp (done ++ [Ev.varDecl a d o])) : o ∉ varObjs done := by
  have := h.objs
  unfold objsFresh at this
  rw [varObjs_append] at this
  simp only [varObjs, List.filterMap_cons, List.filterMap_nil] at this
  intro hm
  exact (List.nodup_append.1 this).2.2 o hm o (by simp) rfl

theorem J_step_varDecl {done : List Ev} {D : Data} (hJ : J done D) {a : Addr} {d o : Nat} (h : Hyp (done ++ [Ev.varDecl a d o])) :
    J (done ++ [Ev.varDecl a d o]) (D.varDecl a d o) := by
  have hdf : d ∉ evToks done := h.tok_fresh rfl
  have hof := h.obj_fresh
  have hd0 : D.attrs d = {} := hJ.untouched d hdf
  unfold Data.varDecl
  refine J_step_decl hJ h (dcl := ⟨.var, d, o⟩) (d := d) rfl rfl ⟨rfl, rfl, ?_, ?_, ?_, ?_⟩ ?_ ?_ ?_
  · intro u hu; simp [updAttr, hu]
  · simp
  · intro o' ho'
    have : o' ≠ o := fun hh => hof (hh ▸ ho')
    simp [this]
  · intro _; simp
  · intro a' o' he
    cases he
    simp only [updAttr, if_true, hd0]
    simp [Attr.setVarId, Attr.setVariable]
  · intro a' o' he; cases he
  · intro a' o' he; cases he

theorem J_step_funcDecl {done : List Ev} {D : Data} (hJ : J done D) {a : Addr} {d o : Nat} (h : Hyp (done ++ [Ev.funcDecl a d o])) :
    J (done ++ [Ev.funcDecl a d o]) (D.funcDecl a d o) := by
  unfold Data.funcDecl
  refine J_step_decl hJ h (dcl := ⟨.func, d, o⟩) (d := d) rfl rfl ⟨rfl, rfl, ?_, Nat.le_refl _, fun _ _ => rfl, ?_⟩ ?_ ?_ ?_
  · intro u hu; simp [updAttr, hu]
  · intro hk; cases hk
  · intro a' o' he; cases he
  · intro a' o' he
    cases he
    simp [updAttr, Attr.setFunction, Attr.func]
  · intro a' o' he; cases he

theorem J_step_enumDecl {done : List Ev} {D : Data} (hJ : J done D) {a : Addr} {d o : Nat} (h : Hyp (done ++ [Ev.enumDecl a d o])) :
    J (done ++ [Ev.enumDecl a d o]) (D.enumDecl a d o) := by
  unfold Data.enumDecl
  refine J_step_decl hJ h (dcl := ⟨.enumr, d, o⟩) (d := d) rfl rfl ⟨rfl, rfl, ?_, Nat.le_refl _, fun _ _ => rfl, ?_⟩ ?_ ?_ ?_
  · intro u hu; simp [updAttr, hu]
  · intro hk; cases hk
  · intro a' o' he; cases he
  · intro a' o' he; cases he
  · intro a' o' he
    cases he
    simp [updAttr, Attr.setEnumerator, Attr.enumr]

theorem J_step_scopeDecl {done : List Ev} {D : Data} (hJ : J done D) {a : Addr} {o : Nat} (h : Hyp (done ++ [Ev.scopeDecl a o])) :
    J (done ++ [Ev.scopeDecl a o]) (D.scopeDecl a o) := by
  have hnd : (evToks done).Nodup := h.prefix.toks
  have haf : lookup (declPairs done) a = none := h.addr_fresh (d := ⟨.scope, 0, o⟩) rfl
  have hdp : declPairs (done ++ [Ev.scopeDecl a o]) = declPairs done ++ [(a, ⟨.scope, 0, o⟩)] := by simp [declPairs_append, declPairs, Ev.pair?]
  have het : evToks (done ++ [Ev.scopeDecl a o]) = evToks done := by simp [evToks_append, evToks, Ev.tok?]
  have hrt : ∀ b, refToks (done ++ [Ev.scopeDecl a o]) b = refToks done b := by intro b; simp [refToks_append, refToks]
  have hmem : ∀ e', e' ∈ done ++ [Ev.scopeDecl a o] → e' ∈ done ∨ e' = Ev.scopeDecl a o := by intro e' he; simpa using he
  have hlk : ∀ b, lookup (declPairs (done ++ [Ev.scopeDecl a o])) b = (lookup (declPairs done) b).or (if a = b then some ⟨.scope, 0, o⟩ else none) := by
    intro b; rw [hdp]; exact lookup_append _ _ _ _
  have hst : ∀ b d', lookup (declPairs done) b = some d' → d'.mark (D.scopeDecl a o) = d'.mark D :=
    fun b d' hb => mark_stable hJ hb (fun _ _ => rfl) (fun _ _ _ => rfl) hnd
  unfold Data.scopeDecl at hst ⊢
  refine ⟨?_, ?_, ?_, ?_, ?_, ?_, ?_, ?_⟩
  · show emplace D.declMap a _ = _
    rw [hJ.map, emplace_of_none _ _ _ haf, hdp]
  · intro b hb
    rw [hlk b] at hb
    cases hob : lookup (declPairs done) b with
    | some x => rw [hob] at hb; simp only [Option.some_or] at hb; cases hb
    | none => rw [hrt b]; exact hJ.pend b hob
  · intro u hu; rw [het] at hu; exact hJ.untouched u hu
  · intro b t' ht' hb
    rw [hrt b] at ht'
    rw [hlk b] at hb
    cases hob : lookup (declPairs done) b with
    | some x => rw [hob] at hb; simp only [Option.some_or] at hb; cases hb
    | none => exact hJ.pendAttr b t' ht' hob
  · intro b t' d' ht' hb
    rw [hrt b] at ht'
    rw [hlk b] at hb
    cases hob : lookup (declPairs done) b with
    | some x =>
      rw [hob] at hb; simp only [Option.some_or] at hb; cases hb
      rw [hst b d' hob]; exact hJ.link b t' d' ht' hob
    | none =>
      rw [hob] at hb; simp only [Option.none_or] at hb
      by_cases hab : a = b
      · subst hab
        simp only [if_true, Option.some.injEq] at hb
        subst hb
        simp only [Decl.mark]
        exact hJ.pendAttr a t' ht' haf
      · simp [hab] at hb
  · intro b dd o' he
    rcases hmem _ he with he | he
    · exact hJ.vdef b dd o' he
    · cases he
  · intro b dd o'
    refine ⟨fun he => ?_, fun he => ?_⟩
    · rcases hmem _ he with he | he
      · exact (hJ.odef b dd o').1 he
      · cases he
    · rcases hmem _ he with he | he
      · exact (hJ.odef b dd o').2 he
      · cases he
  · intro b dd o1 b' dd' o2 he he' hne
    rcases hmem _ he with he | he
    · rcases hmem _ he' with he' | he'
      · exact hJ.inj b dd o1 b' dd' o2 he he' hne
      · cases he'
    · cases he

theorem runEvents_snoc (dt : Data) (done : List Ev) (e : Ev) : runEvents dt (done ++ [e]) = (runEvents dt done).step e := by
  simp [runEvents, List.foldl_append]

theorem J_step {done : List Ev} {D : Data} (hJ : J done D) (e : Ev) (h : Hyp (done ++ [e])) : J (done ++ [e]) (D.step e) := by
  cases e with
  | varDecl a d o => exact J_step_varDecl hJ h
  | funcDecl a d o => exact J_step_funcDecl hJ h
  | enumDecl a d o => exact J_step_enumDecl hJ h
  | scopeDecl a o => exact J_step_scopeDecl hJ h
  | ref a t => exact J_step_ref hJ h
  | replace f t =>
    have := h.norep
    simp [isReplace] at this

theorem J_extend : ∀ (rest done : List Ev), Hyp (done ++ rest) → J done (runEvents {} done) → J (done ++ rest) (runEvents {} (done ++ rest))
  | [], done, _, hJ => by simpa using hJ
  | e :: r, done, h, hJ => by
    have e1 : done ++ e :: r = (done ++ [e]) ++ r := by simp
    rw [e1] at h ⊢
    have hJ' := J_step hJ e h.prefix'
    rw [← runEvents_snoc] at hJ'
    exact J_extend r (done ++ [e]) h hJ'

/-- the invariant holds after every event sequence that satisfies the hypotheses -/
theorem J_run (evs : List Ev) (h : Hyp evs) : J evs (runEvents {} evs) := by
  have := J_extend evs [] (by simpa using h) J_init
  simpa using this


/-! ### the consequences stated for uses -/

/-- the declaration clang's address `a` stands for in the event sequence -/
def declAt (evs : List Ev) (a : Addr) : Option Decl := lookup (declPairs evs) a

theorem declAt_var {evs : List Ev} {a : Addr} {d o : Nat} (h : declAt evs a = some ⟨.var, d, o⟩) : Ev.varDecl a d o ∈ evs := by
  obtain ⟨e, he, hp⟩ := mem_declPairs.1 (lookup_mem h)
  cases e <;> simp [Ev.pair?] at hp
  obtain ⟨rfl, rfl, rfl⟩ := hp
  exact he

/-! ### the invariant checker -/

open AstStore in
/-- `k`-fold parent -/
def iter (par : Nat → Option Nat) : Nat → Nat → Option Nat
  | 0, i => some i
  | k + 1, i => (par i).bind (iter par k)

theorem iter_add (par : Nat → Option Nat) : ∀ (j k i : Nat), iter par (j + k) i = (iter par j i).bind (iter par k)
  | 0, k, i => by simp [iter]
  | j + 1, k, i => by
    rw [Nat.add_right_comm]
    simp only [iter]
    cases par i with
    | none => rfl
    | some p => simpa using iter_add par j k p

theorem anc_iter {s : AstStore.Store} {a b : Nat} (h : AstStore.Anc s a b) : ∃ k, iter s.parent (k + 1) b = some a := by
  induction h with
  | base h1 => exact ⟨0, by simp [iter, h1]⟩
  | step h1 _ ih =>
    obtain ⟨k, hk⟩ := ih
    exact ⟨k + 1, by simp only [iter] at hk ⊢; rw [h1]; simpa using hk⟩

theorem iter_cycle (par : Nat → Option Nat) (i k : Nat) (h : iter par k i = some i) : ∀ m, iter par (m * k) i = some i
  | 0 => by simp [iter]
  | m + 1 => by
    rw [Nat.succ_mul, iter_add, iter_cycle par i k h m]
    simpa using h

theorem climbOut_iter (par : Nat → Option Nat) : ∀ (f i : Nat), climbOut par f i = true → ∃ j, j < f ∧ iter par (j + 1) i = none
  | 0, _, h => by simp [climbOut] at h
  | f + 1, i, h => by
    simp only [climbOut] at h
    cases hp : par i with
    | none => exact ⟨0, by omega, by simp [iter, hp]⟩
    | some p =>
      rw [hp] at h
      obtain ⟨j, hj, hi⟩ := climbOut_iter par f p h
      exact ⟨j + 1, by omega, by simp only [iter] at hi ⊢; rw [hp]; simpa using hi⟩

theorem iter_none_mono (par : Nat → Option Nat) (i j : Nat) (h : iter par j i = none) : ∀ k, iter par (j + k) i = none := by
  intro k; rw [iter_add, h]; rfl

theorem acyclic_of_climbOut (s : AstStore.Store) (i f : Nat) (h : climbOut s.parent f i = true) : ¬ AstStore.Anc s i i := by
  intro ha
  obtain ⟨k, hk⟩ := anc_iter ha
  obtain ⟨j, _, hj⟩ := climbOut_iter s.parent f i h
  have h1 := iter_cycle s.parent i (k + 1) hk (j + 1)
  have h2 := iter_none_mono s.parent i (j + 1) hj ((j + 1) * (k + 1) - (j + 1))
  have : j + 1 + ((j + 1) * (k + 1) - (j + 1)) = (j + 1) * (k + 1) := by
    have : j + 1 ≤ (j + 1) * (k + 1) := Nat.le_mul_of_pos_right _ (by omega)
    omega
  rw [this] at h2
  rw [h1] at h2
  cases h2

theorem getO_lt {l : List (Option Nat)} {i v : Nat} (h : getO l i = some v) : i < l.length := by
  unfold getO at h
  cases hi : l[i]? with
  | none => simp [hi] at h
  | some x => exact (List.getElem?_eq_some_iff.1 hi).1

/-- the checker is sound: it accepts only stores that satisfy C14's invariant -/
theorem checkInv_sound (parent op1 op2 : List (Option Nat)) (h : checkInv parent op1 op2 = true) :
    AstStore.Inv (storeOf parent op1 op2) := by
  unfold checkInv at h
  simp only [List.all_eq_true, List.mem_range] at h
  have hpar : ∀ i v, (storeOf parent op1 op2).parent i = some v → i < (storeOf parent op1 op2).n := by
    intro i v hv; have := getO_lt (l := parent) hv; simp only [storeOf]; omega
  have ho1 : ∀ i v, (storeOf parent op1 op2).op1 i = some v → i < (storeOf parent op1 op2).n := by
    intro i v hv; have := getO_lt (l := op1) hv; simp only [storeOf]; omega
  have ho2 : ∀ i v, (storeOf parent op1 op2).op2 i = some v → i < (storeOf parent op1 op2).n := by
    intro i v hv; have := getO_lt (l := op2) hv; simp only [storeOf]; omega
  generalize storeOf parent op1 op2 = s at *
  have hnode : ∀ i, i < s.n → checkNode s i = true := fun i hi => h i hi
  refine ⟨⟨?_, ?_, ?_⟩, ?_⟩
  · intro i ha
    obtain ⟨p, hp, _⟩ := ha.inv
    have := hnode i (hpar i p hp)
    simp only [checkNode, Bool.and_eq_true] at this
    exact acyclic_of_climbOut s i _ this.1.1.1.1 ha
  · intro p c hc
    rcases hc with hc | hc
    · have := hnode p (ho1 p c hc)
      simp only [checkNode, Bool.and_eq_true, hc] at this
      simpa using this.1.1.1.2
    · have := hnode p (ho2 p c hc)
      simp only [checkNode, Bool.and_eq_true, hc] at this
      simpa using this.1.1.2
  · intro p c h1 h2
    have := hnode p (ho1 p c h1)
    simp only [checkNode, Bool.and_eq_true, h1, h2] at this
    simpa using this.1.2
  · intro c p hp
    have := hnode c (hpar c p hp)
    simp only [checkNode, Bool.and_eq_true, hp] at this
    simpa using this.2

/-! ### the model import touches the AST through the operand setters only -/

theorem toOp_viaOperands (o : SetOp) : o.toOp.viaOperands = true := by
  unfold SetOp.toOp; cases o.side <;> rfl

theorem runOps_eq_run : ∀ (ops : List AstStore.Op) (s s' : AstStore.Store), runOps s ops = .ok s' → s' = (AstStore.run s ops).1
  | [], s, s', h => by simp [runOps] at h; simp [AstStore.run, h]
  | o :: r, s, s', h => by
    simp only [runOps] at h
    simp only [AstStore.run]
    cases hs : AstStore.step s o with
    | mk s1 oc =>
      rw [hs] at h
      cases oc with
      | ok => simp only at h ⊢; exact runOps_eq_run r s1 s' h
      | throw => simp at h
      | hang => simp at h


/-- what `importDump` returns on success: the store is the result of running setter calls that all go through `astOperand1/2` -/
theorem importDump_ok {file0 text : Str} {im : Imported} (h : importDump file0 text = .ok im) :
    ∃ (ops : List SetOp), im.ops = ops.map SetOp.toOp ∧ runOps (AstStore.init im.toks.size) (ops.map SetOp.toOp) = .ok im.store := by
  unfold importDump at h
  split at h
  · cases h
  · rename_i st _
    split at h
    · cases h
    · split at h
      · cases h
      · rename_i store hrun
        cases h
        exact ⟨st.ops.toList, rfl, hrun⟩

theorem import_ops_viaOperands {file0 text : Str} {im : Imported} (h : importDump file0 text = .ok im) :
    im.ops.all AstStore.Op.viaOperands = true := by
  obtain ⟨ops, ho, _⟩ := importDump_ok h
  rw [ho]
  simp [List.all_map, toOp_viaOperands]

theorem import_store_inv {file0 text : Str} {im : Imported} (h : importDump file0 text = .ok im) :
    AstStore.Inv im.store := by
  obtain ⟨ops, _, hr⟩ := importDump_ok h
  rw [runOps_eq_run _ _ _ hr]
  exact (AstStore.run_all AstStore.Inv AstStore.Op.viaOperands (fun s o hs ho => AstStore.step_inv s o hs ho) (ops.map SetOp.toOp)
    (AstStore.init im.toks.size) (AstStore.init_inv _) (by simp [List.all_map, toOp_viaOperands])).1

/-! ### the map of the import (`initData`: odd tokens are not spelt like identifiers) against the map the theorems speak about (`{}`) -/

/-- the two attribute records of one token: same varId always, identical when the token is spelt like an identifier -/
structure AttrSim (t : Nat) (a a0 : Attr) : Prop where
  varId : a.varId = a0.varId
  name0 : a0.isName = true
  name : a.isName = (t % 2 == 0)
  same : a.isName = true → a = a0

structure Sim (D D0 : Data) : Prop where
  declMap : D.declMap = D0.declMap
  notFound : D.notFound = D0.notFound
  varId : D.varId = D0.varId
  varDef : D.varDef = D0.varDef
  attrs : ∀ t, AttrSim t (D.attrs t) (D0.attrs t)

theorem Sim.init : Sim initData {} := by
  refine ⟨rfl, rfl, rfl, rfl, fun t => ⟨rfl, rfl, rfl, ?_⟩⟩
  intro h
  simp only [initData] at h ⊢
  rw [h]

theorem AttrSim.setVarId {t : Nat} {a a0 : Attr} (h : AttrSim t a a0) (id : Nat) : AttrSim t (a.setVarId id) (a0.setVarId id) := by
  obtain ⟨h1, h2, h3, h4⟩ := h
  unfold Attr.setVarId
  rw [h1]
  by_cases hv : a0.varId = id
  · simp only [hv, if_true]; exact ⟨h1, h2, h3, h4⟩
  · simp only [hv, if_false]
    refine ⟨rfl, h2, h3, ?_⟩
    intro hn
    have := h4 hn
    subst this
    rfl

theorem AttrSim.setPtr {t : Nat} {a a0 : Attr} (h : AttrSim t a a0) (ty : TT) (p : Option Nat) :
    AttrSim t { a with ptr := p, ty := ty } { a0 with ptr := p, ty := ty } := by
  obtain ⟨h1, h2, h3, h4⟩ := h
  refine ⟨h1, h2, h3, ?_⟩
  intro hn
  have := h4 hn
  subst this
  rfl

theorem Sim.rid {D D0 : Data} (h : Sim D D0) (d : Decl) : d.rid D = d.rid D0 := by
  simp only [Decl.rid, h.varDef, (h.attrs _).varId]

theorem Sim.mark {D D0 : Data} (h : Sim D D0) (d : Decl) {t : Nat} {a a0 : Attr} (ha : AttrSim t a a0) :
    AttrSim t (d.mark D a) (d.mark D0 a0) := by
  have hr := h.rid d
  unfold Decl.mark
  unfold Decl.rid at hr
  cases d.kind <;> simp only
  · rw [hr]; exact (ha.setPtr .variable (some d.obj)).setVarId _
  · exact ha.setPtr .function (some d.obj)
  · exact ha.setPtr .enumerator (some d.obj)
  · exact ha

theorem Sim.updMark {D D0 : Data} (h : Sim D D0) (d : Decl) (t : Nat) :
    Sim { D with attrs := updAttr D.attrs t (d.mark D) } { D0 with attrs := updAttr D0.attrs t (d.mark D0) } := by
  refine ⟨h.declMap, h.notFound, h.varId, h.varDef, ?_⟩
  intro u
  simp only [updAttr]
  by_cases hu : u = t
  · simp only [hu, if_true]; exact h.mark d (h.attrs t)
  · simp only [hu, if_false]; exact h.attrs u

theorem Sim.ref {D D0 : Data} (h : Sim D D0) (a : Addr) (t : Nat) : Sim (D.ref a t) (D0.ref a t) := by
  unfold Data.ref
  rw [h.declMap]
  cases hl : lookup D0.declMap a with
  | some d => simp only [Decl.ref_eq]; exact h.updMark d t
  | none =>
    simp only
    rw [h.notFound]
    cases lookup D0.notFound a with
    | some l => simp only; exact ⟨rfl, rfl, h.varId, h.varDef, h.attrs⟩
    | none => simp only; exact ⟨rfl, rfl, h.varId, h.varDef, h.attrs⟩

theorem Sim.foldRef (a : Addr) : ∀ (l : List Nat) {D D0 : Data}, Sim D D0 → Sim (l.foldl (fun x t => x.ref a t) D) (l.foldl (fun x t => x.ref a t) D0)
  | [], _, _, h => h
  | t :: l, _, _, h => Sim.foldRef a l (h.ref a t)

theorem Sim.resolve {D D0 : Data} (h : Sim D D0) (a : Addr) : Sim (D.resolve a) (D0.resolve a) := by
  unfold Data.resolve
  rw [h.notFound]
  cases lookup D0.notFound a with
  | none => exact h
  | some l =>
    have hf := Sim.foldRef a l h
    exact ⟨hf.declMap, by simp only [hf.notFound], hf.varId, hf.varDef, hf.attrs⟩

theorem Sim.step {D D0 : Data} (h : Sim D D0) (e : Ev) : Sim (D.step e) (D0.step e) := by
  cases e with
  | varDecl a t o =>
    simp only [Data.step, Data.varDecl]
    apply Sim.resolve
    refine ⟨by simp only [h.declMap], h.notFound, by simp only [h.varId], by simp only [h.varDef], ?_⟩
    intro u
    simp only [updAttr, h.varId]
    by_cases hu : u = t
    · simp only [hu, if_true]
      exact ((h.attrs t).setVarId _).setPtr .variable (some o)
    · simp only [hu, if_false]; exact h.attrs u
  | funcDecl a t o =>
    simp only [Data.step, Data.funcDecl]
    apply Sim.resolve
    refine ⟨by simp only [h.declMap], h.notFound, h.varId, h.varDef, ?_⟩
    intro u
    simp only [updAttr]
    by_cases hu : u = t
    · simp only [hu, if_true]; exact (h.attrs t).setPtr .function (some o)
    · simp only [hu, if_false]; exact h.attrs u
  | enumDecl a t o =>
    simp only [Data.step, Data.enumDecl]
    apply Sim.resolve
    refine ⟨by simp only [h.declMap], h.notFound, h.varId, h.varDef, ?_⟩
    intro u
    simp only [updAttr]
    by_cases hu : u = t
    · simp only [hu, if_true]; exact (h.attrs t).setPtr .enumerator (some o)
    · simp only [hu, if_false]; exact h.attrs u
  | scopeDecl a o =>
    simp only [Data.step, Data.scopeDecl]
    exact ⟨by simp only [h.declMap], h.notFound, h.varId, h.varDef, h.attrs⟩
  | ref a t => exact h.ref a t
  | replace f t =>
    simp only [Data.step, Data.replaceVarDecl]
    exact ⟨by simp only [h.declMap], h.notFound, h.varId, by simp only [h.varDef], h.attrs⟩

theorem Sim.run : ∀ (evs : List Ev) {D D0 : Data}, Sim D D0 → Sim (runEvents D evs) (runEvents D0 evs)
  | [], _, _, h => h
  | e :: r, _, _, h => by
    simp only [runEvents, List.foldl_cons]
    exact Sim.run r (h.step e)

/-- the declaration map of a successful import is the result of running its logged events from `initData` -/
theorem importDump_data {file0 text : Str} {im : Imported} (h : importDump file0 text = .ok im) :
    im.rawAttrs = (runEvents initData im.events).attrs ∧ im.rawVarDef = (runEvents initData im.events).varDef := by
  unfold importDump at h
  split at h
  · cases h
  · rename_i st _
    split at h
    · cases h
    · split at h
      · cases h
      · cases h
        simp only
        rw [← st.log.ok]
        exact ⟨rfl, rfl⟩

end Cppcheck.ClangDeclMap

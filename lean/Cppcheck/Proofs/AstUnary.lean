import Cppcheck.Proofs.AstLadder
import Cppcheck.Model.AstUnary
/-
C07 — helper lemmas, part 2: the operand level (iscast, isPrefixUnary, compileTerm, compilePrecedence2/3) on
printed trees, and the main induction tying the ladder and the operand level together.
-/
namespace Cppcheck.AstLadder
open PExpr

/-! ### mirrored brackets: `openOff` is `closeOff` on the mirrored list -/
def Tok.flip : Tok → Tok
  | .lp => .rp | .rp => .lp | .lb => .rb | .rb => .lb
  | t => t

theorem openOff_eq_closeOff (l : List Tok) : ∀ d, openOff d l = closeOff d (l.map Tok.flip) := by
  induction l with
  | nil => intro d; rfl
  | cons t r ih =>
    intro d
    cases t <;> simp [openOff, closeOff, Tok.flip, Tok.isOpener, Tok.isCloser, ih]

/-- the mirrored reverse of a printed tree is balanced -/
theorem balanced_rev_print : ∀ e : PExpr, Balanced ((print e).reverse.map Tok.flip) := by
  intro e
  induction e with
  | var s => exact balanced_flat _ (by simp [print, Tok.flip, Tok.isOpener, Tok.isCloser])
  | num s => exact balanced_flat _ (by simp [print, Tok.flip, Tok.isOpener, Tok.isCloser])
  | paren e ih =>
    have := balanced_group ih
    simpa [print, Tok.flip] using this
  | bin op l r ihl ihr =>
    have := balanced_append ihr (balanced_append (a := [Tok.op op]) (balanced_flat _ (by simp [Tok.isOpener, Tok.isCloser])) ihl)
    simpa [print, Tok.flip] using this
  | tern c t e ihc iht ihe =>
    have := balanced_append ihe (balanced_append (a := [Tok.op [':']]) (balanced_flat _ (by simp [Tok.isOpener, Tok.isCloser]))
      (balanced_append iht (balanced_append (a := [Tok.op ['?']]) (balanced_flat _ (by simp [Tok.isOpener, Tok.isCloser])) ihc)))
    simpa [print, Tok.flip] using this
  | pre op e ih =>
    have := balanced_append ih (balanced_flat [Tok.op op] (by simp [Tok.isOpener, Tok.isCloser]))
    simpa [print, Tok.flip] using this
  | post op e ih =>
    have := balanced_append (a := [Tok.op op]) (balanced_flat _ (by simp [Tok.isOpener, Tok.isCloser])) ih
    simpa [print, Tok.flip] using this
  | cast ty k e ih =>
    have hb : Balanced (List.replicate k (Tok.op ['*']) ++ (ty.map Tok.ty).reverse) := by
      apply balanced_flat
      intro t ht
      simp only [List.mem_append, List.mem_reverse, List.mem_map, List.mem_replicate] at ht
      rcases ht with ⟨_, rfl⟩ | ⟨s, _, rfl⟩ <;> simp [Tok.isOpener, Tok.isCloser]
    have := balanced_append ih (balanced_group hb)
    simp only [print, List.reverse_cons, List.reverse_append, List.map_append, List.map_reverse, List.map_cons, List.map_nil,
      List.reverse_replicate, List.map_replicate, Tok.flip, List.map_map, List.append_assoc]
    have hty : (List.map (Tok.flip ∘ Tok.ty) ty) = List.map Tok.ty ty := by
      apply List.map_congr_left; intro a _; rfl
    rw [hty]
    simpa [List.map_reverse] using this
  | index a i iha ihi =>
    have := balanced_append (balanced_groupB ihi) iha
    simpa [print, Tok.flip] using this
  | member a m ih =>
    have := balanced_append (a := [Tok.fn m, Tok.op ['.']]) (balanced_flat _ (by simp [Tok.isOpener, Tok.isCloser])) ih
    simpa [print, Tok.flip] using this
  | call0 f v =>
    cases v
    · have := balanced_append (balanced_group (b := []) rfl) (balanced_flat [Tok.fn f] (by simp [Tok.isOpener, Tok.isCloser]))
      simpa [print, fname, Tok.flip] using this
    · have := balanced_append (balanced_group (b := []) rfl) (balanced_flat [Tok.var f] (by simp [Tok.isOpener, Tok.isCloser]))
      simpa [print, fname, Tok.flip] using this
  | call f v a ih =>
    cases v
    · have := balanced_append (balanced_group ih) (balanced_flat [Tok.fn f] (by simp [Tok.isOpener, Tok.isCloser]))
      simpa [print, fname, Tok.flip] using this
    · have := balanced_append (balanced_group ih) (balanced_flat [Tok.var f] (by simp [Tok.isOpener, Tok.isCloser]))
      simpa [print, fname, Tok.flip] using this

theorem openOff_group (e : PExpr) (pre : List Tok) : openOff 0 ((print e).reverse ++ Tok.lp :: pre) = some (print e).length := by
  rw [openOff_eq_closeOff, List.map_append, List.map_cons]
  have := closeOff_group _ (pre.map Tok.flip) (balanced_rev_print e)
  simpa [Tok.flip] using this

/-- first stage: variables, literals, parentheses, binary operators, `?:` -/
def S1 : PExpr → Bool
  | .var _ => true
  | .num _ => true
  | .paren e => S1 e
  | .bin _ l r => S1 l && S1 r
  | .tern c t e => S1 c && S1 t && S1 e
  | .pre op e => plainPrefix op && S1 e
  | _ => false

theorem gram_S1 (L : Ladder) (pp : Bool) : ∀ (e : PExpr) (ls : List Level), Gram L pp ls e = true → S1 e = true := by
  intro e
  induction e with
  | var s => intros; rfl
  | num s => intros; rfl
  | paren e ih => intro ls h; simp only [Gram] at h; exact ih _ h
  | bin op l r ihl ihr =>
    intro ls h
    simp only [Gram] at h
    split at h
    · simp at h
    · rename_i lv below _
      simp only [Bool.and_eq_true] at h
      cases hk : lv.kind with
      | left => simp only [hk, Bool.and_eq_true] at h; simp [S1, ihl _ h.2.1, ihr _ h.2.2]
      | assignTernary => simp only [hk, Bool.and_eq_true] at h; simp [S1, ihl _ h.2.1, ihr _ h.2.2]
  | tern c t e ihc iht ihe =>
    intro ls h
    simp only [Gram] at h
    split at h
    · simp at h
    · rename_i lv below _
      simp only [Bool.and_eq_true] at h
      have ht : S1 t = true := by
        cases pp with
        | true => simp only [if_true, Bool.and_eq_true] at h; exact iht _ h.1.2.2
        | false => simp only [Bool.false_eq_true, if_false] at h; exact iht _ h.1.2
      simp [S1, ihc _ h.1.1, ht, ihe _ h.2]
  | pre op e ih =>
    intro ls h
    simp only [Gram, Bool.and_eq_true] at h
    simp [S1, h.1, ih _ h.2]
  | post op e _ => intro ls h; simp [Gram] at h
  | cast ty k e _ => intro ls h; simp [Gram] at h
  | index a i _ _ => intro ls h; simp [Gram] at h
  | member a m _ => intro ls h; simp [Gram] at h
  | call0 f v => intro ls h; simp [Gram] at h
  | call f v a _ => intro ls h; simp [Gram] at h

/-- the first token of a first-stage tree starts an operand and is no standard type / function name -/
def headOK : Tok → Bool
  | .var _ | .num _ | .lp => true
  | .op s => plainPrefix s
  | _ => false

/-- a token list that begins with an operand: prefix operators, then a variable, a literal or `(` -/
def opStart : List Tok → Bool
  | .var _ :: _ => true
  | .num _ :: _ => true
  | .lp :: _ => true
  | .op s :: r => plainPrefix s && opStart r
  | _ => false

theorem head_print : ∀ e : PExpr, S1 e = true → ∃ t r, print e = t :: r ∧ headOK t = true := by
  intro e
  induction e with
  | var s => intro _; exact ⟨_, _, rfl, rfl⟩
  | num s => intro _; exact ⟨_, _, rfl, rfl⟩
  | paren e _ => intro _; exact ⟨_, _, rfl, rfl⟩
  | bin op l r ihl _ =>
    intro h; simp only [S1, Bool.and_eq_true] at h
    obtain ⟨t, r', hp, ht⟩ := ihl h.1
    exact ⟨t, r' ++ Tok.op op :: print r, by simp [print, hp], ht⟩
  | tern c t e ihc _ _ =>
    intro h; simp only [S1, Bool.and_eq_true] at h
    obtain ⟨t', r', hp, ht⟩ := ihc h.1.1
    exact ⟨t', r' ++ Tok.op ['?'] :: (print t ++ Tok.op [':'] :: print e), by simp [print, hp], ht⟩
  | pre op e _ =>
    intro h; simp only [S1, Bool.and_eq_true] at h
    exact ⟨_, _, rfl, h.1⟩
  | post op e _ => intro h; simp [S1] at h
  | cast ty k e _ => intro h; simp [S1] at h
  | index a i _ _ => intro h; simp [S1] at h
  | member a m _ => intro h; simp [S1] at h
  | call0 f v => intro h; simp [S1] at h
  | call f v a _ => intro h; simp [S1] at h

/-- a parenthesis whose first inner token is a variable, a literal or `(` is never a cast -/
theorem iscast_headOK (cpp : Bool) (pre : List Tok) (t : Tok) (r : List Tok) (h : headOK t = true) :
    iscast cpp pre (t :: r) = false := by
  cases t with
  | var s =>
    unfold iscast
    simp only [Tok.isName, Bool.not_true, Bool.false_eq_true, if_false]
    split
    · rfl
    · simp only [castLoop, List.length_cons]
      repeat' split
      all_goals first | rfl | simp_all
  | num s => simp [iscast, Tok.isName]
  | lp => simp [iscast, Tok.isName]
  | fn s => simp [headOK] at h
  | ty s => simp [headOK] at h
  | kw s => simp [headOK] at h
  | op s => simp [iscast, Tok.isName]
  | rp => simp [headOK] at h
  | lb => simp [headOK] at h
  | rb => simp [headOK] at h

theorem opStart_print : ∀ e : PExpr, S1 e = true → ∀ rest, opStart (print e ++ rest) = true := by
  intro e
  induction e with
  | var s => intro _ rest; rfl
  | num s => intro _ rest; rfl
  | paren e _ => intro _ rest; rfl
  | bin op l r ihl _ =>
    intro h rest; simp only [S1, Bool.and_eq_true] at h
    have := ihl h.1 (Tok.op op :: (print r ++ rest))
    simpa [print] using this
  | tern c t e ihc _ _ =>
    intro h rest; simp only [S1, Bool.and_eq_true] at h
    have := ihc h.1.1 (Tok.op ['?'] :: (print t ++ Tok.op [':'] :: (print e ++ rest)))
    simpa [print] using this
  | pre op e ih =>
    intro h rest; simp only [S1, Bool.and_eq_true] at h
    simp only [print, List.cons_append, opStart, h.1, ih h.2 rest, Bool.and_self]
  | post op e _ => intro h; simp [S1] at h
  | cast ty k e _ => intro h; simp [S1] at h
  | index a i _ _ => intro h; simp [S1] at h
  | member a m _ => intro h; simp [S1] at h
  | call0 f v => intro h; simp [S1] at h
  | call f v a _ => intro h; simp [S1] at h

/-- after a complete first-stage operand no token is taken for a prefix operator -/
theorem ends_operand (cpp : Bool) : ∀ e : PExpr, S1 e = true → ∀ (pre : List Tok) (t : Tok) (after : List Tok),
    isPrefixUnary cpp ((print e).reverse ++ pre) t after = false := by
  intro e
  induction e with
  | var s => intro _ pre t after; simp [print, isPrefixUnary, prevSet, Tok.isIncDec]
  | num s => intro _ pre t after; simp [print, isPrefixUnary, prevSet, Tok.isIncDec]
  | paren e ih =>
    intro h pre t after
    simp only [S1] at h
    have hrev : (print (paren e)).reverse ++ pre = Tok.rp :: ((print e).reverse ++ Tok.lp :: pre) := by
      simp [print]
    rw [hrev]
    simp only [isPrefixUnary, prevSet, Tok.isIncDec, Bool.false_or, Bool.and_false, Bool.false_and, Bool.false_eq_true, if_false,
      reduceCtorEq, decide_false, Bool.and_true, decide_true, Bool.true_and]
    unfold castBefore
    rw [openOff_group]
    simp only
    obtain ⟨t', r', hp, ht'⟩ := head_print e h
    have h1 : ((print e).reverse ++ Tok.lp :: pre).take (print e).length = (print e).reverse := by
      rw [List.take_left' (by simp)]
    rw [h1, List.reverse_reverse, hp]
    simp only [List.cons_append]
    exact iscast_headOK cpp _ t' _ ht'
  | bin op l r _ ihr =>
    intro h pre t after
    simp only [S1, Bool.and_eq_true] at h
    have : (print (bin op l r)).reverse ++ pre = (print r).reverse ++ (Tok.op op :: ((print l).reverse ++ pre)) := by
      simp [print]
    rw [this]; exact ihr h.2 _ t after
  | tern c t' e _ _ ihe =>
    intro h pre t after
    simp only [S1, Bool.and_eq_true] at h
    have : (print (tern c t' e)).reverse ++ pre =
        (print e).reverse ++ (Tok.op [':'] :: ((print t').reverse ++ (Tok.op ['?'] :: ((print c).reverse ++ pre)))) := by
      simp [print]
    rw [this]; exact ihe h.2 _ t after
  | pre op e ih =>
    intro h pre t after
    simp only [S1, Bool.and_eq_true] at h
    have : (print (PExpr.pre op e)).reverse ++ pre = (print e).reverse ++ (Tok.op op :: pre) := by simp [print]
    rw [this]; exact ih h.2 _ t after
  | post op e _ => intro h; simp [S1] at h
  | cast ty k e _ => intro h; simp [S1] at h
  | index a i _ _ => intro h; simp [S1] at h
  | member a m _ => intro h; simp [S1] at h
  | call0 f v => intro h; simp [S1] at h
  | call f v a _ => intro h; simp [S1] at h

/-- context in which an operand may start: not behind a name, `)` or `]`; not behind `) (` -/
def CtxOK (pre : List Tok) : Prop :=
  (∀ p, pre.head? = some p → p.isName = false ∧ p ≠ Tok.rp ∧ p ≠ Tok.rb ∧ prevSet p = true ∧ p.isIncDec = false) ∧
  (pre.head? = some Tok.lp → pre.tail.head? ≠ some Tok.rp)

/-- tokens that may follow an operand without being absorbed by the operand level -/
def restOK : Tok → Bool
  | .rp | .rb => true
  | .op s => !isIncDecStr s && s != ['.'] && s != ['.','.','.'] && s != ['{']
  | _ => false

def RestOK (rest : List Tok) : Prop := ∀ t, rest.head? = some t → restOK t = true

/-- no token is a prefix operator here (holds behind every complete operand) -/
def EndsOp (cpp : Bool) (pre : List Tok) : Prop := ∀ t after, isPrefixUnary cpp pre t after = false

theorem restOK_not_name {rest : List Tok} (h : RestOK rest) : nextIsName rest = false := by
  unfold nextIsName
  cases rest with
  | nil => rfl
  | cons t r =>
    have := h t rfl
    cases t <;> simp_all [restOK, Tok.isName]

theorem term_var (g : Bool) (d : Nat) (pre : List Tok) (s : Wire.Str) (r : List Tok) (stk : List Entry) (a : Nat)
    (hr : RestOK r) (hc : CtxOK pre)
    (hdecl : g = true ∨ (pre.head? = some Tok.lp → skipDeclGo (Tok.var s :: r) 0 = some 0)) :
    term g d ⟨pre, Tok.var s :: r, stk, a⟩ = .ok ⟨Tok.var s :: pre, r, ⟨pre.length, .leaf s⟩ :: stk, a⟩ := by
  have hn := restOK_not_name hr
  unfold term
  simp only [hn, Bool.false_eq_true, if_false]
  have hj : (if (decide (pre.head? = some Tok.lp) && !(g && true)) = true then skipDeclGo (Tok.var s :: r) 0 else some 0) = some 0 := by
    split
    · rename_i h
      simp only [Bool.and_eq_true, decide_eq_true_eq, Bool.and_true, Bool.not_eq_true'] at h
      rcases hdecl with hg | hd
      · rw [hg] at h; exact absurd h.2 (by simp)
      · exact hd h.1
    · rfl
  simp only [hj, St.adv, hn, Bool.false_eq_true, if_false, St.push, St.pos, Tok.str]
  have hx : parenParenBefore pre = false := by
    unfold parenParenBefore
    split
    · have := hc.2 rfl
      simp at this
    · rfl
  simp only [hn, hx, Bool.and_false, Bool.false_and, Bool.false_eq_true, if_false, St.next]

theorem term_num (g : Bool) (d : Nat) (pre : List Tok) (s : Wire.Str) (r : List Tok) (stk : List Entry) (a : Nat)
    (hr : RestOK r) :
    term g d ⟨pre, Tok.num s :: r, stk, a⟩ = .ok ⟨Tok.num s :: pre, r, ⟨pre.length, .leaf s⟩ :: stk, a⟩ := by
  have hn := restOK_not_name hr
  unfold term
  simp only [hn, Bool.false_eq_true, if_false, St.next, St.push, St.pos]

theorem loop2_stop (M : Nat) (cpp : Bool) (g : Bool) (inner : Nat → St → R) (d : Nat) (st : St) (hr : RestOK st.inp) :
    loop2 M cpp g inner d st = .ok st := by
  rw [loop2.eq_1]
  cases hi : st.inp with
  | nil => rfl
  | cons t rest =>
    have := hr t (by rw [hi]; rfl)
    cases t with
    | op s =>
      simp only [restOK, Bool.and_eq_true, Bool.not_eq_true', bne_iff_ne, ne_eq] at this
      simp [this.1.1.1, this.1.1.2, this.1.2, this.2]
    | rp => rfl
    | rb => rfl
    | var s => simp [restOK] at this
    | num s => simp [restOK] at this
    | fn s => simp [restOK] at this
    | ty s => simp [restOK] at this
    | kw s => simp [restOK] at this
    | lp => simp [restOK] at this
    | lb => simp [restOK] at this

theorem p3loop_stop (M : Nat) (cpp : Bool) (g : Bool) (inner : Nat → St → R) (d : Nat) (st : St) (hr : RestOK st.inp)
    (he : EndsOp cpp st.pre) : p3 M cpp g inner false d st = .ok st := by
  rw [p3.eq_1]
  simp only [Bool.false_eq_true, if_false]
  cases hi : st.inp with
  | nil => rfl
  | cons t rest =>
    have := hr t (by rw [hi]; rfl)
    cases t with
    | op s => simp [he (Tok.op s) rest]
    | rp => rfl
    | rb => rfl
    | var s => simp [restOK] at this
    | num s => simp [restOK] at this
    | fn s => simp [restOK] at this
    | ty s => simp [restOK] at this
    | kw s => simp [restOK] at this
    | lp => simp [restOK] at this
    | lb => simp [restOK] at this

/-- compilePrecedence3 on a state whose compileTerm result is known and after which nothing continues -/
theorem p3_of_term (M : Nat) (cpp : Bool) (g : Bool) (inner : Nat → St → R) (d : Nat) (st st1 : St)
    (ht : term g d st = .ok st1) (hlen : st1.inp.length ≤ st.inp.length) (hr : RestOK st1.inp) (he : EndsOp cpp st1.pre) :
    p3 M cpp g inner true d st = .ok st1 := by
  rw [p3.eq_1]
  simp only [if_true, p2, ht, hlen, loop2_stop M cpp g inner d st1 hr, Nat.le_refl, p3loop_stop M cpp g inner d st1 hr he]

theorem seek_next (st : St) (t : Tok) (r : List Tok) (p : Nat) (hi : st.inp = t :: r) (hp : st.pos + 1 = p) :
    st.seek p = { st with pre := t :: st.pre, inp := r } := by
  unfold St.seek
  have : st.pos ≤ p := by omega
  simp only [this, if_true]
  have : p - st.pos = 1 := by omega
  rw [this]
  simp [St.adv, St.next, hi]

theorem ctx_not_call (cpp : Bool) (pre : List Tok) (cur : List Tok) (hc : CtxOK pre) : isCallCtx cpp pre cur = false := by
  unfold isCallCtx
  cases pre with
  | nil => rfl
  | cons p pr =>
    have := hc.1 p rfl
    simp [this.1, this.2.1, this.2.2.1]

/-- compilePrecedence3 on `( b ) rest` when the parenthesis is no cast, the context is an operand context and
compileExpression handles `b` -/
theorem p3_paren (M : Nat) (cpp : Bool) (g : Bool) (inner : Nat → St → R) (d : Nat) (pre b rest : List Tok) (stk stk' : List Entry)
    (a : Nat) (hb : Balanced b) (hcast : iscast cpp pre (b ++ Tok.rp :: rest) = false) (hc : CtxOK pre)
    (hin : inner d ⟨Tok.lp :: pre, b ++ Tok.rp :: rest, stk, a⟩ = .ok ⟨b.reverse ++ Tok.lp :: pre, Tok.rp :: rest, stk', a⟩)
    (hr : RestOK rest) (he : EndsOp cpp (Tok.rp :: (b.reverse ++ Tok.lp :: pre))) :
    p3 M cpp g inner true d ⟨pre, Tok.lp :: (b ++ Tok.rp :: rest), stk, a⟩ =
      .ok ⟨Tok.rp :: (b.reverse ++ Tok.lp :: pre), rest, stk', a⟩ := by
  rw [p3.eq_1]
  simp only [if_true, p2]
  have hterm : term g d ⟨pre, Tok.lp :: (b ++ Tok.rp :: rest), stk, a⟩ = .ok ⟨pre, Tok.lp :: (b ++ Tok.rp :: rest), stk, a⟩ := by
    unfold term; rfl
  rw [hterm]
  simp only [Nat.le_refl, if_true]
  rw [loop2.eq_1]
  simp only [hcast, Bool.not_false, if_true, closeOff_group b rest hb]
  have hnext : (⟨pre, Tok.lp :: (b ++ Tok.rp :: rest), stk, a⟩ : St).next = ⟨Tok.lp :: pre, b ++ Tok.rp :: rest, stk, a⟩ := rfl
  rw [hnext, hin]
  simp only [ctx_not_call cpp pre _ hc, Bool.false_eq_true, if_false]
  have hseek : (⟨b.reverse ++ Tok.lp :: pre, Tok.rp :: rest, stk', a⟩ : St).seek ((⟨pre, Tok.lp :: (b ++ Tok.rp :: rest), stk, a⟩ : St).pos + b.length + 2)
      = ⟨Tok.rp :: (b.reverse ++ Tok.lp :: pre), rest, stk', a⟩ := by
    rw [seek_next _ Tok.rp rest _ rfl (by simp [St.pos]; omega)]
  rw [hseek]
  simp only [List.length_cons, List.length_append, show rest.length < b.length + (rest.length + 1) + 1 by omega, if_true]
  rw [loop2_stop M cpp g inner d _ hr]
  simp only [show rest.length ≤ b.length + (rest.length + 1) + 1 by omega, if_true]
  exact p3loop_stop M cpp g inner d _ hr he

theorem opOK_spec {s : Wire.Str} (h : opOK s = true) :
    s ≠ ['?'] ∧ s ≠ [':'] ∧ s ≠ [';'] ∧ isIncDecStr s = false ∧ s ≠ ['.','.','.'] ∧ s ≠ ['{'] ∧ s ≠ ['}'] ∧ s ≠ [':',':'] ∧
      prevSet (Tok.op s) = true := by
  simp only [opOK, Bool.and_eq_true, bne_iff_ne, ne_eq, Bool.not_eq_true'] at h
  obtain ⟨⟨⟨⟨⟨⟨⟨⟨h1, h2⟩, h3⟩, h4⟩, h5⟩, h6⟩, h7⟩, h8⟩, h9⟩ := h
  exact ⟨h1, h2, h3, h4, h5, h6, h7, h8, h9⟩

theorem plainPrefix_cases {s : Wire.Str} (h : plainPrefix s = true) : s = ['-'] ∨ s = ['!'] ∨ s = ['~'] ∨ s = ['*'] ∨ s = ['&'] := by
  simp only [plainPrefix, Bool.or_eq_true, decide_eq_true_eq] at h
  rcases h with (((h | h) | h) | h) | h <;> simp [h]

theorem headOK_ne_colon {t : Tok} (h : headOK t = true) : t ≠ Tok.op [':'] := by
  intro hc; subst hc; simp [headOK, plainPrefix] at h

theorem opStart_head {l : List Tok} (h : opStart l = true) : ∃ t r, l = t :: r ∧ headOK t = true := by
  cases l with
  | nil => simp [opStart] at h
  | cons t r =>
    refine ⟨t, r, rfl, ?_⟩
    cases t <;> simp_all [opStart, headOK]

theorem isQualifier_opStart : ∀ l : List Tok, opStart l = true → isQualifier l = false := by
  intro l
  induction l with
  | nil => intro h; simp [opStart] at h
  | cons t r ih =>
    intro h
    cases t with
    | op s =>
      simp only [opStart, Bool.and_eq_true] at h
      unfold isQualifier
      split
      · exact ih h.2
      · rcases plainPrefix_cases h.1 with rfl | rfl | rfl | rfl | rfl <;> decide
    | var s => rfl
    | num s => rfl
    | lp => rfl
    | fn s => simp [opStart] at h
    | ty s => simp [opStart] at h
    | kw s => simp [opStart] at h
    | rp => simp [opStart] at h
    | lb => simp [opStart] at h
    | rb => simp [opStart] at h

theorem starGo_opStart : ∀ (l : List Tok), opStart l = true → ∀ k, starGo l k = none := by
  intro l
  induction l with
  | nil => intro h; simp [opStart] at h
  | cons t r ih =>
    intro h k
    cases r with
    | nil =>
      cases t <;> simp_all [opStart, starGo, isStarStop]
    | cons t' r' =>
      cases t with
      | op s =>
        simp only [opStart, Bool.and_eq_true] at h
        simp only [starGo]
        split
        · exact ih h.2 _
        · rcases plainPrefix_cases h.1 with rfl | rfl | rfl | rfl | rfl <;> simp [isStarStop]
      | var s => simp [starGo, isStarStop]
      | num s => simp [starGo, isStarStop]
      | lp => simp [starGo, isStarStop]
      | fn s => simp [opStart] at h
      | ty s => simp [opStart] at h
      | kw s => simp [opStart] at h
      | rp => simp [opStart] at h
      | lb => simp [opStart] at h
      | rb => simp [opStart] at h

theorem starLook_opStart (l : List Tok) (h : opStart l = true) : starLook l = none := by
  cases l with
  | nil => rfl
  | cons t r =>
    simp only [starLook]
    split
    · exact starGo_opStart _ h 1
    · rfl

/-- a usable guard lets the operator through when an operand follows -/
theorem guard_take (cpp : Bool) (g : Guard) (s : Wire.Str) (l : List Tok)
    (hg : g.binary = true) (hs : opOK s = true) (hl : opStart l = true) :
    g.eval cpp s l = .take s := by
  have hq : isQualifier (Tok.op s :: l) = false := by
    have hs := opOK_spec hs
    unfold isQualifier
    split
    · exact isQualifier_opStart l hl
    · simp only [Bool.or_eq_false_iff, decide_eq_false_iff_not]
      exact ⟨hs.2.2.2.2.2.1, hs.2.2.1⟩
  have hsl : starLook l = none := starLook_opStart l hl
  obtain ⟨t, r, rfl, ht⟩ := opStart_head hl
  have hne : ∀ x : Tok, headOK x = true → x ≠ Tok.op [','] ∧ x ≠ Tok.rp ∧ x ≠ Tok.op ['}'] := by
    intro x hx
    cases x <;> simp_all [headOK]
    rename_i s'
    rcases plainPrefix_cases hx with rfl | rfl | rfl | rfl | rfl <;> decide
  cases g with
  | always => rfl
  | unusedTok => rfl
  | notLinked => rfl
  | mul => simp [Guard.eval, hq, hsl]
  | amp =>
    simp only [Guard.eval, hq, Bool.false_eq_true, if_false]
    by_cases hamp : t = Tok.op ['&']
    · subst hamp
      simp only [opStart, Bool.and_eq_true] at hl
      obtain ⟨t2, r2, rfl, ht2⟩ := opStart_head hl.2
      have := hne t2 ht2
      simp [this.1, this.2.1]
    · have := hne t ht
      simp [hamp, this.1, this.2.1]
  | ampamp =>
    simp only [Guard.eval, hq, Bool.false_eq_true, if_false]
    have := hne t ht
    simp [this.1, this.2.1]
  | commaBrace =>
    simp only [Guard.eval]
    have := hne t ht
    simp [this.2.2]
  | dotStar => simp [Guard.binary] at hg

/-! ### consequences of `Ladder.WF` -/

theorem lookupOp_mem {s : Wire.Str} {ops : List (Wire.Str × Guard)} {g : Guard} (h : lookupOp s ops = some g) : (s, g) ∈ ops := by
  induction ops with
  | nil => simp [lookupOp] at h
  | cons x r ih =>
    obtain ⟨o, g'⟩ := x
    simp only [lookupOp] at h
    split at h
    · rename_i ho; simp at h; subst ho; subst h; simp
    · exact List.mem_cons_of_mem _ (ih h)

theorem lookupOp_none_of_not_mem {s : Wire.Str} {ops : List (Wire.Str × Guard)} (h : s ∉ ops.map Prod.fst) : lookupOp s ops = none := by
  induction ops with
  | nil => rfl
  | cons x r ih =>
    obtain ⟨o, g'⟩ := x
    simp only [List.map_cons, List.mem_cons, not_or] at h
    simp only [lookupOp]
    rw [if_neg (fun he => h.1 he.symm)]
    exact ih h.2

theorem allOps_append (a b : List Level) : allOps (a ++ b) = allOps a ++ allOps b := by
  simp [allOps]

theorem allOps_cons (lv : Level) (b : List Level) : allOps (lv :: b) = lv.ops.map Prod.fst ++ allOps b := by
  simp [allOps]

theorem mem_allOps {lv : Level} {ls : List Level} {s : Wire.Str} (hl : lv ∈ ls) (hs : s ∈ lv.ops.map Prod.fst) : s ∈ allOps ls := by
  simp only [allOps, List.mem_flatMap]
  exact ⟨lv, hl, hs⟩

structure Suffix (L : Ladder) (ls : List Level) : Prop where
  ex : ∃ above, L.levels = above ++ ls

theorem Suffix.tail {L : Ladder} {lv : Level} {ls : List Level} (h : Suffix L (lv :: ls)) : Suffix L ls := by
  obtain ⟨above, h⟩ := h.ex
  exact ⟨above ++ [lv], by simp [h]⟩

theorem Suffix.mem {L : Ladder} {ls : List Level} (h : Suffix L ls) {lv : Level} (hm : lv ∈ ls) : lv ∈ L.levels := by
  obtain ⟨above, h⟩ := h.ex
  rw [h]; exact List.mem_append_right _ hm

theorem Suffix.refl (L : Ladder) : Suffix L L.levels := ⟨[], rfl⟩

section WF
variable {L : Ladder} (hL : L.WF = true)
include hL

theorem wf_nodup : (allOps L.levels).Nodup := by
  simp only [Ladder.WF, Bool.and_eq_true, decide_eq_true_eq] at hL; exact hL.1.1

theorem wf_entry {lv : Level} (hm : lv ∈ L.levels) {e : Wire.Str × Guard} (he : e ∈ lv.ops) : entryOK e = true := by
  simp only [Ladder.WF, Bool.and_eq_true, List.all_eq_true] at hL
  exact hL.1.2 lv hm e he

theorem wf_shape : ternShape L.levels = true := by
  simp only [Ladder.WF, Bool.and_eq_true] at hL; exact hL.2

/-- an operator of level `lv` is not an operator of any level below it -/
theorem wf_distinct {lv : Level} {below : List Level} (hs : Suffix L (lv :: below)) {s : Wire.Str} {g : Guard}
    (h : lookupOp s lv.ops = some g) {lv' : Level} (hm : lv' ∈ below) : lookupOp s lv'.ops = none := by
  obtain ⟨above, hab⟩ := hs.ex
  have hn := wf_nodup hL
  rw [hab, allOps_append, allOps_cons] at hn
  have hn2 := (List.nodup_append.mp hn).2.1
  have hn3 := (List.nodup_append.mp hn2).2.2
  apply lookupOp_none_of_not_mem
  intro hc
  have h1 : s ∈ lv.ops.map Prod.fst := List.mem_map.mpr ⟨(s, g), lookupOp_mem h, rfl⟩
  exact hn3 s h1 s (mem_allOps hm hc) rfl

/-- a spelling that is not `opOK` is no operator of any level -/
theorem wf_not_op {lv : Level} (hm : lv ∈ L.levels) {s : Wire.Str} (hs : opOK s = false) : lookupOp s lv.ops = none := by
  apply lookupOp_none_of_not_mem
  intro hc
  obtain ⟨⟨o, g⟩, he, rfl⟩ := List.mem_map.mp hc
  have := wf_entry hL hm he
  simp only [entryOK, Bool.and_eq_true] at this
  rw [this.1] at hs; exact absurd hs (by simp)

/-- below compileAssignTernary every level is a plain left-associative loop -/
theorem wf_below_at {lv : Level} {below : List Level} (hs : Suffix L (lv :: below)) (hk : lv.kind = .assignTernary)
    {lv' : Level} (hm : lv' ∈ below) : lv'.kind = .left := by
  obtain ⟨above, hab⟩ := hs.ex
  have hsh := wf_shape hL
  rw [hab] at hsh
  clear hab
  induction above with
  | nil =>
    simp only [List.nil_append, ternShape, hk, if_true, List.all_eq_true, decide_eq_true_eq] at hsh
    exact hsh lv' hm
  | cons x xs ih =>
    simp only [List.cons_append, ternShape] at hsh
    split at hsh
    · simp only [List.all_eq_true, decide_eq_true_eq] at hsh
      have := hsh lv (by simp)
      rw [hk] at this; exact absurd this (by simp)
    · simp only [Bool.and_eq_true] at hsh
      exact ih hsh.2

end WF
/-- compileExpression as seen from inside compilePrecedence2/3 of an outer call over `N` remaining tokens -/
def innerN (L : Ladder) (cpp : Bool) (N : Nat) : Nat → St → R :=
  fun d' st' => if st'.inp.length < N then expr L cpp d' st' else .error .stuck

def primN (L : Ladder) (cpp : Bool) (N : Nat) : Nat → St → R := p3 L.maxDepth cpp L.declVarGuard (innerN L cpp N) true

theorem expr_eq (L : Ladder) (cpp : Bool) (d : Nat) (st : St) :
    expr L cpp d st =
      if d > L.maxDepth then .error .depth
      else match st.inp with
        | [] => .ok st
        | _ :: _ => ladder L.maxDepth cpp (primN L cpp st.inp.length) L.levels d st := by
  rw [expr.eq_1]; rfl

/-- the state after `e` has been parsed: cursor behind it, its tree on the operand stack -/
def done (e : PExpr) (pre rest : List Tok) (stk : List Entry) (a : Nat) : St :=
  ⟨(print e).reverse ++ pre, rest, ⟨pre.length + rootOff e, toAst e⟩ :: stk, a⟩

/-- compileAssignTernary would not continue with an assignment operator or `?` -/
def NoRA (cpp : Bool) (lv : Level) (rest : List Tok) : Prop :=
  lv.step cpp rest = .stop ∧ rest.head? ≠ some (Tok.op ['?'])

/-- parsing `print e ++ rest` at the level list `ls` = operand `e` on the stack, then the loop of the top level -/
def Claim (L : Ladder) (cpp : Bool) (e : PExpr) (ls : List Level) : Prop :=
  ∀ (N a d : Nat) (pre rest : List Tok) (stk : List Entry),
    (print e ++ rest).length ≤ N → d + need e ≤ L.maxDepth → CtxOK pre →
    (L.declVarGuard = true ∨ (pre.head? = some Tok.lp → declHead (print e ++ rest) = true)) →
    (rest.head? = some (Tok.op [':']) → topFree e = true) →
    RestOK rest →
    (∀ lv ∈ ls.tail, LvStop cpp lv 0 rest) →
    (∀ lv below, ls = lv :: below → lv.kind = .assignTernary → NoRA cpp lv rest) →
    ladder L.maxDepth cpp (primN L cpp N) ls d ⟨pre, print e ++ rest, stk, a⟩ =
      K L.maxDepth cpp (primN L cpp N) ls d (done e pre rest stk a)

theorem LvStop.weaken {cpp : Bool} {lv : Level} {rest : List Tok} (h : LvStop cpp lv 0 rest) (a : Nat) : LvStop cpp lv a rest := by
  refine ⟨h.1, fun hk => ⟨(h.2 hk).1, fun hc => ?_⟩⟩
  exact absurd ((h.2 hk).2 hc) (by omega)

theorem LvStop.noRA {cpp : Bool} {lv : Level} {rest : List Tok} {a : Nat} (h : LvStop cpp lv a rest) (hk : lv.kind = .assignTernary) :
    NoRA cpp lv rest := ⟨h.1, (h.2 hk).1⟩

/-- after the operand, the loops of `ls` all stop: the whole `K` is the identity -/
theorem K_done (L : Ladder) (cpp : Bool) (N : Nat) (ls : List Level) (d : Nat) (st : St)
    (h : ∀ lv below, ls = lv :: below → LvStop cpp lv st.assign st.inp) :
    K L.maxDepth cpp (primN L cpp N) ls d st = .ok st := by
  cases ls with
  | nil => rfl
  | cons lv below => exact K_stop _ _ _ below d st (h lv below rfl)

theorem claim_descend (L : Ladder) (cpp : Bool) (e : PExpr) (a0 : Level) (more : List Level)
    (h : Claim L cpp e more) : Claim L cpp e (a0 :: more) := by
  intro N a d pre rest stk hN hd hc hdecl hcol hr hbelow hnora
  have hsub := h N a d pre rest stk hN hd hc hdecl hcol hr
    (fun lv hm => hbelow lv (by
      cases more with
      | nil => simp at hm
      | cons m ms => simp only [List.tail_cons] at hm ⊢; exact List.mem_cons_of_mem _ hm))
    (fun lv below hm hk => by
      have : lv ∈ (a0 :: more).tail := by simp [hm]
      exact (hbelow lv this).noRA hk)
  rw [K_done L cpp N more d _ (fun lv below hm => by
      have : lv ∈ (a0 :: more).tail := by simp [hm]
      exact (hbelow lv this).weaken a)] at hsub
  exact descend _ _ _ more d _ _ hsub (by simp [done])

theorem claim_lift (L : Ladder) (cpp : Bool) (e : PExpr) (ls : List Level) (h : Claim L cpp e ls) :
    ∀ above, Claim L cpp e (above ++ ls) := by
  intro above
  induction above with
  | nil => exact h
  | cons x xs ih => exact claim_descend L cpp e x (xs ++ ls) ih

theorem ladder_nil (M : Nat) (cpp : Bool) (prim : Nat → St → R) (d : Nat) (st : St) : ladder M cpp prim [] d st = prim d st := by
  rw [ladder]

theorem expr_cons (L : Ladder) (cpp : Bool) (d : Nat) (st : St) (hd : ¬ d > L.maxDepth) (hne : st.inp ≠ []) :
    expr L cpp d st = ladder L.maxDepth cpp (primN L cpp st.inp.length) L.levels d st := by
  rw [expr_eq]
  simp only [hd, if_false]
  obtain ⟨pre, inp, stk, a⟩ := st
  cases inp with
  | nil => exact absurd rfl hne
  | cons t r => rfl

theorem endsOp_print (cpp : Bool) (e : PExpr) (h : S1 e = true) (pre : List Tok) : EndsOp cpp ((print e).reverse ++ pre) :=
  fun t after => ends_operand cpp e h pre t after

theorem claim_var (L : Ladder) (cpp : Bool) (s : Wire.Str) : Claim L cpp (var s) [] := by
  intro N a d pre rest stk _ _ hc hdecl _ hr _ _
  rw [ladder_nil]
  simp only [K, primN, done, print, List.reverse_cons, List.reverse_nil, List.nil_append, List.singleton_append, rootOff, toAst, Nat.add_zero]
  apply p3_of_term
  · exact term_var _ d pre s rest stk a hr hc (hdecl.imp id (fun hd h => by have := hd h; simpa [declHead, print, Tok.isName] using this))
  · simp
  · exact hr
  · exact endsOp_print cpp (var s) rfl pre

theorem claim_num (L : Ladder) (cpp : Bool) (s : Wire.Str) : Claim L cpp (num s) [] := by
  intro N a d pre rest stk _ _ hc hdecl _ hr _ _
  rw [ladder_nil]
  simp only [K, primN, done, print, List.reverse_cons, List.reverse_nil, List.nil_append, List.singleton_append, rootOff, toAst, Nat.add_zero]
  apply p3_of_term
  · exact term_num _ d pre s rest stk a hr
  · simp
  · exact hr
  · exact endsOp_print cpp (num s) rfl pre

theorem skipDeclGo_rp (b r : List Tok) : ∀ k, skipDeclGo (b ++ Tok.rp :: r) k = skipDeclGo (b ++ [Tok.rp]) k := by
  induction b with
  | nil => intro k; simp [skipDeclGo, Tok.isName]
  | cons t b ih =>
    intro k
    simp only [List.cons_append, skipDeclGo]
    have hh : (b ++ Tok.rp :: r).head? = (b ++ [Tok.rp]).head? := by cases b <;> rfl
    rw [hh, ih]

theorem lvstop_nonop (cpp : Bool) (lv : Level) (a : Nat) (t : Tok) (r : List Tok) (h : ∀ s, t ≠ Tok.op s) : LvStop cpp lv a (t :: r) := by
  constructor
  · unfold Level.step; cases t <;> simp_all
  · intro _; constructor
    · simp only [List.head?_cons, ne_eq, Option.some.injEq]; exact h _
    · intro hc; simp only [List.head?_cons, Option.some.injEq] at hc; exact absurd hc (h _)

theorem claim_paren (L : Ladder) (cpp : Bool) (e : PExpr) (hs : S1 e = true)
    (hdk : L.declVarGuard = true ∨ declHead (print e ++ [Tok.rp]) = true)
    (ih : Claim L cpp e L.levels) : Claim L cpp (paren e) [] := by
  intro N a d pre rest stk hN hd hc _ _ hr _ _
  rw [ladder_nil]
  simp only [K, primN]
  obtain ⟨t', r', hp, ht'⟩ := head_print e hs
  have hlist : print (paren e) ++ rest = Tok.lp :: (print e ++ Tok.rp :: rest) := by simp [print]
  rw [hlist]
  simp only [need] at hd
  have hN' : (print e ++ Tok.rp :: rest).length < N := by
    rw [hlist] at hN; simp only [List.length_cons] at hN; omega
  -- the nested compileExpression
  have hin : innerN L cpp N d ⟨Tok.lp :: pre, print e ++ Tok.rp :: rest, stk, a⟩ =
      .ok ⟨(print e).reverse ++ Tok.lp :: pre, Tok.rp :: rest, ⟨(Tok.lp :: pre).length + rootOff e, toAst e⟩ :: stk, a⟩ := by
    simp only [innerN, hN', if_true]
    rw [expr_cons L cpp d _ (by omega) (by simp [hp])]
    simp only
    have hc' : CtxOK (Tok.lp :: pre) := by
      constructor
      · intro p hp'; simp only [List.head?_cons, Option.some.injEq] at hp'; subst hp'; simp [Tok.isName, prevSet, Tok.isIncDec]
      · intro _
        simp only [List.tail_cons]
        intro hrp
        have := hc.1 Tok.rp hrp
        exact this.2.1 rfl
    have h1 := ih (print e ++ Tok.rp :: rest).length a d (Tok.lp :: pre) (Tok.rp :: rest) stk (Nat.le_refl _) hd hc'
      (hdk.imp id (fun hdk _ => by
        rw [hp] at hdk ⊢
        simp only [List.cons_append, declHead] at hdk ⊢
        rw [← List.cons_append, skipDeclGo_rp]; exact hdk))
      (fun h => by simp at h)
      (fun t h => by simp only [List.head?_cons, Option.some.injEq] at h; subst h; rfl)
      (fun lv _ => lvstop_nonop cpp lv 0 Tok.rp rest (by simp))
      (fun lv below _ _ => (lvstop_nonop cpp lv 0 Tok.rp rest (by simp)).noRA ‹_›)
    rw [h1]
    exact K_done L cpp _ L.levels d _ (fun lv below _ => lvstop_nonop cpp lv a Tok.rp rest (by simp))
  have hcast : iscast cpp pre (print e ++ Tok.rp :: rest) = false := by
    rw [hp]; exact iscast_headOK cpp pre t' _ ht'
  have he : EndsOp cpp (Tok.rp :: ((print e).reverse ++ Tok.lp :: pre)) := by
    have := endsOp_print cpp (paren e) hs pre
    simpa [print] using this
  rw [p3_paren L.maxDepth cpp L.declVarGuard (innerN L cpp N) d pre (print e) rest stk _ a (balanced_print e) hcast hc hin hr he]
  simp only [done, print, rootOff, toAst, List.reverse_cons, List.reverse_append, List.reverse_nil, List.nil_append,
    List.singleton_append, List.cons_append, List.append_assoc, List.length_cons]
  have : pre.length + 1 + e.rootOff = pre.length + (1 + e.rootOff) := by omega
  rw [this]

theorem ctxOK_op (s : Wire.Str) (pre : List Tok) (h1 : prevSet (Tok.op s) = true) (h2 : isIncDecStr s = false) :
    CtxOK (Tok.op s :: pre) := by
  constructor
  · intro p hp; simp only [List.head?_cons, Option.some.injEq] at hp; subst hp; simp [Tok.isName, h1, Tok.isIncDec, h2]
  · intro h; simp at h

theorem ctxOK_opOK {s : Wire.Str} (pre : List Tok) (h : opOK s = true) : CtxOK (Tok.op s :: pre) :=
  ctxOK_op s pre (opOK_spec h).2.2.2.2.2.2.2.2 (opOK_spec h).2.2.2.1

theorem ctxOK_quest (pre : List Tok) : CtxOK (Tok.op ['?'] :: pre) := ctxOK_op _ pre (by decide) (by decide)
theorem ctxOK_colon (pre : List Tok) : CtxOK (Tok.op [':'] :: pre) := ctxOK_op _ pre (by decide) (by decide)

theorem prefixUnary_of_ctx (cpp : Bool) (pre : List Tok) (t : Tok) (after : List Tok) (hc : CtxOK pre) :
    isPrefixUnary cpp pre t after = true := by
  cases pre with
  | nil => rfl
  | cons p pr =>
    have := hc.1 p rfl
    simp [isPrefixUnary, this.2.2.2.1, this.2.2.2.2]

theorem entry_spec {L : Ladder} (hL : L.WF = true) {lv : Level} (hm : lv ∈ L.levels) {op : Wire.Str} {g : Guard}
    (hlook : lookupOp op lv.ops = some g) (hg : g.binary = true) :
    opOK op = true ∧ op ≠ ['.'] := by
  have := wf_entry hL hm (lookupOp_mem hlook)
  simp only [entryOK, Bool.and_eq_true, Bool.or_eq_true, Bool.not_eq_true', bne_iff_ne, ne_eq] at this
  refine ⟨this.1, ?_⟩
  rcases this.2 with h | h
  · rw [hg] at h; exact absurd h (by simp)
  · exact h

theorem restOK_of_op {op : Wire.Str} (h1 : opOK op = true) (h2 : op ≠ ['.']) : restOK (Tok.op op) = true := by
  have := opOK_spec h1
  simp [restOK, this.2.2.2.1, h2, this.2.2.2.2.1, this.2.2.2.2.2.1]

/-- an operator token of a level stops every level that does not have it -/
theorem lvstop_other_op (cpp : Bool) (lv' : Level) (op : Wire.Str) (r : List Tok) (hnone : lookupOp op lv'.ops = none)
    (h1 : op ≠ ['?']) (h2 : op ≠ [':']) (a : Nat) : LvStop cpp lv' a (Tok.op op :: r) := by
  constructor
  · simp [Level.step, hnone]
  · intro _
    constructor
    · simp [h1]
    · intro hc; simp at hc; exact absurd hc h2

theorem claim_bin_left {L : Ladder} (hL : L.WF = true) (cpp : Bool) (lv : Level) (below : List Level)
    (hsuf : Suffix L (lv :: below)) (hk : lv.kind = .left) (op : Wire.Str) (g : Guard)
    (hlook : lookupOp op lv.ops = some g) (hg : g.binary = true) (l r : PExpr) (hsr : S1 r = true)
    (ihl : Claim L cpp l (lv :: below)) (ihr : Claim L cpp r below) : Claim L cpp (bin op l r) (lv :: below) := by
  intro N a d pre rest stk hN hd hc hdecl hcol hr hbelow _
  obtain ⟨hop, hdot⟩ := entry_spec hL (hsuf.mem (by simp)) hlook hg
  have hops := opOK_spec hop
  have hlist : print (bin op l r) ++ rest = print l ++ Tok.op op :: (print r ++ rest) := by simp [print]
  rw [hlist] at hN hdecl ⊢
  simp only [need] at hd
  simp only [List.length_append, List.length_cons] at hN
  have hbelow' : ∀ lv' ∈ below, ∀ a', LvStop cpp lv' a' (Tok.op op :: (print r ++ rest)) := fun lv' hm a' =>
    lvstop_other_op cpp lv' op _ (wf_distinct hL hsuf hlook hm) hops.1 hops.2.1 a'
  have h1 := ihl N a d pre (Tok.op op :: (print r ++ rest)) stk
    (by simp only [List.length_append, List.length_cons]; omega) (by omega) hc hdecl
    (fun h => by simp only [List.head?_cons, Option.some.injEq, Tok.op.injEq] at h; exact absurd h hops.2.1)
    (fun t h => by simp only [List.head?_cons, Option.some.injEq] at h; subst h; exact restOK_of_op hop hdot)
    (fun lv' hm => hbelow' lv' (by simpa using hm) 0)
    (fun lv'' below'' h hk' => by
      simp only [List.cons.injEq] at h; rw [← h.1, hk] at hk'; exact absurd hk' (by simp))
  rw [h1]
  obtain ⟨t', r', hp, ht'⟩ := head_print r hsr
  -- the right operand, one level down and one callback deeper
  have h2 := ihr N a (d + 1) (Tok.op op :: ((print l).reverse ++ pre)) rest (⟨pre.length + rootOff l, toAst l⟩ :: stk)
    (by simp only [List.length_append]; omega) (by omega) (ctxOK_opOK _ hop) (Or.inr (fun h => by simp at h))
    (fun h => by
      have := hcol h
      simp only [topFree, Bool.and_eq_true] at this; exact this.2)
    hr
    (fun lv' hm => hbelow lv' (by
      cases below with
      | nil => simp at hm
      | cons m ms => simp only [List.tail_cons] at hm ⊢; exact List.mem_cons_of_mem _ hm))
    (fun lv'' below'' h hk' => (hbelow lv'' (by simp [h])).noRA hk')
  rw [K_done L cpp N below (d + 1) _ (fun lv'' below'' h => (hbelow lv'' (by simp [h])).weaken a)] at h2
  rw [step_left L.maxDepth cpp (primN L cpp N) below hk d (done l pre (Tok.op op :: (print r ++ rest)) stk a)
      (done r (Tok.op op :: ((print l).reverse ++ pre)) rest (⟨pre.length + rootOff l, toAst l⟩ :: stk) a)
      op (Tok.op op) (print r ++ rest) rfl
      (by
        simp only [done, Level.step, hlook]
        exact guard_take cpp g op _ hg hop (opStart_print r hsr rest))
      (by omega) (by simp [hp]) h2 (by simp only [done, List.length_cons, List.length_append]; omega)]
  simp only [done, combine2, St.pos, print, rootOff, toAst, List.reverse_append, List.reverse_cons, List.append_assoc,
    List.singleton_append, List.cons_append, List.nil_append, List.length_append, List.length_reverse]
  have : (print l).length + pre.length = pre.length + (print l).length := by omega
  rw [this]

theorem tail_mem {α} {x : α} {l : List α} (h : x ∈ l.tail) : x ∈ l := by
  cases l with
  | nil => simp at h
  | cons a t => exact List.mem_cons_of_mem _ h

theorem claim_bin_assign {L : Ladder} (hL : L.WF = true) (cpp : Bool) (lv : Level) (below : List Level)
    (hsuf : Suffix L (lv :: below)) (hk : lv.kind = .assignTernary) (op : Wire.Str) (g : Guard)
    (hlook : lookupOp op lv.ops = some g) (hg : g.binary = true) (l r : PExpr) (hsr : S1 r = true)
    (ihl : Claim L cpp l below) (ihr : Claim L cpp r (lv :: below)) : Claim L cpp (bin op l r) (lv :: below) := by
  intro N a d pre rest stk hN hd hc hdecl hcol hr hbelow hnora
  have hnora := hnora lv below rfl hk
  obtain ⟨hop, hdot⟩ := entry_spec hL (hsuf.mem (by simp)) hlook hg
  have hops := opOK_spec hop
  have hlist : print (bin op l r) ++ rest = print l ++ Tok.op op :: (print r ++ rest) := by simp [print]
  rw [hlist] at hN hdecl ⊢
  simp only [need] at hd
  simp only [List.length_append, List.length_cons] at hN
  have hbelow' : ∀ lv' ∈ below, ∀ a', LvStop cpp lv' a' (Tok.op op :: (print r ++ rest)) := fun lv' hm a' =>
    lvstop_other_op cpp lv' op _ (wf_distinct hL hsuf hlook hm) hops.1 hops.2.1 a'
  have h1 := ihl N a d pre (Tok.op op :: (print r ++ rest)) stk
    (by simp only [List.length_append, List.length_cons]; omega) (by omega) hc hdecl
    (fun h => by simp only [List.head?_cons, Option.some.injEq, Tok.op.injEq] at h; exact absurd h hops.2.1)
    (fun t h => by simp only [List.head?_cons, Option.some.injEq] at h; subst h; exact restOK_of_op hop hdot)
    (fun lv' hm => hbelow' lv' (tail_mem hm) 0)
    (fun lv'' below'' h hk' => (hbelow' lv'' (by simp [h]) 0).noRA hk')
  rw [K_done L cpp N below d _ (fun lv'' below'' h => hbelow' lv'' (by simp [h]) a)] at h1
  rw [ladder_cons_at _ _ _ below hk,
    at_entry L.maxDepth cpp (primN L cpp N) below hk d _ _ h1 (by simp only [done, List.length_append, List.length_cons]; omega)]
  obtain ⟨t', r', hp, ht'⟩ := head_print r hsr
  have h2 := ihr N (a + 1) (d + 1) (Tok.op op :: ((print l).reverse ++ pre)) rest (⟨pre.length + rootOff l, toAst l⟩ :: stk)
    (by simp only [List.length_append]; omega) (by omega) (ctxOK_opOK _ hop) (Or.inr (fun h => by simp at h))
    (fun h => by
      have := hcol h
      simp only [topFree, Bool.and_eq_true] at this; exact this.2)
    hr hbelow (fun lv'' below'' h hk' => by simp only [List.cons.injEq] at h; rw [← h.1]; exact hnora)
  rw [ladder_cons_at _ _ _ below hk] at h2
  rw [K_stop _ _ _ below (d + 1) _ (by
      refine ⟨hnora.1, fun _ => ⟨hnora.2, fun _ => ?_⟩⟩
      simp [done])] at h2
  rw [step_assign L.maxDepth cpp (primN L cpp N) below hk d (done l pre (Tok.op op :: (print r ++ rest)) stk a)
      (done r (Tok.op op :: ((print l).reverse ++ pre)) rest (⟨pre.length + rootOff l, toAst l⟩ :: stk) (a + 1))
      op (Tok.op op) (print r ++ rest) rfl
      (by
        simp only [done, Level.step, hlook]
        exact guard_take cpp g op _ hg hop (opStart_print r hsr rest))
      (by omega) (by simp [hp]) h2 (by simp only [done, List.length_cons, List.length_append]; omega)]
  simp only [done, combine2, St.pos, print, rootOff, toAst, List.reverse_append, List.reverse_cons, List.append_assoc,
    List.singleton_append, List.cons_append, List.nil_append, List.length_append, List.length_reverse, Nat.add_sub_cancel]
  have : (print l).length + pre.length = pre.length + (print l).length := by omega
  rw [this]

theorem restOK_quest : restOK (Tok.op ['?']) = true := by decide
theorem restOK_colon : restOK (Tok.op [':']) = true := by decide

/-- `?` / `:` stop every left-associative level of a well-formed table -/
theorem lvstop_qc {L : Ladder} (hL : L.WF = true) (cpp : Bool) {lv' : Level} (hm : lv' ∈ L.levels) (hk : lv'.kind = .left)
    (s : Wire.Str) (hs : s = ['?'] ∨ s = [':']) (r : List Tok) (a : Nat) : LvStop cpp lv' a (Tok.op s :: r) := by
  constructor
  · have : lookupOp s lv'.ops = none := wf_not_op hL hm (by rcases hs with rfl | rfl <;> decide)
    simp [Level.step, this]
  · intro h; rw [hk] at h; exact absurd h (by simp)

theorem step_qc {L : Ladder} (hL : L.WF = true) (cpp : Bool) {lv : Level} (hm : lv ∈ L.levels)
    (s : Wire.Str) (hs : s = ['?'] ∨ s = [':']) (r : List Tok) : lv.step cpp (Tok.op s :: r) = .stop := by
  have : lookupOp s lv.ops = none := wf_not_op hL hm (by rcases hs with rfl | rfl <;> decide)
  simp [Level.step, this]

theorem claim_tern {L : Ladder} (hL : L.WF = true) (cpp : Bool) (lv : Level) (below : List Level)
    (hsuf : Suffix L (lv :: below)) (hk : lv.kind = .assignTernary) (c t e : PExpr)
    (hst : S1 t = true) (hse : S1 e = true) (htf : topFree t = true)
    (ihc : Claim L cpp c below) (iht : Claim L cpp t (lv :: below)) (ihe : Claim L cpp e (lv :: below)) :
    Claim L cpp (tern c t e) (lv :: below) := by
  intro N a d pre rest stk hN hd hc hdecl hcol hr hbelow hnora
  have hnora := hnora lv below rfl hk
  have hlvm : lv ∈ L.levels := hsuf.mem (by simp)
  have hbl : ∀ lv' ∈ below, lv'.kind = .left := fun lv' hm => wf_below_at hL hsuf hk hm
  have hbm : ∀ lv' ∈ below, lv' ∈ L.levels := fun lv' hm => hsuf.mem (List.mem_cons_of_mem _ hm)
  -- the rest is not a `:` (a conditional expression is not `topFree`)
  have hnc : rest.head? ≠ some (Tok.op [':']) := fun h => by
    have := hcol h; simp [topFree] at this
  have hlist : print (tern c t e) ++ rest = print c ++ Tok.op ['?'] :: (print t ++ Tok.op [':'] :: (print e ++ rest)) := by
    simp [print]
  rw [hlist] at hN hdecl ⊢
  simp only [need] at hd
  simp only [List.length_append, List.length_cons] at hN
  obtain ⟨tt, rt, hpt, htt⟩ := head_print t hst
  obtain ⟨te, re, hpe, hte⟩ := head_print e hse
  -- condition
  have h1 := ihc N a d pre (Tok.op ['?'] :: (print t ++ Tok.op [':'] :: (print e ++ rest))) stk
    (by simp only [List.length_append, List.length_cons]; omega) (by omega) hc hdecl
    (fun h => by simp at h)
    (fun t' h => by simp only [List.head?_cons, Option.some.injEq] at h; subst h; exact restOK_quest)
    (fun lv' hm => lvstop_qc hL cpp (hbm lv' (tail_mem hm)) (hbl lv' (tail_mem hm)) _ (Or.inl rfl) _ 0)
    (fun lv'' below'' h hk' => by
      have := hbl lv'' (by simp [h]); rw [this] at hk'; exact absurd hk' (by simp))
  rw [K_done L cpp N below d _ (fun lv'' below'' h =>
      lvstop_qc hL cpp (hbm lv'' (by simp [h])) (hbl lv'' (by simp [h])) _ (Or.inl rfl) _ _)] at h1
  rw [ladder_cons_at _ _ _ below hk,
    at_entry L.maxDepth cpp (primN L cpp N) below hk d _ _ h1 (by simp only [done, List.length_append, List.length_cons]; omega)]
  -- LvStop of the ternary level itself at the final rest, for any value of state.assign
  have hstop_lv : ∀ a', LvStop cpp lv a' rest := fun a' =>
    ⟨hnora.1, fun _ => ⟨hnora.2, fun h => absurd h hnc⟩⟩
  -- else branch: two callbacks deeper
  have hE := ihe N 0 (d + 2) (Tok.op [':'] :: ((print t).reverse ++ (Tok.op ['?'] :: ((print c).reverse ++ pre)))) rest
    (⟨(Tok.op ['?'] :: ((print c).reverse ++ pre)).length + rootOff t, toAst t⟩ :: ⟨pre.length + rootOff c, toAst c⟩ :: stk)
    (by simp only [List.length_append]; omega) (by omega) (ctxOK_colon _) (Or.inr (fun h => by simp at h))
    (fun h => absurd h hnc) hr hbelow
    (fun lv'' below'' h _ => by simp only [List.cons.injEq] at h; rw [← h.1]; exact hnora)
  rw [ladder_cons_at _ _ _ below hk, K_stop _ _ _ below (d + 2) _ (hstop_lv _)] at hE
  -- middle operand: one callback deeper, state.assign = 0
  have hT := iht N 0 (d + 1) (Tok.op ['?'] :: ((print c).reverse ++ pre)) (Tok.op [':'] :: (print e ++ rest))
    (⟨pre.length + rootOff c, toAst c⟩ :: stk)
    (by simp only [List.length_append, List.length_cons]; omega) (by omega) (ctxOK_quest _) (Or.inr (fun h => by simp at h))
    (fun _ => htf)
    (fun t' h => by simp only [List.head?_cons, Option.some.injEq] at h; subst h; exact restOK_colon)
    (fun lv' hm => lvstop_qc hL cpp (hbm lv' hm) (hbl lv' hm) _ (Or.inr rfl) _ 0)
    (fun lv'' below'' h _ => by
      simp only [List.cons.injEq] at h; rw [← h.1]
      exact ⟨step_qc hL cpp hlvm _ (Or.inr rfl) _, by simp⟩)
  rw [ladder_cons_at _ _ _ below hk] at hT
  -- the `:` iteration inside the callback of `?`
  have hcolon := step_colon L.maxDepth cpp (primN L cpp N) below hk (d + 1)
    (done t (Tok.op ['?'] :: ((print c).reverse ++ pre)) (Tok.op [':'] :: (print e ++ rest)) (⟨pre.length + rootOff c, toAst c⟩ :: stk) 0)
    _ (print e ++ rest) rfl (step_qc hL cpp hlvm _ (Or.inr rfl) _) rfl (by omega) (by simp [hpe]) hE
    (by simp only [done, List.length_cons, List.length_append]; omega)
  rw [hcolon, K_stop _ _ _ below (d + 1) _ (by simpa [done] using hstop_lv 0)] at hT
  -- the `?` iteration
  rw [step_quest L.maxDepth cpp (primN L cpp N) below hk d
      (done c pre (Tok.op ['?'] :: (print t ++ Tok.op [':'] :: (print e ++ rest))) stk a) _
      (print t ++ Tok.op [':'] :: (print e ++ rest)) rfl (step_qc hL cpp hlvm _ (Or.inl rfl) _)
      (by rw [hpt]; simp only [List.cons_append, List.head?_cons, ne_eq, Option.some.injEq]; exact headOK_ne_colon htt) (by omega) (by simp [hpt]) hT
      (by simp only [done, List.length_cons, List.length_append]; omega)]
  simp only [done, combine2, St.pos, print, rootOff, toAst, List.reverse_append, List.reverse_cons, List.append_assoc,
    List.singleton_append, List.cons_append, List.nil_append, List.length_append, List.length_reverse, List.length_cons]
  have : (print c).length + pre.length = pre.length + (print c).length := by omega
  rw [this]

theorem suffix_nil (L : Ladder) : Suffix L [] := ⟨L.levels, by simp⟩

theorem plainPrefix_facts {s : Wire.Str} (h : plainPrefix s = true) :
    isIncDecStr s = false ∧ s ≠ ['.','.','.'] ∧ s ≠ ['.'] ∧ s ≠ ['{'] ∧ s ≠ [':',':'] ∧ isPrefixOpStr s = true ∧
      unopAlways s = false ∧ prevSet (Tok.op s) = true ∧ okOpStr s = true ∧ Tok.inAlphabet (Tok.op s) = true := by
  rcases plainPrefix_cases h with rfl | rfl | rfl | rfl | rfl <;> decide

/-- a prefix operator `- ! ~ * &` in operand position -/
theorem claim_pre (L : Ladder) (cpp : Bool) (op : Wire.Str) (e : PExpr) (hop : plainPrefix op = true) (hs : S1 e = true)
    (ih : Claim L cpp e []) : Claim L cpp (PExpr.pre op e) [] := by
  intro N a d pre rest stk hN hd hc _ hcol hr _ _
  obtain ⟨f1, f2, f3, f4, f5, f6, f7, f8, _, _⟩ := plainPrefix_facts hop
  rw [ladder_nil]
  simp only [K, primN]
  have hlist : print (PExpr.pre op e) ++ rest = Tok.op op :: (print e ++ rest) := by simp [print]
  rw [hlist] at hN ⊢
  simp only [need] at hd
  simp only [List.length_cons] at hN
  obtain ⟨t', r', hp, _⟩ := head_print e hs
  -- the operand, one callback deeper
  have h2 := ih N a (d + 1) (Tok.op op :: pre) rest stk (by omega) (by omega) (ctxOK_op _ _ f8 f1) (Or.inr (fun h => by simp at h))
    (fun h => by
      have := hcol h
      simp only [topFree, Bool.and_eq_true] at this; exact this.2)
    hr (fun lv hm => by simp at hm) (fun lv below h _ => by simp at h)
  rw [ladder_nil] at h2
  simp only [K, primN] at h2
  -- compilePrecedence2 does nothing at the operator token
  rw [p3.eq_1]
  simp only [if_true, p2]
  have hterm : term L.declVarGuard d ⟨pre, Tok.op op :: (print e ++ rest), stk, a⟩ = .ok ⟨pre, Tok.op op :: (print e ++ rest), stk, a⟩ := by
    unfold term; simp [f4, f5]
  rw [hterm]
  simp only [Nat.le_refl, if_true]
  have hloop2 : loop2 L.maxDepth cpp L.declVarGuard (innerN L cpp N) d ⟨pre, Tok.op op :: (print e ++ rest), stk, a⟩ =
      .ok ⟨pre, Tok.op op :: (print e ++ rest), stk, a⟩ := by
    rw [loop2.eq_1]; simp [f1, f2, f3, f4]
  rw [hloop2]
  simp only [Nat.le_refl, if_true]
  -- the loop of compilePrecedence3 takes it as a prefix operator
  rw [p3.eq_1]
  simp only [Bool.false_eq_true, if_false, f6, prefixUnary_of_ctx cpp pre _ _ hc, Bool.and_self, if_true]
  have hsl : (if op = ['*'] then starLook (print e ++ rest) else none) = none := by
    split
    · exact starLook_opStart _ (opStart_print e hs rest)
    · rfl
  rw [hsl]
  simp only [unopWith, show ¬ (d + 1 > L.maxDepth) by omega, if_false, St.next, St.pos]
  have hne : (print e ++ rest).isEmpty = false := by rw [hp]; rfl
  simp only [hne, Bool.false_eq_true, if_false, List.length_cons, show (print e ++ rest).length < (print e ++ rest).length + 1 by omega, if_true]
  rw [h2]
  simp only [done, combine1, f7, Bool.false_or, List.length_cons,
    show pre.length < pre.length + 1 + rootOff e by omega, decide_true, if_true,
    show rest.length < (print e ++ rest).length + 1 by simp only [List.length_append]; omega]
  rw [p3loop_stop L.maxDepth cpp L.declVarGuard (innerN L cpp N) d _ hr (endsOp_print cpp e hs _)]
  simp [print, rootOff, toAst]

theorem gram_bin_skip (L : Ladder) (pp : Bool) (a0 : Level) (more : List Level) (op : Wire.Str) (l r : PExpr)
    (h : levelHas a0 op = false) : Gram L pp (a0 :: more) (bin op l r) = Gram L pp more (bin op l r) := by
  simp [Gram, findLevel, h]

theorem gram_tern_skip (L : Ladder) (pp : Bool) (a0 : Level) (more : List Level) (c t e : PExpr)
    (h : a0.kind ≠ .assignTernary) : Gram L pp (a0 :: more) (tern c t e) = Gram L pp more (tern c t e) := by
  simp [Gram, findTern, h]

/-- the heart: every tree of the (post-prepareTernaryOpForAST) grammar is parsed back, at every level -/
theorem main_claim {L : Ladder} (hL : L.WF = true) (cpp : Bool) : ∀ (e : PExpr), (L.declVarGuard = true ∨ declOK e = true) →
    ∀ ls, Suffix L ls → Gram L true ls e = true → Claim L cpp e ls := by
  intro e
  induction e with
  | var s =>
    intro _ ls _ _
    have := claim_lift L cpp _ [] (claim_var L cpp s) ls
    simpa using this
  | num s =>
    intro _ ls _ _
    have := claim_lift L cpp _ [] (claim_num L cpp s) ls
    simpa using this
  | paren e ih =>
    intro hd ls _ hg
    have hd1 : L.declVarGuard = true ∨ declOK e = true :=
      hd.imp id (fun h => by simp only [declOK, Bool.and_eq_true] at h; exact h.1)
    have hd2 : L.declVarGuard = true ∨ declHead (print e ++ [Tok.rp]) = true :=
      hd.imp id (fun h => by simp only [declOK, Bool.and_eq_true] at h; exact h.2)
    simp only [Gram] at hg
    have h0 := claim_paren L cpp e (gram_S1 L true e _ hg) hd2 (ih hd1 L.levels (Suffix.refl L) hg)
    have := claim_lift L cpp _ [] h0 ls
    simpa using this
  | bin op l r ihl ihr =>
    intro hd0 ls
    have hd : (L.declVarGuard = true ∨ declOK l = true) ∧ (L.declVarGuard = true ∨ declOK r = true) :=
      ⟨hd0.imp id (fun h => by simp only [declOK, Bool.and_eq_true] at h; exact h.1),
       hd0.imp id (fun h => by simp only [declOK, Bool.and_eq_true] at h; exact h.2)⟩
    induction ls with
    | nil => intro _ hg; simp [Gram, findLevel] at hg
    | cons a0 more ihls =>
      intro hsuf hg
      cases hh : levelHas a0 op with
      | false =>
        rw [gram_bin_skip L true a0 more op l r hh] at hg
        exact claim_descend L cpp _ a0 more (ihls hsuf.tail hg)
      | true =>
        simp only [Gram, findLevel, hh, if_true, Bool.and_eq_true] at hg
        have hsome : ∃ g, lookupOp op a0.ops = some g := by
          simp only [levelHas, Option.isSome_iff_exists] at hh; exact hh
        obtain ⟨g, hlook⟩ := hsome
        rw [hlook] at hg
        cases hk : a0.kind with
        | left =>
          simp only [hk, Bool.and_eq_true] at hg
          exact claim_bin_left hL cpp a0 more hsuf hk op g hlook hg.1 l r (gram_S1 L true r _ hg.2.2)
            (ihl hd.1 _ hsuf hg.2.1) (ihr hd.2 _ hsuf.tail hg.2.2)
        | assignTernary =>
          simp only [hk, Bool.and_eq_true] at hg
          exact claim_bin_assign hL cpp a0 more hsuf hk op g hlook hg.1 l r (gram_S1 L true r _ hg.2.2)
            (ihl hd.1 _ hsuf.tail hg.2.1) (ihr hd.2 _ hsuf hg.2.2)
  | tern c t e ihc iht ihe =>
    intro hd0 ls
    have hd : ((L.declVarGuard = true ∨ declOK c = true) ∧ (L.declVarGuard = true ∨ declOK t = true)) ∧
        (L.declVarGuard = true ∨ declOK e = true) :=
      ⟨⟨hd0.imp id (fun h => by simp only [declOK, Bool.and_eq_true] at h; exact h.1.1),
        hd0.imp id (fun h => by simp only [declOK, Bool.and_eq_true] at h; exact h.1.2)⟩,
       hd0.imp id (fun h => by simp only [declOK, Bool.and_eq_true] at h; exact h.2)⟩
    induction ls with
    | nil => intro _ hg; simp [Gram, findTern] at hg
    | cons a0 more ihls =>
      intro hsuf hg
      by_cases hk : a0.kind = .assignTernary
      · simp only [Gram, findTern, hk, if_true, Bool.and_eq_true] at hg
        exact claim_tern hL cpp a0 more hsuf hk c t e (gram_S1 L true t _ hg.1.2.2) (gram_S1 L true e _ hg.2) hg.1.2.1
          (ihc hd.1.1 _ hsuf.tail hg.1.1) (iht hd.1.2 _ hsuf hg.1.2.2) (ihe hd.2 _ hsuf hg.2)
      · rw [gram_tern_skip L true a0 more c t e hk] at hg
        exact claim_descend L cpp _ a0 more (ihls hsuf.tail hg)
  | pre op e ih =>
    intro hd0 ls _ hg
    have hd : L.declVarGuard = true ∨ declOK e = true := hd0.imp id (fun h => by simpa only [declOK] using h)
    simp only [Gram, Bool.and_eq_true] at hg
    have h0 := claim_pre L cpp op e hg.1 (gram_S1 L true e _ hg.2) (ih hd [] (suffix_nil L) hg.2)
    have := claim_lift L cpp _ [] h0 ls
    simpa using this
  | post op e _ => intro _ ls _ hg; simp [Gram] at hg
  | cast ty k e _ => intro _ ls _ hg; simp [Gram] at hg
  | index a i _ _ => intro _ ls _ hg; simp [Gram] at hg
  | member a m _ => intro _ ls _ hg; simp [Gram] at hg
  | call0 f v => intro _ ls _ hg; simp [Gram] at hg
  | call f v a _ => intro _ ls _ hg; simp [Gram] at hg

theorem findLevel_mem {op : Wire.Str} : ∀ {ls : List Level} {lv : Level} {below : List Level},
    findLevel op ls = some (lv, below) → lv ∈ ls ∧ levelHas lv op = true := by
  intro ls
  induction ls with
  | nil => intro lv below h; simp [findLevel] at h
  | cons a0 more ih =>
    intro lv below h
    simp only [findLevel] at h
    split at h
    · rename_i hh; simp only [Option.some.injEq, Prod.mk.injEq] at h; rw [← h.1]; exact ⟨by simp, hh⟩
    · have := ih h; exact ⟨List.mem_cons_of_mem _ this.1, this.2⟩

theorem findLevel_suffix {L : Ladder} {op : Wire.Str} : ∀ {ls : List Level} {lv : Level} {below : List Level},
    Suffix L ls → findLevel op ls = some (lv, below) → Suffix L (lv :: below) := by
  intro ls
  induction ls with
  | nil => intro lv below _ h; simp [findLevel] at h
  | cons a0 more ih =>
    intro lv below hs h
    simp only [findLevel] at h
    split at h
    · simp only [Option.some.injEq, Prod.mk.injEq] at h; rw [← h.1, ← h.2]; exact hs
    · exact ih hs.tail h

/-- every token of a grammatical tree is in the model's alphabet -/
theorem alpha_print {L : Ladder} (hL : L.WF = true) (pp : Bool) : ∀ (e : PExpr) (ls : List Level), Suffix L ls →
    Gram L pp ls e = true → (print e).all Tok.inAlphabet = true := by
  intro e
  induction e with
  | var s => intros; rfl
  | num s => intros; rfl
  | paren e ih =>
    intro ls _ hg
    simp only [Gram] at hg
    have := ih _ (Suffix.refl L) hg
    simp [print, this, Tok.inAlphabet]
  | bin op l r ihl ihr =>
    intro ls hs hg
    simp only [Gram] at hg
    split at hg
    · simp at hg
    · rename_i lv below hf
      have hm := findLevel_mem hf
      have hsuf := findLevel_suffix hs hf
      simp only [Bool.and_eq_true] at hg
      obtain ⟨g, hlook⟩ : ∃ g, lookupOp op lv.ops = some g := by
        have := hm.2; simp only [levelHas, Option.isSome_iff_exists] at this; exact this
      rw [hlook] at hg
      have hop := (entry_spec hL (hs.mem hm.1) hlook hg.1).1
      have hops := opOK_spec hop
      have hopa : Tok.inAlphabet (Tok.op op) = true := by
        simp [Tok.inAlphabet, hops.2.2.2.2.2.1, hops.2.2.2.2.2.2.1, hops.2.2.2.2.2.2.2.1, hops.2.2.2.2.1]
      cases hk : lv.kind with
      | left =>
        simp only [hk, Bool.and_eq_true] at hg
        simp [print, ihl _ hsuf hg.2.1, ihr _ hsuf.tail hg.2.2, hopa]
      | assignTernary =>
        simp only [hk, Bool.and_eq_true] at hg
        simp [print, ihl _ hsuf.tail hg.2.1, ihr _ hsuf hg.2.2, hopa]
  | tern c t e ihc iht ihe =>
    intro ls hs hg
    simp only [Gram] at hg
    split at hg
    · simp at hg
    · rename_i lv below hf
      have hsuf : Suffix L (lv :: below) := by
        clear hg ihc iht ihe
        induction ls with
        | nil => simp [findTern] at hf
        | cons a0 more ih =>
          simp only [findTern] at hf
          split at hf
          · simp only [Option.some.injEq, Prod.mk.injEq] at hf; rw [← hf.1, ← hf.2]; exact hs
          · exact ih hs.tail hf
      simp only [Bool.and_eq_true] at hg
      have ht : (print t).all Tok.inAlphabet = true := by
        cases pp with
        | true => simp only [if_true, Bool.and_eq_true] at hg; exact iht _ hsuf hg.1.2.2
        | false => simp only [Bool.false_eq_true, if_false] at hg; exact iht _ (Suffix.refl L) hg.1.2
      simp [print, ihc _ hsuf.tail hg.1.1, ht, ihe _ hsuf hg.2, Tok.inAlphabet]
  | pre op e ih =>
    intro ls _ hg
    simp only [Gram, Bool.and_eq_true] at hg
    simp [print, ih _ (suffix_nil L) hg.2, (plainPrefix_facts hg.1).2.2.2.2.2.2.2.2.2]
  | post op e _ => intro ls _ hg; simp [Gram] at hg
  | cast ty k e _ => intro ls _ hg; simp [Gram] at hg
  | index a i _ _ => intro ls _ hg; simp [Gram] at hg
  | member a m _ => intro ls _ hg; simp [Gram] at hg
  | call0 f v => intro ls _ hg; simp [Gram] at hg
  | call f v a _ => intro ls _ hg; simp [Gram] at hg

theorem lvstop_end {L : Ladder} (hL : L.WF = true) (cpp : Bool) {lv : Level} (hm : lv ∈ L.levels) (rest : List Tok)
    (hr : endOK rest = true) (a : Nat) : LvStop cpp lv a rest := by
  cases rest with
  | nil => exact ⟨rfl, fun _ => ⟨by simp, by simp⟩⟩
  | cons t r =>
    simp only [endOK, Bool.or_eq_true, beq_iff_eq] at hr
    rcases hr with (rfl | rfl) | rfl
    · exact lvstop_nonop cpp lv a _ r (by simp)
    · exact lvstop_nonop cpp lv a _ r (by simp)
    · exact lvstop_other_op cpp lv [';'] r (wf_not_op hL hm (by decide)) (by decide) (by decide) a

theorem restOK_end (rest : List Tok) (hr : endOK rest = true) : RestOK rest := by
  intro t ht
  cases rest with
  | nil => simp at ht
  | cons t' r =>
    simp only [List.head?_cons, Option.some.injEq] at ht; subst ht
    simp only [endOK, Bool.or_eq_true, beq_iff_eq] at hr
    rcases hr with (rfl | rfl) | rfl <;> decide

/-- createAst (model) on a grammatical token string gives the grammar's tree -/
theorem parse_print {L : Ladder} (hL : L.WF = true) (cpp : Bool) (e : PExpr)
    (hg : Gram L true L.levels e = true) (hd : declFine L e = true) (hn : e.need ≤ L.maxDepth)
    (rest : List Tok) (hr : endOK rest = true) (ha : rest.all Tok.inAlphabet = true) :
    parse L cpp (e.print ++ rest) = .ok ⟨e.print.reverse, rest, [⟨e.rootOff, e.toAst⟩], 0⟩ := by
  unfold parse
  have hal : (e.print ++ rest).all Tok.inAlphabet = true := by
    rw [List.all_append, alpha_print hL true e _ (Suffix.refl L) hg, ha]; rfl
  simp only [hal, if_true]
  obtain ⟨t', r', hp, _⟩ := head_print e (gram_S1 L true e _ hg)
  rw [expr_cons L cpp 0 _ (by omega) (by simp [hp])]
  have hcol : rest.head? ≠ some (Tok.op [':']) := by
    cases rest with
    | nil => simp
    | cons t r =>
      simp only [endOK, Bool.or_eq_true, beq_iff_eq] at hr
      rcases hr with (rfl | rfl) | rfl <;> simp
  have hd' : L.declVarGuard = true ∨ e.declOK = true := by simpa [declFine] using hd
  have h := main_claim hL cpp e hd' L.levels (Suffix.refl L) hg (e.print ++ rest).length 0 0 [] rest []
    (Nat.le_refl _) (by omega) ⟨by simp, by simp⟩ (Or.inr (by simp)) (fun h => absurd h hcol) (restOK_end rest hr)
    (fun lv hm => lvstop_end hL cpp (tail_mem hm) rest hr 0)
    (fun lv below h _ => (lvstop_end hL cpp (by rw [h]; simp) rest hr 0).noRA ‹_›)
  rw [h, K_done L cpp _ L.levels 0 _ (fun lv below h => lvstop_end hL cpp (by rw [h]; simp) rest hr _)]
  simp [done]

theorem findTern_suffix {L : Ladder} : ∀ {ls : List Level} {lv : Level} {below : List Level},
    Suffix L ls → findTern ls = some (lv, below) → Suffix L (lv :: below) ∧ lv.kind = .assignTernary := by
  intro ls
  induction ls with
  | nil => intro lv below _ h; simp [findTern] at h
  | cons a0 more ih =>
    intro lv below hs h
    simp only [findTern] at h
    split at h
    · rename_i hk; simp only [Option.some.injEq, Prod.mk.injEq] at h; rw [← h.1, ← h.2]; exact ⟨hs, hk⟩
    · exact ih hs.tail h

/-- above compileAssignTernary there are only left-associative `,` levels -/
theorem wf_above_at {L : Ladder} (hL : L.WF = true) {above : List Level} {lv : Level} {below : List Level}
    (hab : L.levels = above ++ lv :: below) (hk : lv.kind = .assignTernary) :
    ∀ x ∈ above, x.kind ≠ .assignTernary ∧ ∀ e ∈ x.ops, e.1 = [','] := by
  have hsh := wf_shape hL
  rw [hab] at hsh
  clear hab
  induction above with
  | nil => intro x hx; simp at hx
  | cons y ys ih =>
    simp only [List.cons_append, ternShape] at hsh
    split at hsh
    · simp only [List.all_eq_true, decide_eq_true_eq] at hsh
      have := hsh lv (by simp)
      rw [hk] at this; exact absurd this (by simp)
    · rename_i hy
      simp only [Bool.and_eq_true, List.all_eq_true, decide_eq_true_eq] at hsh
      intro x hx
      rcases List.mem_cons.mp hx with rfl | hx'
      · exact ⟨hy, hsh.1⟩
      · exact ih hsh.2 x hx'

theorem lookupOp_none_of_all {s : Wire.Str} {ops : List (Wire.Str × Guard)} (h : ∀ e ∈ ops, e.1 ≠ s) : lookupOp s ops = none :=
  lookupOp_none_of_not_mem (by
    intro hc
    obtain ⟨e, he, rfl⟩ := List.mem_map.mp hc
    exact h e he rfl)

/-- a `topFree` tree does not need the `,` levels above compileAssignTernary -/
theorem gram_down (L : Ladder) (pp : Bool) (e : PExpr) (htf : topFree e = true) (ls : List Level) :
    ∀ above : List Level, (∀ x ∈ above, x.kind ≠ .assignTernary ∧ ∀ en ∈ x.ops, en.1 = [',']) →
      Gram L pp (above ++ ls) e = Gram L pp ls e := by
  intro above
  induction above with
  | nil => intro _; rfl
  | cons y ys ih =>
    intro h
    have ih' := ih (fun x hx => h x (List.mem_cons_of_mem _ hx))
    cases e with
    | var s => rfl
    | num s => rfl
    | paren e => rfl
    | bin op l r =>
      simp only [topFree, Bool.and_eq_true, bne_iff_ne, ne_eq] at htf
      have hy : levelHas y op = false := by
        simp only [levelHas]
        rw [lookupOp_none_of_all (fun en hen => by rw [(h y (by simp)).2 en hen]; exact fun hc => htf.1.1.1.1 hc.symm)]
        rfl
      rw [List.cons_append, gram_bin_skip L pp y _ op l r hy]; exact ih'
    | tern c t e => simp [topFree] at htf
    | pre op e => rfl
    | post op e => rfl
    | cast ty k e => rfl
    | index a i => rfl
    | member a m => rfl
    | call0 f v => rfl
    | call f v a => rfl

/-- the expression grammar, after prepareTernaryOpForAST: still grammatical, with `topFree` middle operands -/
theorem gram_prep {L : Ladder} (hL : L.WF = true) : ∀ (e : PExpr) (ls : List Level), Suffix L ls →
    Gram L false ls e = true → Gram L true ls (prepE e) = true := by
  intro e
  induction e with
  | var s => intros; rfl
  | num s => intros; rfl
  | paren e ih => intro ls _ hg; simp only [Gram, prepE] at hg ⊢; exact ih _ (Suffix.refl L) hg
  | bin op l r ihl ihr =>
    intro ls hs hg
    simp only [Gram, prepE] at hg ⊢
    split at hg
    · simp at hg
    · rename_i lv below hf
      have hsuf := findLevel_suffix hs hf
      simp only [Bool.and_eq_true] at hg ⊢
      refine ⟨hg.1, ?_⟩
      cases hk : lv.kind with
      | left =>
        simp only [hk, Bool.and_eq_true] at hg ⊢
        exact ⟨ihl _ hsuf hg.2.1, ihr _ hsuf.tail hg.2.2⟩
      | assignTernary =>
        simp only [hk, Bool.and_eq_true] at hg ⊢
        exact ⟨ihl _ hsuf.tail hg.2.1, ihr _ hsuf hg.2.2⟩
  | tern c t e ihc iht ihe =>
    intro ls hs hg
    simp only [Gram, prepE] at hg ⊢
    split at hg
    · simp at hg
    · rename_i lv below hf
      obtain ⟨hsuf, hk⟩ := findTern_suffix hs hf
      simp only [Bool.false_eq_true, if_false, Bool.and_eq_true] at hg
      simp only [if_true, Bool.and_eq_true]
      refine ⟨⟨ihc _ hsuf.tail hg.1.1, ?_⟩, ihe _ hsuf hg.2⟩
      have ht := iht _ (Suffix.refl L) hg.1.2
      cases htf : topFree t with
      | false => simp only [Bool.false_eq_true, if_false, topFree, Gram, true_and]; exact ht
      | true =>
        simp only [if_true, topFree_prepE, htf, true_and]
        obtain ⟨above, hab⟩ := hsuf.ex
        rw [hab] at ht
        rw [gram_down L true _ (by rw [topFree_prepE]; exact htf) _ above (wf_above_at hL hab hk)] at ht
        exact ht
  | pre op e ih =>
    intro ls _ hg
    simp only [Gram, prepE, Bool.and_eq_true] at hg ⊢
    exact ⟨hg.1, ih _ (suffix_nil L) hg.2⟩
  | post op e _ => intro ls _ hg; simp [Gram] at hg
  | cast ty k e _ => intro ls _ hg; simp [Gram] at hg
  | index a i _ _ => intro ls _ hg; simp [Gram] at hg
  | member a m _ => intro ls _ hg; simp [Gram] at hg
  | call0 f v => intro ls _ hg; simp [Gram] at hg
  | call f v a _ => intro ls _ hg; simp [Gram] at hg

theorem toAst_prepE : ∀ e : PExpr, toAst (prepE e) = toAst e := by
  intro e
  induction e with
  | var s => rfl
  | num s => rfl
  | paren e ih => simpa [prepE, toAst] using ih
  | bin op l r ihl ihr => simp [prepE, toAst, ihl, ihr]
  | tern c t e ihc iht ihe =>
    simp only [prepE]
    split <;> simp [toAst, ihc, iht, ihe]
  | pre op e ih => simp [prepE, toAst, ih]
  | post op e ih => simp [prepE, toAst, ih]
  | cast ty k e ih => simp [prepE, toAst, ih]
  | index a i iha ihi => simp [prepE, toAst, iha, ihi]
  | member a m ih => simp [prepE, toAst, ih]
  | call0 f v => rfl
  | call f v a ih => simp [prepE, toAst, ih]

theorem need_prepE : ∀ e : PExpr, need (prepE e) = need e := by
  intro e
  induction e with
  | var s => rfl
  | num s => rfl
  | paren e ih => simpa [prepE, need] using ih
  | bin op l r ihl ihr => simp [prepE, need, ihl, ihr]
  | tern c t e ihc iht ihe =>
    simp only [prepE]
    split <;> simp [need, ihc, iht, ihe]
  | pre op e ih => simp [prepE, need, ih]
  | post op e ih => simp [prepE, need, ih]
  | cast ty k e ih => simpa [prepE, need] using ih
  | index a i iha ihi => simp [prepE, need, iha, ihi]
  | member a m ih => simp [prepE, need, ih]
  | call0 f v => rfl
  | call f v a ih => simpa [prepE, need] using ih

theorem toAst_strip : ∀ e : PExpr, toAst (strip e) = toAst e := by
  intro e
  induction e with
  | var s => rfl
  | num s => rfl
  | paren e ih => simpa [strip, toAst] using ih
  | bin op l r ihl ihr => simp [strip, toAst, ihl, ihr]
  | tern c t e ihc iht ihe => simp [strip, toAst, ihc, iht, ihe]
  | pre op e ih => simp [strip, toAst, ih]
  | post op e ih => simp [strip, toAst, ih]
  | cast ty k e ih => simp [strip, toAst, ih]
  | index a i iha ihi => simp [strip, toAst, iha, ihi]
  | member a m ih => simp [strip, toAst, ih]
  | call0 f v => rfl
  | call f v a ih => simp [strip, toAst, ih]

/-- operators of a grammatical tree are not `? : ;` -/
theorem plain_of_gram {L : Ladder} (hL : L.WF = true) (pp : Bool) : ∀ (e : PExpr) (ls : List Level), Suffix L ls →
    Gram L pp ls e = true → plain e = true := by
  intro e
  induction e with
  | var s => intros; rfl
  | num s => intros; rfl
  | paren e ih => intro ls _ hg; simp only [Gram] at hg; exact ih _ (Suffix.refl L) hg
  | bin op l r ihl ihr =>
    intro ls hs hg
    simp only [Gram] at hg
    split at hg
    · simp at hg
    · rename_i lv below hf
      have hm := findLevel_mem hf
      have hsuf := findLevel_suffix hs hf
      simp only [Bool.and_eq_true] at hg
      obtain ⟨g, hlook⟩ : ∃ g, lookupOp op lv.ops = some g := by
        have := hm.2; simp only [levelHas, Option.isSome_iff_exists] at this; exact this
      rw [hlook] at hg
      have hops := opOK_spec (entry_spec hL (hs.mem hm.1) hlook hg.1).1
      have hok : okOpStr op = true := by simp [okOpStr, hops.1, hops.2.1, hops.2.2.1]
      cases hk : lv.kind with
      | left =>
        simp only [hk, Bool.and_eq_true] at hg
        simp [plain, hok, ihl _ hsuf hg.2.1, ihr _ hsuf.tail hg.2.2]
      | assignTernary =>
        simp only [hk, Bool.and_eq_true] at hg
        simp [plain, hok, ihl _ hsuf.tail hg.2.1, ihr _ hsuf hg.2.2]
  | tern c t e ihc iht ihe =>
    intro ls hs hg
    simp only [Gram] at hg
    split at hg
    · simp at hg
    · rename_i lv below hf
      obtain ⟨hsuf, _⟩ := findTern_suffix hs hf
      simp only [Bool.and_eq_true] at hg
      have ht : plain t = true := by
        cases pp with
        | true => simp only [if_true, Bool.and_eq_true] at hg; exact iht _ hsuf hg.1.2.2
        | false => simp only [Bool.false_eq_true, if_false] at hg; exact iht _ (Suffix.refl L) hg.1.2
      simp [plain, ihc _ hsuf.tail hg.1.1, ht, ihe _ hsuf hg.2]
  | pre op e ih =>
    intro ls _ hg
    simp only [Gram, Bool.and_eq_true] at hg
    simp [plain, ih _ (suffix_nil L) hg.2, (plainPrefix_facts hg.1).2.2.2.2.2.2.2.2.1]
  | post op e _ => intro ls _ hg; simp [Gram] at hg
  | cast ty k e _ => intro ls _ hg; simp [Gram] at hg
  | index a i _ _ => intro ls _ hg; simp [Gram] at hg
  | member a m _ => intro ls _ hg; simp [Gram] at hg
  | call0 f v => intro ls _ hg; simp [Gram] at hg
  | call f v a _ => intro ls _ hg; simp [Gram] at hg

theorem prep_flat (rest : List Tok) (h : ∀ t ∈ rest, t ≠ Tok.op ['?']) : prep rest = rest := by
  induction rest with
  | nil => exact prep.eq_1
  | cons t r ih =>
    rw [prep_cons_ne t (h t (by simp)), ih (fun t' ht' => h t' (by simp [ht']))]

/-- the whole pipeline of the model on a string of the expression grammar -/
theorem astOf_print {L : Ladder} (hL : L.WF = true) (cpp : Bool) (e : PExpr)
    (hg : Gram L false L.levels e = true) (hd : declFine L (prepE e) = true) (hn : e.need ≤ L.maxDepth)
    (rest : List Tok) (hr : endOK rest = true) (ha : rest.all Tok.inAlphabet = true) (hq : ∀ t ∈ rest, t ≠ Tok.op ['?']) :
    astOf L cpp (e.print ++ rest) =
      .ok ⟨(prepE e).print.reverse, rest, [⟨(prepE e).rootOff, e.toAst⟩], 0⟩ := by
  have hpl := plain_of_gram hL false e _ (Suffix.refl L) hg
  unfold astOf
  rw [prep_print e hpl, prep_flat rest hq, prep_print (prepE e) (by rw [plain_prepE]; exact hpl), prep_flat rest hq, prepE_idem]
  rw [parse_print hL cpp (prepE e) (gram_prep hL e _ (Suffix.refl L) hg) hd (by rw [need_prepE]; exact hn) rest hr ha, toAst_prepE]

theorem findLevel_skip (op : Wire.Str) (above ls : List Level) (h : ∀ x ∈ above, levelHas x op = false) :
    findLevel op (above ++ ls) = findLevel op ls := by
  induction above with
  | nil => rfl
  | cons x xs ih =>
    simp only [List.cons_append, findLevel, h x (by simp), Bool.false_eq_true, if_false]
    exact ih (fun y hy => h y (List.mem_cons_of_mem _ hy))

theorem findTern_skip (above ls : List Level) (h : ∀ x ∈ above, x.kind ≠ .assignTernary) :
    findTern (above ++ ls) = findTern ls := by
  induction above with
  | nil => rfl
  | cons x xs ih =>
    simp only [List.cons_append, findTern, h x (by simp), if_false]
    exact ih (fun y hy => h y (List.mem_cons_of_mem _ hy))

/-- in a well-formed table an operator is found at the same level from every suffix that still contains it -/
theorem findLevel_unique {L : Ladder} (hL : L.WF = true) {op : Wire.Str} {ls : List Level} (hs : Suffix L ls)
    {r : Level × List Level} (h : findLevel op ls = some r) : findLevel op L.levels = some r := by
  obtain ⟨above, hab⟩ := hs.ex
  rw [hab, findLevel_skip op above ls, h]
  intro x hx
  obtain ⟨lv, below⟩ := r
  have hm := findLevel_mem h
  cases hh : levelHas x op with
  | false => rfl
  | true =>
    exfalso
    have hn := wf_nodup hL
    rw [hab, allOps_append] at hn
    have hdis := (List.nodup_append.mp hn).2.2
    have h1 : op ∈ allOps above := by
      obtain ⟨g, hg⟩ := Option.isSome_iff_exists.mp hh
      exact mem_allOps hx (List.mem_map.mpr ⟨(op, g), lookupOp_mem hg, rfl⟩)
    have h2 : op ∈ allOps ls := by
      obtain ⟨g, hg⟩ := Option.isSome_iff_exists.mp hm.2
      exact mem_allOps hm.1 (List.mem_map.mpr ⟨(op, g), lookupOp_mem hg, rfl⟩)
    exact hdis op h1 op h2 rfl

theorem findTern_unique {L : Ladder} (hL : L.WF = true) {ls : List Level} (hs : Suffix L ls)
    {r : Level × List Level} (h : findTern ls = some r) : findTern L.levels = some r := by
  obtain ⟨lv, below⟩ := r
  obtain ⟨hsuf, hk⟩ := findTern_suffix hs h
  obtain ⟨above, hab⟩ := hs.ex
  rw [hab, findTern_skip above ls, h]
  intro x hx hkx
  -- an assignTernary level in `above` forces every later level (so `lv`) to be left-associative
  obtain ⟨above2, hab2⟩ := hsuf.ex
  obtain ⟨pre1, post1, hsplit⟩ := List.append_of_mem hx
  have hlv : lv ∈ post1 ++ ls := by
    have : lv ∈ ls := by
      clear hab hsuf
      induction ls with
      | nil => simp [findTern] at h
      | cons a0 more ih =>
        simp only [findTern] at h
        split at h
        · simp only [Option.some.injEq, Prod.mk.injEq] at h; rw [← h.1]; simp
        · exact List.mem_cons_of_mem _ (ih hs.tail h)
    exact List.mem_append_right _ this
  have hsx : Suffix L (x :: (post1 ++ ls)) := ⟨pre1, by rw [hab, hsplit]; simp⟩
  have := wf_below_at hL hsx hkx hlv
  rw [hk] at this; exact absurd this (by simp)

theorem gram_bin_of_find (L : Ladder) (pp : Bool) (ls : List Level) (op : Wire.Str) (l r : PExpr) (lv : Level) (below : List Level)
    (hf : findLevel op ls = some (lv, below)) :
    Gram L pp ls (bin op l r) =
      ((match lookupOp op lv.ops with | some g => g.binary | none => false) &&
       (match lv.kind with
        | .left => Gram L pp (lv :: below) l && Gram L pp below r
        | .assignTernary => Gram L pp below l && Gram L pp (lv :: below) r)) := by
  simp only [Gram, hf]
  cases lookupOp op lv.ops <;> cases lv.kind <;> rfl

theorem gram_tern_of_find (L : Ladder) (ls : List Level) (c t e : PExpr) (lv : Level) (below : List Level)
    (hf : findTern ls = some (lv, below)) :
    Gram L false ls (tern c t e) = (Gram L false below c && Gram L false L.levels t && Gram L false (lv :: below) e) := by
  simp only [Gram, hf, Bool.false_eq_true, if_false]

/-- the minimally parenthesised print of a tree over the table is a string of the grammar, at every level -/
theorem gram_minParen {L : Ladder} (hL : L.WF = true) : ∀ (e : PExpr), over L e = true → ∀ ls, Suffix L ls →
    Gram L false ls (minParen L ls e) = true := by
  intro e
  induction e with
  | var s => intros; rfl
  | num s => intros; rfl
  | paren e _ => intro h; simp [over] at h
  | bin op l r ihl ihr =>
    intro ho ls hs
    simp only [over, Bool.and_eq_true] at ho
    obtain ⟨⟨ho1, hol⟩, hor⟩ := ho
    cases hf : findLevel op L.levels with
    | none => simp [hf] at ho1
    | some res =>
      obtain ⟨lv, below⟩ := res
      rw [hf] at ho1
      have hsuf := findLevel_suffix (Suffix.refl L) hf
      simp only [minParen, hf]
      -- the body is grammatical wherever the operator's level is found
      have hbody : ∀ ls', findLevel op ls' = some (lv, below) →
          Gram L false ls' (match lv.kind with
            | .left => bin op (minParen L (lv :: below) l) (minParen L below r)
            | .assignTernary => bin op (minParen L below l) (minParen L (lv :: below) r)) = true := by
        intro ls' hf'
        cases hk : lv.kind with
        | left =>
          simp only
          rw [gram_bin_of_find L false ls' op _ _ lv below hf']
          simp only [hk, Bool.and_eq_true]
          exact ⟨ho1, ihl hol _ hsuf, ihr hor _ hsuf.tail⟩
        | assignTernary =>
          simp only
          rw [gram_bin_of_find L false ls' op _ _ lv below hf']
          simp only [hk, Bool.and_eq_true]
          exact ⟨ho1, ihl hol _ hsuf.tail, ihr hor _ hsuf⟩
      cases hfl : findLevel op ls with
      | none =>
        simp only [Option.isSome_none, Bool.false_eq_true, if_false, Gram]
        exact hbody _ hf
      | some res' =>
        simp only [Option.isSome_some, if_true]
        have := findLevel_unique hL hs hfl
        rw [hf] at this
        simp only [Option.some.injEq] at this
        rw [← this] at hfl
        exact hbody _ hfl
  | tern c t e ihc iht ihe =>
    intro ho ls hs
    simp only [over, Bool.and_eq_true] at ho
    obtain ⟨⟨⟨ho1, hoc⟩, hot⟩, hoe⟩ := ho
    cases hf : findTern L.levels with
    | none => simp [hf] at ho1
    | some res =>
      obtain ⟨lv, below⟩ := res
      obtain ⟨hsuf, _⟩ := findTern_suffix (Suffix.refl L) hf
      simp only [minParen, hf]
      have hbody : ∀ ls', findTern ls' = some (lv, below) →
          Gram L false ls' (tern (minParen L below c) (minParen L L.levels t) (minParen L (lv :: below) e)) = true := by
        intro ls' hf'
        rw [gram_tern_of_find L ls' _ _ _ lv below hf']
        simp only [Bool.and_eq_true]
        exact ⟨⟨ihc hoc _ hsuf.tail, iht hot _ (Suffix.refl L)⟩, ihe hoe _ hsuf⟩
      cases hfl : findTern ls with
      | none =>
        simp only [Option.isSome_none, Bool.false_eq_true, if_false, Gram]
        exact hbody _ hf
      | some res' =>
        simp only [Option.isSome_some, if_true]
        have := findTern_unique hL hs hfl
        rw [hf] at this
        simp only [Option.some.injEq] at this
        rw [← this] at hfl
        exact hbody _ hfl
  | pre op e ih =>
    intro ho ls _
    simp only [over, Bool.and_eq_true] at ho
    simp only [minParen, Gram, ho.1, ih ho.2 [] (suffix_nil L), Bool.and_self]
  | post op e _ => intro h; simp [over] at h
  | cast ty k e _ => intro h; simp [over] at h
  | index a i _ _ => intro h; simp [over] at h
  | member a m _ => intro h; simp [over] at h
  | call0 f v => intro h; simp [over] at h
  | call f v a _ => intro h; simp [over] at h

theorem strip_minParen (L : Ladder) : ∀ (e : PExpr), over L e = true → ∀ ls, strip (minParen L ls e) = e := by
  intro e
  induction e with
  | var s => intros; rfl
  | num s => intros; rfl
  | paren e _ => intro h; simp [over] at h
  | bin op l r ihl ihr =>
    intro ho ls
    simp only [over, Bool.and_eq_true] at ho
    simp only [minParen]
    split
    · rename_i heq; rw [heq] at ho; simp at ho
    · rename_i lv below _
      cases hk : lv.kind <;> split <;> simp [strip, ihl ho.1.2, ihr ho.2]
  | tern c t e ihc iht ihe =>
    intro ho ls
    simp only [over, Bool.and_eq_true] at ho
    simp only [minParen]
    split
    · rename_i heq; rw [heq] at ho; simp at ho
    · split <;> simp [strip, ihc ho.1.1.2, iht ho.1.2, ihe ho.2]
  | pre op e ih =>
    intro ho ls
    simp only [over, Bool.and_eq_true] at ho
    simp [minParen, strip, ih ho.2]
  | post op e _ => intro h; simp [over] at h
  | cast ty k e _ => intro h; simp [over] at h
  | index a i _ _ => intro h; simp [over] at h
  | member a m _ => intro h; simp [over] at h
  | call0 f v => intro h; simp [over] at h
  | call f v a _ => intro h; simp [over] at h

theorem need_strip : ∀ e : PExpr, need (strip e) = need e := by
  intro e
  induction e with
  | var s => rfl
  | num s => rfl
  | paren e ih => simpa [strip, need] using ih
  | bin op l r ihl ihr => simp [strip, need, ihl, ihr]
  | tern c t e ihc iht ihe => simp [strip, need, ihc, iht, ihe]
  | pre op e ih => simp [strip, need, ih]
  | post op e ih => simp [strip, need, ih]
  | cast ty k e ih => simpa [strip, need] using ih
  | index a i iha ihi => simp [strip, need, iha, ihi]
  | member a m ih => simp [strip, need, ih]
  | call0 f v => rfl
  | call f v a ih => simpa [strip, need] using ih

/-- the ladder only looks at its start state through the first call of the operand parser -/
theorem ladder_congr_first (M : Nat) (cpp : Bool) (prim : Nat → St → R) (d : Nat) (st st' : St)
    (hp : ∀ r, prim d st' = .ok r → prim d st = .ok r) (hl : st'.inp.length ≤ st.inp.length) :
    ∀ (ls : List Level) (r : St), ladder M cpp prim ls d st' = .ok r → ladder M cpp prim ls d st = .ok r := by
  intro ls
  induction ls with
  | nil => intro r h; rw [ladder_nil] at h ⊢; exact hp r h
  | cons lv below ih =>
    intro r h
    cases hk : lv.kind with
    | left =>
      rw [ladder_cons_left M cpp prim below hk] at h ⊢
      cases hb : ladder M cpp prim below d st' with
      | error e => rw [hb] at h; simp at h
      | ok r1 => rw [hb] at h; rw [ih r1 hb]; exact h
    | assignTernary =>
      rw [ladder_cons_at M cpp prim below hk, assignTern.eq_1] at h ⊢
      simp only [if_true] at h ⊢
      cases hb : ladder M cpp prim below d st' with
      | error e => rw [hb] at h; simp at h
      | ok r1 =>
        rw [hb] at h
        rw [ih r1 hb]
        simp only at h ⊢
        by_cases hc : r1.inp.length ≤ st'.inp.length
        · simp only [hc, if_true] at h
          simp only [show r1.inp.length ≤ st.inp.length by omega, if_true]
          exact h
        · simp [hc] at h

/-- when the operand parser is done and no level continues, the whole ladder is done -/
theorem ladder_of_prim (L : Ladder) (cpp : Bool) (N : Nat) (d : Nat) (st st1 : St)
    (hp : primN L cpp N d st = .ok st1) (hl : st1.inp.length ≤ st.inp.length) :
    ∀ ls : List Level, (∀ lv ∈ ls, LvStop cpp lv st1.assign st1.inp) →
      ladder L.maxDepth cpp (primN L cpp N) ls d st = .ok st1 := by
  intro ls
  induction ls with
  | nil => intro _; rw [ladder_nil]; exact hp
  | cons lv below ih =>
    intro h
    rw [descend _ _ _ below d st st1 (ih (fun x hx => h x (List.mem_cons_of_mem _ hx))) hl]
    exact K_stop _ _ _ below d st1 (h lv (by simp))

/-- what the model (and cppcheck) builds for `( a * b = c ) ;`: skipDecl jumps over `a *`, the tree is `=`(b, c) -/
theorem declWitness_parse {L : Ladder} (hL : L.WF = true) (cpp : Bool)
    (hg : Gram L true L.levels (bin ['='] (var ['b']) (var ['c'])) = true) (hM : 1 ≤ L.maxDepth)
    (hgd : L.declVarGuard = false) :
    astOf L cpp (declWitness.print ++ [Tok.op [';']]) =
      .ok ⟨declWitness.print.reverse, [Tok.op [';']], [⟨4, .node ['='] (.leaf ['b']) (.leaf ['c'])⟩], 0⟩ := by
  have hW : declWitness.print ++ [Tok.op [';']] =
      [Tok.lp, Tok.var ['a'], Tok.op ['*'], Tok.var ['b'], Tok.op ['='], Tok.var ['c'], Tok.rp, Tok.op [';']] := rfl
  unfold astOf
  have hnq : ∀ t ∈ [Tok.lp, Tok.var ['a'], Tok.op ['*'], Tok.var ['b'], Tok.op ['='], Tok.var ['c'], Tok.rp, Tok.op [';']], t ≠ Tok.op ['?'] := by decide
  rw [hW, prep_flat _ hnq, prep_flat _ hnq]
  unfold parse
  simp only [show ([Tok.lp, Tok.var ['a'], Tok.op ['*'], Tok.var ['b'], Tok.op ['='], Tok.var ['c'], Tok.rp, Tok.op [';']]).all Tok.inAlphabet = true by decide, if_true]
  rw [expr_cons L cpp 0 _ (by omega) (by simp)]
  -- the inner compileExpression: `a * b = c` behind `(`
  let e1 : PExpr := bin ['='] (var ['b']) (var ['c'])
  let st0 : St := ⟨[Tok.lp], [Tok.var ['a'], Tok.op ['*'], Tok.var ['b'], Tok.op ['='], Tok.var ['c'], Tok.rp, Tok.op [';']], [], 0⟩
  let st0' : St := ⟨[Tok.op ['*'], Tok.var ['a'], Tok.lp], [Tok.var ['b'], Tok.op ['='], Tok.var ['c'], Tok.rp, Tok.op [';']], [], 0⟩
  have hstop : ∀ (t : Tok) (r : List Tok) (a : Nat), (t = Tok.rp ∨ t = Tok.op [';']) → ∀ lv ∈ L.levels, LvStop cpp lv a (t :: r) := by
    intro t r a ht lv hm
    rcases ht with rfl | rfl
    · exact lvstop_nonop cpp lv a _ r (by simp)
    · exact lvstop_other_op cpp lv [';'] r (wf_not_op hL hm (by decide)) (by decide) (by decide) a
  have hclaim := main_claim hL cpp e1 (Or.inr rfl) L.levels (Suffix.refl L) hg 7 0 0
    [Tok.op ['*'], Tok.var ['a'], Tok.lp] [Tok.rp, Tok.op [';']] []
    (by decide) (by simp [e1, need]; omega) (ctxOK_op _ _ (by decide) (by decide)) (Or.inr (by simp)) (by simp)
    (fun t h => by simp only [List.head?_cons, Option.some.injEq] at h; subst h; rfl)
    (fun lv hm => hstop _ _ 0 (Or.inl rfl) lv (tail_mem hm))
    (fun lv below h _ => (hstop _ _ 0 (Or.inl rfl) lv (by rw [h]; simp)).noRA ‹_›)
  rw [K_done L cpp 7 L.levels 0 _ (fun lv below h => hstop _ _ _ (Or.inl rfl) lv (by rw [h]; simp))] at hclaim
  -- compileTerm jumps from `a` to `b` (skipDecl): from there on the two parses coincide
  have hprim : ∀ r, primN L cpp 7 0 st0' = .ok r → primN L cpp 7 0 st0 = .ok r := by
    intro r
    have t0 : term false 0 st0 = .ok ⟨[Tok.var ['b'], Tok.op ['*'], Tok.var ['a'], Tok.lp], [Tok.op ['='], Tok.var ['c'], Tok.rp, Tok.op [';']], [⟨3, .leaf ['b']⟩], 0⟩ := by rfl
    have t0' : term false 0 st0' = .ok ⟨[Tok.var ['b'], Tok.op ['*'], Tok.var ['a'], Tok.lp], [Tok.op ['='], Tok.var ['c'], Tok.rp, Tok.op [';']], [⟨3, .leaf ['b']⟩], 0⟩ := by rfl
    unfold primN
    rw [hgd, p3.eq_1, p3.eq_1 (st := st0)]
    simp only [if_true, p2, t0, t0']
    simp only [st0, st0', List.length_cons, List.length_nil, Nat.reduceAdd, Nat.reduceLeDiff, if_true]
    cases loop2 L.maxDepth cpp false (innerN L cpp 7) 0 _ with
    | error e => intro h; simp at h
    | ok st1 =>
      simp only
      by_cases hc : st1.inp.length ≤ 5
      · simp only [hc, if_true, show st1.inp.length ≤ 7 by omega]; exact id
      · simp [hc]
  have hin : innerN L cpp 8 0 st0 = .ok (done e1 [Tok.op ['*'], Tok.var ['a'], Tok.lp] [Tok.rp, Tok.op [';']] [] 0) := by
    simp only [innerN, st0, List.length_cons, List.length_nil]
    rw [if_pos (by omega), expr_cons L cpp 0 _ (by omega) (by simp)]
    exact ladder_congr_first _ cpp _ 0 st0 st0' hprim (by simp [st0, st0']) L.levels _ hclaim
  have hp3 := p3_paren L.maxDepth cpp L.declVarGuard (innerN L cpp 8) 0 []
    [Tok.var ['a'], Tok.op ['*'], Tok.var ['b'], Tok.op ['='], Tok.var ['c']] [Tok.op [';']] [] _ 0
    (by rfl) (iscast_headOK cpp [] _ _ rfl) ⟨by simp, by simp⟩ hin
    (fun t h => by simp only [List.head?_cons, Option.some.injEq] at h; subst h; rfl)
    (by
      have := endsOp_print cpp declWitness rfl []
      simpa [declWitness, print] using this)
  exact ladder_of_prim L cpp 8 0 _ _ hp3 (by simp) L.levels (fun lv hm => hstop _ _ _ (Or.inr rfl) lv hm)

end Cppcheck.AstLadder

import Cppcheck.Model.SuppressParse
/-
Lemmas about the suppression line parser / printer: decimal round trip and `parseLine ∘ toString`.
-/
namespace Cppcheck.SuppressParse
open Cppcheck.Wire Cppcheck.Glob Cppcheck.Suppress

/-! ### decimal numbers -/

theorem digit_facts : ∀ d, d < 10 →
    digitVal (Char.ofNat (48 + d)) = d ∧ isDigit (Char.ofNat (48 + d)) = true ∧ isSpace (Char.ofNat (48 + d)) = false ∧
    Char.ofNat (48 + d) ≠ '-' ∧ Char.ofNat (48 + d) ≠ '+' ∧ Char.ofNat (48 + d) ≠ ':' ∧ Char.ofNat (48 + d) ≠ '.' ∧
    Char.ofNat (48 + d) ≠ '\n' ∧ (Char.ofNat (48 + d) = '0' ↔ d = 0) := by
  decide

theorem decVal_append (a : Str) (c : Char) : decVal (a ++ [c]) = decVal a * 10 + digitVal c := by
  simp [decVal, List.foldl_append]

/-- characters that can occur in a printed number -/
def numChar (c : Char) : Prop :=
  isDigit c = true ∧ isSpace c = false ∧ c ≠ '-' ∧ c ≠ '+' ∧ c ≠ ':' ∧ c ≠ '.' ∧ c ≠ '\n'

theorem natToDecAux_spec : ∀ (f n : Nat), n ≤ f →
    decVal (natToDecAux f n) = n ∧ (∀ c ∈ natToDecAux f n, numChar c) ∧
    (∃ c r, natToDecAux f n = c :: r ∧ (c = '0' → r = [] ∧ n = 0)) := by
  intro f
  induction f with
  | zero =>
    intro n hn
    have hn0 : n = 0 := by omega
    subst hn0
    obtain ⟨h1, h2, h3, h4, h5, h6, h7, h8, h9⟩ := digit_facts 0 (by omega)
    refine ⟨by simp [natToDecAux, decVal, h1], ?_, ⟨_, [], rfl, fun _ => ⟨rfl, rfl⟩⟩⟩
    intro c hc
    simp only [natToDecAux, List.mem_singleton] at hc
    subst hc
    exact ⟨h2, h3, h4, h5, h6, h7, h8⟩
  | succ f ih =>
    intro n hn
    rw [natToDecAux]
    by_cases h : n < 10
    · simp only [h, if_true]
      obtain ⟨h1, h2, h3, h4, h5, h6, h7, h8, h9⟩ := digit_facts n h
      refine ⟨by simp [decVal, h1], ?_, ⟨_, [], rfl, fun hz => ⟨rfl, h9.1 hz⟩⟩⟩
      intro c hc
      simp only [List.mem_singleton] at hc
      subst hc
      exact ⟨h2, h3, h4, h5, h6, h7, h8⟩
    · simp only [h, if_false]
      obtain ⟨i1, i2, c, r, i3, i4⟩ := ih (n / 10) (by omega)
      obtain ⟨h1, h2, h3, h4, h5, h6, h7, h8, h9⟩ := digit_facts (n % 10) (by omega)
      refine ⟨?_, ?_, ?_⟩
      · rw [decVal_append, i1, h1]; omega
      · intro x hx
        rcases List.mem_append.1 hx with hx | hx
        · exact i2 x hx
        · simp only [List.mem_singleton] at hx
          subst hx
          exact ⟨h2, h3, h4, h5, h6, h7, h8⟩
      · refine ⟨c, r ++ [Char.ofNat (48 + n % 10)], by rw [i3]; rfl, ?_⟩
        intro hz
        have := (i4 hz).2
        omega

theorem natToDec_spec (n : Nat) :
    decVal (natToDec n) = n ∧ (∀ c ∈ natToDec n, numChar c) ∧
    (∃ c r, natToDec n = c :: r ∧ (c = '0' → r = [] ∧ n = 0)) :=
  natToDecAux_spec n n (Nat.le_refl n)

theorem takeWhile_all {p : Char → Bool} : ∀ {l : Str}, (∀ c ∈ l, p c = true) → l.takeWhile p = l := by
  intro l
  induction l with
  | nil => intro _; rfl
  | cons a r ih =>
    intro h
    simp only [List.takeWhile, h a (by simp)]
    rw [ih (fun c hc => h c (List.mem_cons_of_mem _ hc))]

theorem dropWhile_all {p : Char → Bool} : ∀ {l : Str}, (∀ c ∈ l, p c = true) → l.dropWhile p = [] := by
  intro l
  induction l with
  | nil => intro _; rfl
  | cons a r ih =>
    intro h
    simp only [List.dropWhile, h a (by simp)]
    exact ih (fun c hc => h c (List.mem_cons_of_mem _ hc))

theorem strToInt_digits (ds : Str) (c : Char) (r : Str) (hds : ds = c :: r) (hall : ∀ x ∈ ds, numChar x)
    (hz : c = '0' → r = []) (hle : (decVal ds : Int) ≤ intMax) :
    strToInt ds = .ok (decVal ds) := by
  subst hds
  obtain ⟨hd, hs, hm, hp, -, -, -⟩ := hall c (by simp)
  unfold strToInt
  have hbody : (c :: r).dropWhile isSpace = c :: r := by simp [List.dropWhile, hs]
  have hsplit : signSplit (c :: r) = (false, c :: r) := by
    unfold signSplit
    split
    · rename_i heq; simp only [List.cons.injEq] at heq; exact absurd heq.1 hm
    · rename_i heq; simp only [List.cons.injEq] at heq; exact absurd heq.1 hp
    · rfl
  rw [hbody, hsplit]
  have htk : (c :: r).takeWhile isDigit = c :: r := takeWhile_all (fun x hx => (hall x hx).1)
  have hdr : (c :: r).dropWhile isDigit = [] := dropWhile_all (fun x hx => (hall x hx).1)
  have hfront : frontOk (c :: r) = true := by
    unfold frontOk
    by_cases hc0 : c = '0'
    · simp [hd, hz hc0]
    · simp [hd, hc0]
  unfold strToIntCore
  simp only [htk, hdr, hfront]
  have hll : ¬ decVal (c :: r) > llMax := by
    have : (decVal (c :: r) : Int) ≤ 2147483647 := hle
    unfold llMax; omega
  have h3 : ¬ ((decVal (c :: r) : Int) < intMin) := by unfold intMin; omega
  have h4 : ¬ ((decVal (c :: r) : Int) > intMax) := by omega
  simp [hll, h3, h4]

theorem strToInt_neg (ds : Str) (hne : ds ≠ []) (hall : ∀ x ∈ ds, numChar x)
    (hle : (decVal ds : Int) ≤ 2147483648) :
    strToInt ('-' :: ds) = .ok (-(decVal ds : Int)) := by
  unfold strToInt
  have hbody : ('-' :: ds).dropWhile isSpace = '-' :: ds := by simp [List.dropWhile, isSpace]
  have hsplit : signSplit ('-' :: ds) = (true, ds) := rfl
  rw [hbody, hsplit]
  have htk : ds.takeWhile isDigit = ds := takeWhile_all (fun x hx => (hall x hx).1)
  have hdr : ds.dropWhile isDigit = [] := dropWhile_all (fun x hx => (hall x hx).1)
  have he : ds.isEmpty = false := by cases ds with | nil => exact absurd rfl hne | cons _ _ => rfl
  have hfront : frontOk ('-' :: ds) = true := by simp [frontOk, he]
  unfold strToIntCore
  simp only [htk, hdr, hfront, he]
  have hll : ¬ decVal ds > llMax + 1 := by unfold llMax; omega
  have h3 : ¬ (-(decVal ds : Int) < intMin) := by unfold intMin; omega
  have h4 : ¬ (-(decVal ds : Int) > intMax) := by unfold intMax; omega
  simp [hll, h3, h4]

/-- `strToInt<int>(std::to_string(i)) == i` for every `int` -/
theorem strToInt_intToDec (i : Int) (h1 : intMin ≤ i) (h2 : i ≤ intMax) : strToInt (intToDec i) = .ok i := by
  unfold intToDec
  obtain ⟨hv, hall, c, r, hcr, hz⟩ := natToDec_spec i.natAbs
  by_cases hn : i < 0
  · simp only [hn, if_true]
    have hne : natToDec i.natAbs ≠ [] := by rw [hcr]; simp
    have := strToInt_neg (natToDec i.natAbs) hne hall (by rw [hv]; unfold intMin at h1; omega)
    rw [this, hv]
    congr 1
    omega
  · simp only [hn, if_false]
    have := strToInt_digits (natToDec i.natAbs) c r hcr hall (fun h => (hz h).1) (by rw [hv]; omega)
    rw [this, hv]
    congr 1
    omega

theorem intToDec_chars (i : Int) : ∀ c ∈ intToDec i, c ≠ ':' ∧ c ≠ '.' ∧ c ≠ '\n' := by
  intro c hc
  unfold intToDec at hc
  obtain ⟨-, hall, -⟩ := natToDec_spec i.natAbs
  split at hc
  · rcases List.mem_cons.1 hc with h | h
    · subst h; decide
    · have := hall c h; exact ⟨this.2.2.2.2.1, this.2.2.2.2.2.1, this.2.2.2.2.2.2⟩
  · have := hall c hc; exact ⟨this.2.2.2.2.1, this.2.2.2.2.2.1, this.2.2.2.2.2.2⟩

/-! ### splitting -/

theorem splitOn_ne_nil (sep : Char) (s : Str) : splitOn sep s ≠ [] := by
  cases s with
  | nil => simp [splitOn]
  | cons c r =>
    simp only [splitOn]
    split
    · simp
    · split <;> simp

theorem splitOn_noSep (sep : Char) : ∀ (a : Str), (∀ c ∈ a, c ≠ sep) → splitOn sep a = [a] := by
  intro a
  induction a with
  | nil => intro _; rfl
  | cons c r ih =>
    intro h
    simp only [splitOn, h c (by simp), if_false]
    rw [ih (fun x hx => h x (List.mem_cons_of_mem _ hx))]

theorem splitOn_append (sep : Char) : ∀ (a b : Str), (∀ c ∈ a, c ≠ sep) →
    splitOn sep (a ++ sep :: b) = a :: splitOn sep b := by
  intro a
  induction a with
  | nil => intro b _; simp [splitOn]
  | cons c r ih =>
    intro b h
    simp only [List.cons_append, splitOn, h c (by simp), if_false]
    rw [ih b (fun x hx => h x (List.mem_cons_of_mem _ hx))]

theorem takeWhile_append_sep (sep : Char) : ∀ (a b : Str), (∀ c ∈ a, c ≠ sep) →
    (a ++ sep :: b).takeWhile (· ≠ sep) = a ∧ (a ++ sep :: b).dropWhile (· ≠ sep) = sep :: b := by
  intro a
  induction a with
  | nil => intro b _; simp [List.takeWhile, List.dropWhile]
  | cons c r ih =>
    intro b h
    have hc : c ≠ sep := h c (by simp)
    obtain ⟨i1, i2⟩ := ih b (fun x hx => h x (List.mem_cons_of_mem _ hx))
    simp only [List.cons_append, List.takeWhile, List.dropWhile, hc, ne_eq, not_false_eq_true, decide_true]
    exact ⟨by rw [i1], i2⟩

theorem takeWhile_noSep (sep : Char) (a : Str) (h : ∀ c ∈ a, c ≠ sep) :
    a.takeWhile (· ≠ sep) = a ∧ a.dropWhile (· ≠ sep) = [] :=
  ⟨takeWhile_all (fun c hc => by simpa using h c hc), dropWhile_all (fun c hc => by simpa using h c hc)⟩

theorem splitLastColon_append (a d : Str) (hd : ∀ c ∈ d, c ≠ ':') :
    splitLastColon (a ++ ':' :: d) = some (a, d) := by
  unfold splitLastColon
  have hr : (a ++ ':' :: d).reverse = d.reverse ++ ':' :: a.reverse := by simp
  have hd' : ∀ c ∈ d.reverse, c ≠ ':' := fun c hc => hd c (List.mem_reverse.1 hc)
  obtain ⟨t1, t2⟩ := takeWhile_append_sep ':' d.reverse a.reverse hd'
  simp only [hr, t1, t2, List.reverse_reverse]

theorem contains_false_of (s : Str) (x : Char) (h : ∀ c ∈ s, c ≠ x) : s.contains x = false := by
  cases hc : s.contains x with
  | false => rfl
  | true =>
    have : x ∈ s := by simpa using hc
    exact absurd rfl (h x this)

theorem not_mem_of_contains_false {s : Str} {x : Char} (h : s.contains x = false) : ∀ c ∈ s, c ≠ x := by
  intro c hc hcx
  subst hcx
  have : s.contains c = true := by simpa using hc
  rw [h] at this; cases this

/-! ### parseLine ∘ toString -/

/-- the part of the printed form in front of the first '\n' -/
def firstPart (s : Suppr) : Str :=
  s.errorId ++ (if s.fileName.isEmpty then [] else
    ':' :: s.fileName ++ (if s.lineNumber = -1 then [] else ':' :: intToDec s.lineNumber))

def extrasOf (s : Suppr) : List Str :=
  (if s.symbolName.isEmpty then [] else [symbolPrefix ++ s.symbolName]) ++
  (if s.isPolyspace then [polyspaceExtra] else [])

theorem toString_eq (s : Suppr) :
    toString s = firstPart s ++ ((if s.symbolName.isEmpty then [] else '\n' :: symbolPrefix ++ s.symbolName) ++
      (if s.isPolyspace then '\n' :: polyspaceExtra else [])) := by
  unfold toString firstPart
  simp [List.append_assoc]

theorem polyspaceExtra_noNl : ∀ c ∈ polyspaceExtra, c ≠ '\n' := by decide
theorem symbolPrefix_noNl : ∀ c ∈ symbolPrefix, c ≠ '\n' := by decide

theorem split_toString (s : Suppr) (h1 : ∀ c ∈ firstPart s, c ≠ '\n') (h2 : ∀ c ∈ s.symbolName, c ≠ '\n') :
    splitOn '\n' (toString s) = firstPart s :: extrasOf s := by
  rw [toString_eq]
  unfold extrasOf
  have hsym : ∀ c ∈ symbolPrefix ++ s.symbolName, c ≠ '\n' := by
    intro c hc
    rcases List.mem_append.1 hc with hc | hc
    · exact symbolPrefix_noNl c hc
    · exact h2 c hc
  by_cases he : s.symbolName.isEmpty = true <;> by_cases hp : s.isPolyspace = true
  · simp only [he, hp, if_true, List.nil_append]
    rw [splitOn_append _ _ _ h1, splitOn_noSep _ _ polyspaceExtra_noNl]
  · simp only [he, hp, if_true, if_false, List.append_nil, Bool.false_eq_true]
    rw [splitOn_noSep _ _ h1]
  · simp only [he, hp, if_true, if_false, Bool.false_eq_true, List.cons_append]
    rw [splitOn_append _ _ _ h1, splitOn_append _ _ _ hsym, splitOn_noSep _ _ polyspaceExtra_noNl]
    try rfl
  · simp only [he, hp, if_false, Bool.false_eq_true, List.append_nil, List.cons_append]
    rw [splitOn_append _ _ _ h1, splitOn_noSep _ _ hsym]
    try rfl

theorem isPrefixOf_append (a b : Str) : a.isPrefixOf (a ++ b) = true := by
  induction a with
  | nil => simp [List.isPrefixOf]
  | cons c r ih => simp [List.isPrefixOf, ih]

theorem parseExtras_extrasOf (s s1 : Suppr) (h1 : s1.symbolName = []) (h2 : s1.isPolyspace = false) :
    parseExtras (extrasOf s) s1 = .ok { s1 with symbolName := s.symbolName, isPolyspace := s.isPolyspace } := by
  unfold extrasOf
  have hnp : symbolPrefix.isPrefixOf polyspaceExtra = false := by decide
  have hdrop : (symbolPrefix ++ s.symbolName).drop 7 = s.symbolName := by
    have : symbolPrefix.length = 7 := by decide
    rw [← this, List.drop_left]
  by_cases he : s.symbolName.isEmpty = true <;> by_cases hp : s.isPolyspace = true
  · have he' : s.symbolName = [] := by simpa using he
    simp [he, hp, parseExtras, hnp, he', h1]
  · have he' : s.symbolName = [] := by simpa using he
    have hp' : s.isPolyspace = false := by simpa using hp
    cases s1
    simp only at h1 h2
    subst h1 h2
    simp [parseExtras, he', hp']
  · simp [he, hp, parseExtras, isPrefixOf_append, hdrop, hnp]
  · have hp' : s.isPolyspace = false := by simpa using hp
    simp [he, hp', parseExtras, isPrefixOf_append, hdrop, h2]

/-- `parseLine (toString s) = s` (on the printed fields) for every printable suppression -/
theorem parse_print_aux (env : Env) (s : Suppr) (h : printable env s = true) :
    parseLine env (toString s) = .ok (printedFields s) := by
  unfold printable at h
  simp only [Bool.and_eq_true, Bool.not_eq_true', decide_eq_true_eq] at h
  obtain ⟨⟨⟨⟨⟨⟨hc, hi1⟩, hi2⟩, hf⟩, hsy⟩, hsim⟩, hrest⟩ := h
  have hi1 := not_mem_of_contains_false hi1
  have hi2 := not_mem_of_contains_false hi2
  have hf := not_mem_of_contains_false hf
  have hsy := not_mem_of_contains_false hsy
  have hfirstNl : ∀ c ∈ firstPart s, c ≠ '\n' := by
    intro c hcm
    unfold firstPart at hcm
    rcases List.mem_append.1 hcm with hcm | hcm
    · exact hi2 c hcm
    · split at hcm
      · cases hcm
      · rcases List.mem_cons.1 hcm with hcm | hcm
        · subst hcm; decide
        · rcases List.mem_append.1 hcm with hcm | hcm
          · exact hf c hcm
          · split at hcm
            · cases hcm
            · rcases List.mem_cons.1 hcm with hcm | hcm
              · subst hcm; decide
              · exact (intToDec_chars _ c hcm).2.2
  unfold parseLine
  have hstrip : stripComment (toString s) = toString s := by
    unfold stripComment
    have : commentPos (toString s) = none := by
      cases hcp : commentPos (toString s) with
      | none => rfl
      | some k => rw [hcp] at hc; cases hc
    rw [this]
  simp only [hstrip, split_toString s hfirstNl hsy]
  -- the first part
  have key : parseFirst env (firstPart s) =
      .ok { errorId := s.errorId, fileName := s.fileName, lineNumber := s.lineNumber } := by
    unfold parseFirst
    unfold firstPart
    by_cases hfe : s.fileName.isEmpty = true
    · have hfe' : s.fileName = [] := by simpa using hfe
      have hl : s.lineNumber = -1 := by
        rw [if_pos hfe] at hrest; simpa using hrest
      obtain ⟨t1, t2⟩ := takeWhile_noSep ':' s.errorId hi1
      simp only [hfe, if_true, List.append_nil]
      rw [t2]
      simp only [t1]
      rw [hfe', hl]
    · have hfne : s.fileName ≠ [] := by simpa using hfe
      simp only [hfe, if_false, Bool.false_eq_true]
      by_cases hl : s.lineNumber = -1
      · simp only [hl, if_true, List.append_nil]
        obtain ⟨t1, t2⟩ := takeWhile_append_sep ':' s.errorId s.fileName hi1
        rw [t1, t2]
        simp only [hfe, if_false, Bool.false_eq_true]
        have hr : (match splitLastColon s.fileName with | none => true | some (_, post) => post.contains '.') = true := by
          rw [if_neg hfe, if_pos hl] at hrest; exact hrest
        cases hsp : splitLastColon s.fileName with
        | none => simp [hsim]
        | some pp =>
          obtain ⟨pre, post⟩ := pp
          rw [hsp] at hr
          simp only at hr
          have hr' : '.' ∈ post := by simpa using hr
          simp [hr', hsim]
      · simp only [hl, if_false, List.cons_append]
        have hrange : intMin ≤ s.lineNumber ∧ s.lineNumber ≤ intMax := by
          rw [if_neg hfe, if_neg hl] at hrest; simpa using hrest
        obtain ⟨t1, t2⟩ := takeWhile_append_sep ':' s.errorId (s.fileName ++ ':' :: intToDec s.lineNumber) hi1
        rw [t1, t2]
        have hne : (s.fileName ++ ':' :: intToDec s.lineNumber).isEmpty = false := by
          cases hfn : s.fileName with
          | nil => exact absurd hfn hfne
          | cons _ _ => rfl
        simp only [hne, if_false, Bool.false_eq_true]
        rw [splitLastColon_append _ _ (fun c hc => (intToDec_chars _ c hc).1)]
        have hdot : (intToDec s.lineNumber).contains '.' = false :=
          contains_false_of _ _ (fun c hc => (intToDec_chars _ c hc).2.1)
        simp only [hdot, Bool.not_false, if_true, hfe, if_false, Bool.false_eq_true,
          strToInt_intToDec _ hrange.1 hrange.2, hsim]
  rw [key]
  simp only
  rw [parseExtras_extrasOf s _ rfl rfl]
  rfl

/-! ### whole files -/

theorem addSuppressionLine_print (env : Env) (l : List Suppr) (s : Suppr) (h : printable env s = true) :
    addSuppressionLine env l (toString s) =
      (match addSuppression l (printedFields s) with
       | (.ok, l') => (none, l')
       | (e, l') => (some (.add e), l')) := by
  unfold addSuppressionLine
  rw [parse_print_aux env s h]
  rfl

theorem parseLines_print (env : Env) : ∀ (ss : List Suppr) (l : List Suppr),
    (∀ s ∈ ss, printable env s = true ∧ skipLine (toString s) = false) →
    parseLines env (ss.map toString) l = addSeq (ss.map printedFields) l := by
  intro ss
  induction ss with
  | nil => intro l _; rfl
  | cons s r ih =>
    intro l h
    obtain ⟨hp, hk⟩ := h s (by simp)
    simp only [List.map_cons, parseLines, hk, Bool.false_eq_true, if_false, addSeq]
    rw [addSuppressionLine_print env l s hp]
    rcases hadd : addSuppression l (printedFields s) with ⟨e, l'⟩
    cases e <;> simp only []
    exact ih l' (fun s' hs' => h s' (List.mem_cons_of_mem _ hs'))

theorem splitOn_fileOf (lines : List Str) (h : ∀ ln ∈ lines, ∀ c ∈ ln, c ≠ '\n') :
    splitOn '\n' (lines.map fun ln => ln ++ ['\n']).flatten = lines ++ [[]] := by
  induction lines with
  | nil => rfl
  | cons ln r ih =>
    simp only [List.map_cons, List.flatten_cons, List.append_assoc, List.singleton_append, List.cons_append, List.nil_append]
    rw [splitOn_append '\n' ln _ (h ln (by simp)), ih (fun x hx => h x (List.mem_cons_of_mem _ hx))]

theorem parseLines_append_blank (env : Env) : ∀ (lines : List Str) (l : List Suppr),
    parseLines env (lines ++ [[]]) l = parseLines env lines l := by
  intro lines
  induction lines with
  | nil => intro l; simp [parseLines, skipLine]
  | cons ln r ih =>
    intro l
    simp only [List.cons_append, parseLines]
    split
    · exact ih l
    · rcases addSuppressionLine env l ln with ⟨e, l'⟩
      cases e with
      | none => exact ih l'
      | some e => rfl

theorem map_cr_id (d : Str) (h : ∀ c ∈ d, c ≠ '\r') : (d.map fun c => if c = '\r' then '\n' else c) = d := by
  induction d with
  | nil => rfl
  | cons a r ih =>
    simp only [List.map_cons, h a (by simp), if_false]
    rw [ih (fun c hc => h c (List.mem_cons_of_mem _ hc))]

/-- `parseFile` of a file holding one printed suppression per line = adding these suppressions in order -/
theorem parseFile_print_aux (env : Env) (ss : List Suppr) (l : List Suppr)
    (h : ∀ s ∈ ss, printable env s = true ∧ skipLine (toString s) = false ∧
      (toString s).all (fun c => c != '\n' && c != '\r') = true) :
    parseFile env l (fileOf ss) = addSeq (ss.map printedFields) l := by
  unfold parseFile fileOf
  have hnl : ∀ ln ∈ ss.map toString, ∀ c ∈ ln, c ≠ '\n' := by
    intro ln hln c hc
    obtain ⟨s, hs, rfl⟩ := List.mem_map.1 hln
    have := (h s hs).2.2
    simp only [List.all_eq_true, Bool.and_eq_true, bne_iff_ne, ne_eq] at this
    exact (this c hc).1
  have hcr : ∀ c ∈ (ss.map fun s => toString s ++ ['\n']).flatten, c ≠ '\r' := by
    intro c hc
    simp only [List.mem_flatten, List.mem_map] at hc
    obtain ⟨ln, ⟨s, hs, rfl⟩, hc⟩ := hc
    rcases List.mem_append.1 hc with hc | hc
    · have := (h s hs).2.2
      simp only [List.all_eq_true, Bool.and_eq_true, bne_iff_ne, ne_eq] at this
      exact (this c hc).2
    · simp only [List.mem_singleton] at hc; subst hc; decide
  rw [map_cr_id _ hcr]
  have : (ss.map fun s => toString s ++ ['\n']) = (ss.map toString).map fun ln => ln ++ ['\n'] := by
    simp [List.map_map]
  rw [this, splitOn_fileOf _ hnl, parseLines_append_blank]
  exact parseLines_print env ss l (fun s hs => ⟨(h s hs).1, (h s hs).2.1⟩)

/-! ### XML -/

theorem xmlFields_id (env : Env) (t : Str) (r : List (Str × Str)) (s : Suppr) :
    xmlFields env (("id".toList, t) :: r) s = xmlFields env r { s with errorId := t } := by
  rw [xmlFields]; simp

theorem xmlFields_file (env : Env) (t : Str) (r : List (Str × Str)) (s : Suppr) :
    xmlFields env (("fileName".toList, t) :: r) s = xmlFields env r { s with fileName := env.simplify t } := by
  have e1 : ("fileName".toList = "id".toList) = False := by decide
  rw [xmlFields]; simp only [e1, if_false, if_true]

theorem xmlFields_line (env : Env) (t : Str) (n : Int) (r : List (Str × Str)) (s : Suppr) (h : strToInt t = .ok n) :
    xmlFields env (("lineNumber".toList, t) :: r) s = xmlFields env r { s with lineNumber := n } := by
  have e2 : ("lineNumber".toList = "id".toList) = False := by decide
  have e3 : ("lineNumber".toList = "fileName".toList) = False := by decide
  rw [xmlFields]; simp only [e2, e3, if_false, if_true, h]

theorem xmlFields_sym (env : Env) (t : Str) (r : List (Str × Str)) (s : Suppr) :
    xmlFields env (("symbolName".toList, t) :: r) s = xmlFields env r { s with symbolName := t } := by
  have e4 : ("symbolName".toList = "id".toList) = False := by decide
  have e5 : ("symbolName".toList = "fileName".toList) = False := by decide
  have e6 : ("symbolName".toList = "lineNumber".toList) = False := by decide
  rw [xmlFields]; simp only [e4, e5, e6, if_false, if_true]

theorem xmlFields_print (env : Env) (s : Suppr) (h1 : intMin ≤ s.lineNumber) (h2 : s.lineNumber ≤ intMax) :
    xmlFields env (xmlOf s) {} = .ok (xmlFieldsOf env s) := by
  have hline := strToInt_intToDec _ h1 h2
  unfold xmlOf xmlFieldsOf
  by_cases hf : s.fileName.isEmpty = true <;> by_cases hl : s.lineNumber = -1 <;>
    by_cases hs : s.symbolName.isEmpty = true <;>
    simp only [hf, hl, hs, if_true, if_false, Bool.false_eq_true, List.append_nil, List.nil_append, List.singleton_append,
      List.cons_append] <;>
    rw [xmlFields_id] <;>
    (try rw [xmlFields_file]) <;>
    (try rw [xmlFields_line env _ _ _ _ hline]) <;>
    (try rw [xmlFields_sym]) <;>
    rw [xmlFields] <;>
    (try (have hs' : s.symbolName = [] := by simpa using hs)) <;>
    simp_all

theorem parseXml_print_aux (env : Env) : ∀ (ss : List Suppr) (l : List Suppr),
    (∀ s ∈ ss, intMin ≤ s.lineNumber ∧ s.lineNumber ≤ intMax) →
    parseXml env (ss.map fun s => ("suppress".toList, xmlOf s)) l = addSeqX (ss.map (xmlFieldsOf env)) l := by
  intro ss
  induction ss with
  | nil => intro l _; rfl
  | cons s r ih =>
    intro l h
    obtain ⟨h1, h2⟩ := h s (by simp)
    simp only [List.map_cons, parseXml, ne_eq, not_true_eq_false, if_false, xmlFields_print env s h1 h2, addSeqX]
    rcases hadd : addSuppression l (xmlFieldsOf env s) with ⟨e, l'⟩
    cases e <;> simp only []
    exact ih l' (fun s' hs' => h s' (List.mem_cons_of_mem _ hs'))

end Cppcheck.SuppressParse

import Cppcheck.Proofs.Addon
/-
C34 — property theorems about the addon relay model.
-/
namespace Cppcheck.Addon
open Cppcheck.Wire

/-- a well-formed single-location finding line as addons/cppcheckdata.py `reportError` prints it -/
def mkLine (addon errorId msg sev file : Str) (line col : Int) : ObjLine :=
  { fields := [("file".toList, .str file), ("linenr".toList, .int line), ("column".toList, .int col),
               ("severity".toList, .str sev), ("message".toList, .str msg), ("addon".toList, .str addon),
               ("errorId".toList, .str errorId), ("extra".toList, .str [])],
    loc := .absent, metric := none }

def reportable (o : Opts) (sev : Str) : Bool :=
  sevOfStr sev ≠ .none && sevOfStr sev ≠ .internal && o.enabled (sevOfStr sev)

theorem convert_mkLine_gen (o : Opts) (a e m s fl : Str) (l c : Int) :
    convert o (mkLine a e m s fl l c) =
      match decideSev o (a ++ ['-'] ++ e) s with
      | none => .skip
      | some sv => .report ⟨a ++ ['-'] ++ e, sv, m, [⟨fl, l, c, []⟩], none, none⟩ := by
  cases hd : decideSev o (a ++ ['-'] ++ e) s <;>
    simp [convert, locsOf, optInt, mkLine, has, lookup, getStr, getInt] <;> simp_all

/-- **a well-formed line of an enabled severity is relayed with exactly the given fields**:
    id `<addon>-<errorId>`, the location, severity and message the addon gave -/
theorem convert_mkLine (o : Opts) (a e m s fl : Str) (l c : Int) (h : reportable o s = true) :
    convert o (mkLine a e m s fl l c) = .report ⟨a ++ ['-'] ++ e, sevOfStr s, m, [⟨fl, l, c, []⟩], none, none⟩ := by
  simp only [reportable, Bool.and_eq_true, ne_eq] at h
  obtain ⟨⟨h1, h2⟩, h3⟩ := h
  have h1' : sevOfStr s ≠ .none := by simpa using h1
  have h2' : sevOfStr s ≠ .internal := by simpa using h2
  rw [convert_mkLine_gen]
  simp [decideSev, h1', h2', h3]

/-- a line of a disabled (or none/internal) severity is dropped silently -/
theorem convert_mkLine_filtered (o : Opts) (a e m s fl : Str) (l c : Int)
    (h : reportable o s = false) (hlc : endsWith (a ++ ['-'] ++ e) "-logChecker".toList = false) :
    convert o (mkLine a e m s fl l c) = .skip := by
  rw [convert_mkLine_gen]
  have hlc' : endsWith (a ++ '-' :: e) "-logChecker".toList = false := by simpa using hlc
  have hd : decideSev o (a ++ '-' :: e) s = none := by
    unfold decideSev
    by_cases hn : sevOfStr s = .none ∨ sevOfStr s = .internal
    · simp only [if_pos hn, hlc', Bool.false_eq_true, if_false]
    · have hen : o.enabled (sevOfStr s) = false := by
        simp only [reportable, Bool.and_eq_false_iff] at h
        rcases h with (h | h) | h
        · exact absurd (Or.inl (by simpa using h)) hn
        · exact absurd (Or.inr (by simpa using h)) hn
        · exact h
      simp only [if_neg hn, hen, Bool.false_eq_true, if_false]
  simp only [List.append_assoc, List.cons_append, List.nil_append]
  rw [hd]

/-- **each well-formed line exactly once, in order**: an output consisting of well-formed
    finding lines of enabled severities, interleaved arbitrarily with empty, `Checking …` and
    unparsable lines, from an addon that exits with 0, is relayed as exactly those findings -/
theorem relay_wellformed (o : Opts) (hx : o.exitcode = 0) :
    ∀ (items : List (Option (Str × Str × Str × Str × Str × Int × Int) × Line)),
      (∀ it ∈ items, match it.1 with
        | some (a, e, m, s, fl, l, c) => it.2 = .obj (mkLine a e m s fl l c) ∧ reportable o s = true
        | none => it.2.skipped = true) →
      relay o (items.map (·.2)) =
        .ok (items.filterMap fun it => it.1.map fun (a, e, m, s, fl, l, c) =>
          (⟨a ++ ['-'] ++ e, sevOfStr s, m, [⟨fl, l, c, []⟩], none, none⟩ : Finding)) := by
  intro items h
  have hv : ∀ (items : List (Option (Str × Str × Str × Str × Str × Int × Int) × Line)),
      (∀ it ∈ items, match it.1 with
        | some (a, e, m, s, fl, l, c) => it.2 = .obj (mkLine a e m s fl l c) ∧ reportable o s = true
        | none => it.2.skipped = true) →
      ∃ objs, validate (items.map (·.2)) = some objs ∧
        relayObjs o objs = .ok (items.filterMap fun it => it.1.map fun (a, e, m, s, fl, l, c) =>
          (⟨a ++ ['-'] ++ e, sevOfStr s, m, [⟨fl, l, c, []⟩], none, none⟩ : Finding)) := by
    intro items
    induction items with
    | nil => intro _; exact ⟨[], rfl, rfl⟩
    | cons it r ih =>
      intro h
      obtain ⟨objs, hvr, hrr⟩ := ih (fun x hx => h x (by simp [hx]))
      have hit := h it (by simp)
      obtain ⟨tag, ln⟩ := it
      cases tag with
      | none =>
        simp only at hit
        refine ⟨objs, ?_, ?_⟩
        · cases ln <;> simp_all [validate, Line.skipped]
        · simpa using hrr
      | some t =>
        obtain ⟨a, e, m, s, fl, l, c⟩ := t
        simp only at hit
        obtain ⟨hl, hrep⟩ := hit
        refine ⟨mkLine a e m s fl l c :: objs, ?_, ?_⟩
        · simp [hl, validate, hvr]
        · simp [relayObjs, convert_mkLine o a e m s fl l c hrep, hrr]
  obtain ⟨objs, hv1, hv2⟩ := hv items h
  simp [relay, hx, hv1, hv2]

/-- **nothing is invented**: every relayed finding stems from an object line of the output whose
    conversion yields exactly that finding -/
theorem relayObjs_sound (o : Opts) : ∀ (objs : List ObjLine) (f : Finding),
    f ∈ (relayObjs o objs).findings → ∃ ob ∈ objs, convert o ob = .report f := by
  intro objs
  induction objs with
  | nil => intro f h; simp [relayObjs, Outcome.findings] at h
  | cons ob r ih =>
    intro f h
    simp only [relayObjs] at h
    cases hc : convert o ob with
    | throw => rw [hc] at h; simp [Outcome.findings] at h
    | skip =>
      rw [hc] at h
      obtain ⟨ob', hm, hr⟩ := ih f h
      exact ⟨ob', by simp [hm], hr⟩
    | report g =>
      rw [hc] at h
      cases hr : relayObjs o r with
      | ok fs =>
        rw [hr] at h
        simp only [Outcome.findings, List.mem_cons] at h
        rcases h with h | h
        · subst h; exact ⟨ob, by simp, hc⟩
        · obtain ⟨ob', hm, hr'⟩ := ih f (by simp [hr, Outcome.findings, h])
          exact ⟨ob', by simp [hm], hr'⟩
      | failed fs =>
        rw [hr] at h
        simp only [Outcome.findings, List.mem_cons] at h
        rcases h with h | h
        · subst h; exact ⟨ob, by simp, hc⟩
        · obtain ⟨ob', hm, hr'⟩ := ih f (by simp [hr, Outcome.findings, h])
          exact ⟨ob', by simp [hm], hr'⟩

theorem validate_mem : ∀ (ls : List Line) (objs : List ObjLine), validate ls = some objs →
    ∀ ob ∈ objs, Line.obj ob ∈ ls := by
  intro ls
  induction ls with
  | nil => intro objs h ob hm; simp [validate] at h; subst h; simp at hm
  | cons l r ih =>
    intro objs h ob hm
    cases l with
    | notBrace => simp [validate] at h
    | obj o' =>
      simp only [validate, Option.map_eq_some_iff] at h
      obtain ⟨objs', hv, rfl⟩ := h
      simp only [List.mem_cons] at hm
      rcases hm with hm | hm
      · subst hm; simp
      · exact List.mem_cons_of_mem _ (ih objs' hv ob hm)
    | empty => exact List.mem_cons_of_mem _ (ih objs (by simpa [validate] using h) ob hm)
    | checking => exact List.mem_cons_of_mem _ (ih objs (by simpa [validate] using h) ob hm)
    | badJson => exact List.mem_cons_of_mem _ (ih objs (by simpa [validate] using h) ob hm)

theorem relay_sound (o : Opts) (ls : List Line) (f : Finding) (h : f ∈ (relay o ls).findings) :
    ∃ ob, Line.obj ob ∈ ls ∧ convert o ob = .report f := by
  unfold relay at h
  split at h
  · simp [Outcome.findings] at h
  · split at h
    · simp [Outcome.findings] at h
    · rename_i objs hv
      obtain ⟨ob, hm, hc⟩ := relayObjs_sound o objs f h
      exact ⟨ob, validate_mem ls objs hv ob hm, hc⟩

/-! ### one object: any member order, any further members, `file` members or a `loc` array -/

/-- **a finding line with `file`/`linenr`/`column` members** (whatever else the object carries, in whatever
    order): reported under `<addon>-<errorId>` at exactly that location with exactly that message, the decided
    severity, and the cwe / hash members when present -/
theorem convert_file_general (o : Opts) (ob : ObjLine) (a e m s fl : Str) (l c : Int) (sv : Sev) (cw hs : Option Int)
    (h0 : has "summary" ob.fields = false) (hm : ob.metric = none)
    (hf : getStr "file" ob.fields = some fl) (hl : getInt "linenr" ob.fields = some l) (hc : getInt "column" ob.fields = some c)
    (ha : getStr "addon" ob.fields = some a) (he : getStr "errorId" ob.fields = some e)
    (hmsg : getStr "message" ob.fields = some m) (hs' : getStr "severity" ob.fields = some s)
    (hd : decideSev o (a ++ ['-'] ++ e) s = some sv)
    (hcwe : optInt "cwe" ob.fields = some cw) (hh : optInt "hash" ob.fields = some hs) :
    convert o ob = .report ⟨a ++ ['-'] ++ e, sv, m, [⟨fl, l, c, []⟩], cw, hs⟩ := by
  have hd' : decideSev o (a ++ '-' :: e) s = some sv := by simpa using hd
  have hfile : has "file" ob.fields = true := by
    simp only [has, getStr] at hf ⊢
    cases hlk : lookup "file" ob.fields <;> simp_all
  simp [convert, locsOf, h0, hfile, hf, hl, hc, hm, ha, he, hmsg, hs', hd', hcwe, hh]

/-- **a finding line with a `loc` array**: one location per array element, in order, each with exactly the
    `file`, `linenr`, `column`, `info` members of its element -/
theorem convert_general (o : Opts) (ob : ObjLine) (a e m s : Str) (items : List (Option Fields)) (ls : List Loc) (sv : Sev)
    (cw hs : Option Int)
    (h0 : has "summary" ob.fields = false) (h1 : has "file" ob.fields = false) (hl : ob.loc = .arr items)
    (hc : locItems items ls) (hm : ob.metric = none)
    (ha : getStr "addon" ob.fields = some a) (he : getStr "errorId" ob.fields = some e)
    (hmsg : getStr "message" ob.fields = some m) (hs' : getStr "severity" ob.fields = some s)
    (hd : decideSev o (a ++ ['-'] ++ e) s = some sv)
    (hcwe : optInt "cwe" ob.fields = some cw) (hh : optInt "hash" ob.fields = some hs) :
    convert o ob = .report ⟨a ++ ['-'] ++ e, sv, m, ls, cw, hs⟩ := by
  have hd' : decideSev o (a ++ '-' :: e) s = some sv := by simpa using hd
  have hc' := (convLocs_eq_some_iff items ls).mpr hc
  simp [convert, locsOf, h0, h1, hl, hc', hm, ha, he, hmsg, hs', hd', hcwe, hh]

/-- a finding line without `file` and without `loc`: reported without location -/
theorem convert_noloc_general (o : Opts) (ob : ObjLine) (a e m s : Str) (sv : Sev) (cw hs : Option Int)
    (h0 : has "summary" ob.fields = false) (h1 : has "file" ob.fields = false) (hl : ob.loc = .absent) (hm : ob.metric = none)
    (ha : getStr "addon" ob.fields = some a) (he : getStr "errorId" ob.fields = some e)
    (hmsg : getStr "message" ob.fields = some m) (hs' : getStr "severity" ob.fields = some s)
    (hd : decideSev o (a ++ ['-'] ++ e) s = some sv)
    (hcwe : optInt "cwe" ob.fields = some cw) (hh : optInt "hash" ob.fields = some hs) :
    convert o ob = .report ⟨a ++ ['-'] ++ e, sv, m, [], cw, hs⟩ := by
  have hd' : decideSev o (a ++ '-' :: e) s = some sv := by simpa using hd
  simp [convert, locsOf, h0, h1, hl, hm, ha, he, hmsg, hs', hd', hcwe, hh]

theorem decideSev_some (o : Opts) (id s : Str) (sv : Sev) (h : decideSev o id s = some sv) :
    (sv = .internal ∧ endsWith id "-logChecker".toList = true ∧ (sevOfStr s = .none ∨ sevOfStr s = .internal)) ∨
    (sv = sevOfStr s ∧ o.enabled sv = true ∧ sv ≠ .none ∧ sv ≠ .internal) := by
  unfold decideSev at h
  split at h
  · rename_i hn
    split at h
    · rename_i hl
      simp only [Option.some.injEq] at h
      exact Or.inl ⟨h.symm, hl, hn⟩
    · simp at h
  · rename_i hn
    split at h
    · rename_i hen
      simp only [Option.some.injEq] at h
      subst h
      exact Or.inr ⟨rfl, hen, fun h => hn (Or.inl h), fun h => hn (Or.inr h)⟩
    · simp at h

/-- **nothing about a relayed finding is invented** (the converse of the three theorems above): the line is
    no summary and no metric; id = `<addon>-<errorId>` and the message are the line's members; the severity is
    the one the line names and it is enabled (or the finding is an internal `-logChecker` note); the locations are
    exactly those of the `file` members or of the `loc` array; cwe and hash are the line's members or unset -/
theorem convert_report_props (o : Opts) (ob : ObjLine) (f : Finding) (h : convert o ob = .report f) :
    has "summary" ob.fields = false ∧ ob.metric = none ∧
    (∃ a e s, getStr "addon" ob.fields = some a ∧ getStr "errorId" ob.fields = some e ∧
      getStr "severity" ob.fields = some s ∧ f.id = a ++ ['-'] ++ e ∧ decideSev o f.id s = some f.sev) ∧
    (f.sev = .internal ∨ o.enabled f.sev = true) ∧
    getStr "message" ob.fields = some f.msg ∧
    locsOf ob = some f.locs ∧ optInt "cwe" ob.fields = some f.cwe ∧ optInt "hash" ob.fields = some f.hash := by
  unfold convert at h
  simp only at h
  split at h
  · simp at h
  · rename_i hsum
    split at h
    · simp at h
    · rename_i locs hlocs
      split at h
      · simp at h
      · simp at h
      · rename_i hmet
        split at h
        · rename_i a e m s ha he hm hs
          split at h
          · simp at h
          · rename_i sv hdec
            split at h
            · rename_i c hh hcwe hhash
              simp only [Conv.report.injEq] at h
              subst h
              refine ⟨by simpa using hsum, hmet, ⟨a, e, s, ha, he, hs, rfl, hdec⟩, ?_, hm, hlocs, hcwe, hhash⟩
              rcases decideSev_some o _ s sv hdec with ⟨h1, _, _⟩ | ⟨_, h2, _, _⟩
              · exact Or.inl h1
              · exact Or.inr h2
            · simp at h
        · simp at h

/-- the locations `locsOf` yields, spelled out: the `file` members win over `loc`; no `file` and no `loc` = no location -/
theorem locsOf_cases (ob : ObjLine) (ls : List Loc) (h : locsOf ob = some ls) :
    (has "file" ob.fields = true ∧ ∃ fl l c, getStr "file" ob.fields = some fl ∧ getInt "linenr" ob.fields = some l ∧
        getInt "column" ob.fields = some c ∧ ls = [⟨fl, l, c, []⟩]) ∨
    (has "file" ob.fields = false ∧ ob.loc = .absent ∧ ls = []) ∨
    (has "file" ob.fields = false ∧ ∃ items, ob.loc = .arr items ∧ locItems items ls) := by
  unfold locsOf at h
  split at h
  · rename_i hf
    split at h
    · rename_i fl l c h1 h2 h3
      simp only [Option.some.injEq] at h
      exact Or.inl ⟨hf, fl, l, c, h1, h2, h3, h.symm⟩
    · simp at h
  · rename_i hf
    have hf' : has "file" ob.fields = false := by simpa using hf
    split at h
    · rename_i hl
      simp only [Option.some.injEq] at h
      exact Or.inr (Or.inl ⟨hf', hl, h.symm⟩)
    · simp at h
    · rename_i items hl
      exact Or.inr (Or.inr ⟨hf', items, hl, (convLocs_eq_some_iff items ls).mp h⟩)

/-! ### one addon invocation: every output -/

/-- the finding a line is converted to, if any -/
def reportedLine (o : Opts) : Line → Option Finding
  | .obj ob => reported o ob
  | _ => none

/-- **every output of an addon that exits with 0 and prints no non-brace line**, whatever its lines are
    (objects of any shape, empty / `Checking` / unparsable lines anywhere): the findings handed to the logger are
    exactly the conversions of the object lines in front of the first object with a missing / ill-typed member, in
    output order, each once; and the invocation fails iff there is such an object -/
theorem relay_general (o : Opts) (hx : o.exitcode = 0) (lines : List Line) (hnb : ∀ l ∈ lines, l ≠ .notBrace) :
    (relay o lines).findings = ((objsOf lines).takeWhile fun ob => convert o ob ≠ .throw).filterMap (reported o) ∧
    (relay o lines).isFailed = throws o (objsOf lines) := by
  simp only [relay, hx, ne_eq, not_true_eq_false, if_false, validate_objsOf lines hnb]
  exact ⟨relayObjs_findings o _, relayObjs_isFailed o _⟩

theorem filterMap_objsOf (o : Opts) (lines : List Line) :
    (objsOf lines).filterMap (reported o) = lines.filterMap (reportedLine o) := by
  induction lines with
  | nil => rfl
  | cons l r ih =>
    cases l <;> simp [objsOf, reportedLine, List.filterMap_cons] at ih ⊢ <;> try exact ih
    rename_i ob
    cases reported o ob <;> simp [ih]

/-- **each well-formed line exactly once, in order — general form**: when no object has a missing / ill-typed
    member, the relayed findings are the conversions of ALL object lines, in output order, each once -/
theorem relay_ok_general (o : Opts) (hx : o.exitcode = 0) (lines : List Line) (hnb : ∀ l ∈ lines, l ≠ .notBrace)
    (hnt : ∀ ob, Line.obj ob ∈ lines → convert o ob ≠ .throw) :
    relay o lines = .ok (lines.filterMap (reportedLine o)) := by
  obtain ⟨h1, h2⟩ := relay_general o hx lines hnb
  have hall : ∀ ob ∈ objsOf lines, (decide (convert o ob ≠ .throw)) = true := by
    intro ob hob
    simp only [objsOf, List.mem_filterMap] at hob
    obtain ⟨l, hl, hlo⟩ := hob
    cases l <;> simp at hlo
    subst hlo
    simpa using hnt _ hl
  rw [takeWhile_eq_self_of_all _ _ hall, filterMap_objsOf] at h1
  have h3 : throws o (objsOf lines) = false := by
    rw [throws_false_iff]; intro ob hob; simpa using hall ob hob
  rw [h3] at h2
  cases hr : relay o lines with
  | ok fs => rw [hr] at h1; simp only [Outcome.findings] at h1; rw [h1]
  | failed fs => rw [hr] at h2; simp [Outcome.isFailed] at h2

/-- the conversion loop fails exactly when some object has a missing / ill-typed member -/
theorem relayObjs_failed_iff (o : Opts) (objs : List ObjLine) :
    (relayObjs o objs).isFailed = true ↔ ∃ ob ∈ objs, convert o ob = .throw := by
  rw [relayObjs_isFailed]; simp [throws]

/-- **malformed output or a failing addon is an internal error, never more**: the invocation fails (⇒ one
    `internalError` finding) exactly when the addon exits non-zero, prints a line that does not start with `{`
    (well-formed lines in front of it are lost too: the whole output is discarded), or prints an object with a
    missing / ill-typed member.  That the process does not crash is NOT a theorem (the model has no such
    outcome): it is observed on the real binary for every class of `outClass` on every run. -/
theorem relay_failed_iff (o : Opts) (ls : List Line) :
    (relay o ls).isFailed = true ↔
      o.exitcode ≠ 0 ∨ validate ls = none ∨ ∃ objs, validate ls = some objs ∧ ∃ ob ∈ objs, convert o ob = .throw := by
  unfold relay
  by_cases hx : o.exitcode = 0
  · simp only [hx, ne_eq, not_true_eq_false, if_false, false_or]
    cases hv : validate ls with
    | none => simp [Outcome.isFailed]
    | some objs =>
      simp only [reduceCtorEq, Option.some.injEq, false_or, exists_eq_left']
      rw [relayObjs_failed_iff]
  · simp [hx, Outcome.isFailed]

/-- the classes of the evidence are the cases of `relay_failed_iff` -/
theorem outClass_failed_iff (o : Opts) (ls : List Line) :
    (relay o ls).isFailed = true ↔ outClass o ls = .exitNonZero ∨ outClass o ls = .nonBrace ∨ outClass o ls = .illTyped := by
  unfold relay outClass
  by_cases hx : o.exitcode = 0
  · simp only [hx, ne_eq, not_true_eq_false, if_false]
    cases hv : validate ls with
    | none => simp [Outcome.isFailed]
    | some objs =>
      simp only [relayObjs_isFailed]
      cases ht : throws o objs <;> simp
      split <;> simp
  · simp [hx, Outcome.isFailed]


/-! ### what is printed: suppressions and the duplicate filters (the function the driver runs) -/

/-- the candidates for printing: not of severity internal, not suppressed -/
def printable (supp : SuppView → Bool) (f : Finding) : Bool := f.sev ≠ .internal && !supp f.suppView

/-- **what cppcheck prints for one addon invocation** (`relayShown` = relay, then suppressions, then the
    duplicate filter): a sub-sequence of the relayed, unsuppressed findings (nothing invented, order kept),
    with pairwise different rendered texts, in which every rendered text is represented by the FIRST finding
    that renders to it -/
theorem relayShown_spec (o : Opts) (supp : SuppView → Bool) (lines : List Line) :
    (relayShown o supp lines).Sublist ((relay o lines).findings.filter (printable supp)) ∧
    ((relayShown o supp lines).map Finding.key).Nodup ∧
    ∀ k, (relayShown o supp lines).find? (fun g => g.key = k) =
         ((relay o lines).findings.filter (printable supp)).find? (fun g => g.key = k) :=
  ⟨dedup_sublist _, dedup_nodup _, dedup_find _⟩

/-- **the binary's behaviour on well-formed output**: for an addon exiting 0 whose output has no non-brace line
    and no object with a missing / ill-typed member, what is printed is the duplicate filter applied to the
    conversions of all object lines that are not suppressed (and not internal), in output order: every such line
    appears, in the order of first occurrence, exactly once per distinct rendered text -/
theorem relayShown_wellformed (o : Opts) (hx : o.exitcode = 0) (supp : SuppView → Bool) (lines : List Line)
    (hnb : ∀ l ∈ lines, l ≠ .notBrace) (hnt : ∀ ob, Line.obj ob ∈ lines → convert o ob ≠ .throw) :
    relayShown o supp lines = dedup ((lines.filterMap (reportedLine o)).filter (printable supp)) := by
  simp only [relayShown, relay_ok_general o hx lines hnb hnt, Outcome.findings]
  rfl

/-- **every well-formed line of an enabled severity is shown** (the reading of "reports each finding" that the
    code satisfies): for every object line of such an output that converts to a finding `f` which is neither
    internal nor suppressed, a finding with the id, severity, message and locations of `f` (its rendered text) is
    printed.  Two lines that render to the same text are printed once; cwe / hash of the later ones are not shown -/
theorem relayShown_complete (o : Opts) (hx : o.exitcode = 0) (supp : SuppView → Bool) (lines : List Line)
    (hnb : ∀ l ∈ lines, l ≠ .notBrace) (hnt : ∀ ob, Line.obj ob ∈ lines → convert o ob ≠ .throw)
    (ob : ObjLine) (f : Finding) (hob : Line.obj ob ∈ lines) (hc : convert o ob = .report f)
    (hp : printable supp f = true) :
    ∃ g ∈ relayShown o supp lines, g.key = f.key := by
  rw [relayShown_wellformed o hx supp lines hnb hnt]
  apply dedup_complete
  simp only [List.mem_filter, List.mem_filterMap]
  exact ⟨⟨.obj ob, hob, by simp [reportedLine, reported, hc]⟩, hp⟩

/-- "each well-formed line is printed exactly once" is FALSE of what the binary does: two identical lines are
    printed once (the duplicate filter of the loggers) -/
theorem relayShown_once_per_line_counterexample :
    ¬ ∀ (o : Opts) (supp : SuppView → Bool) (lines : List Line), o.exitcode = 0 → (∀ l ∈ lines, l ≠ .notBrace) →
        (∀ ob, Line.obj ob ∈ lines → convert o ob ≠ .throw) →
        relayShown o supp lines = (lines.filterMap (reportedLine o)).filter (printable supp) := by
  intro h
  have := h ⟨fun _ => true, 0⟩ (fun _ => false)
    [.obj (mkLine "my".toList "e1".toList "m".toList "style".toList "t.c".toList 1 3),
     .obj (mkLine "my".toList "e1".toList "m".toList "style".toList "t.c".toList 1 3)] rfl (by decide)
    (by intro ob hob; simp only [List.mem_cons, Line.obj.injEq, List.not_mem_nil, or_false, or_self] at hob; subst hob; decide)
  exact absurd this (by decide)

/-- … and TRUE when the rendered texts of the lines are pairwise different -/
theorem relayShown_once_per_line_partial (o : Opts) (hx : o.exitcode = 0) (supp : SuppView → Bool) (lines : List Line)
    (hnb : ∀ l ∈ lines, l ≠ .notBrace) (hnt : ∀ ob, Line.obj ob ∈ lines → convert o ob ≠ .throw)
    (hk : ((((lines.filterMap (reportedLine o)).filter (printable supp))).map Finding.key).Nodup) :
    relayShown o supp lines = (lines.filterMap (reportedLine o)).filter (printable supp) := by
  rw [relayShown_wellformed o hx supp lines hnb hnt, dedup_eq_self _ hk]

/-- a finding that differs from an earlier one only in what is not rendered (cwe here) is not printed: its cwe
    never reaches the report (finding F34a) -/
theorem relayShown_loses_cwe_counterexample :
    ¬ ∀ (o : Opts) (supp : SuppView → Bool) (lines : List Line) (ob : ObjLine) (f : Finding), o.exitcode = 0 →
        (∀ l ∈ lines, l ≠ .notBrace) → (∀ ob, Line.obj ob ∈ lines → convert o ob ≠ .throw) →
        Line.obj ob ∈ lines → convert o ob = .report f → printable supp f = true → f ∈ relayShown o supp lines := by
  intro h
  let l1 : ObjLine := mkLine "my".toList "e1".toList "m".toList "style".toList "t.c".toList 1 3
  let l2 : ObjLine := { l1 with fields := l1.fields ++ [("cwe".toList, .int 476)] }
  have := h ⟨fun _ => true, 0⟩ (fun _ => false) [.obj l1, .obj l2] l2
    ⟨"my-e1".toList, .style, "m".toList, [⟨"t.c".toList, 1, 3, []⟩], some 476, none⟩ rfl (by decide)
    (by intro ob hob
        simp only [List.mem_cons, Line.obj.injEq, List.not_mem_nil, or_false] at hob
        rcases hob with rfl | rfl <;> decide)
    (by simp) (by decide) (by decide)
  exact absurd this (by decide)

/-- **suppressions are applied to addon findings like to any other finding**: whatever the matcher `supp` is
    (it sees the id, the file and line of the last location, the hash — `SuppView`, the same view as for a
    built-in finding), a finding it matches is never printed, and a finding it does not match is printed
    (represented by the first finding with its rendered text) for every output, failed or not -/
theorem relayShown_suppressions (o : Opts) (supp : SuppView → Bool) (lines : List Line) :
    (∀ g ∈ relayShown o supp lines, supp g.suppView = false ∧ g.sev ≠ .internal ∧ g ∈ (relay o lines).findings) ∧
    (∀ f ∈ (relay o lines).findings, f.sev ≠ .internal → supp f.suppView = false →
      ∃ g ∈ relayShown o supp lines, g.key = f.key) := by
  constructor
  · intro g hg
    have := (dedup_sublist _).subset hg
    simp only [List.mem_filter, Bool.and_eq_true, decide_eq_true_eq, Bool.not_eq_true'] at this
    exact ⟨this.2.2, this.2.1, this.1⟩
  · intro f hf hs hsup
    apply dedup_complete
    simp [List.mem_filter, hf, hs, hsup]

/-- a suppressed finding does not use up the rendered text: an unsuppressed finding that renders to the same text
    (possible only with a hash-specific suppression) is still printed -/
theorem relayShown_filter_before_dedup (o : Opts) (supp : SuppView → Bool) (lines : List Line) :
    relayShown o supp lines = dedup ((relay o lines).findings.filter (printable supp)) := rfl

/-- exit status: `--error-exitcode` iff something was printed (an addon finding or the internalError) -/
theorem exitStatus_iff (e : Nat) (he : e ≠ 0) (o : Opts) (supp : SuppView → Bool) (file0 : Str) (lines : List Line) :
    exitStatus e o supp file0 lines = e ↔ (internalErrorShown o supp file0 lines = true ∨ relayShown o supp lines ≠ []) := by
  unfold exitStatus
  cases h1 : internalErrorShown o supp file0 lines <;> cases h2 : relayShown o supp lines <;> simp [Ne.symm he]

/-- a summary line as addons print it -/
def mkSummary (name : Str) : ObjLine :=
  { fields := [("summary".toList, .str name), ("data".toList, .other)], loc := .absent, metric := none }

def isSummary (ob : ObjLine) : Bool := has "summary" ob.fields

theorem validate_objs (objs : List ObjLine) : validate (objs.map Line.obj) = some objs := by
  induction objs with
  | nil => rfl
  | cons o r ih => simp [validate, ih]

/-- **summaries of every addon reach whole-program analysis — general form**: for any number of addons, each
    printing ANY lines (summaries interleaved with findings, skipped lines, even a non-brace line or a failing
    exit status - such an addon contributes nothing), as long as no object has a missing / ill-typed member:
    the ctu-info of the file is the concatenation, in addon order, of all summary objects of every addon's
    accepted output, with and without a build dir — nothing of an earlier addon is lost -/
theorem ctuInfo_general (bd : Bool) (o : Opts) : ∀ outs : List (List Line),
    (∀ out ∈ outs, throws o (addonObjs o out) = false) →
    ctuInfo bd o outs = outs.flatMap fun out => (addonObjs o out).filter isSummary := by
  intro outs h
  have hc : ∀ outs : List (List Line), (∀ out ∈ outs, throws o (addonObjs o out) = false) →
      ctuCollect o outs = (outs.flatMap fun out => (addonObjs o out).filter isSummary, false) := by
    intro outs
    induction outs with
    | nil => intro _; rfl
    | cons out r ih =>
      intro h
      have h1 := h out (by simp)
      have h2 := ih (fun x hx => h x (by simp [hx]))
      simp only [ctuCollect, h1, Bool.false_eq_true, if_false, h2, List.flatMap_cons]
      have : summaries o out = (addonObjs o out).filter isSummary := by
        simp only [summaries, summaryObjs_eq]
        rw [takeWhile_eq_self_of_all]
        · rfl
        · intro ob hob
          have := (throws_false_iff o _).mp h1 ob hob
          simpa using this
      rw [this]
  simp [ctuInfo, hc outs h]

/-- the instance of the general form the first version of this check proved: addons printing only summaries -/
theorem ctuInfo_all_addons (bd : Bool) (o : Opts) (hx : o.exitcode = 0) (outs : List (List Str)) :
    ctuInfo bd o (outs.map fun names => (names.map mkSummary).map Line.obj) = (outs.flatMap id).map mkSummary := by
  have hobjs : ∀ names : List Str, addonObjs o ((names.map mkSummary).map Line.obj) = names.map mkSummary := by
    intro names
    simp only [addonObjs, hx, ne_eq, not_true_eq_false, if_false, validate_objs, Option.getD_some]
  have hsum : ∀ names : List Str, (names.map mkSummary).filter isSummary = names.map mkSummary := by
    intro names; induction names with
    | nil => rfl
    | cons n r ih => simp [isSummary, mkSummary, has, lookup] at ih ⊢
  rw [ctuInfo_general]
  · induction outs with
    | nil => rfl
    | cons names r ih => simp only [List.map_cons, List.flatMap_cons, hobjs, hsum, ih, List.map_append, id]
  · intro out hout
    simp only [List.mem_map] at hout
    obtain ⟨names, _, rfl⟩ := hout
    rw [hobjs, throws_false_iff]
    intro ob hob
    simp only [List.mem_map] at hob
    obtain ⟨n, _, rfl⟩ := hob
    simp [convert, mkSummary, has, lookup]

/-- an ill-typed object ends the per-file addon phase: with a build dir NO summary of the file is forwarded (the
    string collected so far is never written), without one those seen before it are (they were reported one by
    one).  Model = code; the property text does not say what should happen, this is stated for the record. -/
theorem ctuInfo_throw_example :
    let bad : ObjLine := ⟨[("file".toList, .str "t.c".toList), ("linenr".toList, .str "1".toList)], .absent, none⟩
    let outs : List (List Line) := [[.obj (mkSummary "A".toList), .obj bad, .obj (mkSummary "B".toList)], [.obj (mkSummary "C".toList)]]
    ctuInfo true ⟨fun _ => true, 0⟩ outs = [] ∧ ctuInfo false ⟨fun _ => true, 0⟩ outs = [mkSummary "A".toList] := by
  decide

/-! ### raw text -/

/-- the only line class that turns the whole output into an internal error, spelled out on the raw text: a
    non-empty line that neither starts with `Checking ` nor with `{` (leading blanks, `[1]`, `Checking` without
    blank, a lone carriage return …) -/
theorem lineOf_notBrace_iff (parse : Str → Option ObjLine) (s : Str) :
    lineOf parse s = .notBrace ↔ s ≠ [] ∧ "Checking ".toList.isPrefixOf s = false ∧ s.head? ≠ some '{' := by
  unfold lineOf rawKind
  generalize "Checking ".toList = pre
  cases s with
  | nil => simp
  | cons c r =>
    simp only [ne_eq, reduceCtorEq, not_false_eq_true, List.head?_cons, Option.some.injEq, true_and]
    cases hp : pre.isPrefixOf (c :: r)
    · by_cases hc : c = '{'
      · subst hc; cases parse ('{' :: r) <;> simp
      · simp [hc]
    · simp

/-- whatever the JSON parser says, it is consulted only for lines starting with `{`, and its verdict only
    decides between a skipped line and an object line -/
theorem lineOf_brace (parse : Str → Option ObjLine) (r : Str) :
    lineOf parse ('{' :: r) = (match parse ('{' :: r) with | none => .badJson | some ob => .obj ob) := by
  have : "Checking ".toList.isPrefixOf ('{' :: r) = false := rfl
  simp only [lineOf, rawKind, this]
  cases parse ('{' :: r) <;> simp

/-! non-vacuity -/
def optsAll : Opts := ⟨fun _ => true, 0⟩
example : reportable optsAll "style".toList = true := by decide
example : relay optsAll [.checking, .obj (mkLine "my".toList "e1".toList "m".toList "style".toList "t.c".toList 1 3), .empty]
    = .ok [⟨"my-e1".toList, .style, "m".toList, [⟨"t.c".toList, 1, 3, []⟩], none, none⟩] := by decide
example : relay optsAll [.obj (mkLine "my".toList "e1".toList "m".toList "style".toList "t.c".toList 1 3), .notBrace]
    = .failed [] := by decide
-- a multi-location line (hypotheses of `convert_general` are satisfiable)
example : convert optsAll ⟨[("severity".toList, .str "style".toList), ("extra".toList, .other), ("addon".toList, .str "my".toList),
      ("message".toList, .str "m".toList), ("errorId".toList, .str "e".toList), ("cwe".toList, .int 398)],
      .arr [some [("file".toList, .str "t.c".toList), ("linenr".toList, .int 1), ("column".toList, .int 2), ("info".toList, .str "n".toList)],
            some [("info".toList, .str []), ("column".toList, .int 4), ("linenr".toList, .int 3), ("file".toList, .str "h.h".toList)]], none⟩
    = .report ⟨"my-e".toList, .style, "m".toList, [⟨"t.c".toList, 1, 2, "n".toList⟩, ⟨"h.h".toList, 3, 4, []⟩], some 398, none⟩ := by decide
-- suppression by id: the suppressed finding is gone, the other one stays
example : relayShown optsAll (fun v => v.id = "my-e1".toList)
    [.obj (mkLine "my".toList "e1".toList "m".toList "style".toList "t.c".toList 1 3),
     .obj (mkLine "my".toList "e2".toList "m".toList "style".toList "t.c".toList 1 3)]
    = [⟨"my-e2".toList, .style, "m".toList, [⟨"t.c".toList, 1, 3, []⟩], none, none⟩] := by decide
example : linesOf (fun _ => none) "a\n\nChecking x\n{".toList = [.notBrace, .empty, .checking, .badJson] := by decide
example : outClass optsAll [.badJson, .obj (mkSummary "s".toList)] = .skippedLines := by decide

end Cppcheck.Addon

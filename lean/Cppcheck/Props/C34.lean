import Cppcheck.Model.Addon
/-
C34 — property theorems about the addon relay model.
-/
namespace Cppcheck.Addon
open Cppcheck.Wire

/-- a well-formed single-location finding line as addons/cppcheckdata.py `reportError` prints it -/
def mkLine (addon errorId msg sev file : Str) (line col : Int) : ObjLine :=
  { fields := [("file".toList, .str file), ("linenr".toList, .int line), ("column".toList, .int col),
               ("severity".toList, .str sev), ("message".toList, .str msg), ("addon".toList, .str addon),
               ("errorId".toList, .str errorId), ("extra".toList, .str [])],
    loc := .absent, metric := none }

def reportable (o : Opts) (sev : Str) : Bool :=
  sevOfStr sev ≠ .none && sevOfStr sev ≠ .internal && o.enabled (sevOfStr sev)

theorem convert_mkLine_gen (o : Opts) (a e m s fl : Str) (l c : Int) :
    convert o (mkLine a e m s fl l c) =
      match decideSev o (a ++ ['-'] ++ e) s with
      | none => .skip
      | some sv => .report ⟨a ++ ['-'] ++ e, sv, m, [⟨fl, l, c, []⟩], none, none⟩ := by
  cases hd : decideSev o (a ++ ['-'] ++ e) s <;>
    simp [convert, mkLine, has, lookup, getStr, getInt] <;> simp_all

/-- **a well-formed line of an enabled severity is relayed with exactly the given fields**:
    id `<addon>-<errorId>`, the location, severity and message the addon gave -/
theorem convert_mkLine (o : Opts) (a e m s fl : Str) (l c : Int) (h : reportable o s = true) :
    convert o (mkLine a e m s fl l c) = .report ⟨a ++ ['-'] ++ e, sevOfStr s, m, [⟨fl, l, c, []⟩], none, none⟩ := by
  simp only [reportable, Bool.and_eq_true, bne_iff_ne, ne_eq] at h
  obtain ⟨⟨h1, h2⟩, h3⟩ := h
  have h1' : sevOfStr s ≠ .none := by simpa using h1
  have h2' : sevOfStr s ≠ .internal := by simpa using h2
  rw [convert_mkLine_gen]
  simp [decideSev, h1', h2', h3]

/-- lines that `executeAddon` skips -/
def Line.skipped : Line → Bool
  | .empty | .checking | .badJson => true
  | _ => false

/-- a line of a disabled (or none/internal) severity is dropped silently -/
theorem convert_mkLine_filtered (o : Opts) (a e m s fl : Str) (l c : Int)
    (h : reportable o s = false) (hlc : endsWith (a ++ ['-'] ++ e) "-logChecker".toList = false) :
    convert o (mkLine a e m s fl l c) = .skip := by
  rw [convert_mkLine_gen]
  have hlc' : endsWith (a ++ '-' :: e) "-logChecker".toList = false := by simpa using hlc
  have hd : decideSev o (a ++ '-' :: e) s = none := by
    unfold decideSev
    by_cases hn : sevOfStr s = .none ∨ sevOfStr s = .internal
    · simp only [if_pos hn, hlc', Bool.false_eq_true, if_false]
    · have hen : o.enabled (sevOfStr s) = false := by
        simp only [reportable, Bool.and_eq_false_iff, bne_eq_false_iff_eq] at h
        rcases h with (h | h) | h
        · exact absurd (Or.inl (by simpa using h)) hn
        · exact absurd (Or.inr (by simpa using h)) hn
        · exact h
      simp only [if_neg hn, hen, Bool.false_eq_true, if_false]
  simp only [List.append_assoc, List.cons_append, List.nil_append]
  rw [hd]

/-- **each well-formed line exactly once, in order**: an output consisting of well-formed
    finding lines of enabled severities, interleaved arbitrarily with empty, `Checking …` and
    unparsable lines, from an addon that exits with 0, is relayed as exactly those findings -/
theorem relay_wellformed (o : Opts) (hx : o.exitcode = 0) :
    ∀ (items : List (Option (Str × Str × Str × Str × Str × Int × Int) × Line)),
      (∀ it ∈ items, match it.1 with
        | some (a, e, m, s, fl, l, c) => it.2 = .obj (mkLine a e m s fl l c) ∧ reportable o s = true
        | none => it.2.skipped = true) →
      relay o (items.map (·.2)) =
        .ok (items.filterMap fun it => it.1.map fun (a, e, m, s, fl, l, c) =>
          (⟨a ++ ['-'] ++ e, sevOfStr s, m, [⟨fl, l, c, []⟩], none, none⟩ : Finding)) := by
  intro items h
  have hv : ∀ (items : List (Option (Str × Str × Str × Str × Str × Int × Int) × Line)),
      (∀ it ∈ items, match it.1 with
        | some (a, e, m, s, fl, l, c) => it.2 = .obj (mkLine a e m s fl l c) ∧ reportable o s = true
        | none => it.2.skipped = true) →
      ∃ objs, validate (items.map (·.2)) = some objs ∧
        relayObjs o objs = .ok (items.filterMap fun it => it.1.map fun (a, e, m, s, fl, l, c) =>
          (⟨a ++ ['-'] ++ e, sevOfStr s, m, [⟨fl, l, c, []⟩], none, none⟩ : Finding)) := by
    intro items
    induction items with
    | nil => intro _; exact ⟨[], rfl, rfl⟩
    | cons it r ih =>
      intro h
      obtain ⟨objs, hvr, hrr⟩ := ih (fun x hx => h x (by simp [hx]))
      have hit := h it (by simp)
      obtain ⟨tag, ln⟩ := it
      cases tag with
      | none =>
        simp only at hit
        refine ⟨objs, ?_, ?_⟩
        · cases ln <;> simp_all [validate, Line.skipped]
        · simpa using hrr
      | some t =>
        obtain ⟨a, e, m, s, fl, l, c⟩ := t
        simp only at hit
        obtain ⟨hl, hrep⟩ := hit
        refine ⟨mkLine a e m s fl l c :: objs, ?_, ?_⟩
        · simp [hl, validate, hvr]
        · simp [relayObjs, convert_mkLine o a e m s fl l c hrep, hrr]
  obtain ⟨objs, hv1, hv2⟩ := hv items h
  simp [relay, hx, hv1, hv2]

/-- **nothing is invented**: every relayed finding stems from an object line of the output whose
    conversion yields exactly that finding -/
theorem relayObjs_sound (o : Opts) : ∀ (objs : List ObjLine) (f : Finding),
    f ∈ (relayObjs o objs).findings → ∃ ob ∈ objs, convert o ob = .report f := by
  intro objs
  induction objs with
  | nil => intro f h; simp [relayObjs, Outcome.findings] at h
  | cons ob r ih =>
    intro f h
    simp only [relayObjs] at h
    cases hc : convert o ob with
    | throw => rw [hc] at h; simp [Outcome.findings] at h
    | skip =>
      rw [hc] at h
      obtain ⟨ob', hm, hr⟩ := ih f h
      exact ⟨ob', by simp [hm], hr⟩
    | report g =>
      rw [hc] at h
      cases hr : relayObjs o r with
      | ok fs =>
        rw [hr] at h
        simp only [Outcome.findings, List.mem_cons] at h
        rcases h with h | h
        · subst h; exact ⟨ob, by simp, hc⟩
        · obtain ⟨ob', hm, hr'⟩ := ih f (by simp [hr, Outcome.findings, h])
          exact ⟨ob', by simp [hm], hr'⟩
      | failed fs =>
        rw [hr] at h
        simp only [Outcome.findings, List.mem_cons] at h
        rcases h with h | h
        · subst h; exact ⟨ob, by simp, hc⟩
        · obtain ⟨ob', hm, hr'⟩ := ih f (by simp [hr, Outcome.findings, h])
          exact ⟨ob', by simp [hm], hr'⟩

theorem validate_mem : ∀ (ls : List Line) (objs : List ObjLine), validate ls = some objs →
    ∀ ob ∈ objs, Line.obj ob ∈ ls := by
  intro ls
  induction ls with
  | nil => intro objs h ob hm; simp [validate] at h; subst h; simp at hm
  | cons l r ih =>
    intro objs h ob hm
    cases l with
    | notBrace => simp [validate] at h
    | obj o' =>
      simp only [validate, Option.map_eq_some_iff] at h
      obtain ⟨objs', hv, rfl⟩ := h
      simp only [List.mem_cons] at hm
      rcases hm with hm | hm
      · subst hm; simp
      · exact List.mem_cons_of_mem _ (ih objs' hv ob hm)
    | empty => exact List.mem_cons_of_mem _ (ih objs (by simpa [validate] using h) ob hm)
    | checking => exact List.mem_cons_of_mem _ (ih objs (by simpa [validate] using h) ob hm)
    | badJson => exact List.mem_cons_of_mem _ (ih objs (by simpa [validate] using h) ob hm)

theorem relay_sound (o : Opts) (ls : List Line) (f : Finding) (h : f ∈ (relay o ls).findings) :
    ∃ ob, Line.obj ob ∈ ls ∧ convert o ob = .report f := by
  unfold relay at h
  split at h
  · simp [Outcome.findings] at h
  · split at h
    · simp [Outcome.findings] at h
    · rename_i objs hv
      obtain ⟨ob, hm, hc⟩ := relayObjs_sound o objs f h
      exact ⟨ob, validate_mem ls objs hv ob hm, hc⟩

/-- **severity gate**: a relayed finding has an enabled severity (or is an internal `-logChecker` note),
    and its id is `<addon>-<errorId>` of its line -/
theorem convert_report_props (o : Opts) (ob : ObjLine) (f : Finding) (h : convert o ob = .report f) :
    (f.sev = .internal ∨ o.enabled f.sev = true) ∧
    (∃ a e, getStr "addon" ob.fields = some a ∧ getStr "errorId" ob.fields = some e ∧ f.id = a ++ ['-'] ++ e) ∧
    getStr "message" ob.fields = some f.msg := by
  unfold convert at h
  simp only at h
  split at h
  · simp at h
  · split at h
    · simp at h
    · split at h
      · simp at h
      · simp at h
      · split at h
        · rename_i a e m s ha he hm hs
          split at h
          · simp at h
          · rename_i sv hdec
            split at h
            · simp only [Conv.report.injEq] at h
              subst h
              refine ⟨?_, ⟨a, e, ha, he, rfl⟩, hm⟩
              unfold decideSev at hdec
              split at hdec
              · split at hdec
                · simp at hdec; left; exact hdec.symm
                · simp at hdec
              · split at hdec
                · rename_i hen
                  simp at hdec; subst hdec; right; exact hen
                · simp at hdec
            · simp at h
        · simp at h

/-- **malformed output or a failing addon is an internal error, never more**: the invocation fails
    exactly when the addon exits non-zero, prints a line that does not start with `{`, or prints an
    object with a missing / ill-typed member -/
theorem relayObjs_failed_iff (o : Opts) : ∀ objs : List ObjLine,
    (relayObjs o objs).isFailed = true ↔ ∃ ob ∈ objs, convert o ob = .throw ∧
      True := by
  intro objs
  induction objs with
  | nil => simp [relayObjs, Outcome.isFailed]
  | cons ob r ih =>
    simp only [relayObjs]
    cases hc : convert o ob with
    | throw => simp [Outcome.isFailed, hc]
    | skip =>
      simp only [ih, List.mem_cons, and_true]
      constructor
      · rintro ⟨x, hx, hxc⟩; exact ⟨x, Or.inr hx, hxc⟩
      · rintro ⟨x, hx | hx, hxc⟩
        · subst hx; rw [hc] at hxc; simp at hxc
        · exact ⟨x, hx, hxc⟩
    | report g =>
      dsimp only
      cases hr : relayObjs o r with
      | ok fs =>
        rw [hr] at ih
        simp only [Outcome.isFailed, Bool.false_eq_true, false_iff] at ih ⊢
        rintro ⟨x, hx, hxc, _⟩
        rcases List.mem_cons.mp hx with hx | hx
        · subst hx; rw [hc] at hxc; simp at hxc
        · exact ih ⟨x, hx, hxc, trivial⟩
      | failed fs =>
        rw [hr] at ih
        simp only [Outcome.isFailed, true_iff] at ih ⊢
        obtain ⟨x, hx, hxc⟩ := ih
        exact ⟨x, List.mem_cons_of_mem _ hx, hxc⟩

theorem relay_failed_iff (o : Opts) (ls : List Line) :
    (relay o ls).isFailed = true ↔
      o.exitcode ≠ 0 ∨ validate ls = none ∨ ∃ objs, validate ls = some objs ∧ ∃ ob ∈ objs, convert o ob = .throw := by
  unfold relay
  by_cases hx : o.exitcode = 0
  · simp only [hx, ne_eq, not_true_eq_false, if_false, false_or]
    cases hv : validate ls with
    | none => simp [Outcome.isFailed]
    | some objs =>
      simp only [reduceCtorEq, Option.some.injEq, false_or, exists_eq_left']
      rw [relayObjs_failed_iff]
      simp
  · simp [hx, Outcome.isFailed]

/-- a summary line as addons print it -/
def mkSummary (name : Str) : ObjLine :=
  { fields := [("summary".toList, .str name), ("data".toList, .other)], loc := .absent, metric := none }

theorem summaryObjs_all_summaries (o : Opts) : ∀ names : List Str,
    summaryObjs o (names.map mkSummary) = names.map mkSummary := by
  intro names
  induction names with
  | nil => rfl
  | cons n r ih => simp [summaryObjs, mkSummary, has, lookup] at *; exact ih

theorem validate_objs (objs : List ObjLine) : validate (objs.map Line.obj) = some objs := by
  induction objs with
  | nil => rfl
  | cons o r ih => simp [validate, ih]

/-- **summaries of every addon reach whole-program analysis**: when each of any number of addons
    prints only summary lines (any number each) and exits 0, the ctu-info of the file is the
    concatenation of all of them, in addon order — nothing of an earlier addon is lost -/
theorem ctuInfo_all_addons (o : Opts) (hx : o.exitcode = 0) (outs : List (List Str)) :
    ctuInfo o (outs.map fun names => (names.map mkSummary).map Line.obj) = (outs.flatMap id).map mkSummary := by
  induction outs with
  | nil => rfl
  | cons names r ih =>
    simp only [ctuInfo, List.map_cons, List.flatMap_cons] at *
    rw [ih]
    have h1 : summaries o ((names.map mkSummary).map Line.obj) = names.map mkSummary := by
      simp only [summaries, hx, ne_eq, not_true_eq_false, if_false]
      rw [validate_objs]
      exact summaryObjs_all_summaries o names
    simp only [List.map_map] at h1 ⊢
    simp [h1]

/-! non-vacuity -/
def optsAll : Opts := ⟨fun _ => true, 0⟩
example : reportable optsAll "style".toList = true := by decide
example : relay optsAll [.checking, .obj (mkLine "my".toList "e1".toList "m".toList "style".toList "t.c".toList 1 3), .empty]
    = .ok [⟨"my-e1".toList, .style, "m".toList, [⟨"t.c".toList, 1, 3, []⟩], none, none⟩] := by decide
example : relay optsAll [.obj (mkLine "my".toList "e1".toList "m".toList "style".toList "t.c".toList 1 3), .notBrace]
    = .failed [] := by decide

end Cppcheck.Addon

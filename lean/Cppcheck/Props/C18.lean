import Cppcheck.Model.Cache
import Cppcheck.Proofs.Cache
import Cppcheck.Gen.HashInput
/-
C18 — incremental analysis is transparent across edit histories.

`World` = (hash function, per-file analysis, per-file summary, whole-program analysis, key composition, files.txt lookup);
every theorem below quantifies over all of them unless a concrete `toyWorld` witness is named.
A history is a list of `edit f` (any function on the tree of analysis inputs) and `run vis` events over one build directory.
-/
namespace Cppcheck.Cache
open Cppcheck.Wire

variable {H S F : Type} [DecidableEq H]

/-! ## the property, with the hypotheses the proof needs -/

/-- **Transparency for any key composition and any lookup.** Starting from an empty build directory, every run of the history
    reports (per file and whole program) exactly what a run without build directory reports on the same tree, provided
    * `hinj`  no two hash inputs that occur in the history collide (`HashInjOn`; no function into `size_t` is injective
              on all byte strings, so the hypothesis is about the history only),
    * `henc`  on the inputs the history analyses the hash data determines the analysis input
              (path, non-comment tokens with full locations, header names and tokens),
    * `hmac`  no suppression decision depends on the macro names of a finding (they are not stored in the cache),
    * `hmap`  in every run each listed file is looked up in its own line of files.txt,
    * `hsum`  no analysis result of the history depends on the function-return summaries (`*.sN`) that the run loads
              from the build directory at its start. -/
theorem history_transparent_generic (W : World H S F) (t0 : Tree) (evs : List Event)
    (hinj : HashInjOn W ((runsOf t0 evs).flatMap (·.2)))
    (henc : KeyFaithfulOn W.enc ((runsOf t0 evs).flatMap (·.2)))
    (hmac : ∀ r ∈ runsOf t0 evs, MacroFree W r.1 r.2)
    (hmap : ∀ r ∈ runsOf t0 evs, MapOK W.lk (r.2.map (·.path)))
    (hsum : ∀ r ∈ cachedRuns W ([], []) t0 evs, SummFree W r.1 r.2) :
    execCached W ([], []) t0 evs = execFresh W t0 evs :=
  exec_spec W _ hinj henc evs ([], []) t0 (inv_empty W _)
    (fun r hr => ⟨fun _ hi => List.mem_flatMap.mpr ⟨r, hr, hi⟩, hmac r hr, hmap r hr⟩) hsum

/-- the per-file findings alone do not depend on the file-to-cache-file mapping -/
theorem history_transparent_perFile_generic (W : World H S F) (t0 : Tree) (evs : List Event)
    (hinj : HashInjOn W ((runsOf t0 evs).flatMap (·.2)))
    (henc : KeyFaithfulOn W.enc ((runsOf t0 evs).flatMap (·.2)))
    (hmac : ∀ r ∈ runsOf t0 evs, MacroFree W r.1 r.2)
    (hsum : ∀ r ∈ cachedRuns W ([], []) t0 evs, SummFree W r.1 r.2) :
    (execCached W ([], []) t0 evs).map (·.perFile) = (execFresh W t0 evs).map (·.perFile) :=
  exec_perFile_spec W _ hinj henc evs ([], []) t0 (inv_empty W _)
    (fun r hr => ⟨fun _ hi => List.mem_flatMap.mpr ⟨r, hr, hi⟩, hmac r hr⟩) hsum

/-! ## the hypotheses are satisfiable -/

/-- a history with an edit that really changes the key: shift by 3 lines, both runs transparent -/
example :
    let W := toyWorld Encoding.legacy .suffixFirst
    let t0 : Tree := [mkInput "a.c" [("x", 1, 1), ("!", 1, 3)], mkInput "b.c" [("?", 2, 1)]]
    let evs := [Event.run showAll, .edit (shiftLines "a.c".toList 3), .run showAll]
    HashInjOn W ((runsOf t0 evs).flatMap (·.2))
    ∧ KeyFaithfulOn W.enc ((runsOf t0 evs).flatMap (·.2))
    ∧ (∀ r ∈ runsOf t0 evs, MacroFree W r.1 r.2)
    ∧ (∀ r ∈ runsOf t0 evs, MapOK W.lk (r.2.map (·.path)))
    ∧ (∀ r ∈ cachedRuns W ([], []) t0 evs, SummFree W r.1 r.2) := by
  refine ⟨by decide +kernel, by decide +kernel, by decide +kernel, by decide +kernel, by decide +kernel⟩

/-! ## each hypothesis of the generic theorem is necessary: counterexamples for the key composition and the lookup of the pinned
    commit (repaired by 72c97eb / 249f096), and for the two defects that remain -/

/-- F3: `static_cast<char>(line)` / `(col)`: the same token on line 1 and on line 257 (column 1 and 257) has the same hash data -/
theorem encoding_not_injective :
    ¬ KeyFaithfulOn Encoding.legacy [mkInput "t.c" [("!", 1, 1)], mkInput "t.c" [("!", 257, 1)]]
    ∧ ¬ KeyFaithfulOn Encoding.legacy [mkInput "t.c" [("!", 1, 1)], mkInput "t.c" [("!", 1, 257)]] := by
  decide +kernel

/-- F3 as a history: run, prepend 256 blank lines, run – the cached run reports line 1, the fresh run line 257 -/
theorem linecol_mod_256_counterexample :
    let W := toyWorld Encoding.legacy .exactFirst
    let t0 : Tree := [mkInput "t.c" [("x", 1, 1), ("!", 1, 25)]]
    let evs := [Event.run showAll, .edit (shiftLines "t.c".toList 256), .run showAll]
    HashInjOn W ((runsOf t0 evs).flatMap (·.2))
    ∧ ((execCached W ([], []) t0 evs).map (·.perFile.flatten.map (·.line)) = [[1], [1]])
    ∧ ((execFresh W t0 evs).map (·.perFile.flatten.map (·.line)) = [[1], [257]]) := by
  refine ⟨by decide +kernel, by decide +kernel, by decide +kernel⟩

/-- nothing separates the files and no file name is hashed: moving the code of `m.c` into the header it includes keeps the key;
    the cached run still reports `m.c`, the fresh run `h.h` -/
theorem file_boundary_counterexample :
    let W := toyWorld Encoding.legacy .exactFirst
    let inc := [("#", 1, 1), ("include", 1, 2), ("\"h.h\"", 1, 10)]
    let t0 : Tree := [mkInput "m.c" (inc ++ [("!", 2, 1)]) [("h.h", [])]]
    let t1 : Tree := [mkInput "m.c" inc [("h.h", [("!", 2, 1)])]]
    let evs := [Event.run showAll, .edit (fun _ => t1), .run showAll]
    ((execCached W ([], []) t0 evs).map (·.perFile.flatten.map (·.file)) = [["m.c".toList], ["m.c".toList]])
    ∧ ((execFresh W t0 evs).map (·.perFile.flatten.map (·.file)) = [["m.c".toList], ["h.h".toList]]) := by
  refine ⟨by decide +kernel, by decide +kernel⟩

/-- the suffix-first lookup sends `d/a.c` to the cache file of `a.c` -/
theorem suffix_lookup_shares_cache_file : ¬ MapOK .suffixFirst ["a.c".toList, "d/a.c".toList] := by
  decide +kernel

/-- … so `d/a.c` overwrites `a.a1`, `a.a2` is never written, and the whole-program pass misses the summary of `a.c`
    (here: the whole-program finding that needs both files is lost); the key composition plays no role (`Encoding.fixed`) -/
theorem suffix_lookup_counterexample :
    let W := toyWorld Encoding.fixed .suffixFirst
    let t0 : Tree := [mkInput "a.c" [("?", 1, 1)], mkInput "d/a.c" [("?", 1, 1), ("x", 2, 1)]]
    ((execCached W ([], []) t0 [.run showAll]).map (·.whole.map (·.file)) = [[]])
    ∧ ((execFresh W t0 [.run showAll]).map (·.whole.map (·.file)) = [["a.c".toList, "d/a.c".toList]]) := by
  refine ⟨by decide +kernel, by decide +kernel⟩

/-- … and with the path not part of the key, removing `a.c` makes `d/a.c` reuse the results of the removed file -/
theorem removed_file_counterexample :
    let W := toyWorld Encoding.legacy .suffixFirst
    let t0 : Tree := [mkInput "a.c" [("!", 1, 1)], mkInput "d/a.c" [("!", 1, 1)]]
    let evs := [Event.run showAll, .edit (removeFile "a.c".toList), .run showAll]
    ((execCached W ([], []) t0 evs).map (·.perFile.flatten.map (·.file)) = [["a.c".toList, "a.c".toList], ["a.c".toList]])
    ∧ ((execFresh W t0 evs).map (·.perFile.flatten.map (·.file)) = [["a.c".toList, "d/a.c".toList], ["d/a.c".toList]]) := by
  refine ⟨by decide +kernel, by decide +kernel⟩

/-- the macro names of a location are not stored: a `cppcheck-suppress-macro` suppression hides the finding in the analysing
    run and in every fresh run, but not when the finding is replayed from the cache -/
theorem macro_suppression_counterexample :
    let W := toyWorld Encoding.fixed .exactFirst
    let vis : Finding → Bool := fun f => !f.macros.contains "M".toList
    let t0 : Tree := [mkInput "m.c" [("!", 3, 7)]]
    let evs := [Event.run vis, .run vis]
    ((execCached W ([], []) t0 evs).map (·.perFile.flatten.length) = [0, 1])
    ∧ ((execFresh W t0 evs).map (·.perFile.flatten.length) = [0, 0]) := by
  refine ⟨by decide +kernel, by decide +kernel⟩

/-- the function-return summaries (`b.s1`) of the first run are loaded at the start of the second run and are not part of the
    key: `z.c`, re-analysed after an edit, is analysed with `f` known to return and gets a finding a fresh run lacks -/
theorem summaries_counterexample :
    let W := toyWorld Encoding.fixed .exactFirst
    let t0 : Tree := [mkInput "b.c" [("f", 1, 6)], mkInput "z.c" [("~", 2, 1)]]
    let evs := [Event.run showAll, .edit (shiftLines "z.c".toList 1), .run showAll]
    ((cachedRuns W ([], []) t0 evs).map (·.1) = [[], [['f']]])
    ∧ ((execCached W ([], []) t0 evs).map (·.perFile.flatten.map (·.id)) = [[], ["leak".toList]])
    ∧ ((execFresh W t0 evs).map (·.perFile.flatten.map (·.id)) = [[], []]) := by
  refine ⟨by decide +kernel, by decide +kernel, by decide +kernel⟩

/-! ## the key composition and the lookup of the current code discharge `henc` and `hmap` -/

/-- toolinfo starts with `<len>:<path>` (what the proposed CppCheck::calculateHash writes first) -/
def PathPrefixed (i : FileInput) : Prop := (dec i.path.length ++ ':' :: i.path) <+: i.toolinfo

instance (i : FileInput) : Decidable (PathPrefixed i) := by unfold PathPrefixed; infer_instance

/-- CppCheck::calculateHash with `filePath.size() << ':' << filePath` first produces such a toolinfo -/
theorem render_pathPrefixed (items : List ToolItem) (sv : SettingsView) (ti : Str)
    (h : renderToolinfo (.filePathLen :: .lit ':' :: .filePath :: items) sv = some ti) :
    (dec sv.filePath.length ++ ':' :: sv.filePath) <+: ti := by
  have cons : ∀ it its, renderToolinfo (it :: its) sv = (match renderItem sv it, renderToolinfo its sv with
      | some v, some r => some (v ++ r)
      | _, _ => none) := fun _ _ => rfl
  rw [cons, cons, cons] at h
  cases hr : renderToolinfo items sv with
  | none => simp [hr, renderItem] at h
  | some rest =>
    simp only [hr, renderItem] at h
    cases h
    exact ⟨rest, by simp⟩

/-- toolinfo determines the analysis options (trivially true along a history that never changes an option; the subject of C19) -/
def OptsDetermined (L : List FileInput) : Prop := ∀ a ∈ L, ∀ b ∈ L, a.toolinfo = b.toolinfo → a.opts = b.opts

instance (L : List FileInput) : Decidable (OptsDetermined L) := by unfold OptsDetermined; infer_instance

/-- **the proposed hash data determines the analysis input** (no hypothesis on the tokens) -/
theorem fixed_key_faithful (L : List FileInput) (hp : ∀ i ∈ L, PathPrefixed i) (ho : OptsDetermined L) :
    KeyFaithfulOn Encoding.fixed L := by
  intro a ha b hb h
  obtain ⟨h1, h2, h3⟩ := hashInput_fixed_unique a b h
  have hopts := ho a ha b hb h1
  obtain ⟨ra, hra⟩ := hp a ha
  obtain ⟨rb, hrb⟩ := hp b hb
  have hpath : a.path = b.path := by
    have e : dec a.path.length ++ ':' :: (a.path ++ ra) = dec b.path.length ++ ':' :: (b.path ++ rb) := by
      have := hra.trans (h1.trans hrb.symm)
      simpa using this
    exact (lenPrefixed_unique _ _ _ _ e).1
  simp only [FileInput.view, hpath, h2, h3, hopts]

/-- AnalyzerInformation::getFilesTxt never gives two listed files the same cache file (any list of paths, any order,
    after any add / remove / rename), and with the exact-first lookup each file finds its own -/
theorem files_txt_mapping_injective (paths : List Str) :
    ((filesTxt paths).map (·.afile)).Nodup ∧ (paths.Nodup → MapOK .exactFirst paths) :=
  ⟨filesTxtFrom_afile_nodup paths [], exactFirst_mapOK paths⟩

/-- the suffix-first lookup of the pinned commit does so only when no listed path ends with another listed path -/
theorem files_txt_mapping_injective_partial (paths : List Str) (hnd : paths.Nodup) (hsfx : NoSuffixPair paths) :
    MapOK .suffixFirst paths :=
  suffixFirst_mapOK paths hnd hsfx

example : NoSuffixPair ["a.c".toList, "d/b.c".toList, "ba.cpp".toList] ∧ ["a.c".toList, "d/b.c".toList, "ba.cpp".toList].Nodup := by
  decide +kernel

/-- **Transparency (the property, for the code as it is: commits 72c97eb + 249f096).**  For every hash function, per-file
    analysis, summaries and whole-program analysis: every run of every history over one build directory – any edits: token
    edits, line and column shifts of any size, comment edits, header edits, adding / removing / renaming / touching files –
    reports what a run without build directory reports, given
    * `hinj`  no two hash inputs of the history collide,
    * `hpath` toolinfo starts with `<len>:<path>` (what CppCheck::calculateHash writes: `current_toolinfo_path_first`),
    * `hopt`  toolinfo determines the option values (every history that changes no option; C19 otherwise),
    * `hnd`   a run lists no path twice,
    and excluding the two defects that remain in the code (known findings):
    * `hmac`  no macro-scoped suppression decides a replayed finding,
    * `hsum`  no result depends on the function-return summaries loaded from the build directory. -/
theorem history_transparent_partial (W : World H S F) (t0 : Tree) (evs : List Event)
    (henc : W.enc = Encoding.fixed) (hlk : W.lk = .exactFirst)
    (hinj : HashInjOn W ((runsOf t0 evs).flatMap (·.2)))
    (hpath : ∀ r ∈ runsOf t0 evs, ∀ i ∈ r.2, PathPrefixed i)
    (hopt : OptsDetermined ((runsOf t0 evs).flatMap (·.2)))
    (hnd : ∀ r ∈ runsOf t0 evs, (r.2.map (·.path)).Nodup)
    (hmac : ∀ r ∈ runsOf t0 evs, MacroFree W r.1 r.2)
    (hsum : ∀ r ∈ cachedRuns W ([], []) t0 evs, SummFree W r.1 r.2) :
    execCached W ([], []) t0 evs = execFresh W t0 evs := by
  refine history_transparent_generic W t0 evs hinj ?_ hmac ?_ hsum
  · rw [henc]
    refine fixed_key_faithful _ ?_ hopt
    intro i hi
    obtain ⟨r, hr, hir⟩ := List.mem_flatMap.mp hi
    exact hpath r hr i hir
  · intro r hr; rw [hlk]; exact exactFirst_mapOK _ (hnd r hr)

/-- the history of F3 under the current code: the hypotheses hold and both runs are transparent -/
example :
    let W := toyWorld Encoding.fixed .exactFirst
    let t0 : Tree := [(mkInput "t.c" [("x", 1, 1), ("!", 1, 25)]).withPathPrefix]
    let evs := [Event.run showAll, .edit (shiftLines "t.c".toList 256), .run showAll]
    (∀ r ∈ runsOf t0 evs, ∀ i ∈ r.2, PathPrefixed i) ∧ OptsDetermined ((runsOf t0 evs).flatMap (·.2))
    ∧ (∀ r ∈ runsOf t0 evs, (r.2.map (·.path)).Nodup)
    ∧ (∀ r ∈ runsOf t0 evs, MacroFree W r.1 r.2) ∧ (∀ r ∈ cachedRuns W ([], []) t0 evs, SummFree W r.1 r.2)
    ∧ (execCached W ([], []) t0 evs).map (·.perFile.flatten.map (·.line)) = [[1], [257]] := by
  refine ⟨by decide +kernel, by decide +kernel, by decide +kernel, by decide +kernel, by decide +kernel, by decide +kernel⟩

/-! ## the cache document: findings and whole-program information interleaved -/

/-- **replay reads every finding.** Whatever the number of preprocessor configurations and however their findings and `<FileInfo>`
    elements interleave in the cache file, `cachedErrors` returns exactly the findings that were written, in order -/
theorem cachedErrors_all {I : Type} (blocks : List (List Finding × List I)) :
    cachedErrors (writeDoc blocks) = blocks.flatMap (·.1) := by
  induction blocks with
  | nil => rfl
  | cons b r ih =>
    have ih' : cachedErrors (List.flatMap (fun b => b.1.map DocChild.error ++ b.2.map (DocChild.fileInfo (I := I))) r)
        = List.flatMap (·.1) r := ih
    simp only [writeDoc, List.flatMap_cons, cachedErrors_append, cachedErrors_errors, cachedErrors_infos, List.append_nil, ih']

/-- … for any document at all: the findings read are the `<error>` children in document order (no hypothesis on the position) -/
theorem cachedErrors_any_interleaving {I : Type} (a b : List (DocChild I)) (f : Finding) :
    f ∈ cachedErrors (a ++ DocChild.error f :: b) := by
  simp [cachedErrors, DocChild.error?]

/-- a reader that stops at the first child that is not an `<error>` loses the findings of every later configuration
    (seeded change `C18-cached-errors-read-until-first-fileinfo`) -/
theorem errorPrefix_reader_counterexample :
    let f1 : Finding := { id := "a".toList, file := "a.c".toList, line := 11, col := 1, msg := [] }
    let f2 : Finding := { id := "b".toList, file := "a.c".toList, line := 18, col := 1, msg := [] }
    let doc := writeDoc [([f1], [()]), ([f2], [()])]
    readErrors .errorPrefix doc = [f1] ∧ readErrors .allChildren doc = [f1, f2] := by
  refine ⟨by decide +kernel, by decide +kernel⟩

/-- AnalyzerInformation::skipAnalysis visits all children (translated on every run) -/
theorem current_reader_all : Cppcheck.Gen.HashInput.errorReader = .allChildren := by decide

/-- the `findings` component of a cache entry (what `reuse` hands to the replay) is what the translated reader returns for the document the
    analysis wrote, for every split of the analysis' findings into configuration blocks with any `<FileInfo>` elements in between -/
theorem entry_findings_from_document {I : Type} (W : World H S F) (sr : SummRet) (i : FileInput) (blocks : List (List Finding × List I))
    (h : blocks.flatMap (·.1) = (W.analyze sr i.view).map Finding.stored) :
    readErrors Cppcheck.Gen.HashInput.errorReader (writeDoc blocks) = (entryOf W sr i).findings := by
  rw [current_reader_all]
  simp only [readErrors, cachedErrors_all, h, entryOf]

/-! ## several jobs -/

/-- **any worker order.** A run whose workers finish the listed files in any order (a permutation; one file = one atomic step,
    the workers write pairwise different cache files by `MapOK`) reports the whole-program findings of a run without build
    directory and, per file, the findings of a run without build directory; the invariant the history induction needs is
    preserved, so `history_transparent_partial` holds for every schedule of every run.  (Two workers inside *one* cache file and
    the additional in-memory whole-program pass of `-j1` are outside the model.) -/
theorem run_any_worker_order (W : World H S F) (L : List FileInput) (vis : Finding → Bool)
    (hinj : HashInjOn W L) (henc : KeyFaithfulOn W.enc L)
    (st : BdState H S F) (hbd : Inv W L st.1) (files order : List FileInput) (hperm : order.Perm files) (hL : ∀ i ∈ files, i ∈ L)
    (hmac : MacroFree W vis files) (hsr : SummFree W (srOf W st.1 st.2) files) (hmap : MapOK W.lk (files.map (·.path))) :
    (runWithCacheSched W vis st files order).2.whole = (runFresh W vis files).whole
    ∧ (runWithCacheSched W vis st files order).2.perFile = (runFresh W vis order).perFile
    ∧ Inv W L (runWithCacheSched W vis st files order).1.1 :=
  runWithCacheSched_spec W L vis hinj henc st hbd files order hperm hL hmac hsr hmap

/-- a reversed worker order on a two-file run (first run of a build directory, so `Inv` holds trivially) -/
example :
    let W := toyWorld Encoding.fixed .exactFirst
    let files : Tree := [(mkInput "a.c" [("?", 1, 1), ("!", 2, 1)]).withPathPrefix, (mkInput "b.c" [("?", 1, 1)]).withPathPrefix]
    files.reverse.Perm files ∧ HashInjOn W files ∧ KeyFaithfulOn W.enc files ∧ MacroFree W showAll files
    ∧ SummFree W (srOf W ([] : BuildDir Str (List RawTok) Bool) []) files ∧ MapOK W.lk (files.map (·.path))
    ∧ (runWithCacheSched W showAll ([], []) files files.reverse).2.whole.map (·.file) = ["a.c".toList, "b.c".toList] := by
  refine ⟨List.reverse_perm _, by decide +kernel, by decide +kernel, by decide +kernel, by decide +kernel, by decide +kernel, by decide +kernel⟩

/-! ## the collision hypothesis: satisfiable by a lossy hash, and necessary -/

/-- the collision hypothesis is met by a hash that is **not** injective: a 16-bit polynomial hash (`"Aa"` and `"BB"` collide) is
    collision-free on this history, which satisfies every other hypothesis too, under the current key composition and lookup -/
example :
    let W := toyWorldH lossyHash Encoding.fixed .exactFirst
    let t0 : Tree := [(mkInput "t.c" [("x", 1, 1), ("!", 1, 25)]).withPathPrefix, (mkInput "u.c" [("?", 2, 1)]).withPathPrefix]
    let evs := [Event.run showAll, .edit (shiftLines "t.c".toList 256), .run showAll, .run showAll]
    ¬ Function.Injective W.hash
    ∧ HashInjOn W ((runsOf t0 evs).flatMap (·.2))
    ∧ (∀ r ∈ runsOf t0 evs, ∀ i ∈ r.2, PathPrefixed i) ∧ OptsDetermined ((runsOf t0 evs).flatMap (·.2))
    ∧ (∀ r ∈ runsOf t0 evs, (r.2.map (·.path)).Nodup)
    ∧ (∀ r ∈ runsOf t0 evs, MacroFree W r.1 r.2) ∧ (∀ r ∈ cachedRuns W ([], []) t0 evs, SummFree W r.1 r.2)
    ∧ (execCached W ([], []) t0 evs).map (·.perFile.flatten.map (·.line)) = [[1], [257], [257]] := by
  refine ⟨fun h => absurd (@h "Aa".toList "BB".toList (by decide +kernel)) (by decide +kernel),
    by decide +kernel, by decide +kernel, by decide +kernel, by decide +kernel, by decide +kernel, by decide +kernel, by decide +kernel⟩

/-- … and it is necessary: with a hash that maps the two versions of `t.c` to the same value the edited file is served the old result -/
theorem hash_collision_counterexample :
    let W := toyWorldH (fun _ => (0 : Nat)) Encoding.fixed .exactFirst
    let t0 : Tree := [(mkInput "t.c" [("x", 1, 1), ("!", 1, 25)]).withPathPrefix]
    let evs := [Event.run showAll, .edit (shiftLines "t.c".toList 3), .run showAll]
    ¬ HashInjOn W ((runsOf t0 evs).flatMap (·.2))
    ∧ ((execCached W ([], []) t0 evs).map (·.perFile.flatten.map (·.line)) = [[1], [1]])
    ∧ ((execFresh W t0 evs).map (·.perFile.flatten.map (·.line)) = [[1], [4]]) := by
  refine ⟨by decide +kernel, by decide +kernel, by decide +kernel⟩

/-! ## what the code composes today (regenerated from the source on every run) -/

/-- Preprocessor::calculateHash composes the uniquely decodable hash data -/
theorem current_encoding_fixed : Cppcheck.Gen.HashInput.encoding = Encoding.fixed := by decide

/-- getAnalyzerInfoFileFromFilesTxt prefers the exact path -/
theorem current_lookup_exact : Cppcheck.Gen.HashInput.lookupKind = .exactFirst := by decide

/-- CppCheck::calculateHash writes `<len>:<path>` first: every toolinfo it renders is `PathPrefixed` -/
theorem current_toolinfo_path_first (sv : SettingsView) (ti : Str)
    (h : renderToolinfo Cppcheck.Gen.HashInput.toolinfoItems sv = some ti) :
    (dec sv.filePath.length ++ ':' :: sv.filePath) <+: ti :=
  render_pathPrefixed (Cppcheck.Gen.HashInput.toolinfoItems.drop 3) sv ti (by
    have : Cppcheck.Gen.HashInput.toolinfoItems
        = .filePathLen :: .lit ':' :: .filePath :: Cppcheck.Gen.HashInput.toolinfoItems.drop 3 := by decide
    rw [this] at h; exact h)

/-- every field the translated toolinfo chain reads is one the model's `SettingsView` carries -/
theorem current_toolinfo_fields_known :
    ∀ it ∈ Cppcheck.Gen.HashInput.toolinfoItems, ∀ f ∈ it.fields,
      f ∈ ["cppcheckCfgProductName", "severity:warning", "severity:style", "severity:performance", "severity:portability",
           "severity:information", "userDefines", "checkConfiguration", "force", "maxConfigsOption", "checkLevel", "addonInfos",
           "premiumArgs", "suppressions", "certainty:inconclusive", "checks:unusedFunction", "checks:missingInclude", "userUndefs",
           "standards", "platform", "libraries"] := by
  decide

/-! ## inputs built from settings satisfy `hpath` -/

/-- the cache-key input CppCheck::checkInternal builds for a file (toolinfo rendered by the translated chain from the settings,
    `filePath` = the file's path) is `PathPrefixed`: `hpath` holds for every input of this form -/
theorem ofSettings_pathPrefixed (sv : SettingsView) (main : List RawTok) (headers : List Header) (opts : Str) (i : FileInput)
    (h : FileInput.ofSettings Cppcheck.Gen.HashInput.toolinfoItems sv main headers opts = some i) : PathPrefixed i := by
  unfold FileInput.ofSettings at h
  cases hr : renderToolinfo Cppcheck.Gen.HashInput.toolinfoItems sv with
  | none => simp [hr] at h
  | some ti =>
    simp only [hr, Option.map_some, Option.some.injEq] at h
    subst h
    exact current_toolinfo_path_first sv ti hr

end Cppcheck.Cache

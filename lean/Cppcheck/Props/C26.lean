import Cppcheck.Proofs.Template
import Cppcheck.Proofs.XmlEsc
import Cppcheck.Proofs.Sarif
import Cppcheck.Gen.TinyXmlEntities
import Cppcheck.Gen.Templates
import Cppcheck.Gen.RngAttrs
/-
C26 — property theorems (reports are faithful in every output format).
-/
namespace Cppcheck.C26
open Cppcheck.XmlEsc Cppcheck.Template Cppcheck.Sarif

/-! ## translator obligations -/

/-- T1: the entity table, `ENTITY_RANGE` and the restricted flags extracted from the working tree's tinyxml2 are the
    ones the model (`printString`) and every theorem below use. -/
theorem gen_entities_eq :
    Gen.TinyXmlEntities.entities = tinyEntities ∧ Gen.TinyXmlEntities.entityRange = entityRange ∧
    Gen.TinyXmlEntities.restrictedFlags = ['&', '<', '>'] := by decide

/-- T2: every predefined `--template` format of cmdlineparser.cpp (and the default), after the static substitution
    with or without colours, is a well-formed template — so `render_eq_spec_partial` applies to all of them. -/
theorem predefined_templates_wf :
    ∀ t ∈ Gen.Templates.predefined, ∀ erase ∈ [true, false], ∀ colors ∈ [true, false],
      (parseTemplate (substituteStatic erase colors t.2.1)).isSome = true ∧
      (parseTemplate (substituteStatic erase colors t.2.2)).isSome = true := by decide +kernel

/-! ## XML output -/

/-- **XML carries the finding** (partial: the full statement is refuted below).
    For every finding whose *unsanitised* strings (id, guideline, classification, file0, file names, symbol names —
    the ones `toXML` passes to tinyxml2 without `fixInvalidChars`) hold no C0 control byte and are valid UTF-8, a
    conforming reader accepts `toXML f` and recovers exactly `sanitize f`: the documented fields, messages / remark /
    location info with their non-printable bytes written as `\ooo` — whatever bytes those hold. -/
theorem toXML_roundtrip_partial (f : Finding) (h : RawOK f = true) : parseError (toXML f) = some (sanitize f) := by
  unfold parseError
  rw [readXml_toXML f h]
  exact readError_events f

/-- … in particular the output is well-formed.  `wf` is acceptance by the model's reader `XmlRd`, a strict *subset* of
    XML 1.0; that "XmlRd accepts ⇒ a conforming processor accepts, with the same content" is the trusted link, checked
    on every run against expat (tie R: every real output, and mutated documents in that direction). -/
theorem toXML_wf_partial (f : Finding) (h : RawOK f = true) : wf (toXML f) = true := by
  unfold wf
  rw [readXml_toXML f h]; rfl

/-- `RawOK` does not look at the message texts, the remark or the location infos: arbitrary bytes there never break
    the report (they go through `fixInvalidChars`) -/
theorem rawOK_ignores_messages (f : Finding) (m v r : Str) (infos : Loc → Str) :
    RawOK { f with shortMsg := m, verboseMsg := v, remark := r, stack := f.stack.map (fun l => { l with info := infos l }) } =
      RawOK f := by
  unfold RawOK
  simp [List.all_map, Function.comp_def]

/-- the hypothesis is satisfiable by a hostile case: every XML-special character, control bytes, NUL and invalid
    UTF-8 in message and info, UTF-8 and XML-special characters in the file name and symbol -/
example : RawOK { id := "nullPointer".toList, severity := 1, cwe := 476, inconclusive := true,
                  shortMsg := ['<', '&', '"', '\'', '>', Char.ofNat 1, Char.ofNat 0, Char.ofNat 0xE9, '\n'],
                  verboseMsg := "v".toList, symbols := "a<b\nc".toList,
                  stack := [⟨[Char.ofNat 0xC3, Char.ofNat 0xA9, '&', '.', 'c'], "o.c".toList, 3, 5, [Char.ofNat 7]⟩] } = true := by
  decide +kernel

def xmlWitness : Finding :=
  { id := "x".toList, severity := 1, shortMsg := "m".toList, verboseMsg := "m".toList,
    stack := [⟨['a', Char.ofNat 1, '.', 'c'], ['a', Char.ofNat 1, '.', 'c'], 1, 1, []⟩] }

/-- **F26b** — the full statement is false of the code: a control byte in a file name is written raw, and no XML
    processor accepts the result. -/
theorem toXML_wf_counterexample : ¬ ∀ f : Finding, wf (toXML f) = true := by
  intro h
  have := h xmlWitness
  revert this
  decide +kernel

/-- a tab in a file name keeps the report well-formed but is read back as a blank (attribute-value normalisation) -/
theorem toXML_roundtrip_counterexample :
    ∃ f : Finding, wf (toXML f) = true ∧ parseError (toXML f) ≠ some (sanitize f) := by
  refine ⟨{ id := "x".toList, severity := 1, shortMsg := "m".toList, verboseMsg := "m".toList,
            stack := [⟨['a', '\t', 'b'], ['a', '\t', 'b'], 1, 1, []⟩] }, ?_, ?_⟩ <;> decide +kernel

/-! ### conformance to cppcheck-errors.rng (grammar extracted by the translator: `Gen.RngAttrs`) -/

theorem rng_els : (lookupEl Gen.RngAttrs.elements "error".toList).isSome = true ∧
    (lookupEl Gen.RngAttrs.elements "location".toList).isSome = true ∧
    (lookupEl Gen.RngAttrs.elements "symbol".toList).isSome = true ∧
    (elCh Gen.RngAttrs.elements "error".toList).contains "location".toList = true ∧
    (elCh Gen.RngAttrs.elements "error".toList).contains "symbol".toList = true := by decide +kernel

/-- every combination of the optional attributes `toXML` writes for a plain finding is admitted by the grammar -/
theorem rng_error_names : ∀ bcwe bhash binc bf0 : Bool,
    namesConform (elReq Gen.RngAttrs.elements "error".toList) (elOpt Gen.RngAttrs.elements "error".toList)
      (namesOf (errNameTable false false bcwe bhash binc bf0 false)) = true := by decide +kernel

theorem rng_loc_names : ∀ binfo : Bool,
    namesConform (elReq Gen.RngAttrs.elements "location".toList) (elOpt Gen.RngAttrs.elements "location".toList)
      (namesOf (locNameTable false binfo)) = true := by decide +kernel

theorem rng_sev : ∀ n, n < 7 → 1 ≤ n → Gen.RngAttrs.severityValues.contains (cstr (sevStr n)) = true := by decide +kernel

/-- **XML conforms to cppcheck-errors.rng** (element / attribute grammar; partial): for every finding without
    guideline / classification / remark, whose locations have `origfile = file`, with one of the six user-visible
    severities, the data carried by `toXML f` satisfies the grammar of the working tree's cppcheck-errors.rng —
    all required attributes present, no attribute outside the schema, severity among the listed values.
    (The excluded findings are the point of finding F26d: the schema does not know `origfile`, `remark`,
    `guideline`, `classification`, nor the severity `debug`.) -/
theorem toXML_conforms_rng_partial (f : Finding) (h : rngPlain f = true) :
    conformsRng Gen.RngAttrs.elements Gen.RngAttrs.severityValues (sanitize f) = true := by
  unfold rngPlain at h
  simp only [Bool.and_eq_true, decide_eq_true_eq, List.all_eq_true] at h
  obtain ⟨⟨⟨⟨⟨hgl, hcl⟩, hrem⟩, horig⟩, hs1⟩, hs2⟩ := h
  obtain ⟨e1, e2, e3, e4, e5⟩ := rng_els
  unfold conformsRng
  rw [e1, e2, e3, e4, e5, lookup_severity]
  simp only [Bool.true_and, Bool.or_true, Bool.and_true, Bool.and_eq_true, List.all_eq_true]
  refine ⟨⟨?_, ?_⟩, ?_⟩
  · show namesConform _ _ ((carried (errAttrTable f)).map (fun a => a.1)) = true
    rw [carried_names]
    have : (errAttrTable f).map (fun x => (x.1.toList, x.2.1)) =
        errNameTable (decide (f.guideline ≠ [])) (decide (f.classification ≠ [])) (decide (f.cwe ≠ 0)) (decide (f.hash ≠ 0))
          f.inconclusive (decide (f.file0 ≠ [])) (decide (f.remark ≠ [])) := rfl
    rw [this]
    simp only [hgl, hcl, hrem, ne_eq, not_true_eq_false, decide_false]
    exact rng_error_names _ _ _ _
  · exact rng_sev f.severity (by omega) hs1
  · intro la hla
    simp only [sanitize, List.mem_map, List.mem_reverse] at hla
    obtain ⟨l, hl, rfl⟩ := hla
    rw [carried_names]
    have : (locAttrTable l).map (fun x => (x.1.toList, x.2.1)) =
        locNameTable (decide (l.origFile ≠ l.file)) (decide (l.info ≠ [])) := rfl
    rw [this]
    have ho := horig l hl
    simp only [ho, ne_eq, not_true_eq_false, decide_false]
    exact rng_loc_names _

example : rngPlain { id := "nullPointer".toList, severity := 1, cwe := 476, inconclusive := true, file0 := "a.c".toList,
                     shortMsg := "m".toList, verboseMsg := "v".toList, symbols := "p".toList,
                     stack := [⟨"a.c".toList, "a.c".toList, 3, 5, "info".toList⟩] } = true := by decide +kernel

/-! ## SARIF output -/

/-- (tree level; `sarif_document` below connects it to the bytes)  **SARIF carries the located findings**: the result list is, in order, one result per finding with a call stack,
    and reading a result back gives the finding's id, short message, level (`sarifSeverity`) and per location the
    file, line and column (values below 1 written as 1). Findings *without* location are not in the report
    ("github only supports findings with locations"): `located`. -/
theorem sarif_results_tree (fs : List Finding) :
    (results fs).map readResult = (located fs).map (fun f => some (expectedResult f)) := by
  unfold results
  rw [List.map_map]
  apply List.map_congr_left
  intro f _
  exact readResult_resultJson f

/-- the rules are the ids of the located findings, each once, and every result refers to one of them -/
theorem sarif_rules_tree (fs : List Finding) :
    (rules fs).map (fun j => (j.get "id").bind Json.strVal) = (firstOfId (located fs) []).map (fun f => some f.id) ∧
    ((firstOfId (located fs) []).map (fun f => f.id)).Nodup ∧
    ∀ f ∈ located fs, f.id ∈ (firstOfId (located fs) []).map (fun f => f.id) := by
  refine ⟨?_, (firstOfId_spec (located fs) []).1, ?_⟩
  · unfold rules
    rw [List.map_map]
    apply List.map_congr_left
    intro f _
    exact ruleJson_id f
  · intro f hf
    rcases (firstOfId_spec (located fs) []).2.2 f hf with h | h
    · simp at h
    · exact h

/-- a finding without location is dropped from the SARIF report (stated, not a defect of the writer: it is the
    documented choice of sarifreport.cpp) -/
theorem sarif_drops_unlocated :
    ∃ f : Finding, f.severity ≠ 8 ∧ results [f] = [] := by
  refine ⟨{ id := "checkersReport".toList, severity := 6, shortMsg := "m".toList, verboseMsg := "m".toList }, by decide, by decide⟩

/-- **JSON strings are escaped faithfully**: for every byte string, a strict JSON string reader decodes what
    picojson's `serialize_str` wrote back to the same bytes (so quotes, backslashes, control bytes, DEL in messages,
    ids and file names never break the document structure). -/
theorem sarif_string_roundtrip (s rest : Str) : jsonStrDecode ((jsonStr s).drop 1 ++ rest) = some (s, rest) :=
  jsonStr_decode s rest

/-- **picojson's prettified serialisation is read back by a strict JSON reader**, for every tree (any strings, any
    integers, any nesting). -/
theorem json_serialize_roundtrip (j : Json) : jsonParse (serialize j) = some j :=
  jsonParse_serialize j

/-- **The SARIF document text is valid JSON and carries the located findings.**  The bytes `SarifReport::serialize`
    returns (the hand-spliced `"version"` member included) parse, with a strict JSON reader, to the document object;
    its `runs[0].results`, read back, are — in order — the expected result (id, short message, documented level
    `Spec.level`, file / line / column per location) of every finding that has a call stack; its
    `runs[0].tool.driver.rules` carry the pairwise distinct ids of those findings.
    For *all* finding lists and all bytes in every string (the byte-level JSON grammar does not look at bytes ≥ 0x80:
    whether the text is valid *UTF-8* is F26c, decided by P_impl). -/
theorem sarif_document (name version : Str) (fs : List Finding) :
    jsonParse (serializeSarif name version fs) = some (withVersion (doc name version fs)) ∧
    ((jsonParse (serializeSarif name version fs)).bind reportResults).map (fun rs => rs.map readResult) =
      some ((located fs).map (fun f => some (expectedResult f))) ∧
    ((jsonParse (serializeSarif name version fs)).bind reportRules).map (fun rs => rs.map (fun j => (j.get "id").bind Json.strVal)) =
      some ((firstOfId (located fs) []).map (fun f => some f.id)) := by
  have hp : jsonParse (serializeSarif name version fs) = some (withVersion (doc name version fs)) := by
    rw [serializeSarif_eq]; exact jsonParse_serialize _
  refine ⟨hp, ?_, ?_⟩
  · rw [hp]
    have : reportResults (withVersion (doc name version fs)) = some (results fs) := by
      simp [reportResults, withVersion, doc, Json.get, List.lookup]
    simp only [Option.bind_some, this, Option.map_some]
    rw [sarif_results_tree]
  · rw [hp]
    have : reportRules (withVersion (doc name version fs)) = some (rules fs) := by
      simp [reportRules, withVersion, doc, Json.get, List.lookup]
    simp only [Option.bind_some, this, Option.map_some]
    rw [(sarif_rules_tree fs).1]

/-- the level clause is the documented table, not the implementation's own function -/
theorem sarif_level_spec (f : Finding) : sarifSeverity f = Spec.level f := sarifSeverity_eq_spec f

/-! ## text output -/

/-- **Text = simultaneous substitution** (partial: the full statement is refuted below).
    For every finding, every message template `tf` and location template `tl` that tokenize (`parseTemplate`: no
    '{' inside a marker, no unterminated marker), if no substituted field value contains a '{', the text
    `ErrorMessage::toString` returns (`some`) and produces the one simultaneous substitution of the documented fields
    (`brk`: with or without the `pos2 == npos` guard in the `{inconclusive:` loop — see `render_hang_counterexample`). -/
theorem render_eq_spec_partial (brk : Bool) (src : Loc → Str) (f : Finding) (verbose : Bool) (tf tl : Str) (segsF segsL : List Seg)
    (hF : parseTemplate tf = some segsF) (hL : parseTemplate tl = some segsL) (hv : valuesOK f verbose = true) :
    toString brk src f verbose tf tl = some (Spec.render src f verbose segsF segsL) := by
  obtain ⟨wF, eF⟩ := parseTemplate_spec tf segsF hF
  obtain ⟨wL, eL⟩ := parseTemplate_spec tl segsL hL
  unfold valuesOK fieldValues at hv
  rw [List.all_eq_true] at hv
  have h0 := fun v hm => openFree_noOpen (hv v hm)
  have hfiles : ∀ l ∈ f.stack, noOpen l.file := fun l hl => h0 l.file (by
    simp only [List.mem_append, List.mem_map]; exact Or.inl (Or.inr ⟨l, hl, rfl⟩))
  have hinfos : ∀ l ∈ f.stack, noOpen (if l.info = [] then f.shortMsg else l.info) := fun l hl => h0 _ (by
    simp only [List.mem_append, List.mem_map]; exact Or.inr ⟨l, hl, rfl⟩)
  have hV : ValuesOK f verbose :=
    { id := h0 _ (by simp), cls := h0 _ (by simp), msg := h0 _ (by simp), remark := h0 _ (by simp), files := hfiles }
  rw [← eF, ← eL]
  exact toString_eq_spec brk src f verbose segsF segsL wF wL hV (fun _ => ⟨hfiles, hinfos⟩)

/-- the hypotheses are satisfiable by a non-trivial case: the `gcc`-like template with a two-location finding -/
example : ∃ segsF segsL,
    parseTemplate "{file}:{line}:{column}: warning: {message} [{id}]\n{code}".toList = some segsF ∧
    parseTemplate "{file}:{line}: note: {info}".toList = some segsL ∧
    valuesOK { id := "nullPointer".toList, severity := 1, shortMsg := "Null pointer dereference: p".toList,
               verboseMsg := "Null pointer dereference: p".toList,
               stack := [⟨"a.c".toList, "a.c".toList, 8, 5, "Assignment 'p=0'".toList⟩, ⟨"a.c".toList, "a.c".toList, 3, 6, []⟩] } false = true := by
  refine ⟨_, _, rfl, rfl, by decide⟩

def f10Witness : Finding :=
  { id := "preprocessorErrorDirective".toList, severity := 1, shortMsg := "#error see {line}".toList,
    verboseMsg := "#error see {line}".toList, stack := [⟨"a.c".toList, "a.c".toList, 3, 2, []⟩] }

/-- **F10** — the full statement is false of the code: the passes are sequential, so a `{line}` inside the message
    is rewritten by the later `{line}` pass (`#error see {line}` with `--template={message}` prints `#error see 3`). -/
theorem render_injection_counterexample (brk : Bool) :
    ¬ ∀ (f : Finding) (tf : Str) (segs : List Seg), parseTemplate tf = some segs →
        toString brk (fun _ => []) f false tf [] = some (Spec.render (fun _ => []) f false segs []) := by
  intro h
  have := h f10Witness "{message}".toList [.mk "message".toList] (by decide)
  revert this
  cases brk <;> decide

/-- what the code prints / what the documented meaning is, for the witness -/
example : toString false (fun _ => []) f10Witness false "{message}".toList [] = some "#error see 3".toList := by decide

/-- **F26f** — a template that does not tokenize can keep `toString` from returning: without the `pos2 == npos` guard an
    unterminated `{inconclusive:` at offset 0 makes the search string empty (`npos - 0 + 1` wraps to 0) and
    `findAndReplace(result, "", "")` never advances; with the guard the text is left as written. -/
theorem render_hang_counterexample :
    toString false (fun _ => []) f10Witness false "{inconclusive:".toList [] = none ∧
    toString true (fun _ => []) f10Witness false "{inconclusive:".toList [] = some "{inconclusive:".toList ∧
    parseTemplate "{inconclusive:".toList = none := by decide
example : Spec.render (fun _ => []) f10Witness false [.mk "message".toList] [] = "#error see {line}".toList := by decide

/-! ## the `{code}` field reads the original file -/

theorem srcOf_rewrite (files : Str → Int → Str) (g : Str → Str) (l : Loc) :
    srcOf files { l with file := g l.file } = srcOf files l := rfl

/-- the `{code}` template on a finding with a call stack: source line of the ORIGINAL file, line end, caret -/
theorem code_field (brk : Bool) (files : Str → Int → Str) (f : Finding) (verbose : Bool) (last : Loc)
    (h : f.stack.getLast? = some last) :
    mainText brk (srcOf files) f verbose "{code}".toList =
      some (readCode (files last.origFile last.line) last.column ['\n']) := by
  unfold mainText
  have e1 : ∀ v, far "{code}".toList "{id}".toList v = "{code}".toList := fun v => rfl
  simp only [e1]
  have e2 : find mInc "{code}".toList 0 = none := by decide
  rw [e2]
  simp only [inconclusiveLoop]
  have e3 : ∀ v, far "{code}".toList "{severity}".toList v = "{code}".toList := fun v => rfl
  have e4 : ∀ v, far "{code}".toList "{cwe}".toList v = "{code}".toList := fun v => rfl
  have e5 : ∀ v, far "{code}".toList "{message}".toList v = "{code}".toList := fun v => rfl
  have e6 : ∀ v, far "{code}".toList "{remark}".toList v = "{code}".toList := fun v => rfl
  have e7 : ∀ v, far "{code}".toList "{callstack}".toList v = "{code}".toList := fun v => rfl
  have e8 : ∀ v, far "{code}".toList "{file}".toList v = "{code}".toList := fun v => rfl
  have e9 : ∀ v, far "{code}".toList "{line}".toList v = "{code}".toList := fun v => rfl
  have e10 : ∀ v, far "{code}".toList "{column}".toList v = "{code}".toList := fun v => rfl
  have e11 : ∀ v, far "{code}".toList "{code}".toList v = v := by
    intro v; simp [far, farGo, List.isPrefixOf]
  have e12 : endlOf "{code}".toList = ['\n'] := by decide
  simp only [e3, e4, e5, e6, h, e7, e8, e9, e10, e11, e12, srcOf]

theorem loc_code_field (files : Str → Int → Str) (shortMsg : Str) (l : Loc) :
    locText (srcOf files) shortMsg "{code}".toList l = readCode (files l.origFile l.line) l.column ['\n'] := by
  unfold locText
  have e8 : ∀ v, far "{code}".toList "{file}".toList v = "{code}".toList := fun v => rfl
  have e9 : ∀ v, far "{code}".toList "{line}".toList v = "{code}".toList := fun v => rfl
  have e10 : ∀ v, far "{code}".toList "{column}".toList v = "{code}".toList := fun v => rfl
  have e10' : ∀ v, far "{code}".toList "{info}".toList v = "{code}".toList := fun v => rfl
  have e11 : ∀ v, far "{code}".toList "{code}".toList v = v := by
    intro v; simp [far, farGo, List.isPrefixOf]
  have e12 : endlOf "{code}".toList = ['\n'] := by decide
  simp only [e8, e9, e10, e10', e11, e12, srcOf]

/-- **the `{code}` field does not depend on the display path**: rewriting the display names of all locations (as
    `-rp=<base>` / `setfile` do) leaves the text of the `{code}` templates unchanged — the line shown is read from the
    original file -/
theorem toString_code_independent_of_display_path (brk : Bool) (files : Str → Int → Str) (f : Finding) (verbose : Bool)
    (g : Str → Str) :
    Template.toString brk (srcOf files) (rewriteDisplay g f) verbose "{code}".toList "{code}".toList =
      Template.toString brk (srcOf files) f verbose "{code}".toList "{code}".toList := by
  have hm : mainText brk (srcOf files) (rewriteDisplay g f) verbose "{code}".toList =
      mainText brk (srcOf files) f verbose "{code}".toList := by
    cases h : f.stack.getLast? with
    | some last =>
      have h' : (rewriteDisplay g f).stack.getLast? = some { last with file := g last.file } := by
        simp [rewriteDisplay, List.getLast?_map, h]
      rw [code_field brk files f verbose last h, code_field brk files _ verbose _ h']
    | none =>
      have hs : f.stack = [] := List.getLast?_eq_none_iff.mp h
      have : rewriteDisplay g f = f := by
        cases f; simp only [rewriteDisplay] at *; simp [hs]
      rw [this]
  unfold Template.toString
  rw [hm]
  cases mainText brk (srcOf files) f verbose "{code}".toList with
  | none => rfl
  | some r =>
    simp only [rewriteDisplay, List.length_map, List.flatMap_map, loc_code_field]

/-! ## each finding once (`StdLogger::reportErr`) -/

/-- **Each finding once**: the renderings handed to the writer are pairwise distinct, and the rendering of every
    non-internal finding of the run is among them. -/
theorem each_once (render : Finding → Str) (fs : List Finding) :
    ((stdLogger render fs).map render).Nodup ∧
    ∀ f ∈ fs, f.severity ≠ 8 → render f ∈ (stdLogger render fs).map render := by
  refine ⟨each_once_nodup render fs [], ?_⟩
  intro f hf hsev
  rcases each_once_covered render fs [] f hf hsev with h | h
  · simp at h
  · exact h

/-- when the text renderings of the non-internal findings are pairwise distinct, no finding is dropped — the
    hypothesis under which the XML / SARIF writers receive every finding (they share the text-keyed filter) -/
theorem stdLogger_all_partial (render : Finding → Str) (fs : List Finding)
    (h : ((fs.filter (fun f => f.severity ≠ 8)).map render).Nodup) :
    stdLogger render fs = fs.filter (fun f => f.severity ≠ 8) :=
  stdLoggerGo_all render fs [] h (fun _ _ _ hm => by simp at hm)

example : (([{ id := "a".toList, severity := 1, shortMsg := "x".toList, verboseMsg := "x".toList },
             { id := "b".toList, severity := 2, shortMsg := "y".toList, verboseMsg := "y".toList }] : List Finding).filter
            (fun f => f.severity ≠ 8)).map (fun f => (toString true (fun _ => []) f false "{id}:{message}".toList []).getD []) |>.Nodup := by
  decide +kernel

/-- **Report level (XML)**: the `<error>` elements of a report are `toXML` of the findings the duplicate filter lets
    through, in order.  If every finding of the run has plain unsanitised strings (`RawOK`), each of these elements is
    accepted by the reader and carries exactly `sanitize f`; if moreover the text renderings of the non-internal
    findings are pairwise distinct, the elements are those of *all* non-internal findings of the run, each once.
    (Header and footer are two literals of `getXMLHeader/getXMLFooter`; they are composed with the real functions in
    the CLI tie C5, not in Lean.) -/
theorem xml_report_partial (render : Finding → Str) (fs : List Finding) (hraw : ∀ f ∈ fs, RawOK f = true) :
    (stdLogger render fs).map (fun f => parseError (toXML f)) = (stdLogger render fs).map (fun f => some (sanitize f)) ∧
    (((fs.filter (fun f => f.severity ≠ 8)).map render).Nodup →
      (stdLogger render fs).map (fun f => parseError (toXML f)) =
        (fs.filter (fun f => f.severity ≠ 8)).map (fun f => some (sanitize f))) := by
  have h1 : (stdLogger render fs).map (fun f => parseError (toXML f)) = (stdLogger render fs).map (fun f => some (sanitize f)) := by
    apply List.map_congr_left
    intro f hf
    exact toXML_roundtrip_partial f (hraw f (stdLoggerGo_mem render fs [] f hf).1)
  refine ⟨h1, fun hnd => ?_⟩
  rw [h1, stdLogger_all_partial render fs hnd]

/-- the filter key is the *text*: two findings that differ only in a field the template does not show (here the CWE
    number under `{file}:{line}: {message} [{id}]`) reach the XML / SARIF writer as one -/
theorem xml_dedup_by_text_counterexample :
    ∃ f g : Finding, f ≠ g ∧ toXML f ≠ toXML g ∧
      stdLogger (fun x => (toString true (fun _ => []) x false "{file}:{line}: {message} [{id}]".toList []).getD []) [f, g] = [f] := by
  refine ⟨{ id := "a".toList, severity := 1, cwe := 1, shortMsg := "m".toList, verboseMsg := "m".toList },
          { id := "a".toList, severity := 1, cwe := 2, shortMsg := "m".toList, verboseMsg := "m".toList }, ?_, ?_, ?_⟩ <;> decide

end Cppcheck.C26

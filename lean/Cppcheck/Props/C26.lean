import Cppcheck.Proofs.Template
import Cppcheck.Model.Sarif
import Cppcheck.Gen.TinyXmlEntities
import Cppcheck.Gen.Templates
import Cppcheck.Gen.RngAttrs
/-
C26 — property theorems (reports are faithful in every output format).
-/
namespace Cppcheck.C26
open Cppcheck.XmlEsc Cppcheck.Template Cppcheck.Sarif

/-! ## translator obligations -/

/-- T1: the entity table, `ENTITY_RANGE` and the restricted flags extracted from the working tree's tinyxml2 are the
    ones the model (`printString`) and every theorem below use. -/
theorem gen_entities_eq :
    Gen.TinyXmlEntities.entities = tinyEntities ∧ Gen.TinyXmlEntities.entityRange = entityRange ∧
    Gen.TinyXmlEntities.restrictedFlags = ['&', '<', '>'] := by decide

/-- T2: every predefined `--template` format of cmdlineparser.cpp (and the default), after the static substitution
    with or without colours, is a well-formed template — so `render_eq_spec_partial` applies to all of them. -/
theorem predefined_templates_wf :
    ∀ t ∈ Gen.Templates.predefined, ∀ erase ∈ [true, false], ∀ colors ∈ [true, false],
      (parseTemplate (substituteStatic erase colors t.2.1)).isSome = true ∧
      (parseTemplate (substituteStatic erase colors t.2.2)).isSome = true := by decide +kernel

/-! ## text output -/

theorem openFree_noOpen {s : Str} (h : openFree s = true) : noOpen s := by
  intro c hc
  unfold openFree at h
  rw [List.all_eq_true] at h
  have := h c hc
  simpa using this

/-- **Text = simultaneous substitution** (partial: the full statement is refuted below).
    For every finding, every message template `tf` and location template `tl` that tokenize (`parseTemplate`: no
    '{' inside a marker, no unterminated marker), if no substituted field value contains a '{', the text
    `ErrorMessage::toString` produces is the one simultaneous substitution of the documented fields. -/
theorem render_eq_spec_partial (src : Loc → Str) (f : Finding) (verbose : Bool) (tf tl : Str) (segsF segsL : List Seg)
    (hF : parseTemplate tf = some segsF) (hL : parseTemplate tl = some segsL) (hv : valuesOK f verbose = true) :
    toString src f verbose tf tl = Spec.render src f verbose segsF segsL := by
  obtain ⟨wF, eF⟩ := parseTemplate_spec tf segsF hF
  obtain ⟨wL, eL⟩ := parseTemplate_spec tl segsL hL
  unfold valuesOK fieldValues at hv
  rw [List.all_eq_true] at hv
  have h0 := fun v hm => openFree_noOpen (hv v hm)
  have hfiles : ∀ l ∈ f.stack, noOpen l.file := fun l hl => h0 l.file (by
    simp only [List.mem_append, List.mem_map]; exact Or.inl (Or.inr ⟨l, hl, rfl⟩))
  have hinfos : ∀ l ∈ f.stack, noOpen (if l.info = [] then f.shortMsg else l.info) := fun l hl => h0 _ (by
    simp only [List.mem_append, List.mem_map]; exact Or.inr ⟨l, hl, rfl⟩)
  have hV : ValuesOK f verbose :=
    { id := h0 _ (by simp), cls := h0 _ (by simp), msg := h0 _ (by simp), remark := h0 _ (by simp), files := hfiles }
  rw [← eF, ← eL]
  exact toString_eq_spec src f verbose segsF segsL wF wL hV (fun _ => ⟨hfiles, hinfos⟩)

/-- the hypotheses are satisfiable by a non-trivial case: the `gcc`-like template with a two-location finding -/
example : ∃ segsF segsL,
    parseTemplate "{file}:{line}:{column}: warning: {message} [{id}]\n{code}".toList = some segsF ∧
    parseTemplate "{file}:{line}: note: {info}".toList = some segsL ∧
    valuesOK { id := "nullPointer".toList, severity := 1, shortMsg := "Null pointer dereference: p".toList,
               verboseMsg := "Null pointer dereference: p".toList,
               stack := [⟨"a.c".toList, "a.c".toList, 8, 5, "Assignment 'p=0'".toList⟩, ⟨"a.c".toList, "a.c".toList, 3, 6, []⟩] } false = true := by
  refine ⟨_, _, rfl, rfl, by decide⟩

def f10Witness : Finding :=
  { id := "preprocessorErrorDirective".toList, severity := 1, shortMsg := "#error see {line}".toList,
    verboseMsg := "#error see {line}".toList, stack := [⟨"a.c".toList, "a.c".toList, 3, 2, []⟩] }

/-- **F10** — the full statement is false of the code: the passes are sequential, so a `{line}` inside the message
    is rewritten by the later `{line}` pass (`#error see {line}` with `--template={message}` prints `#error see 3`). -/
theorem render_injection_counterexample :
    ¬ ∀ (f : Finding) (tf : Str) (segs : List Seg), parseTemplate tf = some segs →
        toString (fun _ => []) f false tf [] = Spec.render (fun _ => []) f false segs [] := by
  intro h
  have := h f10Witness "{message}".toList [.mk "message".toList] (by decide)
  revert this
  decide

/-- what the code prints / what the documented meaning is, for the witness -/
example : toString (fun _ => []) f10Witness false "{message}".toList [] = "#error see 3".toList := by decide
example : Spec.render (fun _ => []) f10Witness false [.mk "message".toList] [] = "#error see {line}".toList := by decide

/-! ## each finding once (`StdLogger::reportErr`) -/

theorem stdLoggerGo_mem (render : Finding → Str) : ∀ (fs : List Finding) (shown : List Str) (f : Finding),
    f ∈ stdLoggerGo render fs shown → f ∈ fs ∧ f.severity ≠ 8 ∧ render f ∉ shown := by
  intro fs
  induction fs with
  | nil => intro shown f h; simp [stdLoggerGo] at h
  | cons g r ih =>
    intro shown f h
    simp only [stdLoggerGo] at h
    split at h
    · have := ih shown f h; exact ⟨by simp [this.1], this.2⟩
    · rename_i hsev
      split at h
      · have := ih shown f h; exact ⟨by simp [this.1], this.2⟩
      · rename_i hshown
        simp only [List.mem_cons] at h
        rcases h with rfl | h
        · exact ⟨by simp, hsev, by simpa using hshown⟩
        · have := ih (render g :: shown) f h
          exact ⟨by simp [this.1], this.2.1, fun hm => this.2.2 (by simp [hm])⟩

/-- no rendering is printed twice -/
theorem each_once_nodup (render : Finding → Str) : ∀ (fs : List Finding) (shown : List Str),
    ((stdLoggerGo render fs shown).map render).Nodup := by
  intro fs
  induction fs with
  | nil => intro shown; simp [stdLoggerGo]
  | cons g r ih =>
    intro shown
    simp only [stdLoggerGo]
    split
    · exact ih shown
    · split
      · exact ih shown
      · rw [List.map_cons, List.nodup_cons]
        refine ⟨?_, ih _⟩
        intro hm
        simp only [List.mem_map] at hm
        obtain ⟨f, hf, he⟩ := hm
        have := (stdLoggerGo_mem render r (render g :: shown) f hf).2.2
        exact this (by simp [he])

/-- every rendering of a non-internal finding is printed (so, with `each_once_nodup`, exactly once) -/
theorem each_once_covered (render : Finding → Str) : ∀ (fs : List Finding) (shown : List Str) (f : Finding),
    f ∈ fs → f.severity ≠ 8 → render f ∈ shown ∨ render f ∈ (stdLoggerGo render fs shown).map render := by
  intro fs
  induction fs with
  | nil => intro shown f h; simp at h
  | cons g r ih =>
    intro shown f hf hsev
    simp only [List.mem_cons] at hf
    simp only [stdLoggerGo]
    rcases hf with rfl | hf
    · rw [if_neg hsev]
      split
      · rename_i hs; left; simpa using hs
      · right; simp
    · split
      · exact ih shown f hf hsev
      · split
        · exact ih shown f hf hsev
        · rcases ih (render g :: shown) f hf hsev with h | h
          · simp only [List.mem_cons] at h
            rcases h with h | h
            · right; simp [h]
            · left; exact h
          · right; simp only [List.map_cons, List.mem_cons]; right; exact h

/-- **Each finding once**: the renderings handed to the writer are pairwise distinct, and the rendering of every
    non-internal finding of the run is among them. -/
theorem each_once (render : Finding → Str) (fs : List Finding) :
    ((stdLogger render fs).map render).Nodup ∧
    ∀ f ∈ fs, f.severity ≠ 8 → render f ∈ (stdLogger render fs).map render := by
  refine ⟨each_once_nodup render fs [], ?_⟩
  intro f hf hsev
  rcases each_once_covered render fs [] f hf hsev with h | h
  · simp at h
  · exact h

/-- when the text renderings of the non-internal findings are pairwise distinct, no finding is dropped — the
    hypothesis under which the XML / SARIF writers receive every finding (they share the text-keyed filter) -/
theorem stdLogger_all_partial (render : Finding → Str) : ∀ (fs : List Finding) (shown : List Str),
    ((fs.filter (fun f => f.severity ≠ 8)).map render).Nodup →
    (∀ f ∈ fs, f.severity ≠ 8 → render f ∉ shown) →
    stdLoggerGo render fs shown = fs.filter (fun f => f.severity ≠ 8) := by
  intro fs
  induction fs with
  | nil => intro shown _ _; rfl
  | cons g r ih =>
    intro shown hnd hns
    simp only [stdLoggerGo]
    by_cases hsev : g.severity = 8
    · rw [if_pos hsev]
      have : (g :: r).filter (fun f => decide (f.severity ≠ 8)) = r.filter (fun f => decide (f.severity ≠ 8)) := by
        simp [List.filter, hsev]
      rw [this] at hnd ⊢
      exact ih shown hnd (fun f hf => hns f (by simp [hf]))
    · rw [if_neg hsev]
      have hflt : (g :: r).filter (fun f => decide (f.severity ≠ 8)) = g :: r.filter (fun f => decide (f.severity ≠ 8)) := by
        simp [List.filter, hsev]
      rw [hflt] at hnd ⊢
      rw [List.map_cons, List.nodup_cons] at hnd
      have hg : render g ∉ shown := hns g (by simp) hsev
      have : shown.contains (render g) = false := by simpa using hg
      rw [this]
      simp only [Bool.false_eq_true, if_false]
      congr 1
      apply ih _ hnd.2
      intro f hf hfs hm
      simp only [List.mem_cons] at hm
      rcases hm with hm | hm
      · apply hnd.1
        rw [← hm]
        exact List.mem_map.mpr ⟨f, by simp [List.mem_filter, hf, hfs], rfl⟩
      · exact hns f (by simp [hf]) hfs hm

example : ((["a".toList, "b".toList]).map id).Nodup := by decide

/-- the filter key is the *text*: two findings that differ only in a field the template does not show (here the CWE
    number under `{file}:{line}: {message} [{id}]`) reach the XML / SARIF writer as one -/
theorem xml_dedup_by_text_counterexample :
    ∃ f g : Finding, f ≠ g ∧ toXML f ≠ toXML g ∧
      stdLogger (fun x => toString (fun _ => []) x false "{file}:{line}: {message} [{id}]".toList []) [f, g] = [f] := by
  refine ⟨{ id := "a".toList, severity := 1, cwe := 1, shortMsg := "m".toList, verboseMsg := "m".toList },
          { id := "a".toList, severity := 1, cwe := 2, shortMsg := "m".toList, verboseMsg := "m".toList }, ?_, ?_, ?_⟩ <;> decide

end Cppcheck.C26

import Cppcheck.Model.XmlEsc
import Cppcheck.Model.Template
import Cppcheck.Model.Sarif
import Cppcheck.Gen.TinyXmlEntities
import Cppcheck.Gen.Templates
import Cppcheck.Gen.RngAttrs
/-
C26 — property theorems (reports are faithful in every output format).
-/
namespace Cppcheck.C26
open Cppcheck.XmlEsc Cppcheck.Template Cppcheck.Sarif

/-- T1: the entity table, `ENTITY_RANGE` and the restricted flags extracted from the working tree's tinyxml2 are the
    ones the model (`printString`) and every theorem below use. -/
theorem gen_entities_eq :
    Gen.TinyXmlEntities.entities = tinyEntities ∧ Gen.TinyXmlEntities.entityRange = entityRange ∧
    Gen.TinyXmlEntities.restrictedFlags = ['&', '<', '>'] := by decide

end Cppcheck.C26

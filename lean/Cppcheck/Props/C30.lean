import Cppcheck.Proofs.LibValid
/-
C30 — library configuration semantics are applied as declared.

`v : ValidExpr` ranges over the documented grammar `range ::= n | n:m | n: | :m`, non-empty lists by `,`, with
arbitrary integer bounds; `v.render` is its text; `v.mem x` is the union of the intervals.  `isCompliant`,
`tokenize`, `isIntArgValid`, `isFloatArgValid` are the copies of the code (Model/LibValid.lean).
-/
namespace Cppcheck.LibValid
open Cppcheck.Wire

/-! ## 1. loading -/

/-- every expression of the documented grammar passes the load-time check of `<arg><valid>` -/
theorem render_compliant (v : ValidExpr) : isCompliant v.render = true :=
  isCompliant_renderRanges v.ranges (by simp [ValidExpr.ranges])

/-- a text with a character outside `0-9 : , + - . e E !` (e.g. any white space) is rejected at load time;
the empty text is rejected as well -/
theorem load_rejects_foreign (s : Str) (c : Char) (hc : c ∈ s) (hf : inAlphabet c = false) (x : Int) :
    isCompliant s = false ∧ loadAndCheckInt s x = .rejected := by
  have h : isCompliant s = false := by
    cases h : isCompliant s
    · rfl
    · have := (isCompliant_alphabet s h).2 c hc
      rw [this] at hf
      cases hf
  exact ⟨h, by simp [loadAndCheckInt, h]⟩

theorem load_rejects_empty (x : Int) : loadAndCheckInt [] x = .rejected := rfl

example : inAlphabet ' ' = false ∧ inAlphabet '\t' = false ∧ inAlphabet 'x' = false ∧ inAlphabet '_' = false := by decide

/-! ## 2. tokenisation and parsing -/

/-- the token list the acceptance loops see for a rendered expression (any length, any bounds) -/
theorem tokenize_render (v : ValidExpr) : tokenize v.render = rangesToks v.ranges :=
  tokenize_renderRanges v.ranges (by simp [ValidExpr.ranges])

/-- parsing the tokens of a rendered expression gives the expression back -/
theorem render_parse (v : ValidExpr) : parseValid v.render = some v := by
  unfold parseValid
  rw [tokenize_render, parseRanges_toks v.ranges _ (rangesToks_length v.ranges)]
  cases v
  rfl

/-! ## 3. Library::isIntArgValid -/

/-- Exact behaviour of the code on every expression whose bounds std::stoull accepts (|bound| < 2^64), for
every integer `x`: `x` is accepted iff it lies in the union of the intervals of the expression whose bounds are
reduced modulo 2^64 into int64 (`wrap64`); no InternalError is thrown. -/
theorem intValid_exact_wrap (v : ValidExpr) (hb : v.bounded65 = true) (x : Int) :
    isIntArgValid v.render x = .ok ((v.ranges.map (Range.mapB wrap64)).any (Range.memB x)) :=
  isIntArgValid_renderRanges_val v.ranges (by simp [ValidExpr.ranges]) wrap64 (by
    intro r hr n hn
    have h1 := List.all_eq_true.mp hb r hr
    exact toBigNumber_renderInt_wrap n (List.all_eq_true.mp h1 n hn)) x

/-- With all bounds in int64: the verdict is the decision of membership in the union of the intervals. -/
theorem intValid_exact (v : ValidExpr) (hb : v.bounded = true) (x : Int) :
    isIntArgValid v.render x = .ok (v.ranges.any (Range.memB x)) :=
  isIntArgValid_renderRanges v.ranges (by simp [ValidExpr.ranges]) hb x

theorem Range.memB_iff (x : Int) (r : Range) : r.memB x = true ↔ r.mem x := by
  cases r <;> simp [Range.memB, Range.mem]

/-- The property for `<valid>`: for every expression of the grammar (any length; single values, closed ranges —
also with swapped bounds, i.e. empty —, open ranges, negative bounds) whose bounds fit int64, and every integer
`x` (in particular every 64-bit value): the code accepts `x` exactly when `x` lies in the union of the intervals,
and never throws. -/
theorem intValid_iff_partial (v : ValidExpr) (hb : v.bounded = true) (x : Int) :
    (isIntArgValid v.render x = .ok true ↔ v.mem x) ∧ isIntArgValid v.render x ≠ .err := by
  refine ⟨?_, by rw [intValid_exact v hb x]; simp⟩
  rw [intValid_exact v hb x]
  simp only [Res.ok.injEq, List.any_eq_true, ValidExpr.mem]
  constructor
  · rintro ⟨r, hr, h⟩; exact ⟨r, hr, (Range.memB_iff x r).mp h⟩
  · rintro ⟨r, hr, h⟩; exact ⟨r, hr, (Range.memB_iff x r).mpr h⟩

/-- same, as an equation between the verdict and the decision of membership -/
theorem intValid_eq_partial (v : ValidExpr) (hb : v.bounded = true) (x : Int) :
    isIntArgValid v.render x = .ok (decide (v.mem x)) := by
  have h := (intValid_iff_partial v hb x).1
  rw [intValid_exact v hb x] at h ⊢
  congr 1
  by_cases hm : v.mem x
  · simp only [hm, decide_true]
    have := h.mpr hm
    injection this
  · simp only [hm, decide_false]
    cases hb' : v.ranges.any (Range.memB x)
    · rfl
    · exact absurd (h.mp (by rw [hb'])) hm

/-- what the loader and the check do together with a rendered expression: never rejected, verdict as above -/
theorem loadAndCheck_render_partial (v : ValidExpr) (hb : v.bounded = true) (x : Int) :
    loadAndCheckInt v.render x = .verdict (.ok (decide (v.mem x))) := by
  unfold loadAndCheckInt
  rw [render_compliant, intValid_eq_partial v hb x]
  rfl

/-- checker layer, **value message only** (`Token::getInvalidValue` → "The value is x but the valid values are …"):
with a Known constant argument `x` that message is reported exactly when `x` lies outside the declared ranges.
The same finding id is also produced by the boolean block of invalidFunctionUsage; see section 3b for the id. -/
theorem invalidValueMsg_reported_iff_partial (v : ValidExpr) (hb : v.bounded = true) (x : Int) :
    reportsInvalidArg v.render x = some true ↔ ¬ v.mem x := by
  unfold reportsInvalidArg
  rw [intValid_eq_partial v hb x]
  by_cases h : v.mem x <;> simp [h]

-- the hypotheses are satisfiable by non-trivial expressions (swapped bounds included)
example : (⟨.closed (-7) 0, [.single 8, .from 100, .upto (-9223372036854775808), .closed 5 1]⟩ : ValidExpr).bounded = true := by decide
example : (⟨.closed 0 18446744073709551615, []⟩ : ValidExpr).bounded65 = true := by decide

/-- The full-strength statement (arbitrary integer bounds) is false of the code: `0:18446744073709551615`
contains 5, the code reads the upper bound as -1 (std::stoull, then the conversion to int64) and rejects 5. -/
theorem intValid_iff_counterexample_wide :
    ¬ ∀ (v : ValidExpr) (x : Int), inInt64 x = true → (isIntArgValid v.render x = .ok true ↔ v.mem x) := by
  intro h
  have h1 := h ⟨.closed 0 18446744073709551615, []⟩ 5 (by decide)
  rw [intValid_exact_wrap _ (by decide)] at h1
  have hm : ValidExpr.mem 5 ⟨.closed 0 18446744073709551615, []⟩ :=
    ⟨.closed 0 18446744073709551615, by simp [ValidExpr.ranges], by simp [Range.mem]⟩
  have h2 := h1.mpr hm
  revert h2
  decide

/-- History (repaired by commit 279e2e4): with the first clause as it was — `tok->isNumber() && argvalue ==
toBigNumber(tok)` on every number token — the swapped range `5:1`, which denotes the empty set, accepted its end
point 5; the code as it is now rejects it. -/
theorem old_single_value_clause_counterexample :
    scanIntOld 5 none (rangesToks [.closed 5 1]) = .ok true
    ∧ ¬ ValidExpr.mem 5 ⟨.closed 5 1, []⟩
    ∧ isIntArgValid (ValidExpr.render ⟨.closed 5 1, []⟩) 5 = .ok false := by
  refine ⟨?_, by decide, ?_⟩
  · have h5 : toBigNumber (renderInt 5) = some 5 := toBigNumber_renderInt 5 (by decide)
    simp [rangesToks, Range.toks, scanIntOld, intStepOld, isNumber_renderInt, h5, clause]
  · rw [intValid_exact _ (by decide)]
    decide

/-- Any accepted text that tokenises into the documented grammar behaves like the rendered expression: the
statement is about the text, not only about texts produced by `render`. -/
theorem intValid_of_parse_partial (s : Str) (v : ValidExpr) (hs : s.isEmpty = false) (hd : s.contains '.' = false)
    (hp : parseValid s = some v) (hb : v.bounded = true) (x : Int) :
    isIntArgValid s x = .ok (v.ranges.any (Range.memB x)) := by
  unfold parseValid at hp
  split at hp
  · rename_i r rs hr
    injection hp with hp
    subst hp
    have ht := parseRanges_sound _ _ _ hr
    unfold isIntArgValid
    simp only [hs, hd, Bool.false_eq_true, if_false]
    rw [ht]
    have := scanInt_ranges x (r :: rs) (fun n => n) (by
      intro r' hr' n hn
      have h1 := List.all_eq_true.mp hb r' hr'
      rw [Range.bounded_iff] at h1
      exact toBigNumber_renderInt n (List.all_eq_true.mp h1 n hn)) none (Or.inl rfl)
    rw [this]
    have hm : ∀ l : List Range, l.map (Range.mapB fun n => n) = l := by
      intro l
      induction l with
      | nil => rfl
      | cons r l ih => simp [Range.mapB_id, ih]
    rw [hm]
    rfl
  · cases hp

/-! ## 3b. the declared restrictions of one argument are checked independently -/

/-- invalidFunctionArgBool is reported exactly when the argument is a boolean expression and `<not-bool/>` is declared —
whatever the `<valid>` text says and whatever the value of the argument is -/
theorem argDecision_notBool (valid : Str) (notbool isBool : Bool) (known : Option Int) (r : ArgReport)
    (h : argDecision valid notbool isBool known = some r) : r.notBool = (isBool && notbool) := by
  unfold argDecision at h
  simp only at h
  split at h
  · injection h with h; subst h; rfl
  · cases h

/-- the not-bool verdict does not depend on the `<valid>` verdict: two arguments that differ only in their `<valid>`
text and their value get the same invalidFunctionArgBool decision -/
theorem argDecision_notBool_independent (valid valid' : Str) (notbool isBool : Bool) (known known' : Option Int)
    (r r' : ArgReport) (h : argDecision valid notbool isBool known = some r)
    (h' : argDecision valid' notbool isBool known' = some r') : r.notBool = r'.notBool := by
  rw [argDecision_notBool _ _ _ _ _ h, argDecision_notBool _ _ _ _ _ h']

/-- the value message of invalidFunctionArg is reported exactly when the Known value is refused by isIntArgValid —
whatever `<not-bool/>` says and whether or not the argument is a boolean expression -/
theorem argDecision_invalidValue (valid : Str) (notbool isBool : Bool) (known : Option Int) (r : ArgReport)
    (h : argDecision valid notbool isBool known = some r) : r.invalidValue = knownRefused valid known := by
  unfold argDecision at h
  simp only at h
  split at h
  · rename_i a rr ha hr
    injection h with h; subst h
    simp only
    unfold knownRefused
    cases known with
    | none => simp at ha; simpa using ha.symm
    | some x =>
      simp only at ha ⊢
      cases hv : isIntArgValid valid x with
      | err => rw [hv] at ha; cases ha
      | ok b => rw [hv] at ha; injection ha with ha; subst ha; cases b <;> rfl
  · cases h

theorem argDecision_invalidValue_independent (valid : Str) (notbool notbool' isBool isBool' : Bool) (known : Option Int)
    (r r' : ArgReport) (h : argDecision valid notbool isBool known = some r)
    (h' : argDecision valid notbool' isBool' known = some r') : r.invalidValue = r'.invalidValue := by
  rw [argDecision_invalidValue _ _ _ _ _ h, argDecision_invalidValue _ _ _ _ _ h']

/-- for an expression of the grammar with int64 bounds the decision never fails and both verdicts are as declared:
value message ⇔ the Known value lies outside the ranges; bool message ⇔ boolean expression ∧ not-bool -/
theorem argDecision_render_partial (v : ValidExpr) (hb : v.bounded = true) (notbool isBool : Bool) (known : Option Int) :
    ∃ r, argDecision v.render notbool isBool known = some r
      ∧ r.notBool = (isBool && notbool)
      ∧ (r.invalidValue = true ↔ ∃ x, known = some x ∧ ¬ v.mem x) := by
  have hx : ∀ x, isIntArgValid v.render x = .ok (decide (v.mem x)) := intValid_eq_partial v hb
  have key : ∃ r, argDecision v.render notbool isBool known = some r := by
    unfold argDecision
    cases known with
    | none =>
      simp only [hx]
      by_cases c : (isBool && !notbool) = true
      · simp only [c, if_true]
        by_cases m0 : v.mem 0 <;> by_cases m1 : v.mem 1 <;> simp [m0, m1]
      · simp [c]
    | some x =>
      simp only [hx]
      by_cases c : (isBool && !notbool) = true
      · simp only [c, if_true]
        by_cases m0 : v.mem 0 <;> by_cases m1 : v.mem 1 <;> simp [m0, m1]
      · simp [c]
  obtain ⟨r, hr⟩ := key
  refine ⟨r, hr, argDecision_notBool _ _ _ _ _ hr, ?_⟩
  rw [argDecision_invalidValue _ _ _ _ _ hr]
  unfold knownRefused
  cases known with
  | none => simp
  | some x =>
    simp only [hx]
    by_cases m : v.mem x <;> simp [m]

/-- closed form of the third output: the "0 or 1 (boolean)" message of invalidFunctionArg is produced exactly for a
boolean expression without `<not-bool/>` whose declared ranges miss 0 or miss 1 — whatever the value of the argument is -/
theorem argDecision_boolRange_partial (v : ValidExpr) (hb : v.bounded = true) (notbool isBool : Bool) (known : Option Int)
    (r : ArgReport) (h : argDecision v.render notbool isBool known = some r) :
    r.boolRange = (isBool && !notbool && (!decide (v.mem 0) || !decide (v.mem 1))) := by
  have hx : ∀ x, isIntArgValid v.render x = .ok (decide (v.mem x)) := intValid_eq_partial v hb
  unfold argDecision at h
  simp only [hx] at h
  cases known <;> by_cases c : (isBool && !notbool) = true <;> by_cases m0 : v.mem 0 <;> by_cases m1 : v.mem 1 <;>
    simp_all <;> (subst h; simp_all)

/-- Exact rule for the id: reported ⇔ the Known value is outside the ranges, **or** the argument is a boolean expression
without `<not-bool/>` and the ranges do not contain both 0 and 1. -/
theorem invalidArg_id_exact_partial (v : ValidExpr) (hb : v.bounded = true) (notbool isBool : Bool) (known : Option Int)
    (r : ArgReport) (h : argDecision v.render notbool isBool known = some r) :
    r.idInvalidArg = true ↔ (∃ x, known = some x ∧ ¬ v.mem x) ∨ (isBool = true ∧ notbool = false ∧ (¬ v.mem 0 ∨ ¬ v.mem 1)) := by
  obtain ⟨r', hr', -, hv⟩ := argDecision_render_partial v hb notbool isBool known
  rw [h] at hr'; injection hr' with hr'; subst hr'
  have hbr := argDecision_boolRange_partial v hb notbool isBool known r h
  unfold ArgReport.idInvalidArg
  rw [Bool.or_eq_true, hv, hbr]
  cases isBool <;> cases notbool <;> by_cases m0 : v.mem 0 <;> by_cases m1 : v.mem 1 <;> simp [m0, m1]

/-- The property as the text states it — for a constant argument, invalidFunctionArg ⇔ the constant lies outside the declared
ranges — holds for arguments that are not boolean expressions (and for boolean ones with `<not-bool/>`). -/
theorem invalidArg_id_iff_partial (v : ValidExpr) (hb : v.bounded = true) (notbool isBool : Bool) (x : Int)
    (hnb : isBool = false ∨ notbool = true) (r : ArgReport) (h : argDecision v.render notbool isBool (some x) = some r) :
    r.idInvalidArg = true ↔ ¬ v.mem x := by
  rw [invalidArg_id_exact_partial v hb notbool isBool (some x) r h]
  constructor
  · rintro (⟨y, hy, hm⟩ | ⟨h1, h2, -⟩)
    · injection hy with hy; subst hy; exact hm
    · rcases hnb with h' | h' <;> simp_all
  · intro hm; exact Or.inl ⟨x, rfl, hm⟩

example : (false = false ∨ true = true) := Or.inl rfl

/-- … and is **false of the code** for boolean expressions: `f(1==1)` with `<valid>1:5</valid>` has the Known value 1,
which lies inside 1:5, yet invalidFunctionArg ("The value is 0 or 1 (boolean) …") is reported because 0 is outside
(known finding `bool-arg-range-message-constant-inside`). -/
theorem invalidArg_id_counterexample_bool :
    ¬ ∀ (v : ValidExpr) (notbool isBool : Bool) (x : Int) (r : ArgReport), v.bounded = true →
        argDecision v.render notbool isBool (some x) = some r → (r.idInvalidArg = true ↔ ¬ v.mem x) := by
  intro h
  obtain ⟨r, hr, -, -⟩ := argDecision_render_partial ⟨.closed 1 5, []⟩ (by decide) false true (some 1)
  have h1 := h ⟨.closed 1 5, []⟩ false true 1 r (by decide) hr
  have h2 := (invalidArg_id_exact_partial ⟨.closed 1 5, []⟩ (by decide) false true (some 1) r hr).mpr
    (Or.inr ⟨rfl, rfl, Or.inl (by decide)⟩)
  exact absurd (by decide : ValidExpr.mem 1 ⟨.closed 1 5, []⟩) (h1.mp h2)

/-! ## 4. Library::isFloatArgValid with integer bounds -/

/-- For every expression whose bounds are integers of magnitude < 2^53 (exactly representable) and **every**
finite double `x` (given exactly as the integer `x·2^1074`): the code accepts `x` iff it lies in one of the
*ranges* of the expression, compared exactly; an integer-formatted *single value* is never matched by a float argument
(the clause `%num% && MathLib::isFloat(tok->str())`, asserted by test/testlibrary.cpp for `1:5,8` and 8.0). -/
theorem floatValid_intBounds_partial (v : ValidExpr) (hb : v.bounded53 = true) (x : Dbl) :
    isFloatArgValid v.render x = .ok (v.ranges.any (Range.memFloatB x)) :=
  isFloatArgValid_renderRanges v.ranges (by simp [ValidExpr.ranges]) hb x

example : (⟨.closed (-7) 0, [.from 9007199254740991, .upto (-3)]⟩ : ValidExpr).bounded53 = true := by decide

/-! ## 5. not-bool / not-null / not-uninit -/

/-- which declaration a call argument is checked against: its own `<arg nr="k">`, else `<arg nr="any|variadic">`,
and only when the call matches the configured argument count -/
theorem getarg_eq (f : FuncCfg) (ncall : Nat) (k : Int) :
    getarg f ncall k = if matchArguments f ncall = true then
        (match lookup f.args k with | some a => some a | none => lookup f.args (-1)) else none := by
  unfold getarg
  cases matchArguments f ncall
  · simp
  · simp only [Bool.not_true, Bool.false_eq_true, if_false, if_true]
    cases lookup f.args k <;> rfl

theorem isboolargbad_iff (f : FuncCfg) (ncall : Nat) (k : Int) :
    isboolargbad f ncall k = true ↔ ∃ a, getarg f ncall k = some a ∧ a.notbool = true := by
  unfold isboolargbad
  cases getarg f ncall k <;> simp

theorem isnullargbad_iff (f : FuncCfg) (ncall : Nat) (k : Int) :
    isnullargbad f ncall k = true ↔
      (getarg f ncall k = none ∧ f.fmt = 1) ∨ ∃ a, getarg f ncall k = some a ∧ a.notnull = true := by
  unfold isnullargbad
  cases getarg f ncall k <;> simp

theorem isuninitargbad_iff (f : FuncCfg) (ncall : Nat) (k : Int) (indirect : Int) :
    isuninitargbad f ncall k indirect = true ↔
      (getarg f ncall k = none ∧ f.fmt = 2) ∨ ∃ a, getarg f ncall k = some a ∧ indirect ≤ a.notuninit := by
  unfold isuninitargbad
  cases getarg f ncall k <;> simp

/-- what the loader stores: the entry under key `k` has `not-bool` iff some `<arg nr=k>` element (there may be
several) carries `<not-bool/>`; likewise `not-null`; an entry exists iff some element has that key -/
theorem loadArgs_notbool (ds : List ArgDecl) (k : Int) :
    nbAt (loadArgs ds) k = ds.any (fun d => decide (d.nr = k) && d.notbool) := by
  rw [loadArgs_eq, nbAt_foldl]; rfl

theorem loadArgs_notnull (ds : List ArgDecl) (k : Int) :
    nnAt (loadArgs ds) k = ds.any (fun d => decide (d.nr = k) && d.notnull) := by
  rw [loadArgs_eq, nnAt_foldl]; rfl

theorem loadArgs_has (ds : List ArgDecl) (k : Int) :
    hasAt (loadArgs ds) k = ds.any (fun d => decide (d.nr = k)) := by
  rw [loadArgs_eq, hasAt_foldl]; rfl

/-- end to end over the loader (composition of `getarg_eq`, `loadArgs_notbool`, `loadArgs_has`): for the function built
from the `<arg>` elements `ds`, a call argument `k` is not-bool-restricted exactly when the call matches the configured
argument count and — if some element has `nr = k` — one of *those* declares `<not-bool/>`, otherwise one of the
any/variadic elements (`nr = -1`) does. -/
theorem isboolargbad_loadArgs_iff (fmt : Nat) (ds : List ArgDecl) (ncall : Nat) (k : Int) :
    isboolargbad ⟨fmt, loadArgs ds⟩ ncall k = true ↔
      matchArguments ⟨fmt, loadArgs ds⟩ ncall = true ∧
      (if ds.any (fun d => decide (d.nr = k)) = true then ds.any (fun d => decide (d.nr = k) && d.notbool) = true
       else ds.any (fun d => decide (d.nr = -1) && d.notbool) = true) := by
  have hh := loadArgs_has ds k
  have hk := loadArgs_notbool ds k
  have hm := loadArgs_notbool ds (-1)
  unfold hasAt at hh
  unfold nbAt at hk hm
  unfold isboolargbad
  rw [getarg_eq]
  by_cases hma : matchArguments ⟨fmt, loadArgs ds⟩ ncall = true
  · simp only [hma, if_true, true_and]
    cases hl : lookup (loadArgs ds) k with
    | some a =>
      rw [hl] at hh hk
      simp only [Option.isSome_some] at hh
      simp only [← hh, if_true, ← hk]
    | none =>
      rw [hl] at hh
      simp only [Option.isSome_none] at hh
      simp only [← hh, Bool.false_eq_true, if_false, ← hm]
      cases lookup (loadArgs ds) (-1) <;> simp
  · simp [hma]

theorem isnullargbad_loadArgs_iff (ds : List ArgDecl) (ncall : Nat) (k : Int)
    (hma : matchArguments ⟨0, loadArgs ds⟩ ncall = true) :
    isnullargbad ⟨0, loadArgs ds⟩ ncall k = true ↔
      (if ds.any (fun d => decide (d.nr = k)) = true then ds.any (fun d => decide (d.nr = k) && d.notnull) = true
       else ds.any (fun d => decide (d.nr = -1) && d.notnull) = true) := by
  have hh := loadArgs_has ds k
  have hk := loadArgs_notnull ds k
  have hm := loadArgs_notnull ds (-1)
  unfold hasAt at hh
  unfold nnAt at hk hm
  unfold isnullargbad
  rw [getarg_eq]
  simp only [hma, if_true]
  cases hl : lookup (loadArgs ds) k with
  | some a =>
    rw [hl] at hh hk
    simp only [Option.isSome_some] at hh
    simp only [← hh, if_true, ← hk]
  | none =>
    rw [hl] at hh
    simp only [Option.isSome_none] at hh
    simp only [← hh, Bool.false_eq_true, if_false, ← hm]
    cases lookup (loadArgs ds) (-1) <;> simp

end Cppcheck.LibValid

import Cppcheck.Proofs.Shell
import Cppcheck.Proofs.GccArgs
/-
C32 — property theorems: the compilation-database import recovers the options the compile command
specifies.

* `Shell.split_quote_partial`    command-string form: splitting what a build system quoted (piecewise, five styles) gives the vector back
* `Shell.split_quote`            the same for whole-argument quoting
* `GccArgs.parseArgs_eq_spec_partial`   argument-vector form: `parseArgs` = GCC's reading, on `clean` vectors
* `GccArgs.parseArgs_eq_spec_counterexample`   the unrestricted statement is false of the code (F12)
* `GccArgs.defines_normal_form`  `fsSetDefines` on the string `parseArgs` builds
* `GccArgs.import_eq_spec_partial`      the whole import (`Import.importEntries`, the function the driver runs) = what the database specifies
* `GccArgs.fix_0f74657_conservative`    the out-of-bounds repair changed no defined behaviour
-/
namespace Cppcheck.Shell
open Cppcheck.Wire

/-- **C32, command-string half.**  Splitting the command string written from ANY argument vector — each
    argument non-empty, in any of the four quoting styles (bare only when it contains no blank, quote
    character or backslash), separated by one or more blanks — returns exactly that vector. -/
theorem split_quote (l : List (Style × Nat × Str)) (h : ∀ x ∈ l, argOk x = true) :
    collectArgs (quote l) = .ok (l.map (·.2.2)) := by
  cases l with
  | nil => simp [collectArgs, quote, go, flush]
  | cons x r =>
    obtain ⟨sty, pad, a⟩ := x
    obtain ⟨hne, hb, he⟩ := argOk_iff.mp (h (sty, pad, a) (by simp))
    have hr : ∀ x ∈ r, argOk x = true := fun x hx' => h x (by simp [hx'])
    simp only [collectArgs, quote]
    rw [go_quoteArg sty a hb he, go_quoteTail r hr ([] ++ a) (by simpa using hne)]
    simp

/-- **C32, command-string half, piecewise quoting (partial).**  Every argument is written as a sequence of
    pieces, each in its own style — bare (no blank, quote character, backslash), `"…"` with `\\ \"`, `'…'` with
    `'\''`, shlex `'"'"'`, or backslash-escaped characters outside quotes (`\\ \" \' \␣`) — so a quote may open in
    the middle of an argument (`-DMSG="a b"`, `-DV=\"1.0\"`, `a\ b`).  Splitting the command string returns
    exactly the arguments, for every vector of non-empty arguments.  What is excluded is what the code gets
    wrong: backslash escapes of other characters (`dollar_escape_kept`) and empty arguments. -/
theorem split_quote_partial (l : List (Nat × List (Style × Str))) (h : ∀ x ∈ l, segsOk x = true) :
    collectArgs (quoteCmd l) = .ok (l.map fun x => segText x.2) := by
  cases l with
  | nil => simp [collectArgs, quoteCmd, go, flush]
  | cons x r =>
    obtain ⟨pad, segs⟩ := x
    have hx := h (pad, segs) (by simp)
    simp only [segsOk, Bool.and_eq_true, Bool.not_eq_true', List.isEmpty_eq_false_iff, List.all_eq_true] at hx
    have hr : ∀ x ∈ r, segsOk x = true := fun x hx' => h x (by simp [hx'])
    simp only [collectArgs, quoteCmd]
    rw [go_quoteSegs segs hx.2, go_cmdTail r hr ([] ++ segText segs) (by simpa using hx.1)]
    simp

/-- CMake's Unix style: `cc -DV=\"1.0\" -DMSG="a b" a\ b.c` -/
example :
    let l : List (Nat × List (Style × Str)) :=
      [(0, [(.bare, "cc".toList)]),
       (0, [(.bare, "-DV=".toList), (.esc, "\"".toList), (.bare, "1.0".toList), (.esc, "\"".toList)]),
       (0, [(.bare, "-DMSG=".toList), (.dq, "a b".toList)]),
       (1, [(.bare, "a".toList), (.esc, " ".toList), (.bare, "b.c".toList)])]
    l.all segsOk = true ∧ quoteCmd l = "cc -DV=\\\"1.0\\\" -DMSG=\"a b\"  a\\ b.c".toList ∧
    collectArgs (quoteCmd l) = .ok ["cc".toList, "-DV=\"1.0\"".toList, "-DMSG=a b".toList, "a b.c".toList] := by
  decide +kernel

/-- the hypothesis is satisfiable by arguments that need every kind of quoting -/
example : ([(.bare, 0, "cc".toList), (.dq, 2, "-DMSG=\"a b\\\"".toList), (.sq, 0, "it's".toList),
            (.shlex, 1, "-I/x y/'q'".toList)] : List (Style × Nat × Str)).all argOk = true := by decide +kernel

example : collectArgs (quote [(.bare, 0, "cc".toList), (.dq, 2, "-DMSG=\"a b\\\"".toList), (.sq, 0, "it's".toList)])
    = .ok ["cc".toList, "-DMSG=\"a b\\\"".toList, "it's".toList] := by decide +kernel

/-- why an empty argument is excluded: `""` vanishes -/
theorem empty_arg_dropped : collectArgs (quote [(.bare, 0, "cc".toList), (.dq, 0, [])]) = .ok ["cc".toList] := by
  decide +kernel

/-- a quoting style that is NOT covered: POSIX double quotes also escape `$` and the back quote, and the
    shell removes that backslash; `collectArgs` keeps it -/
theorem dollar_escape_kept : collectArgs "\"a\\$b\"".toList = .ok ["a\\$b".toList] := by decide +kernel

end Cppcheck.Shell

namespace Cppcheck.GccArgs
open Cppcheck.Wire Spec

/-- **C32, `fsSetDefines`.**  For every list of representable definitions (`defOk`: non-empty, no `;`, not
    starting with `=`, `(` or `%(`) the string `parseArgs` accumulates is normalised to the `;`-separated
    list in which every value-less definition got `=1`. -/
theorem defines_normal_form_partial (ds : List Str) (h : ∀ d ∈ ds, defOk d = true) :
    fsSetDefines (joinDefs ds) = normal ds :=
  fsSetDefines_joinDefs ds h

example : (["A", "B=2", "F(x)=x+1", "S=\"a b\""].map String.toList).all defOk = true := by decide +kernel

/-- why `;` is excluded: cppcheck's `defines` string cannot represent it, `-D'X=a;b'` becomes two definitions -/
theorem semicolon_define_counterexample :
    fsSetDefines (joinDefs ["X=a;b".toList]) = "X=a;b=1".toList ∧ normal ["X=a;b".toList] = "X=a;b".toList := by
  decide +kernel

/-- **C32, argument-vector half (partial).**  For EVERY argument vector that is `clean` — separate
    `-I -isystem -D -U` have a non-empty value, no bare `-std=`/`-f`/`-m`, and no input file, other option or
    value of a `-o`-like option starts with a prefix `parseArgs` would (mis)read, i.e. `/I /D /U /std:` for
    paths — and whose `-D` values are representable, `parseArgs` yields exactly the include paths, system
    include paths, definitions, undefinitions and standard that GCC's reading of the vector specifies. -/
theorem parseArgs_eq_spec_partial (args : List Str) (h : clean args = true)
    (hd : ∀ d ∈ (gcc args {}).defines, defOk d = true) :
    parseArgs args = (gcc args {}).toFS :=
  parseArgs_eq_gcc args h hd

/-- the hypotheses are satisfiable by a realistic command line using every option form -/
example :
    let args := ["/usr/bin/c++", "-DNDEBUG", "-D", "MSG=\"a b\"", "-I", "/home/u/include", "-Iinc", "-isystem",
                 "/opt/x/include", "-UFOO", "-std=c++17", "-fPIC", "-O2", "-MF", "/tmp/b/a.d", "-o", "/tmp/b/a.o",
                 "-c", "/home/u/src/a.cpp"].map String.toList
    clean args = true ∧ (gcc args {}).defines.all defOk = true ∧
    (gcc args {}).toFS = { includePaths := ["/home/u/include".toList, "inc".toList],
                           systemIncludePaths := ["/opt/x/include".toList],
                           defs := "NDEBUG=1;MSG=\"a b\";__PIC__=1".toList,
                           undefs := ["FOO".toList], standard := "c++17".toList } := by
  decide +kernel

/-- **the specification is the inverse of writing a command line**: for every list of options (any length)
    whose values are non-empty and whose "other" arguments are not spelled like an interpreted option,
    GCC's reading of the rendered vector is the meaning of the list -/
theorem spec_of_render (l : List Opt) (h : ∀ x ∈ l, x.wf = true) : gcc (render l) {} = meaning l {} :=
  gcc_render l h {}

/-- **C32 in generator form**: the options `parseArgs` recovers from a rendered command line are the options
    that were put into it -/
theorem parseArgs_render_partial (l : List Opt) (hwf : ∀ x ∈ l, x.wf = true) (hc : clean (render l) = true)
    (hd : ∀ d ∈ (meaning l {}).defines, defOk d = true) :
    parseArgs (render l) = (meaning l {}).toFS := by
  have := parseArgs_eq_spec_partial (render l) hc (by rw [spec_of_render l hwf]; exact hd)
  rw [spec_of_render l hwf] at this
  exact this

example :
    let l : List Opt := [.other "cc".toList, .define "A".toList true, .define "B=2".toList false,
      .inc "/home/u/inc".toList false, .sysinc "sys".toList true, .undef "C".toList true, .std "c11".toList,
      .flag "-fpie".toList, .sepOther "-o".toList "/tmp/a.o".toList, .other "-c".toList, .other "/home/u/a.c".toList]
    l.all Opt.wf = true ∧ clean (render l) = true ∧ (meaning l {}).defines.all defOk = true := by
  decide +kernel

/-- every option name in `sepOpts` is itself harmless to `parseArgs` -/
theorem sepOpts_otherOk : sepOpts.all otherOk = true := by decide +kernel

/-- **F12.**  The unrestricted statement is false of the code: `-o /Downloads/a.o` — an output path — is
    read as `/D` + `ownloads/a.o`. -/
theorem slash_prefix_counterexample :
    parseArgs (["cc", "-c", "a.c", "-o", "/Downloads/a.o", "-DREAL=1"].map String.toList)
      = { defs := "ownloads/a.o=1;REAL=1".toList }
    ∧ (gcc (["cc", "-c", "a.c", "-o", "/Downloads/a.o", "-DREAL=1"].map String.toList) {}).toFS
      = { defs := "REAL=1".toList } := by
  decide +kernel

theorem parseArgs_eq_spec_counterexample :
    ¬ ∀ args : List Str, (∀ d ∈ (gcc args {}).defines, defOk d = true) → parseArgs args = (gcc args {}).toFS := by
  intro h
  have h1 := h (["cc", "-c", "a.c", "-o", "/Downloads/a.o", "-DREAL=1"].map String.toList) (by decide +kernel)
  rw [slash_prefix_counterexample.1, slash_prefix_counterexample.2] at h1
  exact absurd h1 (by decide +kernel)

/-- the same class hits every macOS database: a source under `/Users` becomes the undef `sers/…` -/
theorem slash_prefix_users_example :
    parseArgs (["clang", "-c", "/Users/me/a.c"].map String.toList) = { undefs := ["sers/me/a.c".toList] } := by
  decide +kernel

/-- a vector ending in a bare option name: the trailing name is ignored (commit 0f74657), as in the specification -/
theorem trailing_bare_option_ignored :
    parseArgs (["cc", "-c", "a.c", "-DX", "-I"].map String.toList) = { defs := "X=1".toList } ∧
    clean (["cc", "-c", "a.c", "-DX", "-I"].map String.toList) = true := by
  decide +kernel

/-- before commit 0f74657 the same vector made `getOptArg` bind `args[args.size()]` -/
theorem trailing_bare_option_oob_before_0f74657 :
    Before0f74657.loop (["cc", "-c", "a.c", "-DX", "-I"].map String.toList) {} = none := by
  decide +kernel

/-- the repair is conservative: wherever the old loop had defined behaviour the new one gives the same result -/
theorem fix_0f74657_conservative (args : List Str) (fs r : FS) (h : Before0f74657.loop args fs = some r) :
    loop args fs = r :=
  before_loop_defined args fs r h

end Cppcheck.GccArgs

namespace Cppcheck.GccArgs
open Cppcheck.Wire Cppcheck.Shell Spec Import

/-- a "command" string written piecewise from a vector is read back as that vector by the import -/
theorem entryArgs_command_quote (l : List (Nat × List (Style × Str))) (h : ∀ x ∈ l, segsOk x = true) :
    entryArgs (.command (quoteCmd l)) = some (l.map fun x => segText x.2) := by
  simp only [entryArgs, split_quote_partial l h]

/-- **C32, whole import (partial).**  `Import.importEntries` is the model of `importCompileCommands` that the
    driver executes against the real function.  For EVERY database whose entries are `goodEntry` — an accepted
    source file, "arguments" array or "command" string that `collectArgs` splits, `clean` vector, representable
    `-D` values, plain `-I` values, absolute `-isystem` values — the import succeeds without error and yields, per entry and in order, the
    path of the file, its per-path index, and exactly the settings the entry specifies: `Spec.gcc`'s
    definitions, undefinitions, standard and system include paths, and the `-I` values de-duplicated (first
    wins) and resolved against `directory` (`Import.incSpec`). -/
theorem import_eq_spec_partial (es : List Entry) (h : ∀ e ∈ es, goodEntry e = true) :
    importEntries es 0 [] = ⟨true, 0, specImport es []⟩ :=
  importEntries_eq_spec es h 0 []

/-- the auditor's instance, both forms, plus a repeated file: `-Iinc` in `/w` is `/w/inc/` -/
example :
    let es : List Entry :=
      [⟨"/w".toList, some "a.c".toList, .command (quoteCmd [(0, [(.bare, "cc".toList)]), (0, [(.bare, "-Iinc".toList)]),
          (0, [(.bare, "-DMSG=".toList), (.dq, "a b".toList)]), (0, [(.bare, "-c".toList)]), (0, [(.bare, "a.c".toList)])])⟩,
       ⟨"/w/".toList, some "/w/a.c".toList, .arguments (["cc", "-I", "/opt/i", "-I../x/inc", "-Iinc", "-UY", "-std=c99", "-c", "a.c"].map String.toList)⟩]
    es.all goodEntry = true ∧
    specImport es [] =
      [⟨"/w/a.c".toList, 0, { includePaths := ["/w/inc/".toList], defs := "MSG=a b".toList }⟩,
       ⟨"/w/a.c".toList, 1, { includePaths := ["/opt/i/".toList, "/x/inc/".toList, "/w/inc/".toList],
                              undefs := ["Y".toList], standard := "c99".toList }⟩] := by
  decide +kernel

/-- why `-isystem` values must be absolute: the import keeps them verbatim, the compiler resolves a relative one
    against `directory` (finding `isystem-relative-not-resolved`) -/
theorem isystem_relative_counterexample :
    (importEntries [⟨"/w".toList, some "a.c".toList, .arguments (["cc", "-isystem", "sys", "-c", "a.c"].map String.toList)⟩] 0 []).files.map
        (fun f => f.fs.systemIncludePaths) = [["sys".toList]] ∧
    (specImport [⟨"/w".toList, some "a.c".toList, .arguments (["cc", "-isystem", "sys", "-c", "a.c"].map String.toList)⟩] []).map
        (fun f => f.fs.systemIncludePaths) = [["/w/sys".toList]] := by
  decide +kernel

/-- F12 at import level: the statement without `goodEntry` (here: `clean`) is false of the code -/
theorem import_eq_spec_counterexample :
    ¬ ∀ es : List Entry, importEntries es 0 [] = ⟨true, 0, specImport es []⟩ := by
  intro h
  have h1 := h [⟨"/w".toList, some "a.c".toList, .arguments (["cc", "-c", "a.c", "-o", "/Downloads/a.o"].map String.toList)⟩]
  have h2 := congrArg (fun r => r.files.map fun f => f.fs.defs) h1
  exact absurd h2 (by decide +kernel)

end Cppcheck.GccArgs

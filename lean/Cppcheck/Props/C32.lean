import Cppcheck.Proofs.Shell
import Cppcheck.Proofs.GccArgs
/-
C32 — property theorems: the compilation-database import recovers the options the compile command
specifies.

* `Shell.split_quote`            command-string form: splitting what a build system quoted gives the vector back
* `GccArgs.parseArgs_eq_spec_partial`   argument-vector form: `parseArgs` = GCC's reading, on `clean` vectors
* `GccArgs.parseArgs_eq_spec_counterexample`   the unrestricted statement is false of the code (F12)
* `GccArgs.defines_normal_form`  `fsSetDefines` on the string `parseArgs` builds
* `import_command_eq_spec`              both halves composed
* `GccArgs.fix_0f74657_conservative`    the out-of-bounds repair changed no defined behaviour
-/
namespace Cppcheck.Shell
open Cppcheck.Wire

/-- **C32, command-string half.**  Splitting the command string written from ANY argument vector — each
    argument non-empty, in any of the four quoting styles (bare only when it contains no blank, quote
    character or backslash), separated by one or more blanks — returns exactly that vector. -/
theorem split_quote (l : List (Style × Nat × Str)) (h : ∀ x ∈ l, argOk x = true) :
    collectArgs (quote l) = .ok (l.map (·.2.2)) := by
  cases l with
  | nil => simp [collectArgs, quote, go, flush]
  | cons x r =>
    obtain ⟨sty, pad, a⟩ := x
    have hx := h (sty, pad, a) (by simp)
    simp only [argOk, Bool.and_eq_true, Bool.not_eq_true', Bool.or_eq_true, bne_iff_ne, ne_eq, List.isEmpty_eq_false_iff] at hx
    have hb : sty = .bare → bareOk a = true := by
      intro hs; rcases hx.2 with h1 | h1
      · exact absurd hs h1
      · exact h1
    have hr : ∀ x ∈ r, argOk x = true := fun x hx' => h x (by simp [hx'])
    simp only [collectArgs, quote]
    rw [go_quoteArg sty a hb, go_quoteTail r hr ([] ++ a) (by simpa using hx.1)]
    simp

/-- the hypothesis is satisfiable by arguments that need every kind of quoting -/
example : ([(.bare, 0, "cc".toList), (.dq, 2, "-DMSG=\"a b\\\"".toList), (.sq, 0, "it's".toList),
            (.shlex, 1, "-I/x y/'q'".toList)] : List (Style × Nat × Str)).all argOk = true := by decide +kernel

example : collectArgs (quote [(.bare, 0, "cc".toList), (.dq, 2, "-DMSG=\"a b\\\"".toList), (.sq, 0, "it's".toList)])
    = .ok ["cc".toList, "-DMSG=\"a b\\\"".toList, "it's".toList] := by decide +kernel

/-- why an empty argument is excluded: `""` vanishes -/
theorem empty_arg_dropped : collectArgs (quote [(.bare, 0, "cc".toList), (.dq, 0, [])]) = .ok ["cc".toList] := by
  decide +kernel

/-- a quoting style that is NOT covered: POSIX double quotes also escape `$` and the back quote, and the
    shell removes that backslash; `collectArgs` keeps it -/
theorem dollar_escape_kept : collectArgs "\"a\\$b\"".toList = .ok ["a\\$b".toList] := by decide +kernel

end Cppcheck.Shell

namespace Cppcheck.GccArgs
open Cppcheck.Wire Spec

/-- **C32, `fsSetDefines`.**  For every list of representable definitions (`defOk`: non-empty, no `;`, not
    starting with `=`, `(` or `%(`) the string `parseArgs` accumulates is normalised to the `;`-separated
    list in which every value-less definition got `=1`. -/
theorem defines_normal_form (ds : List Str) (h : ∀ d ∈ ds, defOk d = true) :
    fsSetDefines (joinDefs ds) = normal ds :=
  fsSetDefines_joinDefs ds h

example : (["A", "B=2", "F(x)=x+1", "S=\"a b\""].map String.toList).all defOk = true := by decide +kernel

/-- why `;` is excluded: cppcheck's `defines` string cannot represent it, `-D'X=a;b'` becomes two definitions -/
theorem semicolon_define_counterexample :
    fsSetDefines (joinDefs ["X=a;b".toList]) = "X=a;b=1".toList ∧ normal ["X=a;b".toList] = "X=a;b".toList := by
  decide +kernel

/-- **C32, argument-vector half (partial).**  For EVERY argument vector that is `clean` — separate
    `-I -isystem -D -U` have a non-empty value, no bare `-std=`/`-f`/`-m`, and no input file, other option or
    value of a `-o`-like option starts with a prefix `parseArgs` would (mis)read, i.e. `/I /D /U /std:` for
    paths — and whose `-D` values are representable, `parseArgs` yields exactly the include paths, system
    include paths, definitions, undefinitions and standard that GCC's reading of the vector specifies. -/
theorem parseArgs_eq_spec_partial (args : List Str) (h : clean args = true)
    (hd : ∀ d ∈ (gcc args {}).defines, defOk d = true) :
    parseArgs args = (gcc args {}).toFS := by
  have hl := loop_eq_gcc args h {}
  have h0 : ({} : Opts).toRaw = ({} : FS) := rfl
  rw [h0] at hl
  simp only [parseArgs, hl, Opts.toRaw, Opts.toFS, fsSetDefines_joinDefs _ hd]

/-- the hypotheses are satisfiable by a realistic command line using every option form -/
example :
    let args := ["/usr/bin/c++", "-DNDEBUG", "-D", "MSG=\"a b\"", "-I", "/home/u/include", "-Iinc", "-isystem",
                 "/opt/x/include", "-UFOO", "-std=c++17", "-fPIC", "-O2", "-MF", "/tmp/b/a.d", "-o", "/tmp/b/a.o",
                 "-c", "/home/u/src/a.cpp"].map String.toList
    clean args = true ∧ (gcc args {}).defines.all defOk = true ∧
    (gcc args {}).toFS = { includePaths := ["/home/u/include".toList, "inc".toList],
                           systemIncludePaths := ["/opt/x/include".toList],
                           defs := "NDEBUG=1;MSG=\"a b\";__PIC__=1".toList,
                           undefs := ["FOO".toList], standard := "c++17".toList } := by
  decide +kernel

/-- **the specification is the inverse of writing a command line**: for every list of options (any length)
    whose values are non-empty and whose "other" arguments are not spelled like an interpreted option,
    GCC's reading of the rendered vector is the meaning of the list -/
theorem spec_of_render (l : List Opt) (h : ∀ x ∈ l, x.wf = true) : gcc (render l) {} = meaning l {} :=
  gcc_render l h {}

/-- **C32 in generator form**: the options `parseArgs` recovers from a rendered command line are the options
    that were put into it -/
theorem parseArgs_render (l : List Opt) (hwf : ∀ x ∈ l, x.wf = true) (hc : clean (render l) = true)
    (hd : ∀ d ∈ (meaning l {}).defines, defOk d = true) :
    parseArgs (render l) = (meaning l {}).toFS := by
  have := parseArgs_eq_spec_partial (render l) hc (by rw [spec_of_render l hwf]; exact hd)
  rw [spec_of_render l hwf] at this
  exact this

example :
    let l : List Opt := [.other "cc".toList, .define "A".toList true, .define "B=2".toList false,
      .inc "/home/u/inc".toList false, .sysinc "sys".toList true, .undef "C".toList true, .std "c11".toList,
      .flag "-fpie".toList, .sepOther "-o".toList "/tmp/a.o".toList, .other "-c".toList, .other "/home/u/a.c".toList]
    l.all Opt.wf = true ∧ clean (render l) = true ∧ (meaning l {}).defines.all defOk = true := by
  decide +kernel

/-- every option name in `sepOpts` is itself harmless to `parseArgs` -/
theorem sepOpts_otherOk : sepOpts.all otherOk = true := by decide +kernel

/-- **F12.**  The unrestricted statement is false of the code: `-o /Downloads/a.o` — an output path — is
    read as `/D` + `ownloads/a.o`. -/
theorem slash_prefix_counterexample :
    parseArgs (["cc", "-c", "a.c", "-o", "/Downloads/a.o", "-DREAL=1"].map String.toList)
      = { defs := "ownloads/a.o=1;REAL=1".toList }
    ∧ (gcc (["cc", "-c", "a.c", "-o", "/Downloads/a.o", "-DREAL=1"].map String.toList) {}).toFS
      = { defs := "REAL=1".toList } := by
  decide +kernel

theorem parseArgs_eq_spec_counterexample :
    ¬ ∀ args : List Str, (∀ d ∈ (gcc args {}).defines, defOk d = true) → parseArgs args = (gcc args {}).toFS := by
  intro h
  have h1 := h (["cc", "-c", "a.c", "-o", "/Downloads/a.o", "-DREAL=1"].map String.toList) (by decide +kernel)
  rw [slash_prefix_counterexample.1, slash_prefix_counterexample.2] at h1
  exact absurd h1 (by decide +kernel)

/-- the same class hits every macOS database: a source under `/Users` becomes the undef `sers/…` -/
theorem slash_prefix_users_example :
    parseArgs (["clang", "-c", "/Users/me/a.c"].map String.toList) = { undefs := ["sers/me/a.c".toList] } := by
  decide +kernel

/-- a vector ending in a bare option name: the trailing name is ignored (commit 0f74657), as in the specification -/
theorem trailing_bare_option_ignored :
    parseArgs (["cc", "-c", "a.c", "-DX", "-I"].map String.toList) = { defs := "X=1".toList } ∧
    clean (["cc", "-c", "a.c", "-DX", "-I"].map String.toList) = true := by
  decide +kernel

/-- before commit 0f74657 the same vector made `getOptArg` bind `args[args.size()]` -/
theorem trailing_bare_option_oob_before_0f74657 :
    Before0f74657.loop (["cc", "-c", "a.c", "-DX", "-I"].map String.toList) {} = none := by
  decide +kernel

/-- the repair is conservative: wherever the old loop had defined behaviour the new one gives the same result -/
theorem fix_0f74657_conservative (args : List Str) (fs r : FS) (h : Before0f74657.loop args fs = some r) :
    loop args fs = r :=
  before_loop_defined args fs r h

end Cppcheck.GccArgs

namespace Cppcheck
open Cppcheck.Wire Cppcheck.Shell Cppcheck.GccArgs

/-- what `importCompileCommands` does with the "command" string of an entry -/
def importCommand (cmd : Str) : Option FS :=
  match collectArgs cmd with
  | .ok args => some (parseArgs args)
  | .missingQuote => none

/-- **C32, composed.**  A command string quoted from a clean vector yields the specified options. -/
theorem import_command_eq_spec (l : List (Style × Nat × Str)) (hq : ∀ x ∈ l, argOk x = true)
    (h : clean (l.map (·.2.2)) = true) (hd : ∀ d ∈ (Spec.gcc (l.map (·.2.2)) {}).defines, defOk d = true) :
    importCommand (quote l) = some (Spec.gcc (l.map (·.2.2)) {}).toFS := by
  simp only [importCommand, split_quote l hq]
  exact congrArg some (parseArgs_eq_spec_partial _ h hd)

end Cppcheck

import Cppcheck.Model.SevDecide
import Cppcheck.Proofs.SevDecide
import Cppcheck.Model.MiniC
import Cppcheck.Model.LeakStraight
import Cppcheck.Proofs.LeakStraight
/-!
C04 — definite runtime-error findings are true positives.

Part 1 (this section): the value-based checkers.  `Cppcheck.SevDecide` copies, per checker, how a value of the operand is
picked, gated and graded.  The theorems say what an *error*-severity finding guarantees about the value behind it — exactly
what the code guarantees, no more: for most checkers that is `errorSeverity()` = "no condition, not a default argument" on
a value that is not Impossible (it may be Known, Possible or — with `--inconclusive` — Inconclusive); only nullPointer,
uninitvar and invalidFunctionArg additionally demand a Known value.  Two places where the code as found guaranteed less were
repaired in /repo (4fa5b48: shiftNegative was always an error, F04a; 43eccce: an access with several indexes was graded by one
value of the index vector, F04c); the repaired code is the model, the bodies as found (`shiftNegativeAsFound`,
`arrayIndexNAsFound`) are kept only for the regression theorems `*_asFound_counterexample`.
`*_trigger_is_ub` connect the trigger conditions to the MiniC semantics (C01): an operand value that triggers the checker
makes the evaluation of the flagged operator undefined, so a sound Known fact means no UB-free execution evaluates it.
-/
namespace Cppcheck.SevDecide

/-- the value is "definite" in the sense of `ValueFlow::Value::errorSeverity()`: it does not depend on a condition that may be
    redundant nor on a default argument, and it is not an Impossible value -/
def Definite (v : Value) : Prop := v.cond = false ∧ v.defaultArg = false ∧ v.kind ≠ .impossible

def sampleValue (k : Kind) (i : Int) (c : Bool) : Value :=
  { vtype := .int, kind := k, intvalue := i, cond := c, defaultArg := false, path := 0, hasErrorPath := false, safe := false,
    ufr := .no, indirect := 0 }

def allOn : Opts := { warning := true, portability := true, inconclusive := true, cpp14 := false }
def allOff : Opts := { warning := false, portability := false, inconclusive := false, cpp14 := false }

/-- **grading step, every checker**: severity `error` ⇒ the picked value has no condition and is not a default argument; for
    nullPointer / uninitvar / invalidFunctionArg it is moreover Known (for uninitvar *only* Known is guaranteed: `uninitvarError`
    never looks at `condition`/`defaultArg` when it grades). -/
theorem error_implies_definite (c : Checker) (v : Value) (ic : Bool) (o : Opts) (h : decideSev c v ic o = some .error) :
    (c ≠ .uninitvar → v.cond = false ∧ v.defaultArg = false) ∧
    ((c = .nullPointer ∨ c = .uninitvar ∨ c = .invalidFunctionArg) → v.kind = .known) := by
  cases c <;> simp [decideSev, sevOf, Value.errorSeverity, Value.isKnown] at h ⊢
  all_goals first
    | (repeat' split at h) <;> simp_all

example : decideSev .zerodiv (sampleValue .possible 0 false) false allOff = some .error := by decide
example : decideSev .nullPointer (sampleValue .known 0 false) false allOff = some .error := by decide
example : decideSev .nullPointer (sampleValue .possible 0 false) false allOff = some .warning := by decide

/-! #### list level: pick + gate + grade -/

theorem zerodiv_error_definite (o : Opts) (vals : List Value) (r : Report)
    (hr : r ∈ zerodiv o vals) (he : r.sev = .error) :
    ∃ v ∈ vals, Definite v ∧ v.isInt = true ∧ v.intvalue = 0 := by
  unfold zerodiv at hr
  split at hr
  · simp at hr
  · rename_i v hv
    obtain ⟨hm, hi, himp, h0⟩ := getValue_spec hv
    split at hr
    · simp at hr; subst hr
      refine ⟨v, hm, ⟨?_, ?_, ?_⟩, hi, h0⟩
      · cases hc : v.cond <;> simp_all [sevOf, Value.errorSeverity]
      · cases hc : v.cond <;> cases hd : v.defaultArg <;> simp_all [sevOf, Value.errorSeverity]
      · intro hk; simp [Value.isImpossible, hk] at himp
    · simp at hr

theorem nullPointer_error_known (o : Opts) (d : Deref) (vals : List Value) (r : Report)
    (hr : r ∈ nullPointer o d vals) (he : r.sev = .error) :
    ∃ v ∈ vals, Definite v ∧ v.kind = .known ∧ v.isInt = true ∧ v.intvalue = 0 := by
  unfold nullPointer at hr
  split at hr
  · simp at hr
  · rename_i v hv
    obtain ⟨hm, hi, himp, h0⟩ := getValue_spec hv
    refine ⟨v, hm, ?_⟩
    split at hr
    · simp at hr
    · split at hr
      · simp at hr
      · split at hr
        · simp at hr
        · by_cases hc : v.cond = true
          · simp [hc] at hr; subst hr; simp at he
          · by_cases hd : v.defaultArg = true
            · simp [hc, hd] at hr; subst hr; simp at he
            · simp [hc, hd] at hr; subst hr
              simp [sevOf, Value.isKnown] at he
              simp at hc hd
              exact ⟨⟨hc, hd, by rw [he]; decide⟩, he, hi, h0⟩

/-- an error-severity arrayIndexOutOfBounds / negativeIndex report on `a[i1]…[ik]`: some index position has a definite value that
    is out of bounds -/
theorem arrayIndexN_error_definite (o : Opts) (dims : List (Int × List Value)) (r : Report)
    (hr : r ∈ arrayIndexN o dims) (he : r.sev = .error) :
    ∃ d ∈ dims, ∃ v ∈ d.2, Definite v ∧ v.isInt = true ∧ (d.1 ≤ v.intvalue ∨ v.intvalue ≤ -1) := by
  have es : ∀ v : Value, v.errorSeverity = true → v.cond = false ∧ v.defaultArg = false := by
    intro v h; cases hc : v.cond <;> cases hd : v.defaultArg <;> simp_all [Value.errorSeverity]
  unfold arrayIndexN arrayIndexNV at hr
  rcases List.mem_append.mp hr with hr | hr
  · split at hr
    · rename_i hflag
      obtain ⟨d, hd, v, hv, hmem⟩ := overrun_flag hflag
      obtain ⟨hm, hi, himp, hs⟩ := isOutOfBounds_spec hv
      obtain ⟨hc, hda⟩ := es v ((indexVectorErrorV_error hr he).1 rfl v hmem)
      exact ⟨d, hd, v, hm, ⟨hc, hda, by intro hk; simp [Value.isImpossible, hk] at himp⟩, hi, Or.inl hs⟩
    · simp at hr
  · split at hr
    · rename_i hflag
      obtain ⟨d, hd, v, hv, hmem⟩ := negative_flag hflag
      obtain ⟨hm, himp, hi, hs, _⟩ := getValueLE_spec hv
      obtain ⟨hc, hda⟩ := es v ((indexVectorErrorV_error hr he).1 rfl v hmem)
      exact ⟨d, hd, v, hm, ⟨hc, hda, by intro hk; simp [Value.isImpossible, hk] at himp⟩, hi, Or.inr hs⟩
    · simp at hr

/-- one-dimensional access -/
theorem arrayIndex_error_definite (o : Opts) (size : Int) (vals : List Value) (r : Report)
    (hr : r ∈ arrayIndex o size vals) (he : r.sev = .error) :
    ∃ v ∈ vals, Definite v ∧ v.isInt = true ∧ (size ≤ v.intvalue ∨ v.intvalue ≤ -1) := by
  obtain ⟨d, hd, v, hv, h⟩ := arrayIndexN_error_definite o [(size, vals)] r hr he
  simp at hd; subst hd
  exact ⟨v, hv, h⟩

example : arrayIndexN allOn
    [(2, [{ sampleValue .possible 2 true with hasErrorPath := true }]), (3, [{ sampleValue .known 1 false with hasErrorPath := true }])] =
    [⟨"arrayIndexOutOfBoundsCond", .warning, .normal⟩] := by decide

/-- regression (F04c, repaired by 43eccce): with arrayIndexError as it was found the statement failed for two index positions —
    `a[j][i]` on `int a[2][3]` where `j` is 2 only under a condition and `i` is a Known, in-bounds 1 that carries an error path
    (an assignment) was graded `error`, id without `Cond` -/
theorem arrayIndexN_asFound_counterexample :
    ¬ ∀ (o : Opts) (dims : List (Int × List Value)) (r : Report), r ∈ arrayIndexNAsFound o dims → r.sev = .error →
        ∃ d ∈ dims, ∃ v ∈ d.2, (d.1 ≤ v.intvalue ∨ v.intvalue ≤ -1) ∧ v.cond = false := by
  intro h
  obtain ⟨d, hd, v, hv, hoob, hc⟩ := h allOn
    [(2, [{ sampleValue .possible 2 true with hasErrorPath := true }]), (3, [{ sampleValue .known 1 false with hasErrorPath := true }])]
    ⟨"arrayIndexOutOfBounds", .error, .normal⟩ (by decide) rfl
  simp at hd
  rcases hd with hd | hd <;> subst hd <;> simp at hv <;> subst hv <;> revert hoob hc <;> decide

theorem shiftTooManyBits_error_definite (o : Opts) (lhsbits : Int) (sg : Bool) (vals : List Value) (r : Report)
    (hr : r ∈ shiftTooManyBits o lhsbits sg vals) (he : r.sev = .error) :
    ∃ v ∈ vals, Definite v ∧ v.isInt = true ∧ lhsbits - 1 ≤ v.intvalue ∧ (r.id = "shiftTooManyBits" → lhsbits ≤ v.intvalue) := by
  have grade : ∀ v : Value, sevOf v.errorSeverity = .error → v.cond = false ∧ v.defaultArg = false := by
    intro v h; cases hc : v.cond <;> cases hd : v.defaultArg <;> simp_all [sevOf, Value.errorSeverity]
  unfold shiftTooManyBits at hr
  split at hr
  · rename_i v hsel
    simp at hr; subst hr
    split at hsel
    · rename_i v' hv
      split at hsel
      · injection hsel with hsel; subst hsel
        obtain ⟨hm, himp, hi, hs, _⟩ := getValueGE_spec hv
        obtain ⟨hc, hd⟩ := grade _ he
        exact ⟨_, hm, ⟨hc, hd, by intro hk; simp [Value.isImpossible, hk] at himp⟩, hi, by omega, fun _ => hs⟩
      · simp at hsel
    · simp at hsel
  · split at hr
    · split at hr
      · rename_i v hv
        obtain ⟨hm, himp, hi, hs, _⟩ := getValueGE_spec hv
        split at hr
        · by_cases h14 : o.cpp14 = true
          · simp [h14] at hr
            obtain ⟨_, hr⟩ := hr
            subst hr; simp at he
          · simp [h14] at hr
            obtain ⟨_, hr⟩ := hr
            · subst hr
              obtain ⟨hc, hd⟩ := grade _ he
              exact ⟨_, hm, ⟨hc, hd, by intro hk; simp [Value.isImpossible, hk] at himp⟩, hi, hs, by simp⟩
        · simp at hr
      · simp at hr
    · simp at hr

theorem integerOverflow_error_definite (o : Opts) (bits : Nat) (shl : Bool) (vals : List Value) (r : Report)
    (hr : r ∈ integerOverflow o bits shl vals) (he : r.sev = .error) :
    ∃ v ∈ vals, Definite v ∧ v.isInt = true ∧ (v.intvalue > 2 ^ (bits - 1) - 1 ∨ v.intvalue < -(2 ^ (bits - 1))) := by
  unfold integerOverflow at hr
  simp only at hr
  split at hr
  · simp at hr
  · rename_i v hsel
    split at hr
    · simp at hr
    · split at hr
      · simp at hr
      · simp at hr; subst hr
        have hcd : v.cond = false ∧ v.defaultArg = false := by
          cases hc : v.cond <;> cases hd : v.defaultArg <;> simp_all [sevOf, Value.errorSeverity]
        split at hsel
        · rename_i v' hv
          injection hsel with hsel; subst hsel
          obtain ⟨hm, himp, hi, hs, _⟩ := getValueGE_spec hv
          exact ⟨_, hm, ⟨hcd.1, hcd.2, by intro hk; simp [Value.isImpossible, hk] at himp⟩, hi, Or.inl (by omega)⟩
        · obtain ⟨hm, himp, hi, hs, _⟩ := getValueLE_spec hsel
          exact ⟨_, hm, ⟨hcd.1, hcd.2, by intro hk; simp [Value.isImpossible, hk] at himp⟩, hi, Or.inr (by omega)⟩

theorem uninitvar_error_known (o : Opts) (vals : List Value) (r : Report)
    (hr : r ∈ uninitvar o vals) (he : r.sev = .error) :
    ∃ v ∈ vals, v.vtype = .uninit ∧ v.kind = .known := by
  unfold uninitvar at hr
  split at hr
  · simp at hr
  · rename_i v hv
    have hm := List.mem_of_find?_eq_some hv
    have hp := List.find?_some hv
    simp at hp
    refine ⟨v, hm, hp, ?_⟩
    split at hr
    · simp at hr
    · split at hr
      · simp at hr
      · split at hr
        · simp at hr
        · simp at hr; subst hr; simpa [sevOf, Value.isKnown] using he

theorem invalidFunctionArg_error_known (o : Opts) (valid : Int → Bool) (vals : List Value) (r : Report)
    (hr : r ∈ invalidFunctionArg o valid vals) (he : r.sev = .error) :
    ∃ v ∈ vals, Definite v ∧ v.kind = .known ∧ v.isInt = true ∧ valid v.intvalue = false := by
  unfold invalidFunctionArg at hr
  split at hr
  · simp at hr
  · rename_i v hv
    obtain ⟨hm, hp, _, _⟩ := findValue_spec hv
    simp at hp
    simp at hr; subst hr
    simp [sevOf, Value.errorSeverity, Value.isKnown] at he
    exact ⟨v, hm, ⟨he.1, he.2.1, by rw [he.2.2]; decide⟩, he.2.2, hp.1.2, hp.2⟩

/-- shiftNegative: error ⇒ a definite value ≤ -1 of the right operand -/
theorem shiftNegative_error_definite (o : Opts) (ls rs : Bool) (lv rv : List Value)
    (r : Report) (hr : r ∈ shiftNegative o ls rs lv rv) (he : r.sev = .error) :
    ∃ v ∈ rv, Definite v ∧ v.isInt = true ∧ v.intvalue ≤ -1 := by
  unfold shiftNegative shiftNegativeV at hr
  split at hr
  · simp at hr; subst hr; simp at he
  · split at hr
    · split at hr
      · rename_i v hv
        obtain ⟨hm, himp, hi, hle, _⟩ := getValueLE_spec hv
        by_cases hen : isEnabled o v false = true
        · simp [hen] at hr; subst hr
          have hcd : v.cond = false ∧ v.defaultArg = false := by
            cases hc : v.cond <;> cases hd : v.defaultArg <;> simp_all [sevOf, Value.errorSeverity]
          exact ⟨v, hm, ⟨hcd.1, hcd.2, by intro hk; simp [Value.isImpossible, hk] at himp⟩, hi, hle⟩
        · simp [hen] at hr
      · simp at hr
    · simp at hr

example : (shiftNegative allOn true true [] [sampleValue .possible (-1) true]) = [⟨"shiftNegative", .warning, .normal⟩] ∧
    (shiftNegative allOn true true [] [sampleValue .known (-1) false]) = [⟨"shiftNegative", .error, .normal⟩] ∧
    (shiftNegative allOff true true [] [{ sampleValue .possible (-1) false with defaultArg := true }]) = [] := by decide

/-- regression (F04a, repaired by 4fa5b48): negativeBitwiseShiftError as it was found graded `error` on a list that holds nothing
    but a value hanging on a condition -/
theorem shiftNegative_asFound_counterexample :
    ¬ ∀ (o : Opts) (ls rs : Bool) (lv rv : List Value) (r : Report),
        r ∈ shiftNegativeAsFound o ls rs lv rv → r.sev = .error → ∃ v ∈ rv, Definite v := by
  intro h
  obtain ⟨v, hm, hd⟩ := h { allOn with portability := false } true true [] [sampleValue .possible (-1) true]
    ⟨"shiftNegative", .error, .normal⟩ (by decide) rfl
  simp at hm; subst hm
  exact absurd hd.1 (by decide)

/-! #### the trigger conditions are undefined behaviour in the MiniC semantics (C01's specification side) -/

open Cppcheck.MiniC in
/-- zerodiv: a right operand equal to 0 makes `/` and `%` undefined, whatever the operand types -/
theorem zerodiv_trigger_is_ub (P : Cppcheck.Platforms.Platform) (ta tb : Ty) (a : Int) :
    evalBin P .div ta tb a 0 = none ∧ evalBin P .mod ta tb a 0 = none := by
  have h0 : ∀ t, conv P t 0 = 0 := by
    intro t; unfold conv Cppcheck.Trunc.wrapC; split <;> simp
  constructor <;> simp [evalBin, BinOp.isShift, h0]

open Cppcheck.MiniC in
/-- shiftTooManyBits / shiftNegative: a shift count (a value of the promoted right operand type) that is negative or at least
    the width of the promoted left operand makes `<<` and `>>` undefined -/
theorem shift_trigger_is_ub (P : Cppcheck.Platforms.Platform) (ta tb : Ty) (a c : Int)
    (hrep : conv P (promote P tb) c = c) (htrig : c < 0 ∨ c ≥ bits P (promote P ta)) :
    evalBin P .shl ta tb a c = none ∧ evalBin P .shr ta tb a c = none := by
  constructor <;> simp [evalBin, BinOp.isShift, hrep, htrig]

open Cppcheck.MiniC in
/-- integerOverflow: a mathematical result outside the signed operation type is undefined -/
theorem overflow_trigger_is_ub (P : Cppcheck.Platforms.Platform) (t : Ty) (r : Int) (hs : t.signed = true)
    (htrig : r > tmax P t ∨ r < tmin P t) : arith P t r = none := by
  unfold arith
  simp [hs]
  omega

example : Cppcheck.MiniC.conv Cppcheck.MiniC.lp64 (Cppcheck.MiniC.promote Cppcheck.MiniC.lp64 Cppcheck.MiniC.tInt) 32 = 32 ∧
    (32 : Int) ≥ Cppcheck.MiniC.bits Cppcheck.MiniC.lp64 (Cppcheck.MiniC.promote Cppcheck.MiniC.lp64 Cppcheck.MiniC.tInt) := by
  decide

end Cppcheck.SevDecide

/-!
Part 2: `CheckLeakAutoVar::checkScope` on straight-line functions (`Cppcheck.LeakStraight`): programs are lists of
`alloc x | free x | use x | assign x y | ret x | ret0` of any length over any number of pointer variables; `reports` is the
automaton copied from the code, `oracle` the events of the one concrete execution (fresh block per allocation, freed set,
uninitialised variables; execution stops at the first return).
-/
namespace Cppcheck.LeakStraight

/-- **no false positives on straight-line code**: when no statement follows a `return`, every memleak / doubleFree /
    deallocuse / deallocret the automaton reports is an event of the concrete execution at the same statement for the same
    variable — unless the execution has read an uninitialised pointer at an earlier statement (it was undefined before). -/
theorem leak_reports_sound (p : List Op) (h : retOnlyLast p = true) :
    ∀ r ∈ reports p, r ∈ oracle p ∨ ∃ u ∈ oracle p, u.kind = .uninit ∧ u.pos < r.pos :=
  scan_sound (nvars p) p clearA init 0 inv_init h

example : retOnlyLast [.alloc 0, .alloc 1, .free 0, .use 0, .ret 0] = true ∧
    reports [.alloc 0, .alloc 1, .free 0, .use 0, .ret 0] = [⟨.deallocuse, 0, 3⟩, ⟨.deallocret, 0, 4⟩, ⟨.memleak, 1, 4⟩] := by
  decide

/-- the hypothesis is needed: checkScope keeps scanning behind a `return`, the execution does not.
    `return 0; free(p0); free(p0);` is reported as doubleFree although `free` is never executed (finding F04b). -/
theorem leak_reports_sound_counterexample :
    ¬ ∀ p : List Op, ∀ r ∈ reports p, r ∈ oracle p ∨ ∃ u ∈ oracle p, u.kind = .uninit ∧ u.pos < r.pos := by
  intro h
  have := h [.ret0, .free 0, .free 0] ⟨.doubleFree, 0, 2⟩ (by decide)
  revert this
  decide

/-- a function whose execution neither leaks nor misuses a block (and reads no uninitialised pointer) gets no finding -/
theorem clean_program_no_reports (p : List Op) (h : retOnlyLast p = true) (hc : oracle p = []) : reports p = [] := by
  apply List.eq_nil_iff_forall_not_mem.mpr
  intro r hr
  rcases leak_reports_sound p h r hr with h1 | ⟨u, hu, _⟩
  · rw [hc] at h1; simp at h1
  · rw [hc] at hu; simp at hu

example : retOnlyLast [.alloc 0, .use 0, .assign 1 0, .free 1, .alloc 0, .ret 0] = true ∧
    oracle [.alloc 0, .use 0, .assign 1 0, .free 1, .alloc 0, .ret 0] = [] := by decide

/-- **exactness without pointer copies**: no `px = py`, no read of an uninitialised pointer, nothing behind a return ⇒ the
    automaton reports exactly the events of the execution, in the same order. -/
theorem leak_automaton_exact (p : List Op) (h1 : retOnlyLast p = true) (h2 : noAssign p = true) (h3 : noUninit p = true) :
    reports p = oracle p := by
  apply scan_exact (nvars p) p clearA init 0 exact_init h1 h2
  intro u hu
  unfold noUninit at h3
  have := List.all_eq_true.mp h3 u hu
  simpa using this

example : retOnlyLast [.alloc 0, .alloc 0, .free 0, .free 0, .alloc 1, .ret0] = true ∧
    noAssign [.alloc 0, .alloc 0, .free 0, .free 0, .alloc 1, .ret0] = true ∧
    noUninit [.alloc 0, .alloc 0, .free 0, .free 0, .alloc 1, .ret0] = true ∧
    oracle [.alloc 0, .alloc 0, .free 0, .free 0, .alloc 1, .ret0] = [⟨.memleak, 0, 1⟩, ⟨.doubleFree, 0, 3⟩, ⟨.memleak, 1, 5⟩] := by
  decide

/-- with a pointer copy the automaton is no longer complete (it forgets both variables): `p1 = p0; free(p0); free(p1);` -/
theorem leak_automaton_exact_counterexample :
    ¬ ∀ p : List Op, retOnlyLast p = true → noUninit p = true → reports p = oracle p := by
  intro h
  have := h [.alloc 0, .assign 1 0, .free 0, .free 1] (by decide) (by decide)
  revert this
  decide

end Cppcheck.LeakStraight

/-!
Part 3: allocation groups (`Cppcheck.LibGroups`, lib/library.cpp `Library::load`): which deallocator matches which allocator.
-/
namespace Cppcheck.LibGroups

/-- every function a block declares is registered with the block's group -/
theorem loadBlock_registers (st : LibState) (b : Block) :
    (∀ n ∈ b.allocs, allocGroup (loadBlock st b) n = some (groupFor st b).1) ∧
    (∀ n ∈ b.deallocNames, deallocGroup (loadBlock st b) n = some (groupFor st b).1) := by
  constructor <;> intro n hn <;> simp only [loadBlock, allocGroup, deallocGroup] <;> exact lookup_map_append_mem hn

/-- functions the block does not declare keep their group -/
theorem loadBlock_keeps (st : LibState) (b : Block) :
    (∀ n, n ∉ b.allocs → allocGroup (loadBlock st b) n = allocGroup st n) ∧
    (∀ n, n ∉ b.deallocNames → deallocGroup (loadBlock st b) n = deallocGroup st n) := by
  constructor <;> intro n hn <;> simp only [loadBlock, allocGroup, deallocGroup] <;> exact lookup_map_append_not_mem hn

/-- **a block joins the group of a deallocator it shares** — whichever `<dealloc>` element names it — provided all of its
    already registered deallocator names are in that one group -/
theorem groupFor_joins (st : LibState) (b : Block) (d : String) (g : Nat)
    (hd : d ∈ b.deallocNames) (hg : deallocGroup st d = some g) (hall : knownAllIn st b g = true) :
    (groupFor st b).1 = g := by
  unfold groupFor
  cases hf : firstKnown st.dealloc b.deallocNames with
  | none =>
    have := firstKnown_none hf d hd
    simp [deallocGroup] at hg
    rw [this] at hg; simp at hg
  | some g' =>
    obtain ⟨n, hn, hl⟩ := firstKnown_some hf
    have := List.all_eq_true.mp hall n hn
    simp [hl] at this
    simpa using this

/-- two blocks that share a deallocator name: after both are loaded, every allocator and deallocator of either block is in the
    first block's group (so each deallocator of one matches each allocator of the other) -/
theorem shared_dealloc_same_group_partial (st : LibState) (b1 b2 : Block) (d : String)
    (h1 : d ∈ b1.deallocNames) (h2 : d ∈ b2.deallocNames)
    (hall : knownAllIn (loadBlock st b1) b2 (groupFor st b1).1 = true) :
    let st2 := loadBlock (loadBlock st b1) b2
    (∀ a ∈ b1.allocs ++ b2.allocs, allocGroup st2 a = some (groupFor st b1).1) ∧
    (∀ n ∈ b1.deallocNames ++ b2.deallocNames, deallocGroup st2 n = some (groupFor st b1).1) := by
  have hg2 : (groupFor (loadBlock st b1) b2).1 = (groupFor st b1).1 :=
    groupFor_joins _ b2 d _ h2 ((loadBlock_registers st b1).2 d h1) hall
  constructor
  · intro a ha
    by_cases hb : a ∈ b2.allocs
    · rw [(loadBlock_registers _ b2).1 a hb, hg2]
    · have : a ∈ b1.allocs := by
        rcases List.mem_append.mp ha with h | h
        · exact h
        · exact absurd h hb
      rw [(loadBlock_keeps _ b2).1 a hb]
      exact (loadBlock_registers st b1).1 a this
  · intro n hn
    by_cases hb : n ∈ b2.deallocNames
    · rw [(loadBlock_registers _ b2).2 n hb, hg2]
    · have : n ∈ b1.deallocNames := by
        rcases List.mem_append.mp hn with h | h
        · exact h
        · exact absurd h hb
      rw [(loadBlock_keeps _ b2).2 n hb]
      exact (loadBlock_registers st b1).2 n this

/-- the hypothesis is satisfiable; and the rule looks at *all* `<dealloc>` elements: a block whose first `<dealloc>` is new and
    whose second one is `free` joins the group of `free` (the pool.cfg shape of the seeded change) -/
example :
    let std : Block := ⟨false, ["malloc", "calloc"], [["free"]]⟩
    let pool : Block := ⟨false, ["pool_strdup"], [["pool_release"], ["free"]]⟩
    knownAllIn (loadBlock empty std) pool (groupFor empty std).1 = true ∧
    allocGroup (load empty [std, pool]) "pool_strdup" = some 2 ∧ allocGroup (load empty [std, pool]) "malloc" = some 2 ∧
    deallocGroup (load empty [std, pool]) "free" = some 2 ∧ deallocGroup (load empty [std, pool]) "pool_release" = some 2 := by
  decide

/-- without the hypothesis the rule is not the equivalence closure of "declared in one block": a block whose deallocators are
    known in two different groups joins the first and *moves* the other deallocator there — the allocator that was declared together
    with it stays behind (`a2` / `d2` of one block no longer match) -/
theorem groups_not_closure_counterexample :
    let bs : List Block := [⟨false, ["a1"], [["d1"]]⟩, ⟨false, ["a2"], [["d2"]]⟩, ⟨false, ["a3"], [["d1"], ["d2"]]⟩]
    allocGroup (load empty bs) "a2" = some 4 ∧ deallocGroup (load empty bs) "d2" = some 2 ∧
    allocGroup (load empty bs) "a3" = some 2 ∧ allocGroup (load empty bs) "a1" = some 2 := by
  decide

end Cppcheck.LibGroups

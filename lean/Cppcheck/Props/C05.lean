import Cppcheck.Proofs.MatchEquiv
import Cppcheck.Props.C33Interp
import Cppcheck.Gen.Reserved
import Cppcheck.Proofs.Lexer
import Cppcheck.Model.PerFunction
/-
C05 — property theorems (part 1: renaming; part 2 (lexer layout) below).

Part 1.  A pattern of the token-pattern language reads the *spelling* of a token only by comparing it
with strings written in the pattern (`patLits p`: literal atoms, `!!x`, the characters of `[..]`, and
`|` / `||` for `%or%` / `%oror%`).  A spelling map `f` that neither creates nor destroys such an equality
on the tokens at hand (`Compat f (patLits p) ts`, decidable) leaves the verdict unchanged — for the
documented language, hence (C33) for the compiled and for the interpreted matcher, on token lists of
any length.  Token type, `isName` and `varId` are separate fields of the token model and are kept by
`mapTok`; that the real tokenizer classifies the renamed spelling like the old one is the premise
"meaning-preserving" of the property and is validated by the CLI pairs only.
-/
namespace Cppcheck.C05
open Cppcheck.Wire Cppcheck.Match Cppcheck.MatchEquiv

/-- **match_equivariant** (documented language): for EVERY pattern string, token list and varid. -/
theorem match_equivariant (p : Str) (f : Str → Str) (ts : List Tok) (v : Nat)
    (h : Compat f (patLits p) ts) :
    sem (parse p) (ts.map (mapTok f)) v = sem (parse p) ts v := by
  unfold sem
  rw [semWords_map f v (parse p) ts h]

/-- … transferred to the match-compiled function (C33 `compiled_eq_language`). -/
theorem match_equivariant_compiled (p : Str) (hasVarid : Bool) (f : Str → Str) (ts : List Tok) (v : Nat)
    (h : Compat f (patLits p) ts) (hv : v ≠ 0)
    (hts : ∀ t ∈ ts, TokWF t = true) (hts' : ∀ t ∈ ts, TokWF (mapTok f t) = true) :
    run (compile p hasVarid) (ts.map (mapTok f)) v = run (compile p hasVarid) ts v := by
  rw [compiled_eq_language p hasVarid _ v (by
        intro t ht
        obtain ⟨t0, ht0, rfl⟩ := List.mem_map.1 ht
        exact hts' t0 ht0) hv,
    compiled_eq_language p hasVarid ts v hts hv]
  exact match_equivariant p f ts v h

/-- … and to the interpreted `Token::Match` (C33 `interp_eq_language`). -/
theorem match_equivariant_interpreted (p : Str) (f : Str → Str) (ts : List Tok) (v : Nat)
    (h : Compat f (patLits p) ts)
    (hp : patternWF p = true) (hn : noNul p = true)
    (hts : ∀ t ∈ ts, TokStrOK t = true) (hts' : ∀ t ∈ ts, TokStrOK (mapTok f t) = true)
    (hv : v ≠ 0 ∨ usesVarid (parse p) = false) :
    interpB p (ts.map (mapTok f)) v = interpB p ts v := by
  rw [interp_eq_language p _ v hp hn (by
        intro t ht
        obtain ⟨t0, ht0, rfl⟩ := List.mem_map.1 ht
        exact hts' t0 ht0) hv,
    interp_eq_language p ts v hp hn hts hv]
  exact match_equivariant p f ts v h

/-- the compiled `findmatch` finds the same position in the renamed list -/
theorem findmatch_equivariant (p : Str) (hasVarid : Bool) (f : Str → Str) (v : Nat) (hv : v ≠ 0) :
    ∀ (ts : List Tok) (idx budget : Nat), Compat f (patLits p) ts →
      (∀ t ∈ ts, TokWF t = true) → (∀ t ∈ ts, TokWF (mapTok f t) = true) →
      findFrom (compile p hasVarid) v (ts.map (mapTok f)) idx budget = findFrom (compile p hasVarid) v ts idx budget := by
  intro ts
  induction ts with
  | nil => intro idx budget _ _ _; rfl
  | cons t r ih =>
    intro idx budget h hts hts'
    cases budget with
    | zero => rfl
    | succ b =>
      have hr := match_equivariant_compiled p hasVarid f (t :: r) v h hv hts hts'
      simp only [List.map_cons] at hr
      simp only [List.map_cons, findFrom, hr]
      rw [ih (idx + 1) b h.tail (fun t' h' => hts t' (by simp [h'])) (fun t' h' => hts' t' (by simp [h']))]

/-- **renaming_equivariant**: a finite renaming that avoids a set `R` containing the pattern's strings. -/
theorem renaming_equivariant (p : Str) (σ : Renaming) (R : List Str)
    (hR : ∀ s ∈ patLits p, s ∈ R) (hσ : σ.avoids R = true) (ts : List Tok) (v : Nat) :
    sem (parse p) (ts.map σ.tok) v = sem (parse p) ts v :=
  match_equivariant p σ.f ts v ((avoids_compat σ R hσ ts).mono hR)

/-- **all_source_patterns_equivariant**: for every pattern literal extracted from lib/*.cpp, every
    renaming that avoids the extracted reserved set, every token list and every varid.
    As far as `Token::Match` patterns (and the literal `str()` comparisons collected in `strLiterals`) can see, a name outside
    `reserved` may be renamed freely.  Names compared through set look-ups, prefix tests or the library configuration are
    NOT in `reserved`; that part of the analysis is outside this theorem (sampled by the CLI pairs only). -/
theorem all_source_patterns_equivariant :
    ∀ p ∈ Gen.Reserved.patterns, ∀ σ : Renaming, σ.avoids Gen.Reserved.reserved = true →
      ∀ (ts : List Tok) (v : Nat), sem (parse p) (ts.map σ.tok) v = sem (parse p) ts v := by
  intro p hp σ hσ ts v
  exact renaming_equivariant p σ _ (fun s hs => mem_reservedOf_of_pattern _ _ p hp s hs) hσ ts v

/-- the same for the match-compiled functions of the source patterns: the token-type invariant of
    C33 is preserved by such a renaming, so it is required of the original list only -/
theorem all_source_patterns_equivariant_compiled :
    ∀ p ∈ Gen.Reserved.patterns, ∀ σ : Renaming, σ.avoids Gen.Reserved.reserved = true →
      ∀ (hasVarid : Bool) (ts : List Tok) (v : Nat), v ≠ 0 → (∀ t ∈ ts, TokWF t = true) →
        run (compile p hasVarid) (ts.map σ.tok) v = run (compile p hasVarid) ts v := by
  intro p hp σ hσ hasVarid ts v hv hts
  exact match_equivariant_compiled p hasVarid σ.f ts v
    ((avoids_compat σ _ hσ ts).mono (fun s hs => mem_reservedOf_of_pattern _ _ p hp s hs)) hv hts
    (fun t ht => tokWF_map σ _ hσ (tokTypes_sub_reservedOf _ _) t (hts t ht))

/-! hypotheses are satisfiable / the statement is not vacuous -/

def exRen : Renaming := ⟨[("count".toList, "n_items".toList), ("buf".toList, "count".toList)]⟩

example : exRen.avoids (reservedOf ["%name% = malloc|calloc ( !!0".toList, "[;{}]".toList] ["sizeof".toList]) = true := by decide
example : exRen.injOn ["count".toList, "buf".toList, "i".toList] = true := by decide
-- the renamed list really differs, and the verdict is that of the original
example : ([exTok "count" .eVariable 1 true, exTok "=" .eAssignmentOp 0 false, exTok "malloc" .eFunction 0 true].map exRen.tok).map (·.str)
    = ["n_items".toList, "=".toList, "malloc".toList] := by decide
example : Compat (fun s => if s = "x".toList then "y".toList else s) (patLits "%name% = foo|bar".toList)
    [exTok "x" .eVariable 1 true, exTok "=" .eAssignmentOp 0 false, exTok "foo" .eName 0 true] := by decide
-- a map that turns an ordinary name into a pattern literal is rejected by the hypothesis, and rightly so
example : ¬ Compat (fun s => if s = "x".toList then "foo".toList else s) (patLits "%name% = foo|bar".toList)
    [exTok "x" .eVariable 1 true] := by decide
example : sem (parse "foo".toList) ([exTok "x" .eVariable 1 true].map (mapTok fun s => if s = "x".toList then "foo".toList else s)) 0
    ≠ sem (parse "foo".toList) [exTok "x" .eVariable 1 true] 0 := by decide


/-! ## Part 2 — simplecpp's lexer and layout

`Cppcheck.Lexer` models `simplecpp::TokenList::readfile` (`lexRaw`), `combineOperators` (`combine`) and
`removeComments`; `tokens = removeComments ∘ combine ∘ lexRaw` is the token stream the preprocessor starts from.
A source text is described as a sequence of lexical elements (`Elem`: white space, newline, `//` and `/* */`
comments, words, operator bytes, quoted literals); `renderE` prints it, `placeE` is its position function.

* `lexRaw_of_layout`  : for EVERY well-formed element sequence `readfile` returns exactly the token elements, at
                        the positions `placeE` predicts — so white space, blank lines and comments between tokens
                        influence the raw tokens only through the positions (induction over the sequence).
* `combine_relocation`: `combineOperators` commutes with every relocation of the tokens that keeps "same line"
                        and, on one line, "next column" (the only facts it reads of positions), for token lists of
                        any length (induction over its loop).
* `lexer_layout`      : tokens (edit src) = (tokens src).map shiftLoc  for layout edits between tokens. -/

open Cppcheck.Lexer

/-- **readfile on a layout**: raw tokens (comments included) of a well-formed element sequence -/
theorem lexRaw_of_layout (es : List Elem) (h : elemsOK es = true) :
    lexRaw (renderE es) = some (placeE 1 1 es) :=
  lexRaw_render es h

theorem tokens_of_layout (es : List Elem) (h : elemsOK es = true) :
    tokens (renderE es) = some (removeComments (combine (placeE 1 1 es))) := by
  simp [tokens, lexAll, lexRaw_render es h]

/-- **combineOperators is equivariant** under relocations `φ` of the tokens that keep
    "same line" between all token positions and "next column" between the one-character operator tokens of a line
    (checked by the executable `presB`), when three directly following `.` tokens share a line. -/
theorem combine_relocation (φ : Nat × Nat → Nat × Nat) (ts : List RTok)
    (hφ : presB φ (ts.map RTok.pos) (opPositions ts) = true) (hd : dotsOKB ts = true) :
    combine (ts.map (reloc φ)) = (combine ts).map (reloc φ) :=
  combine_reloc (presB_spec φ _ _ hφ) ts (allIn_self ts) (opIn_self ts) (dotsOKB_spec ts hd)

/-- **lexer_layout**: `es'` is a layout edit of `es` — the same token elements (comments included) in the same order,
    white space and newlines changed so that every token moves to `φ` of its old position.  Then the token stream
    of the edited text is the relocated token stream of the original text.
    (Gaps may open or close anywhere except between two operator bytes: `a=b` ↦ `a = b` is covered, `+ =` ↦ `+=` is
    excluded by `presB`.) -/
theorem lexer_layout (es es' : List Elem) (φ : Nat × Nat → Nat × Nat)
    (h : elemsOK es = true) (h' : elemsOK es' = true)
    (hrel : placeE 1 1 es' = (placeE 1 1 es).map (reloc φ))
    (hφ : presB φ ((placeE 1 1 es).map RTok.pos) (opPositions (placeE 1 1 es)) = true)
    (hd : dotsOKB (placeE 1 1 es) = true) :
    tokens (renderE es') = (tokens (renderE es)).map (List.map (reloc φ)) := by
  rw [tokens_of_layout es h, tokens_of_layout es' h', hrel, combine_relocation φ _ hφ hd, removeComments_reloc]
  rfl

/-- a per-line shift (insert blank / comment-only lines, re-indent whole lines) keeps what `combineOperators` reads -/
theorem pres_lineShift (g a : Nat → Nat) (hg : ∀ x y, g x = g y → x = y) (P Q : Nat × Nat → Prop) :
    Pres (fun p => (g p.1, p.2 + a p.1)) P Q := by
  constructor
  · intro p q _ _
    exact ⟨fun e => hg _ _ e, fun e => by simp only [e]⟩
  · intro p q _ _ hl
    simp only [hl]
    omega

/-- `lexer_layout` for per-line shifts: no hypothesis on the positions is left -/
theorem lexer_layout_lineShift (es es' : List Elem) (g a : Nat → Nat) (hg : ∀ x y, g x = g y → x = y)
    (h : elemsOK es = true) (h' : elemsOK es' = true)
    (hrel : placeE 1 1 es' = (placeE 1 1 es).map (reloc fun p => (g p.1, p.2 + a p.1)))
    (hd : dotsOKB (placeE 1 1 es) = true) :
    tokens (renderE es') = (tokens (renderE es)).map (List.map (reloc fun p => (g p.1, p.2 + a p.1))) := by
  rw [tokens_of_layout es h, tokens_of_layout es' h', hrel,
    combine_reloc (pres_lineShift g a hg _ _) _ (allIn_self _) (opIn_self _) (dotsOKB_spec _ hd), removeComments_reloc]
  rfl

/-- the "executable scope" stack of `combineOperators` never holds `true`: the look-back at a `{` skips `)` too,
    so `prev->op == ')'` cannot hold afterwards (the `&=` special case is therefore always active) -/
theorem executable_scope_probe_dead (prev : List RTok) : scopeProbe prev = false := scopeProbe_false prev

/-! ### comment-only lines: the unconditional statement is false of the code

Audit suggestion M3: "for `es'` = `es` with comment-only lines inserted, `tokens (renderE es') = (tokens (renderE es))` up to the
line shift".  `combineOperators` does look across a comment token on another line: the look-back of the `&=` special case
(`findOpen` / `declWalk`) walks over the tokens in front of the parameter list and a comment token is neither a name nor
`::`, `*`, `&`, so the declaration is no longer recognised and `&` `=` are glued.  Valid C++, reproduced on the real lexer and
on the cppcheck binary (finding F05d, corpus/C05/witnesses.json).  What holds without further hypotheses is
`lexer_layout_lineShift` (the comment lines are already part of `es`; blank lines may be inserted, lines re-indented). -/

def srcNoComment : List Char := "void\nf(const int &= 2);\n".toList
def srcCommentLine : List Char := "void\n// c\nf(const int &= 2);\n".toList

/-- **counterexample**: inserting one comment-only line changes the token spellings (`&`, `=`  vs  `&=`) -/
theorem comment_line_insertion_not_neutral :
    ((tokens srcCommentLine).getD []).map (·.str) ≠ ((tokens srcNoComment).getD []).map (·.str) := by decide

example : ((tokens srcNoComment).getD []).map (·.str) =
    ["void", "f", "(", "const", "int", "&", "=", "2", ")", ";"].map String.toList := by decide
example : ((tokens srcCommentLine).getD []).map (·.str) =
    ["void", "f", "(", "const", "int", "&=", "2", ")", ";"].map String.toList := by decide

/-! hypotheses are satisfiable, the statement is about real merges -/

def exSrc : List Elem :=
  [.word "x".toList, .op '>', .op '>', .op '=', .word "1".toList, .op '.', .word "5e".toList, .op '+', .word "3".toList,
   .op ';', .lcom "c".toList, .nl, .word "p".toList, .op '-', .op '>', .word "q".toList, .op ';']
/-- the same tokens: re-indented, a blank line inserted, gaps opened around names and `;` -/
def exSrc' : List Elem :=
  [.ws ' ', .word "x".toList, .ws '\t', .op '>', .op '>', .op '=', .ws ' ', .word "1".toList, .op '.', .word "5e".toList,
   .op '+', .word "3".toList, .op ';', .ws ' ', .lcom "c".toList, .nl, .nl, .ws ' ', .word "p".toList, .op '-', .op '>', .word "q".toList, .ws ' ', .op ';']
def exTbl : List ((Nat × Nat) × (Nat × Nat)) :=
  [((1,1),(1,2)), ((1,2),(1,4)), ((1,3),(1,5)), ((1,4),(1,6)), ((1,5),(1,8)), ((1,6),(1,9)), ((1,7),(1,10)), ((1,9),(1,12)),
   ((1,10),(1,13)), ((1,11),(1,14)), ((1,12),(1,16)), ((2,1),(3,2)), ((2,2),(3,3)), ((2,3),(3,4)), ((2,4),(3,5)), ((2,5),(3,7))]

example : elemsOK exSrc = true ∧ elemsOK exSrc' = true := by decide
example : (placeE 1 1 exSrc).map RTok.pos = exTbl.map (·.1) ∧ (placeE 1 1 exSrc').map RTok.pos = exTbl.map (·.2) := by decide
example : presB (tableMap exTbl) (exTbl.map (·.1)) [(1,2), (1,3), (1,4), (1,6), (1,9), (1,11), (2,2), (2,3), (2,5)] = true := by decide
example : dotsOKB (placeE 1 1 exSrc) = true := by decide
example : ((tokens (renderE exSrc)).getD []).map (·.str) =
    ["x", ">>=", "1.5e+3", ";", "p", "->", "q", ";"].map String.toList := by decide
-- gluing / separating two operator bytes is not a layout edit: the hypothesis fails (and the tokens do change)
example : presB (tableMap [((1, 1), (1, 1)), ((1, 3), (1, 2))]) [(1, 1), (1, 3)] [(1, 1), (1, 3)] = false := by decide


/-! ## Part 3 — order of the function definitions

A check that decides every function from the function and the call graph alone reports the same multiset of findings for
every order of the definitions (`symbolDatabase->functionScopes` is in definition order).  The hypothesis is carried by the
shape of the model: `perFunctionFindings v defs = defs.flatMap v` has no state that survives from one function to the next.
`nothrowThrows` (CheckExceptionSafety::nothrowThrows, recursion guard created afresh per decided function) is of that shape;
the variant with a per-file memo of "walked, does not throw" callees is not, and is order dependent. -/

open Cppcheck.PerFunction

/-- **Perm-invariance of a per-function check** -/
theorem perFunction_perm_invariant {α β : Type} (v : α → List β) (defs defs' : List α) (h : defs.Perm defs') :
    (perFunctionFindings v defs).Perm (perFunctionFindings v defs') :=
  List.Perm.flatMap_right v h

/-- the modelled instance: throwInNoexceptFunction / throwInEntryPoint for every program (call graph with cycles
    included) and every two orders of the same definitions -/
theorem nothrowThrows_perm_invariant (P : PerFunction.Prog) (defs defs' : List Nat) (h : defs.Perm defs') :
    (nothrowThrows P defs).Perm (nothrowThrows P defs') :=
  perFunction_perm_invariant (verdict P) defs defs' h

/-- parseExpr ⇄ parseTerm (parseExpr throws), termValue noexcept → parseTerm, main → parseExpr, termValue -/
def cycleProg : PerFunction.Prog :=
  [⟨0, false, [.call 1, .throw]⟩, ⟨0, false, [.call 0]⟩, ⟨1, false, [.call 1]⟩, ⟨2, false, [.call 0, .call 2]⟩]

example : nothrowThrows cycleProg [0, 1, 2, 3] = [(2, 0, 1), (3, 0, 2)] := by decide
example : nothrowThrows cycleProg [0, 1, 3, 2] = [(3, 0, 2), (2, 0, 1)] := by decide

/-- what the hypothesis excludes: with a memo set carried across the decided functions the provisional "does not throw"
    of the recursion guard inside a call cycle is remembered, and swapping two independent definitions loses a finding -/
theorem sharedMemo_order_dependent :
    ¬ (nothrowSharedMemo cycleProg [0, 1, 2, 3] []).Perm (nothrowSharedMemo cycleProg [0, 1, 3, 2] []) := by
  intro h
  have := h.length_eq
  revert this
  decide

end Cppcheck.C05

import Cppcheck.Proofs.RunState
/-
C17 — a file's findings do not depend on the other files in the run.

`runSingle cfg analyze init files` is `SingleExecutor::check`: one `CppCheck` object, the files in order;
`analyze` (what the analysis of one file does on the carried state) is a parameter, so is the type of
suppressions, the "same parameters" test and the suppression matcher.  Everything is proved for every prefix
of any length and every `analyze`.
-/
namespace Cppcheck.RunState
open Cppcheck.Wire

variable {S : Type} {α : Type}

/-- the result of the last file of `pre ++ [f]` is `f` analysed on the state `pre` left behind -/
theorem findingsOfLast_snoc (cfg : Cfg S) (analyze : α → Trace S) (init : State S) (pre : List α) (f : α) :
    findingsOfLast (runSingle cfg analyze init (pre ++ [f])) =
      some (checkFile cfg (stateAfter cfg analyze init pre) (analyze f)).2 := by
  simp [findingsOfLast, runSingle, stateAfter, runFrom_append, runFrom]

/-- **independence, on the level of one `check()` call**: whatever state earlier files left behind, if it passes
    the five tests of `Indep` against the start state, the file yields the same forwarded messages, the same
    analyzer-information records and the same exit code as on the start state. -/
theorem checkFile_independent [DecidableEq S] (cfg : Cfg S) (c a : State S) (tr : Trace S)
    (hsub : ∀ s, s ∈ a.supprs → s ∈ c.supprs)
    (hyp : Indep cfg c a tr = true) :
    (checkFile cfg c tr).2 = (checkFile cfg a tr).2 := by
  simp only [Indep, Bool.and_eq_true] at hyp
  obtain ⟨⟨⟨⟨h1, h2⟩, h3⟩, h4⟩, h5⟩ := hyp
  have inv : Inv cfg c.supprs tr.evs (enter cfg c) (enter cfg a) := by
    refine ⟨?_, ?_, ?_, ?_, ?_, ?_, ?_, ?_⟩
    · simpa using hsub
    · intro s hs; exact Or.inr (by simpa using hs)
    · simpa using h1
    · intro s hs s' hs' hsame
      have := List.all_eq_true.1 (List.all_eq_true.1 h2 s hs) s' hs'
      simp only [Bool.or_eq_true, Bool.not_eq_true', decide_eq_true_eq] at this
      rcases this with h | h
      · rw [hsame] at h; cases h
      · exact h
    · intro x hx hi
      have := List.all_eq_true.1 h3 x hx
      simp only [enter_locMacros]
      simpa [hi] using this
    · intro x hx hi
      have := List.all_eq_true.1 h4 x hx
      simp only [enter_remarks]
      simpa [hi] using this
    · intro he x hx hi
      unfold leakOK at h5
      cases hc : cfg.clearAtStart
      · have h5' := h5
        simp only [hc, he, Bool.false_or] at h5'
        have := List.all_eq_true.1 h5' x hx
        simp only [hi, Bool.false_or, Bool.and_eq_true, beq_iff_eq] at this
        simpa [enter, hc] using this
      · simp [enter, hc, clearLists]
    · simp
  obtain ⟨ho, hx⟩ := run_sim cfg c.supprs tr.evs _ _ ⟨[], []⟩ inv
  simp only [checkFile]
  rw [ho, hx]

/-- **`file_findings_independent`** (DESIGN §5 C17): for every prefix `pre`, every file `f` and every analysis
    function, the findings of `f` in the run `pre ++ [f]` are those of the run `[f]` — provided the state left
    behind by `pre` passes `Indep` for `f`:
      H1 `foreignOK`  an inline suppression left behind that matches a finding of `f` is backed by a matching
                       suppression `f` has itself (shared header),
      H2 `sameOK`     a suppression of `f` with the parameters of one left behind is identical to it,
      H3/H4 `stale…OK` findings `f` reports before its own `setLocationMacros` / `setRemarkComments` see nothing
                       in the maps left behind,
      H5 `leakOK`     the duplicate filters left behind by files that returned early hold no text of `f`. -/
theorem file_findings_independent [DecidableEq S] (cfg : Cfg S) (analyze : α → Trace S) (init : State S)
    (pre : List α) (f : α)
    (hyp : Indep cfg (stateAfter cfg analyze init pre) init (analyze f) = true) :
    (findingsOfLast (runSingle cfg analyze init (pre ++ [f]))).map FileResult.nonWP =
    (findingsOfLast (runSingle cfg analyze init [f])).map FileResult.nonWP := by
  have h1 := findingsOfLast_snoc cfg analyze init pre f
  have h2 := findingsOfLast_snoc cfg analyze init [] f
  simp only [List.nil_append] at h2
  rw [h1, h2]
  have : stateAfter cfg analyze init ([] : List α) = init := rfl
  rw [this, checkFile_independent cfg _ init (analyze f) (stateAfter_supprs_mono cfg analyze pre init) hyp]

/-- the same without the projection: forwarded messages, analyzer-information records and exit code -/
theorem file_result_independent [DecidableEq S] (cfg : Cfg S) (analyze : α → Trace S) (init : State S)
    (pre : List α) (f : α)
    (hyp : Indep cfg (stateAfter cfg analyze init pre) init (analyze f) = true) :
    findingsOfLast (runSingle cfg analyze init (pre ++ [f])) = findingsOfLast (runSingle cfg analyze init [f]) := by
  have h1 := findingsOfLast_snoc cfg analyze init pre f
  have h2 := findingsOfLast_snoc cfg analyze init [] f
  simp only [List.nil_append] at h2
  rw [h1, h2]
  have : stateAfter cfg analyze init ([] : List α) = init := rfl
  rw [this, checkFile_independent cfg _ init (analyze f) (stateAfter_supprs_mono cfg analyze pre init) hyp]

theorem run_eq_map_alone_from [DecidableEq S] (cfg : Cfg S) (analyze : α → Trace S) (init : State S) (files : List α) :
    ∀ pre0 : List α,
    (∀ pre f post, files = pre ++ f :: post →
      Indep cfg (stateAfter cfg analyze init (pre0 ++ pre)) init (analyze f) = true) →
    (runFrom cfg analyze (stateAfter cfg analyze init pre0) files).2 =
      files.map (fun f => (checkFile cfg init (analyze f)).2) := by
  induction files with
  | nil => intro _ _; rfl
  | cons f rest ih =>
    intro pre0 hyp
    have hf := hyp [] f rest rfl
    simp only [List.append_nil] at hf
    have hnext : (checkFile cfg (stateAfter cfg analyze init pre0) (analyze f)).1 =
        stateAfter cfg analyze init (pre0 ++ [f]) := by
      simp [stateAfter, runFrom_append, runFrom]
    simp only [runFrom, List.map_cons]
    rw [hnext, ih (pre0 ++ [f]) (fun pre g post h => by
      have := hyp (f :: pre) g post (by simp [h])
      simpa [List.append_assoc] using this)]
    congr 1
    exact checkFile_independent cfg _ init (analyze f) (stateAfter_supprs_mono cfg analyze pre0 init) hf

/-- if every split of the run passes `Indep`, the whole run is the list of the alone results -/
theorem run_eq_map_alone [DecidableEq S] (cfg : Cfg S) (analyze : α → Trace S) (init : State S) (files : List α)
    (hyp : ∀ pre f post, files = pre ++ f :: post →
      Indep cfg (stateAfter cfg analyze init pre) init (analyze f) = true) :
    runSingle cfg analyze init files = files.map (fun f => (checkFile cfg init (analyze f)).2) :=
  run_eq_map_alone_from cfg analyze init files [] (by simpa using hyp)

/-! ## where the hypotheses come from -/

/-- H5 holds after a file that took the normal exit: `mLogger->clear()` ran -/
theorem leakOK_after_normal (cfg : Cfg S) (analyze : α → Trace S) (init : State S) (pre : List α) (g : α)
    (tr : Trace S) (hg : (analyze g).early = false) (hi : init.errorList = [] ∧ init.suppressedList = []) :
    leakOK cfg (stateAfter cfg analyze init (pre ++ [g])) init tr.evs = true := by
  have hst : stateAfter cfg analyze init (pre ++ [g]) =
      (checkFile cfg (stateAfter cfg analyze init pre) (analyze g)).1 := by
    simp [stateAfter, runFrom_append, runFrom]
  obtain ⟨h1, h2⟩ := checkFile_lists_normal cfg (stateAfter cfg analyze init pre) (analyze g) hg
  unfold leakOK
  rw [hst, h1, h2, hi.1, hi.2]
  simp

/-- H5 always holds in the code of record: `clear()` runs at the start of `checkInternal` (8f62378) -/
theorem leakOK_repaired (cfg : Cfg S) (c a : State S) (evs : List (Ev S)) (h : cfg.clearAtStart = true) :
    leakOK cfg c a evs = true := by
  simp [leakOK, h]

/-- H1 holds when every suppression left behind that can hit a finding of the file is in the start list
    (e.g. no `--inline-suppr`: nothing is ever added) -/
theorem foreignOK_of_cover (cfg : Cfg S) (F : List S) (evs : List (Ev S)) : ∀ (own : List S) (mm : MacroMap),
    (∀ s, s ∈ F → ∀ x, x ∈ reportsOf evs → ∀ m, cfg.hits s x m = true → s ∈ own) →
    foreignOK cfg F own mm evs = true := by
  induction evs with
  | nil => intro _ _ _; rfl
  | cons e t ih =>
    intro own mm h
    cases e with
    | suppr s =>
      simp only [foreignOK]
      exact ih _ _ (fun u hu x hx m hm => subset_addSuppr _ _ _ _ (h u hu x (by simpa [reportsOf] using hx) m hm))
    | remarks r => simp only [foreignOK]; exact ih _ _ (fun u hu x hx => h u hu x (by simpa [reportsOf] using hx))
    | macros m => simp only [foreignOK]; exact ih _ _ (fun u hu x hx => h u hu x (by simpa [reportsOf] using hx))
    | probe y => simp only [foreignOK]; exact ih _ _ (fun u hu x hx => h u hu x (by simpa [reportsOf] using hx))
    | mark toks => simp only [foreignOK]; exact ih _ _ (fun u hu x hx => h u hu x (by simpa [reportsOf] using hx))
    | report x =>
      simp only [foreignOK, Bool.and_eq_true, Bool.or_eq_true]
      refine ⟨Or.inr ?_, ih _ _ (fun u hu y hy => h u hu y (by simp [reportsOf, hy]))⟩
      apply List.all_eq_true.2
      intro s hs
      cases hh : cfg.hits s x (lookupMacros mm x)
      · rfl
      · have := h s hs x (by simp [reportsOf]) _ hh
        simp only [Bool.not_true, Bool.false_or]
        exact List.any_eq_true.2 ⟨s, this, hh⟩

/-! ## unconditional corollaries: runs without inline suppressions -/

/-- without `--inline-suppr` nothing is ever added: what earlier files leave behind is the start list -/
theorem stateAfter_supprs_no_inline (cfg : Cfg S) (analyze : α → Trace S) (init : State S) (pre : List α)
    (hno : ∀ g, supprsOf (analyze g).evs = []) :
    ∀ s, s ∈ (stateAfter cfg analyze init pre).supprs → s ∈ init.supprs := by
  intro s hs
  rcases stateAfter_supprs_origin cfg analyze pre init s hs with h | ⟨g, _, h⟩
  · exact h
  · rw [hno g] at h; cases h

/-- **no inline suppressions** (a run without `--inline-suppr`), code of record (`clear()` at the start): H1, H2 and H5 are
    discharged for every prefix, every file, every analysis function and every matcher; what remains are the two "stale map"
    hypotheses H3 / H4 about findings a file reports before it has set its own location macros / remark comments. -/
theorem independent_without_inline_suppr [DecidableEq S] (cfg : Cfg S) (analyze : α → Trace S) (init : State S)
    (pre : List α) (f : α) (hclear : cfg.clearAtStart = true) (hno : ∀ g, supprsOf (analyze g).evs = [])
    (h3 : staleMacrosOK (stateAfter cfg analyze init pre).locMacros init.locMacros (analyze f).evs = true)
    (h4 : staleRemarksOK (stateAfter cfg analyze init pre).remarks init.remarks (analyze f).evs = true) :
    findingsOfLast (runSingle cfg analyze init (pre ++ [f])) = findingsOfLast (runSingle cfg analyze init [f]) := by
  apply file_result_independent
  simp only [Indep, Bool.and_eq_true]
  refine ⟨⟨⟨⟨?_, ?_⟩, h3⟩, h4⟩, leakOK_repaired cfg _ _ _ hclear⟩
  · exact foreignOK_of_cover cfg _ _ _ _ (fun s hs _ _ _ _ => stateAfter_supprs_no_inline cfg analyze init pre hno s hs)
  · simp [sameOK, hno f]

/-- a trace in which the file sets its location macros and its remark comments before it reports anything -/
def ordered (tr : Trace S) : Bool := (preMacroReports tr.evs).isEmpty && (preRemarkReports tr.evs).isEmpty

/-- **fully unconditional for well-ordered analyses**: code of record, no inline suppressions, every file sets its own maps
    before its first report — then every run, of any length and in any order, is the list of the alone results, and
    (`shown_nonWP_eq_dedup_alone`) prints the concatenation of the alone outputs with repeated texts removed. -/
theorem run_independent_without_inline_suppr [DecidableEq S] (cfg : Cfg S) (analyze : α → Trace S) (init : State S)
    (files : List α) (hclear : cfg.clearAtStart = true) (hno : ∀ g, supprsOf (analyze g).evs = [])
    (hord : ∀ g, ordered (analyze g) = true) :
    runSingle cfg analyze init files = files.map (fun f => (checkFile cfg init (analyze f)).2) := by
  apply run_eq_map_alone
  intro pre f post _
  have ho := hord f
  simp only [ordered, Bool.and_eq_true, List.isEmpty_iff] at ho
  simp only [Indep, Bool.and_eq_true]
  refine ⟨⟨⟨⟨?_, ?_⟩, ?_⟩, ?_⟩, leakOK_repaired cfg _ _ _ hclear⟩
  · exact foreignOK_of_cover cfg _ _ _ _ (fun s hs _ _ _ _ => stateAfter_supprs_no_inline cfg analyze init pre hno s hs)
  · simp [sameOK, hno f]
  · simp [staleMacrosOK, ho.1]
  · simp [staleRemarksOK, ho.2]

/-- with the repaired file test an inline suppression (other than a macro suppression) hits only findings
    located in exactly the file it was written in -/
theorem supprMatches_exact_file (s : Suppr) (x : Finding) (m : List Str)
    (hin : s.isInline = true) (hty : s.type ≠ .macro) (hfn : s.fileName ≠ [])
    (h : supprMatches true s x m = true) : x.file = s.fileName := by
  unfold supprMatches at h
  split at h
  · cases h
  · have hty' : (s.type == SType.macro) = false := by simpa using hty
    have hfn' : s.fileName.isEmpty = false := by cases hf : s.fileName <;> simp_all
    simp only [hty', Bool.false_eq_true, if_false, Bool.and_eq_true, hfn', Bool.false_or, fileTest, hin,
      Bool.and_self, if_true, beq_iff_eq] at h
    exact h.1.1.1.2.symm

/-! ## the `checked` flags of the shared suppression list (unmatchedSuppression is decided from them after the last file) -/

/-- **`mark_frame`**: `markUnmatchedInlineSuppressionsAsChecked` for the token list of a file never sets the flag of an
    entry whose file NAME is not in the file table of that token list -/
theorem mark_frame (cfg : Cfg S) (toks : List (Str × Int)) (st : State S) (s : S)
    (hfile : ∀ t, t ∈ toks → cfg.fileOf s ≠ t.1) (h : s ∈ (markStep cfg toks st).checked) : s ∈ st.checked := by
  rcases (markStep_checked_mem cfg toks st s).1 h with h1 | ⟨_, t, ht, hf, _⟩
  · exact h1
  · exact absurd hf (hfile t ht)

/-- the executable form of "no event of this file can set the flag of `s`": no marked token list names the file of `s`
    on a line passing its line test, and no tested message touches `s` under the macro sets `ms` -/
def cannotCheck (cfg : Cfg S) (s : S) (ms : List (List Str)) (evs : List (Ev S)) : Bool :=
  (marksOf evs).all (fun toks => toks.all (fun t => !(cfg.fileOf s == t.1 && cfg.markLine s t.2))) &&
  (testedOf evs).all (fun x => ms.all (fun m => !cfg.touches s x m))

/-- **`checked_frame`** (H6, provable for the code of record): whatever files are analysed, in whatever number and order, the
    `checked` flag of an entry is only set by a file whose token list contains the entry's file (by name) on a fitting line,
    or by a message that touches the entry.  So files that do not contain `A` and report nothing at `A`'s places leave the
    flags of `A`'s inline suppressions — hence the unmatchedSuppression findings located in `A` — as they were. -/
theorem checked_frame (cfg : Cfg S) (analyze : α → Trace S) (init : State S) (others : List α) (s : S)
    (hno : ∀ g, g ∈ others → ¬ couldCheck cfg s (analyze g).evs)
    (h : s ∈ (stateAfter cfg analyze init others).checked) : s ∈ init.checked := by
  rcases stateAfter_checked_origin cfg analyze others init s h with h1 | ⟨g, hg, h1⟩
  · exact h1
  · exact absurd h1 (hno g hg)

/-- `cannotCheck` with every macro set that occurs decides `¬ couldCheck` for messages whose touch test ignores the macro
    names (all but macro-type suppressions) -/
theorem not_couldCheck_of_cannotCheck (cfg : Cfg S) (s : S) (evs : List (Ev S))
    (hm : ∀ x m m', cfg.touches s x m = cfg.touches s x m')
    (h : cannotCheck cfg s [[]] evs = true) : ¬ couldCheck cfg s evs := by
  simp only [cannotCheck, Bool.and_eq_true, List.all_eq_true, Bool.not_eq_true', List.mem_singleton, forall_eq] at h
  rintro (⟨toks, ht, t, htt, hf, hl⟩ | ⟨x, hx, m, hxm⟩)
  · have := h.1 toks ht t htt
    simp [hf, hl] at this
  · have := h.2 x hx
    rw [hm x m []] at hxm
    rw [hxm] at this; cases this

/-! ## the hypotheses are satisfiable, and each one is needed (the code at the excluded points) -/

section witnesses

private def mkF (id file : String) (line : Int) (text : String) : Finding :=
  ⟨id.toList, true, file.toList, line, [], text.toList, false, false, [], []⟩

private def fileSuppr (id file : String) : Suppr :=
  ⟨id.toList, file.toList, 1, [], .file, NO_LINE, NO_LINE, false, [], true⟩

private def macroSuppr (id file mname : String) : Suppr :=
  ⟨id.toList, file.toList, 2, [], .macro, NO_LINE, NO_LINE, false, mname.toList, true⟩

/-- the code of record: `PathMatch` file test for inline suppressions, `clear()` at the start of `checkInternal` (8f62378) -/
private def cfg0 : Cfg Suppr := realCfg false true false []

/-- the code before 8f62378: the duplicate filters were cleared on the normal exit only -/
private def cfgOld : Cfg Suppr := realCfg false false false []

/-- a non-trivial well-ordered trace without inline suppressions (remarks, macros, then two findings) -/
example : ordered (⟨[.remarks [⟨"a.c".toList, 4, "why".toList⟩], .macros [(("a.c".toList, 4), ["DIV".toList])],
    .report (mkF "zerodiv" "a.c" 4 "a.c:4:zerodiv"), .report (mkF "nullPointer" "a.c" 9 "a.c:9:nullPointer")], false⟩ : Trace Suppr) = true := by
  decide

/-- analyses as functions from a file name -/
private def analyzeA : String → Trace Suppr
  | "a.c" => ⟨[.suppr (fileSuppr "zerodiv" "a.c"), .report (mkF "zerodiv" "a.c" 4 "a.c:4:zerodiv")], false⟩
  | "sub/a.c" => ⟨[.report (mkF "zerodiv" "sub/a.c" 3 "sub/a.c:3:zerodiv")], false⟩
  | "b.c" => ⟨[.report (mkF "zerodiv" "b.c" 3 "b.c:3:zerodiv")], false⟩
  | _ => ⟨[], false⟩

/-- a non-trivial inhabitant: `a.c` (with an inline file suppression) before `b.c` -/
example : Indep cfg0 (stateAfter cfg0 analyzeA (initState []) ["a.c"]) (initState []) (analyzeA "b.c") = true := by
  decide

/-- **F17a** (H1 at the excluded point): the inline suppression of `a.c` hides the finding in `sub/a.c`, because
    `PathMatch::match("a.c", "sub/a.c")` holds (a relative pattern matches at any directory boundary) -/
theorem file_findings_independent_counterexample_foreign_suppression :
    ¬ ((findingsOfLast (runSingle cfg0 analyzeA (initState []) (["a.c"] ++ ["sub/a.c"]))).map FileResult.nonWP =
       (findingsOfLast (runSingle cfg0 analyzeA (initState []) ["sub/a.c"])).map FileResult.nonWP) := by
  decide

/-- … and it is H1 that fails there -/
example : foreignOK cfg0 (stateAfter cfg0 analyzeA (initState []) ["a.c"]).supprs [] [] (analyzeA "sub/a.c").evs = false := by
  decide

/-- with an exact file test for inline suppressions the same run would be independent (not adopted: it breaks `-rp` with
    several base paths, where the directory-boundary rule of `PathMatch` is needed) -/
example : Indep (realCfg true true false []) (stateAfter (realCfg true true false []) analyzeA (initState []) ["a.c"])
    (initState []) (analyzeA "sub/a.c") = true := by decide

private def divMap (file : String) (line : Int) : MacroMap := [((file.toList, line), ["DIV".toList])]

private def analyzeM : String → Trace Suppr
  | "a.c" => ⟨[.suppr (macroSuppr "zerodiv" "a.c" "DIV"), .macros (divMap "a.c" 5),
               .report (mkF "zerodiv" "a.c" 5 "a.c:5:zerodiv")], false⟩
  | "b.c" => ⟨[.macros (divMap "b.c" 4), .report (mkF "zerodiv" "b.c" 4 "b.c:4:zerodiv")], false⟩
  | _ => ⟨[], false⟩

/-- **F17b** (H1 again): a `cppcheck-suppress-macro` suppression is not tied to a file at all; the macro `DIV` of
    `b.c` is a different macro, its finding is hidden after `a.c` -/
theorem file_findings_independent_counterexample_macro_suppression :
    ¬ ((findingsOfLast (runSingle cfg0 analyzeM (initState []) (["a.c"] ++ ["b.c"]))).map FileResult.nonWP =
       (findingsOfLast (runSingle cfg0 analyzeM (initState []) ["b.c"])).map FileResult.nonWP) := by
  decide

/-- results replayed from the build dir: `checkInternal` returns before `clear()` -/
private def analyzeL : String → Trace Suppr
  | "a.c" => ⟨[.report (mkF "zerodiv" "h.h" 3 "h.h:3:zerodiv")], true⟩
  | "b.c" => ⟨[.report (mkF "zerodiv" "h.h" 3 "h.h:3:zerodiv")], false⟩
  | _ => ⟨[], false⟩

/-- **F17d**, repaired by 8f62378 (kept as regression witness; H5 at the excluded point): in the code before the repair,
    after `a.c` was taken from the build dir the duplicate filter still held its texts; the header finding of the freshly
    analysed `b.c` was neither forwarded nor written to `b.c`'s analyzer information -/
theorem file_findings_independent_counterexample_leaked_filter_before_repair :
    ¬ ((findingsOfLast (runSingle cfgOld analyzeL (initState []) (["a.c"] ++ ["b.c"]))).map FileResult.nonWP =
       (findingsOfLast (runSingle cfgOld analyzeL (initState []) ["b.c"])).map FileResult.nonWP) := by
  decide

/-- the code of record is independent on the same run -/
theorem leaked_filter_repaired :
    Indep cfg0 (stateAfter cfg0 analyzeL (initState []) ["a.c"]) (initState []) (analyzeL "b.c") = true ∧
    (findingsOfLast (runSingle cfg0 analyzeL (initState []) (["a.c"] ++ ["b.c"]))).map FileResult.nonWP =
      (findingsOfLast (runSingle cfg0 analyzeL (initState []) ["b.c"])).map FileResult.nonWP := by
  decide

/-- `b.c` replayed from the build dir (no `setLocationMacros`), after `a.c` whose last configuration used `DIV`
    on the same header line -/
private def analyzeS : String → Trace Suppr
  | "a.c" => ⟨[.suppr (macroSuppr "zerodiv" "h.h" "DIV"), .macros (divMap "h.h" 7)], false⟩
  | "b.c" => ⟨[.suppr (macroSuppr "zerodiv" "h.h" "DIV"), .report (mkF "zerodiv" "h.h" 7 "h.h:7:zerodiv")], true⟩
  | _ => ⟨[], false⟩

/-- **F17e** (H3 at the excluded point): the replayed finding is tested against the location macros of the
    previous file — hidden in company, shown alone -/
theorem file_findings_independent_counterexample_stale_macros :
    ¬ ((findingsOfLast (runSingle cfg0 analyzeS (initState []) (["a.c"] ++ ["b.c"]))).map FileResult.nonWP =
       (findingsOfLast (runSingle cfg0 analyzeS (initState []) ["b.c"])).map FileResult.nonWP) := by
  decide

example : staleMacrosOK (stateAfter cfg0 analyzeS (initState []) ["a.c"]).locMacros [] (analyzeS "b.c").evs = false := by
  decide

/-- the seeded scenario (`seeded/C17-inline-suppr-marked-by-file-index`): `a.c` has an inline suppression on a line inside
    `#if 0` (line 5 never reaches the token list), `b.c` has code on lines 1..8 -/
private def deadSuppr : Suppr := ⟨"nullPointer".toList, "a.c".toList, 6, [], .unique, NO_LINE, NO_LINE, false, [], true⟩

private def analyzeD : String → Trace Suppr
  | "a.c" => ⟨[.suppr deadSuppr, .mark [("a.c".toList, 1), ("a.c".toList, 2), ("a.c".toList, 8), ("a.c".toList, 9)]], false⟩
  | "b.c" => ⟨[.mark [("b.c".toList, 1), ("b.c".toList, 2), ("b.c".toList, 3), ("b.c".toList, 4), ("b.c".toList, 5),
               ("b.c".toList, 6), ("b.c".toList, 7), ("b.c".toList, 8), ("b.c".toList, 9)]], false⟩
  | _ => ⟨[], false⟩

/-- code of record: no unmatchedSuppression for `a.c`, alone and in company, in both orders -/
theorem dead_suppression_stays_unchecked :
    unmatchedInline (stateAfter cfg0 analyzeD (initState []) ["a.c"]) = [] ∧
    unmatchedInline (stateAfter cfg0 analyzeD (initState []) ["a.c", "b.c"]) = [] ∧
    unmatchedInline (stateAfter cfg0 analyzeD (initState []) ["b.c", "a.c"]) = [] := by
  decide

/-- marking by file INDEX instead of by name (the seeded change: during `b.c` index 0 is `b.c`, so the entry of `a.c` is
    compared with `b.c`'s lines) is what `fileOf := fun _ => "b.c"` amounts to for that entry: the frame property fails,
    the run `a.c b.c` reports an unmatchedSuppression located in `a.c` that `a.c` alone does not -/
theorem mark_by_index_counterexample :
    let byIndex : Cfg Suppr := { cfg0 with fileOf := fun s => if s == deadSuppr then "b.c".toList else s.fileName }
    unmatchedInline (stateAfter cfg0 analyzeD (initState []) ["a.c"]) = [] ∧
    unmatchedInline (stateAfter byIndex analyzeD (initState []) ["a.c", "b.c"]) = [deadSuppr] := by
  decide

example : cannotCheck cfg0 deadSuppr [[]] (analyzeD "b.c").evs = true := by decide

end witnesses

/-! ## what the outer logger prints -/

/-- **the printed non-whole-program findings of a run are the concatenation of what the files print alone, with
    later repetitions of a rendered text removed** (`StdLogger::mShownErrors`): for every run all of whose splits
    pass `Indep`, any key function of the outer filter, any whole-program phase. -/
theorem shown_nonWP_eq_dedup_alone [DecidableEq S] (cfg : Cfg S) (analyze : α → Trace S) (init : State S)
    (files : List α) (key : Finding → Str) (wpF : List Finding)
    (hyp : ∀ pre f post, files = pre ++ f :: post →
      Indep cfg (stateAfter cfg analyze init pre) init (analyze f) = true)
    (hfile : ∀ f, f ∈ files → ∀ x, x ∈ (checkFile cfg init (analyze f)).2.forwarded → x.wp = false)
    (hwp : ∀ x, x ∈ wpF → x.wp = true) :
    (shown cfg.emitDuplicates key (stream (runSingle cfg analyze init files) wpF)).filter (fun x => !x.wp) =
    shown cfg.emitDuplicates key
      (files.flatMap (fun f => shown cfg.emitDuplicates key (checkFile cfg init (analyze f)).2.forwarded)) := by
  rw [run_eq_map_alone cfg analyze init files hyp]
  generalize hA : files.map (fun f => (checkFile cfg init (analyze f)).2.forwarded) = ls
  have hls : ∀ l, l ∈ ls → ∀ x, x ∈ l → x.wp = false := by
    intro l hl x hx
    rw [← hA] at hl
    obtain ⟨f, hf, rfl⟩ := List.mem_map.1 hl
    exact hfile f hf x hx
  have e1 : stream (files.map (fun f => (checkFile cfg init (analyze f)).2)) wpF = ls.flatten ++ wpF := by
    rw [← hA]; simp [stream, List.flatMap, List.map_map, Function.comp_def]
  have e2 : files.flatMap (fun f => shown cfg.emitDuplicates key (checkFile cfg init (analyze f)).2.forwarded) =
      (ls.map (shown cfg.emitDuplicates key)).flatten := by
    rw [← hA]; simp [List.flatMap, List.map_map, Function.comp_def]
  rw [e1, e2]
  have hflat : ∀ x, x ∈ ls.flatten → x.wp = false := by
    intro x hx
    obtain ⟨l, hl, hxl⟩ := List.mem_flatten.1 hx
    exact hls l hl x hxl
  have fwp : ∀ l : List Finding, (∀ x, x ∈ l → x.wp = false) → l.filter (fun x => !x.wp) = l := by
    intro l h; apply List.filter_eq_self.2; intro x hx; simp [h x hx]
  have fwp' : ∀ l : List Finding, (∀ x, x ∈ l → x.wp = true) → l.filter (fun x => !x.wp) = [] := by
    intro l h; apply List.filter_eq_nil_iff.2; intro x hx; simp [h x hx]
  cases he : cfg.emitDuplicates
  · -- duplicates filtered
    have hs : shown false key = fun l => dedupBy key [] (l.filter (fun x => !x.internal)) := by
      funext l; simp [shown]
    rw [hs]
    simp only [List.filter_append]
    rw [dedupBy_append, List.filter_append]
    rw [fwp _ (fun x hx => hflat x (List.mem_filter.1 (dedupBy_subset key _ _ x hx)).1)]
    rw [fwp' _ (fun x hx => hwp x (List.mem_filter.1 (dedupBy_subset key _ _ x hx)).1), List.append_nil]
    have : (List.filter (fun x => !x.internal) (List.map (fun l => dedupBy key [] (List.filter (fun x => !x.internal) l)) ls).flatten) =
        ((ls.map (fun l => l.filter (fun x => !x.internal))).map (dedupBy key [])).flatten := by
      rw [List.filter_flatten, List.map_map, List.map_map]
      congr 1
      apply List.map_congr_left
      intro l _
      simp only [Function.comp]
      apply List.filter_eq_self.2
      intro x hx
      exact (List.mem_filter.1 (dedupBy_subset key _ _ x hx)).2
    rw [this, dedupBy_flatten, List.filter_flatten]
  · -- `--emit-duplicates`
    have hs : shown true key = fun l => l.filter (fun x => !x.internal) := by
      funext l; simp [shown]
    rw [hs]
    simp only [List.filter_append]
    rw [fwp _ (fun x hx => hflat x (List.mem_filter.1 hx).1),
      fwp' _ (fun x hx => hwp x (List.mem_filter.1 hx).1), List.append_nil]
    rw [List.filter_flatten, List.filter_flatten, List.map_map]
    congr 1
    apply List.map_congr_left
    intro l _
    simp [Function.comp, List.filter_filter]

end Cppcheck.RunState

import Cppcheck.Proofs.Calc
import Cppcheck.Proofs.Infer
/-
C01 — value-flow facts hold in every UB-free execution.  Property theorems.

Part 1: transfer functions (lib/calculate.h, lib/infer.cpp), one-to-one models in Model/Calc.lean, Model/Infer.lean.
-/
namespace Cppcheck.C01
open Cppcheck.Calc Cppcheck.Infer

/-- `calculate<bigint>` never reports a value that differs from the ISO C result of the operator on `long long`:
    whenever it returns a result (`some r`, i.e. `*error` stays false) and C defines the operation (`cSem … = some v`,
    no undefined / implementation-defined case), the two agree. -/
theorem calculate_sound (op : Op) (x y r v : Int) (h : calculate op x y = some r) (hc : cSem op x y = some v) : r = v :=
  calculate_sound' op x y r v h hc

/-- `calculate` sets `*error` exactly on its documented conditions (divisor ≤ 0; shift count ≥ 63 or negative, or a
    negative left operand): in particular it is conservative for `x / y`, `x % y` with `y < 0` and for a shift by 63. -/
theorem calculate_error_iff (op : Op) (x y : Int) : calculate op x y = none ↔ calcErr op x y :=
  calculate_err_iff op x y

example : calculate .div 7 2 = some 3 ∧ cSem .div 7 2 = some 3 := by decide
example : calculate .div 7 (-2) = none ∧ cSem .div 7 (-2) = some (-3) := by decide
example : calculate .add (2 ^ 63 - 1) 1 = some (-(2 ^ 63)) ∧ cSem .add (2 ^ 63 - 1) 1 = none := by decide

/-- full statement of soundness of `infer` for the operators it is called with (`-` and the comparisons):
    every Known / Impossible result holds of `a op b` whenever every Known / Impossible input value holds of `a` resp. `b`
    and all bounds are small enough for `long long` arithmetic not to overflow. -/
def InferSound : Prop :=
  ∀ (op : Op) (L R : List Value) (a b : Int), (op.isComparison = true ∨ op = .sub) →
    (∀ v ∈ L, v.isInt = true → v.small) → (∀ v ∈ R, v.isInt = true → v.small) →
    (∀ v ∈ L, v.isInt = true → v.hard = true → v.holds a) → (∀ v ∈ R, v.isInt = true → v.hard = true → v.holds b) →
    ∀ r ∈ infer op L R, r.hard = true → r.holds (opSem op a b)

/-- the full statement is false of the code: for `-` the Impossible bounds are emitted without `setValueKind`, so a bound
    that rests on a merely Possible value is reported as a claim (F20).  Witness: lhs = [Possible 5], rhs = [Impossible ≤ -1],
    a = 100, b = 0: `infer` answers "a - b is never ≥ 6". -/
theorem infer_sound_counterexample : ¬ InferSound := by
  intro h
  have := h .sub [{ kind := .possible, bound := .point, intvalue := 5 }] [{ kind := .impossible, bound := .upper, intvalue := -1 }]
    100 0 (Or.inr rfl) (by decide) (by decide) (by decide) (by decide)
    { kind := .impossible, bound := .lower, intvalue := 6 } (by decide) (by decide)
  revert this
  decide

/-- Known results of `infer` are sound without any further hypothesis on the Possible values … -/
theorem infer_known_sound (op : Op) (hop : op.isComparison = true ∨ op = .sub) (L R : List Value) (a b : Int)
    (hLs : ∀ v ∈ L, v.isInt = true → v.small) (hRs : ∀ v ∈ R, v.isInt = true → v.small)
    (ha : ∀ v ∈ L, v.isInt = true → v.hard = true → v.holds a)
    (hb : ∀ v ∈ R, v.isInt = true → v.hard = true → v.holds b) :
    ∀ r ∈ infer op L R, r.kind = .known → r.holds (opSem op a b) :=
  fun r hr hk => (infer_core op hop L R a b hLs hRs ha hb r hr).1 hk

/-- … and all results (Known and Impossible) are sound when no Possible / Inconclusive INT value takes part
    (`allHard`), which is the excluding hypothesis for F20. -/
theorem infer_sound_partial (op : Op) (hop : op.isComparison = true ∨ op = .sub) (L R : List Value) (a b : Int)
    (hLs : ∀ v ∈ L, v.isInt = true → v.small) (hRs : ∀ v ∈ R, v.isInt = true → v.small)
    (ha : ∀ v ∈ L, v.isInt = true → v.hard = true → v.holds a)
    (hb : ∀ v ∈ R, v.isInt = true → v.hard = true → v.holds b)
    (hL : allHard L) (hR : allHard R) :
    ∀ r ∈ infer op L R, r.hard = true → r.holds (opSem op a b) := by
  intro r hr hh
  have h := infer_core op hop L R a b hLs hRs ha hb r hr
  unfold Value.hard at hh
  cases hk : r.kind <;> simp [hk] at hh
  · exact h.1 hk
  · exact h.2 hk hL hR

-- the hypotheses are satisfiable on a non-trivial input: x in [3, 7], y = 2, `x - y` in [1, 5]
example : (∀ v ∈ [({ kind := .impossible, bound := .upper, intvalue := 2 } : Value), { kind := .impossible, bound := .lower, intvalue := 8 }],
      v.isInt = true → v.hard = true → v.holds 4) ∧
    allHard [({ kind := .impossible, bound := .upper, intvalue := 2 } : Value), { kind := .impossible, bound := .lower, intvalue := 8 }] ∧
    infer .sub [{ kind := .impossible, bound := .upper, intvalue := 2 }, { kind := .impossible, bound := .lower, intvalue := 8 }]
      [{ kind := .known, bound := .point, intvalue := 2 }] =
      [{ kind := .impossible, bound := .upper, intvalue := 0 }, { kind := .impossible, bound := .lower, intvalue := 6 }] := by
  decide

end Cppcheck.C01

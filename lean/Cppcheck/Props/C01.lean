import Cppcheck.Proofs.Calc
import Cppcheck.Proofs.Infer
import Cppcheck.Proofs.VFValidator
import Cppcheck.Proofs.MiniC
/-
C01 — value-flow facts hold in every UB-free execution.  Property theorems.

Part 1: transfer functions (lib/calculate.h, lib/infer.cpp), one-to-one models in Model/Calc.lean, Model/Infer.lean.
-/
namespace Cppcheck.C01
open Cppcheck.Calc Cppcheck.Infer

/-- `calculate<bigint>` never reports a value that differs from the ISO C result of the operator on `long long`:
    whenever it returns a result (`some r`, i.e. `*error` stays false) and C defines the operation (`cSem … = some v`,
    no undefined / implementation-defined case), the two agree. -/
theorem calculate_sound (op : Op) (x y r v : Int) (h : calculate op x y = some r) (hc : cSem op x y = some v) : r = v :=
  calculate_sound' op x y r v h hc

/-- `calculate` sets `*error` exactly on its documented conditions (divisor ≤ 0; shift count ≥ 63 or negative, or a
    negative left operand): in particular it is conservative for `x / y`, `x % y` with `y < 0` and for a shift by 63. -/
theorem calculate_error_iff (op : Op) (x y : Int) : calculate op x y = none ↔ calcErr op x y :=
  calculate_err_iff op x y

example : calculate .div 7 2 = some 3 ∧ cSem .div 7 2 = some 3 := by decide
example : calculate .div 7 (-2) = none ∧ cSem .div 7 (-2) = some (-3) := by decide
example : calculate .add (2 ^ 63 - 1) 1 = some (-(2 ^ 63)) ∧ cSem .add (2 ^ 63 - 1) 1 = none := by decide

/-- **infer_sound** (main theorem, current code = commit 8842d71).  For the operators `infer` is called with (`-` and the
    comparisons): every Known / Impossible result holds of `a op b` whenever every Known / Impossible INT input value holds of
    `a` resp. `b` and all bounds are small enough (`|v| < 2^62 - 1`) for the unchecked `long long` bound arithmetic not to
    overflow.  Possible / Inconclusive input values are unconstrained. -/
theorem infer_sound (op : Op) (hop : op.isComparison = true ∨ op = .sub) (L R : List Value) (a b : Int)
    (hLs : ∀ v ∈ L, v.isInt = true → v.small) (hRs : ∀ v ∈ R, v.isInt = true → v.small)
    (ha : ∀ v ∈ L, v.isInt = true → v.hard = true → v.holds a)
    (hb : ∀ v ∈ R, v.isInt = true → v.hard = true → v.holds b) :
    ∀ r ∈ infer op L R, r.hard = true → r.holds (opSem op a b) := by
  intro r hr hh
  have h := infer_core op hop L R a b hLs hRs ha hb true r hr
  unfold Value.hard at hh
  cases hk : r.kind <;> simp [hk] at hh
  · exact h.1 hk
  · exact h.2 hk (Or.inl rfl)

-- the hypotheses are satisfiable on a non-trivial input: x in [3, 7] (with an unconstrained Possible value), y = 2
example : (∀ v ∈ [({ kind := .impossible, bound := .upper, intvalue := 2 } : Value), { kind := .impossible, bound := .lower, intvalue := 8 },
        { kind := .possible, bound := .point, intvalue := 99 }], v.isInt = true → v.hard = true → v.holds 4) ∧
    infer .sub [{ kind := .impossible, bound := .upper, intvalue := 2 }, { kind := .impossible, bound := .lower, intvalue := 8 },
        { kind := .possible, bound := .point, intvalue := 99 }]
      [{ kind := .known, bound := .point, intvalue := 2 }] =
      [{ kind := .impossible, bound := .upper, intvalue := 0 }] := by
  decide

/-- the same statement about `infer` as it was BEFORE commit 8842d71 (`inferPreFix`) … -/
def InferSoundPreFix : Prop :=
  ∀ (op : Op) (L R : List Value) (a b : Int), (op.isComparison = true ∨ op = .sub) →
    (∀ v ∈ L, v.isInt = true → v.small) → (∀ v ∈ R, v.isInt = true → v.small) →
    (∀ v ∈ L, v.isInt = true → v.hard = true → v.holds a) → (∀ v ∈ R, v.isInt = true → v.hard = true → v.holds b) →
    ∀ r ∈ inferPreFix op L R, r.hard = true → r.holds (opSem op a b)

/-- … was false (finding F20, fixed): for `-` the Impossible bounds were emitted without looking at the kind of the values they
    rest on.  Witness: lhs = [Possible 5], rhs = [Impossible ≤ -1], a = 100, b = 0: the old code answered "a - b is never ≥ 6". -/
theorem infer_sound_counterexample : ¬ InferSoundPreFix := by
  intro h
  have := h .sub [{ kind := .possible, bound := .point, intvalue := 5 }] [{ kind := .impossible, bound := .upper, intvalue := -1 }]
    100 0 (Or.inr rfl) (by decide) (by decide) (by decide) (by decide)
    { kind := .impossible, bound := .lower, intvalue := 6 } (by decide) (by decide)
  revert this
  decide

-- the current code no longer produces that result
example : infer .sub [{ kind := .possible, bound := .point, intvalue := 5 }] [{ kind := .impossible, bound := .upper, intvalue := -1 }] = [] := by
  decide

/-- the pre-fix function was sound under the excluding hypothesis `allHard` (no Possible / Inconclusive INT value takes part) -/
theorem infer_prefix_sound_partial (op : Op) (hop : op.isComparison = true ∨ op = .sub) (L R : List Value) (a b : Int)
    (hLs : ∀ v ∈ L, v.isInt = true → v.small) (hRs : ∀ v ∈ R, v.isInt = true → v.small)
    (ha : ∀ v ∈ L, v.isInt = true → v.hard = true → v.holds a)
    (hb : ∀ v ∈ R, v.isInt = true → v.hard = true → v.holds b)
    (hL : allHard L) (hR : allHard R) :
    ∀ r ∈ inferPreFix op L R, r.hard = true → r.holds (opSem op a b) := by
  intro r hr hh
  have h := infer_core op hop L R a b hLs hRs ha hb false r hr
  unfold Value.hard at hh
  cases hk : r.kind <;> simp [hk] at hh
  · exact h.1 hk
  · exact h.2 hk (Or.inr ⟨hL, hR⟩)

/-! Part 2: constant folding of a binary operator in `setTokenValue` against the C semantics at the type of the operation (F5) -/

open Cppcheck.MiniC Cppcheck.VFV in
/-- full statement: for unsigned operands the folded value is the value C computes.  False of the code: the folding is done in
    64 bits and the result is attached untruncated.  Witness `UINT_MAX + 1u` on LP64: folded 4294967296, C gives 0. -/
theorem fold_binary_unsigned_wrap_counterexample :
    ¬ ∀ a b : Int, inTy lp64 tUInt a → inTy lp64 tUInt b → foldBinary .add a b = evalBin lp64 .add tUInt tUInt a b := by
  intro h
  have := h 4294967295 1 (by decide) (by decide)
  revert this
  decide

open Cppcheck.MiniC Cppcheck.VFV in
/-- … and it is the value C computes whenever the mathematically exact result fits the (unsigned, unpromoted) type of the
    operation — the excluding hypothesis `hfit` is exactly the classifier of the known finding F5. -/
theorem fold_binary_sound_partial (P : Cppcheck.Platforms.Platform) (t : Ty) (a b : Int) (hu : t.signed = false) (hp : uac P t t = t)
    (ha : inTy P t a) (hb : inTy P t b) :
    (inTy P t (a + b) → inI64 (a + b) → foldBinary .add a b = evalBin P .add t t a b) ∧
    (inTy P t (a - b) → inI64 (a - b) → foldBinary .sub a b = evalBin P .sub t t a b) ∧
    (inTy P t (a * b) → inI64 (a * b) → foldBinary .mul a b = evalBin P .mul t t a b) := by
  refine ⟨?_, ?_, ?_⟩ <;> intro hfit h64 <;>
    simp [foldBinary, calculate, evalBin, BinOp.isShift, hp, conv_id ha, conv_id hb, arith, hu, conv_id hfit, wrap64_of_in _ h64]

open Cppcheck.MiniC Cppcheck.VFV in
example : inTy lp64 tUInt 7 ∧ inTy lp64 tUInt (7 + 5) ∧ uac lp64 tUInt tUInt = tUInt ∧ foldBinary .add 7 5 = some 12 := by decide

/-! Part 2b: an Impossible value carried through a compound assignment (`ValueFlowAnalyzer::isWritable / writeValue`).
    The code keeps the bound and replaces the value by `calculate(op, v, k)`; that is sound exactly when `x ↦ x op k` is
    strictly monotone increasing (Lower/Upper bounds) resp. injective (Point). -/

/-- `+= -= ++ --`: translations, sound for every bound and every `k` -/
theorem carry_impossible_shift_sound (op : String) (hop : op = "+=" ∨ op = "-=" ∨ op = "++" ∨ op = "--") (b : IBound) (k v v' x : Int)
    (hc : carryImpossible op k v = some v') (hin : inI64 (assignSem op k v)) (h : impHolds b v x) :
    impHolds b v' (assignSem op k x) :=
  carry_shift_sound op hop b k v v' x hc hin h

/-- full statement for `*=` (every multiplier) … -/
def CarryMulSound : Prop :=
  ∀ (b : IBound) (k v v' x : Int), carryImpossible "*=" k v = some v' → inI64 (v * k) → impHolds b v x →
    impHolds b v' (assignSem "*=" k x)

/-- … is false of the code (finding F1h): `x >= 5; x *= -1;` keeps "never <= -4" (x = 5 gives -5); `x != 3; x *= 0;` gives
    "never 0" (every x gives 0) -/
theorem carry_impossible_mul_counterexample : ¬ CarryMulSound := by
  intro h
  have := h .upper (-1) 4 (-4) 5 (by decide) (by decide) (by decide)
  revert this
  decide

theorem carry_impossible_mul_zero_counterexample : ¬ CarryMulSound := by
  intro h
  have := h .point 0 3 0 7 (by decide) (by decide) (by decide)
  revert this
  decide

/-- `*=` with a positive multiplier is strictly monotone: sound -/
theorem carry_impossible_mul_sound_partial (b : IBound) (k v v' x : Int) (hk : 0 < k)
    (hc : carryImpossible "*=" k v = some v') (hin : inI64 (v * k)) (h : impHolds b v x) :
    impHolds b v' (assignSem "*=" k x) :=
  carry_mul_pos_sound b k v v' x hk hc hin h

example : carryImpossible "*=" 2 0 = some 0 ∧ impHolds .upper 0 1 ∧ impHolds .upper 0 (assignSem "*=" 2 1) := by decide

/-- `/=` (and every other operator outside `carryOps`) carries nothing … -/
theorem carry_impossible_div_not_carried (k v : Int) : carryImpossible "/=" k v = none := by
  simp [carryImpossible, carryOps]

/-- … and must not: integer division is neither injective nor strictly monotone, so no value transform of the shape
    `v ↦ v / k` with the same bound is sound (x ≠ 6 but 7/2 = 6/2; x > 0 but 1/2 = 0/2; x < 5 but 4/2 = 5/2) -/
theorem carry_div_counterexample :
    ¬ (∀ (b : IBound) (v x : Int), impHolds b v x → impHolds b (assignSem "/=" 2 v) (assignSem "/=" 2 x)) := by
  intro h
  have := h .point 6 7 (by decide)
  revert this
  decide

/-! Part 3: the fact validator (Model/VFValidator.lean) over MiniC (Model/MiniC.lean) -/

open Cppcheck.MiniC Cppcheck.VFV in
/-- **validator_sound.**  If the validator accepts the fact `φ` for the function `f` on platform `P`, then in every run of `f`
    (any argument vector, any fuel — i.e. every finite prefix of every execution, whether it ends normally, in undefined
    behaviour or is cut off) every evaluation of the occurrence `φ.occ` yields a value of which `φ` holds.  In particular
    it holds in every UB-free execution, which is what the property asks for.  No hypothesis on `P`, `f` or `φ`. -/
theorem validator_sound (P : Cppcheck.Platforms.Platform) (f : Func) (φ : Fact) (h : validate P f φ = true) :
    ∀ (args : List Int) (fuel : Nat), ∀ ev ∈ (run P f fuel args).2, ev.1 = φ.occ → φ.holds ev.2 :=
  fun args fuel => validate_sound P f φ h args fuel

-- a non-trivial accepted fact:  int f(int p){ int v = 0; if (p < 4) { v = T1(p) + 1; } return T2(v); }  ⇒  T2 never ≥ 5
open Cppcheck.MiniC Cppcheck.VFV in
example :
    validate lp64
      ⟨1, [tInt, tInt],
        .seq (.assign 10 1 (.lit 0 tInt))
          (.seq (.ite (.bin .lt (.var 0) (.lit 4 tInt)) (.assign 11 1 (.bin .add (.tag 1 (.var 0)) (.lit 1 tInt))) .skip)
            (.ret (.tag 2 (.var 1))))⟩
      ⟨2, .impossible, .lower, 5⟩ = true := by decide

open Cppcheck.MiniC in
/-- the executable interpreter agrees with the inductive big-step semantics: a statement has the outcome `o` with events `evs`
    iff some amount of fuel makes the interpreter return exactly that (and not `timeout`) -/
theorem interpreter_agrees_bigstep (P : Cppcheck.Platforms.Platform) (vars : List Ty) (σ : Env) (st : Stmt) (o : Out) (evs : List Event) :
    BigStep P vars σ st o evs ↔ ∃ n, execS P vars n σ st = (o, evs) ∧ o.isTimeout = false :=
  bigstep_iff_exec σ st o evs

open Cppcheck.MiniC Cppcheck.VFV in
/-- `validator_sound` in terms of the big-step semantics, as the property states it: in every terminating execution of `f`
    that is free of undefined behaviour, the fact holds at each evaluation of its occurrence. -/
theorem validator_sound_bigstep (P : Cppcheck.Platforms.Platform) (f : Func) (φ : Fact) (h : validate P f φ = true)
    (args : List Int) (o : Out) (evs : List Event) (hex : BigStep P f.vars (initEnv P f args) f.body o evs) (_hub : o ≠ .ub) :
    ∀ ev ∈ evs, ev.1 = φ.occ → φ.holds ev.2 := by
  obtain ⟨n, hn⟩ := bigstep_exec hex
  have := validate_sound P f φ h args n
  unfold run at this
  rw [hn] at this
  exact this

end Cppcheck.C01

import Cppcheck.Proofs.Glob
import Cppcheck.Proofs.Suppress
import Cppcheck.Proofs.SuppressParse
/-
C23 — property theorems: suppressions hide exactly the matching findings.
-/
namespace Cppcheck.Glob
open Cppcheck.Wire

/-- the explicit-stack loop of `matchglob` terminates and computes the recursive search `dfs`
    (code before the repair `fx = false` and current code `fx = true`, any case mode) -/
theorem stack_eq_dfs (fx ci : Bool) (p n : Str) :
    ∃ k, ∀ fuel, k ≤ fuel → run fx ci fuel p n [] = some (dfs fx ci p n) := by
  obtain ⟨k, hk⟩ := run_spec fx ci p n []
  refine ⟨k, fun fuel hf => ?_⟩
  have h0 := hk 0
  simp only [Nat.zero_add, popRun] at h0
  have hsome : run fx ci k p n [] = some (dfs fx ci p n) := by
    rw [h0]; cases dfs fx ci p n <;> rfl
  exact run_mono_le fx ci p n [] _ k fuel hf hsome

/-- THE GLOB THEOREM (current code, /repo ≥ 1cf3800): `matchglob` decides exactly the documented language —
    `*` = any string, `?` = any single character — for every pattern and every name (as C strings) -/
theorem glob_eq_spec (p n : Str) : matchglob p n = true ↔ Spec.Matches (cstr p) (cstr n) :=
  ⟨fun h => Spec.matchesB_sound _ _ (dfs_sound fixApplied _ _ h),
   fun hm => dfs_complete_fixed _ _ (Spec.matchesB_complete hm)⟩

/-- … also for the algorithm written out with `fx = true` (what the one-line switch `fixApplied` selects) -/
theorem glob_eq_spec_fixed (p n : Str) : matchglobFixed p n = true ↔ Spec.Matches (cstr p) (cstr n) :=
  ⟨fun h => Spec.matchesB_sound _ _ (dfs_sound true _ _ h), fun hm => dfs_complete_fixed _ _ (Spec.matchesB_complete hm)⟩

/-- the code before the repair accepted nothing outside the documented language … -/
theorem glob_sound_pre (p n : Str) (h : matchglobPre p n = true) : Spec.Matches (cstr p) (cstr n) :=
  Spec.matchesB_sound _ _ (dfs_sound false _ _ h)

/-- … and was exact on every pattern whose `*` are followed by a literal, the end, or only further `*` -/
theorem glob_eq_spec_partial (p n : Str) (h : starOk (cstr p) = true) :
    matchglobPre p n = true ↔ Spec.Matches (cstr p) (cstr n) :=
  ⟨glob_sound_pre p n, fun hm => dfs_complete_partial _ _ h (Spec.matchesB_complete hm)⟩

example : starOk (cstr "null*Pointer".toList) = true ∧ starOk (cstr "*".toList) = true ∧
    starOk (cstr "a?c*".toList) = true ∧ starOk (cstr "x**".toList) = true := by decide

/-- F8 (found by this check, repaired by /repo commit 1cf3800): the full statement was false of the code before the
    repair — `a**b` is a valid pattern (`isValidGlobPattern`), the documented language contains `axb`, the old
    `matchglob` rejected it; likewise `a*?` / `ax`.  The repaired code accepts both. -/
theorem glob_starstar_counterexample :
    (isValidGlobPattern "a**b".toList = true ∧ matchglobPre "a**b".toList "axb".toList = false ∧
      Spec.Matches (cstr "a**b".toList) (cstr "axb".toList)) ∧
    (matchglobPre "a*?".toList "ax".toList = false ∧ Spec.Matches (cstr "a*?".toList) (cstr "ax".toList)) ∧
    ¬ (∀ p n : Str, matchglobPre p n = true ↔ Spec.Matches (cstr p) (cstr n)) ∧
    (matchglob "a**b".toList "axb".toList = true ∧ matchglob "a*?".toList "ax".toList = true) := by
  have h1 : Spec.Matches (cstr "a**b".toList) (cstr "axb".toList) := Spec.matchesB_sound _ _ (by decide)
  have h2 : Spec.Matches (cstr "a*?".toList) (cstr "ax".toList) := Spec.matchesB_sound _ _ (by decide)
  refine ⟨⟨by decide, by decide, h1⟩, ⟨by decide, h2⟩, ?_, by decide⟩
  intro hall
  have := (hall "a**b".toList "axb".toList).2 h1
  revert this
  decide

end Cppcheck.Glob

namespace Cppcheck.Suppress
open Cppcheck.Wire Cppcheck.Glob

/-- `Suppression::isSuppressed` returns `Matched` exactly when the documented rules say the suppression matches
    the finding — for every file matcher, every suppression whose id / symbol patterns are `globExact` and which
    is not an unpaired begin/end marker -/
theorem isSuppressed_matched_iff_spec (env : Env) (s : Suppr) (m : Msg) (hx : supprExact s = true) :
    isSuppressed env s m = .matched ↔ Spec.matchesB env s m = true :=
  isSuppressed_matched_iff env s m hx

/-- for every finding that carries an id (all findings cppcheck emits) the rule taken from the code is vacuous:
    `Matched` ⇔ the rules of the manual alone -/
theorem isSuppressed_matched_iff_documented (env : Env) (s : Suppr) (m : Msg) (hx : supprExact s = true)
    (hid : m.errorId ≠ []) : isSuppressed env s m = .matched ↔ Spec.documented env s m = true := by
  rw [isSuppressed_matched_iff env s m hx]
  unfold Spec.matchesB Spec.idlessRule
  have : m.errorId.isEmpty = false := by
    cases h : m.errorId with
    | nil => exact absurd h hid
    | cons _ _ => rfl
  simp [this]

example : supprExact
    { errorId := "null*".toList, fileName := "src/*.c".toList, lineNumber := 12, symbolName := "p?r".toList } = true := by
  decide
example : supprExact { errorId := "memleak".toList, type := .block, lineBegin := 3, lineEnd := 9 } = true := by decide

/-- with the repaired `matchglob` the exactness hypothesis only excludes unpaired begin/end markers -/
theorem supprExact_eq (s : Suppr) : supprExact s = (s.type != .blockBegin && s.type != .blockEnd) := by
  simp [supprExact, globExact, globFixed, fixApplied]

/-- F8 at the level of suppressions, after the repair: `--suppress=null**Pointer` is accepted by `addSuppression`
    and matches `nullPointer`, as the documented rules say (before the repair the result was `Checked`) -/
theorem isSuppressed_starstar_regression :
    let s : Suppr := { errorId := "null**Pointer".toList }
    let m : Msg := { errorId := "nullPointer".toList, fileName := "a.c".toList, lineNumber := 3 }
    addSuppression [] s = (.ok, [s]) ∧
    (∀ env, isSuppressed env s m = .matched) ∧ (∀ env, Spec.matchesB env s m = true) := by
  refine ⟨by decide, fun env => ?_, fun env => ?_⟩
  · have : isSuppressed ⟨fun _ _ => false, id⟩ { errorId := "null**Pointer".toList }
        { errorId := "nullPointer".toList, fileName := "a.c".toList, lineNumber := 3 } = .matched := by decide
    exact this
  · have : Spec.matchesB ⟨fun _ _ => false, id⟩ { errorId := "null**Pointer".toList }
        { errorId := "nullPointer".toList, fileName := "a.c".toList, lineNumber := 3 } = true := by decide
    exact this

/-- `SuppressionList::isSuppressed(errmsg, global)` is true exactly when some active entry matches by the
    documented rules -/
theorem listIsSuppressed_iff (env : Env) (g : Bool) (m : Msg) (l : List Suppr) (hx : ∀ s ∈ l, supprExact s = true) :
    (listIsSuppressed env g m l).1 = true ↔ ∃ s ∈ l, Spec.active g m s = true ∧ Spec.matchesB env s m = true := by
  rw [listIsSuppressed_fst, anyMatch_iff]
  simp only [active_eq_considered]
  constructor
  · rintro ⟨s, hs, h1, h2⟩
    exact ⟨s, hs, h1, (isSuppressed_matched_iff env s m (hx s hs)).1 h2⟩
  · rintro ⟨s, hs, h1, h2⟩
    exact ⟨s, hs, h1, (isSuppressed_matched_iff env s m (hx s hs)).2 h2⟩

/-- some active `nomsg` entry matches the finding by the documented rules -/
def Spec.Suppressed (env : Env) (cfg : GCfg) (nomsg : List Suppr) (f : Finding) : Prop :=
  ∃ s ∈ nomsg, Spec.active cfg.useGlobal (toMsg env cfg f) s = true ∧ Spec.matchesB env s (toMsg env cfg f) = true

/-- … and names the finding's id literally (only relevant in safety mode) -/
def Spec.SuppressedExplicitly (env : Env) (cfg : GCfg) (nomsg : List Suppr) (f : Finding) : Prop :=
  ∃ s ∈ nomsg, (cfg.useGlobal || isLocal s) = true ∧ s.errorId = (toMsg env cfg f).errorId ∧
    Spec.matchesB env s (toMsg env cfg f) = true

theorem supB_iff (env : Env) (cfg : GCfg) (nomsg : List Suppr) (f : Finding) (hx : ∀ s ∈ nomsg, supprExact s = true) :
    supB env cfg nomsg f = true ↔ Spec.Suppressed env cfg nomsg f := by
  unfold supB Spec.Suppressed
  rw [anyMatch_iff]
  simp only [active_eq_considered]
  constructor
  · rintro ⟨s, hs, h1, h2⟩
    exact ⟨s, hs, h1, (isSuppressed_matched_iff env s _ (hx s hs)).1 h2⟩
  · rintro ⟨s, hs, h1, h2⟩
    exact ⟨s, hs, h1, (isSuppressed_matched_iff env s _ (hx s hs)).2 h2⟩

theorem explB_iff (env : Env) (cfg : GCfg) (nomsg : List Suppr) (f : Finding) (hx : ∀ s ∈ nomsg, supprExact s = true) :
    explB env cfg nomsg f = true ↔ Spec.SuppressedExplicitly env cfg nomsg f := by
  unfold explB Spec.SuppressedExplicitly anyExplicit
  simp only [List.any_eq_true, Bool.and_eq_true, decide_eq_true_eq]
  constructor
  · rintro ⟨s, hs, ⟨h1, h2⟩, h3⟩
    exact ⟨s, hs, h1, h2, (isSuppressed_matched_iff env s _ (hx s hs)).1 h3⟩
  · rintro ⟨s, hs, h1, h2, h3⟩
    exact ⟨s, hs, ⟨h1, h2⟩, (isSuppressed_matched_iff env s _ (hx s hs)).2 h3⟩

/-- the three ways through the gate, by the documented rules: internal bookkeeping messages; reportable findings with
    a non-empty rendering that no active `nomsg` suppression matches; (safety mode only) suppressed critical errors
    that no matching suppression names literally -/
def Spec.Passes (env : Env) (cfg : GCfg) (nomsg : List Suppr) (f : Finding) : Prop :=
  f.internal = true ∨ (f.libReports = true ∧
    ((¬ Spec.Suppressed env cfg nomsg f ∧ f.text ≠ []) ∨
     (cfg.safety = true ∧ f.critical = true ∧ Spec.Suppressed env cfg nomsg f ∧
        ¬ Spec.SuppressedExplicitly env cfg nomsg f)))

theorem passes_iff (env : Env) (cfg : GCfg) (nomsg : List Suppr) (f : Finding) (hx : ∀ s ∈ nomsg, supprExact s = true) :
    passes env cfg nomsg f = true ↔ Spec.Passes env cfg nomsg f := by
  unfold passes Spec.Passes
  have h1 := supB_iff env cfg nomsg f hx
  have h2 := explB_iff env cfg nomsg f hx
  constructor
  · intro hp
    simp only [Bool.or_eq_true, Bool.and_eq_true, Bool.not_eq_true'] at hp
    rcases hp with hp | ⟨hl, hp⟩
    · exact Or.inl hp
    · right
      refine ⟨hl, ?_⟩
      rcases hp with ⟨hs, ht⟩ | ⟨⟨⟨hs, hsa⟩, hcr⟩, he⟩
      · left
        refine ⟨fun hsp => ?_, by simpa using ht⟩
        rw [h1.2 hsp] at hs; cases hs
      · right
        refine ⟨hsa, hcr, h1.1 hs, fun hsp => ?_⟩
        rw [h2.2 hsp] at he; cases he
  · intro hp
    simp only [Bool.or_eq_true, Bool.and_eq_true, Bool.not_eq_true']
    rcases hp with hp | ⟨hl, hp⟩
    · exact Or.inl hp
    · right
      refine ⟨hl, ?_⟩
      rcases hp with ⟨hs, ht⟩ | ⟨hsa, hcr, hs, he⟩
      · left
        refine ⟨?_, by simpa using ht⟩
        cases hb : supB env cfg nomsg f with
        | false => rfl
        | true => exact absurd (h1.1 hb) hs
      · right
        refine ⟨⟨⟨h1.2 hs, hsa⟩, hcr⟩, ?_⟩
        cases hb : explB env cfg nomsg f with
        | false => rfl
        | true => exact absurd (h2.1 hb) he

/-- THE PROPERTY.  For every file matcher, every pair of suppression lists, every settings combination and every
    sequence of findings pushed through `CppCheckLogger::reportErr` (`dfix = true`: current code; `false`: before 9e24c55):
    a finding is forwarded (unaltered) iff it is in the sequence and passes by the documented rules.
    Hypotheses: distinct findings render to distinct texts (or `emitDuplicates`), and no `nomsg` entry is an unpaired
    begin/end marker (`supprExact`, see `supprExact_eq`; before the repair of `matchglob` it also excluded id / symbol
    patterns with a `*` followed by `*` or `?`). -/
theorem reported_iff_unsuppressed_gen (dfix : Bool) (env : Env) (cfg : GCfg) (nomsg nofail : List Suppr)
    (fs : List Finding) (hd : cfg.emitDuplicates = true ∨ TextInj fs) (hx : ∀ s ∈ nomsg, supprExact s = true)
    (f : Finding) :
    Reported (gateG dfix env cfg nomsg nofail fs).out f ↔ f ∈ fs ∧ Spec.Passes env cfg nomsg f := by
  rw [gateG_out, ← passes_iff env cfg nomsg f hx, ← passesEl_nil dfix]
  exact ⟨reported_outAcc_sound dfix env cfg nomsg fs ([], []) f,
         fun h => reported_outAcc_complete dfix env cfg nomsg fs ([], []) hd f h.1 h.2⟩

/-- … for the current code -/
theorem reported_iff_unsuppressed (env : Env) (cfg : GCfg) (nomsg nofail : List Suppr) (fs : List Finding)
    (hd : cfg.emitDuplicates = true ∨ TextInj fs) (hx : ∀ s ∈ nomsg, supprExact s = true) (f : Finding) :
    Reported (gate env cfg nomsg nofail fs).out f ↔ f ∈ fs ∧ Spec.Passes env cfg nomsg f :=
  reported_iff_unsuppressed_gen dupFixApplied env cfg nomsg nofail fs hd hx f

/-- the usual configuration (no safety mode): reported ⇔ in the run ∧ (internal ∨ reportable ∧ unsuppressed) -/
theorem reported_iff_unsuppressed_nosafety (env : Env) (cfg : GCfg) (nomsg nofail : List Suppr) (fs : List Finding)
    (hs : cfg.safety = false) (hd : cfg.emitDuplicates = true ∨ TextInj fs) (hx : ∀ s ∈ nomsg, supprExact s = true)
    (f : Finding) :
    Reported (gate env cfg nomsg nofail fs).out f ↔
      f ∈ fs ∧ (f.internal = true ∨ (f.libReports = true ∧ f.text ≠ [] ∧ ¬ Spec.Suppressed env cfg nomsg f)) := by
  rw [reported_iff_unsuppressed env cfg nomsg nofail fs hd hx f]
  unfold Spec.Passes
  constructor
  · rintro ⟨hm, hp⟩
    refine ⟨hm, ?_⟩
    rcases hp with hp | ⟨hl, ⟨h1, h2⟩ | ⟨hsa, _⟩⟩
    · exact Or.inl hp
    · exact Or.inr ⟨hl, h2, h1⟩
    · rw [hs] at hsa; cases hsa
  · rintro ⟨hm, hp⟩
    refine ⟨hm, ?_⟩
    rcases hp with hp | ⟨hl, h2, h1⟩
    · exact Or.inl hp
    · exact Or.inr ⟨hl, Or.inl ⟨h1, h2⟩⟩

example : TextInj [{ text := "a.c:3:x".toList, id := "x".toList, stack := [("a.c".toList, 3)] },
                   { text := "a.c:4:x".toList, id := "x".toList, stack := [("a.c".toList, 4)] }] := by decide

/-- soundness needs no hypothesis on the renderings: whatever is forwarded unaltered is a finding of the run that
    passes by the documented rules (current code and repaired code) -/
theorem reported_sound (dfix : Bool) (env : Env) (cfg : GCfg) (nomsg nofail : List Suppr) (fs : List Finding)
    (hx : ∀ s ∈ nomsg, supprExact s = true) (f : Finding)
    (h : Reported (gateG dfix env cfg nomsg nofail fs).out f) : f ∈ fs ∧ Spec.Passes env cfg nomsg f := by
  rw [gateG_out] at h
  have := reported_outAcc_sound dfix env cfg nomsg fs ([], []) f h
  rw [passesEl_nil, passes_iff env cfg nomsg f hx] at this
  exact this

/-- found by this check, repaired by /repo commit 9e24c55: in the code before (`gateG false`) the rendered text of a
    *suppressed* finding entered the duplicate filter, so a later unsuppressed finding with the same text (template
    without the line: `--template='{id}'`, `--suppress=x:a.c:3`, findings on lines 3 and 4) was dropped — nothing
    forwarded, exit code 0 — although no suppression matches it; the current code (`gateG true`) forwards it -/
theorem reported_duptext_counterexample :
    let env : Env := ⟨fun p f => p = f, id⟩
    let nomsg : List Suppr := [{ errorId := "x".toList, fileName := "a.c".toList, lineNumber := 3 }]
    let f3 : Finding := { text := "x".toList, id := "x".toList, stack := [("a.c".toList, 3)] }
    let f4 : Finding := { text := "x".toList, id := "x".toList, stack := [("a.c".toList, 4)] }
    (gateG false env {} nomsg [] [f3, f4]).out = [] ∧ (gateG false env {} nomsg [] [f3, f4]).exitCode = 0 ∧
    supB env {} nomsg f4 = false ∧ (gateG false env {} nomsg [] [f4]).out = [{ f := f4 }] ∧
    (gateG true env {} nomsg [] [f3, f4]).out = [{ f := f4 }] := by
  decide

/-- some entry of the whole `nomsg` list (global entries included) matches the finding by the documented rules -/
def Spec.SuppressedByAll (env : Env) (cfg : GCfg) (nomsg : List Suppr) (f : Finding) : Prop :=
  ∃ s ∈ nomsg, Spec.active true (toMsg env cfg f) s = true ∧ Spec.matchesB env s (toMsg env cfg f) = true

theorem laterB_iff (env : Env) (cfg : GCfg) (nomsg : List Suppr) (f : Finding) (hx : ∀ s ∈ nomsg, supprExact s = true) :
    laterB env cfg nomsg f = true ↔ Spec.SuppressedByAll env cfg nomsg f := by
  unfold laterB Spec.SuppressedByAll
  rw [anyMatch_iff]
  simp only [active_eq_considered]
  constructor
  · rintro ⟨s, hs, h1, h2⟩
    exact ⟨s, hs, h1, (isSuppressed_matched_iff env s _ (hx s hs)).1 h2⟩
  · rintro ⟨s, hs, h1, h2⟩
    exact ⟨s, hs, h1, (isSuppressed_matched_iff env s _ (hx s hs)).2 h2⟩

/-- THE PROPERTY without any hypothesis on the renderings (current code: two duplicate filters, /repo 9e24c55 + 9907ad7):
    the rendering of every finding of the run that passes by the documented rules is forwarded, carried by a passing
    finding of the run (two unsuppressed findings with one rendering are still printed once — that is what the
    duplicate filter is for).  When the logger runs without the global suppressions (a worker of a parallel run) the
    statement is about the findings the executor will not drop afterwards: `hg`. -/
theorem reported_texts_fixed (env : Env) (cfg : GCfg) (nomsg nofail : List Suppr) (fs : List Finding)
    (hx : ∀ s ∈ nomsg, supprExact s = true) (f : Finding) (hm : f ∈ fs) (hp : Spec.Passes env cfg nomsg f)
    (hg : cfg.useGlobal = true ∨ ¬ Spec.SuppressedByAll env cfg nomsg f) :
    ∃ g ∈ fs, g.text = f.text ∧ Spec.Passes env cfg nomsg g ∧ Reported (gateG true env cfg nomsg nofail fs).out g := by
  rw [gateG_out]
  have hp' : passesEl env cfg nomsg (relOf true env cfg nomsg ([], []) f) f = true := by
    rw [passesEl_nil]; exact (passes_iff env cfg nomsg f hx).2 hp
  have hnl : (!cfg.useGlobal && laterB env cfg nomsg f) = false := by
    rcases hg with hg | hg
    · simp [hg]
    · cases hb : laterB env cfg nomsg f with
      | false => simp
      | true => exact absurd ((laterB_iff env cfg nomsg f hx).1 hb) hg
  obtain ⟨g, hg', hgt, hgr⟩ := reported_outAcc_texts env cfg nomsg fs ([], []) f hm hnl hp'
  have := reported_outAcc_sound true env cfg nomsg fs ([], []) g hgr
  rw [passesEl_nil, passes_iff env cfg nomsg g hx] at this
  exact ⟨g, hg', hgt, this.2, hgr⟩

/-- … stated for the current code -/
theorem reported_texts (env : Env) (cfg : GCfg) (nomsg nofail : List Suppr) (fs : List Finding)
    (hx : ∀ s ∈ nomsg, supprExact s = true) (f : Finding) (hm : f ∈ fs) (hp : Spec.Passes env cfg nomsg f)
    (hg : cfg.useGlobal = true ∨ ¬ Spec.SuppressedByAll env cfg nomsg f) :
    ∃ g ∈ fs, g.text = f.text ∧ Spec.Passes env cfg nomsg g ∧ Reported (gate env cfg nomsg nofail fs).out g :=
  reported_texts_fixed env cfg nomsg nofail fs hx f hm hp hg

/-- `--exitcode-suppressions` entries never hide anything: the forwarded findings do not depend on the `nofail` list -/
theorem nofail_does_not_hide (env : Env) (cfg : GCfg) (nomsg nofail nofail' : List Suppr) (fs : List Finding) :
    (gate env cfg nomsg nofail fs).out = (gate env cfg nomsg nofail' fs).out := by
  unfold gate
  rw [gateG_out, gateG_out]

/-- line-range semantics of the suppression kinds (everything that is not about the location being satisfied):
    plain = the line (or every line when none is given; the line and the next one in the `{` special case),
    file = every line, begin/end block = the closed range, macro = wherever the macro is used -/
theorem line_semantics (env : Env) (s : Suppr) (m : Msg) (hx : supprExact s = true)
    (hother : Spec.hashMatches s m = true ∧ Spec.idMatches s m = true ∧ Spec.symbolMatches s m = true ∧
      (s.errorId.isEmpty || !m.errorId.isEmpty) = true ∧ Spec.fileMatches env s m = true) :
    isSuppressed env s m = .matched ↔
      match s.type with
      | .unique => s.lineNumber = -1 ∨ m.lineNumber = s.lineNumber ∨
          (s.thisAndNextLine = true ∧ m.lineNumber = s.lineNumber + 1)
      | .file => True
      | .block => s.lineBegin ≤ m.lineNumber ∧ m.lineNumber ≤ s.lineEnd
      | .macro => s.macroName ∈ m.macroNames
      | .blockBegin => False
      | .blockEnd => False := by
  rw [isSuppressed_matched_iff env s m hx]
  obtain ⟨h1, h2, h3, h4, h5⟩ := hother
  unfold Spec.matchesB Spec.documented Spec.idlessRule Spec.locationMatches
  rw [h1, h2, h3]
  cases ht : s.type <;> simp [h4, h5, or_assoc]

end Cppcheck.Suppress

namespace Cppcheck.SuppressParse
open Cppcheck.Wire Cppcheck.Suppress

/-- `parseLine (toString s) = s` on the fields `toString` prints, for every printable suppression and every
    `simplifyPath` function -/
theorem parse_print (env : Env) (s : Suppr) (h : printable env s = true) :
    parseLine env (toString s) = .ok (printedFields s) :=
  parse_print_aux env s h

example : printable ⟨fun _ _ => false, id⟩
    { errorId := "null*".toList, fileName := "src/a.c".toList, lineNumber := 12, symbolName := "p".toList } = true := by
  decide
example : printable ⟨fun _ _ => false, id⟩ { errorId := "memleak".toList, fileName := "C:/x/a.c".toList } = true := by
  decide

/-- SUPPRESSION FILES IN TEXT FORM: `parseFile` of a file that holds one printed suppression per line adds exactly these
    suppressions, in order, stopping at the first one `addSuppression` rejects (`addSeq`).  Hypotheses per entry:
    `printable`, the line is not a blank / comment line, and it contains no line break (no symbol / polyspace extras). -/
theorem parseFile_print (env : Env) (ss : List Suppr) (l : List Suppr)
    (h : ∀ s ∈ ss, printable env s = true ∧ skipLine (toString s) = false ∧
      (toString s).all (fun c => c != '\n' && c != '\r') = true) :
    parseFile env l (fileOf ss) = addSeq (ss.map printedFields) l :=
  parseFile_print_aux env ss l h

example : let s : Suppr := { errorId := "memleak".toList, fileName := "src/a.c".toList, lineNumber := 12 }
    printable ⟨fun _ _ => false, id⟩ s = true ∧ skipLine (toString s) = false ∧
      (toString s).all (fun c => c != '\n' && c != '\r') = true := by decide

/-- SUPPRESSION FILES IN XML FORM (after tinyxml2): the `<suppress>` elements written for a list of suppressions
    (`<id>`, `<fileName>`, `<lineNumber>`, `<symbolName>`; absent fields omitted) are read back as exactly these
    suppressions (file names simplified), added in order, stopping at the first rejection -/
theorem parseXml_print (env : Env) (ss : List Suppr) (l : List Suppr)
    (h : ∀ s ∈ ss, intMin ≤ s.lineNumber ∧ s.lineNumber ≤ intMax) :
    parseXml env (ss.map fun s => ("suppress".toList, xmlOf s)) l = addSeqX (ss.map (xmlFieldsOf env)) l :=
  parseXml_print_aux env ss l h

/-- not every suppression is printable: a line number without file name is dropped by `toString` -/
theorem print_drops_line_without_file :
    toString { errorId := "x".toList, lineNumber := 5 } = "x".toList := by decide

end Cppcheck.SuppressParse

namespace Cppcheck.Suppress
open Cppcheck.Wire

/-- current code (since /repo f569efa, proposed/C23-sameparameters.diff): an entry is only rejected as "already exists" when the list holds an entry
    that matches exactly the same findings: dropping it loses nothing -/
theorem addSuppression_exists_harmless (l : List Suppr) (s : Suppr) (h : (addSuppressionG true l s).1 = .exists) :
    ∃ s' ∈ l, ∀ env m, isSuppressed env s' m = isSuppressed env s m := by
  unfold addSuppressionG at h
  by_cases ha : l.any (isSameParametersG true s) = true
  · obtain ⟨s', hs', hp⟩ := List.any_eq_true.1 ha
    refine ⟨s', hs', fun env m => ?_⟩
    simp only [isSameParametersG, Bool.not_true, Bool.false_or, Bool.and_eq_true, decide_eq_true_eq] at hp
    obtain ⟨⟨⟨⟨⟨⟨h1, h2⟩, h3⟩, h4⟩, h5⟩, h6⟩, ⟨⟨h7, h8⟩, h9⟩, h10⟩ := hp
    unfold isSuppressed symbolOk
    rw [h1, h2, h3, h4, h5, h6, h7, h8, h9, h10]
  · simp only [ha, Bool.false_eq_true, if_false] at h
    repeat (split at h <;> try cases h)

/-- found through C17's report, repaired by /repo f569efa; code before (`sfix = false`): `isSameParameters` ignored type / lineBegin / lineEnd, so the
    block suppression built from `/* cppcheck-suppress-begin zerodiv */ … /* cppcheck-suppress-end zerodiv */` (lines 4–6)
    was dropped as "already exists" when `// cppcheck-suppress zerodiv` sits on the line before the begin comment (both
    get lineNumber 4); the finding on line 5, inside the documented block, was then matched by nothing; the current code
    (`sfix = true`) keeps both entries -/
theorem addSuppression_block_dropped_counterexample :
    let env : Env := ⟨fun p f => p = f, id⟩
    let u : Suppr := { errorId := "zerodiv".toList, fileName := "a.c".toList, lineNumber := 4, isInline := true }
    let b : Suppr := { errorId := "zerodiv".toList, fileName := "a.c".toList, lineNumber := 4, lineBegin := 4, lineEnd := 6,
                       type := .block, isInline := true }
    let m : Msg := { errorId := "zerodiv".toList, fileName := "a.c".toList, lineNumber := 5 }
    addSuppressionG false [u] b = (.exists, [u]) ∧ Spec.matchesB env b m = true ∧
    (listIsSuppressed env true m [u]).1 = false ∧
    addSuppressionG true [u] b = (.ok, [u, b]) ∧ (listIsSuppressed env true m [u, b]).1 = true := by
  decide

end Cppcheck.Suppress

namespace Cppcheck.Suppress
open Cppcheck.Wire

/-- PARALLEL RUNS (`-j N`, thread and process executor): the worker's logger applies only the suppressions bound to one file,
    `Executor::hasToLog` applies the whole list afterwards.  For every file matcher, suppression lists and finding sequence:
    a finding comes out of worker ∘ executor (unaltered) iff it is in the run and is an internal message or a reportable
    finding with a non-empty rendering that NO entry of the whole list matches by the documented rules.
    Hypotheses: no safety mode (there the two paths really differ: `parallel_safety_counterexample`, known finding
    `safety-global-suppressed-critical` of C15); distinct findings render differently (or `emitDuplicates`); no unpaired
    begin/end markers; macro suppressions are bound to their file (inline comments always are). -/
theorem reported_parallel_iff (env : Env) (cfg : GCfg) (nomsg nofail : List Suppr) (fs : List Finding)
    (hs : cfg.safety = false) (hd : cfg.emitDuplicates = true ∨ TextInj fs) (hx : ∀ s ∈ nomsg, supprExact s = true)
    (hmac : ∀ s ∈ nomsg, s.type = .macro → isLocal s = true) (f : Finding) :
    Reported (parallelRun env cfg nomsg nofail fs).kept f ↔
      f ∈ fs ∧ (f.internal = true ∨
        (f.libReports = true ∧ f.text ≠ [] ∧ ¬ Spec.SuppressedByAll env cfg nomsg f)) := by
  unfold parallelRun
  dsimp only
  have hfl : FlagEq (gate env { cfg with useGlobal := false } nomsg nofail fs).nomsg nomsg :=
    gateG_nomsg dupFixApplied env { cfg with useGlobal := false } nomsg nofail fs
  rw [execFilter_kept env cfg nomsg _ _ hfl]
  have hout : (gate env { cfg with useGlobal := false } nomsg nofail fs).out =
      outAcc dupFixApplied env { cfg with useGlobal := false } nomsg ([], []) fs := gateG_out _ _ _ _ _ _
  have hinj : cfg.emitDuplicates = true ∨ OutInj (gate env { cfg with useGlobal := false } nomsg nofail fs).out := by
    rcases hd with hd | hd
    · exact Or.inl hd
    · right
      intro o ho o' ho' ht
      rw [hout] at ho ho'
      exact hd _ (outAcc_mem _ _ _ _ _ _ o ho) _ (outAcc_mem _ _ _ _ _ _ o' ho') ht
  rw [reported_eAcc env cfg nomsg _ [] hinj f]
  have hw := reported_iff_unsuppressed_gen dupFixApplied env { cfg with useGlobal := false } nomsg nofail fs hd hx f
  have hw' : Reported (gate env { cfg with useGlobal := false } nomsg nofail fs).out f ↔
      f ∈ fs ∧ passes env { cfg with useGlobal := false } nomsg f = true := by
    rw [passes_iff _ _ _ _ hx]; exact hw
  rw [hw']
  have hcomb := sup_local_or_later env cfg nomsg f hmac
  have hlat := laterB_iff env cfg nomsg f hx
  unfold passes ePass
  have hsaf : ({ cfg with useGlobal := false } : GCfg).safety = false := hs
  generalize ({ cfg with useGlobal := false } : GCfg) = cW at hcomb hsaf ⊢
  rw [hsaf]
  constructor
  · rintro ⟨⟨hm, hp⟩, he⟩
    refine ⟨hm, ?_⟩
    by_cases hi : f.internal = true
    · exact Or.inl hi
    · right
      simp only [hi, Bool.false_eq_true, Bool.false_or, Bool.and_false, Bool.false_and, Bool.or_false,
        Bool.and_eq_true, Bool.not_eq_true', List.contains_nil, Bool.not_false, Bool.or_true, Bool.and_true] at hp he
      refine ⟨hp.1, by simpa using hp.2.2, fun hall => ?_⟩
      have := hlat.2 hall
      rw [← hcomb, hp.2.1, he.1] at this
      cases this
  · rintro ⟨hm, hp⟩
    rcases hp with hi | ⟨hl, ht, hns⟩
    · exact ⟨⟨hm, by simp [hi]⟩, by simp [hi]⟩
    · have hlb : laterB env cfg nomsg f = false := by
        cases hb : laterB env cfg nomsg f with
        | false => rfl
        | true => exact absurd (hlat.1 hb) hns
      rw [hlb] at hcomb
      simp only [Bool.or_eq_false_iff] at hcomb
      have hte : f.text.isEmpty = false := by
        cases h : f.text with
        | nil => exact absurd h ht
        | cons _ _ => rfl
      exact ⟨⟨hm, by simp [hl, hcomb.1, hte]⟩, by simp [hcomb.2, hte]⟩

/-- … hence a parallel run reports exactly what the single-job logger (all suppressions at once) reports -/
theorem reported_parallel_eq_single (env : Env) (cfg : GCfg) (nomsg nofail : List Suppr) (fs : List Finding)
    (hs : cfg.safety = false) (hd : cfg.emitDuplicates = true ∨ TextInj fs) (hx : ∀ s ∈ nomsg, supprExact s = true)
    (hmac : ∀ s ∈ nomsg, s.type = .macro → isLocal s = true) (f : Finding) :
    Reported (parallelRun env cfg nomsg nofail fs).kept f ↔
      Reported (gate env { cfg with useGlobal := true } nomsg nofail fs).out f := by
  rw [reported_parallel_iff env cfg nomsg nofail fs hs hd hx hmac f,
    reported_iff_unsuppressed_nosafety env { cfg with useGlobal := true } nomsg nofail fs hs hd hx f]
  rfl

example : (∀ s ∈ ([{ errorId := "x".toList, fileName := "a.c".toList, type := .macro, macroName := "M".toList },
                   { errorId := "y*".toList }] : List Suppr), s.type = .macro → isLocal s = true) := by decide

/-- safety mode is excluded for a reason (C15's known finding `safety-global-suppressed-critical`): a critical error
    suppressed by a glob is forwarded by the single-job logger, but a parallel run drops it in the executor -/
theorem parallel_safety_counterexample :
    let env : Env := ⟨fun p f => p = f, id⟩
    let cfg : GCfg := { safety := true }
    let nomsg : List Suppr := [{ errorId := "syntax*".toList }]
    let f : Finding := { critical := true, text := "a.c:1:syntaxError".toList, id := "syntaxError".toList,
                         stack := [("a.c".toList, 1)] }
    (gate env cfg nomsg [] [f]).out = [{ f := f }] ∧ (parallelRun env cfg nomsg [] [f]).kept = [] := by
  decide

end Cppcheck.Suppress

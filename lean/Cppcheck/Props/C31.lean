import Cppcheck.Proofs.PathMatch
import Cppcheck.Proofs.PathCanon
import Cppcheck.Proofs.FileLister
/-
C31 — property theorems: file selection and path matching follow the documented rules.

The model (Cppcheck/Model/PathCanon.lean, PathMatch.lean, FileLister.lean) copies lib/pathmatch.h, lib/pathmatch.cpp,
lib/path.cpp, externals/simplecpp/simplecpp.cpp (`simplifyPath`) and cli/filelister.cpp (POSIX part).  It is parametrised
by `Variant`: `Variant.fixed` is the code of the working tree (with the repair 4dc0347 = proposed/C31-pathmatch.diff),
`Variant.old` the code before that repair; the theorems are about `Variant.fixed`, the behaviour before the repair is kept
as counterexample theorems.  Strings are byte strings (`List Char`) of any length; nothing below is bounded.
-/

namespace Cppcheck.PathMatch
open Cppcheck.Wire Cppcheck.PathCanon

/-! ## `PathMatch::match` -/

/-- **termination**: for both variants of the loop and all streams the backtracking loop of `PathMatch::match` returns
    within `matchFuel` iterations (`matchFuel` = the iteration count `costC` of the search, summed over the restart
    positions), and its answer is the answer of the recursive search `mC` from some restart position -/
theorem match_terminates (fx real : Bool) (s t : Str) (ht : NUL ∉ t) :
    matchStreams fx real s t = some (mC fx real s t || restAny fx real s t) :=
  matchStreams_eq fx real s t ht

/-- **`pathmatch_eq_spec` (the loop)**: on the reversed canonical pattern `P` and the reversed canonical path `Y` the
    repaired loop returns `true` exactly if the documented rule `SpecMatch` holds: some part of `Y` that starts at the
    start of `Y` (the only choice for a "real" pattern) or directly behind a separator and ends at a separator or at the
    end of `Y` is matched by the glob `P` (`**` any text, `*` any text without separator, `?` one non-separator; a run of
    three or more `*` may be read in any way, e.g. as `**` followed by `*`). -/
theorem pathmatch_eq_spec (real : Bool) (P Y : Str) (hP : NUL ∉ P) (hY : NUL ∉ Y) :
    ∃ b, matchStreams true real P.reverse Y.reverse = some b ∧ (b = true ↔ SpecMatch real P Y) := by
  refine ⟨_, matchStreams_eq true real _ _ (by simpa using hY), ?_⟩
  exact search_iff_spec true real P Y hP hY (Or.inl rfl)

/-- the loop before the repair: the same statement holds exactly for the patterns in which (reading backwards) no star
    is directly followed by `?` or `*` -/
theorem pathmatch_eq_spec_before_repair (real : Bool) (P Y : Str) (hP : NUL ∉ P) (hY : NUL ∉ Y)
    (hs : starOkR P.reverse = true) :
    ∃ b, matchStreams false real P.reverse Y.reverse = some b ∧ (b = true ↔ SpecMatch real P Y) := by
  refine ⟨_, matchStreams_eq false real _ _ (by simpa using hY), ?_⟩
  exact search_iff_spec false real P Y hP hY (Or.inr hs)

/-- what the loop accepts is always matched by the documented rule (both variants, every pattern) -/
theorem pathmatch_sound (fx real : Bool) (P Y : Str) (hP : NUL ∉ P) (hY : NUL ∉ Y)
    (h : matchStreams fx real P.reverse Y.reverse = some true) : SpecMatch real P Y := by
  rw [matchStreams_eq fx real _ _ (by simpa using hY)] at h
  have hb : (mC fx real P.reverse Y.reverse || restAny fx real P.reverse Y.reverse) = true := by simpa using h
  have hPr : NUL ∉ P.reverse := by simpa using hP
  have key : ∀ q : Str, NUL ∉ q → mC fx real P.reverse q = true →
      ∃ pre mid, q.reverse = pre ++ mid ∧ (pre = [] ∨ (real = false ∧ pre.getLast? = some '/')) ∧ Glob P mid := by
    intro q hq hm
    obtain ⟨t1, t2, e, hg, he⟩ := mC_sound fx real _ P.reverse q (Nat.le_refl _) hPr hq hm
    refine ⟨t2.reverse, t1.reverse, by simp [e], (endOk_reverse real t2.reverse).1 (by simpa using he), ?_⟩
    exact (glob_reverse_iff P t1.reverse).1 (by simpa using hg)
  simp only [Bool.or_eq_true, restAny, List.any_eq_true] at hb
  rcases hb with h | ⟨q, hq, h⟩
  · obtain ⟨pre, mid, e, hpre, hg⟩ := key Y.reverse (by simpa using hY) h
    exact ⟨pre, mid, [], by simpa using e, Or.inl rfl, hpre, hg⟩
  · obtain ⟨a, ea⟩ := (mem_afterSeps _ _).1 hq
    have hqn : NUL ∉ q := by
      intro hm
      have : NUL ∈ Y.reverse := by rw [ea]; simp [hm]
      exact hY (by simpa using this)
    obtain ⟨pre, mid, e, hpre, hg⟩ := key q hqn h
    refine ⟨pre, mid, '/' :: a.reverse, ?_, Or.inr rfl, hpre, hg⟩
    have := congrArg List.reverse ea
    simp only [List.reverse_reverse, List.reverse_append, List.reverse_cons] at this
    rw [this, e]
    simp

/-- **C31 `pathmatch_eq_spec`, whole function**: for every pattern, path, base path, file mode and syntax inside the
    documented domain, the repaired `PathMatch::match` decides exactly the documented rule.  The rule does not mention the
    `pattern == path` shortcut of the code: the shortcut is proved to be covered by the rule (`fast_path_spec`) whenever
    `FastPathOk` (pattern absolute / base-relative, or base path empty, or base path absolute and – always so on unix – the
    pattern without a root of its own); `pathMatch_shortcut_counterexample_*` show the two remaining input classes. -/
theorem pathMatch_eq_spec (syn : Syntax) (mode : Filemode) (pattern path base : Str)
    (hp : CanonDomain (rawPattern syn pattern base).1 (rawPattern syn pattern base).2 = true)
    (hx : CanonDomain (rawPath syn path base).1 (rawPath syn path base).2 = true)
    (hfp : pattern = path → FastPathOk syn pattern base = true) :
    pathMatch .fixed syn mode pattern path base = true ↔ PathMatchSpec syn mode pattern path base := by
  unfold pathMatch PathMatchSpec
  by_cases he : pattern = []
  · subst he; simp
  · have he' : pattern.isEmpty = false := by cases pattern <;> simp_all
    simp only [he', Bool.false_eq_true, if_false, ne_eq, he, not_false_eq_true, true_and]
    by_cases hs : (pattern == ['*'] || pattern == ['*', '*']) = true
    · simp only [hs, if_true, true_iff]
      simp only [Bool.or_eq_true, beq_iff_eq] at hs
      have hreal : isReal pattern = false := by rcases hs with h | h <;> subst h <;> decide
      have hdm : dirMismatch syn mode pattern = false := by
        rcases hs with h | h <;> subst h <;> cases syn <;> cases mode <;> decide
      have hrel : isRelativePattern pattern = false := by rcases hs with h | h <;> subst h <;> decide
      rw [hreal, hdm]
      simp only [Bool.false_eq_true, if_false, canonPattern, hrel]
      rcases hs with h | h
      · subst h; rw [canonOf_star]; exact specMatch_star _
      · subst h; rw [canonOf_sstar]; exact specMatch_sstar _
    · simp only [hs, Bool.false_eq_true, if_false]
      have hdmdef : (issep syn (pattern.getLastD NUL) && mode != .directory) = dirMismatch syn mode pattern := rfl
      rw [hdmdef]
      by_cases hf : (!dirMismatch syn mode pattern && pattern == path) = true
      · -- the shortcut: covered by the rule (`fast_path_spec`)
        simp only [hf, if_true, true_iff]
        simp only [Bool.and_eq_true, Bool.not_eq_true', beq_iff_eq] at hf
        obtain ⟨hdm, hpp⟩ := hf
        subst hpp
        rw [hdm]
        simp only [Bool.false_eq_true, if_false]
        exact fast_path_spec syn pattern base hp hx (hfp rfl)
      · simp only [hf, Bool.false_eq_true, if_false]
        have hS := fromPattern_stream syn pattern base hp
        have hT := fromPath_stream syn path base hx
        have hPn : NUL ∉ canonPattern syn pattern base := by
          have := stream_no_nul .fixed (fromPattern .fixed syn pattern base)
          rw [hS] at this; simpa using this
        have hXn : NUL ∉ canonPath syn path base := by
          have := stream_no_nul .fixed (fromPath .fixed syn path base)
          rw [hT] at this; simpa using this
        rw [hS, hT]
        have hreal : (isAbsolute pattern || isRelativePattern pattern) = isReal pattern := rfl
        rw [hreal]
        -- the path side: the whole path, or its parent directory
        generalize hY : (if dirMismatch syn mode pattern = true then parentOf (canonPath syn path base) else canonPath syn path base) = Y
        have hYn : NUL ∉ Y := by
          rw [← hY]; split
          · exact parentOf_no_nul _ hXn
          · exact hXn
        have hT' : (if dirMismatch syn mode pattern = true then skipLast Variant.fixed.dirsep (canonPath syn path base).reverse
            else (canonPath syn path base).reverse) = Y.reverse := by
          rw [← hY]
          split
          · exact skipLast_reverse _ hXn
          · rfl
        rw [hT']
        have hfx : Variant.fixed.star = true := rfl
        rw [hfx, matchStreams_eq true _ _ _ (by simpa using hYn)]
        simp only [Option.getD_some]
        rw [search_iff_spec true (isReal pattern) _ Y hPn hYn (Or.inl rfl)]


/-- **suppression file patterns** (`lib/suppressions.cpp` calls `PathMatch::match(fileName, path)`: empty base path,
    regular file, platform syntax) follow the same rule; with an empty base path the shortcut needs no hypothesis -/
theorem suppression_file_pattern_rule (pattern path : Str)
    (hp : CanonDomain (rawPattern .unix pattern []).1 (rawPattern .unix pattern []).2 = true)
    (hx : CanonDomain (rawPath .unix path []).1 (rawPath .unix path []).2 = true) :
    pathMatch .fixed .unix .regular pattern path [] = true ↔ PathMatchSpec .unix .regular pattern path [] :=
  pathMatch_eq_spec .unix .regular pattern path [] hp hx (fun _ => fastPathOk_unix pattern [] (Or.inr rfl))

/-- the executable form of the rules used by the check (`spec` op of the driver) decides the documented rule -/
theorem pathMatchSpecB_iff (syn : Syntax) (mode : Filemode) (pattern path base : Str) :
    pathMatchSpecB syn mode pattern path base = true ↔ PathMatchSpec syn mode pattern path base := by
  unfold pathMatchSpecB PathMatchSpec
  simp only [Bool.and_eq_true, Bool.not_eq_true', List.isEmpty_eq_false_iff, Bool.or_eq_true, beq_iff_eq,
    specMatchB_iff, ne_eq]

/-- where the shortcut is NOT covered by the rule (1): a free pattern whose canonical form is empty, with a relative
    base path – `match("a/..", "a/..", "b")` is true by the shortcut, the rule (`"b"` matched by the empty pattern) is false -/
theorem pathMatch_shortcut_counterexample_relative_base :
    pathMatch .fixed .unix .regular "a/..".toList "a/..".toList "b".toList = true ∧
    pathMatchSpecB .unix .regular "a/..".toList "a/..".toList "b".toList = false ∧
    FastPathOk .unix "a/..".toList "b".toList = false ∧
    CanonDomain (rawPattern .unix "a/..".toList "b".toList).1 (rawPattern .unix "a/..".toList "b".toList).2 = true ∧
    CanonDomain (rawPath .unix "a/..".toList "b".toList).1 (rawPath .unix "a/..".toList "b".toList).2 = true := by decide

/-- where the shortcut is NOT covered by the rule (2): windows syntax (on this build only used by tests), a pattern with
    a drive root of its own that is not absolute for `Path::isAbsolute` -/
theorem pathMatch_shortcut_counterexample_windows_root :
    pathMatch .fixed .windows .regular "c:/..".toList "c:/..".toList "/b".toList = true ∧
    pathMatchSpecB .windows .regular "c:/..".toList "c:/..".toList "/b".toList = false ∧
    FastPathOk .windows "c:/..".toList "/b".toList = false := by
  refine ⟨by decide, by decide, by decide⟩

/-- before the repair (C31-3): a star followed (reading backwards) by `?` found no backtrack position -/
theorem pathmatch_star_counterexample_before_repair :
    pathMatch .old .unix .regular "a?*".toList "abc".toList [] = false ∧
    pathMatchSpecB .unix .regular "a?*".toList "abc".toList [] = true ∧
    pathMatch .fixed .unix .regular "a?*".toList "abc".toList [] = true := by decide

/-- before the repair (C31-4): a directory pattern ending in `*` also matched regular files of the directory itself -/
theorem pathmatch_dirpattern_counterexample_before_repair :
    pathMatch .old .unix .regular "a/*/".toList "/a/f".toList [] = true ∧
    pathMatchSpecB .unix .regular "a/*/".toList "/a/f".toList [] = false ∧
    pathMatch .fixed .unix .regular "a/*/".toList "/a/f".toList [] = false := by decide

/-! the hypotheses are met by ordinary inputs, and the documented rule distinguishes them -/
example : MatchOk .fixed .unix .regular "s/*.c".toList "s/a.c".toList "/b".toList = true := by decide
example : MatchOk .fixed .unix .regular "s/a.c".toList "s/a.c".toList "/b".toList = true ∧
    FastPathOk .unix "s/a.c".toList "/b".toList = true ∧ FastPathOk .unix "s/a.c".toList [] = true := by decide
example : pathMatch .fixed .unix .regular "s/*.c".toList "s/a.c".toList "/b".toList = true ∧
    pathMatch .fixed .unix .regular "s/*.c".toList "s/t/a.c".toList "/b".toList = false := by decide
example : pathMatch .fixed .unix .regular "**/a".toList "x//./a".toList [] = true := by decide
example : starOkR "src/**/*.c".toList.reverse = true ∧ starOkR "a?*".toList.reverse = false ∧
    starOkR "a***b".toList.reverse = false := by decide
example : pathMatch .fixed .unix .regular "a***b".toList "a/x/b".toList [] = true := by decide

end Cppcheck.PathMatch

namespace Cppcheck.PathCanon
open Cppcheck.Wire

/-! ## `PathMatch::PathIterator` and `simplifyPath` -/

/-- **`pathiter_eq_canon`**: for every pair of strings and both syntaxes the repaired iterator reads the documented
    canonical form of `a`, separator, `b` (`/./`, `/dir/../`, `//` collapsed, trailing separators removed, the root kept,
    `..` at the root removed), inside the documented domain: the root is empty or ends with a separator (excludes the
    windows forms `C:dir`, `//.` the header lists as unsupported) and, without a root, no `..` climbs above the start -/
theorem pathiter_eq_canon (syn : Syntax) (a b : Str)
    (h : CanonDomain (rawOf syn a b).1 (rawOf syn a b).2 = true) :
    (Iter.mk' .fixed syn a b).read .fixed = canonOf syn a b :=
  iter_read_eq_canon syn a b h

/-- before the repair (C31-1): the separator at a double separator inside a path was lost -/
theorem pathiter_eq_canon_counterexample_dsep :
    ¬ (((Iter.mk' .old .unix "/a//x".toList []).read .old) = canonOf .unix "/a//x".toList []) ∧
    (Iter.mk' .old .unix "/a//x".toList []).read .old = "/ax".toList ∧
    (Iter.mk' .old .unix "/".toList "x".toList).read .old = "x".toList := by decide

/-- before the repair (C31-2): `..` directly behind the root consumed the root -/
theorem pathiter_eq_canon_counterexample_rootdd :
    ¬ (((Iter.mk' .old .unix "/../x".toList []).read .old) = canonOf .unix "/../x".toList []) ∧
    (Iter.mk' .old .unix "/../x".toList []).read .old = "x".toList := by decide

/-- outside the documented domain the statement is false also for the repaired code: a relative path that climbs
    above its start (no documented canonical form) -/
theorem pathiter_eq_canon_counterexample_relative_escape :
    ¬ (((Iter.mk' .fixed .unix "../../x".toList []).read .fixed) = canonOf .unix "../../x".toList []) ∧
    CanonDomain (rawOf .unix "../../x".toList []).1 (rawOf .unix "../../x".toList []).2 = false := by decide

example : CanonDomain (rawOf .unix "/base/./x/..".toList "a//../b/".toList).1 (rawOf .unix "/base/./x/..".toList "a//../b/".toList).2 = true := by
  decide
example : (Iter.mk' .fixed .unix "/base/./x/..".toList "a//../b/".toList).read .fixed = "/base/b".toList := by decide
example : CanonDomain (rawOf .windows "C:\\Program Files\\".toList "..".toList).1 (rawOf .windows "C:\\Program Files\\".toList "..".toList).2 = true := by
  decide
example : CanonDomain (rawOf .unix "src/../lib".toList []).1 (rawOf .unix "src/../lib".toList []).2 = true := by decide

/-- **`simplifyPath_idempotent` is false of the code** (C31-5, externals/simplecpp): at `pos == 0` the `size_t`
    expressions wrap -/
theorem simplifyPath_idempotent_counterexample :
    ¬ (simplifyPath (simplifyPath "/a/../../a/../a".toList) = simplifyPath "/a/../../a/../a".toList) ∧
    simplifyPath "/a/../../a/../a".toList = "/../a/../".toList ∧
    simplifyPath "/../a/../".toList = "/../".toList := by decide

/-- `simplifyPath` does not give the canonical form when a `..` climbs above the root: the last component is erased -/
theorem simplifyPath_eq_canon_counterexample :
    simplifyPath "/a/../../x/y".toList = "/../x/".toList ∧ canon 1 "/a/../../x/y".toList = "/x/y".toList := by decide

end Cppcheck.PathCanon

namespace Cppcheck.FileLister
open Cppcheck.Wire Cppcheck.PathCanon Cppcheck.PathMatch

/-! ## `FileLister::addFiles` -/

/-- the selection the documentation describes, for an existing start path `root` naming `node` -/
def selected (ign : Str → Filemode → Bool) (acc : Str → Bool × Lang) (root : Str) (node : Tree) : List (Str × Lang) :=
  ((allFiles root [] node).filter (fun f => accepted acc root f && !ignoredAlong ign root f)).map
    (fun f => (f.1, langOf acc root f.1))

/-- **`lister_exact`**: for every directory tree (any depth, any order of the entries), every matcher and every
    acceptance test, `addFiles` returns no error and the sorted list of exactly the files that are accepted (extension
    test; not applied to a file given as start path) and not cut off by an ignore pattern on the way down -/
theorem lister_exact (ign : Str → Filemode → Bool) (acc : Str → Bool × Lang) (path : Str) (node : Tree)
    (hp : path ≠ []) :
    addFiles ign acc path (some node) = ("", sortFiles (selected ign acc (correctedPath path) node)) := by
  have : path.isEmpty = false := by cases path <;> simp_all
  simp only [addFiles, this, Bool.false_eq_true, if_false, selected, collectPath_eq]

/-- the listing is a permutation of the selection … -/
theorem lister_perm (ign : Str → Filemode → Bool) (acc : Str → Bool × Lang) (path : Str) (node : Tree) (hp : path ≠ []) :
    (addFiles ign acc path (some node)).2.Perm (selected ign acc (correctedPath path) node) := by
  rw [lister_exact ign acc path node hp]; exact sortFiles_perm _

/-- … without duplicates (for a well-formed tree: sibling names differ, no separator inside a name) … -/
theorem lister_nodup (ign : Str → Filemode → Bool) (acc : Str → Bool × Lang) (path : Str) (node : Tree) (hp : path ≠ [])
    (hw : node.wf = true) : ((addFiles ign acc path (some node)).2.map (·.1)).Nodup := by
  have hperm := (lister_perm ign acc path node hp).map (·.1)
  refine hperm.nodup_iff.2 ?_
  simp only [selected, List.map_map]
  have hsub : (((allFiles (correctedPath path) [] node).filter
      (fun f => accepted acc (correctedPath path) f && !ignoredAlong ign (correctedPath path) f)).map (·.1)).Sublist
      ((allFiles (correctedPath path) [] node).map (·.1)) := List.Sublist.map _ List.filter_sublist
  exact (nodup_allFiles (correctedPath path) [] node hw).sublist hsub

/-- … and strictly ascending in the order of `std::string::operator<` -/
theorem lister_sorted (ign : Str → Filemode → Bool) (acc : Str → Bool × Lang) (path : Str) (node : Tree) (hp : path ≠ [])
    (hw : node.wf = true) : ((addFiles ign acc path (some node)).2.map (·.1)).Pairwise (fun a b => strLt a b = true) := by
  have hnd := lister_nodup ign acc path node hp hw
  rw [lister_exact ign acc path node hp] at hnd ⊢
  have hs := sortFiles_sorted (selected ign acc (correctedPath path) node)
  have hs' : ((sortFiles (selected ign acc (correctedPath path) node)).map (·.1)).Pairwise
      (fun a b => strLt b a = false) := by
    rw [List.pairwise_map]
    exact hs.imp (fun h => by simpa [pathLe] using h)
  have := hs'.and hnd
  refine this.imp ?_
  rintro a b ⟨h1, h2⟩
  rcases strLt_trichotomy a b with h | h | h
  · exact h
  · exact absurd h h2
  · rw [h1] at h; cases h

/-- an empty path is an error, a path that does not exist yields nothing -/
theorem lister_no_path (ign : Str → Filemode → Bool) (acc : Str → Bool × Lang) (node : Option Tree) :
    addFiles ign acc [] node = ("no path specified", []) := rfl

theorem lister_missing (ign : Str → Filemode → Bool) (acc : Str → Bool × Lang) (path : Str) (hp : path ≠ []) :
    addFiles ign acc path none = ("", []) := by
  have : path.isEmpty = false := by cases path <;> simp_all
  simp [addFiles, this]

/-! ## `cppcheck -i <str>`: from the command line to the selection -/

/-- hypothesis of the command-line theorems: a pattern that is neither absolute nor relative to the current directory
    (it may match at any directory boundary) must not contain a `..` that climbs above its own start -/
def UserPatternOk (u : Str) : Bool :=
  absoluteU (removeQuotationMarks u) || relativeU (removeQuotationMarks u) ||
    CanonDomain (rawOf .unix (normalizeIgnored u) []).1 (rawOf .unix (normalizeIgnored u) []).2

/-- **one `-i` value**: with an absolute current directory, the matcher applied to the value as `parseFromArgs` hands it
    over (quotation marks removed, native separators converted – nothing else) decides exactly the documented rule for the
    text the user wrote: a pattern that is `.`/`..` or starts with `./` `../` (either separator) is resolved against the
    current directory and must match from the start of the path, a pattern starting with a separator is absolute, every other
    pattern may match behind any separator; a trailing separator makes it a directory pattern -/
theorem cli_ignore_eq_rule (mode : Filemode) (u path cwd : Str) (hcwd : isAbsolute cwd = true)
    (hu : UserPatternOk u = true) :
    pathMatch .fixed .unix mode (normalizeIgnored u) path cwd = true ↔ UserIgnoreSpec mode u path cwd := by
  rw [← pathMatchSpec_normalized]
  refine Cppcheck.PathMatch.pathMatch_eq_spec .unix mode _ path cwd ?_ ?_ (fun _ => fastPathOk_unix _ cwd (Or.inl hcwd))
  · unfold rawPattern
    have hr : isRelativePattern (normalizeIgnored u) = relativeU (removeQuotationMarks u) := isRelativePattern_fromNative _
    have ha : isAbsolute (normalizeIgnored u) = absoluteU (removeQuotationMarks u) := isAbsolute_fromNative _
    by_cases h1 : relativeU (removeQuotationMarks u) = true
    · simp only [hr, h1, if_true]; exact canonDomain_of_absolute cwd _ hcwd
    · simp only [hr, h1, Bool.false_eq_true, if_false]
      by_cases h2 : absoluteU (removeQuotationMarks u) = true
      · exact canonDomain_of_absolute _ [] (by rw [ha]; exact h2)
      · simp only [UserPatternOk, Bool.or_eq_true] at hu
        rcases hu with (h | h) | h
        · exact absurd h h2
        · exact absurd h h1
        · exact h
  · unfold rawPath
    by_cases h1 : isAbsolute path = true
    · simp only [h1, if_true]; exact canonDomain_of_absolute path [] h1
    · simp only [h1, Bool.false_eq_true, if_false]; exact canonDomain_of_absolute cwd path hcwd

/-- **the whole `-i` path**: `cppcheck -i u₁ -i u₂ … path` run in the absolute directory `cwd` selects, for every
    directory tree, exactly the sorted list of the accepted files that the documented rule – applied to the patterns as
    the user wrote them – does not cut off on the way down -/
theorem cli_selection_exact (us : List Str) (acc : Str → Bool × Lang) (cwd path : Str) (node : Tree)
    (hcwd : isAbsolute cwd = true) (hus : ∀ u ∈ us, UserPatternOk u = true) (hp : path ≠ []) :
    addFiles (cliIgnored us cwd) acc path (some node) =
      ("", sortFiles (selected (fun p m => us.any (fun u => userIgnoreSpecB m u p cwd)) acc (correctedPath path) node)) := by
  have hfun : cliIgnored us cwd = fun p m => us.any (fun u => userIgnoreSpecB m u p cwd) := by
    funext p m
    simp only [cliIgnored, pathMatchList]
    have key : ∀ l : List Str, (∀ u ∈ l, UserPatternOk u = true) →
        (l.map normalizeIgnored).any (fun pattern => pathMatch .fixed .unix m pattern p cwd) =
          l.any (fun u => userIgnoreSpecB m u p cwd) := by
      intro l
      induction l with
      | nil => intro _; rfl
      | cons u l ih =>
        intro hl
        have h1 : pathMatch .fixed .unix m (normalizeIgnored u) p cwd = userIgnoreSpecB m u p cwd := by
          rw [Bool.eq_iff_iff, userIgnoreSpecB_iff]
          exact cli_ignore_eq_rule m u p cwd hcwd (hl u (by simp))
        simp only [List.map_cons, List.any_cons, h1, ih (fun v hv => hl v (by simp [hv]))]
    exact key us hus
  rw [hfun]
  exact lister_exact _ acc path node hp

/-! ### `--file-filter=<str>`, de-duplication, and the step from `argv` to the values -/

/-- hypothesis on a `--file-filter` value (it reaches the matcher verbatim): as for `-i` -/
def FilterOk (f : Str) : Bool :=
  isAbsolute f || isRelativePattern f || CanonDomain (rawOf .unix f []).1 (rawOf .unix f []).2

/-- **`--file-filter`**: `CmdLineParser::filterFiles` keeps exactly the files the documented rule selects for one of the
    filters (file mode regular, patterns relative to the current directory) -/
theorem file_filter_eq_rule (ffs : List Str) (cwd : Str) (files : List (Str × Lang)) (hcwd : isAbsolute cwd = true)
    (hff : ∀ f ∈ ffs, FilterOk f = true) :
    filterFiles ffs cwd files =
      files.filter (fun x => ffs.any (fun f => pathMatchSpecB .unix .regular f x.1 cwd)) := by
  unfold filterFiles
  apply List.filter_congr
  intro x _
  simp only [pathMatchList]
  have key : ∀ l : List Str, (∀ f ∈ l, FilterOk f = true) →
      l.any (fun pattern => pathMatch .fixed .unix .regular pattern x.1 cwd) =
        l.any (fun f => pathMatchSpecB .unix .regular f x.1 cwd) := by
    intro l
    induction l with
    | nil => intro _; rfl
    | cons f l ih =>
      intro hl
      have h1 : pathMatch .fixed .unix .regular f x.1 cwd = pathMatchSpecB .unix .regular f x.1 cwd := by
        rw [Bool.eq_iff_iff, Cppcheck.PathMatch.pathMatchSpecB_iff]
        refine Cppcheck.PathMatch.pathMatch_eq_spec .unix .regular f x.1 cwd ?_ ?_
          (fun _ => fastPathOk_unix _ cwd (Or.inl hcwd))
        · unfold rawPattern
          have hf := hl f (by simp)
          by_cases h1 : isRelativePattern f = true
          · simp only [h1, if_true]; exact canonDomain_of_absolute cwd _ hcwd
          · simp only [h1, Bool.false_eq_true, if_false]
            by_cases h2 : isAbsolute f = true
            · exact canonDomain_of_absolute _ [] h2
            · simp only [FilterOk, Bool.or_eq_true] at hf
              rcases hf with (h | h) | h
              · exact absurd h h2
              · exact absurd h h1
              · exact h
        · unfold rawPath
          by_cases h1 : isAbsolute x.1 = true
          · simp only [h1, if_true]; exact canonDomain_of_absolute _ [] h1
          · simp only [h1, Bool.false_eq_true, if_false]; exact canonDomain_of_absolute cwd _ hcwd
      simp only [List.any_cons, h1, ih (fun g hg => hl g (by simp [hg]))]
  exact key ffs hff

/-- **de-duplication**: the first entry for every file (key = its absolute path) stays, in the given order, and
    nothing else is removed -/
theorem cli_dedup_spec (key : Str → Str) (l : List (Str × Lang)) :
    (dedupBy key l).Sublist l ∧ ((dedupBy key l).map (fun f => key f.1)).Nodup ∧
    (∀ x ∈ l, ∃ y ∈ dedupBy key l, key y.1 = key x.1) ∧
    ((l.map (fun f => key f.1)).Nodup → dedupBy key l = l) :=
  ⟨dedupBy_sublist key l, dedupBy_nodup key l, dedupBy_complete key l, dedupBy_of_nodup key l⟩

/-- **from `argv` to the values** (the argument loop, one equation per form it accepts) -/
theorem splitArgs_path (a : Str) (rest : List Str) (h : hd a ≠ '-') :
    splitArgs (a :: rest) = (splitArgs rest).map (fun r => { r with paths := a :: r.paths }) := by
  have h' : (hd a != '-') = true := by simpa using h
  rw [splitArgs.eq_def]
  simp only [h', if_true]

theorem splitArgs_i_separate (v : Str) (rest : List Str) (h : hd v ≠ '-') :
    splitArgs (['-', 'i'] :: v :: rest) =
      (splitArgs rest).map (fun r => if v.isEmpty then r else { r with ignored := v :: r.ignored }) := by
  have h1 : (hd v == '-') = false := by simpa using h
  have h2 : (hd ['-', 'i'] != '-') = false := by decide
  rw [splitArgs.eq_def]
  simp only [h2, Bool.false_eq_true, if_false, beq_self_eq_true, if_true, h1]

theorem splitArgs_i_joined (v : Str) (rest : List Str) (hv : v ≠ []) :
    splitArgs (('-' :: 'i' :: v) :: rest) = (splitArgs rest).map (fun r => { r with ignored := v :: r.ignored }) := by
  have h2 : (hd ('-' :: 'i' :: v) != '-') = false := by simp [hd]
  have h3 : (('-' :: 'i' :: v) == ['-', 'i']) = false := by simp [hv]
  have h4 : (['-', 'i'].isPrefixOf ('-' :: 'i' :: v)) = true := by simp [List.isPrefixOf]
  rw [splitArgs.eq_def]
  simp only [h2, h3, h4, Bool.false_eq_true, if_false, if_true, List.drop_succ_cons, List.drop_zero]

theorem splitArgs_filter (f : Str) (rest : List Str) (h1 : f ≠ ['-']) (h2 : f ≠ ['+']) :
    splitArgs ((fileFilterPrefix ++ f) :: rest) = (splitArgs rest).map (fun r => { r with filters := f :: r.filters }) := by
  have e1 : (hd (fileFilterPrefix ++ f) != '-') = false := by simp [fileFilterPrefix, hd]
  have e2 : ((fileFilterPrefix ++ f) == ['-', 'i']) = false := by simp [fileFilterPrefix]
  have e3 : (['-', 'i'].isPrefixOf (fileFilterPrefix ++ f)) = false := by simp [fileFilterPrefix, List.isPrefixOf]
  have e4 : fileFilterPrefix.isPrefixOf (fileFilterPrefix ++ f) = true := by simp [fileFilterPrefix, List.isPrefixOf]
  have e5 : (fileFilterPrefix ++ f).drop 14 = f := by simp [fileFilterPrefix]
  have e6 : (f == ['-'] || f == ['+']) = false := by simp [h1, h2]
  rw [splitArgs.eq_def]
  simp only [e1, e2, e3, e4, e5, e6, Bool.false_eq_true, if_false, if_true]

/-- what `parseFromArgs` hands on: the `-i` values and the path names normalised, the filters verbatim -/
theorem parseIgnoreArgs_values (args : List Str) (a : CliArgs) (hs : splitArgs args = some a) (hp : a.paths ≠ []) :
    parseIgnoreArgs args = some (a.ignored.map normalizeIgnored, a.filters, a.paths.map normalizeIgnored) := by
  have : a.paths.isEmpty = false := by cases h : a.paths <;> simp_all
  simp [parseIgnoreArgs, hs, this]

/-- the selection the documentation describes for `cppcheck [-i u]… [--file-filter=f]… path…` in the directory `cwd`:
    every path name listed by the rule for the `-i` patterns as written, the filters applied by the rule, duplicates dropped -/
def ruleListing (us : List Str) (cwd p : Str) (node : Option Tree) : List (Str × Lang) :=
  match node with
  | none => []
  | some n =>
    if p = [] then []
    else sortFiles (selected (fun q m => us.any (fun u => userIgnoreSpecB m u q cwd)) (acceptFile []) (correctedPath p) n)

def ruleSelect (a : CliArgs) (cwd : Str) (resolve : Str → Option Tree) : Option (List Str) :=
  let resolved := (a.paths.map normalizeIgnored).flatMap (fun p => ruleListing a.ignored cwd p (resolve p))
  if resolved.isEmpty then none
  else
    let files := if a.filters.isEmpty then resolved
      else resolved.filter (fun x => a.filters.any (fun f => pathMatchSpecB .unix .regular f x.1 cwd))
    if files.isEmpty then none else mapSpath (dedupBy (absKey cwd) files)

/-- **the whole command line** (`-i`, `--file-filter`, several path names): the model of `parseFromArgs` +
    `fillSettingsFromArgs` (this is the function the driver executes, op `clisel`) selects exactly what the documented
    rules select for the values as the user wrote them -/
theorem cli_select_exact (args : List Str) (a : CliArgs) (cwd : Str) (resolve : Str → Option Tree)
    (hs : splitArgs args = some a) (hp : a.paths ≠ []) (hcwd : isAbsolute cwd = true)
    (hus : ∀ u ∈ a.ignored, UserPatternOk u = true) (hff : ∀ f ∈ a.filters, FilterOk f = true) :
    cliSelect args cwd resolve = ruleSelect a cwd resolve := by
  unfold cliSelect ruleSelect
  rw [parseIgnoreArgs_values args a hs hp]
  simp only []
  have hl : ∀ p : Str,
      (addFiles (pathMatchList .fixed .unix (a.ignored.map normalizeIgnored) cwd) (acceptFile []) p (resolve p)).2 =
        ruleListing a.ignored cwd p (resolve p) := by
    intro p
    unfold ruleListing
    cases hr : resolve p with
    | none =>
      by_cases hp0 : p = []
      · subst hp0; rfl
      · rw [lister_missing _ _ p hp0]
    | some n =>
      by_cases hp0 : p = []
      · subst hp0; simp [lister_no_path]
      · simp only [hp0, if_false]
        have h2 : cliIgnored a.ignored cwd = pathMatchList .fixed .unix (a.ignored.map normalizeIgnored) cwd := by
          funext q m; rfl
        rw [← h2, cli_selection_exact a.ignored (acceptFile []) cwd p n hcwd hus hp0]
  simp only [hl]
  rw [file_filter_eq_rule a.filters cwd _ hcwd hff]

/-- the values reach the matcher exactly as `normalizeIgnored` leaves them, in the order given; empty values are dropped,
    a missing value is an error -/
example : parseIgnoreArgs ["-i".toList, ".\\g\\".toList, "-i\"a b\"/".toList, "-i".toList, [], "--file-filter=*.c".toList,
      "s\\t".toList] =
    some (["./g/".toList, "a b/".toList], ["*.c".toList], ["s/t".toList]) := by decide
example : parseIgnoreArgs ["-i".toList, "-x".toList, "s".toList] = none ∧ parseIgnoreArgs ["s".toList, "-i".toList] = none := by
  decide

/-- `Path::simplifyPath` is NOT a valid normalisation of an ignore pattern: it strips the leading `./` that anchors the
    pattern at the current directory (`-i ./g` would also exclude `l/g/b.c`) -/
theorem cli_simplifyPath_normalisation_counterexample :
    simplifyPath "./g".toList = "g".toList ∧ normalizeIgnored "./g".toList = "./g".toList ∧
    pathMatch .fixed .unix .regular "g".toList "l/g/b.c".toList "/w".toList = true ∧
    pathMatch .fixed .unix .regular "./g".toList "l/g/b.c".toList "/w".toList = false ∧
    ¬ UserIgnoreSpec .regular "./g".toList "l/g/b.c".toList "/w".toList := by
  refine ⟨by decide, by decide, by decide, by decide, ?_⟩
  rw [← cli_ignore_eq_rule .regular _ _ _ (by decide) (by decide)]
  decide

example : UserPatternOk "./gen".toList = true ∧ UserPatternOk "gen/*.c".toList = true ∧ UserPatternOk ".\\gen\\".toList = true ∧
    UserPatternOk "a/../../b".toList = false := by decide

example : (Tree.dir [] [.file "b.cpp".toList, .dir "sub".toList [.file "a.c".toList, .file "n.txt".toList], .file "m.h".toList]).wf = true := by
  decide
example : selected (fun p _ => p == "r/s".toList) (acceptFile []) "r".toList
    (.dir [] [.file "b.cpp".toList, .dir "s".toList [.file "a.c".toList], .dir "l".toList [.file "z.c".toList, .file "n.txt".toList]])
    = [("r/b.cpp".toList, .cpp), ("r/l/z.c".toList, .c)] := by decide

end Cppcheck.FileLister

import Cppcheck.Model.FileLister
/-
C31 — property theorems (file selection and path matching follow the documented rules).
-/
namespace Cppcheck.PathCanon

/-- the iterator loses the separator at a double separator inside a path -/
theorem pathiter_eq_canon_counterexample_dsep :
    ¬ (((Iter.mk' .old .unix "/a//x".toList []).read .old) = canonOf .unix "/a//x".toList []) := by decide

/-- `..` directly behind the root consumes the root -/
theorem pathiter_eq_canon_counterexample_rootdd :
    ¬ (((Iter.mk' .old .unix "/../x".toList []).read .old) = canonOf .unix "/../x".toList []) := by decide

theorem simplifyPath_idempotent_counterexample :
    ¬ (simplifyPath (simplifyPath "/a/../../a/../a".toList) = simplifyPath "/a/../../a/../a".toList) := by decide

end Cppcheck.PathCanon

import Cppcheck.Model.PPMacro
namespace Cppcheck.PPCond
end Cppcheck.PPCond

import Cppcheck.Proofs.PPCond
import Cppcheck.Proofs.PPMacro
/-
C11 — property theorems (preprocessing matches a conforming preprocessor), part 1: the `#if` evaluator.

Model under the theorems (Cppcheck/Model/PPCond.lean): `evalIf` = the loop of simplecpp::preprocess that replaces
`defined X` / `defined ( X )`, followed by `evaluate` (simplifyName, simplifyNumbers, TokenList::constFold with its passes), a
copy of externals/simplecpp/simplecpp.cpp on token spellings.  Specification: `value` (C17 6.10.1p4 / 6.6 / 6.5 on intmax_t and
uintmax_t, short circuit, `defined`, remaining identifiers 0) on expression trees `E`; `print` = tokens with the minimal
parentheses of the C grammar, `printPF` = every binary / conditional operand parenthesised.

The full-strength statement  "for every tree with a value, simplecpp evaluates its printed form to that value"  is FALSE of the
code; each `ifeval_counterexample_*` below is a proved witness (replayed on the real simplecpp and on gcc by the check, recorded
as known findings F11a–F11g).  What holds is `ifeval_eq_spec_paren`.
-/
namespace Cppcheck.PPCond

instance : DecidableEq (Except Err Int)
  | .ok a, .ok b => if h : a = b then isTrue (by rw [h]) else isFalse (by intro e; injection e with e; exact h e)
  | .error a, .error b => if h : a = b then isTrue (by rw [h]) else isFalse (by intro e; injection e with e; exact h e)
  | .ok _, .error _ => isFalse (by intro e; cases e)
  | .error _, .ok _ => isFalse (by intro e; cases e)

/-- no macro is defined -/
def noDef : Tok → Bool := fun _ => false

def L (n : Nat) : E := .lit ⟨10, n, false, 0⟩

/-- The full-strength statement (for the record; refuted below).  It is deliberately the WEAKER form — a non-zero value may be
answered by any non-zero value, only the branch taken has to agree — so its refutation is the stronger result;
`ifeval_eq_spec_paren` proves exact equality of the value on its class. -/
def IfEvalEqSpec : Prop :=
  ∀ (e : E) (v : Val), value noDef e = some v → evalIf noDef (print e) = .ok v.v ∨ (v.v ≠ 0 ∧ ∃ w, w ≠ 0 ∧ evalIf noDef (print e) = .ok w)

/-- **Main theorem (partial).**  For every expression tree — arbitrary depth — whose literals are decimal, unsuffixed and
representable in intmax_t (`plainLits`), whose unary operators are applied to literals / `defined` / identifiers or to
parenthesised compound expressions and whose unary minus operands are positive (`unaryOk`), whose identifiers are identifiers
(`wfNames`) and whose strict evaluation (every operand evaluated, every intermediate result representable) is defined with
result `v`: simplecpp evaluates the fully parenthesised spelling to `v`, and `v` is the value C17 6.10.1 gives the tree. -/
theorem ifeval_eq_spec_paren (isDef : Tok → Bool) (e : E) (v : Int)
    (hw : wfNames e = true) (hl : plainLits e = true) (hu : unaryOk isDef e = true) (hv : valueStrict isDef e = some v) :
    evalIf isDef (printPF e) = .ok v ∧ value isDef e = some ⟨v, false⟩ :=
  ⟨evalIf_printPF isDef e v hw ⟨hv, hl, hu⟩, (value_of_strict isDef e v hl hv).1⟩

/-- the hypotheses are satisfiable by a non-trivial tree: `! defined ( A ) && ( ( 3 + 4 ) * 2 > 13 ? 1 : 0 )` -/
example :
    let e : E := .bin .land (.un .not (.defd "A".toList true))
      (.cond (.bin .gt (.bin .mul (.bin .add (L 3) (L 4)) (L 2)) (L 13)) (L 1) (L 0))
    wfNames e = true ∧ plainLits e = true ∧ unaryOk noDef e = true ∧ valueStrict noDef e = some 1 := by decide

/-! ### counterexamples to the full statement (each is a known finding) -/

/-- F11a: `1 || 0 && 0` is 1 in C, simplecpp folds `||` and `&&` in one left-to-right pass: 0 -/
theorem ifeval_counterexample_or_and :
    value noDef (.bin .lor (L 1) (.bin .land (L 0) (L 0))) = some ⟨1, false⟩ ∧
    evalIf noDef (print (.bin .lor (L 1) (.bin .land (L 0) (L 0)))) = .ok 0 := by decide

/-- F11b: `2 == 1 < 1` is `2 == (1 < 1)` = 0 in C, simplecpp: `(2 == 1) < 1` = 1 -/
theorem ifeval_counterexample_eq_rel :
    value noDef (.bin .eq (L 2) (.bin .lt (L 1) (L 1))) = some ⟨0, false⟩ ∧
    evalIf noDef (print (.bin .eq (L 2) (.bin .lt (L 1) (L 1)))) = .ok 1 := by decide

/-- F11c: `! ! 1` is 1, simplecpp leaves `! 0` unfolded and answers 0; `- ( 1 - 2 )` is 1, simplecpp builds the spelling `--1` -/
theorem ifeval_counterexample_unary :
    value noDef (.un .not (.un .not (L 1))) = some ⟨1, false⟩ ∧
    evalIf noDef (print (.un .not (.un .not (L 1)))) = .ok 0 ∧
    value noDef (.un .neg (.bin .sub (L 1) (L 2))) = some ⟨1, false⟩ ∧
    evalIf noDef (print (.un .neg (.bin .sub (L 1) (L 2)))) = .ok 0 := by decide

/-- F11d: `- 1 < 0u` is 0 (the comparison is made in uintmax_t), simplecpp: 1 -/
theorem ifeval_counterexample_unsigned :
    value noDef (.bin .lt (.un .neg (L 1)) (.lit ⟨10, 0, true, 0⟩)) = some ⟨0, false⟩ ∧
    evalIf noDef (print (.bin .lt (.un .neg (L 1)) (.lit ⟨10, 0, true, 0⟩))) = .ok 1 := by decide

/-- F11e: `! 00` is 1, simplecpp compares the spelling with "0": 0 -/
theorem ifeval_counterexample_literal :
    value noDef (.un .not (.lit ⟨8, 0, false, 0⟩)) = some ⟨1, false⟩ ∧
    evalIf noDef (print (.un .not (.lit ⟨8, 0, false, 0⟩))) = .ok 0 := by decide

/-- F11f: `1 ? 2 : 1 / 0` is 2 (the third operand is not evaluated), simplecpp reports a division by zero -/
theorem ifeval_counterexample_unevaluated :
    value noDef (.cond (L 1) (L 2) (.bin .div (L 1) (L 0))) = some ⟨2, false⟩ ∧
    evalIf noDef (print (.cond (L 1) (L 2) (.bin .div (L 1) (L 0)))) = .error .div0 := by decide

/-- F11g: `1 ? 0 : 0 ? 3 : 1` is 0, simplecpp continues with `0 ? 3 : 1` = 1 -/
theorem ifeval_counterexample_chain :
    value noDef (.cond (L 1) (L 0) (.cond (L 0) (L 3) (L 1))) = some ⟨0, false⟩ ∧
    evalIf noDef (print (.cond (L 1) (L 0) (.cond (L 0) (L 3) (L 1)))) = .ok 1 := by decide

/-- the full-strength statement is refuted -/
theorem ifeval_eq_spec_counterexample : ¬ IfEvalEqSpec := by
  intro h
  have := h (.bin .lor (L 1) (.bin .land (L 0) (L 0))) ⟨1, false⟩ ifeval_counterexample_or_and.1
  rw [ifeval_counterexample_or_and.2] at this
  rcases this with h1 | ⟨_, w, hw, h2⟩
  · exact absurd h1 (by decide)
  · injection h2 with h2; exact hw h2.symm

end Cppcheck.PPCond

/-
Part 2: macro replacement, conditional inclusion, -D / -U  (model: Cppcheck/Model/PPMacro.lean)
-/
namespace Cppcheck.PPMacro
open Cppcheck.PPCond

/-! ### termination of macro replacement

`expand` is defined by well-founded recursion on the lexicographic measure `(free ms dis, ts.length)`:
`free ms dis` = number of macros of the table whose replacement is not being rescanned.  Lean accepts the definition only with
the three facts below (they are the `decreasing_by` obligations of the definition; the axiom audit of the check also covers
`Cppcheck.PPMacro.expand` itself). -/

/-- rescanning the replacement of `n` happens with `n` disabled: the first component of the measure decreases -/
theorem expand_terminates_rescan {ms : List Macro} {dis : List Tok} {n : Tok} {m : Macro}
    (hl : lookup ms n = some m) (hd : dis.contains n = false) : free ms (n :: dis) < free ms dis :=
  free_lt hl hd

/-- the arguments of an invocation and the tokens after it are shorter than the list that starts with the invocation -/
theorem expand_terminates_args {l : List XTok} {args : List (List XTok)} {rest : List XTok}
    (h : parseArgs l = some (args, rest)) : (∀ a ∈ args, a.length ≤ l.length) ∧ rest.length < l.length :=
  parseArgs_len h

/-- the measure is a well-founded order -/
theorem expand_terminates_wf : WellFounded (Prod.Lex (fun a b : Nat => a < b) (fun a b : Nat => a < b)) :=
  (Prod.lex ⟨_, Nat.lt_wfRel.wf⟩ ⟨_, Nat.lt_wfRel.wf⟩).wf

/-- **object-like macro replacement = substitution**: for a table of object-like macros whose replacement lists contain no
macro name and no `#` (`flatTable`), the replacement of any token list is the list with every macro name substituted by its
replacement list (C06: a macro invocation and its expansion are the same token sequence). -/
theorem expand_object_macro_eq_subst (q : Quirks) (ms : List Macro) (hf : flatTable ms = true) (ts : List XTok)
    (hb : ∀ t ∈ ts, t.blue = false) : expand q ms [] ts = .ok (ts.flatMap (substTok ms)) :=
  expand_flat q ms hf ts hb

example : flatTable [⟨"N".toList, none, false, ["4".toList, "+".toList, "x".toList]⟩, ⟨"T".toList, none, false, ["int".toList]⟩] = true := by
  decide

/-! ### conditional inclusion -/

/-- **the ifstates machine of simplecpp::preprocess implements the group semantics of 6.10.1**: for every tree of nested
if-sections (any nesting depth, any number of `#elif` groups, optional `#else`), the lines the machine keeps are exactly the
lines of the groups the standard selects. -/
theorem included_lines_eq_spec (t : Items) : runC [] t.flat = some (t.incl true) := by
  have := items_run t [] []
  simpa [runC, top] using this

/-- the same inside any enclosing conditional state and followed by any continuation -/
theorem included_lines_eq_spec_nested (t : Items) (st : IfStack) (k : List CLine) :
    runC st (t.flat ++ k) = (runC st k).map (t.incl (top st == .tru) ++ ·) :=
  items_run t st k

example : (Items.cons (.sect false (.cons (.text 0) .nil) (.elif true (.cons (.text 1) .nil) (.els (.cons (.text 2) .nil))))
    (.cons (.text 3) .nil)).incl true = [1, 3] := by decide

/-- **the directive loop is that machine** (audit M1): on ANY list of lines, from any state, the text lines the directive loop
of `runFile` keeps (`keptLines`: its `top st.ifs == tru` test, the state threaded by `stepLine` itself — `#define/#undef` in
skipped groups ignored, conditions consulted through `condOf` only) are exactly the lines `runC` keeps on the skeleton of the run
(`skelLines`: per line `#if.. c` / `#elif c` with `c` the value `condOf` gives at that point, `#else`, `#endif`, text). -/
theorem runLines_included_eq_runC (q : Quirks) (undefs : List Tok) (lines : List (List LTok)) (st : PState) (i : Nat)
    (sk : List CLine) (k : List Nat) (h1 : skelLines q undefs st i lines = .ok sk) (h2 : keptLines q undefs st i lines = .ok k) :
    runC st.ifs sk = some k :=
  runLines_kept_eq_runC q undefs lines st i sk k h1 h2

/-- hence: when the skeleton of a run is the flattening of a tree of if-sections, the directive loop keeps exactly the lines the
group semantics of 6.10.1 selects -/
theorem runLines_included_lines_eq_spec (q : Quirks) (undefs : List Tok) (lines : List (List LTok)) (st : PState) (i : Nat)
    (t : Items) (k : List Nat) (hst : st.ifs = []) (h1 : skelLines q undefs st i lines = .ok t.flat)
    (h2 : keptLines q undefs st i lines = .ok k) : k = t.incl true := by
  have a := runLines_kept_eq_runC q undefs lines st i t.flat k h1 h2
  rw [hst, included_lines_eq_spec] at a
  injection a with a
  exact a.symm

/-- **a pass has no memory**: the result of the k-th pass over a source is a function of (source, dui of that pass) only — whatever
passes were made before.  Trivial for the pure model (that is the point: it is the specification of "no state survives a pass");
its force is the tie `preprocess-repeated-passes`, which runs the real simplecpp::preprocess repeatedly over ONE raw token list
(whose `Token::nextcond` skip chain is written by earlier passes) and compares every pass with `runPasses`. -/
theorem pass_independent_of_history (q : Quirks) (src : List Char) (duis : List (List (List Char) × List Tok)) (k : Nat) :
    (runPasses q src duis)[k]? = duis[k]?.map fun d => runFile q d.1 d.2 src := by
  simp [runPasses]

/-- in particular: the same dui gives the same result at any position of any sequence of passes -/
theorem pass_same_dui_same_result (q : Quirks) (src : List Char) (pre pre' : List (List (List Char) × List Tok))
    (d : List (List Char) × List Tok) :
    (runPasses q src (pre ++ [d]))[pre.length]? = (runPasses q src (pre' ++ [d]))[pre'.length]? := by
  simp [runPasses]

/-! ### function-like macros (audit M4) -/

/-- **function-like macro replacement = simultaneous parameter substitution**: for a table whose replacement lists contain no
macro name and no `#` (`flatBodies`; macros may be object- or function-like), an invocation `t ( args )` of a non-variadic
function-like macro with the right number of arguments, none of which contains a macro name, is replaced by the replacement list
with every parameter substituted by its argument; the tokens after the invocation are processed independently. -/
theorem expand_function_macro_eq_subst (q : Quirks) (ms : List Macro) (hf : flatBodies ms = true) (t lp : XTok) (m : Macro)
    (ps : List Tok) (rest1 rest2 : List XTok) (args : List (List XTok))
    (htn : isName t.s = true) (htb : t.blue = false) (hl : lookup ms t.s = some m) (hps : m.params = some ps)
    (hnv : m.variadic = false) (hne : ps.length ≠ 0) (hva : ps.contains (tokS "__VA_ARGS__") = false) (hlp : lp.s = ['('])
    (hpa : parseArgs rest1 = some (args, rest2)) (hlen : args.length = ps.length)
    (hargs : ∀ a ∈ args, ∀ x ∈ a, lookup ms x.s = none) :
    expand q ms [] (t :: lp :: rest1) = (expand q ms [] rest2).map (substParams ps args m.body ++ ·) :=
  expand_fn_flat q ms hf t lp m ps rest1 rest2 args htn htb hl hps hnv hne hva hlp hpa hlen hargs

/-- the hypotheses are met by `#define MAX(a,b) ( a > b ? a : b )` and the invocation `MAX ( x , 3 ) ;` -/
example :
    let mx : Macro := ⟨"MAX".toList, some ["a".toList, "b".toList], false,
      ["(", "a", ">", "b", "?", "a", ":", "b", ")"].map String.toList⟩
    let tk (s : String) : XTok := ⟨s.toList, false⟩
    expand Quirks.code [mx] [] (tk "MAX" :: tk "(" :: [tk "x", tk ",", tk "3", tk ")", tk ";"]) =
      (expand Quirks.code [mx] [] [tk ";"]).map
        (substParams ["a".toList, "b".toList] [[tk "x"], [tk "3"]] mx.body ++ ·) :=
  expand_function_macro_eq_subst Quirks.code _ (by decide) _ _ _ _ _ _ _ (by decide) (by decide) (by decide) (by decide) (by decide)
    (by decide) (by decide) (by decide) (by decide) (by decide) (by decide)

/-! ### -D / -U -/

/-- **-D is applied**: every piece of `Settings::userDefines` (`-D`) whose name is not undefined by `-U` is a defined macro
when the file starts (createDUI + the `dui.defines` loop), whatever the configuration adds. -/
theorem D_applied (ud cfg : List Char) (undefs : List Tok) (ms : List Macro) (d : List Char)
    (hok : entriesOK (duiDefines ud cfg) = true) (hd : d ∈ splitcfg ud ['1']) (hnu : undefs.contains (defName d) = false)
    (h : initMacros (duiDefines ud cfg) undefs = .ok ms) : (lookup ms (defName d)).isSome = true :=
  initFrom_defines undefs (duiDefines ud cfg) [] ms d hok (by simp [duiDefines, hd]) hnu h

/-- **-U is applied**: a name given with `-U` is defined neither when the file starts nor after any sequence of lines
(`#define` of such a name is ignored).  The statement is about runs that do not stop with an error (`.ok`): when a line fails
(`#error`, an `#include` — outside the model —, a malformed `#define`) simplecpp clears its output and the theorem says nothing. -/
theorem U_applied (q : Quirks) (defines : List (List Char)) (undefs : List Tok) (x : Tok) (hx : undefs.contains x = true)
    (hok : entriesOK defines = true) (ms : List Macro) (h0 : initMacros defines undefs = .ok ms)
    (lines : List (List LTok)) (st' : PState) (h : runLines q undefs ⟨ms, [], []⟩ lines = .ok st') :
    lookup st'.macros x = none :=
  runLines_undef q undefs x hx lines ⟨ms, [], []⟩ st' (initFrom_undef undefs x hx defines [] ms hok rfl h0) h

example : entriesOK (duiDefines "A=1;B;f(x)=x".toList "C=2".toList) = true := by decide

/-- without `entriesOK` the statement fails: the entry `A B=1` is looked up as `A B` in the `-U` set but defines `A` -/
theorem U_applied_counterexample :
    ∃ ms, initMacros ["A B=1".toList] ["A".toList] = .ok ms ∧ (lookup ms "A".toList).isSome = true := by
  exact ⟨_, rfl, by decide⟩

end Cppcheck.PPMacro

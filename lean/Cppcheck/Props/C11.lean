import Cppcheck.Proofs.PPCond
import Cppcheck.Proofs.PPMacro
/-
C11 — property theorems (preprocessing matches a conforming preprocessor), part 1: the `#if` evaluator.

Model under the theorems (Cppcheck/Model/PPCond.lean): `evalIf` = the loop of simplecpp::preprocess that replaces
`defined X` / `defined ( X )`, followed by `evaluate` (simplifyName, simplifyNumbers, TokenList::constFold with its passes), a
copy of externals/simplecpp/simplecpp.cpp on token spellings.  Specification: `value` (C17 6.10.1p4 / 6.6 / 6.5 on intmax_t and
uintmax_t, short circuit, `defined`, remaining identifiers 0) on expression trees `E`; `print` = tokens with the minimal
parentheses of the C grammar, `printPF` = every binary / conditional operand parenthesised.

The full-strength statement  "for every tree with a value, simplecpp evaluates its printed form to that value"  is FALSE of the
code; each `ifeval_counterexample_*` below is a proved witness (replayed on the real simplecpp and on gcc by the check, recorded
as known findings F11a–F11g).  What holds is `ifeval_eq_spec_paren`.
-/
namespace Cppcheck.PPCond

instance : DecidableEq (Except Err Int)
  | .ok a, .ok b => if h : a = b then isTrue (by rw [h]) else isFalse (by intro e; injection e with e; exact h e)
  | .error a, .error b => if h : a = b then isTrue (by rw [h]) else isFalse (by intro e; injection e with e; exact h e)
  | .ok _, .error _ => isFalse (by intro e; cases e)
  | .error _, .ok _ => isFalse (by intro e; cases e)

/-- no macro is defined -/
def noDef : Tok → Bool := fun _ => false

def L (n : Nat) : E := .lit ⟨10, n, false, 0⟩

/-- The full-strength statement (for the record; refuted below).  It is deliberately the WEAKER form — a non-zero value may be
answered by any non-zero value, only the branch taken has to agree — so its refutation is the stronger result;
`ifeval_eq_spec_paren` proves exact equality of the value on its class. -/
def IfEvalEqSpec : Prop :=
  ∀ (e : E) (v : Val), value noDef e = some v → evalIf noDef (print e) = .ok v.v ∨ (v.v ≠ 0 ∧ ∃ w, w ≠ 0 ∧ evalIf noDef (print e) = .ok w)

/-- **Main theorem (partial).**  For every expression tree — arbitrary depth — whose literals are decimal, unsuffixed and
representable in intmax_t (`plainLits`), whose unary operators are applied to literals / `defined` / identifiers or to
parenthesised compound expressions and whose unary minus operands are positive (`unaryOk`), whose identifiers are identifiers
(`wfNames`) and whose strict evaluation (every operand evaluated, every intermediate result representable) is defined with
result `v`: simplecpp evaluates the fully parenthesised spelling to `v`, and `v` is the value C17 6.10.1 gives the tree. -/
theorem ifeval_eq_spec_paren (isDef : Tok → Bool) (e : E) (v : Int)
    (hw : wfNames e = true) (hl : plainLits e = true) (hu : unaryOk isDef e = true) (hv : valueStrict isDef e = some v) :
    evalIf isDef (printPF e) = .ok v ∧ value isDef e = some ⟨v, false⟩ :=
  ⟨evalIf_printPF isDef e v hw ⟨hv, hl, hu⟩, (value_of_strict isDef e v hl hv).1⟩

/-- the hypotheses are satisfiable by a non-trivial tree: `! defined ( A ) && ( ( 3 + 4 ) * 2 > 13 ? 1 : 0 )` -/
example :
    let e : E := .bin .land (.un .not (.defd "A".toList true))
      (.cond (.bin .gt (.bin .mul (.bin .add (L 3) (L 4)) (L 2)) (L 13)) (L 1) (L 0))
    wfNames e = true ∧ plainLits e = true ∧ unaryOk noDef e = true ∧ valueStrict noDef e = some 1 := by decide

/-! ### counterexamples to the full statement (each is a known finding) -/

/-- F11a: `1 || 0 && 0` is 1 in C, simplecpp folds `||` and `&&` in one left-to-right pass: 0 -/
theorem ifeval_counterexample_or_and :
    value noDef (.bin .lor (L 1) (.bin .land (L 0) (L 0))) = some ⟨1, false⟩ ∧
    evalIf noDef (print (.bin .lor (L 1) (.bin .land (L 0) (L 0)))) = .ok 0 := by decide

/-- F11b: `2 == 1 < 1` is `2 == (1 < 1)` = 0 in C, simplecpp: `(2 == 1) < 1` = 1 -/
theorem ifeval_counterexample_eq_rel :
    value noDef (.bin .eq (L 2) (.bin .lt (L 1) (L 1))) = some ⟨0, false⟩ ∧
    evalIf noDef (print (.bin .eq (L 2) (.bin .lt (L 1) (L 1)))) = .ok 1 := by decide

/-- F11c: `! ! 1` is 1, simplecpp leaves `! 0` unfolded and answers 0; `- ( 1 - 2 )` is 1, simplecpp builds the spelling `--1` -/
theorem ifeval_counterexample_unary :
    value noDef (.un .not (.un .not (L 1))) = some ⟨1, false⟩ ∧
    evalIf noDef (print (.un .not (.un .not (L 1)))) = .ok 0 ∧
    value noDef (.un .neg (.bin .sub (L 1) (L 2))) = some ⟨1, false⟩ ∧
    evalIf noDef (print (.un .neg (.bin .sub (L 1) (L 2)))) = .ok 0 := by decide

/-- F11d: `- 1 < 0u` is 0 (the comparison is made in uintmax_t), simplecpp: 1 -/
theorem ifeval_counterexample_unsigned :
    value noDef (.bin .lt (.un .neg (L 1)) (.lit ⟨10, 0, true, 0⟩)) = some ⟨0, false⟩ ∧
    evalIf noDef (print (.bin .lt (.un .neg (L 1)) (.lit ⟨10, 0, true, 0⟩))) = .ok 1 := by decide

/-- F11e: `! 00` is 1, simplecpp compares the spelling with "0": 0 -/
theorem ifeval_counterexample_literal :
    value noDef (.un .not (.lit ⟨8, 0, false, 0⟩)) = some ⟨1, false⟩ ∧
    evalIf noDef (print (.un .not (.lit ⟨8, 0, false, 0⟩))) = .ok 0 := by decide

/-- F11f: `1 ? 2 : 1 / 0` is 2 (the third operand is not evaluated), simplecpp reports a division by zero -/
theorem ifeval_counterexample_unevaluated :
    value noDef (.cond (L 1) (L 2) (.bin .div (L 1) (L 0))) = some ⟨2, false⟩ ∧
    evalIf noDef (print (.cond (L 1) (L 2) (.bin .div (L 1) (L 0)))) = .error .div0 := by decide

/-- F11g: `1 ? 0 : 0 ? 3 : 1` is 0, simplecpp continues with `0 ? 3 : 1` = 1 -/
theorem ifeval_counterexample_chain :
    value noDef (.cond (L 1) (L 0) (.cond (L 0) (L 3) (L 1))) = some ⟨0, false⟩ ∧
    evalIf noDef (print (.cond (L 1) (L 0) (.cond (L 0) (L 3) (L 1)))) = .ok 1 := by decide

/-- the full-strength statement is refuted -/
theorem ifeval_eq_spec_counterexample : ¬ IfEvalEqSpec := by
  intro h
  have := h (.bin .lor (L 1) (.bin .land (L 0) (L 0))) ⟨1, false⟩ ifeval_counterexample_or_and.1
  rw [ifeval_counterexample_or_and.2] at this
  rcases this with h1 | ⟨_, w, hw, h2⟩
  · exact absurd h1 (by decide)
  · injection h2 with h2; exact hw h2.symm

end Cppcheck.PPCond

/-
Part 2: macro replacement, conditional inclusion, -D / -U  (model: Cppcheck/Model/PPMacro.lean)
-/
namespace Cppcheck.PPMacro
open Cppcheck.PPCond

/-! ### termination of macro replacement

`expand` is defined by well-founded recursion on the lexicographic measure `(free ms dis, ts.length)`:
`free ms dis` = number of macros of the table whose replacement is not being rescanned.  Lean accepts the definition only with
the three facts below (they are the `decreasing_by` obligations of the definition; the axiom audit of the check also covers
`Cppcheck.PPMacro.expand` itself). -/

/-- rescanning the replacement of `n` happens with `n` disabled: the first component of the measure decreases -/
theorem expand_terminates_rescan {ms : List Macro} {dis : List Tok} {n : Tok} {m : Macro}
    (hl : lookup ms n = some m) (hd : dis.contains n = false) : free ms (n :: dis) < free ms dis :=
  free_lt hl hd

/-- the arguments of an invocation and the tokens after it are shorter than the list that starts with the invocation -/
theorem expand_terminates_args {l : List XTok} {args : List (List XTok)} {rest : List XTok}
    (h : parseArgs l = some (args, rest)) : (∀ a ∈ args, a.length ≤ l.length) ∧ rest.length < l.length :=
  parseArgs_len h

/-- the measure is a well-founded order -/
theorem expand_terminates_wf : WellFounded (Prod.Lex (fun a b : Nat => a < b) (fun a b : Nat => a < b)) :=
  (Prod.lex ⟨_, Nat.lt_wfRel.wf⟩ ⟨_, Nat.lt_wfRel.wf⟩).wf

/-- **object-like macro replacement = substitution**: for a table of object-like macros whose replacement lists contain no
macro name and no `#` (`flatTable`), the replacement of any token list is the list with every macro name substituted by its
replacement list (C06: a macro invocation and its expansion are the same token sequence). -/
theorem expand_object_macro_eq_subst (q : Quirks) (ms : List Macro) (hf : flatTable ms = true) (ts : List XTok)
    (hb : ∀ t ∈ ts, t.blue = false) : expand q ms [] ts = .ok (ts.flatMap (substTok ms)) :=
  expand_flat q ms hf ts hb

example : flatTable [⟨"N".toList, none, false, ["4".toList, "+".toList, "x".toList]⟩, ⟨"T".toList, none, false, ["int".toList]⟩] = true := by
  decide

/-! ### conditional inclusion -/

/-- **the ifstates machine of simplecpp::preprocess implements the group semantics of 6.10.1**: for every tree of nested
if-sections (any nesting depth, any number of `#elif` groups, optional `#else`), the lines the machine keeps are exactly the
lines of the groups the standard selects. -/
theorem included_lines_eq_spec (t : Items) : runC [] t.flat = some (t.incl true) := by
  have := items_run t [] []
  simpa [runC, top] using this

/-- the same inside any enclosing conditional state and followed by any continuation -/
theorem included_lines_eq_spec_nested (t : Items) (st : IfStack) (k : List CLine) :
    runC st (t.flat ++ k) = (runC st k).map (t.incl (top st == .tru) ++ ·) :=
  items_run t st k

example : (Items.cons (.sect false (.cons (.text 0) .nil) (.elif true (.cons (.text 1) .nil) (.els (.cons (.text 2) .nil))))
    (.cons (.text 3) .nil)).incl true = [1, 3] := by decide

/-- **the directive loop is that machine** (audit M1): on ANY list of lines, from any state, the text lines the directive loop
of `runFile` keeps (`keptLines`: its `top st.ifs == tru` test, the state threaded by `stepLine` itself — `#define/#undef` in
skipped groups ignored, conditions consulted through `condOf` only) are exactly the lines `runC` keeps on the skeleton of the run
(`skelLines`: per line `#if.. c` / `#elif c` with `c` the value `condOf` gives at that point, `#else`, `#endif`, text). -/
theorem runLines_included_eq_runC (q : Quirks) (undefs : List Tok) (lines : List (List LTok)) (st : PState) (i : Nat)
    (sk : List CLine) (k : List Nat) (h1 : skelLines q undefs st i lines = .ok sk) (h2 : keptLines q undefs st i lines = .ok k) :
    runC st.ifs sk = some k :=
  runLines_kept_eq_runC q undefs lines st i sk k h1 h2

/-- hence: when the skeleton of a run is the flattening of a tree of if-sections, the directive loop keeps exactly the lines the
group semantics of 6.10.1 selects -/
theorem runLines_included_lines_eq_spec (q : Quirks) (undefs : List Tok) (lines : List (List LTok)) (st : PState) (i : Nat)
    (t : Items) (k : List Nat) (hst : st.ifs = []) (h1 : skelLines q undefs st i lines = .ok t.flat)
    (h2 : keptLines q undefs st i lines = .ok k) : k = t.incl true := by
  have a := runLines_kept_eq_runC q undefs lines st i t.flat k h1 h2
  rw [hst, included_lines_eq_spec] at a
  injection a with a
  exact a.symm

/-- **a pass has no memory**: the result of the k-th pass over a source is a function of (source, dui of that pass) only — whatever
passes were made before.  Trivial for the pure model (that is the point: it is the specification of "no state survives a pass");
its force is the tie `preprocess-repeated-passes`, which runs the real simplecpp::preprocess repeatedly over ONE raw token list
(whose `Token::nextcond` skip chain is written by earlier passes) and compares every pass with `runPasses`. -/
theorem pass_independent_of_history (q : Quirks) (src : List Char) (duis : List (List (List Char) × List Tok)) (k : Nat) :
    (runPasses q src duis)[k]? = duis[k]?.map fun d => runFile q d.1 d.2 src := by
  simp [runPasses]

/-- in particular: the same dui gives the same result at any position of any sequence of passes -/
theorem pass_same_dui_same_result (q : Quirks) (src : List Char) (pre pre' : List (List (List Char) × List Tok))
    (d : List (List Char) × List Tok) :
    (runPasses q src (pre ++ [d]))[pre.length]? = (runPasses q src (pre' ++ [d]))[pre'.length]? := by
  simp [runPasses]

/-! ### function-like macros (audit M4) -/

/-- **function-like macro replacement = simultaneous parameter substitution**: for a table whose replacement lists contain no
macro name and no `#` (`flatBodies`; macros may be object- or function-like), an invocation `t ( args )` of a non-variadic
function-like macro with the right number of arguments, none of which contains a macro name, is replaced by the replacement list
with every parameter substituted by its argument; the tokens after the invocation are processed independently. -/
theorem expand_function_macro_eq_subst (q : Quirks) (ms : List Macro) (hf : flatBodies ms = true) (t lp : XTok) (m : Macro)
    (ps : List Tok) (rest1 rest2 : List XTok) (args : List (List XTok))
    (htn : isName t.s = true) (htb : t.blue = false) (hl : lookup ms t.s = some m) (hps : m.params = some ps)
    (hnv : m.variadic = false) (hne : ps.length ≠ 0) (hva : ps.contains (tokS "__VA_ARGS__") = false) (hlp : lp.s = ['('])
    (hpa : parseArgs rest1 = some (args, rest2)) (hlen : args.length = ps.length)
    (hargs : ∀ a ∈ args, ∀ x ∈ a, lookup ms x.s = none) :
    expand q ms [] (t :: lp :: rest1) = (expand q ms [] rest2).map (substParams ps args m.body ++ ·) :=
  expand_fn_flat q ms hf t lp m ps rest1 rest2 args htn htb hl hps hnv hne hva hlp hpa hlen hargs

/-- the hypotheses are met by `#define MAX(a,b) ( a > b ? a : b )` and the invocation `MAX ( x , 3 ) ;` -/
example :
    let mx : Macro := ⟨"MAX".toList, some ["a".toList, "b".toList], false,
      ["(", "a", ">", "b", "?", "a", ":", "b", ")"].map String.toList⟩
    let tk (s : String) : XTok := ⟨s.toList, false⟩
    expand Quirks.code [mx] [] (tk "MAX" :: tk "(" :: [tk "x", tk ",", tk "3", tk ")", tk ";"]) =
      (expand Quirks.code [mx] [] [tk ";"]).map
        (substParams ["a".toList, "b".toList] [[tk "x"], [tk "3"]] mx.body ++ ·) :=
  expand_function_macro_eq_subst Quirks.code _ (by decide) _ _ _ _ _ _ _ (by decide) (by decide) (by decide) (by decide) (by decide)
    (by decide) (by decide) (by decide) (by decide) (by decide) (by decide)

/-- **nested invocations in arguments** (C17 6.10.3.1): an invocation of a function-like macro in any context `dis` (the macros
whose replacement is being rescanned) is replaced by its replacement list with every parameter substituted by its argument, where
each argument has been completely macro replaced ON ITS OWN in the context of the caller: `argCtx q t.s dis = dis` for the code
and for the standard — the invocation being replaced contributes nothing, in particular not its own name, so `F ( G ( F ( x ) ) )`
expands all three.  Hypotheses: the replacement list contains no macro name and no `#`, the macro is not variadic, the argument
count fits, the replaced arguments are inert (their tokens name no macro or are painted). -/
theorem expand_function_macro_nested (q : Quirks) (ms : List Macro) (t lp : XTok) (m : Macro) (ps : List Tok) (dis : List Tok)
    (rest1 rest2 : List XTok) (args expd : List (List XTok))
    (hbody : ∀ x ∈ m.body, lookup ms x = none ∧ (x != ['#']) = true)
    (htn : isName t.s = true) (htb : t.blue = false) (hl : lookup ms t.s = some m) (hps : m.params = some ps)
    (hnv : m.variadic = false) (hne : ps.length ≠ 0) (hva : ps.contains (tokS "__VA_ARGS__") = false) (hlp : lp.s = ['('])
    (hpa : parseArgs rest1 = some (args, rest2)) (hlen : args.length = ps.length) (hdis : dis.contains t.s = false)
    (hel : expd.length = args.length)
    (hexp : ∀ i (h : i < args.length),
      (if plainUse ps m.body (min i (ps.length - 1)) then expand q ms (argCtx q t.s dis) args[i] else .ok args[i]) =
        .ok (expd[i]'(by omega)))
    (hin : ∀ e ∈ expd, ∀ x ∈ e, Inert ms x) :
    expand q ms dis (t :: lp :: rest1) = (expand q ms dis rest2).map (substParams ps expd m.body ++ ·) :=
  expand_fn_nested q ms t lp m ps dis rest1 rest2 args expd hbody htn htb hl hps hnv hne hva hlp hpa hlen hdis hel hexp hin

/-! #### the indirect pattern `INC ( DBL ( INC ( 3 ) ) )` -/

def mINC : Macro := ⟨"INC".toList, some ["x".toList], false, ["(", "x", "+", "1", ")"].map String.toList⟩
def mDBL : Macro := ⟨"DBL".toList, some ["y".toList], false, ["(", "y", "*", "2", ")"].map String.toList⟩
def tk (s : String) : XTok := ⟨s.toList, false⟩
def tb (s : String) : XTok := ⟨s.toList, true⟩
/-- the variant in which the arguments inherit the name of the invocation they belong to -/
def qInherit : Quirks := { Quirks.code with argInherit := true }

theorem body_INC : ∀ x ∈ mINC.body, lookup [mINC, mDBL] x = none ∧ (x != ['#']) = true := by decide
theorem body_DBL : ∀ x ∈ mDBL.body, lookup [mINC, mDBL] x = none ∧ (x != ['#']) = true := by decide

/-- one step: an invocation of INC / DBL whose single argument `a` is replaced to the inert list `e` in the caller's context -/
theorem step1 (q : Quirks) (m : Macro) (nm : String) (p : String) (dis : List Tok) (a e : List XTok) (rest2 : List XTok)
    (hm : m = mINC ∧ nm = "INC" ∧ p = "x" ∨ m = mDBL ∧ nm = "DBL" ∧ p = "y")
    (hpa : parseArgs (a ++ [tk ")"]) = some ([a], rest2)) (hdis : dis.contains nm.toList = false)
    (he : expand q [mINC, mDBL] (argCtx q nm.toList dis) a = .ok e) (hin : ∀ x ∈ e, Inert [mINC, mDBL] x) :
    expand q [mINC, mDBL] dis (tk nm :: tk "(" :: (a ++ [tk ")"])) =
      (expand q [mINC, mDBL] dis rest2).map (substParams [p.toList] [e] m.body ++ ·) := by
  rcases hm with ⟨rfl, rfl, rfl⟩ | ⟨rfl, rfl, rfl⟩
  · exact expand_fn_nested q _ _ _ mINC ["x".toList] dis _ rest2 [a] [e] body_INC (by decide) rfl (by decide) rfl rfl (by decide)
      (by decide) rfl hpa rfl hdis rfl
      (by intro i h; have : i = 0 := by simpa using h
          subst this; simpa [plainUse, plainUseAux, nextIsPaste, mINC, tk] using he)
      (by intro x hx; simp at hx; subst hx; exact hin)
  · exact expand_fn_nested q _ _ _ mDBL ["y".toList] dis _ rest2 [a] [e] body_DBL (by decide) rfl (by decide) rfl rfl (by decide)
      (by decide) rfl hpa rfl hdis rfl
      (by intro i h; have : i = 0 := by simpa using h
          subst this; simpa [plainUse, plainUseAux, nextIsPaste, mDBL, tk] using he)
      (by intro x hx; simp at hx; subst hx; exact hin)

/-- the code (and the standard): all three invocations are replaced -/
theorem expand_indirect_nesting :
    expand Quirks.code [mINC, mDBL] [] ([tk "INC", tk "(", tk "DBL", tk "(", tk "INC", tk "(", tk "3", tk ")", tk ")", tk ")"]) =
      .ok (["(", "(", "(", "3", "+", "1", ")", "*", "2", ")", "+", "1", ")"].map tk) := by
  have inert : ∀ (l : List String), (∀ s ∈ l, lookup [mINC, mDBL] s.toList = none) → ∀ x ∈ l.map tk, Inert [mINC, mDBL] x := by
    intro l h x hx; simp only [List.mem_map] at hx; obtain ⟨s, hs, rfl⟩ := hx; exact Or.inl (h s hs)
  have s0 : expand Quirks.code [mINC, mDBL] [] [tk "3"] = .ok [tk "3"] := expand_inert _ _ _ _ (inert ["3"] (by decide))
  have s1 := step1 Quirks.code mINC "INC" "x" [] [tk "3"] [tk "3"] [] (Or.inl ⟨rfl, rfl, rfl⟩) (by decide) (by decide) s0
    (inert ["3"] (by decide))
  have e1 : expand Quirks.code [mINC, mDBL] [] [] = .ok [] := by rw [expand]
  rw [e1] at s1
  have s2 := step1 Quirks.code mDBL "DBL" "y" [] [tk "INC", tk "(", tk "3", tk ")"] (["(", "3", "+", "1", ")"].map tk) []
    (Or.inr ⟨rfl, rfl, rfl⟩) (by decide) (by decide) (by simpa [argCtx, Quirks.code, substParams, argOf, indexOf, isName, mINC, tokOf, tk, Except.map] using s1)
    (inert _ (by decide))
  rw [e1] at s2
  have s3 := step1 Quirks.code mINC "INC" "x" [] [tk "DBL", tk "(", tk "INC", tk "(", tk "3", tk ")", tk ")"]
    (["(", "(", "3", "+", "1", ")", "*", "2", ")"].map tk) [] (Or.inl ⟨rfl, rfl, rfl⟩) (by decide) (by decide)
    (by simpa [argCtx, Quirks.code, substParams, argOf, indexOf, isName, mDBL, tokOf, tk, Except.map] using s2) (inert _ (by decide))
  rw [e1] at s3
  simpa [substParams, argOf, indexOf, isName, mINC, tokOf, tk, Except.map] using s3

/-- the inherited-set variant: the innermost `INC` is painted and stays a literal call -/
theorem expand_indirect_nesting_inherit :
    expand qInherit [mINC, mDBL] [] ([tk "INC", tk "(", tk "DBL", tk "(", tk "INC", tk "(", tk "3", tk ")", tk ")", tk ")"]) =
      .ok [tk "(", tk "(", tb "INC", tk "(", tk "3", tk ")", tk "*", tk "2", tk ")", tk "+", tk "1", tk ")"] := by
  have e1 : ∀ dis, expand qInherit [mINC, mDBL] dis [] = .ok [] := by intro dis; rw [expand]
  -- innermost: INC is disabled in the inherited context [DBL, INC]
  have s1 : expand qInherit [mINC, mDBL] ["DBL".toList, "INC".toList] [tk "INC", tk "(", tk "3", tk ")"] =
      .ok [tb "INC", tk "(", tk "3", tk ")"] := by
    rw [expand_blue qInherit _ _ (tk "INC") _ mINC (by decide) rfl (by decide) (by decide)]
    rw [expand_inert qInherit _ [tk "(", tk "3", tk ")"] _ (by
      intro x hx; simp at hx; rcases hx with rfl | rfl | rfl <;> exact Or.inl (by decide))]
    rfl
  have in1 : ∀ x ∈ [tb "INC", tk "(", tk "3", tk ")"], Inert [mINC, mDBL] x := by
    intro x hx; simp at hx
    rcases hx with rfl | rfl | rfl | rfl
    · exact Or.inr rfl
    · exact Or.inl (by decide)
    · exact Or.inl (by decide)
    · exact Or.inl (by decide)
  have s2 := step1 qInherit mDBL "DBL" "y" ["INC".toList] [tk "INC", tk "(", tk "3", tk ")"] [tb "INC", tk "(", tk "3", tk ")"] []
    (Or.inr ⟨rfl, rfl, rfl⟩) (by decide) (by decide) (by simpa [argCtx, qInherit] using s1) in1
  rw [e1] at s2
  have in2 : ∀ x ∈ [tk "(", tb "INC", tk "(", tk "3", tk ")", tk "*", tk "2", tk ")"], Inert [mINC, mDBL] x := by
    intro x hx; simp at hx
    rcases hx with rfl | rfl | rfl | rfl | rfl | rfl | rfl | rfl
    all_goals first
      | exact Or.inr rfl
      | exact Or.inl (by decide)
  have s3 := step1 qInherit mINC "INC" "x" [] [tk "DBL", tk "(", tk "INC", tk "(", tk "3", tk ")", tk ")"]
    [tk "(", tb "INC", tk "(", tk "3", tk ")", tk "*", tk "2", tk ")"] [] (Or.inl ⟨rfl, rfl, rfl⟩) (by decide) (by decide)
    (by simpa [argCtx, qInherit, substParams, argOf, indexOf, isName, mDBL, tokOf, tk, tb, Except.map] using s2) in2
  rw [e1] at s3
  simpa [substParams, argOf, indexOf, isName, mINC, tokOf, tk, tb, Except.map] using s3

/-- **counterexample for the inherited-set variant**: if the arguments of an invocation inherited the invocation's own name as
"already expanding", `INC ( DBL ( INC ( 3 ) ) )` would keep a literal `INC ( 3 )` — the token sequence differs from that of the
code / of C17 6.10.3.1 (`argCtx` adds nothing).  This is exactly the seeded change
`C06-macro-arg-preexpansion-inherits-expanding-set`. -/
theorem expand_arg_inherit_counterexample :
    (expand qInherit [mINC, mDBL] [] ([tk "INC", tk "(", tk "DBL", tk "(", tk "INC", tk "(", tk "3", tk ")", tk ")", tk ")"])).toOption.map
        (List.map (·.s)) ≠
    (expand Quirks.code [mINC, mDBL] [] ([tk "INC", tk "(", tk "DBL", tk "(", tk "INC", tk "(", tk "3", tk ")", tk ")", tk ")"])).toOption.map
        (List.map (·.s)) := by
  rw [expand_indirect_nesting_inherit, expand_indirect_nesting]
  decide

/-! ### -D / -U -/

/-- **-D is applied**: every piece of `Settings::userDefines` (`-D`) whose name is not undefined by `-U` is a defined macro
when the file starts (createDUI + the `dui.defines` loop), whatever the configuration adds. -/
theorem D_applied (ud cfg : List Char) (undefs : List Tok) (ms : List Macro) (d : List Char)
    (hok : entriesOK (duiDefines ud cfg) = true) (hd : d ∈ splitcfg ud ['1']) (hnu : undefs.contains (defName d) = false)
    (h : initMacros (duiDefines ud cfg) undefs = .ok ms) : (lookup ms (defName d)).isSome = true :=
  initFrom_defines undefs (duiDefines ud cfg) [] ms d hok (by simp [duiDefines, hd]) hnu h

/-- **-U is applied**: a name given with `-U` is defined neither when the file starts nor after any sequence of lines
(`#define` of such a name is ignored).  The statement is about runs that do not stop with an error (`.ok`): when a line fails
(`#error`, an `#include` — outside the model —, a malformed `#define`) simplecpp clears its output and the theorem says nothing. -/
theorem U_applied (q : Quirks) (defines : List (List Char)) (undefs : List Tok) (x : Tok) (hx : undefs.contains x = true)
    (hok : entriesOK defines = true) (ms : List Macro) (h0 : initMacros defines undefs = .ok ms)
    (lines : List (List LTok)) (st' : PState) (h : runLines q undefs ⟨ms, [], []⟩ lines = .ok st') :
    lookup st'.macros x = none :=
  runLines_undef q undefs x hx lines ⟨ms, [], []⟩ st' (initFrom_undef undefs x hx defines [] ms hok rfl h0) h

example : entriesOK (duiDefines "A=1;B;f(x)=x".toList "C=2".toList) = true := by decide

/-- without `entriesOK` the statement fails: the entry `A B=1` is looked up as `A B` in the `-U` set but defines `A` -/
theorem U_applied_counterexample :
    ∃ ms, initMacros ["A B=1".toList] ["A".toList] = .ok ms ∧ (lookup ms "A".toList).isSome = true := by
  exact ⟨_, rfl, by decide⟩

end Cppcheck.PPMacro

/-
C12 — configuration selection honours -D and -U and covers guarded code.

`getConfigsWith fl` is the copy of `Preprocessor::getConfigs`; `Flags.code` is the code as it is (since commit
4aed040 the stack depth is kept at `#else`), `Flags.old` the fold before that commit, `Flags.repaired` additionally
treats `#if !defined(X)` as `#ifndef X` (modelled repair of F16, not in the code).
-/
import Cppcheck.Proofs.Configs
namespace Cppcheck.Configs

/-- the property's coverage claim for one variant of the algorithm: in every file of the family every
    region is live in at least one extracted configuration -/
def EveryRegionCovered (fl : Flags) : Prop :=
  ∀ (inp : Inp) (t : Items), inFamily inp t = true →
    ∀ r ∈ t.regions, ∃ c ∈ getConfigsWith fl inp t.flatten, live c t r = true

/-- coverage for every tree accepted by the decidable predicate `safe fl` -/
theorem every_region_covered_of_safe (fl : Flags) (inp : Inp) (t : Items)
    (hf : inFamily inp t = true) (hs : safe fl t = true) :
    ∀ r ∈ t.regions, ∃ c ∈ getConfigsWith fl inp t.flatten, live c t r = true := by
  simp only [inFamily, Bool.and_eq_true, List.isEmpty_iff, decide_eq_true_eq, List.all_eq_true, Bool.not_eq_true'] at hf
  obtain ⟨⟨hud, hnd⟩, hall⟩ := hf
  have g : Good (St.init inp) := ⟨rfl, by intro e he; simp [St.init] at he, by simp [St.init]⟩
  have fr : FreshAll inp (St.init inp) t.macros := by
    intro x hx
    have h := hall x hx
    refine ⟨h.1.1, ?_, ?_, ?_⟩
    · rintro (⟨c, hc, hd⟩ | ⟨e, he, _⟩)
      · simp [St.init] at hc; subst hc; rw [defines_nil] at hd; exact absurd hd (by simp)
      · simp [St.init] at he
    · have := h.1.2; simpa [St.init] using this
    · simpa using h.2
  intro r hr
  obtain ⟨c, hc, _, he⟩ := walk_cover fl inp hud t (St.init inp) [] [] g hnd fr (by simp)
    ⟨[], by simp [St.init], by simp [sat]⟩ (by simpa [St.init, safe] using hs) r hr
  exact ⟨c, hc, by simpa [live] using he⟩

/-! ### the code as it is -/

/-- the §6 / F15 witness: `#ifdef M4 R0 #if defined(M7) R1 #if defined(M3) R2 #else R3 #endif #ifdef M5 R4 #endif #endif #endif` -/
def witnessF15 : Items :=
  .cond .ifdef ['M','4'] (.region 0 (.cond .ifDefined ['M','7'] (.region 1
    (.condElse .ifDefined ['M','3'] (.region 2 .done) (.region 3 .done)
      (.cond .ifdef ['M','5'] (.region 4 .done) .done))) .done)) .done

/-- the F16 witness: `#if !defined(M3) R0 #if defined(M1) R1 #endif #endif` -/
def witnessF16 : Items :=
  .cond .ifNotDefined ['M','3'] (.region 0 (.cond .ifDefined ['M','1'] (.region 1 .done) .done)) .done

/-- F15 (fixed by commit 4aed040): the full-strength statement was false of the fold before the commit -/
theorem region_uncovered_counterexample : ¬ EveryRegionCovered Flags.old := by
  intro h
  have := h {} witnessF15 (by decide) 4 (by decide)
  revert this
  decide

/-- F16: the full-strength statement is false of the code as it is (and was false before 4aed040 for this reason too) -/
theorem region_uncovered_counterexample_notdefined :
    ¬ EveryRegionCovered Flags.code ∧ ¬ EveryRegionCovered Flags.old := by
  constructor
  · intro h
    have := h {} witnessF16 (by decide) 1 (by decide)
    revert this
    decide
  · intro h
    have := h {} witnessF16 (by decide) 1 (by decide)
    revert this
    decide

/-- the code covers every region of every family tree accepted by `safe Flags.code` -/
theorem every_region_covered_partial (inp : Inp) (t : Items)
    (hf : inFamily inp t = true) (hs : safe Flags.code t = true) :
    ∀ r ∈ t.regions, ∃ c ∈ getConfigs inp t.flatten, live c t r = true :=
  every_region_covered_of_safe Flags.code inp t hf hs

example : inFamily {} witnessF15 = true ∧ safe Flags.old witnessF15 = false ∧ safe Flags.code witnessF15 = true := by decide
example : inFamily {} witnessF16 = true ∧ safe Flags.code witnessF16 = false := by decide
/-- a non-trivial inhabitant of both hypotheses: nesting depth 3, `#else` of an `#ifndef` inside, a later sibling -/
example : let t : Items := .cond .ifdef ['A'] (.condElse .ifndef ['B'] (.region 0 .done) (.region 1 .done)
      (.cond .ifDefined ['C'] (.region 2 (.condElse .ifdef ['D'] (.region 3 .done) (.region 4 .done) .done)) .done)) (.region 5 .done)
    inFamily {} t = true ∧ safe Flags.code t = true := by decide

/-- `safe` is necessary: a family tree (regions labelled apart) that `safe fl` rejects has a region which is live in
    no extracted configuration — for every variant of the algorithm -/
theorem region_uncovered_of_unsafe (fl : Flags) (inp : Inp) (t : Items) (hf : inFamily inp t = true)
    (hreg : t.regions.Nodup) (hs : safe fl t = false) :
    ∃ r ∈ t.regions, ∀ c ∈ getConfigsWith fl inp t.flatten, live c t r = false := by
  simp only [inFamily, Bool.and_eq_true, List.isEmpty_iff, decide_eq_true_eq, List.all_eq_true, Bool.not_eq_true'] at hf
  obtain ⟨⟨hud, hnd⟩, hall⟩ := hf
  have g : Good (St.init inp) := ⟨rfl, by intro e he; simp [St.init] at he, by simp [St.init]⟩
  have fr : FreshAll inp (St.init inp) t.macros := by
    intro x hx
    have h := hall x hx
    refine ⟨h.1.1, ?_, ?_, ?_⟩
    · rintro (⟨c, hc, hd⟩ | ⟨e, he, _⟩)
      · simp [St.init] at hc; subst hc; rw [defines_nil] at hd; exact absurd hd (by simp)
      · simp [St.init] at he
    · have := h.1.2; simpa [St.init] using this
    · simpa using h.2
  obtain ⟨r, hr, Y, _, hd, hcf⟩ := walk_uncov fl inp hud t (St.init inp) [] [] g hnd fr hreg (by simp)
    (by simp [St.init, names]) (by simpa [St.init, safe] using hs)
  refine ⟨r, hr, ?_⟩
  intro c hc
  have hne : r ∉ t.emit (defines c) := by
    cases hdef : defines c Y with
    | true =>
      rcases hcf c hc hdef with h | h
      · exact h
      · exact absurd (by simp [sat]) h
    | false =>
      intro he
      have := hd (defines c) he
      rw [hdef] at this; exact absurd this (by simp)
  simpa [live] using hne

/-- `safe fl` is exactly the class of family trees on which variant `fl` covers every region -/
theorem every_region_covered_iff_safe (fl : Flags) (inp : Inp) (t : Items) (hf : inFamily inp t = true)
    (hreg : t.regions.Nodup) :
    (∀ r ∈ t.regions, ∃ c ∈ getConfigsWith fl inp t.flatten, live c t r = true) ↔ safe fl t = true := by
  constructor
  · intro h
    cases hs : safe fl t with
    | true => rfl
    | false =>
      obtain ⟨r, hr, hno⟩ := region_uncovered_of_unsafe fl inp t hf hreg hs
      obtain ⟨c, hc, hl⟩ := h r hr
      rw [hno c hc] at hl; exact absurd hl (by simp)
  · exact every_region_covered_of_safe fl inp t hf

example : inFamily {} witnessF16 = true ∧ witnessF16.regions.Nodup ∧ safe Flags.code witnessF16 = false := by decide

/-! ### the repaired algorithm -/

theorem safe_repaired (t : Items) (h : ∀ m ∈ t.macros, okName m = true) : safe Flags.repaired t = true :=
  safeItems_repaired (fl := Flags.repaired) rfl rfl t [] [] (fun m hm => okName_ne_nil (h m hm)) (by decide)

/-- with the stack depth kept at `#else` and `#if !defined(X)` treated as `#ifndef X`, the full-strength
    statement holds -/
theorem every_region_covered_repaired : EveryRegionCovered Flags.repaired := by
  intro inp t hf
  apply every_region_covered_of_safe Flags.repaired inp t hf
  apply safe_repaired
  simp only [inFamily, Bool.and_eq_true, List.all_eq_true] at hf
  exact fun m hm => (hf.2 m hm).1.1

theorem family_names {inp : Inp} {t : Items} (hf : inFamily inp t = true) : ∀ m ∈ t.macros, m ≠ [] := by
  simp only [inFamily, Bool.and_eq_true, List.all_eq_true] at hf
  exact fun m hm => okName_ne_nil (hf.2 m hm).1.1

/-- **main theorem for the code as it is**: every region is covered in every family tree whose `#if !defined`
    conditionals contain regions only (what remains outside is F16) -/
theorem every_region_covered_fixElse (inp : Inp) (t : Items) (hf : inFamily inp t = true) (hl : ndLeaf t = true) :
    ∀ r ∈ t.regions, ∃ c ∈ getConfigs inp t.flatten, live c t r = true :=
  every_region_covered_of_safe Flags.code inp t hf
    (safeItems_fixElse (fl := Flags.code) rfl t [] [] (family_names hf) hl (by decide))

example : inFamily {} witnessF15 = true ∧ ndLeaf witnessF15 = true := by decide

/-! ### budget, -D, -U -/

/-- within the budget every extracted configuration is analysed (no `-D`) -/
theorem analysed_all_within_budget (o : CliOpts) (gc : List Str) (hud : o.userDefines = [])
    (hnil : [] ∈ gc) (hb : gc.length ≤ o.maxConfigs) : ∀ c ∈ gc, c ∈ analysed o gc := by
  intro c hc
  have hmap : ∀ l : List Str, l.map (currentConfig o.userDefines) = l := by
    intro l
    have : currentConfig ([] : Str) = id := funext currentConfig_nil
    rw [hud, this, List.map_id]
  unfold analysed configurations
  rw [hmap]
  by_cases h1 : o.maxConfigs > 1
  · simp only [h1, if_true]
    split
    · exact hc
    · rw [List.take_of_length_le hb]; exact hc
  · have hlen : gc.length ≤ 1 := by omega
    have : gc = [[]] := by
      match gc, hnil, hlen with
      | [x], hn, _ => simp at hn; rw [← hn]
    subst this
    have hc' : c = [] := by simpa using hc
    have hm : o.maxConfigs = 1 := by
      have : 1 ≤ o.maxConfigs := by simpa using hb
      omega
    simp [hud, hc', hm]

/-- every region that some extracted configuration reaches is analysed when the configurations fit `--max-configs` -/
theorem covered_within_budget (fl : Flags) (o : CliOpts) (d0 : List Str) (t : Items) (hud : o.userDefines = [])
    (hb : (getConfigsWith fl (o.inp d0) t.flatten).length ≤ o.maxConfigs) (r : Nat)
    (h : ∃ c ∈ getConfigsWith fl (o.inp d0) t.flatten, live c t r = true) :
    ∃ c ∈ analysed o (getConfigsWith fl (o.inp d0) t.flatten), live c t r = true := by
  obtain ⟨c, hc, hl⟩ := h
  exact ⟨c, analysed_all_within_budget o _ hud (nil_mem_getConfigs fl _ _) hb c hc, hl⟩

example : let o : CliOpts := { maxConfigsOption := 64 }
    (getConfigs (o.inp []) witnessF15.flatten).length ≤ o.maxConfigs := by decide

/-- with `-D X` every analysed configuration defines `X` (whatever the extracted configurations are) -/
theorem D_in_every_config (o : CliOpts) (X : Str) (h : defines o.userDefines X = true) (gc : List Str) :
    ∀ c ∈ analysed o gc, defines c X = true := by
  intro c hc
  simp only [analysed, List.mem_map] at hc
  obtain ⟨c', _, rfl⟩ := hc
  exact defines_currentConfig h

example : defines "A=1;B=2".toList "B".toList = true := by decide

/-- with `-U X` no extracted configuration defines `X` — for every directive list over well-formed names
    and every variant of the algorithm -/
theorem dirsOk_spec {ds : List Dir} (h : dirsOk ds = true) : ∀ k m, Dir.opn k m ∈ ds → okName m = true := by
  intro k m hm
  simp only [dirsOk, List.all_eq_true] at h
  exact h _ hm

theorem U_in_no_extracted_config (fl : Flags) (inp : Inp) (ds : List Dir)
    (hd : dirsOk ds = true) (X : Str) (h : X ∈ inp.undefs) :
    ∀ c ∈ getConfigsWith fl inp ds, defines c X = false :=
  fun c hc => getConfigs_no_undef fl inp ds (dirsOk_spec hd) c hc X h

/-- with `-U X` (and no `-D`) no analysed configuration defines `X` -/
theorem U_in_no_config (fl : Flags) (o : CliOpts) (d0 : List Str) (ds : List Dir)
    (hd : dirsOk ds = true) (hud : o.userDefines = []) (X : Str) (h : X ∈ o.undefs) :
    ∀ c ∈ analysed o (getConfigsWith fl (o.inp d0) ds), defines c X = false := by
  intro c hc
  have hmap : ∀ l : List Str, l.map (currentConfig o.userDefines) = l := by
    intro l
    have : currentConfig ([] : Str) = id := funext currentConfig_nil
    rw [hud, this, List.map_id]
  unfold analysed configurations at hc
  rw [hmap] at hc
  have key : ∀ c ∈ getConfigsWith fl (o.inp d0) ds, defines c X = false :=
    U_in_no_extracted_config fl (o.inp d0) ds hd X h
  by_cases h1 : o.maxConfigs > 1
  · simp only [h1, if_true] at hc
    split at hc
    · exact key c hc
    · exact key c (List.mem_of_mem_take hc)
  · simp only [h1, if_false, hud] at hc
    have : c = [] := by
      split at hc
      · simpa using hc
      · simpa using List.mem_of_mem_take hc
    subst this; exact defines_nil X

/-- with `-D` and the default budget (no `--force`, no `--max-configs`) only the user's configuration is
    analysed; it defines `X` for no `-U X` that is not also `-D`efined -/
theorem U_in_no_config_D (o : CliOpts) (gc : List Str) (hm : o.maxConfigs ≤ 1) (X : Str)
    (hX : defines o.userDefines X = false) : ∀ c ∈ analysed o gc, defines c X = false := by
  intro c hc
  have h1 : ¬ o.maxConfigs > 1 := by omega
  simp only [analysed, configurations, h1, if_false] at hc
  have : c = o.userDefines := by
    have hcc : currentConfig o.userDefines o.userDefines = o.userDefines := by
      unfold currentConfig
      split
      · rfl
      · have : (splitQ o.userDefines).filter (fun c => !(splitQ o.userDefines).contains c) = [] := by
          apply List.filter_eq_nil_iff.mpr
          intro a ha; simp [ha]
        show o.userDefines ++ List.flatMap (fun c => ';' :: c)
            (List.filter (fun c => !(splitQ o.userDefines).contains c) (splitQ o.userDefines)) = o.userDefines
        rw [this]; simp
    split at hc
    · simpa [hcc] using hc
    · obtain ⟨c', h', e⟩ := List.mem_map.mp hc
      have h'' : c' = o.userDefines := by simpa using List.mem_of_mem_take h'
      rw [← e, h'', hcc]
  rw [this]; exact hX

example : ({ userDefines := "A=1".toList } : CliOpts).maxConfigs ≤ 1 ∧ defines "A=1".toList "B".toList = false := by decide
example : dirsOk (.els :: .endif :: .opn .ifdef ['A'] :: witnessF15.flatten) = true := by decide

/-- the executable specification behind "coverage under -D / -U" (used by the check's P_impl through the driver):
    `r ∈ t.reach pos neg` iff some assignment that defines all of `pos` and none of `neg` contains region `r` -/
theorem reach_spec (t : Items) (r : Nat) (pos neg : List Str) (hc : ∀ x ∈ pos, x ∉ neg) :
    r ∈ t.reach pos neg ↔ ∃ d : Str → Bool, Agrees d pos neg ∧ r ∈ t.emit d :=
  ⟨reach_sound t r pos neg hc, fun ⟨d, ha, he⟩ => reach_complete d t r pos neg ha he⟩

example : witnessF16.reach [] [['M','3']] = [0, 1] ∧ witnessF16.reach [['M','3']] [] = [] := by decide

/-! ### the property end to end: coverage composed with the budget -/

/-- the number of extracted configurations is bounded by a syntactic measure of the file: one per `#if..` line and one
    per `#else` line besides the empty configuration (3 sibling `#ifdef`s give 4 configurations, not 2^3) — this is how
    "the number of guard combinations" of the property statement is read -/
theorem length_getConfigs_le (inp : Inp) (t : Items) : (getConfigs inp t.flatten).length ≤ 1 + 2 * t.macros.length :=
  length_getConfigsWith_le Flags.code inp t

/-- **headline theorem (partial: F16 excluded by `ndLeaf`)**: in every file of the family whose `#if !defined` conditionals
    contain regions only, every region is *analysed* in at least one configuration when the extracted configurations
    fit `--max-configs` -/
theorem every_region_analysed_partial (o : CliOpts) (d0 : List Str) (t : Items)
    (hf : inFamily (o.inp d0) t = true) (hl : ndLeaf t = true)
    (hb : (getConfigs (o.inp d0) t.flatten).length ≤ o.maxConfigs) :
    ∀ r ∈ t.regions, ∃ c ∈ analysed o (getConfigs (o.inp d0) t.flatten), live c t r = true := by
  intro r hr
  have hud : o.userDefines = [] := by
    simp only [inFamily, Bool.and_eq_true, List.isEmpty_iff] at hf
    exact hf.1.1
  exact covered_within_budget Flags.code o d0 t hud hb r (every_region_covered_fixElse (o.inp d0) t hf hl r hr)

/-- the same with the budget stated on the input: at most `(maxConfigs - 1) / 2` conditionals -/
theorem every_region_analysed_of_size_partial (o : CliOpts) (d0 : List Str) (t : Items)
    (hf : inFamily (o.inp d0) t = true) (hl : ndLeaf t = true)
    (hb : 1 + 2 * t.macros.length ≤ o.maxConfigs) :
    ∀ r ∈ t.regions, ∃ c ∈ analysed o (getConfigs (o.inp d0) t.flatten), live c t r = true :=
  every_region_analysed_partial o d0 t hf hl (Nat.le_trans (length_getConfigs_le _ t) hb)

example : let o : CliOpts := { maxConfigsOption := 64 }
    inFamily (o.inp []) witnessF15 = true ∧ ndLeaf witnessF15 = true ∧ 1 + 2 * witnessF15.macros.length ≤ o.maxConfigs := by decide
example : let o : CliOpts := {}
    inFamily (o.inp []) witnessF15 = true ∧ (getConfigs (o.inp []) witnessF15.flatten).length ≤ o.maxConfigs := by decide

/-- the full end-to-end statement (without `ndLeaf`) is false of the code: F16 -/
theorem every_region_analysed_counterexample :
    ¬ ∀ (o : CliOpts) (d0 : List Str) (t : Items), inFamily (o.inp d0) t = true →
        (getConfigs (o.inp d0) t.flatten).length ≤ o.maxConfigs →
        ∀ r ∈ t.regions, ∃ c ∈ analysed o (getConfigs (o.inp d0) t.flatten), live c t r = true := by
  intro h
  have := h {} [] witnessF16 (by decide) (by decide) 1 (by decide)
  revert this
  decide

/-! ### the duplicate-configuration purge (`TokenList::calculateHash`) -/

/-- the hash separates the token lists of the file's configurations -/
def HashInjOn (hash : List Nat → Nat) (content : Nat → List Nat) (t : Items) (cs : List Str) : Prop :=
  ∀ c ∈ cs, ∀ c' ∈ cs, hash (tokensOf content t c) = hash (tokensOf content t c') → tokensOf content t c = tokensOf content t c'

/-- if the hash is injective on the token lists of the file's configurations, the purge drops only configurations
    whose token list is analysed anyway: every configuration has a checked one with the very same code -/
theorem purge_keeps_code_partial (hash : List Nat → Nat) (content : Nat → List Nat) (t : Items) (cs : List Str)
    (hinj : HashInjOn hash content t cs) :
    ∀ c ∈ cs, ∃ c' ∈ checkedConfigs hash content t cs, tokensOf content t c' = tokensOf content t c := by
  intro c hc
  obtain ⟨c', hc', hk⟩ := dedupBy_key (fun c => hash (tokensOf content t c)) cs c hc
  exact ⟨c', hc', hinj c' (dedupByGo_sub _ cs [] c' hc') c hc hk⟩

/-- … hence every region that is live in some configuration is live in a checked one, when regions with different
    labels have different code (`content r = [r]`: the planted findings of the check) -/
theorem purge_keeps_coverage_partial (hash : List Nat → Nat) (t : Items) (cs : List Str)
    (hinj : HashInjOn hash (fun r => [r]) t cs) (r : Nat) (h : ∃ c ∈ cs, live c t r = true) :
    ∃ c ∈ checkedConfigs hash (fun r => [r]) t cs, live c t r = true := by
  obtain ⟨c, hc, hl⟩ := h
  obtain ⟨c', hc', he⟩ := purge_keeps_code_partial hash (fun r => [r]) t cs hinj c hc
  refine ⟨c', hc', ?_⟩
  have : t.emit (defines c') = t.emit (defines c) := by
    simpa [tokensOf, List.flatMap_singleton'] using he
  simpa [live, this] using hl

/-- an order-insensitive hash (here: the sum of the tokens, like an XOR of per-token values) purges a configuration whose
    code is a permutation of an earlier one: `#ifdef A R0 #else R1 #endif` with R0 = `1 2`, R1 = `2 1` — the configuration
    `A=A` is dropped and R0's code is analysed in no configuration -/
theorem purge_loses_region_counterexample :
    let t : Items := .condElse .ifdef ['A'] (.region 0 .done) (.region 1 .done) .done
    let content : Nat → List Nat := fun r => if r = 0 then [1, 2] else [2, 1]
    let cs := getConfigs {} t.flatten
    (∃ c ∈ cs, live c t 0 = true) ∧ ¬ ∃ c ∈ checkedConfigs List.sum content t cs, live c t 0 = true := by
  decide

example : HashInjOn (fun l => l.foldl (fun a x => 31 * a + x + 1) 7) (fun r => [r]) witnessF15 (getConfigs {} witnessF15.flatten) := by
  unfold HashInjOn; decide

/-- naming per convention: the main coverage theorem carries the excluding hypothesis `ndLeaf` -/
theorem every_region_covered_ndLeaf_partial (inp : Inp) (t : Items) (hf : inFamily inp t = true) (hl : ndLeaf t = true) :
    ∀ r ∈ t.regions, ∃ c ∈ getConfigs inp t.flatten, live c t r = true :=
  every_region_covered_fixElse inp t hf hl

/-- `live` (theorem side, `defines c`) is what the driver prints (`emit (effDefines inp c)`) for the family: without `-D`
    and for macros that are not `-U`ndefined the two notions of "defined" coincide -/
theorem live_spec_eq_driver (inp : Inp) (c x : Str) (hud : inp.userDefines = []) (hx : x ∉ inp.undefs) :
    effDefines inp c x = defines c x :=
  effDefines_eq_defines inp c x hud hx

end Cppcheck.Configs

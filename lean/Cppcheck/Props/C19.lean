import Cppcheck.Model.Cache
import Cppcheck.Proofs.Cache
import Cppcheck.Props.C18
import Cppcheck.Gen.HashInput
import Cppcheck.Gen.OptionUse
/-
C19 — incremental analysis is transparent across option changes.

An option change is an `edit` of the tree: it rewrites the `opts` component (the option values the analysis reads) and the
`toolinfo` string (what CppCheck::calculateHash renders of them) of every file.  C18's theorems therefore speak about
option histories as well; what is specific to C19 is *which* options reach toolinfo – decided over the tables the
translators extract from cli/cmdlineparser.cpp, lib/settings.cpp and CppCheck::calculateHash.
-/
namespace Cppcheck.Cache
open Cppcheck.Wire

variable {H S F : Type} [DecidableEq H]

/-! ## transparency across option changes -/

/-- **Transparency** for histories whose edits change options (and files): as C18, where `henc` now also says that on the
    history's inputs equal hash data implies equal option values (`View.opts`). -/
theorem option_history_transparent_generic (W : World H S F) (t0 : Tree) (evs : List Event)
    (hinj : HashInjOn W ((runsOf t0 evs).flatMap (·.2)))
    (henc : KeyFaithfulOn W.enc ((runsOf t0 evs).flatMap (·.2)))
    (hmac : ∀ r ∈ runsOf t0 evs, MacroFree W r.1 r.2)
    (hmap : ∀ r ∈ runsOf t0 evs, MapOK W.lk (r.2.map (·.path)))
    (hsum : ∀ r ∈ cachedRuns W ([], []) t0 evs, SummFree W r.1 r.2) :
    execCached W ([], []) t0 evs = execFresh W t0 evs :=
  history_transparent_generic W t0 evs hinj henc hmac hmap hsum

/-- with the key composition of the current code the only option-specific hypothesis is `hopt`: toolinfo determines the option values
    the analysis reads -/
theorem option_history_transparent_partial (W : World H S F) (t0 : Tree) (evs : List Event)
    (henc : W.enc = Encoding.fixed) (hlk : W.lk = .exactFirst)
    (hinj : HashInjOn W ((runsOf t0 evs).flatMap (·.2)))
    (hpath : ∀ r ∈ runsOf t0 evs, ∀ i ∈ r.2, PathPrefixed i)
    (hopt : OptsDetermined ((runsOf t0 evs).flatMap (·.2)))
    (hnd : ∀ r ∈ runsOf t0 evs, (r.2.map (·.path)).Nodup)
    (hmac : ∀ r ∈ runsOf t0 evs, MacroFree W r.1 r.2)
    (hsum : ∀ r ∈ cachedRuns W ([], []) t0 evs, SummFree W r.1 r.2) :
    execCached W ([], []) t0 evs = execFresh W t0 evs :=
  history_transparent_partial W t0 evs henc hlk hinj hpath hopt hnd hmac hsum

/-- an option history that satisfies the hypotheses: the option value is written into toolinfo, both option sets are analysed -/
example :
    let W := toyWorld Encoding.fixed .exactFirst
    let t0 : Tree := [(mkInput "t.c" [("%", 1, 1)] [] "opts= " "").withPathPrefix]
    let evs := [Event.run showAll, .edit (fun t => (setOptions "i".toList "opts=i".toList t).map FileInput.withPathPrefix), .run showAll]
    (∀ r ∈ runsOf t0 evs, ∀ i ∈ r.2, PathPrefixed i) ∧ OptsDetermined ((runsOf t0 evs).flatMap (·.2))
    ∧ (∀ r ∈ runsOf t0 evs, (r.2.map (·.path)).Nodup) ∧ (∀ r ∈ runsOf t0 evs, MacroFree W r.1 r.2)
    ∧ (∀ r ∈ cachedRuns W ([], []) t0 evs, SummFree W r.1 r.2)
    ∧ (execCached W ([], []) t0 evs).map (·.perFile.flatten.map (·.id)) = [[], ["inconclusive".toList]] := by
  refine ⟨by decide +kernel, by decide +kernel, by decide +kernel, by decide +kernel, by decide +kernel, by decide +kernel⟩

/-- an option that does not reach toolinfo: run, switch the option on (toolinfo unchanged), run – the cached run replays the
    result of the old option value, the fresh run reports the additional finding; the key composition plays no role -/
theorem uncovered_option_counterexample :
    let W := toyWorld Encoding.fixed .exactFirst
    let t0 : Tree := [(mkInput "t.c" [("%", 1, 1)] [] "opts" "").withPathPrefix]
    let evs := [Event.run showAll, .edit (fun t => (setOptions "i".toList "opts".toList t).map FileInput.withPathPrefix), .run showAll]
    ¬ OptsDetermined ((runsOf t0 evs).flatMap (·.2))
    ∧ ((execCached W ([], []) t0 evs).map (·.perFile.flatten.map (·.id)) = [[], []])
    ∧ ((execFresh W t0 evs).map (·.perFile.flatten.map (·.id)) = [[], ["inconclusive".toList]]) := by
  refine ⟨by decide +kernel, by decide +kernel, by decide +kernel⟩

/-! ## which options reach the key (tables regenerated from the source on every run) -/

/-- the fields CppCheck::calculateHash streams into toolinfo today -/
def currentHashFields : List String := hashFieldsOf Cppcheck.Gen.HashInput.toolinfoItems

/-- the options of the property's list whose handler writes something that is neither hashed, nor derived from a hashed field,
    nor re-applied after the cache, nor visible in the token stream, in the code as it is (after commit 40d3d51):
    `--language=` / `-x` sets the command line parser's `mEnforcedLang`, which becomes `file.lang()` – not a `Settings` member and
    not streamed into toolinfo (known finding `option-not-in-key:--language=`) -/
def knownUncovered : List String := ["--language="]

/-- **every other analysis option of the list reaches the key** the code computes today -/
theorem options_covered_partial :
    ∀ o ∈ Cppcheck.Gen.OptionUse.options, o.name ∉ knownUncovered →
      optionCovered currentHashFields Cppcheck.Gen.OptionUse.readSeverities o = true := by
  decide +kernel

/-- … and `--language=` does not -/
theorem options_covered_counterexample :
    (Cppcheck.Gen.OptionUse.options.filter fun o => !optionCovered currentHashFields Cppcheck.Gen.OptionUse.readSeverities o).map (·.name)
      = knownUncovered := by
  decide +kernel

/-- the toolinfo chain of the pinned commit (before 40d3d51) left all of these options outside the key -/
theorem options_covered_legacy_counterexample :
    (Cppcheck.Gen.OptionUse.options.filter fun o => !optionCovered legacyHashFields Cppcheck.Gen.OptionUse.readSeverities o).map (·.name)
      = ["--inconclusive", "-U", "--std=", "--language=", "--platform=", "--library=",
         "--enable=all", "--enable=unusedFunction", "--enable=missingInclude", "--disable=all", "--disable=missingInclude"] := by
  decide +kernel

/-- the table is the one the property's option list asks for (guards against an empty translation) -/
theorem option_table_nonempty :
    ∀ n ∈ ["--inconclusive", "-D", "-U", "-I", "--std=", "--language=", "--platform=", "--library=", "--suppress=",
           "--suppressions-list=", "--inline-suppr", "--max-configs=", "--check-level=", "--force", "--enable=warning", "--enable=style",
           "--enable=performance", "--enable=portability", "--enable=information", "--enable=unusedFunction", "--enable=missingInclude"],
      n ∈ Cppcheck.Gen.OptionUse.options.map (·.name) := by
  decide

end Cppcheck.Cache

import Cppcheck.Model.Cache
import Cppcheck.Proofs.Cache
import Cppcheck.Props.C18
import Cppcheck.Gen.HashInput
import Cppcheck.Gen.OptionUse
/-
C19 — incremental analysis is transparent across option changes.

An option change is an `edit` of the tree: it rewrites the `opts` component (the option values the analysis reads) and the
`toolinfo` string (what CppCheck::calculateHash renders of them) of every file.  C18's theorems therefore speak about
option histories as well; what is specific to C19 is *which* options reach toolinfo – decided over the tables the
translators extract from cli/cmdlineparser.cpp, lib/settings.cpp and CppCheck::calculateHash.
-/
namespace Cppcheck.Cache
open Cppcheck.Wire

variable {H S F : Type} [DecidableEq H]

/-! ## transparency across option changes -/

/-- **Transparency** for histories whose edits change options (and files): as C18, where `henc` now also says that on the
    history's inputs equal hash data implies equal option values (`View.opts`). -/
theorem option_history_transparent_generic (W : World H S F) (t0 : Tree) (evs : List Event)
    (hinj : HashInjOn W ((runsOf t0 evs).flatMap (·.2)))
    (henc : KeyFaithfulOn W.enc ((runsOf t0 evs).flatMap (·.2)))
    (hmac : ∀ r ∈ runsOf t0 evs, MacroFree W r.1 r.2)
    (hmap : ∀ r ∈ runsOf t0 evs, MapOK W.lk (r.2.map (·.path)))
    (hsum : ∀ r ∈ cachedRuns W ([], []) t0 evs, SummFree W r.1 r.2) :
    execCached W ([], []) t0 evs = execFresh W t0 evs :=
  history_transparent_generic W t0 evs hinj henc hmac hmap hsum

/-- with the key composition of the current code the only option-specific hypothesis is `hopt`: toolinfo determines the option values
    the analysis reads -/
theorem option_history_transparent_partial (W : World H S F) (t0 : Tree) (evs : List Event)
    (henc : W.enc = Encoding.fixed) (hlk : W.lk = .exactFirst)
    (hinj : HashInjOn W ((runsOf t0 evs).flatMap (·.2)))
    (hpath : ∀ r ∈ runsOf t0 evs, ∀ i ∈ r.2, PathPrefixed i)
    (hopt : OptsDetermined ((runsOf t0 evs).flatMap (·.2)))
    (hnd : ∀ r ∈ runsOf t0 evs, (r.2.map (·.path)).Nodup)
    (hmac : ∀ r ∈ runsOf t0 evs, MacroFree W r.1 r.2)
    (hsum : ∀ r ∈ cachedRuns W ([], []) t0 evs, SummFree W r.1 r.2) :
    execCached W ([], []) t0 evs = execFresh W t0 evs :=
  history_transparent_partial W t0 evs henc hlk hinj hpath hopt hnd hmac hsum

/-- an option history that satisfies the hypotheses: the option value is written into toolinfo, both option sets are analysed -/
example :
    let W := toyWorld Encoding.fixed .exactFirst
    let t0 : Tree := [(mkInput "t.c" [("%", 1, 1)] [] "opts= " "").withPathPrefix]
    let evs := [Event.run showAll, .edit (fun t => (setOptions "i".toList "opts=i".toList t).map FileInput.withPathPrefix), .run showAll]
    (∀ r ∈ runsOf t0 evs, ∀ i ∈ r.2, PathPrefixed i) ∧ OptsDetermined ((runsOf t0 evs).flatMap (·.2))
    ∧ (∀ r ∈ runsOf t0 evs, (r.2.map (·.path)).Nodup) ∧ (∀ r ∈ runsOf t0 evs, MacroFree W r.1 r.2)
    ∧ (∀ r ∈ cachedRuns W ([], []) t0 evs, SummFree W r.1 r.2)
    ∧ (execCached W ([], []) t0 evs).map (·.perFile.flatten.map (·.id)) = [[], ["inconclusive".toList]] := by
  refine ⟨by decide +kernel, by decide +kernel, by decide +kernel, by decide +kernel, by decide +kernel, by decide +kernel⟩

/-- an option that does not reach toolinfo: run, switch the option on (toolinfo unchanged), run – the cached run replays the
    result of the old option value, the fresh run reports the additional finding; the key composition plays no role -/
theorem uncovered_option_counterexample :
    let W := toyWorld Encoding.fixed .exactFirst
    let t0 : Tree := [(mkInput "t.c" [("%", 1, 1)] [] "opts" "").withPathPrefix]
    let evs := [Event.run showAll, .edit (fun t => (setOptions "i".toList "opts".toList t).map FileInput.withPathPrefix), .run showAll]
    ¬ OptsDetermined ((runsOf t0 evs).flatMap (·.2))
    ∧ ((execCached W ([], []) t0 evs).map (·.perFile.flatten.map (·.id)) = [[], []])
    ∧ ((execFresh W t0 evs).map (·.perFile.flatten.map (·.id)) = [[], ["inconclusive".toList]]) := by
  refine ⟨by decide +kernel, by decide +kernel, by decide +kernel⟩

/-! ## from the table to `hopt`: what is proved and what is not -/

/-- **one block at a time.** If two settings render equally before and after a block of the toolinfo chain (e.g. they differ only
    in the fields one option writes, and those are rendered by adjacent items), then equal toolinfo forces the block to render
    equally – contrapositive: changing what a covered option writes changes toolinfo, hence (no collision) the key. -/
theorem covered_block_determined (pre blk suf : List ToolItem) (sv sv' : SettingsView)
    (hp : renderToolinfo pre sv = renderToolinfo pre sv') (hs : renderToolinfo suf sv = renderToolinfo suf sv')
    (h : renderToolinfo (pre ++ (blk ++ suf)) sv = renderToolinfo (pre ++ (blk ++ suf)) sv')
    (hsome : (renderToolinfo (pre ++ (blk ++ suf)) sv).isSome = true) :
    renderToolinfo blk sv = renderToolinfo blk sv' :=
  render_block_cancel pre blk suf sv sv' hp hs h hsome

/-- settings for the witnesses below: everything off, `maxConfigsOption = mc`, `checkLevel = lvl`, user defines `ud`, the given addons -/
def svWitness (ud : String) (mc : Int) (lvl : Nat) (addons : List (List (String × Str))) : SettingsView :=
  { version := "2.21 dev".toList, product := [],
    sevs := [("warning", false), ("style", false), ("performance", false), ("portability", false), ("information", false)],
    bools := [("checkConfiguration", false), ("force", false), ("certainty:inconclusive", false),
              ("checks:unusedFunction", false), ("checks:missingInclude", false)],
    strs := [("userDefines", ud.toList), ("premiumArgs", []), ("standards.getC", "c11".toList), ("standards.getCPP", "c++20".toList),
             ("platform.toString", "native".toList)],
    ints := [("maxConfigsOption", mc)], enums := [("checkLevel", lvl)], addons := addons, dump := [], filePath := "a.c".toList,
    lists := [("userUndefs", []), ("libraries", [])] }

/-- the block lemma applied to the translated chain: `-DX` vs `-DY` (item 9 of the chain is `userDefines`) render equally before and
    after that item, so their toolinfos differ -/
example :
    let items := Cppcheck.Gen.HashInput.toolinfoItems
    let a := svWitness "X=1" 0 1 []
    let b := svWitness "Y=1" 0 1 []
    renderToolinfo (items.take 9) a = renderToolinfo (items.take 9) b
    ∧ renderToolinfo (items.drop 10) a = renderToolinfo (items.drop 10) b
    ∧ items = items.take 9 ++ ([.strField "userDefines"] ++ items.drop 10)
    ∧ renderToolinfo items a ≠ renderToolinfo items b := by
  refine ⟨by decide +kernel, by decide +kernel, by decide +kernel, by decide +kernel⟩

/-- **the chain as a whole is not uniquely decodable**: `--max-configs=11` at check level 0 and `--max-configs=1` at check level 1 with
    an addon named `0` render to the same toolinfo (no separator between `maxConfigsOption`, `checkLevel`, addon name/args and
    `premiumArgs`).  So `hopt` does not follow from `options_covered_partial` for arbitrary settings; addon names and `premiumArgs` are
    not options of the property's list and no command line over the listed options is known that collides. -/
theorem toolinfo_rendering_ambiguous :
    svWitness "" 11 0 [] ≠ svWitness "" 1 1 [[("name", ['0']), ("args", [])]]
    ∧ renderToolinfo Cppcheck.Gen.HashInput.toolinfoItems (svWitness "" 11 0 [])
        = renderToolinfo Cppcheck.Gen.HashInput.toolinfoItems (svWitness "" 1 1 [[("name", ['0']), ("args", [])]])
    ∧ (renderToolinfo Cppcheck.Gen.HashInput.toolinfoItems (svWitness "" 11 0 [])).isSome = true := by
  refine ⟨by decide +kernel, by decide +kernel, by decide +kernel⟩

/-! ## which options reach the key (tables regenerated from the source on every run) -/

/-- the fields CppCheck::calculateHash streams into toolinfo today -/
def currentHashFields : List String := hashFieldsOf Cppcheck.Gen.HashInput.toolinfoItems

/-- the options of the property's list whose handler writes something that is neither hashed, nor derived from a hashed field,
    nor re-applied after the cache, nor visible in the token stream, in the code as it is (after commit 40d3d51):
    `--language=` / `-x` sets the command line parser's `mEnforcedLang`, which becomes `file.lang()` – not a `Settings` member and
    not streamed into toolinfo (known finding `option-not-in-key:--language=`) -/
def knownUncovered : List String := ["--language="]

/-- **every other analysis option of the list reaches the key** the code computes today -/
theorem options_covered_partial :
    ∀ o ∈ Cppcheck.Gen.OptionUse.options, o.name ∉ knownUncovered →
      optionCovered currentHashFields Cppcheck.Gen.OptionUse.readSeverities o = true := by
  decide +kernel

/-- … and `--language=` does not -/
theorem options_covered_counterexample :
    (Cppcheck.Gen.OptionUse.options.filter fun o => !optionCovered currentHashFields Cppcheck.Gen.OptionUse.readSeverities o).map (·.name)
      = knownUncovered := by
  decide +kernel

/-- the toolinfo chain of the pinned commit (before 40d3d51) left all of these options outside the key -/
theorem options_covered_legacy_counterexample :
    (Cppcheck.Gen.OptionUse.options.filter fun o => !optionCovered legacyHashFields Cppcheck.Gen.OptionUse.readSeverities o).map (·.name)
      = ["--inconclusive", "-U", "--std=", "--language=", "--platform=", "--library=",
         "--enable=all", "--enable=unusedFunction", "--enable=missingInclude", "--disable=all", "--disable=missingInclude"] := by
  decide +kernel

/-- the table is the one the property's option list asks for (guards against an empty translation) -/
theorem option_table_nonempty :
    ∀ n ∈ ["--inconclusive", "-D", "-U", "-I", "--std=", "--language=", "--platform=", "--library=", "--suppress=",
           "--suppressions-list=", "--inline-suppr", "--max-configs=", "--check-level=", "--force", "--enable=warning", "--enable=style",
           "--enable=performance", "--enable=portability", "--enable=information", "--enable=unusedFunction", "--enable=missingInclude"],
      n ∈ Cppcheck.Gen.OptionUse.options.map (·.name) := by
  decide

end Cppcheck.Cache

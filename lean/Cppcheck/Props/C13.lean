import Cppcheck.Proofs.ExcFunnel
import Cppcheck.Gen.ExceptionFunnel
import Cppcheck.Proofs.LifetimeBudget
import Cppcheck.Gen.LifetimeBudget
/-
C13 — property theorems (part (a): exception funnel).  All statements are about the table
`Cppcheck.Gen.ExceptionFunnel.prog`, regenerated from /repo's working tree on every run; the finite
checks are decided by the kernel over the *whole* table and lifted by the generic lemmas of
Proofs/ExcFunnel.lean to propagation chains of any length.
-/
namespace Cppcheck.C13
open Cppcheck.ExcFunnel
open Cppcheck.Gen.ExceptionFunnel

/-- the translator's certificate is inductive for every site except the alarms -/
theorem cert_closed : closed prog cert types alarmIds = true := by decide +kernel

/-- no exception type can propagate out of an entry point (`main`, static initialisation, the analysis API) under the certificate -/
theorem cert_entries_clear : entriesClear prog cert types = true := by decide +kernel

/-- Every throw site and every call of a throwing std function in the working tree is one of the listed alarms,
or carries a guard recognised by the translator (an AST heuristic that the semantics does not trust: such sites are
listed in the evidence as assumptions), or is contained: along no call chain (of any length, through virtual calls,
lambdas and function references) does its exception leave an entry point uncaught — neither `main` (abnormal
termination), nor the analysis API (problem not reported as a finding), nor any `noexcept` function / destructor
(`std::terminate`). -/
theorem funnel_complete : ∀ s ∈ prog.sites, s.id ∈ alarmIds ∨ s.guard ≠ 0 ∨ ¬ Aborts prog s := by
  intro s hs
  by_cases h : s.id ∈ alarmIds
  · exact Or.inl h
  · by_cases hg : s.guard = 0
    · exact Or.inr (Or.inr (no_abort cert_closed cert_entries_clear hs h hg))
    · exact Or.inr (Or.inl hg)

/-- the same with the exclusions as explicit hypotheses -/
theorem funnel_complete_partial : ∀ s ∈ prog.sites, s.id ∉ alarmIds → s.guard = 0 → ¬ Aborts prog s :=
  fun _ hs h hg => no_abort cert_closed cert_entries_clear hs h hg

/-- the hypotheses are met by sites whose containment really needs the interprocedural argument: unguarded, not an alarm,
not caught inside their own function, and the certificate says the type does propagate out of the function -/
example : ∃ s ∈ prog.sites, s.id ∉ alarmIds ∧ s.guard = 0 ∧ caughtIn prog.hier s.ctx s.ty = false ∧
    cert.mem s.ty s.fn = true := by decide +kernel

/-- full-strength statement for the unguarded sites, available exactly when the translator finds no alarm
(vacuous while `alarmIds ≠ []`) -/
theorem funnel_full_of_no_alarm : alarmIds = [] → ∀ s ∈ prog.sites, s.guard = 0 → ¬ Aborts prog s := by
  intro h s hs hg
  exact funnel_complete_partial s hs (by rw [h]; simp) hg

/-- every row code of the generated table is well formed (callee digit present, no zero digit, nothing cut off by the
decoder's fuel): `decodeRow` reads exactly what the translator wrote -/
theorem rowCodes_wf : rowCodes.all codeWf = true := by decide +kernel

/-- Every alarm that is recorded as a *finding* is a real propagation chain of the model: the listed
chain of functions leads from the site to an entry point through calls whose try blocks do not take the
type.  (The corresponding inputs in corpus/C13 make the real binary terminate abnormally.)  Vacuous while
`findingPaths = []`. -/
theorem finding_paths_real : ∀ p ∈ findingPaths, ∃ s ∈ prog.sites, s.id = p.site ∧ Aborts prog s := by
  have h : findingPaths.all (pathOk prog) = true := by decide +kernel
  intro p hp
  exact pathOk_aborts (List.all_eq_true.mp h p hp)

/-- hence the full-strength statement is refuted by the current tree whenever a finding is listed -/
theorem funnel_full_counterexample : findingPaths ≠ [] → ¬ ∀ s ∈ prog.sites, ¬ Aborts prog s := by
  intro hne hall
  cases hp : findingPaths with
  | nil => exact hne hp
  | cons p rest =>
    obtain ⟨s, hs, _, hab⟩ := finding_paths_real p (by rw [hp]; simp)
    exact hall s hs hab

/-- Handler order and actions of the three funnels (outer and per-configuration try of
`CppCheck::checkInternal`, `CppCheck::checkClang`): whatever a funnel takes becomes a finding; only
`TerminateException` (and its subtypes) is swallowed; nothing is rethrown and no handler exits. -/
theorem funnel_actions : funnels.all (fun f => funnelActionsOk hier f types tyTerminateException) = true := by
  decide +kernel

/-- user termination is not reported as an internal error although `TerminateException <: std::runtime_error`:
its handler comes first -/
theorem terminate_swallowed :
    (firstMatch hier funnel_checkInternal_outer.handlers tyTerminateException).map Prod.snd = some Action.swallow := by
  decide +kernel

/-- the outer funnel takes the types the analysis is designed to raise: `InternalError`, `std::runtime_error`
(with subtypes) and `std::bad_alloc` -/
theorem funnel_takes_analysis_types :
    [tyInternalError, ty_std_runtime_error, ty_std_bad_alloc].all
      (fun t => caughtBy hier (funnel_checkInternal_outer.handlers.map Prod.fst) t) = true := by
  decide +kernel

/-! ### bounded work of the reference-following recursion (`getLifetimeTokens`, `followAllReferencesInternal`)

`Gen.LifetimeBudget.fanoutCharges` lists, for the recursive calls inside the loops over the callee's return statements, the
budget expression found in the source (`depth - returns.size()` = `.perReturns`, `depth - 1` = `.perCall`). -/

open Cppcheck.LifetimeBudget in
/-- with the budget charged by the number of return statements the recursion makes at most `(r + 1) * 2 ^ (depth + 1)`
invocations — for the fixed initial budget this is linear in the size `r` of the callee -/
theorem budget_perReturns_linear (r depth : Nat) : calls .perReturns r (depth + 1) ≤ (r + 1) * 2 ^ (depth + 1) :=
  calls_perReturns_le r (depth + 1)

open Cppcheck.LifetimeBudget in
/-- with one unit charged per level the recursion makes at least `r ^ (depth + 1)` invocations; already for three recursive
return statements and the initial budget of the code that exceeds the linear bound by three orders of magnitude -/
theorem budget_perCall_explodes :
    (∀ r depth, r ^ (depth + 1) ≤ calls .perCall r (depth + 1)) ∧
    (3 + 1) * 2 ^ (initialDepth + 1) * 1000 < calls .perCall 3 (initialDepth + 1) := by
  refine ⟨fun r d => calls_perCall_ge r (d + 1), ?_⟩
  have h := calls_perCall_ge 3 (initialDepth + 1)
  have : (3 + 1) * 2 ^ (initialDepth + 1) * 1000 < 3 ^ (initialDepth + 1) := by decide
  omega

open Cppcheck.LifetimeBudget in
/-- which regime each fan-out site of the current source is in (the check requires the first for all four sites) -/
theorem budget_verdict : ∀ p ∈ Cppcheck.Gen.LifetimeBudget.fanoutCharges, ∀ d ∈ Cppcheck.Gen.LifetimeBudget.initialDepths,
    (p.2 = Charge.perReturns ∧ ∀ r, calls p.2 r (d + 1) ≤ (r + 1) * 2 ^ (d + 1)) ∨
    (p.2 = Charge.perCall ∧ ∀ r, r ^ (d + 1) ≤ calls p.2 r (d + 1)) := by
  intro p _ d _
  cases hc : p.2 with
  | perReturns => exact Or.inl ⟨rfl, fun r => calls_perReturns_le r (d + 1)⟩
  | perCall => exact Or.inr ⟨rfl, fun r => calls_perCall_ge r (d + 1)⟩

/-- on the current tree every fan-out site is in the bounded regime (non-vacuity of `budget_verdict`'s first case) -/
example : Cppcheck.Gen.LifetimeBudget.fanoutCharges ≠ [] := by decide

end Cppcheck.C13

import Cppcheck.Proofs.VarMap
import Cppcheck.Proofs.ClassVars
/-
C08 — property theorems (name resolution on the scope fragment).

Model under the theorems (Cppcheck/Model/VarMap.lean, ScopeProg.lean):
  `VarMap`     the undo-log symbol table `VariableMap` of lib/tokenize.cpp, with the repaired (newest-first) replay
               order of `leaveScope` (/repo commit "fix: VariableMap::leaveScope restores shadowed bindings newest-first");
  `implProg`   the `enterScope / leaveScope / addVariable / lookup` events `Tokenizer::setVarIdPass1` performs on a scope
               program (globals, prototypes, functions with parameters, blocks, if/else, while, do-while, for, declarations
               with initialisers, enumerators, C++ `::x` and condition declarations);
  `Spec`       a stack of scopes (op level);  `specProg`  lexical scoping written on the syntax tree.

Ids are numbered in order of declaration on both sides, so equality of the id lists says: every declaration token gets
a fresh id, and every use gets the id of exactly the declaration lexical scoping binds it to (0 = not a variable).

Two defects were found while stating these theorems at full strength:
  F4   (fixed in /repo)  `leaveScope` replayed its undo log oldest-first       -> `varmap_oldorder_counterexample`
  F8b  (known finding)   an enumerator that hides a variable is invisible to the `VariableMap`
                                                                               -> `varmap_enum_counterexample`, `_partial` theorems
-/
namespace Cppcheck.VarMap

/-! ## the undo-log table refines the stack of scopes -/

/-- **Refinement, state level.** After any sequence of scope events in which no enumerator hides a visible variable,
the current table of the (repaired) `VariableMap` gives every name the id the stack of scopes gives it. -/
theorem varmap_refines_partial (ops : List Op) (h : noVarHidden Spec.init ops = true) (x : VName) :
    (lookup (exec VarMap.init ops).cur x).getD 0 =
      (slookup (sexec Spec.init ops).inner (sexec Spec.init ops).glob x).getD 0 :=
  R_lookup (exec_refines ops _ _ Rel_init h).1 x

/-- the same without any hypothesis for event lists that contain no enumerator event (enter / leave / declare / use:
the op language of DESIGN.md Appendix A) -/
theorem varmap_refines (ops : List Op) (h : noHide ops = true) (x : VName) :
    (lookup (exec VarMap.init ops).cur x).getD 0 =
      (slookup (sexec Spec.init ops).inner (sexec Spec.init ops).glob x).getD 0 :=
  varmap_refines_partial ops (noVarHidden_of_noHide ops _ h) x

/-- **F8b**: the full-strength statement is false — `int x; enum { x };` : lexical scoping now binds `x` to the
enumerator (not a variable, id 0), the `VariableMap` still answers with the variable's id 1. -/
theorem varmap_enum_counterexample :
    ¬ ∀ (ops : List Op) (x : VName),
        (lookup (exec VarMap.init ops).cur x).getD 0 =
          (slookup (sexec Spec.init ops).inner (sexec Spec.init ops).glob x).getD 0 := by
  intro h
  have := h [.decl 0 true, .enter, .hide 0] 0
  revert this
  decide

example : noVarHidden Spec.init [.hide 0, .enter, .decl 0 true, .use 0, .leave, .use 0] = true := by decide
example : noHide [.decl 0 true, .enter, .decl 0 false, .decl 0 false, .leave, .use 0] = true := by decide

/-- **Refinement, token level**: the ids written to all name tokens (declarations, uses, `::x` uses, enumerators) equal
those of the stack-of-scopes specification, for every event list whose `::x` part is well formed and in which no
enumerator hides a visible variable. -/
theorem run_eq_srun_partial (ops : List Op) (h : globalOK 0 [] ops = true) (hv : noVarHidden Spec.init ops = true) :
    run VarMap.init ops = srun Spec.init ops :=
  run_refines_aux ops VarMap.init Spec.init [] Rel_init (fun x hx => by simp [Spec.init, vl] at hx) trivial
    (fun x hx => by simp at hx) h hv

/-- without `::x` (every C program) the first hypothesis disappears -/
theorem run_eq_srun_of_noGuse_partial (ops : List Op) (h : noGuse ops = true) (hv : noVarHidden Spec.init ops = true) :
    run VarMap.init ops = srun Spec.init ops :=
  noGuse_run ops _ _ Rel_init h hv

/-- the `::x` hypothesis of `run_eq_srun_partial` cannot be dropped: a parameter named `a` (declared while
`scopeStack.size() <= 1`) is entered into `mVariableId_global`, so a later `::a` with no file-scope `a` (not a valid
program) is linked to it -/
theorem run_guse_undeclared_counterexample :
    ¬ ∀ ops : List Op, noVarHidden Spec.init ops = true → run VarMap.init ops = srun Spec.init ops := by
  intro h
  have := h [.enter, .decl 0 true, .leave, .guse 0] (by decide)
  revert this
  decide

example : globalOK 0 [] [.decl 0 true, .enter, .decl 0 true, .enter, .decl 0 false, .guse 0, .leave, .leave] = true := by
  decide
example : noGuse [.decl 0 true, .enter, .decl 0 false, .decl 0 false, .leave, .use 0] = true := by decide

/-! ## scope programs -/

/-- **Programs**: on every scope program whose `::x` uses name variables declared at file scope earlier in the text and
in which no enumerator hides a visible variable, the modelled tokenizer gives every name token the id lexical scoping
gives it. Unbounded nesting, any number of functions, any shadowing / re-declaration pattern (including several
declarations of one name in one scope, and variables that shadow enumerators). -/
theorem resolve_eq_spec_partial (p : Prog) (h : progOK [] p = true) (hv : noEnumHidesVar p = true) :
    resolve p = specProg p := by
  have h1 := run_eq_srun_partial (implProg p) (globalOK_implProg p [] h) hv
  have h2 := srun_implProg p [] 0
  simpa [resolve, specProg, Spec.init] using h1.trans h2

/-- the F8b witness as a scope program: `int v0; int f(void) { enum { v0 }; return v0; }` -/
def f8bProg : Prog := [.gdecl 0 [], .func [] (.cons (.enumd 0 []) (.cons (.expr [.loc 0]) .nil))]

/-- **F8b on programs**: the full-strength statement is false; the model (as the real tokenizer) links the `return v0`
to the file-scope variable, lexical scoping binds it to the enumerator -/
theorem resolve_enum_counterexample : ¬ ∀ p : Prog, progOK [] p = true → resolve p = specProg p := by
  intro h
  have := h f8bProg (by decide)
  revert this
  decide

example : resolve f8bProg = [1, 0, 1] ∧ specProg f8bProg = [1, 0, 0] := by decide

/-- the F4 witness as a scope program: `int f(int v0) { for (int v0 = 0; ; ) { int v0; } return v0; }` -/
def f4Prog : Prog :=
  [.func [0] (.cons (.fors (.decl 0 []) [] [] (.cons (.decl 0 []) .nil)) (.cons (.expr [.loc 0]) .nil))]

example : progOK [] f4Prog = true ∧ noEnumHidesVar f4Prog = true := by decide
example : resolve f4Prog = [1, 2, 3, 1] := by decide
/-- a program that uses `::` and enumerators and satisfies both hypotheses (a variable may shadow an enumerator):
`enum { v1 }; int v0; int f(int v0) { int v1 = ::v0 + v0; enum { v2 = sizeof(v1) }; return v2; }` -/
example : progOK [] [.genum 1 [], .gdecl 0 [], .func [0] (.cons (.decl 1 [.glob 0, .loc 0])
    (.cons (.enumd 2 [.loc 1]) (.cons (.expr [.loc 2]) .nil)))] = true ∧
  noEnumHidesVar [.genum 1 [], .gdecl 0 [], .func [0] (.cons (.decl 1 [.glob 0, .loc 0])
    (.cons (.enumd 2 [.loc 1]) (.cons (.expr [.loc 2]) .nil)))] = true := by decide

/-! ## distinct ids -/

/-- **Distinct ids**: the ids handed to the declarations of any event list are pairwise distinct
(they are `1, 2, …, number of declarations`). -/
theorem ids_distinct (ops : List Op) : (declIds VarMap.init ops).Nodup := by
  rw [declIds_eq]
  exact List.nodup_range'

theorem declIds_range (ops : List Op) : declIds VarMap.init ops = List.range' 1 (countDecls ops) := by
  simpa [VarMap.init] using declIds_eq ops VarMap.init

/-! ## F4 (documentation; fixed in /repo) -/

/-- with the replay order `leaveScope` had before the fix (oldest log entry first) the refinement is false — two
declarations of one name in one scope leave the inner id bound after the scope:
`int x; { extern int x; extern int x; } x` resolves the last `x` to id 2 instead of 1. -/
theorem varmap_oldorder_counterexample :
    ¬ ∀ ops : List Op, noGuse ops = true → noHide ops = true → runOld VarMap.init ops = srun Spec.init ops := by
  intro h
  have := h [.decl 0 true, .enter, .decl 0 false, .decl 0 false, .leave, .use 0] (by decide) (by decide)
  revert this
  decide

/-- the same on a scope program (valid C): the `return v0` after the loop is linked to the for-init variable -/
theorem resolveOld_counterexample :
    ¬ ∀ p : Prog, progOK [] p = true → noEnumHidesVar p = true → resolveOld p = specProg p := by
  intro h
  have := h f4Prog (by decide) (by decide)
  revert this
  decide

/-! ## class members in member functions defined outside the class (setVarIdPass2: `thisClassVars`) -/

/-- **Member table, all hierarchies (partial)**: whenever C++ member lookup of `x` in class `i` is not ambiguous, the table
"bases first without overwriting, then own members overwriting" gives exactly its answer: the found declaration's id,
or nothing. Any number of classes, any depth, several bases allowed. -/
theorem classvars_refines_partial (cs : List ClassDecl) (h : classesWF cs = true) (i : Nat) (hi : i < cs.length) (x : VName) :
    (∀ v, memberLookup cs (i + 1) i x = .found v → lookup ((buildAll cs).getD i []) x = some v) ∧
    (memberLookup cs (i + 1) i x = .notFound → lookup ((buildAll cs).getD i []) x = none) := by
  have ha := table_agrees cs (WF_of_classesWF cs h) i hi (i + 1) (by omega) x
  constructor
  · intro v hv; rw [hv] at ha; exact ha
  · intro hn; rw [hn] at ha; exact ha

/-- **Single inheritance chains (full)**: the id a member name gets in a member function of class `i` is the id of the
declaration C++ member lookup finds (own members hide base members at every level), 0 if there is none. -/
theorem classvars_refines (cs : List ClassDecl) (h : classesWF cs = true) (hs : singleInheritance cs = true)
    (i : Nat) (hi : i < cs.length) (x : VName) :
    classVarId cs i x = (match memberLookup cs (i + 1) i x with | .found v => v | _ => 0) := by
  have ha := table_agrees cs (WF_of_classesWF cs h) i hi (i + 1) (by omega) x
  have hna := single_not_ambiguous cs hs x (i + 1) i
  unfold classVarId
  cases hr : memberLookup cs (i + 1) i x with
  | found v => rw [hr] at ha; simp only [Agree] at ha; rw [ha]; rfl
  | notFound => rw [hr] at ha; simp only [Agree] at ha; rw [ha]; rfl
  | ambiguous => exact absurd hr hna

/-- a three-level chain `C0 { v0, v1 }  C1 : C0 { v0 }  C2 : C1 { v1 }` satisfies the hypotheses; in C2 `v0` is C1's -/
example : classesWF [⟨[], [(0, 1), (1, 2)]⟩, ⟨[0], [(0, 3)]⟩, ⟨[1], [(1, 4)]⟩] = true ∧
    singleInheritance [⟨[], [(0, 1), (1, 2)]⟩, ⟨[0], [(0, 3)]⟩, ⟨[1], [(1, 4)]⟩] = true ∧
    classVarId [⟨[], [(0, 1), (1, 2)]⟩, ⟨[0], [(0, 3)]⟩, ⟨[1], [(1, 4)]⟩] 2 0 = 3 := by decide

/-- with two bases that both declare the name the use is ambiguous (ill-formed) for the compiler, the table silently
answers with the first base: the full-strength statement needs the non-ambiguity premise -/
theorem classvars_two_bases_counterexample :
    ¬ ∀ (cs : List ClassDecl) (i : Nat) (x : VName), classesWF cs = true → i < cs.length →
        classVarId cs i x = (match memberLookup cs (i + 1) i x with | .found v => v | _ => 0) := by
  intro h
  have := h [⟨[], [(0, 1)]⟩, ⟨[], [(0, 2)]⟩, ⟨[0, 1], []⟩] 2 0 (by decide) (by decide)
  revert this
  decide

/-- **the seeded change** (`thisClassVars.emplace` instead of `operator[]`: own members do not overwrite): refuted already
by `struct C0 { v0 }; struct C1 : C0 { v0 };` — in C1 the base's id wins -/
theorem classvars_nooverwrite_counterexample :
    ¬ ∀ (cs : List ClassDecl) (i : Nat) (x : VName), classesWF cs = true → singleInheritance cs = true → i < cs.length →
        (lookup ((buildAllNoOverwrite cs).getD i []) x).getD 0 = (match memberLookup cs (i + 1) i x with | .found v => v | _ => 0) := by
  intro h
  have := h [⟨[], [(0, 1)]⟩, ⟨[0], [(0, 2)]⟩] 1 0 (by decide) (by decide) (by decide)
  revert this
  decide

end Cppcheck.VarMap

import Cppcheck.Model.Exec
/-
C15 — property theorems (see docs/C15.md).
-/
namespace Cppcheck.Serialize

theorem fixInvalidChars_idem (s : Wire.Str) : fixInvalidChars (fixInvalidChars s) = fixInvalidChars s := by
  induction s with
  | nil => rfl
  | cons c r ih =>
    simp only [fixInvalidChars]
    split
    · simp [fixInvalidChars, *]
    · have h3 : ∀ d, d < 8 → isPrint (digitChar d) = true := by decide
      have hb : isPrint '\\' = true := by decide
      simp [fixInvalidChars, octal3, hb, h3, Nat.mod_lt, ih]

end Cppcheck.Serialize

import Cppcheck.Proofs.Exec
import Cppcheck.Gen.C15Keys
/-
C15 — property theorems (see docs/C15.md for the reading of every hypothesis).
-/
namespace Cppcheck.Serialize
open Cppcheck.Wire

/-- `fixInvalidChars` is idempotent: a message that went through one worker boundary is stable -/
theorem fixInvalidChars_idem (s : Str) : fixInvalidChars (fixInvalidChars s) = fixInvalidChars s := by
  induction s with
  | nil => rfl
  | cons c r ih =>
    simp only [fixInvalidChars]
    split
    · simp [fixInvalidChars, *]
    · have h3 : ∀ d, d < 8 → isPrint (digitChar d) = true := by decide
      have hb : isPrint '\\' = true := by decide
      simp [fixInvalidChars, octal3, hb, h3, Nat.mod_lt, ih]

/-- TRANSPORT ROUND TRIP, all messages: any bytes in any field, any number of call-stack frames.  What the parent
    decodes is the message with `fixInvalidChars` applied to short/verbose/remark and `simplifyPath` to the frame files. -/
theorem deserialize_serialize (simp : Str → Str) (m : Msg) (h : m.transportable = true) :
    deserialize simp (serialize m) = .ok (m.sanitize simp) := deserialize_serialize_aux simp m h

/-- the hypothesis is satisfiable by messages with arbitrary bytes, tabs in the info, several frames -/
example : ({ id := "a b\t\n".toList, short := ['\x00', 'é', ';'], symbols := "12 ".toList, hash := 18446744073709551615,
             stack := [{ file := "d/../a.c".toList, origFile := "a.c".toList, line := -1, col := 7, info := "x\ty".toList },
                       { file := [], origFile := [], line := 2147483647, col := 4294967295 }] } : Msg).transportable = true := by decide

/-- SUPPRESSION TRANSPORT ROUND TRIP: what `handleRead` makes of the line `toString();column;checked;matched;extraComment`
    is the suppression with every field that is not written (type, lineBegin/lineEnd, macroName, hash, thisAndNextLine)
    back at its default and the file name through `simplifyPath`. -/
theorem suppr_transport (simp : Str → Str) (s : Suppr) (inl : Bool) (h : s.transportable = true) :
    supprDecode simp inl (supprEncode s) = .ok { s.transportView simp with isInline := inl } :=
  suppr_transport_aux simp s inl h

example : ({ errorId := "nullPointer".toList, fileName := "C:/src/dir.d/a.c".toList, lineNumber := 12, symbolName := "f*".toList,
             column := 3, checked := true, extraComment := "why; really # yes // ok".toList, isInline := true, type := 2,
             lineBegin := 3, lineEnd := 9, hash := 77 } : Suppr).transportable = true := by decide

/-- outside `Suppr.transportable` the line is really misread: a '#' in the file name starts a comment for `parseLine` -/
theorem suppr_transport_hash_counterexample :
    ¬ ∀ (s : Suppr), supprDecode id true (supprEncode s) = .ok { s.transportView id with isInline := true } := by
  intro h
  have e := h { errorId := ['x'], fileName := ['a', '#', 'b'] }
  have c : (match supprDecode id true (supprEncode { errorId := ['x'], fileName := ['a', '#', 'b'] }) with
      | .ok s' => decide (s'.fileName = ['a', '#', 'b'])
      | .error _ => false) = false := by decide
  rw [e] at c
  revert c
  decide

/-- F11b: a TAB inside a call-stack file name is outside `transportable`, and the round trip is really lost there:
    the frame of `a<TAB>b.c` comes back with file `a` and original file `b.c`. -/
theorem deserialize_serialize_tab_counterexample :
    ¬ ∀ (m : Msg), deserialize id (serialize m) = .ok (m.sanitize id) := by
  intro h
  have e := h { id := ['x'], stack := [{ file := ['a', '\t', 'b'], origFile := ['o'], line := 1, col := 2 }] }
  have c : (match deserialize id (serialize { id := ['x'], stack := [{ file := ['a', '\t', 'b'], origFile := ['o'], line := 1, col := 2 }] }) with
      | .ok m' => decide (m'.stack.map (·.file) = [['a', '\t', 'b']])
      | .error _ => false) = false := by decide
  rw [e] at c
  revert c
  decide

/-- F11: `sanitize` is not the identity — a message with a byte outside 0x20..0x7e arrives changed -/
theorem sanitize_nonascii_counterexample : ¬ ∀ (m : Msg), m.transportable = true → m.sanitize id = m := by
  intro h
  have := h { short := [Char.ofNat 195, Char.ofNat 169] } (by decide)
  revert this
  decide

end Cppcheck.Serialize

namespace Cppcheck.Dedup
open Cppcheck.Wire

/-- the duplicate filter is insensitive to the arrival order: the multiset of texts it lets through is the same for
    every permutation of the input, and so is the multiset of every observation the text determines -/
theorem dedup_perm {α β : Type} [DecidableEq α] (key : α → Str) (obs : α → β) (l l' : List α) (h : l.Perm l')
    (hk : ∀ a ∈ l, ∀ b ∈ l, key a = key b → obs a = obs b) :
    ((dedup key l).map key).Perm ((dedup key l').map key) ∧ ((dedup key l).map obs).Perm ((dedup key l').map obs) := by
  have hkeys : ((dedup key l).map key).Perm ((dedup key l').map key) := by
    apply (List.perm_ext_iff_of_nodup (nodup_keys_dedupGo key [] l) (nodup_keys_dedupGo key [] l')).2
    intro k
    simp only [dedup, keys_dedupGo, List.not_mem_nil, not_false_eq_true, true_and]
    constructor
    · rintro ⟨x, hx, e⟩; exact ⟨x, h.subset hx, e⟩
    · rintro ⟨x, hx, e⟩; exact ⟨x, h.symm.subset hx, e⟩
  refine ⟨hkeys, perm_map_of_perm_keys key obs _ _ hkeys ?_⟩
  intro a ha b hb e
  exact hk a (mem_dedupGo key [] l a ha).1 b (h.symm.subset (mem_dedupGo key [] l' b hb).1) e

/-- without "the key determines the finding" the surviving representatives depend on the order -/
theorem dedup_perm_counterexample :
    ¬ ∀ (l l' : List (Str × Nat)), l.Perm l' → ((dedup Prod.fst l).map Prod.snd).Perm ((dedup Prod.fst l').map Prod.snd) := by
  intro h
  have := h [(['k'], 1), (['k'], 2)] [(['k'], 2), (['k'], 1)] (List.Perm.swap _ _ _)
  have h2 : ((dedup Prod.fst [((['k'] : Str), 1), (['k'], 2)]).map Prod.snd) = [1] := by decide
  have h3 : ((dedup Prod.fst [((['k'] : Str), 2), (['k'], 1)]).map Prod.snd) = [2] := by decide
  rw [h2, h3] at this
  have := List.perm_singleton.1 this
  cases this

end Cppcheck.Dedup

namespace Cppcheck.Exec
open Cppcheck.Wire Cppcheck.Serialize

variable {F : Type}

/-- THREAD EXECUTOR = SINGLE EXECUTOR, for every file list, every logger input, every job count and EVERY schedule
    (any enabled sequence of next / gate / print steps that ends with all workers finished):
    the multiset of printed texts and the result counter are those of the sequential run. -/
theorem thread_eq_single (cfg : Cfg) (raws : F → List Raw) (files : List F) (jobs : Nat) (σ : List TLabel) (s' : TState F)
    (hE : cfg.emitDuplicates = false)
    (hok : ∀ f ∈ files, keyOK cfg (raws f) = true ∧ safetyOK cfg (raws f) = true ∧ dedupOK cfg (raws f) = true)
    (hk : ∀ m ∈ forwarded cfg raws files, ∀ m' ∈ forwarded cfg raws files, cfg.keyGate m = cfg.keyGate m' → cfg.key2 m = cfg.key2 m')
    (hrun : trun cfg raws (tinit files jobs) σ = some s') (hterm : s'.terminal = true) :
    (s'.sink.reported.map cfg.key2).Perm ((runSingle cfg raws files).sink.reported.map cfg.key2) ∧
    s'.result = (runSingle cfg raws files).result := by
  have hinv := trun_inv cfg hE raws _ _ σ _ s' (tinit_inv cfg raws files jobs) hrun
  obtain ⟨h1, h2, h3⟩ := terminal_empty cfg raws s' hterm
  have hI := hinv.inv
  rw [h1, h2] at hI
  refine ⟨(outcome_eq_single (β := Unit) cfg hE raws files hok hk s'.el s'.sink hI).1, ?_⟩
  have := hinv.res
  rw [h3] at this
  simp only [List.map_nil, List.sum_nil, Nat.add_zero] at this
  rw [this, (single_spec cfg hE raws files hok).2.2.2.2]

/-- … and the same multiset of findings under every observation `obs` (canonical tuple, XML element, …) that the
    printed text determines on the messages of the run ("the key determines the finding"). -/
theorem thread_obs_eq_single {β : Type} (cfg : Cfg) (raws : F → List Raw) (files : List F) (jobs : Nat) (σ : List TLabel)
    (s' : TState F) (obs : Msg → β)
    (hE : cfg.emitDuplicates = false)
    (hok : ∀ f ∈ files, keyOK cfg (raws f) = true ∧ safetyOK cfg (raws f) = true ∧ dedupOK cfg (raws f) = true)
    (hk : ∀ m ∈ forwarded cfg raws files, ∀ m' ∈ forwarded cfg raws files, cfg.keyGate m = cfg.keyGate m' → cfg.key2 m = cfg.key2 m')
    (hobs : ∀ m ∈ forwarded cfg raws files, ∀ m' ∈ forwarded cfg raws files, cfg.key2 m = cfg.key2 m' → obs m = obs m')
    (hrun : trun cfg raws (tinit files jobs) σ = some s') (hterm : s'.terminal = true) :
    (s'.sink.reported.map obs).Perm ((runSingle cfg raws files).sink.reported.map obs) := by
  have hinv := trun_inv cfg hE raws _ _ σ _ s' (tinit_inv cfg raws files jobs) hrun
  obtain ⟨h1, h2, _⟩ := terminal_empty cfg raws s' hterm
  have hI := hinv.inv
  rw [h1, h2] at hI
  exact (outcome_eq_single cfg hE raws files hok hk s'.el s'.sink hI).2 obs hobs

/-- PROCESS EXECUTOR = SINGLE EXECUTOR, for every file list, logger input, job count and EVERY schedule of
    fork / send / exit / read / reap steps over byte-level pipes that ends with all pipes closed and all workers
    reaped.  Hypotheses on what is sent: every forwarded message is transportable, fits a frame and is not changed by
    `fixInvalidChars` / `simplifyPath` (`Ev.good`); the suppression lines decode. -/
theorem process_eq_single (cfg : Cfg) (raws : F → List Raw) (sups : F → List (Bool × Suppr)) (files : List F) (jobs : Nat)
    (σ : List PLabel) (s' : PState F)
    (hE : cfg.emitDuplicates = false)
    (hok : ∀ f ∈ files, keyOK cfg (raws f) = true ∧ safetyOK cfg (raws f) = true ∧ dedupOK cfg (raws f) = true)
    (hk : ∀ m ∈ forwarded cfg raws files, ∀ m' ∈ forwarded cfg raws files, cfg.keyGate m = cfg.keyGate m' → cfg.key2 m = cfg.key2 m')
    (hmsg : ∀ m ∈ forwarded cfg raws files, (Ev.err m).good cfg = true)
    (hsup : ∀ f ∈ files, ∀ p ∈ sups f, (Ev.suppr p.1 p.2).good cfg = true)
    (hrun : prun cfg jobs raws sups (pinit files) σ = some s') (hterm : s'.terminal = true) :
    (s'.parent.sink.reported.map cfg.key2).Perm ((runSingle cfg raws files).sink.reported.map cfg.key2) ∧
    s'.parent.result = (runSingle cfg raws files).result := by
  have hgood := childEvents_good cfg raws sups files hmsg hsup
  obtain ⟨h1, h2⟩ := prun_conc cfg hE jobs raws sups files _ hgood σ (ainit files) (ainit_inv cfg raws files)
  have hinit : (ainit files).conc = pinit files := rfl
  rw [hinit, hrun] at h1
  cases ha : arun cfg jobs raws sups (ainit files) σ with
  | none => rw [ha] at h1; cases h1
  | some a' =>
    rw [ha] at h1
    simp only [Option.map_some, Option.some.injEq] at h1
    subst h1
    have hinv := h2 a' ha
    obtain ⟨e1, e2⟩ := aterminal_empty cfg raws files _ a' hinv hterm
    have hI := hinv.inv
    rw [e1] at hI
    refine ⟨(outcome_eq_single (β := Unit) cfg hE raws files hok hk _ _ hI).1, ?_⟩
    show a'.parent.result = _
    rw [e2, (single_spec cfg hE raws files hok).2.2.2.2]

theorem process_obs_eq_single {β : Type} (cfg : Cfg) (raws : F → List Raw) (sups : F → List (Bool × Suppr)) (files : List F)
    (jobs : Nat) (σ : List PLabel) (s' : PState F) (obs : Msg → β)
    (hE : cfg.emitDuplicates = false)
    (hok : ∀ f ∈ files, keyOK cfg (raws f) = true ∧ safetyOK cfg (raws f) = true ∧ dedupOK cfg (raws f) = true)
    (hk : ∀ m ∈ forwarded cfg raws files, ∀ m' ∈ forwarded cfg raws files, cfg.keyGate m = cfg.keyGate m' → cfg.key2 m = cfg.key2 m')
    (hobs : ∀ m ∈ forwarded cfg raws files, ∀ m' ∈ forwarded cfg raws files, cfg.key2 m = cfg.key2 m' → obs m = obs m')
    (hmsg : ∀ m ∈ forwarded cfg raws files, (Ev.err m).good cfg = true)
    (hsup : ∀ f ∈ files, ∀ p ∈ sups f, (Ev.suppr p.1 p.2).good cfg = true)
    (hrun : prun cfg jobs raws sups (pinit files) σ = some s') (hterm : s'.terminal = true) :
    (s'.parent.sink.reported.map obs).Perm ((runSingle cfg raws files).sink.reported.map obs) := by
  have hgood := childEvents_good cfg raws sups files hmsg hsup
  obtain ⟨h1, h2⟩ := prun_conc cfg hE jobs raws sups files _ hgood σ (ainit files) (ainit_inv cfg raws files)
  have hinit : (ainit files).conc = pinit files := rfl
  rw [hinit, hrun] at h1
  cases ha : arun cfg jobs raws sups (ainit files) σ with
  | none => rw [ha] at h1; cases h1
  | some a' =>
    rw [ha] at h1
    simp only [Option.map_some, Option.some.injEq] at h1
    subst h1
    have hinv := h2 a' ha
    obtain ⟨e1, _⟩ := aterminal_empty cfg raws files _ a' hinv hterm
    have hI := hinv.inv
    rw [e1] at hI
    exact (outcome_eq_single cfg hE raws files hok hk _ _ hI).2 obs hobs

/-- RECEIVED SUPPRESSION STATE: at the end of every complete schedule the parent has been handed (to `addSuppression` /
    `updateSuppressionState`) exactly the decoded suppression lines of every worker, as a multiset — nothing lost, nothing
    twice, whatever the interleaving.  (What the merge and the unmatchedSuppression report make of them: C24.) -/
theorem process_recv_eq (cfg : Cfg) (raws : F → List Raw) (sups : F → List (Bool × Suppr)) (files : List F) (jobs : Nat)
    (σ : List PLabel) (s' : PState F)
    (hE : cfg.emitDuplicates = false)
    (hmsg : ∀ m ∈ forwarded cfg raws files, (Ev.err m).good cfg = true)
    (hsup : ∀ f ∈ files, ∀ p ∈ sups f, (Ev.suppr p.1 p.2).good cfg = true)
    (hrun : prun cfg jobs raws sups (pinit files) σ = some s') (hterm : s'.terminal = true) :
    s'.parent.recv.Perm (files.flatMap fun f => decodedSups cfg (sups f)) := by
  have hgood := childEvents_good cfg raws sups files hmsg hsup
  obtain ⟨h1, h2⟩ := prun_conc cfg hE jobs raws sups files _ hgood σ (ainit files) (ainit_inv cfg raws files)
  have hinit : (ainit files).conc = pinit files := rfl
  rw [hinit, hrun] at h1
  cases ha : arun cfg jobs raws sups (ainit files) σ with
  | none => rw [ha] at h1; cases h1
  | some a' =>
    rw [ha] at h1
    simp only [Option.map_some, Option.some.injEq] at h1
    subst h1
    have h0 : ARecv cfg raws sups files (ainit files) := by intro x; simp [ainit]
    exact aterminal_recv cfg raws sups files _ a' (h2 a' ha)
      (arun_recv cfg hE jobs raws sups files _ hgood σ (ainit files) a' (ainit_inv cfg raws files) h0 ha) hterm

/-- … and for transportable lines the decoded state is the transported view of what the worker had -/
theorem decodedSups_of_transportable (cfg : Cfg) (l : List (Bool × Suppr)) (h : ∀ p ∈ l, p.2.transportable = true) :
    decodedSups cfg l = l.map fun p => { p.2.transportView cfg.simp with isInline := p.1 } := by
  induction l with
  | nil => rfl
  | cons p l ih =>
    have hp := h p (by simp)
    simp only [decodedSups, List.filterMap_cons, suppr_transport cfg.simp p.2 p.1 hp, List.map_cons] at ih ⊢
    rw [ih (fun q hq => h q (by simp [hq]))]

/-- under the same hypotheses the parent never takes one of handleRead's `std::exit(EXIT_FAILURE)` / uncaught-exception
    paths, whatever the schedule and however far the run got -/
theorem process_never_dies (cfg : Cfg) (raws : F → List Raw) (sups : F → List (Bool × Suppr)) (files : List F) (jobs : Nat)
    (σ : List PLabel) (s' : PState F)
    (hE : cfg.emitDuplicates = false)
    (hmsg : ∀ m ∈ forwarded cfg raws files, (Ev.err m).good cfg = true)
    (hsup : ∀ f ∈ files, ∀ p ∈ sups f, (Ev.suppr p.1 p.2).good cfg = true)
    (hrun : prun cfg jobs raws sups (pinit files) σ = some s') : s'.dead = false := by
  have hgood := childEvents_good cfg raws sups files hmsg hsup
  obtain ⟨h1, _⟩ := prun_conc cfg hE jobs raws sups files _ hgood σ (ainit files) (ainit_inv cfg raws files)
  have hinit : (ainit files).conc = pinit files := rfl
  rw [hinit, hrun] at h1
  cases ha : arun cfg jobs raws sups (ainit files) σ with
  | none => rw [ha] at h1; cases h1
  | some a' =>
    rw [ha] at h1
    simp only [Option.map_some, Option.some.injEq] at h1
    subst h1
    rfl

/-- what `process_eq_single` asks of the suppression lines follows from `Suppr.transportable` -/
theorem suppr_good_of_transportable (cfg : Cfg) (inl : Bool) (s : Suppr) (h : s.transportable = true)
    (hl : (supprEncode s).length < two32) : (Ev.suppr inl s).good cfg = true := by
  simp [Ev.good, hl, suppr_transport cfg.simp s inl h]

/-- exit status (as far as the executors determine it) without --safety -/
theorem thread_exit_eq_single (cfg : Cfg) (raws : F → List Raw) (files : List F) (jobs : Nat) (σ : List TLabel) (s' : TState F)
    (hE : cfg.emitDuplicates = false) (hS : cfg.safety = false)
    (hok : ∀ f ∈ files, keyOK cfg (raws f) = true ∧ safetyOK cfg (raws f) = true ∧ dedupOK cfg (raws f) = true)
    (hk : ∀ m ∈ forwarded cfg raws files, ∀ m' ∈ forwarded cfg raws files, cfg.keyGate m = cfg.keyGate m' → cfg.key2 m = cfg.key2 m')
    (hrun : trun cfg raws (tinit files jobs) σ = some s') (hterm : s'.terminal = true) :
    exitStatus cfg s'.result s'.sink = exitStatus cfg (runSingle cfg raws files).result (runSingle cfg raws files).sink := by
  simp only [exitStatus, hS, Bool.false_and, Bool.false_eq_true, ↓reduceIte,
    (thread_eq_single cfg raws files jobs σ s' hE hok hk hrun hterm).2]

theorem process_exit_eq_single (cfg : Cfg) (raws : F → List Raw) (sups : F → List (Bool × Suppr)) (files : List F) (jobs : Nat)
    (σ : List PLabel) (s' : PState F)
    (hE : cfg.emitDuplicates = false) (hS : cfg.safety = false)
    (hok : ∀ f ∈ files, keyOK cfg (raws f) = true ∧ safetyOK cfg (raws f) = true ∧ dedupOK cfg (raws f) = true)
    (hk : ∀ m ∈ forwarded cfg raws files, ∀ m' ∈ forwarded cfg raws files, cfg.keyGate m = cfg.keyGate m' → cfg.key2 m = cfg.key2 m')
    (hmsg : ∀ m ∈ forwarded cfg raws files, (Ev.err m).good cfg = true)
    (hsup : ∀ f ∈ files, ∀ p ∈ sups f, (Ev.suppr p.1 p.2).good cfg = true)
    (hrun : prun cfg jobs raws sups (pinit files) σ = some s') (hterm : s'.terminal = true) :
    exitStatus cfg s'.parent.result s'.parent.sink =
      exitStatus cfg (runSingle cfg raws files).result (runSingle cfg raws files).sink := by
  simp only [exitStatus, hS, Bool.false_and, Bool.false_eq_true, ↓reduceIte,
    (process_eq_single cfg raws sups files jobs σ s' hE hok hk hmsg hsup hrun hterm).2]

/-! ### witnesses: the hypotheses are satisfiable, and each excluded region really differs -/

/-- template `{message}`; one global suppression of id `g`; `syntaxError` is critical -/
def exCfg (safety fix : Bool) : Cfg :=
  { key := fun m => m.short, keyGate := fun m => m.short, key2 := fun m => m.short, supG := fun v => v.errorId = ['g'], supGX := fun v => v.errorId = ['g'],
    critical := fun id => id = "syntaxError".toList, safety := safety, dedupFix := fix, exitCode := 3, simp := id }

def exMsg (id short : String) : Msg :=
  { id := id.toList, severity := .error, short := short.toList, verbose := short.toList,
    stack := [{ file := "h.h".toList, origFile := "h.h".toList, line := 3, col := 1 }] }

/-- two files that share a header finding, a locally suppressed finding, a globally suppressed one, a remark -/
def exRaws : Nat → List Raw
  | 0 => [{ msg := exMsg "nullPointer" "Null pointer dereference: p" }, { msg := exMsg "x" "local", locSup := true },
          { msg := exMsg "g" "global" }, { msg := exMsg "uninitvar" "u", remark := "why".toList }]
  | _ => [{ msg := exMsg "nullPointer" "Null pointer dereference: p" }, { msg := exMsg "memleak" "Memory leak: q", noFail := true }]

example : ∀ f ∈ [0, 1], keyOK (exCfg true false) (exRaws f) = true ∧ safetyOK (exCfg true false) (exRaws f) = true ∧
    dedupOK (exCfg true false) (exRaws f) = true := by decide
example : ∀ m ∈ forwarded (exCfg true false) exRaws [0, 1], (Ev.err m).good (exCfg true false) = true := by decide
example : (forwarded (exCfg true false) exRaws [0, 1]).length = 5 := by decide
/-- a complete schedule of the thread model (two workers, interleaved) and one of the process model exist for it -/
example : (match trun (exCfg true false) exRaws (tinit [0, 1] 2)
      [.next 0, .next 1, .gate 1, .gate 0, .print 1, .gate 0, .gate 1, .gate 0, .print 0, .print 1, .next 0, .next 1] with
    | some s => s.terminal && (s.sink.reported.length == 3) && (s.result == 2)
    | none => false) = true := by decide
set_option maxRecDepth 8000 in
example : (match prun (exCfg true false) 2 exRaws (fun _ => [(true, { errorId := "x".toList, fileName := "h.h".toList, lineNumber := 3 })])
      (pinit [0, 1])
      [.fork, .fork, .send 1, .send 0, .send 0, .read 1, .send 1, .send 1, .send 1, .send 0, .read 0, .send 0, .send 0, .exit 1, .read 1,
       .read 0, .read 0, .read 1, .read 1, .reap 1, .exit 0, .read 0, .read 0, .reap 0] with
    | some s => s.terminal && (s.parent.sink.reported.length == 3) && (s.parent.result == 2) && (s.parent.recv.length == 2)
    | none => false) = true := by decide

/-- F11 (process executor prints sanitised text): the message `caf\xc3\xa9` is transportable, the process model runs to the
    end and prints `caf\\303\\251` where the single executor model prints the bytes — `sanitize m = m` cannot be dropped. -/
theorem process_text_nonascii_counterexample :
    ∃ (cfg : Cfg) (raws : Nat → List Raw) (σ : List PLabel) (s' : PState Nat),
      cfg.emitDuplicates = false ∧
      (∀ f ∈ [0], keyOK cfg (raws f) = true ∧ safetyOK cfg (raws f) = true ∧ dedupOK cfg (raws f) = true) ∧
      (∀ m ∈ forwarded cfg raws [0], m.transportable = true) ∧
      prun cfg 2 raws (fun _ => []) (pinit [0]) σ = some s' ∧ s'.terminal = true ∧
      ¬ (s'.parent.sink.reported.map cfg.key2).Perm ((runSingle cfg raws [0]).sink.reported.map cfg.key2) := by
  let m : Msg := { id := ['e'], severity := .error, short := ['c', 'a', 'f', Char.ofNat 195, Char.ofNat 169], verbose := ['x'] }
  let raws : Nat → List Raw := fun _ => [{ msg := m }]
  have hrun : ∃ s', prun (exCfg false false) 2 raws (fun _ => []) (pinit [0])
      [.fork, .send 0, .send 0, .exit 0, .read 0, .read 0, .reap 0] = some s' ∧ s'.terminal = true ∧
      s'.parent.sink.reported.map (exCfg false false).key2 = [fixInvalidChars m.short] := by
    cases h : prun (exCfg false false) 2 raws (fun _ => []) (pinit [0]) [.fork, .send 0, .send 0, .exit 0, .read 0, .read 0, .reap 0] with
    | none => revert h; decide
    | some s' =>
      refine ⟨s', rfl, ?_, ?_⟩ <;> (revert h; decide +revert)
  obtain ⟨s', h1, h2, h3⟩ := hrun
  refine ⟨exCfg false false, raws, _, s', rfl, by decide, by decide, h1, h2, ?_⟩
  rw [h3]
  have : (runSingle (exCfg false false) raws [0]).sink.reported.map (exCfg false false).key2 = [m.short] := by decide
  rw [this]
  intro hp
  have := List.perm_singleton.1 hp
  revert this
  decide

/-- `--safety --suppress=syntaxError`: the id is critical and matched by a non-local suppression -/
def safetyCfg : Cfg :=
  { key := fun m => m.id, keyGate := fun m => m.id, key2 := fun m => m.id, supG := fun v => v.errorId = "syntaxError".toList,
    supGX := fun v => v.errorId = "syntaxError".toList, critical := fun id => id = "syntaxError".toList, safety := true, simp := id }

/-- F11c: outside `safetyOK` the executors really differ — the single executor model ends with exit status 1 (critical
    error seen), the thread executor model, under its only complete schedule for one worker, with 0. -/
theorem thread_safety_counterexample :
    ∃ (cfg : Cfg) (raws : Nat → List Raw) (σ : List TLabel) (s' : TState Nat),
      cfg.emitDuplicates = false ∧ (∀ f ∈ [0], keyOK cfg (raws f) = true ∧ dedupOK cfg (raws f) = true) ∧
      trun cfg raws (tinit [0] 1) σ = some s' ∧ s'.terminal = true ∧
      exitStatus cfg s'.result s'.sink ≠ exitStatus cfg (runSingle cfg raws [0]).result (runSingle cfg raws [0]).sink := by
  let raws : Nat → List Raw := fun _ => [{ msg := exMsg "syntaxError" "bad" }]
  have hrun : ∃ s', trun safetyCfg raws (tinit [0] 1) [.next 0, .gate 0, .next 0] = some s' ∧ s'.terminal = true ∧
      exitStatus safetyCfg s'.result s'.sink = 0 := by
    cases h : trun safetyCfg raws (tinit [0] 1) [.next 0, .gate 0, .next 0] with
    | none => revert h; decide
    | some s' => refine ⟨s', rfl, ?_, ?_⟩ <;> (revert h; decide +revert)
  obtain ⟨s', h1, h2, h3⟩ := hrun
  refine ⟨safetyCfg, raws, _, s', rfl, by decide, h1, h2, ?_⟩
  rw [h3]
  decide

/-- `--template={id} --suppress=nullPointer:*.c:2`: a global suppression that matches the first of two findings with
    the same text -/
def dedupCfg (fix : Bool) : Cfg :=
  { key := fun m => m.id, keyGate := fun m => m.id, key2 := fun m => m.id, supG := fun v => v.errorId = "nullPointer".toList ∧ v.line = 2,
    supGX := fun v => v.errorId = "nullPointer".toList ∧ v.line = 2, critical := fun _ => false, dedupFix := fix, simp := id }

def dedupRaws : Nat → List Raw := fun _ =>
  [{ msg := { id := "nullPointer".toList, severity := .error, short := ['p'], stack := [{ file := ['a'], origFile := ['a'], line := 2, col := 1 }] } },
   { msg := { id := "nullPointer".toList, severity := .error, short := ['q'], stack := [{ file := ['a'], origFile := ['a'], line := 4, col := 1 }] } }]

/-- F11d (lib/cppcheck.cpp between 9e24c55 and 9907ad7, `dedupFix = false`; fixed since): outside `dedupOK` the single
    executor model reports the second finding (result 1), the thread executor model reports nothing (result 0). -/
theorem thread_dedup_counterexample :
    ∃ (σ : List TLabel) (s' : TState Nat),
      trun (dedupCfg false) dedupRaws (tinit [0] 1) σ = some s' ∧ s'.terminal = true ∧
      s'.sink.reported.length = 0 ∧ s'.result = 0 ∧
      (runSingle (dedupCfg false) dedupRaws [0]).sink.reported.length = 1 ∧ (runSingle (dedupCfg false) dedupRaws [0]).result = 1 := by
  have hsome : (trun (dedupCfg false) dedupRaws (tinit [0] 1) [.next 0, .gate 0, .next 0]).isSome = true := by decide
  cases h : trun (dedupCfg false) dedupRaws (tinit [0] 1) [.next 0, .gate 0, .next 0] with
  | none => rw [h] at hsome; cases hsome
  | some s' =>
    refine ⟨_, s', h, ?_, ?_, ?_, by decide, by decide⟩ <;> (revert h; decide +revert)

/-- … and for the current code (`dedupFix = true`, /repo 9907ad7) the same input satisfies `dedupOK`, so
    `thread_eq_single` applies to it -/
example : dedupOK (dedupCfg true) (dedupRaws 0) = true ∧ dedupOK (dedupCfg false) (dedupRaws 0) = false := by decide

/-! ### the duplicate-filter keys of the three loggers (arguments of the `toString` calls extracted from the source) -/

/-- KEY REFINEMENT: the key `Executor::hasToLog` computes distinguishes whatever the keys of `CppCheckLogger::reportErr` and
    of `StdLogger::reportErr` distinguish — for every `toString`, every template and every pair of messages — because the
    three calls in the current source pass the same arguments (`Gen/C15Keys.lean`, regenerated on every run). -/
theorem gate_key_refines (r : RenderCfg) (m m' : Msg) (h : r.keyOf Gen.gateKeyArgs m = r.keyOf Gen.gateKeyArgs m') :
    r.keyOf Gen.loggerKeyArgs m = r.keyOf Gen.loggerKeyArgs m' ∧ r.keyOf Gen.sinkKeyArgs m = r.keyOf Gen.sinkKeyArgs m' := by
  have h1 : Gen.gateKeyArgs = Gen.loggerKeyArgs := by decide
  have h2 : Gen.gateKeyArgs = Gen.sinkKeyArgs := by decide
  rw [← h1, ← h2]
  exact ⟨h, h⟩

/-- `thread_eq_single` for the keys the source computes: no hypothesis on the keys is left -/
theorem thread_eq_single_source_keys (base : Cfg) (r : RenderCfg) (raws : F → List Raw) (files : List F) (jobs : Nat)
    (σ : List TLabel) (s' : TState F)
    (hE : base.emitDuplicates = false)
    (hok : ∀ f ∈ files, keyOK (base.withKeys r Gen.loggerKeyArgs Gen.gateKeyArgs Gen.sinkKeyArgs) (raws f) = true ∧
      safetyOK (base.withKeys r Gen.loggerKeyArgs Gen.gateKeyArgs Gen.sinkKeyArgs) (raws f) = true ∧
      dedupOK (base.withKeys r Gen.loggerKeyArgs Gen.gateKeyArgs Gen.sinkKeyArgs) (raws f) = true)
    (hrun : trun (base.withKeys r Gen.loggerKeyArgs Gen.gateKeyArgs Gen.sinkKeyArgs) raws (tinit files jobs) σ = some s')
    (hterm : s'.terminal = true) :
    (s'.sink.reported.map (r.keyOf Gen.sinkKeyArgs)).Perm
      ((runSingle (base.withKeys r Gen.loggerKeyArgs Gen.gateKeyArgs Gen.sinkKeyArgs) raws files).sink.reported.map (r.keyOf Gen.sinkKeyArgs)) ∧
    s'.result = (runSingle (base.withKeys r Gen.loggerKeyArgs Gen.gateKeyArgs Gen.sinkKeyArgs) raws files).result :=
  thread_eq_single (base.withKeys r Gen.loggerKeyArgs Gen.gateKeyArgs Gen.sinkKeyArgs) raws files jobs σ s' hE hok
    (fun m _ m' _ h => (gate_key_refines r m m' h).2) hrun hterm

theorem process_eq_single_source_keys (base : Cfg) (r : RenderCfg) (raws : F → List Raw) (sups : F → List (Bool × Suppr))
    (files : List F) (jobs : Nat) (σ : List PLabel) (s' : PState F)
    (hE : base.emitDuplicates = false)
    (hok : ∀ f ∈ files, keyOK (base.withKeys r Gen.loggerKeyArgs Gen.gateKeyArgs Gen.sinkKeyArgs) (raws f) = true ∧
      safetyOK (base.withKeys r Gen.loggerKeyArgs Gen.gateKeyArgs Gen.sinkKeyArgs) (raws f) = true ∧
      dedupOK (base.withKeys r Gen.loggerKeyArgs Gen.gateKeyArgs Gen.sinkKeyArgs) (raws f) = true)
    (hmsg : ∀ m ∈ forwarded (base.withKeys r Gen.loggerKeyArgs Gen.gateKeyArgs Gen.sinkKeyArgs) raws files,
      (Ev.err m).good (base.withKeys r Gen.loggerKeyArgs Gen.gateKeyArgs Gen.sinkKeyArgs) = true)
    (hsup : ∀ f ∈ files, ∀ p ∈ sups f, (Ev.suppr p.1 p.2).good (base.withKeys r Gen.loggerKeyArgs Gen.gateKeyArgs Gen.sinkKeyArgs) = true)
    (hrun : prun (base.withKeys r Gen.loggerKeyArgs Gen.gateKeyArgs Gen.sinkKeyArgs) jobs raws sups (pinit files) σ = some s')
    (hterm : s'.terminal = true) :
    (s'.parent.sink.reported.map (r.keyOf Gen.sinkKeyArgs)).Perm
      ((runSingle (base.withKeys r Gen.loggerKeyArgs Gen.gateKeyArgs Gen.sinkKeyArgs) raws files).sink.reported.map (r.keyOf Gen.sinkKeyArgs)) ∧
    s'.parent.result = (runSingle (base.withKeys r Gen.loggerKeyArgs Gen.gateKeyArgs Gen.sinkKeyArgs) raws files).result :=
  process_eq_single (base.withKeys r Gen.loggerKeyArgs Gen.gateKeyArgs Gen.sinkKeyArgs) raws sups files jobs σ s' hE hok
    (fun m _ m' _ h => (gate_key_refines r m m' h).2) hmsg hsup hrun hterm

/-- template `{id}` with location template `{line}:{info}` -/
def idLocRender : RenderCfg :=
  { render := renderIdLoc, verbose := false, templateFormat := "{id}".toList, templateLocation := "{line}:{info}".toList }

/-- a `hasToLog` that renders its key with an empty location template (the arguments a "the notes are not needed for a key"
    change would pass) -/
def gateArgsWithoutLocation : KeyArgs :=
  { verbose := .settingsVerbose, format := .settingsTemplateFormat, location := .emptyString }

def noteMsg (note : String) : Msg :=
  { id := "zerodiv".toList, severity := .error, short := "Division by zero.".toList,
    stack := [{ file := "div.h".toList, origFile := "div.h".toList, line := 3, col := 13, info := note.toList },
              { file := "div.h".toList, origFile := "div.h".toList, line := 7, col := 14, info := "Division by zero".toList }] }

/-- the refinement is a property of the extracted arguments, not of `toString`: with an empty location template in the
    gate's call two findings that differ only in their path notes get one gate key and two logger keys … -/
theorem gate_key_without_location_counterexample :
    ¬ ∀ (r : RenderCfg) (m m' : Msg), r.keyOf gateArgsWithoutLocation m = r.keyOf gateArgsWithoutLocation m' →
        r.keyOf Gen.loggerKeyArgs m = r.keyOf Gen.loggerKeyArgs m' := by
  intro h
  have := h idLocRender (noteMsg "Assignment 'd=0', assigned value is 0") (noteMsg "Assignment 'd=1-1', assigned value is 0") (by decide)
  revert this
  decide

/-- … and the thread executor model then reports one finding where the single executor model reports two -/
theorem thread_gate_key_without_location_counterexample :
    ∃ (σ : List TLabel) (s' : TState Nat),
      trun ((exCfg false true).withKeys idLocRender Gen.loggerKeyArgs gateArgsWithoutLocation Gen.sinkKeyArgs)
        (fun f => [{ msg := noteMsg (if f = 0 then "Assignment 'd=0', assigned value is 0" else "Assignment 'd=1-1', assigned value is 0") }])
        (tinit [0, 1] 2) σ = some s' ∧ s'.terminal = true ∧ s'.sink.reported.length = 1 ∧
      (runSingle ((exCfg false true).withKeys idLocRender Gen.loggerKeyArgs gateArgsWithoutLocation Gen.sinkKeyArgs)
        (fun f => [{ msg := noteMsg (if f = 0 then "Assignment 'd=0', assigned value is 0" else "Assignment 'd=1-1', assigned value is 0") }])
        [0, 1]).sink.reported.length = 2 := by
  have hsome : (trun ((exCfg false true).withKeys idLocRender Gen.loggerKeyArgs gateArgsWithoutLocation Gen.sinkKeyArgs)
        (fun f => [{ msg := noteMsg (if f = 0 then "Assignment 'd=0', assigned value is 0" else "Assignment 'd=1-1', assigned value is 0") }])
        (tinit [0, 1] 2) [.next 0, .next 1, .gate 0, .gate 1, .print 0, .next 0, .next 1]).isSome = true := by decide
  cases h : trun ((exCfg false true).withKeys idLocRender Gen.loggerKeyArgs gateArgsWithoutLocation Gen.sinkKeyArgs)
        (fun f => [{ msg := noteMsg (if f = 0 then "Assignment 'd=0', assigned value is 0" else "Assignment 'd=1-1', assigned value is 0") }])
        (tinit [0, 1] 2) [.next 0, .next 1, .gate 0, .gate 1, .print 0, .next 0, .next 1] with
  | none => rw [h] at hsome; cases hsome
  | some s' =>
    refine ⟨_, s', h, ?_, ?_, by decide⟩ <;> (revert h; decide +revert)

end Cppcheck.Exec

import Cppcheck.Proofs.ConvSpec
import Cppcheck.Gen.PlatformsC09
/-
C09 — expression types follow the language's conversion rules.

`conv*`  (Cppcheck.ValueTypeConv) = what SymbolDatabase::setValueType does, in three states of the code
          (`.base` as pinned, `.fixA` / `.fixAB` with the proposed patches);
`spec*`  (Cppcheck.ConvSpec)      = C17 6.3.1.1 / 6.3.1.8 / 6.5.x and C++17 [expr], from the platform's sizes;
`Gen.PlatformsC09.platforms`      = the table extracted from lib/platform.cpp and platforms/*.xml on this run.

All theorems hold for EVERY consistent shape, i.e. for every platform whose sizes are ordered — not only for the table;
the table enters through `platforms_sane` and the concrete witnesses.  The quantifiers are finite and decided whole
(Cppcheck/Proofs/ConvSpec.lean); nothing here is sampled.
-/
namespace Cppcheck.C09
open Cppcheck.ValueTypeConv Cppcheck.ConvSpec Cppcheck.Gen.PlatformsC09

/-! ## the platform table -/

/-- every built-in and every file platform has ordered sizes, hence a consistent shape -/
theorem platforms_sane : ∀ P ∈ platforms, sane P = true := by decide

theorem platforms_consistent : ∀ P ∈ platforms, (P.shape).consistent = true :=
  fun P hP => shape_consistent_of_sane P (platforms_sane P hP)

/-- in the table `int` is always wider than `char`: only `unsigned short` can fill `int` (class K2) -/
theorem platforms_char_lt_int : ∀ P ∈ platforms, (P.shape).charLtInt = true := by decide

example : ∃ P ∈ platforms, P.name = "win64" ∧ (P.shape).intLtLong = false := by decide
example : ∃ P ∈ platforms, P.name = "avr8" ∧ (P.shape).shortLtInt = false := by decide

/-! ## binary arithmetic and bit operators: usual arithmetic conversions -/

/-- AS PINNED.  For `+ - * / % & | ^` on operands of any two arithmetic types, the type the code attaches is the type
    of C17 6.3.1.8 / C++17 [expr]p11, PROVIDED the input is outside
      K1 `sameSizeDifferentRankMixedSign` (mixed signedness, the signed operand has the higher rank but is not wider), and
      K2 `promotesToUnsigned` for either operand (a sub-`int` type that fills `int`). -/
theorem conv_eq_spec_partial (s : Shape) (hs : s.consistent = true) (cpp : Bool) (op : BinOp) (t1 t2 : CT)
    (hop : op.cls = .arith ∨ op.cls = .bit) (hwt : wellTypedBin op t1 t2 = true)
    (h1 : sameSizeDifferentRankMixedSign s t1 t2 = false)
    (h2 : promotesToUnsigned s t1 = false) (h3 : promotesToUnsigned s t2 = false) :
    convBin .base s cpp op (declVT t1) (declVT t2) = some (asVT (specBin s cpp op t1 t2)) := by
  unfold convBin specBin
  rcases hop with hc | hc
  · rw [hc, cls_cpp_irrelevant .base s cpp .arith (by decide)]
    exact arith_base_partial s hs t1 t2 h1 h2 h3
  · obtain ⟨ha, hb⟩ := wellTyped_ints op t1 t2 (bit_intOnly op hc) hwt
    rw [hc, bit_eq_arith .base s cpp t1 t2 ha hb, cls_cpp_irrelevant .base s cpp .arith (by decide)]
    exact arith_base_partial s hs t1 t2 h1 h2 h3

-- the hypotheses are satisfiable, non-trivially: mixed signedness, different ranks, on the table's win64
example : ∃ P ∈ platforms, P.name = "win64" ∧ sameSizeDifferentRankMixedSign P.shape .uint .llong = false ∧
    promotesToUnsigned P.shape .uint = false ∧ wellTypedBin .add .uint .llong = true := by decide

/-- the same statement for the platforms of the table -/
theorem conv_eq_spec_partial_table (P : Plat) (hP : P ∈ platforms) (cpp : Bool) (op : BinOp) (t1 t2 : CT)
    (hop : op.cls = .arith ∨ op.cls = .bit) (hwt : wellTypedBin op t1 t2 = true)
    (h1 : sameSizeDifferentRankMixedSign P.shape t1 t2 = false)
    (h2 : promotesToUnsigned P.shape t1 = false) (h3 : promotesToUnsigned P.shape t2 = false) :
    convBin .base P.shape cpp op (declVT t1) (declVT t2) = some (asVT (specBin P.shape cpp op t1 t2)) :=
  conv_eq_spec_partial P.shape (platforms_consistent P hP) cpp op t1 t2 hop hwt h1 h2 h3

/-- F7: the full-strength statement is FALSE of the code as pinned: `unsigned int + long` on win64 (LLP64) is typed
    `signed long`; the language gives `unsigned long` -/
theorem conv_counterexample :
    ¬ ∀ P ∈ platforms, ∀ t1 t2 : CT,
        convBin .base P.shape false .add (declVT t1) (declVT t2) = some (asVT (specBin P.shape false .add t1 t2)) := by
  intro h
  have hw : ∃ P ∈ platforms, P.name = "win64" ∧
      convBin .base P.shape false .add (declVT .uint) (declVT .long) = some ⟨.long, .signed⟩ ∧
      asVT (specBin P.shape false .add .uint .long) = ⟨.long, .unsigned⟩ := by decide
  obtain ⟨P, hP, _, hc, hsp⟩ := hw
  have := h P hP .uint .long
  rw [hc, hsp] at this
  cases this

/-- the same on LP64 (unix64, the usual native platform): `unsigned long + long long` is typed `signed long long` -/
theorem conv_counterexample_lp64 :
    ∃ P ∈ platforms, P.name = "unix64" ∧
      convBin .base P.shape false .add (declVT .ulong) (declVT .llong) = some ⟨.llong, .signed⟩ ∧
      asVT (specBin P.shape false .add .ulong .llong) = ⟨.llong, .unsigned⟩ := by decide

/-- K1 is exactly a class of deviations: inside it the code NEVER gives the language's type -/
theorem sameSize_class_deviates (s : Shape) (hs : s.consistent = true) (cpp : Bool) (op : BinOp) (t1 t2 : CT)
    (hop : op.cls = .arith ∨ op.cls = .bit) (hwt : wellTypedBin op t1 t2 = true)
    (h1 : sameSizeDifferentRankMixedSign s t1 t2 = true) :
    convBin .base s cpp op (declVT t1) (declVT t2) ≠ some (asVT (specBin s cpp op t1 t2)) := by
  unfold convBin specBin
  rcases hop with hc | hc
  · rw [hc, cls_cpp_irrelevant .base s cpp .arith (by decide)]
    exact arith_base_k1 s hs t1 t2 h1
  · obtain ⟨ha, hb⟩ := wellTyped_ints op t1 t2 (bit_intOnly op hc) hwt
    rw [hc, bit_eq_arith .base s cpp t1 t2 ha hb, cls_cpp_irrelevant .base s cpp .arith (by decide)]
    exact arith_base_k1 s hs t1 t2 h1

/-- PATCHED (either patch state): no hypothesis is left — the type is the 6.3.1.8 type for all operands -/
theorem arith_fixed_eq_spec (v : Variant) (hv : v = .fixA ∨ v = .fixAB) (s : Shape) (hs : s.consistent = true)
    (cpp : Bool) (op : BinOp) (t1 t2 : CT) (hop : op.cls = .arith ∨ op.cls = .bit) (hwt : wellTypedBin op t1 t2 = true) :
    convBin v s cpp op (declVT t1) (declVT t2) = some (asVT (specBin s cpp op t1 t2)) := by
  have key : convBin .fixA s cpp op (declVT t1) (declVT t2) = some (asVT (specBin s cpp op t1 t2)) := by
    unfold convBin specBin
    rcases hop with hc | hc
    · rw [hc, cls_cpp_irrelevant .fixA s cpp .arith (by decide)]
      exact arith_fix_all s hs t1 t2
    · obtain ⟨ha, hb⟩ := wellTyped_ints op t1 t2 (bit_intOnly op hc) hwt
      rw [hc, bit_eq_arith .fixA s cpp t1 t2 ha hb, cls_cpp_irrelevant .fixA s cpp .arith (by decide)]
      exact arith_fix_all s hs t1 t2
  rcases hv with hv | hv
  · rw [hv]; exact key
  · rw [hv]; unfold convBin; rw [fixAB_cls_eq_fixA]; exact key

example : wellTypedBin .mod .ushort .llong = true := by decide

/-! ## integer promotions: unary `-`, `~` and shifts -/

/-- AS PINNED: `-a` and `~a` on a type below `int` are typed `signed int`; that is the promoted type of the language
    unless the operand is in K2 -/
theorem promotion_below_int (s : Shape) (hs : s.consistent = true) (cpp : Bool) (op : UnOp) (hop : op = .neg ∨ op = .bnot)
    (t : CT) (hwt : wellTypedUn op t = true) :
    (belowInt t = true → convUn .base s op (declVT t) = some ⟨.int, .signed⟩) ∧
    (promotesToUnsigned s t = false → convUn .base s op (declVT t) = some (asVT (specUn s cpp op t))) := by
  have h := table2 unary_tab s hs t
  have hb := List.all_eq_true.mp h .base (by decide)
  simp only [Bool.and_eq_true, Bool.or_eq_true, beq_self_eq_true, Bool.true_and, bne_self_eq_false, Bool.false_or,
    Bool.not_eq_true', same_iff] at hb
  obtain ⟨⟨hneg, hbnot⟩, hint⟩ := hb
  rcases hop with rfl | rfl
  · refine ⟨fun hbi => ?_, fun hk => ?_⟩
    · rcases hint with hh | hh
      · rw [hbi] at hh; cases hh
      · exact hh.1
    · rcases hneg with hh | hh
      · rw [hk] at hh; cases hh
      · exact hh
  · have hnf : t.isFloating = false := by simpa [wellTypedUn] using hwt
    refine ⟨fun hbi => ?_, fun hk => ?_⟩
    · rcases hint with hh | hh
      · rw [hbi] at hh; cases hh
      · exact hh.2
    · rcases hbnot with (hh | hh) | hh
      · rw [hnf] at hh; cases hh
      · rw [hk] at hh; cases hh
      · exact hh

example : belowInt .ushort = true ∧ wellTypedUn .bnot .ushort = true := by decide

/-- K2 witness from the table: on avr8 (`sizeof(short) == sizeof(int)`) `-us` is typed `signed int`, the language
    promotes `unsigned short` to `unsigned int` -/
theorem promotion_counterexample :
    ∃ P ∈ platforms, P.name = "avr8" ∧ convUn .base P.shape .neg (declVT .ushort) = some ⟨.int, .signed⟩ ∧
      asVT (specUn P.shape false .neg .ushort) = ⟨.int, .unsigned⟩ := by decide

/-- PATCHED: `-a`, `~a` have the promoted type, for all operands -/
theorem promotion_fixed (v : Variant) (hv : v = .fixA ∨ v = .fixAB) (s : Shape) (hs : s.consistent = true) (cpp : Bool)
    (op : UnOp) (hop : op = .neg ∨ op = .bnot) (t : CT) (hwt : wellTypedUn op t = true) :
    convUn v s op (declVT t) = some (asVT (specUn s cpp op t)) := by
  have h := table2 unary_tab s hs t
  have hb := List.all_eq_true.mp h v (Variant.mem_all v)
  have hne : (v == Variant.base) = false := by rcases hv with rfl | rfl <;> decide
  rcases hop with rfl | rfl
  · simp only [hne, Bool.false_and, Bool.false_or, Bool.and_eq_true, same_iff] at hb
    exact hb.1.1
  · have hnf : t.isFloating = false := by simpa [wellTypedUn] using hwt
    simp only [hne, hnf, Bool.false_and, Bool.false_or, Bool.and_eq_true, same_iff] at hb
    exact hb.1.2

/-- a shift takes the type of its promoted LEFT operand; the right operand and the language play no role.
    AS PINNED the promotion is always to `signed int`, which is the language's type outside K2 -/
theorem shift_takes_left_type (s : Shape) (hs : s.consistent = true) (cpp : Bool) (op : BinOp) (hop : op.cls = .shift)
    (t1 t2 : CT) (hwt : wellTypedBin op t1 t2 = true) :
    convBin .base s cpp op (declVT t1) (declVT t2) = some (if belowInt t1 then ⟨.int, .signed⟩ else declVT t1) ∧
    (promotesToUnsigned s t1 = false →
      convBin .base s cpp op (declVT t1) (declVT t2) = some (asVT (specBin s cpp op t1 t2))) := by
  obtain ⟨ha, hb⟩ := wellTyped_ints op t1 t2 (shift_intOnly op hop) hwt
  have hconv : convBin .base s cpp op (declVT t1) (declVT t2) = some (shiftResult .base s (declVT t1)) := by
    unfold convBin
    rw [hop]
    simp [convCls, declVT_isIntegral, hb]
  have h := table2 shift_tab s hs t1
  simp only [ha, Bool.false_or] at h
  have hbv := List.all_eq_true.mp h .base (by decide)
  simp only [Bool.and_eq_true, Bool.or_eq_true, beq_self_eq_true, Bool.true_and, bne_self_eq_false, Bool.false_or,
    beq_iff_eq] at hbv
  obtain ⟨h1, h2⟩ := hbv
  refine ⟨?_, fun hk => ?_⟩
  · rw [hconv, vcode_inj _ _ h1]
  · rcases h2 with hh | hh
    · rw [hk] at hh; cases hh
    · rw [hconv, vcode_inj _ _ hh]
      unfold specBin
      rw [hop]

example : wellTypedBin .shl .uchar .llong = true ∧ (BinOp.shl).cls = .shift := by decide

/-- PATCHED: the shift has the promoted left type of the language, for all integer operands -/
theorem shift_fixed (v : Variant) (hv : v = .fixA ∨ v = .fixAB) (s : Shape) (hs : s.consistent = true) (cpp : Bool)
    (op : BinOp) (hop : op.cls = .shift) (t1 t2 : CT) (hwt : wellTypedBin op t1 t2 = true) :
    convBin v s cpp op (declVT t1) (declVT t2) = some (asVT (specBin s cpp op t1 t2)) := by
  obtain ⟨ha, hb⟩ := wellTyped_ints op t1 t2 (shift_intOnly op hop) hwt
  have hconv : convBin v s cpp op (declVT t1) (declVT t2) = some (shiftResult v s (declVT t1)) := by
    unfold convBin
    rw [hop]
    simp [convCls, declVT_isIntegral, hb]
  have h := table2 shift_tab s hs t1
  simp only [ha, Bool.false_or] at h
  have hbv := List.all_eq_true.mp h v (Variant.mem_all v)
  have hne : (v == Variant.base) = false := by rcases hv with rfl | rfl <;> decide
  simp only [Bool.and_eq_true, Bool.or_eq_true, hne, Bool.false_and, Bool.false_or, beq_iff_eq] at hbv
  rw [hconv, vcode_inj _ _ hbv.2]
  unfold specBin
  rw [hop]

/-! ## comparison and logical operators, `!` -/

/-- every state of the code types `< <= > >= == != && ||` as `bool`; that is the language's type in C++ and NOT in C
    (C17 6.5.8p6: `int`) — class K3 -/
theorem comparison_yields_int_or_bool (v : Variant) (s : Shape) (cpp : Bool) (op : BinOp) (hop : boolValued op = true)
    (t1 t2 : CT) :
    convBin v s cpp op (declVT t1) (declVT t2) = some ⟨.bool, .unknown⟩ ∧
    (convBin v s cpp op (declVT t1) (declVT t2) = some (asVT (specBin s cpp op t1 t2)) ↔ cpp = true) := by
  have hc : op.cls = .cmp ∨ op.cls = .logical := by
    simpa [boolValued] using hop
  have h1 : convBin v s cpp op (declVT t1) (declVT t2) = some ⟨.bool, .unknown⟩ := by
    unfold convBin
    rcases hc with hc | hc <;> rw [hc] <;> rfl
  refine ⟨h1, ?_⟩
  rw [h1]
  unfold specBin
  rcases hc with hc | hc <;> rw [hc] <;> cases cpp <;> simp [asVT, declVT]

example : boolValued .le = true ∧ boolValued .lor = true := by decide

/-- `!a` likewise -/
theorem lnot_yields_int_or_bool (v : Variant) (s : Shape) (cpp : Bool) (t : CT) :
    convUn v s .lnot (declVT t) = some ⟨.bool, .unknown⟩ ∧
    (convUn v s .lnot (declVT t) = some (asVT (specUn s cpp .lnot t)) ↔ cpp = true) := by
  refine ⟨rfl, ?_⟩
  cases cpp <;> simp [convUn, specUn, asVT, declVT]

/-- the full-strength statement for C is false (witness: `a < b` on two ints, any platform) -/
theorem comparison_c_counterexample :
    ¬ ∀ (s : Shape) (t1 t2 : CT), convBin .base s false .lt (declVT t1) (declVT t2) = some (asVT (specBin s false .lt t1 t2)) := by
  intro h
  have := h ⟨true, true, true, true, false, false⟩ .int .int
  revert this
  decide

/-! ## assignments and casts -/

/-- `a = b`, `a += b`, …: the type of the left operand, in every state of the code, as the language says -/
theorem assignment_keeps_left_type (v : Variant) (s : Shape) (cpp : Bool) (op : BinOp) (hop : op.cls = .assign) (t1 t2 : CT) :
    convBin v s cpp op (declVT t1) (declVT t2) = some (asVT (specBin s cpp op t1 t2)) := by
  unfold convBin specBin
  rw [hop]
  rfl

/-- `(T)a` has type `T` -/
theorem cast_takes_target_type (t : CT) : convCast t = asVT t := rfl

/-! ## `++` / `--` -/

/-- AS PINNED and with the first patch: `++a`, `a++`, `--a`, `a--` have the operand's type iff that type is not below
    `int` (class K4: a sub-`int` operand is typed `int`; the language keeps `char` / `short`) -/
theorem incdec_partial (v : Variant) (hv : v = .base ∨ v = .fixA) (s : Shape) (hs : s.consistent = true) (cpp : Bool)
    (op : UnOp) (hop : op.isIncDec = true) (t : CT) (hwt : wellTypedUn op t = true) :
    (belowInt t = false → convUn v s op (declVT t) = some (asVT (specUn s cpp op t))) ∧
    (belowInt t = true → convUn v s op (declVT t) ≠ some (asVT (specUn s cpp op t))) := by
  have hnb : (t == CT.bool) = false := by
    cases op <;> simp [UnOp.isIncDec] at hop <;> simpa [wellTypedUn] using hwt
  have hspec : asVT (specUn s cpp op t) = declVT t := by
    cases op <;> simp [UnOp.isIncDec] at hop <;> rfl
  have hmem : op ∈ incdecOps := by
    cases op <;> simp [UnOp.isIncDec] at hop <;> decide
  have h := table2 incdec_tab s hs t
  simp only [hnb, Bool.false_or] at h
  have h2 := List.all_eq_true.mp h op hmem
  simp only [Bool.and_eq_true] at h2
  have h3 := List.all_eq_true.mp h2.2 v (by rcases hv with rfl | rfl <;> decide)
  rw [hspec]
  refine ⟨fun hb => ?_, fun hb => ?_⟩
  · simp only [hb] at h3
    exact (same_iff _ _).mp (by simpa using h3)
  · simp only [hb, if_true] at h3
    exact (same_false_iff _ _).mp (by simpa using h3)

example : UnOp.isIncDec .postInc = true ∧ wellTypedUn .postInc .ushort = true ∧ belowInt .ushort = true := by decide

/-- both patches: the operand's type, always -/
theorem incdec_fixed (s : Shape) (hs : s.consistent = true) (cpp : Bool)
    (op : UnOp) (hop : op.isIncDec = true) (t : CT) (hwt : wellTypedUn op t = true) :
    convUn .fixAB s op (declVT t) = some (asVT (specUn s cpp op t)) := by
  have hnb : (t == CT.bool) = false := by
    cases op <;> simp [UnOp.isIncDec] at hop <;> simpa [wellTypedUn] using hwt
  have hspec : asVT (specUn s cpp op t) = declVT t := by
    cases op <;> simp [UnOp.isIncDec] at hop <;> rfl
  have hmem : op ∈ incdecOps := by
    cases op <;> simp [UnOp.isIncDec] at hop <;> decide
  have h := table2 incdec_tab s hs t
  simp only [hnb, Bool.false_or] at h
  have h2 := List.all_eq_true.mp h op hmem
  simp only [Bool.and_eq_true] at h2
  rw [hspec]
  exact (same_iff _ _).mp h2.1

/-! ## `?:` -/

/-- AS PINNED, operands of different `ValueType::Type`: typed like `a + b`, hence right outside K1/K2 -/
theorem ternary_partial_different (s : Shape) (hs : s.consistent = true) (cpp : Bool) (t1 t2 : CT)
    (hd : sameVType t1 t2 = false)
    (h1 : sameSizeDifferentRankMixedSign s t1 t2 = false)
    (h2 : promotesToUnsigned s t1 = false) (h3 : promotesToUnsigned s t2 = false) :
    convTernary .base s cpp (declVT t1) (declVT t2) = some (asVT (specTernary s cpp t1 t2)) := by
  have hne : (declVT t1).type ≠ (declVT t2).type := by simpa [sameVType] using hd
  have hne2 : (t1 == t2) = false := by
    cases h : (t1 == t2)
    · rfl
    · have : t1 = t2 := by simpa using h
      subst this
      simp [sameVType] at hd
  rw [ternary_eq_arith .base s cpp _ _ hne, cls_cpp_irrelevant .base s cpp .arith (by decide)]
  unfold specTernary
  simp only [hne2, Bool.and_false, Bool.false_eq_true, if_false]
  exact arith_base_partial s hs t1 t2 h1 h2 h3

example : sameVType .uchar .llong = false ∧ sameVType .int .uint = true := by decide

/-- AS PINNED and with the first patch, operands of one `ValueType::Type` (class K5): the `?` gets the type of the
    SECOND operand (`isTypeEqual` does not look at the sign); that is the language's type when the two types are
    identical and (C++ or the type is not below `int`) -/
theorem ternary_partial_same (v : Variant) (hv : v = .base ∨ v = .fixA) (s : Shape) (hs : s.consistent = true) (cpp : Bool)
    (t1 t2 : CT) (hsame : sameVType t1 t2 = true) :
    convTernary v s cpp (declVT t1) (declVT t2) = some (declVT t1) ∧
    (t1 = t2 → (cpp = true ∨ belowInt t1 = false) →
      convTernary v s cpp (declVT t1) (declVT t2) = some (asVT (specTernary s cpp t1 t2))) := by
  have h := table3 ternary_same_tab s hs t1 t2
  simp only [hsame, Bool.not_true, Bool.false_or] at h
  have h2 := List.all_eq_true.mp h cpp (mem_bools cpp)
  simp only [Bool.and_eq_true] at h2
  have h3 := List.all_eq_true.mp h2.1 v (by rcases hv with rfl | rfl <;> decide)
  simp only [Bool.and_eq_true, Bool.or_eq_true, same_iff, Bool.not_eq_true'] at h3
  refine ⟨h3.1, fun he hc => ?_⟩
  rcases h3.2 with hh | hh
  · subst he
    rcases hc with hc | hc <;> simp [hc] at hh
  · exact hh

/-- K5 witness: `c ? i : u` (int, unsigned int) in C++ is typed `signed int`; the language gives `unsigned int` -/
theorem ternary_counterexample :
    ¬ ∀ (s : Shape) (t1 t2 : CT),
        convTernary .base s true (declVT t1) (declVT t2) = some (asVT (specTernary s true t1 t2)) := by
  intro h
  have := h ⟨true, true, true, true, false, false⟩ .int .uint
  revert this
  decide

/-- first patch: operands of different `ValueType::Type` now follow 6.3.1.8 without exception -/
theorem ternary_fixA_different (s : Shape) (hs : s.consistent = true) (cpp : Bool) (t1 t2 : CT)
    (hd : sameVType t1 t2 = false) :
    convTernary .fixA s cpp (declVT t1) (declVT t2) = some (asVT (specTernary s cpp t1 t2)) := by
  have hne : (declVT t1).type ≠ (declVT t2).type := by simpa [sameVType] using hd
  have hne2 : (t1 == t2) = false := by
    cases h : (t1 == t2)
    · rfl
    · have : t1 = t2 := by simpa using h
      subst this
      simp [sameVType] at hd
  rw [ternary_eq_arith .fixA s cpp _ _ hne, cls_cpp_irrelevant .fixA s cpp .arith (by decide)]
  unfold specTernary
  simp only [hne2, Bool.and_false, Bool.false_eq_true, if_false]
  exact arith_fix_all s hs t1 t2

/-- both patches: the language's type for all operands, except `_Bool ? _Bool : _Bool` in C (left `bool`, K3) -/
theorem ternary_fixed (s : Shape) (hs : s.consistent = true) (cpp : Bool) (t1 t2 : CT)
    (hb : cpp = true ∨ t1 ≠ .bool ∨ t2 ≠ .bool) :
    convTernary .fixAB s cpp (declVT t1) (declVT t2) = some (asVT (specTernary s cpp t1 t2)) := by
  cases hsv : sameVType t1 t2
  · have hne : (declVT t1).type ≠ (declVT t2).type := by simpa [sameVType] using hsv
    have hne2 : (t1 == t2) = false := by
      cases h : (t1 == t2)
      · rfl
      · have : t1 = t2 := by simpa using h
        subst this
        simp [sameVType] at hsv
    rw [ternary_eq_arith .fixAB s cpp _ _ hne, fixAB_cls_eq_fixA, cls_cpp_irrelevant .fixA s cpp .arith (by decide)]
    unfold specTernary
    simp only [hne2, Bool.and_false, Bool.false_eq_true, if_false]
    exact arith_fix_all s hs t1 t2
  · have h := table3 ternary_same_tab s hs t1 t2
    simp only [hsv, Bool.not_true, Bool.false_or] at h
    have h2 := List.all_eq_true.mp h cpp (mem_bools cpp)
    simp only [Bool.and_eq_true, Bool.or_eq_true, same_iff, Bool.not_eq_true', beq_iff_eq] at h2
    rcases h2.2 with ⟨⟨hc, h1⟩, h2'⟩ | hh
    · rcases hb with hb | hb | hb
      · rw [hb] at hc; cases hc
      · exact absurd h1 hb
      · exact absurd h2' hb
    · exact hh

example : (true = true ∨ CT.bool ≠ CT.bool ∨ CT.bool ≠ CT.bool) := Or.inl rfl

/-! ## integer literals (unbounded: every value, every triple of maxima) -/

/-- the type the code gives an integer literal is the type of C17 6.4.4.1p5 / C++17 [lex.icon], for EVERY value and every
    platform with INT_MAX ≤ LONG_MAX, PROVIDED the literal is outside
      K6 `octalAsDecimal` (octal literal without `u` whose type is `unsigned int` / `unsigned long`),
    and has a type at all (`hfit`, `hfitd`).  `dec` as the code sees it: `base != hex` (an octal literal is all digits). -/
theorem literal_type_partial (imax lmax llmax value longs : Nat) (base : Base) (us : Bool)
    (hm1 : imax ≤ lmax) (hl : longs ≤ 2)
    (h7 : octalAsDecimal imax lmax base us longs value = false)
    (hfit : value ≤ 2 * llmax + 1) (hfitd : base = .dec → us = false → value ≤ llmax) :
    (litSpec imax lmax llmax base us longs value).map asVT
      = some (litTypeCore imax lmax llmax (base != .hex) us longs value) := by
  have e1 : value >>> 1 = value / 2 := by simp [Nat.shiftRight_eq_div_pow]
  have hl' : longs = 0 ∨ longs = 1 ∨ longs = 2 := by omega
  simp only [octalAsDecimal] at h7
  rcases hl' with rfl | rfl | rfl <;> cases base <;> cases us <;>
    simp [litSpec, firstFit, litTypeCore, e1, apply_ite (Option.map asVT), asVT, declVT] at h7 hfitd ⊢ <;>
    (repeat' split) <;> first | rfl | omega | simp_all

-- the hypotheses are satisfiable: `020000000000` (2^31, octal) with 32-bit int and the `u` suffix
example : octalAsDecimal 2147483647 9223372036854775807 .oct true 0 2147483648 = false := by decide
example : octalAsDecimal 2147483647 9223372036854775807 .hex false 0 4294967296 = false := by decide

/-- K6 is exactly a class of deviations: inside it the code never gives the language's type -/
theorem literal_octal_deviates (imax lmax llmax value longs : Nat) (base : Base) (us : Bool)
    (hm1 : imax ≤ lmax) (hl : longs ≤ 2)
    (h : octalAsDecimal imax lmax base us longs value = true) :
    (litSpec imax lmax llmax base us longs value).map asVT
      ≠ some (litTypeCore imax lmax llmax (base != .hex) us longs value) := by
  have e1 : value >>> 1 = value / 2 := by simp [Nat.shiftRight_eq_div_pow]
  have hl' : longs = 0 ∨ longs = 1 ∨ longs = 2 := by omega
  simp only [octalAsDecimal] at h
  rcases hl' with rfl | rfl | rfl <;> cases base <;> cases us <;>
    simp [litSpec, firstFit, litTypeCore, e1, apply_ite (Option.map asVT), asVT, declVT] at h ⊢ <;>
    (repeat' split) <;> first | omega | simp_all | (intro hh; simp_all; omega)

/-- the maxima of every platform of the table are ordered, so `literal_type_partial` applies to it -/
theorem platforms_maxima_ordered : ∀ P ∈ platforms,
    maxValue (P.charBit * P.sizeofInt) ≤ maxValue (P.charBit * P.sizeofLong) ∧
    maxValue (P.charBit * P.sizeofLong) ≤ maxValue (P.charBit * P.sizeofLongLong) := by decide

/-- K6 witness: `037777777777` (= UINT_MAX) on unix64 is typed `long`; the language gives `unsigned int` -/
theorem literal_counterexample_oct :
    ∃ P ∈ platforms, P.name = "unix64" ∧ litType P false true false 0 4294967295 = ⟨.long, .signed⟩ ∧
      litSpec (maxValue (P.charBit * P.sizeofInt)) (maxValue (P.charBit * P.sizeofLong))
        (maxValue (P.charBit * P.sizeofLongLong)) .oct false 0 4294967295 = some .uint := by decide

/-- regression of the repaired `>> 2` window (/repo a4b8285): `0x100000000` on unix64 is `long` in model and language -/
theorem literal_hex_window_closed :
    ∃ P ∈ platforms, P.name = "unix64" ∧ litType P false false false 0 4294967296 = ⟨.long, .signed⟩ ∧
      litSpec (maxValue (P.charBit * P.sizeofInt)) (maxValue (P.charBit * P.sizeofLong))
        (maxValue (P.charBit * P.sizeofLongLong)) .hex false 0 4294967296 = some .long := by decide

/-! ## nested expressions: the type of a tree (structural induction)

`typeOf` folds the per-node rules of the code over an expression tree (variables and integer literals at the leaves),
`specOf` folds the language rules, `ok` says that every node is well-typed and outside K1..K6 (judged by the LANGUAGE
types of its operands).  The node lemmas restate the per-operator theorems in that vocabulary; the tree theorem is the
induction.  That the real code is compositional like `typeOf` is tied by the nested-expression correspondence. -/

theorem node_bin (s : Shape) (hs : s.consistent = true) (cpp : Bool) (op : BinOp) (t1 t2 : CT)
    (h : binClass s cpp op t1 t2 = .fine) :
    convBin .base s cpp op (declVT t1) (declVT t2) = some (asVT (specBin s cpp op t1 t2)) := by
  unfold binClass at h
  by_cases hwt : wellTypedBin op t1 t2 = true
  · simp only [hwt, Bool.not_true, Bool.false_eq_true, if_false] at h
    cases hc : op.cls <;> rw [hc] at h
    · -- arith
      simp only [uacClass] at h
      by_cases hk2 : (promotesToUnsigned s t1 || promotesToUnsigned s t2) = true
      · simp [hk2] at h
      · by_cases hk1 : sameSizeDifferentRankMixedSign s t1 t2 = true
        · simp [hk2, hk1] at h
        · simp only [Bool.or_eq_true, not_or, Bool.not_eq_true] at hk2
          exact conv_eq_spec_partial s hs cpp op t1 t2 (Or.inl hc) hwt (by simpa using hk1) hk2.1 hk2.2
    · -- bit
      simp only [uacClass] at h
      by_cases hk2 : (promotesToUnsigned s t1 || promotesToUnsigned s t2) = true
      · simp [hk2] at h
      · by_cases hk1 : sameSizeDifferentRankMixedSign s t1 t2 = true
        · simp [hk2, hk1] at h
        · simp only [Bool.or_eq_true, not_or, Bool.not_eq_true] at hk2
          exact conv_eq_spec_partial s hs cpp op t1 t2 (Or.inr hc) hwt (by simpa using hk1) hk2.1 hk2.2
    · -- shift
      by_cases hk2 : promotesToUnsigned s t1 = true
      · simp [hk2] at h
      · exact (shift_takes_left_type s hs cpp op hc t1 t2 hwt).2 (by simpa using hk2)
    · -- cmp
      cases cpp
      · simp at h
      · exact ((comparison_yields_int_or_bool .base s true op (by simp [boolValued, hc]) t1 t2).2).mpr rfl
    · -- logical
      cases cpp
      · simp at h
      · exact ((comparison_yields_int_or_bool .base s true op (by simp [boolValued, hc]) t1 t2).2).mpr rfl
    · exact assignment_keeps_left_type .base s cpp op hc t1 t2
  · simp [hwt] at h

theorem node_un (s : Shape) (hs : s.consistent = true) (cpp : Bool) (op : UnOp) (t : CT)
    (h : unClass s cpp op t = .fine) :
    convUn .base s op (declVT t) = some (asVT (specUn s cpp op t)) := by
  unfold unClass at h
  by_cases hwt : wellTypedUn op t = true
  · simp only [hwt, Bool.not_true, Bool.false_eq_true, if_false] at h
    cases op
    · by_cases hk2 : promotesToUnsigned s t = true
      · simp [hk2] at h
      · exact (promotion_below_int s hs cpp .neg (Or.inl rfl) t hwt).2 (by simpa using hk2)
    · by_cases hk2 : promotesToUnsigned s t = true
      · simp [hk2] at h
      · exact (promotion_below_int s hs cpp .bnot (Or.inr rfl) t hwt).2 (by simpa using hk2)
    · cases cpp
      · simp at h
      · exact ((lnot_yields_int_or_bool .base s true t).2).mpr rfl
    all_goals
      by_cases hb : belowInt t = true
      · simp [hb] at h
      · exact (incdec_partial .base (Or.inl rfl) s hs cpp _ rfl t hwt).1 (by simpa using hb)
  · simp [hwt] at h

theorem node_tern (s : Shape) (hs : s.consistent = true) (cpp : Bool) (t1 t2 : CT)
    (h : ternClass s cpp t1 t2 = .fine) :
    convTernary .base s cpp (declVT t1) (declVT t2) = some (asVT (specTernary s cpp t1 t2)) := by
  unfold ternClass at h
  by_cases hsv : sameVType t1 t2 = true
  · simp only [hsv, if_true] at h
    by_cases hc : (t1 == t2 && (cpp || !belowInt t1)) = true
    · simp only [Bool.and_eq_true, beq_iff_eq, Bool.or_eq_true, Bool.not_eq_true'] at hc
      exact (ternary_partial_same .base (Or.inl rfl) s hs cpp t1 t2 hsv).2 hc.1 hc.2
    · simp only [hc, Bool.false_eq_true, if_false] at h
      by_cases hb : (!cpp && t1 == CT.bool && t2 == CT.bool) = true
      · simp [hb] at h
      · simp [hb] at h
  · have hsv' : sameVType t1 t2 = false := by simpa using hsv
    simp only [hsv', Bool.false_eq_true, if_false, uacClass] at h
    by_cases hk2 : (promotesToUnsigned s t1 || promotesToUnsigned s t2) = true
    · simp [hk2] at h
    · by_cases hk1 : sameSizeDifferentRankMixedSign s t1 t2 = true
      · simp [hk2, hk1] at h
      · simp only [Bool.or_eq_true, not_or, Bool.not_eq_true] at hk2
        exact ternary_partial_different s hs cpp t1 t2 hsv' (by simpa using hk1) hk2.1 hk2.2

theorem node_lit (P : Plat) (hP : sane P = true) (base : Base) (us : Bool) (longs value : Nat)
    (h : litClass P base us longs value = .fine) :
    litType P false (base != .hex) us longs value
      = asVT ((litSpec (imaxOf P) (lmaxOf P) (llmaxOf P) base us longs value).getD .int) := by
  unfold litClass at h
  by_cases h1 : (decide (longs > 2) || (litSpec (imaxOf P) (lmaxOf P) (llmaxOf P) base us longs value).isNone) = true
  · simp [h1] at h
  · simp only [h1, Bool.false_eq_true, if_false] at h
    by_cases h6 : octalAsDecimal (imaxOf P) (lmaxOf P) base us longs value = true
    · simp [h6] at h
    · simp only [Bool.or_eq_true, decide_eq_true_eq, not_or, Option.isNone_iff_eq_none] at h1
      obtain ⟨hl, hsome⟩ := h1
      obtain ⟨t, ht⟩ := Option.ne_none_iff_exists'.mp hsome
      have hfit := litSpec_some_fits (imaxOf P) (lmaxOf P) (llmaxOf P) value longs base us t
        (imax_le_lmax_of_sane P hP) (lmax_le_llmax_of_sane P hP) (by omega) ht
      have key := literal_type_partial (imaxOf P) (lmaxOf P) (llmaxOf P) value longs base us
        (imax_le_lmax_of_sane P hP) (by omega) (by simpa using h6) hfit.1 hfit.2
      rw [ht] at key ⊢
      simp only [Option.map_some, Option.some.injEq] at key
      simp only [Option.getD_some, litType, Bool.false_eq_true, if_false]
      exact key.symm

/-- THE TREE THEOREM (code as pinned).  For every platform with ordered sizes, both languages and every expression tree over
    variables of the 15 arithmetic types and integer literals: if every node is well-typed and outside K1..K6 (`ok`), the
    type the code attaches to the root is the type the language gives the whole expression. -/
theorem typeOf_eq_spec_partial (P : Plat) (hP : sane P = true) (cpp : Bool) (e : Expr) (h : ok P cpp e = true) :
    typeOf .base P cpp e = some (asVT (specOf P cpp e)) := by
  have hs := shape_consistent_of_sane P hP
  induction e with
  | var t => rfl
  | lit base us longs value =>
    simp only [ok, beq_iff_eq] at h
    simp only [typeOf, specOf]
    rw [node_lit P hP base us longs value h]
  | un op e ih =>
    simp only [ok, Bool.and_eq_true, beq_iff_eq] at h
    have hr := h.1
    simp only [rootClass] at hr
    by_cases hv : (op.isIncDec && !e.isVar) = true
    · simp [hv] at hr
    · simp only [hv, Bool.false_eq_true, if_false] at hr
      simp only [typeOf, ih h.2, specOf]
      exact node_un P.shape hs cpp op _ hr
  | bin op a b iha ihb =>
    simp only [ok, Bool.and_eq_true, beq_iff_eq] at h
    have hr := h.1.1
    simp only [rootClass] at hr
    by_cases hv : (op.cls == OpClass.assign && !a.isVar) = true
    · simp [hv] at hr
    · simp only [hv, Bool.false_eq_true, if_false] at hr
      simp only [typeOf, iha h.1.2, ihb h.2, specOf]
      exact node_bin P.shape hs cpp op _ _ hr
  | tern c a b _ iha ihb =>
    simp only [ok, Bool.and_eq_true, beq_iff_eq] at h
    have hr := h.1.1.1
    simp only [rootClass] at hr
    simp only [typeOf, iha h.1.2, ihb h.2, specOf]
    exact node_tern P.shape hs cpp _ _ hr
  | cast t e _ => rfl

/-- for the platforms of the generated table -/
theorem typeOf_eq_spec_partial_table (P : Plat) (hP : P ∈ platforms) (cpp : Bool) (e : Expr) (h : ok P cpp e = true) :
    typeOf .base P cpp e = some (asVT (specOf P cpp e)) :=
  typeOf_eq_spec_partial P (platforms_sane P hP) cpp e h

-- `ok` is satisfiable by nested trees with all node kinds: `(unsigned char)(c ? (a * 2u) << b : -d) + 0x7fL` on unix64, C++
example : ∃ P ∈ platforms, P.name = "unix64" ∧
    ok P true (.bin .add (.cast .uchar (.tern (.bin .lt (.var .int) (.var .long))
        (.bin .shl (.bin .mul (.var .short) (.lit .dec true 0 2)) (.var .schar)) (.un .neg (.var .uint))))
      (.lit .hex false 1 127)) = true := by decide

/-- the full-strength tree statement is false of the code as pinned: a K1 node below the root (`(u + l) * 2` on win64) -/
theorem typeOf_counterexample :
    ∃ P ∈ platforms, P.name = "win64" ∧
      typeOf .base P false (.bin .mul (.bin .add (.var .uint) (.var .long)) (.lit .dec false 0 2)) = some ⟨.long, .signed⟩ ∧
      asVT (specOf P false (.bin .mul (.bin .add (.var .uint) (.var .long)) (.lit .dec false 0 2))) = ⟨.long, .unsigned⟩ ∧
      firstClass P false (.bin .mul (.bin .add (.var .uint) (.var .long)) (.lit .dec false 0 2)) = .k1 := by decide

end Cppcheck.C09

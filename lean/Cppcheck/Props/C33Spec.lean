import Cppcheck.Proofs.MatchSpec
/-
C33 (M4) — the classification the compiler model uses IS the documented grammar.

`DocCmd` / `PlainLit` / `DocAtom` / `DocWord` / `DocPattern` (Proofs/MatchSpec.lean, top of the file) transcribe the
doc comment of `Token::Match` in lib/token.h as inductive relations between a text and its meaning;
they do not mention `Word.ofStr`, `Atom.ofStr`, `Cmd.ofStr`, `words` or `parse`.  The theorems below say
that a text is a documented word / pattern with meaning `W` exactly when it is well-formed
(`wordWF` / `patternWF`, the decidable predicate T2 checks on every pattern literal of lib/*.cpp) and
the classification function — the one `compile` calls and `lang` is evaluated on — returns `W`.
So `compiled_eq_language_partial` and `interpreted_eq_language` are statements about the documented
language, not about the compiler's own reading of it, and a misclassification in `Word.ofStr`
(e.g. `!!` tested before `|`, a missing `%cmd%`) would make these theorems fail.
-/
namespace Cppcheck.Match
open Cppcheck.Wire

/-- **a text is a documented word with meaning `W` iff it is well-formed and classified as `W`** -/
theorem docWord_iff_ofStr (w : Str) (W : Word) (hsp : ' ' ∉ w) :
    DocWord w W ↔ (wordWF w = true ∧ Word.ofStr w = W) :=
  ⟨docWord_ofStr w W, fun ⟨h1, h2⟩ => h2 ▸ ofStr_docWord w hsp h1⟩

/-- **a text is a documented pattern with meaning `Ws` iff it is well-formed and parsed as `Ws`** -/
theorem docPattern_iff_parse (p : Str) (Ws : List Word) :
    DocPattern p Ws ↔ (patternWF p = true ∧ parse p = Ws) :=
  ⟨docPattern_parse p Ws, fun ⟨h1, h2⟩ => h2 ▸ parse_docPattern (p.length + 1) p (by omega) h1⟩

/-- the grammar is unambiguous: a pattern text has at most one meaning -/
theorem docPattern_unique (p : Str) (Ws Ws' : List Word) (h : DocPattern p Ws) (h' : DocPattern p Ws') : Ws = Ws' := by
  rw [← ((docPattern_iff_parse p Ws).1 h).2, ← ((docPattern_iff_parse p Ws').1 h').2]

/-! the grammar derives the documented examples (built by hand from the constructors, not through
    `parse`), and each disambiguation rule matters -/

example : DocPattern ") const|void {".toList
    [.one (.lit [')']), .alts [.lit "const".toList, .lit "void".toList] false, .one (.lit ['{'])] :=
  .word [')'] _ _ _ (.one _ _ (.lit (by decide)) (by decide) (by decide))
    (.word "const|void".toList _ _ _
      (.alts ["const".toList, "void".toList] _ (by decide) (by decide)
        (.cons (.lit (by decide)) (.cons (.lit (by decide)) .nil)) (by decide) (by decide))
      (.last ['{'] _ (.one _ _ (.lit (by decide)) (by decide) (by decide))))

example : DocWord "%var%|%num%|)".toList (.alts [.cmd .var, .cmd .num, .lit [')']] false) :=
  .alts ["%var%".toList, "%num%".toList, [')']] _ (by decide) (by decide)
    (.cons (.cmd .var) (.cons (.cmd .num) (.cons (.lit (by decide)) .nil))) (by decide) (by decide)

example : DocWord "int|void|".toList (.alts [.lit "int".toList, .lit "void".toList] true) :=
  .alts ["int".toList, "void".toList, []] _ (by decide) (by decide)
    (.cons (.lit (by decide)) (.cons (.lit (by decide)) .nil)) (by decide) (by decide)

example : DocWord "!!else".toList (.neg "else".toList) := .neg _ (by decide) (by decide) (by decide)
example : DocWord "[;{}]".toList (.cls [';', '{', '}']) := DocWord.cls [';', '{', '}'] (by decide) (by decide)
-- `[a|b]` is a character class, not the alternatives `[a` / `b]` (rule `Bracketed`)
example : Word.ofStr "[a|b]".toList = .cls ['a', '|', 'b'] ∧ wordWF "[a|b]".toList = true := by decide
-- `%foo%` is not a documented word (neither a command nor a plain text)
example : wordWF "%foo%".toList = false := by decide

end Cppcheck.Match

import Cppcheck.Proofs.AliasScope
import Cppcheck.Proofs.PPMacro
/-
C06 — typedef / alias / macro expansion is transparent: property theorems for the alias-scoping core (partial: level "other").

`alias_refines_scoping`: expanding typedef / using names with the bindings of an undo-log symbol table (the structure of
lib/tokenize.cpp's `VariableMap`, C08) gives exactly the program obtained with lexical scoping (stack of scopes), for every
program of the modelled language: any nesting, aliases of aliases, pointers, shadowing of an alias by a variable / parameter /
inner alias and the other way round.  The macro part of the property is `Cppcheck.PPMacro.expand_object_macro_eq_subst` (C11).
TemplateSimplifier is not modelled.
-/
namespace Cppcheck.AliasScope
open Cppcheck.VarMap

/-- the ids the undo-log table writes to the names of a program are those of lexical scoping -/
theorem alias_ids_refine (p : List Item) : run VarMap.init (events 0 p) = srun Spec.init (events 0 p) :=
  noGuse_run _ _ _ Rel_init (noGuse_of_plain (plain_events p 0))
    (noVarHidden_of_noHide _ _ (noHide_of_plain (plain_events p 0)))

/-- **alias expansion with the undo-log table = substitution under lexical scoping** -/
theorem alias_refines_scoping (p : List Item) : expandImpl p = expandSpec p := by
  unfold expandImpl expandSpec
  rw [alias_ids_refine]

/-- a program with nested shadowing: `typedef int n0; int f0(n0 n1){ typedef char n0; n0 n2 = 1; { long n0 = 2; n1 = n0; } n0 * n3; }`:
the inner alias hides the outer, the variable hides the inner alias, after the block the inner alias is visible again -/
example :
    expandImpl [.tdef false 0 (.base 0), .fopen 0 (some (1, .name 0)), .tdef false 0 (.base 1), .vdecl 2 (.name 0) (some (.num 1)),
      .opn, .vdecl 0 (.base 2) (some (.num 2)), .assign 1 (.var 0), .cls, .vdecl 3 (.ptr (.name 0)) none, .cls] =
    [.fopen 0 (some (1, .base 0)), .vdecl 2 (.base 1) (some (.num 1)),
      .opn, .vdecl 0 (.base 2) (some (.num 2)), .assign 1 (.var 0), .cls, .vdecl 3 (.ptr (.base 1)) none, .cls] := by decide

/-- the macro part of the property (proved for C11, restated here): for a table of object-like macros whose replacement
lists contain no macro name and no `#`, a text and the text with every macro name substituted by its replacement list are the
same token sequence after preprocessing -/
theorem object_macro_expansion_eq_subst (q : Cppcheck.PPMacro.Quirks) (ms : List Cppcheck.PPMacro.Macro)
    (hf : Cppcheck.PPMacro.flatTable ms = true) (ts : List Cppcheck.PPMacro.XTok) (hb : ∀ t ∈ ts, t.blue = false) :
    Cppcheck.PPMacro.expand q ms [] ts = .ok (ts.flatMap (Cppcheck.PPMacro.substTok ms)) :=
  Cppcheck.PPMacro.expand_flat q ms hf ts hb

end Cppcheck.AliasScope

import Cppcheck.Model.CondExpr
import Cppcheck.Model.CondOpposite
import Cppcheck.Model.CondTypeRange
namespace Cppcheck.CondExpr
end Cppcheck.CondExpr

import Cppcheck.Proofs.CondOpposite
import Cppcheck.Proofs.CondTypeRange
/-
C03 — always-true / always-false verdicts are true: the property theorems.

Model: Model/CondExpr.lean (condition language, C17 semantics on LP64, `none` = undefined behaviour),
Model/CondOpposite.lean (`isSame` = isSameExpression, `isOpp` = isOppositeCond, lib/astutils.cpp),
Model/CondTypeRange.lean (`outOfRange` = checkCompareValueOutOfTypeRange, `bitCmpVerdict` = comparison(), lib/checkcondition.cpp).

All theorems quantify over every expression of the language (structural / fuel induction), every semantics record `S`
(types of the variables, type and value of the number tokens) and every environment; an evaluation that runs into
undefined behaviour has no value and is not constrained.  The model is the code after the fixes e3a434e (F03a) and
e82cb03 (F03c); the pre-fix functions (`isSameOld`, `bitCmpFindingsOld`) only occur in the counterexample theorems.
Hypotheses are decidable predicates on the inputs:
  annOK S e    the annotations cppcheck attached (value types, Known values) agree with the semantics `S`
  cmpSafe S e  excludes the inputs of finding F03b (a comparison with a Known operand whose usual arithmetic conversions
               change an operand's value: signed value converted to unsigned)
  S.lval "0" = 0
-/
namespace Cppcheck.CondExpr

/-! ### isSameExpression -/

/-- `isSameExpression` is sound: two expressions it identifies have the same truth value in every environment in which
    both are evaluated without undefined behaviour; in operand position (parent is an arithmetic / bitwise / comparison
    operator) they have the same value and the same type. -/
theorem same_sound (S : Sem) (cpp : Bool) (c1 c2 : Ctx) (e1 e2 : Expr)
    (h : isSame cpp c1 e1 c2 e2 = true)
    (a1 : annOK S e1 = true) (a2 : annOK S e2 = true) :
    ∀ ρ v1 v2, eval S ρ e1 = some v1 → eval S ρ e2 = some v2 →
      (v1 ≠ 0 ↔ v2 ≠ 0) ∧ (c1 = .cop → c2 = .cop → v1 = v2 ∧ tyOf S e1 = tyOf S e2) := by
  intro ρ v1 v2 h1 h2
  have hs := isSame_sound (S := S) (ρ := ρ) h ⟨a1⟩ ⟨a2⟩ h1 h2
  refine ⟨hs.truthy, ?_⟩
  rintro rfl rfl
  exact Sim.cop a1 a2 h1 h2 hs

/-- the precise relation: equal value and type, or both occurrences "used as bool" and equal truth value -/
theorem same_sound_sim (S : Sem) (cpp : Bool) (c1 c2 : Ctx) (e1 e2 : Expr)
    (h : isSame cpp c1 e1 c2 e2 = true)
    (a1 : annOK S e1 = true) (a2 : annOK S e2 = true) :
    ∀ ρ v1 v2, eval S ρ e1 = some v1 → eval S ρ e2 = some v2 → Sim S c1 e1 v1 c2 e2 v2 :=
  fun _ _ _ h1 h2 => isSame_sound h ⟨a1⟩ ⟨a2⟩ h1 h2

/-! concrete expressions for the examples and counterexamples -/

def litAnn (col : Nat) (vt : VT) (v : Int) : Ann :=
  { col := col, vt := some vt, known := some v, first := some v, front := some v, num := some v }
def varAnn (col : Nat) (vt : VT) : Ann := { col := col, vt := some vt }
def opAnn (col : Nat) (vt : VT) : Ann := { col := col, vt := some vt }
def vtInt : VT := ⟨.signed, 3⟩
def vtUInt : VT := ⟨.unsigned, 3⟩
def vtULong : VT := ⟨.unsigned, 4⟩
def vtBool : VT := ⟨.unknown, 0⟩

/-- `int a, b;` and the number tokens `0 1 2 3 5U 5000000000UL` -/
def exS : Sem :=
  { vty := fun _ => tInt
    lty := fun sp => if sp = "5U".toList then tUInt else if sp = "5000000000UL".toList then ⟨.long, false⟩ else tInt
    lval := fun sp =>
      if sp = "1".toList then 1 else if sp = "2".toList then 2 else if sp = "3".toList then 3
      else if sp = "5U".toList then 5 else if sp = "5".toList then 5 else if sp = "5000000000UL".toList then 5000000000 else 0 }

def exA : Expr := .var (varAnn 1 vtInt) 1
def exB : Expr := .var (varAnn 2 vtInt) 2
def exLt : Expr := .bin (opAnn 3 vtBool) .lt exA exB          -- a < b
def exGe : Expr := .bin (opAnn 3 vtBool) .ge exA exB          -- a >= b
def exNe2 : Expr := .bin (opAnn 4 vtBool) .ne exLt (.lit (litAnn 5 vtInt 2) "2".toList)   -- (a < b) != 2
def exNot : Expr := .un (opAnn 6 vtBool) .lnot exLt           -- !(a < b)
def exLt3 : Expr := .bin (opAnn 3 vtBool) .lt exA (.lit (litAnn 4 vtInt 3) "3".toList)    -- a < 3
def exGt5 : Expr := .bin (opAnn 3 vtBool) .gt exA (.lit (litAnn 4 vtInt 5) "5".toList)    -- a > 5
def exGt5U : Expr := .bin (opAnn 3 vtBool) .gt exA (.lit (litAnn 4 vtUInt 5) "5U".toList) -- a > 5U
def exLtBig : Expr := .bin (opAnn 3 vtBool) .lt exA (.lit (litAnn 4 vtULong 5000000000) "5000000000UL".toList)  -- a < 5000000000UL

/-- the hypotheses of `same_sound` are satisfiable with a positive answer: `a < b` against `!!(a < b)` -/
example : isSame false .cond exLt .cond (.un (opAnn 7 vtBool) .lnot exNot) = true ∧
    annOK exS exLt = true ∧ annOK exS (.un (opAnn 7 vtBool) .lnot exNot) = true := by decide

/-- Finding F03a (fixed by e3a434e): the statement was false of the pre-fix rule — `(a < b) != 2` was "the same
    expression" as `!(a < b)` for isSameExpression (astutils.cpp:1701: any Known value other than 0 was treated like 1),
    but for a = 1, b = 2 the first is true and the second false.  The fixed rule rejects the pair. -/
theorem same_sound_prefix_counterexample :
    ¬ ∀ (S : Sem) (e1 e2 : Expr), isSameOld false .cond e1 .cond e2 = true → annOK S e1 = true → annOK S e2 = true →
        ∀ ρ v1 v2, eval S ρ e1 = some v1 → eval S ρ e2 = some v2 → (v1 ≠ 0 ↔ v2 ≠ 0) := by
  intro h
  have := h exS exNe2 exNot (by decide) (by decide) (by decide) (fun x => if x = 1 then 1 else 2) 1 0 (by decide) (by decide)
  simp at this

example : isSame false .cond exNe2 .cond exNot = false := by decide

/-! ### isOppositeCond -/

/-- `isOppositeCond(isNot = false, …)` is sound: the two conditions are never both true. -/
theorem opposite_sound_partial (S : Sem) (cpp : Bool) (c1 c2 : Ctx) (e1 e2 : Expr) (hz : S.lval ['0'] = 0)
    (h : isOpp cpp false c1 e1 c2 e2 = true)
    (a1 : annOK S e1 = true) (a2 : annOK S e2 = true)
    (m1 : cmpSafe S e1 = true) (m2 : cmpSafe S e2 = true) :
    ∀ ρ v1 v2, eval S ρ e1 = some v1 → eval S ρ e2 = some v2 → ¬(v1 ≠ 0 ∧ v2 ≠ 0) := by
  intro ρ v1 v2 h1 h2
  have := isOppF_sound S cpp ρ hz false _ c1 e1 c2 e2 ⟨⟨a1⟩, fun _ => m1⟩ ⟨⟨a2⟩, fun _ => m2⟩ h v1 v2 h1 h2
  simpa [Opp] using this

/-- `isOppositeCond(isNot = true, …)` is sound: exactly one of the two conditions is true (no `cmpSafe` needed: the
    Known-value rules are not used with `isNot`). -/
theorem opposite_not_sound (S : Sem) (cpp : Bool) (c1 c2 : Ctx) (e1 e2 : Expr) (hz : S.lval ['0'] = 0)
    (h : isOpp cpp true c1 e1 c2 e2 = true)
    (a1 : annOK S e1 = true) (a2 : annOK S e2 = true) :
    ∀ ρ v1 v2, eval S ρ e1 = some v1 → eval S ρ e2 = some v2 → (v1 ≠ 0 ↔ ¬ v2 ≠ 0) := by
  intro ρ v1 v2 h1 h2
  have := isOppF_sound S cpp ρ hz true _ c1 e1 c2 e2 ⟨⟨a1⟩, fun q => by simp at q⟩ ⟨⟨a2⟩, fun q => by simp at q⟩
    h v1 v2 h1 h2
  simpa [Opp] using this

/-- hypotheses satisfiable with a positive answer: `a < b` / `a >= b` (strictly opposite), `a < 3` / `a > 5` (Known rule) -/
example : isOpp false true .cond exLt .cond exGe = true ∧ annOK exS exLt = true ∧ annOK exS exGe = true ∧ exS.lval ['0'] = 0 := by decide
example : isOpp false false .cond exLt3 .cond exGt5 = true ∧ annOK exS exLt3 = true ∧ annOK exS exGt5 = true ∧
    cmpSafe exS exLt3 = true ∧ cmpSafe exS exGt5 = true := by decide

/-- Finding F03b: without `cmpSafe` the statement is false of the code's rule — `a < 3` and `a > 5U` (int a) are
    "opposite" for isOppositeCond (astutils.cpp:2004 compares the two Known values 3 < 5 and ignores that the second
    comparison is done in `unsigned int`); for a = -1 both are true. -/
theorem opposite_sound_counterexample :
    ¬ ∀ (S : Sem) (e1 e2 : Expr), S.lval ['0'] = 0 → isOpp false false .cond e1 .cond e2 = true →
        annOK S e1 = true → annOK S e2 = true →
        ∀ ρ v1 v2, eval S ρ e1 = some v1 → eval S ρ e2 = some v2 → ¬(v1 ≠ 0 ∧ v2 ≠ 0) := by
  intro h
  have := h exS exLt3 exGt5U (by decide) (by decide) (by decide) (by decide)
    (fun _ => -1) 1 1 (by decide) (by decide)
  simp at this

/-! ### multiCondition2: the verdict at the inner condition, GIVEN that nothing wrote a variable of the outer condition
in between.  The code's modification scan (`isExpressionChangedAt`, `findExpressionChanged`) that is meant to establish
this is outside the model; these theorems only cover the step from "unmodified" to the verdict. -/

/-- multiCondition2, inner condition: when `isOppositeCond(false, outer, inner)` holds, the outer condition was true
    and nothing between the two conditions wrote a variable of the outer condition (`ρ'` = the environment at the inner
    condition), the inner condition is false — "opposite inner condition leads to a dead code block". -/
theorem multiCondition_opposite_given_unmodified_partial (S : Sem) (cpp : Bool) (c1 c2 : Ctx) (outer inner : Expr) (hz : S.lval ['0'] = 0)
    (h : isOpp cpp false c1 outer c2 inner = true)
    (a1 : annOK S outer = true) (a2 : annOK S inner = true)
    (m1 : cmpSafe S outer = true) (m2 : cmpSafe S inner = true)
    (ρ ρ' : Env) (hw : ∀ x ∈ outer.vars, ρ' x = ρ x) (v1 v2 : Int)
    (h1 : eval S ρ outer = some v1) (ht : v1 ≠ 0) (h2 : eval S ρ' inner = some v2) : v2 = 0 := by
  have h1' : eval S ρ' outer = some v1 := by rw [eval_agree S ρ ρ' outer hw, h1]
  have := opposite_sound_partial S cpp c1 c2 outer inner hz h a1 a2 m1 m2 ρ' v1 v2 h1' h2
  by_cases hv : v2 = 0
  · exact hv
  · exact absurd ⟨ht, hv⟩ this

/-- multiCondition2, identical inner condition / identical condition after early exit: when `isSameExpression(outer,
    inner)` holds and no variable of the outer condition was written in between, the inner condition has the truth value
    the outer one had (inside the `if`: true, after `if (outer) return;`: false). -/
theorem multiCondition_same_given_unmodified (S : Sem) (cpp : Bool) (c1 c2 : Ctx) (outer inner : Expr)
    (h : isSame cpp c1 outer c2 inner = true)
    (a1 : annOK S outer = true) (a2 : annOK S inner = true)
    (ρ ρ' : Env) (hw : ∀ x ∈ outer.vars, ρ' x = ρ x) (v1 v2 : Int)
    (h1 : eval S ρ outer = some v1) (h2 : eval S ρ' inner = some v2) : (v1 ≠ 0 ↔ v2 ≠ 0) := by
  have h1' : eval S ρ' outer = some v1 := by rw [eval_agree S ρ ρ' outer hw, h1]
  exact (same_sound S cpp c1 c2 outer inner h a1 a2 ρ' v1 v2 h1' h2).1

/-! ### checkCompareValueOutOfTypeRange -/

/-- the verdict table is right for every value in the interval computed for the other operand -/
theorem outOfTypeRange_table_sound (op : BinOp) (i : Nat) (k lo hi : Int) (b : Bool)
    (h : rangeVerdict op i k lo hi = some b) (hlo : lo ≤ 0) (hhi : 0 ≤ hi) :
    ∀ x, lo ≤ x → x ≤ hi → (if i = 0 then cmpZ op k x else cmpZ op x k) = b :=
  fun x h1 h2 => rangeVerdict_sound h hlo hhi x h1 h2

/-- the interval computed from the value type contains every value of the C type with that value type -/
theorem outOfTypeRange_interval_sound (tvt : VT) (vvt : Option VT) (lo hi : Int) (h : typeInterval tvt vvt = some (lo, hi)) :
    ∀ t : Ty, toVT t = tvt → ∀ x, inRange t x → lo ≤ x ∧ x ≤ hi :=
  (typeInterval_covers h).2.2.2

/-- "Comparing expression of type T against value k. Condition is always b" is true of every evaluation of the
    comparison, when the comparison is exact (`cmpSafe`). -/
theorem outOfTypeRange_sound_partial (S : Sem) (a : Ann) (op : BinOp) (l r : Expr) (b : Bool)
    (hc : op.isCmp = true) (g : annOK S (.bin a op l r) = true) (hs : cmpSafe S (.bin a op l r) = true)
    (hvl : vtOK S l = true) (hvr : vtOK S r = true)
    (h : outOfRange op 0 l r = some b ∨ outOfRange op 1 r l = some b) :
    ∀ ρ v, eval S ρ (.bin a op l r) = some v → v = b2i b :=
  fun _ _ he => outOfRange_sound hc (annOK_bin g).1 (annOK_bin g).2 hs hvl hvr h he

/-- hypotheses satisfiable with a verdict: `a < 5000000000L`-like is covered; here `(a < b) != 2` (bool against 2) -/
example : outOfRange .ne 1 (.lit (litAnn 5 vtInt 2) "2".toList) exLt = some true ∧ annOK exS exNe2 = true ∧
    cmpSafe exS exNe2 = true ∧ vtOK exS exLt = true ∧ vtOK exS (.lit (litAnn 5 vtInt 2) "2".toList) = true := by decide

/-- Finding F03e: without `cmpSafe` the statement is false of the code — `a < 5000000000UL` (int a) is reported
    "always true" (checkcondition.cpp:2018 widens the range of a signed 32-bit operand to 0..2^32-1 for any unsigned
    constant, also a 64-bit one); for a = -1 the comparison is false (a is converted to 2^64-1). -/
theorem outOfTypeRange_counterexample :
    ¬ ∀ (S : Sem) (a : Ann) (op : BinOp) (l r : Expr) (b : Bool), op.isCmp = true → annOK S (.bin a op l r) = true →
        vtOK S l = true → vtOK S r = true → outOfRange op 1 r l = some b →
        ∀ ρ v, eval S ρ (.bin a op l r) = some v → v = b2i b := by
  intro h
  have := h exS (opAnn 3 vtBool) .lt exA (.lit (litAnn 4 vtULong 5000000000) "5000000000UL".toList) true
    (by decide) (by decide) (by decide) (by decide) (by decide) (fun _ => -1) 0 (by decide)
  simp [b2i] at this

/-! ### comparison(): bit-and / bit-or against a constant -/

/-- `(X & n1) op n2` : the verdict holds for every bit pattern X -/
theorem bitand_compare_table_sound (op : BinOp) (uns : Bool) (n1 n2 : Int) (b : Bool)
    (h : bitCmpVerdict .band op uns n1 n2 = some b) (h2 : 0 ≤ n2) :
    ∀ p : Nat, cmpZ op ((p &&& n1.toNat : Nat) : Int) n2 = b :=
  fun p => bitAnd_verdict_sound h h2 p

/-- `(X | n1) op n2`, first operand of the `|` unsigned : the verdict holds for every bit pattern X -/
theorem bitor_compare_table_sound (op : BinOp) (n1 n2 : Int) (b : Bool)
    (h : bitCmpVerdict .bor op true n1 n2 = some b) (h2 : 0 ≤ n2) :
    ∀ p : Nat, cmpZ op ((p ||| n1.toNat : Nat) : Int) n2 = b :=
  fun p => bitOr_verdict_sound h h2 p

/-- "Expression '(X & n1) op n2' is always b" is true of every evaluation of `(x & n1) op r` / `(n1 & x) op r` when
    the Known value n2 is on the right and the comparison is exact. -/
theorem bitand_compare_sound_partial (S : Sem) (a a' an : Ann) (op : BinOp) (x l r : Expr) (sp : List Char) (n1 n2 : Int)
    (uns b : Bool)
    (hl : l = .bin a' .band x (.lit an sp) ∨ l = .bin a' .band (.lit an sp) x)
    (hc : op.isCmp = true) (g : annOK S (.bin a op l r) = true) (hs : cmpSafe S (.bin a op l r) = true)
    (hk : r.ann.known = some n2) (hn2 : 0 ≤ n2) (hnum : an.num = some n1)
    (hv : bitCmpVerdict .band op uns n1 n2 = some b) :
    ∀ ρ v, eval S ρ (.bin a op l r) = some v → v = b2i b :=
  fun _ _ he => bitand_cmp_sound hl hc (annOK_bin g).1 (annOK_bin g).2 hs hk hn2 hnum hv he

/-- `(a & 1) == 2`-like verdict available under the hypotheses: `(a & 1) > 1` is always false -/
example : bitCmpVerdict .band .gt false 1 1 = some false ∧
    annOK exS (.bin (opAnn 5 vtBool) .gt (.bin (opAnn 2 vtInt) .band exA (.lit (litAnn 3 vtInt 1) "1".toList))
      (.lit (litAnn 6 vtInt 1) "1".toList)) = true ∧
    cmpSafe exS (.bin (opAnn 5 vtBool) .gt (.bin (opAnn 2 vtInt) .band exA (.lit (litAnn 3 vtInt 1) "1".toList))
      (.lit (litAnn 6 vtInt 1) "1".toList)) = true := by decide

/-- the same with the Known value on the left, `l op (x & n1)`: the verdict is the one of the comparator turned around -/
theorem bitand_compare_sound_left_partial (S : Sem) (a a' an : Ann) (op : BinOp) (x l r : Expr) (sp : List Char) (n1 n2 : Int)
    (uns b : Bool)
    (hr : r = .bin a' .band x (.lit an sp) ∨ r = .bin a' .band (.lit an sp) x)
    (hc : op.isCmp = true) (g : annOK S (.bin a op l r) = true) (hs : cmpSafe S (.bin a op l r) = true)
    (hk : l.ann.known = some n2) (hn2 : 0 ≤ n2) (hnum : an.num = some n1)
    (hv : bitCmpVerdict .band (flipOp op) uns n1 n2 = some b) :
    ∀ ρ v, eval S ρ (.bin a op l r) = some v → v = b2i b :=
  fun _ _ he => bitand_cmp_sound_left hr hc (annOK_bin g).1 (annOK_bin g).2 hs hk hn2 hnum hv he

/-- "Expression '(X | n1) op n2' is always b" is true of every evaluation of `(x | n1) op r` when the first operand `x` of
    the `|` has an unsigned value type, the Known value n2 is on the right and the comparison is exact. -/
theorem bitor_compare_sound_partial (S : Sem) (a a' an : Ann) (op : BinOp) (x r : Expr) (sp : List Char) (n1 n2 : Int) (b : Bool)
    (hc : op.isCmp = true) (g : annOK S (.bin a op (.bin a' .bor x (.lit an sp)) r) = true)
    (hs : cmpSafe S (.bin a op (.bin a' .bor x (.lit an sp)) r) = true)
    (hvx : vtOK S x = true) (hu : unsFlag x = true)
    (hk : r.ann.known = some n2) (hn2 : 0 ≤ n2) (hnum : an.num = some n1)
    (hv : bitCmpVerdict .bor op true n1 n2 = some b) :
    ∀ ρ v, eval S ρ (.bin a op (.bin a' .bor x (.lit an sp)) r) = some v → v = b2i b :=
  fun _ _ he => bitor_cmp_sound hc (annOK_bin g).1 (annOK_bin g).2 hs (fun _ hX => unsigned_vt_nonneg hvx hu hX) hk hn2 hnum hv he

/-- the same with the Known value on the left, `l op (x | n1)` -/
theorem bitor_compare_sound_left_partial (S : Sem) (a a' an : Ann) (op : BinOp) (x l : Expr) (sp : List Char) (n1 n2 : Int) (b : Bool)
    (hc : op.isCmp = true) (g : annOK S (.bin a op l (.bin a' .bor x (.lit an sp))) = true)
    (hs : cmpSafe S (.bin a op l (.bin a' .bor x (.lit an sp))) = true)
    (hvx : vtOK S x = true) (hu : unsFlag x = true)
    (hk : l.ann.known = some n2) (hn2 : 0 ≤ n2) (hnum : an.num = some n1)
    (hv : bitCmpVerdict .bor (flipOp op) true n1 n2 = some b) :
    ∀ ρ v, eval S ρ (.bin a op l (.bin a' .bor x (.lit an sp))) = some v → v = b2i b :=
  fun _ _ he => bitor_cmp_sound_left hc (annOK_bin g).1 (annOK_bin g).2 hs (fun _ hX => unsigned_vt_nonneg hvx hu hX) hk hn2 hnum hv he

/-- `unsigned c`, `long d` (variables 3 and 4) and the number token 7 -/
def exS2 : Sem :=
  { vty := fun x => if x = 3 then tUInt else if x = 4 then ⟨.long, true⟩ else tInt
    lty := fun _ => tInt
    lval := fun sp => if sp = "7".toList then 7 else 0 }
def exC : Expr := .var (varAnn 1 vtUInt) 3
def exD : Expr := .var (varAnn 2 ⟨.signed, 4⟩) 4
def exL7 (col : Nat) : Expr := .lit (litAnn col vtInt 7) "7".toList
/-- `(c | 7) >= 7` -/
def exOrGe : Expr := .bin (opAnn 9 vtBool) .ge (.bin (opAnn 4 vtUInt) .bor exC (exL7 5)) (exL7 10)
/-- `((c | 7) | d) >= 7` -/
def exOrOrGe : Expr := .bin (opAnn 9 vtBool) .ge (.bin (opAnn 7 ⟨.signed, 4⟩) .bor (.bin (opAnn 4 vtUInt) .bor exC (exL7 5)) exD) (exL7 10)

/-- hypotheses of `bitor_compare_sound_partial` satisfiable with a verdict: `(c | 7) >= 7` (unsigned c) is always true -/
example : bitCmpVerdict .bor .ge true 7 7 = some true ∧ annOK exS2 exOrGe = true ∧ cmpSafe exS2 exOrGe = true ∧
    vtOK exS2 exC = true ∧ unsFlag exC = true := by decide

/-- Finding F03d: outside the covered shape the code's rule is unsound — for `((c | 7) | d) >= 7` (unsigned c, long d)
    `comparison()` looks at the sign of the first operand `(c | 7)` of the top `|` only and reports "always true"; for
    d = -1 the comparison is false.  All side conditions (`annOK`, `cmpSafe`, `vtAll`) hold. -/
theorem bitor_compare_counterexample :
    ∃ f, bitCmpFindings .ge (.bin (opAnn 7 ⟨.signed, 4⟩) .bor (.bin (opAnn 4 vtUInt) .bor exC (exL7 5)) exD) (exL7 10) = [f] ∧
      f.verdict = true ∧ annOK exS2 exOrOrGe = true ∧ cmpSafe exS2 exOrOrGe = true ∧ vtAll exS2 exOrOrGe = true ∧
      eval exS2 (fun x => if x = 4 then -1 else 0) exOrOrGe = some 0 :=
  ⟨_, rfl, by decide, by decide, by decide, by decide, by decide⟩

/-! ### from the findings the driver prints to the verdict theorems -/

/-- every finding of `findings` (what `drv_c03` prints and the harness output is compared with) belongs to one
    comparison token of one condition and was produced by one of the two checks -/
theorem findings_mem (conds : List Expr) (f : Finding) (h : f ∈ findings conds) :
    ∃ c ∈ conds, ∃ op l r, (op, l, r) ∈ cmpNodes c ∧ (f ∈ bitCmpFindings op l r ∨ rangeFinding op l r = some f) := by
  simp only [findings, List.mem_append, List.mem_flatMap, List.mem_filterMap] at h
  rcases h with ⟨⟨op, l, r⟩, ⟨c, hc, hn⟩, hf⟩ | ⟨⟨op, l, r⟩, ⟨c, hc, hn⟩, hf⟩
  · exact ⟨c, hc, op, l, r, hn, Or.inl hf⟩
  · exact ⟨c, hc, op, l, r, hn, Or.inr hf⟩

theorem msg_split (A B w : String) : ∃ pre : String, A ++ (B ++ "always ") ++ w ++ "." = pre ++ "always " ++ w ++ "." :=
  ⟨A ++ B, by simp [String.append_assoc]⟩

/-- the message text says what `verdict` says: "… always true." / "… always false." -/
theorem finding_msg_verdict (op : BinOp) (l r : Expr) (f : Finding)
    (h : f ∈ bitCmpFindings op l r ∨ rangeFinding op l r = some f) :
    ∃ pre : String, f.msg = pre ++ "always " ++ boolWord f.verdict ++ "." := by
  rcases h with h | h
  · have aux : ∀ o e1 e2, f ∈ bitCmpFindingsAux o e1 e2 → ∃ pre : String, f.msg = pre ++ "always " ++ boolWord f.verdict ++ "." := by
      intro o e1 e2 hf
      unfold bitCmpFindingsAux at hf
      split at hf
      · simp at hf
      · split at hf
        · simp at hf
        · split at hf
          · split at hf
            · simp only [List.mem_filterMap] at hf
              obtain ⟨n1, _, hm⟩ := hf
              split at hm
              · simp only [Option.some.injEq] at hm
                subst hm
                show ∃ pre : String, _ ++ "' is always " ++ _ ++ "." = pre ++ "always " ++ _ ++ "."
                rw [show ("' is always " : String) = "' is " ++ "always " from by decide]
                exact msg_split _ _ _
              · simp at hm
            · simp at hf
          · simp at hf
    unfold bitCmpFindings at h
    split at h <;> exact aux _ _ _ h
  · unfold rangeFinding at h
    simp only at h
    split at h
    · simp only [Option.some.injEq] at h
      subst h
      show ∃ pre : String, _ ++ ". Condition is always " ++ _ ++ "." = pre ++ "always " ++ _ ++ "."
      rw [show (". Condition is always " : String) = ". Condition is " ++ "always " from by decide]
      exact msg_split _ _ _
    · split at h
      · simp only [Option.some.injEq] at h
        subst h
        show ∃ pre : String, _ ++ ". Condition is always " ++ _ ++ "." = pre ++ "always " ++ _ ++ "."
        rw [show (". Condition is always " : String) = ". Condition is " ++ "always " from by decide]
        exact msg_split _ _ _
      · simp at h

/-- a compareValueOutOfTypeRangeError finding of a comparison token anywhere below a condition `c` is true of every
    evaluation of that comparison, when `c` satisfies the side conditions. -/
theorem range_finding_sound_partial (S : Sem) (c : Expr) (op : BinOp) (l r : Expr) (f : Finding)
    (hm : (op, l, r) ∈ cmpNodes c) (ga : annOK S c = true) (gs : cmpSafe S c = true) (gv : vtAll S c = true)
    (hf : rangeFinding op l r = some f) :
    ∀ a ρ v, eval S ρ (.bin a op l r) = some v → v = b2i f.verdict := by
  intro a ρ v he
  obtain ⟨hc, gl, gr, hs, vl, vr⟩ := cmpNodes_sub c hm ga gs gv
  exact rangeFinding_sound hf hc gl gr (hs a) (vtAll_root vl) (vtAll_root vr) he

/-- a comparisonError finding of a comparison token below `c` is true of every evaluation of that comparison, when `c`
    satisfies the side conditions and the bit test (the operand without the Known value) is one of the covered shapes
    `x & n`, `n & x`, `x | n` with unsigned x (`bitShape`) — in both operand orders of the comparison. -/
theorem comparison_finding_sound_partial (S : Sem) (c : Expr) (op : BinOp) (l r : Expr) (f : Finding)
    (hm : (op, l, r) ∈ cmpNodes c) (ga : annOK S c = true) (gs : cmpSafe S c = true) (gv : vtAll S c = true)
    (hf : f ∈ bitCmpFindings op l r)
    (hsh : bitShape (if l.ann.known.isSome then r else l) = true) :
    ∀ a ρ v, eval S ρ (.bin a op l r) = some v → v = b2i f.verdict := by
  intro a ρ v he
  obtain ⟨hc, gl, gr, hs, vl, vr⟩ := cmpNodes_sub c hm ga gs gv
  unfold bitCmpFindings at hf
  split at hf
  · rename_i hk
    rw [if_pos hk] at hsh
    exact (aux_shape_sound (ρ := ρ) hsh hf gr gl vr).2 a op v rfl hc (hs a) he
  · rename_i hk
    rw [if_neg hk] at hsh
    exact (aux_shape_sound (ρ := ρ) hsh hf gl gr vl).1 a v hc (hs a) he

/-- the composing theorems apply to real output: `(c | 7) >= 7` is a comparison token of itself, its finding is the one
    printed, and all hypotheses hold -/
example : (BinOp.ge, .bin (opAnn 4 vtUInt) .bor exC (exL7 5), exL7 10) ∈ cmpNodes exOrGe := by
  simp [cmpNodes, exOrGe, exC, exL7, BinOp.isCmp]
example : (findings [exOrGe]).map (·.msg) = ["Expression '(X | 0x7) >= 0x7' is always true."] ∧
    annOK exS2 exOrGe = true ∧ cmpSafe exS2 exOrGe = true ∧ vtAll exS2 exOrGe = true ∧
    bitShape (.bin (opAnn 4 vtUInt) .bor exC (exL7 5)) = true := by decide

/-- `3 < (a & 1)`: the finding is now the one of `(a & 1) > 3`, "always false", which is what the expression is -/
example : (bitCmpFindings .lt (.lit (litAnn 1 vtInt 3) "3".toList)
      (.bin (opAnn 4 vtInt) .band exA (.lit (litAnn 5 vtInt 1) "1".toList))).map (·.msg) =
    ["Expression '(X & 0x1) > 0x3' is always false."] := by decide

/-- Finding F03c (fixed by e82cb03): before the fix `comparison()` swapped the operands when the Known value was on the
    left without turning the comparator around: for `3 < (a & 1)` the finding computed was the one of `(a & 1) < 3`
    ("always true"), but the expression in the program is false (here for a = 1; in fact for every a). -/
theorem bit_compare_prefix_counterexample :
    ∃ (l r : Expr) (f : Finding), bitCmpFindingsOld .lt l r = [f] ∧ f.msg = "Expression '(X & 0x1) < 0x3' is always true." ∧
      eval exS (fun _ => 1) (.bin (opAnn 5 vtBool) .lt l r) = some 0 :=
  ⟨.lit (litAnn 1 vtInt 3) "3".toList, .bin (opAnn 4 vtInt) .band exA (.lit (litAnn 5 vtInt 1) "1".toList), _, rfl,
   by decide, by decide⟩

end Cppcheck.CondExpr

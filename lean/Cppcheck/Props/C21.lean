import Cppcheck.Proofs.ProcFaults
/-
C21 — a crashing worker process is contained (process executor, cli/processexecutor.cpp).

Model: `Cppcheck.Model.ProcFaults` (the parent loop of `ProcessExecutor::check` as a transition system, worker
progress and death interleaved with the parent's spawn / select / waitpid phases).

  terminates                 every fair schedule reaches a final state (any faults, any jobs ≥ 1)
  (the `_partial` theorems carry the hypothesis `noMidFrame`: workers die only at pipe-message boundaries, the property's own
   granularity; the statement without it is refuted by `contained_needs_frame_boundaries` / `midframe_not_contained`, F14)
  contained_partial                  deaths at frame boundaries: every reachable final state has the log and the result of the
                             closed form (`expectedReports`, `expectedResult`), the parent never aborts
  internal_errors_exact_partial      exactly one internal error per crashed file
  findings_vs_faultfree_partial      findings ⊆ those of the fault-free run, ⊇ those of every worker without fault
  exit_status_nonzero_iff_partial    result ≠ 0 ⇔ some worker crashed, was cut short, or returned non-zero itself
  crash_sets_exit_status_partial     a crashed worker makes the exit status the --error-exitcode value
  legacy_exit_status_counterexample   the loop before the `fix:` commit: crash after CHILD_END ⇒ internal error but result 0
  midframe_not_contained     F14: death inside a frame is NOT contained (parent exits with EXIT_FAILURE, findings of the
                             other files are lost) — outside the claimed statement
-/
namespace Cppcheck.ProcFaults

/-! ### termination -/

/-- (Fairness gives every spawned worker a turn again and again: a worker that HANGS — neither writes nor dies — is outside;
the property is about workers that die.)
Every fair schedule of the process executor reaches a final state (the loop is left or the parent aborted),
whatever the workers do: any frame lists, any faults (also mid-frame), any job count ≥ 1.
Measure: `Cppcheck.ProcFaults.measure`. -/
theorem terminates (cfg : Config) (hj : 1 ≤ cfg.jobs) (σ : Nat → Label) (hfair : Fair cfg σ) :
    ∃ n, (run cfg σ n).final = true :=
  terminates_aux cfg hj σ hfair (measure (run cfg σ 0)) 0 (Nat.le_refl _)

/-- the fairness hypothesis is satisfiable: round robin is fair -/
theorem roundRobin_fair (cfg : Config) : Fair cfg (roundRobin cfg.workers.length) := by
  constructor
  · intro n
    refine ⟨(n + 1) * (cfg.workers.length + 1), ?_, (n + 1) * (cfg.workers.length + 1), ?_⟩
    · have : (n + 1) * 1 ≤ (n + 1) * (cfg.workers.length + 1) := Nat.mul_le_mul_left _ (by omega)
      omega
    · simp [roundRobin]
  · intro i hi n
    refine ⟨(n + 1) * (cfg.workers.length + 1) + (i + 1), ?_, ?_⟩
    · have : (n + 1) * 1 ≤ (n + 1) * (cfg.workers.length + 1) := Nat.mul_le_mul_left _ (by omega)
      omega
    · have hlt : i + 1 < cfg.workers.length + 1 := by omega
      have hm : ((n + 1) * (cfg.workers.length + 1) + (i + 1)) % (cfg.workers.length + 1) = i + 1 := by
        rw [Nat.add_comm, Nat.add_mul_mod_self_right, Nat.mod_eq_of_lt hlt]
      simp [roundRobin, hm]

/-! ### containment -/

theorem final_done {cfg : Config} (hmid : noMidFrame cfg = true) (σ : Nat → Label) (n : Nat)
    (hfin : (run cfg σ n).final = true) :
    Inv cfg.workers (run cfg σ n) ∧ (run cfg σ n).done = true := by
  have hmid' : ∀ w ∈ cfg.workers, w.partialFrame = false := by
    intro w hw
    have := List.all_eq_true.mp hmid w hw
    simpa using this
  have inv := Inv.run cfg hmid' σ n
  refine ⟨inv, ?_⟩
  simp only [State.final, Bool.or_eq_true] at hfin
  rcases hfin with h | h
  · exact h
  · rw [inv.not_aborted] at h; cases h

/-- **Containment.**  If workers die only at frame boundaries, then in EVERY final state reachable under ANY schedule
(any interleaving of worker progress, deaths, pipe readiness and `waitpid` results, any job count):
the parent did not abort, nothing is logged twice, the log contains exactly the reports of the closed form
(findings delivered before each death + one internal error per crashed worker) and the result is the closed-form sum. -/
theorem contained_partial (cfg : Config) (hmid : noMidFrame cfg = true) (σ : Nat → Label) (n : Nat)
    (hfin : (run cfg σ n).final = true) :
    (run cfg σ n).aborted = false ∧ (run cfg σ n).log.Nodup ∧
    (∀ r, r ∈ (run cfg σ n).log ↔ r ∈ expectedReports cfg) ∧
    (run cfg σ n).result = expectedResult cfg := by
  obtain ⟨inv, hdone⟩ := final_done hmid σ n hfin
  exact ⟨inv.not_aborted, inv.nodup, inv.final_log hdone, inv.final_result hdone⟩

theorem mem_reports (w : Worker) (r : Report) :
    r ∈ w.reports ↔ (∃ x, x ∈ w.delivered ∧ r = .finding x) ∨ (w.crashed = true ∧ r = .internal w.file w.endStatus) := by
  unfold Worker.reports
  simp only [List.mem_append, List.mem_map]
  constructor
  · rintro (⟨x, hx, rfl⟩ | h)
    · exact Or.inl ⟨x, hx, rfl⟩
    · split at h
      · rename_i hc; simp only [List.mem_singleton] at h; exact Or.inr ⟨hc, h⟩
      · cases h
  · rintro (⟨x, hx, rfl⟩ | ⟨hc, rfl⟩)
    · exact Or.inl ⟨x, hx, rfl⟩
    · right; simp [hc]

theorem nodup_map_of_nodup_map {α β γ : Type} (f : α → β) (g : α → γ) (hfg : ∀ a b, f a = f b → g a = g b) :
    ∀ (l : List α), (l.map g).Nodup → (l.map f).Nodup
  | [], _ => by simp
  | a :: t, h => by
    simp only [List.map_cons, List.nodup_cons, List.mem_map, not_exists, not_and] at *
    refine ⟨fun b hb hba => h.1 b hb (hfg _ _ hba), nodup_map_of_nodup_map f g hfg t h.2⟩

/-- exactly one internal error per crashed file (file names pairwise distinct) -/
theorem internal_errors_exact_partial (cfg : Config) (hmid : noMidFrame cfg = true)
    (hfiles : (cfg.workers.map (·.file)).Nodup) (σ : Nat → Label) (n : Nat) (hfin : (run cfg σ n).final = true) :
    ((run cfg σ n).log.filter Report.isInternal).Perm
      ((cfg.workers.filter Worker.crashed).map (fun w => Report.internal w.file w.endStatus)) := by
  obtain ⟨_, hnd, hlog, _⟩ := contained_partial cfg hmid σ n hfin
  rw [List.perm_ext_iff_of_nodup (hnd.sublist List.filter_sublist)]
  · intro r
    simp only [List.mem_filter, hlog, expectedReports, List.mem_flatMap, List.mem_map]
    constructor
    · rintro ⟨⟨w, hw, hr⟩, hi⟩
      rcases (mem_reports w r).mp hr with ⟨x, _, rfl⟩ | ⟨hc, rfl⟩
      · cases hi
      · exact ⟨w, ⟨hw, hc⟩, rfl⟩
    · rintro ⟨w, ⟨hw, hc⟩, rfl⟩
      exact ⟨⟨w, hw, (mem_reports w _).mpr (Or.inr ⟨hc, rfl⟩)⟩, rfl⟩
  · apply nodup_map_of_nodup_map (fun w : Worker => Report.internal w.file w.endStatus) Worker.file
      (fun a b h => (Report.internal.inj h).1)
    exact hfiles.sublist (List.filter_sublist.map _)

theorem mem_findingsUpTo (w : Worker) (n x : Nat) (h : x ∈ w.findingsUpTo n) : some x ∈ w.body := by
  unfold Worker.findingsUpTo at h
  simp only [List.mem_filterMap, id] at h
  obtain ⟨a, ha, rfl⟩ := h
  exact List.mem_of_mem_take ha

theorem delivered_faultfree (w : Worker) (h : w.fault = none) (x : Nat) : x ∈ w.delivered ↔ some x ∈ w.body := by
  unfold Worker.delivered Worker.findingsUpTo Worker.limit Worker.total
  simp only [h]
  rw [List.take_of_length_le (Nat.le_succ _)]
  simp [List.mem_filterMap]

/-- (Membership only; "exactly once" comes from `contained_partial`'s `log.Nodup`.  A finding is identified with the text
`hasToLog` compares, so equal texts from different files collapse in the model exactly as in the code.)
Findings compared with the fault-free run of the same files (`s0`: any final state of `faultFree cfg`):
(1) no finding is reported that the fault-free run does not report, (2) every finding of a worker without fault is
reported, (3) the fault-free run reports no internal error. -/
theorem findings_vs_faultfree_partial (cfg : Config) (hmid : noMidFrame cfg = true) (σ σ0 : Nat → Label) (n n0 : Nat)
    (hfin : (run cfg σ n).final = true) (hfin0 : (run (faultFree cfg) σ0 n0).final = true) :
    (∀ x, Report.finding x ∈ (run cfg σ n).log → Report.finding x ∈ (run (faultFree cfg) σ0 n0).log) ∧
    (∀ w ∈ cfg.workers, w.fault = none → ∀ x, some x ∈ w.body → Report.finding x ∈ (run cfg σ n).log) ∧
    (∀ r ∈ (run (faultFree cfg) σ0 n0).log, r.isInternal = false) := by
  have hmid0 : noMidFrame (faultFree cfg) = true := by
    simp [noMidFrame, faultFree, Worker.partialFrame]
  obtain ⟨_, _, hlog, _⟩ := contained_partial cfg hmid σ n hfin
  obtain ⟨_, _, hlog0, _⟩ := contained_partial (faultFree cfg) hmid0 σ0 n0 hfin0
  refine ⟨?_, ?_, ?_⟩
  · intro x hx
    rw [hlog0]
    rw [hlog] at hx
    simp only [expectedReports, List.mem_flatMap] at hx ⊢
    obtain ⟨w, hw, hr⟩ := hx
    rcases (mem_reports w _).mp hr with ⟨y, hy, hxy⟩ | ⟨_, h⟩
    · cases hxy
      refine ⟨{ w with fault := none }, by simp only [faultFree, List.mem_map]; exact ⟨w, hw, rfl⟩, ?_⟩
      refine (mem_reports _ _).mpr (Or.inl ⟨x, ?_, rfl⟩)
      rw [delivered_faultfree _ rfl]
      exact mem_findingsUpTo w _ x hy
    · cases h
  · intro w hw hf x hx
    rw [hlog]
    simp only [expectedReports, List.mem_flatMap]
    exact ⟨w, hw, (mem_reports w _).mpr (Or.inl ⟨x, (delivered_faultfree w hf x).mpr hx, rfl⟩)⟩
  · intro r hr
    rw [hlog0] at hr
    simp only [expectedReports, List.mem_flatMap, faultFree, List.mem_map] at hr
    obtain ⟨w', ⟨w, _, rfl⟩, hr⟩ := hr
    rcases (mem_reports _ r).mp hr with ⟨y, _, rfl⟩ | ⟨hc, _⟩
    · rfl
    · simp [Worker.crashed, Worker.endStatus, Status.isCrash] at hc

/-! ### exit status -/

theorem sum_ne_zero_iff : ∀ (l : List Nat), l.sum ≠ 0 ↔ ∃ a ∈ l, a ≠ 0
  | [] => by simp
  | a :: t => by
    have ih := sum_ne_zero_iff t
    simp only [List.sum_cons, List.mem_cons, exists_eq_or_imp]
    constructor
    · intro h
      by_cases ha : a = 0
      · right; apply ih.mp; omega
      · left; exact ha
    · rintro (h | h)
      · omega
      · have := ih.mpr h; omega

theorem contribution_ne_zero_iff (w : Worker) :
    w.contribution ≠ 0 ↔ (w.crashed = true ∨ w.limit < w.total ∨ w.rc ≠ 0) := by
  have := limit_le_total w
  unfold Worker.contribution
  cases w.crashed <;> by_cases h : w.limit = w.total <;> simp [h] <;> omega

/-- what the code does, exactly: the executor's result is non-zero iff some worker crashed (non-zero exit status or
signal), or its CHILD_END never arrived (also: premature `exit(0)`), or it returned a non-zero result itself -/
theorem exit_status_nonzero_iff_partial (cfg : Config) (hmid : noMidFrame cfg = true) (σ : Nat → Label) (n : Nat)
    (hfin : (run cfg σ n).final = true) :
    (run cfg σ n).result ≠ 0 ↔ ∃ w ∈ cfg.workers, w.crashed = true ∨ w.limit < w.total ∨ w.rc ≠ 0 := by
  obtain ⟨_, _, _, hres⟩ := contained_partial cfg hmid σ n hfin
  rw [hres, expectedResult, sum_ne_zero_iff]
  simp only [List.mem_map]
  constructor
  · rintro ⟨a, ⟨w, hw, rfl⟩, ha⟩
    exact ⟨w, hw, (contribution_ne_zero_iff w).mp ha⟩
  · rintro ⟨w, hw, h⟩
    exact ⟨_, ⟨w, hw, rfl⟩, (contribution_ne_zero_iff w).mpr h⟩

/-- a crashed worker makes cppcheck return the `--error-exitcode` value -/
theorem crash_sets_exit_status_partial (cfg : Config) (hmid : noMidFrame cfg = true) (σ : Nat → Label) (n : Nat)
    (hfin : (run cfg σ n).final = true) (exitCode : Nat) (hcrash : ∃ w ∈ cfg.workers, w.crashed = true) :
    exitStatus exitCode (run cfg σ n) = exitCode := by
  obtain ⟨w, hw, hc⟩ := hcrash
  have hne := (exit_status_nonzero_iff_partial cfg hmid σ n hfin).mpr ⟨w, hw, Or.inl hc⟩
  obtain ⟨ha, _⟩ := contained_partial cfg hmid σ n hfin
  simp [exitStatus, ha, hne]

/-- without faults the result is non-zero iff some file's own result is (the fault-free reference) -/
theorem faultfree_exit_status (cfg : Config) (σ : Nat → Label) (n : Nat) (hfin : (run (faultFree cfg) σ n).final = true) :
    (run (faultFree cfg) σ n).result ≠ 0 ↔ ∃ w ∈ cfg.workers, w.rc ≠ 0 := by
  have hmid0 : noMidFrame (faultFree cfg) = true := by
    simp [noMidFrame, faultFree, Worker.partialFrame]
  rw [exit_status_nonzero_iff_partial (faultFree cfg) hmid0 σ n hfin]
  simp only [faultFree, List.mem_map]
  constructor
  · rintro ⟨w', ⟨w, hw, rfl⟩, h⟩
    refine ⟨w, hw, ?_⟩
    simpa [Worker.crashed, Worker.endStatus, Status.isCrash, Worker.limit, Worker.total] using h
  · rintro ⟨w, hw, h⟩
    exact ⟨_, ⟨w, hw, rfl⟩, Or.inr (Or.inr h)⟩

/-! ### hypotheses are satisfiable; concrete witnesses -/

/-- two files, the first one (two findings, an output frame) segfaults after its first frame, the second is clean -/
def exampleCfg : Config :=
  { jobs := 2, workers := [⟨0, [some 10, none, some 11], 1, some ⟨1, false, .signaled 11⟩⟩, ⟨1, [none], 0, none⟩] }

example : noMidFrame exampleCfg = true := by decide
example : (exampleCfg.workers.map (·.file)).Nodup := by decide
example : 1 ≤ exampleCfg.jobs := by decide
example : expectedReports exampleCfg = [.finding 10, .internal 0 (.signaled 11)] := by decide
example : expectedResult exampleCfg = 2 := by decide

set_option maxRecDepth 4000 in
/-- a complete round-robin run of `exampleCfg` reaches a final state with the closed-form outcome -/
example : let s := runList 2 ((List.range 26).map (roundRobin 2)) (init exampleCfg)
    s.final = true ∧ s.log = [.finding 10, .internal 0 (.signaled 11)] ∧ s.result = 2 := by decide

/-- one clean file whose worker dies AFTER it has sent CHILD_END (crash point "after the last message") -/
def afterEndCfg : Config := { jobs := 2, workers := [⟨0, [], 0, some ⟨1, false, .signaled 11⟩⟩] }

def afterEndSchedule : List Label :=
  [.parent 0, .worker 0, .worker 0, .parent 0, .parent 0, .parent 0, .parent 0, .parent 0]

/-- The loop as it was before the `fix:` commit (no `++result` in the `waitpid` branch): the internal error is
reported, the loop is left, and the result is 0 — `crash_sets_exit_status_partial` was false of that code. -/
theorem legacy_exit_status_counterexample :
    let s := runListLegacy afterEndCfg.jobs afterEndSchedule (init afterEndCfg)
    s.done = true ∧ s.log = [.internal 0 (.signaled 11)] ∧ s.result = 0 ∧ exitStatus 7 s = 0 := by decide

/-- the same schedule on the current loop: result 1, exit status = --error-exitcode -/
example : let s := runList afterEndCfg.jobs afterEndSchedule (init afterEndCfg)
    s.done = true ∧ s.log = [.internal 0 (.signaled 11)] ∧ s.result = 1 ∧ exitStatus 7 s = 7 := by decide

/-- F14: worker 0 dies inside its second frame, worker 1 has a finding (20) -/
def midFrameCfg : Config :=
  { jobs := 2, workers := [⟨0, [some 10, some 11], 0, some ⟨1, true, .signaled 11⟩⟩, ⟨1, [some 20], 1, none⟩] }

def midFrameSchedule : List Label :=
  [.parent 0, .worker 0, .parent 0, .parent 0, .parent 0, .worker 0, .parent 0]

/-- **F14 (outside the claimed statement).**  A death inside a frame is not contained: the parent leaves through
`std::exit(EXIT_FAILURE)`; no internal error names the crashed file, the finding of the other file is lost and the exit
status is 1 instead of the --error-exitcode value. -/
theorem midframe_not_contained :
    let s := runList midFrameCfg.jobs midFrameSchedule (init midFrameCfg)
    noMidFrame midFrameCfg = false ∧ s.final = true ∧ s.aborted = true ∧
    Report.internal 0 (.signaled 11) ∉ s.log ∧ Report.finding 20 ∉ s.log ∧
    Report.finding 20 ∈ expectedReports (faultFree midFrameCfg) ∧ exitStatus 7 s = 1 := by decide

/-- … and `contained_partial` does not hold without its hypothesis -/
theorem contained_needs_frame_boundaries :
    ¬ ∀ (cfg : Config) (σ : Nat → Label) (n : Nat), (run cfg σ n).final = true → (run cfg σ n).aborted = false := by
  intro h
  have := h midFrameCfg (fun t => midFrameSchedule.getD t (.parent 0)) 7 (by decide)
  revert this
  decide

end Cppcheck.ProcFaults

import Cppcheck.Proofs.AstStore
import Cppcheck.Proofs.Links
import Cppcheck.Proofs.DumpXml
import Cppcheck.Gen.DumpEnums
/-
C14 — dump output is well-formed and self-consistent: the three mechanisms.

  AST     `Token::astOperand1/astOperand2/astParent/astTop` (Model/AstStore.lean)
  links   `Tokenizer::createLinks` (Model/Links.lean)
  values  `ErrorLogger::toxml`, `id_string_i` (Model/DumpXml.lean)
-/
namespace Cppcheck.C14
open Cppcheck.AstStore Cppcheck.Links Cppcheck.DumpXml

/-! ## AST pointer store -/

/-- One call of `astOperand1`, `astOperand2` or the `astTop` cache setter keeps the design invariant
    (acyclic ∧ an operand's parent points back ∧ a child is listed by its parent ∧ op1 ≠ op2) — whether the
    call returns, throws `InternalError` half-way, or (in a store whose `n` does not bound the parent chains - never a reachable
    one, see `setters_terminate`) the model's fuel runs out. -/
theorem setters_preserve_inv (s : Store) (h : Inv s) (o : Op) (ho : o.viaOperands = true) : Inv (step s o).1 :=
  step_inv s o h ho

/-- Every call of the public API, direct `astParent` included, keeps acyclicity, operand→parent agreement and op1 ≠ op2. -/
theorem setters_preserve_weak (s : Store) (h : WeakInv s) (o : Op) : WeakInv (step s o).1 :=
  step_weak s o h

/-- `Inv` is NOT preserved by the public API as a whole: a direct `x->astParent(t)` leaves `x` with a parent that
    does not list it.  (No caller in lib/ does this; `T-callers` in the check watches that.) -/
theorem direct_astParent_breaks_listed : ¬ ∀ (s : Store) (o : Op), Inv s → Inv (step s o).1 := by
  intro h
  have := (h (init 2) (.pa 0 (some 1)) (init_inv 2)).listed 0 1 (by decide)
  revert this
  decide

/-- Every client of any length that builds the AST through the operand setters (native frontend and clang import):
    the final store and every intermediate store satisfy the design invariant. -/
theorem reachable_inv (n : Nat) (ops : List Op) (h : ops.all Op.viaOperands = true) :
    Inv (run (init n) ops).1 ∧ ∀ p ∈ trace (init n) ops, Inv p.2 :=
  run_all Inv Op.viaOperands (fun s o hs ho => step_inv s o hs ho) ops (init n) (init_inv n) h

/-- Every client at all. -/
theorem reachable_weak (n : Nat) (ops : List Op) :
    WeakInv (run (init n) ops).1 ∧ ∀ p ∈ trace (init n) ops, WeakInv p.2 :=
  run_all WeakInv (fun _ => true) (fun s o hs _ => step_weak s o hs) ops (init n) (init_inv n).toWeakInv (by simp)

/-- The two unbounded pointer-chasing loops (`while (tok2)` in `astParent`, `while (mAstParent)` in `astTop`) end:
    no sequence of calls on existing tokens hangs. -/
theorem setters_terminate (n : Nat) (ops : List Op) (h : ops.all (Op.inRange n) = true) :
    (run (init n) ops).2 ≠ .hang :=
  run_total ops (init n) (init_inv n).toWeakInv (by intro i v hv; simp [init] at hv) h

/-- the hypotheses are satisfiable: a client that builds `(t0 (t1 t2))`, re-parents, and runs into the cycle check -/
example : [Op.o1 1 (some 2), .o1 0 (some 1), .o2 0 (some 3), .tp 2 (some 0), .o2 3 (some 2), .o1 2 (some 0)].all Op.viaOperands = true := by
  decide
example : [Op.o1 1 (some 2), .o1 0 (some 1), .pa 3 (some 0)].all (Op.inRange 4) = true := by decide
example : ∃ s : Store, Inv s ∧ s.op1 0 = some 1 ∧ s.op2 0 = some 3 ∧ s.parent 2 = some 1 :=
  ⟨(run (init 4) [.o1 1 (some 2), .o1 0 (some 1), .o2 0 (some 3)]).1,
   (reachable_inv 4 _ (by decide)).1, by decide, by decide, by decide⟩
/-- the throw really occurs in the model (so "also when the call throws" is not vacuous) -/
example : (step (run (init 3) [.o1 0 (some 1), .o2 0 (some 2)]).1 (.o1 1 (some 0))).2 = .throw := by decide

/-! ## bracket links -/

/-- Whenever the linker accepts a token list (any length, any token strings) the link vector is symmetric,
    joins an opening bracket to a later closing bracket of the same kind, covers exactly the bracket tokens,
    and no two pairs cross. -/
theorem links_symmetric_nested (ts : List Tok) (L : List (Option Nat)) (h : createLinks ts = .ok L) :
    Symmetric L ∧ ProperlyNested ts L :=
  (createLinks_spec ts).2 L h

/-- `type.top()` is never evaluated on an empty stack. -/
theorem links_never_ub (ts : List Tok) : createLinks ts ≠ .error .ub :=
  (createLinks_spec ts).1

/-- The linker throws its syntax error exactly on mismatch: a token list is accepted iff its bracket tokens
    (first character one of `( ) [ ] { }`) form a well-bracketed word. -/
theorem links_accepted_iff_balanced (ts : List Tok) : (∃ L, createLinks ts = .ok L) ↔ Balanced ts :=
  ⟨fun ⟨L, h⟩ => createLinks_ok_balanced ts L h, createLinks_balanced ts⟩

example : Balanced [['('], ['x'], ['['], [']'], [')'], ['{'], ['}']] :=
  .wrap ['('] [')'] .paren [['x'], ['['], [']']] [['{'], ['}']] rfl rfl
    (.plain ['x'] _ (by intro ⟨k, h⟩; cases k <;> simp [firstChar, openOf, closeOf] at h) (.wrap ['['] [']'] .square [] [] rfl rfl .nil .nil))
    (.wrap ['{'] ['}'] .brace [] [] rfl rfl .nil .nil)

example : createLinks [['('], ['x'], ['['], ['{', 'x'], ['}'], [']'], [')']]
    = .ok [some 6, none, some 5, some 4, some 3, some 2, some 0] := by rfl
example : createLinks [['('], ['['], [')'], [']']] = .error (.unmatched 1) := by rfl

/-! ## link writers after `createLinks`

Every pass between `createLinks` and the dump writes links only through `Token::createMutualLinks(a, b)` /
`a->link(b); b->link(a);` and `a->link(nullptr)` (obligation `T-link-writers`).  The theorems above describe the vector at
creation time; these two say which later writes keep it symmetric.  Nesting of the dumped links is checked per dump only. -/

/-- `createMutualLinks` on two distinct, currently unlinked tokens keeps the link vector symmetric. -/
theorem mutualLinks_preserve_symmetric (f : Nat → Option Nat) (a b : Nat) (h : SymF f) (hab : a ≠ b)
    (ha : f a = none) (hb : f b = none) : SymF (mutualLinks f a b) :=
  mutualLinks_symF f a b h hab ha hb

/-- Clearing both ends of a linked pair keeps it symmetric. -/
theorem clearPair_preserves_symmetric (f : Nat → Option Nat) (a b : Nat) (h : SymF f) (hl : f a = some b) :
    SymF (clearLink (clearLink f a) b) :=
  clearPair_symF f a b h hl

/-- Clearing ONE end does not (the code relies on the partner being deleted or cleared next): not an invariant of the API. -/
theorem clearLink_alone_counterexample : ¬ ∀ (f : Nat → Option Nat) (a : Nat), SymF f → SymF (clearLink f a) := by
  intro h
  have hs : SymF (mutualLinks (fun _ => none) 0 1) :=
    mutualLinks_symF _ 0 1 symF_empty (by decide) rfl rfl
  exact absurd ((h _ 0 hs).1 1 0 (by decide)) (by decide)

/-- the hypotheses are met by a non-trivial vector: `( [ ] )` linked pair by pair, then the inner pair cleared -/
example : SymF (clearLink (clearLink (mutualLinks (mutualLinks (fun _ => none) 1 2) 0 3) 1) 2) :=
  clearPair_symF _ 1 2
    (mutualLinks_symF _ 0 3 (mutualLinks_symF _ 1 2 symF_empty (by decide) rfl rfl)
      (by decide) (by decide) (by decide))
    (by decide)

/-! ## attribute values -/

/-- For every byte string the output of `toxml` is a concatenation of the eight references and of characters in
    0x20..0x7f other than `< > & " '`: well-formed attribute content under either quote, and well-formed text. -/
theorem toxml_wellformed (s : Str) : AttrSafe (toxml s) := toxml_safe s

/-- in particular no markup character survives -/
theorem attrSafe_no_markup (o : Str) (h : AttrSafe o) : '<' ∉ o ∧ '>' ∉ o ∧ '"' ∉ o ∧ '\'' ∉ o := by
  obtain ⟨ps, rfl, hp⟩ := h
  have : ∀ c, (c = '<' ∨ c = '>' ∨ c = '"' ∨ c = '\'') → c ∉ ps.flatten := by
    intro c hc hm
    obtain ⟨p, hpm, hcp⟩ := List.mem_flatten.1 hm
    rcases hp p hpm with hr | ⟨d, hd, hok⟩
    · have : ∀ r ∈ refs, ∀ c ∈ r, ¬ (c = '<' ∨ c = '>' ∨ c = '"' ∨ c = '\'') := by decide
      exact this p hr c hcp hc
    · subst hd
      simp only [List.mem_singleton] at hcp
      subst hcp
      rcases hc with h | h | h | h <;> subst h <;> simp [plainOK] at hok
  exact ⟨this _ (.inl rfl), this _ (.inr (.inl rfl)), this _ (.inr (.inr (.inl rfl))), this _ (.inr (.inr (.inr rfl)))⟩

/-- On printable ASCII plus `\n \t \r` a conforming reader gets the original string back. -/
theorem toxml_roundtrip (s : Str) (h : s.all roundtripChar = true) : unescape (toxml s) = s :=
  unescape_toxml s h

/-- Outside that class `toxml` is lossy (NUL becomes the two characters `\0`, other bytes become `x`). -/
theorem toxml_roundtrip_counterexample : ¬ ∀ s : Str, unescape (toxml s) = s := by
  intro h
  exact absurd (h [Char.ofNat 200]) (by decide)

example : ("a<b && \"c\"\n".toList).all roundtripChar = true := by decide

/-- Distinct pointers get distinct ids, and an id is a plain hexadecimal numeral. -/
theorem idString_injective (a b : Nat) (h : idString a = idString b) : a = b := by
  have := congrArg hexValue h
  rwa [hexValue_idString, hexValue_idString] at this

theorem idString_wellformed (l : Nat) : AttrSafe (idString l) := by
  apply AttrSafe.of_plain
  unfold idString
  split
  · intro c hc; simp at hc; subst hc; decide
  · exact idDigits_plain l l [] (by simp)

/-- `std::to_string` of an integer: sign and decimal digits only. -/
theorem number_wellformed (z : Int) : AttrSafe (intString z) :=
  AttrSafe.of_plain _ (intString_plain z)

/-- Every string an `enum` writer of the dump can return (the literals extracted from the current source of the twelve
    printers by the translator) is plain attribute content. -/
theorem enum_wellformed : ∀ p ∈ Cppcheck.Gen.DumpEnums.enumLiterals, ∀ s ∈ p.2, AttrSafe s := by
  have h : ∀ p ∈ Cppcheck.Gen.DumpEnums.enumLiterals, ∀ s ∈ p.2, allPlain s = true := by decide
  exact fun p hp s hs => AttrSafe.of_allPlain s (h p hp s hs)

example : intString (-1205) = ['-', '1', '2', '0', '5'] := by decide

end Cppcheck.C14

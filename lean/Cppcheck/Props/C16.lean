import Cppcheck.Proofs.Lockset

/-!
C16 — the thread executor is free of data races (lockset part).

Model: `Cppcheck/Model/Lockset.lean`.  Threads: 0 = main thread, 1..n = workers, `n` arbitrary.  A worker repeatedly
starts a *method event* (a control-flow path of a member function of an object shared between the workers) and executes
its operations `acq m | rel m | read x | write x | atomic x` one at a time, interleaved arbitrarily with the other workers;
`acq` blocks while another thread holds the mutex.  The main thread runs only while no worker runs (before the spawn /
after the join in `ThreadExecutor::check`) and is not constrained by any discipline.  `Race s`: two different threads
whose next operations are conflicting accesses (same location, one of them a plain write).

Discipline (`disciplined g`): every location `x` has a guard `g x`; `mutex m`: every worker access to `x` happens while
the worker holds `m`; `readOnly`: workers never write `x`.  Balanced: RAII shape — never re-lock a held mutex
(`std::mutex` is not recursive), never unlock a mutex not held, nothing held when the event ends.

The theorems hold for every number of workers and every schedule.  The statements over the table extracted from the
current source are in `Cppcheck/Props/C16Table.lean`.
-/
namespace Cppcheck.Lockset

/-- General form: any (possibly infinite) set `W` of balanced, disciplined worker events, any set `M` of main-thread
    events: no reachable state of the interleaving semantics has a race. -/
theorem reach_no_race (W M : List Op → Prop) (g : GuardMap)
    (hW : ∀ b, W b → balancedFrom [] b = true ∧ disciplinedFrom g [] b = true)
    (n : Nat) (s : State) (h : Reach W M n s) : ¬ Race s :=
  inv_no_race (inv_reach hW h)

/-- Finite flat tables, executable runs: for every number of workers `n` and every schedule `σ` (entries that are not
    enabled are skipped) the state reached has no race. -/
theorem lockset_no_race (T : Tables) (g : GuardMap) (hb : T.worker.balanced = true) (hd : T.worker.disciplined g = true) :
    ∀ (n : Nat) (σ : List Sched), ¬ Race (run T n σ) := by
  intro n σ
  refine reach_no_race (· ∈ T.worker) (· ∈ T.main) g ?_ n _ (run_reach T n σ)
  intro b hbm
  have h1 := List.all_eq_true.mp hb b hbm
  have h2 := List.all_eq_true.mp hd b hbm
  exact ⟨h1, h2⟩

/-- Structured tables (what the translator emits): if every statement passes the syntactic checks then every control-flow
    path of every statement — including paths left early by return / throw / break / continue, any number of loop
    iterations, access points passed without performing the access — is a balanced, disciplined flat event … -/
theorem structured_paths_disciplined (P : StmtTable) (g : GuardMap)
    (hb : P.balanced = true) (hd : P.disciplined g = true) (p : List Op) (hp : P.paths p) :
    balancedFrom [] p = true ∧ disciplinedFrom g [] p = true :=
  paths_ok hb hd hp

/-- … hence no interleaving of any number of workers executing such paths reaches a race. -/
theorem structured_no_race (P : StmtTable) (M : List Op → Prop) (g : GuardMap)
    (hb : P.balanced = true) (hd : P.disciplined g = true)
    (n : Nat) (s : State) (h : Reach P.paths M n s) : ¬ Race s :=
  reach_no_race P.paths M g (fun _ hp => paths_ok hb hd hp) n s h

/-- `Race` is decidable through `raceB` (used by the concrete counterexamples). -/
theorem race_iff_raceB (s : State) : Race s ↔ raceB s = true :=
  ⟨raceB_of_race, race_of_raceB⟩

/-- The executable runs stay inside the relational semantics (so the `run` theorems are about the same system). -/
theorem run_is_reachable (T : Tables) (n : Nat) (σ : List Sched) :
    Reach (· ∈ T.worker) (· ∈ T.main) n (run T n σ) :=
  run_reach T n σ

/-! ### the hypotheses are satisfiable and not vacuous -/

/-- shape of `SuppressionList::addSuppression` / `getSuppressions`: location 0 guarded by mutex 0 -/
def exGuard : GuardMap := guardOfList [.mutex 0, .readOnly]
def exLocked : Stmt := .locked 0 (.seq (.acc (.write 0)) (.alt (.acc (.read 0)) .skip))
def exReader : Stmt := .locked 0 (.scope (.loop (.scope (.seq (.acc (.read 0)) (.acc (.read 1))))))

example : StmtTable.balanced [exLocked, exReader] = true ∧ StmtTable.disciplined [exLocked, exReader] exGuard = true := by decide

example : MethodTable.balanced [exLocked.somePath, exReader.somePath] = true ∧
    MethodTable.disciplined [exLocked.somePath, exReader.somePath] exGuard = true := by decide

/-- the model really runs: two workers, the first inside its critical section, the second blocked on the mutex -/
example : run ⟨[exLocked.somePath], []⟩ 2 [.spawn, .start 1 0, .start 2 0, .exec 1, .exec 1, .exec 2] =
    ⟨.par, [idle, ⟨[0], [.read 0, .rel 0]⟩, ⟨[], [.acq 0, .write 0, .read 0, .rel 0]⟩]⟩ := by decide

/-- every path of a statement is a path: the early-exit path of `exLocked` after the write still unlocks -/
example : Path exLocked [.acq 0, .write 0, .rel 0] false :=
  Path.locked (p := [.write 0]) (Path.seq (Path.acc (.write 0)) (Path.abort _))

/-! ### the discipline is needed: what the theorem excludes

`unguardedReader` has the shape of `SuppressionList::getUnmatchedInlineSuppressions` (reads `mSuppressions` without taking
`mSuppressionsSync`).  If it could run on a worker while another worker runs `addSuppression`, the model has a race: -/

def unguardedReader : List Op := [.read 0]

theorem undisciplined_table_races :
    Race (run ⟨[exLocked.somePath, unguardedReader], []⟩ 2 [.spawn, .start 1 0, .start 2 1, .exec 1]) := by
  rw [race_iff_raceB]; decide

/-- the same unguarded event is harmless on the main thread after the join (fork–join ordering, no lock needed) -/
theorem unguarded_main_phase_event_is_fine :
    ∀ (n : Nat) (σ : List Sched), ¬ Race (run ⟨[exLocked.somePath], [unguardedReader]⟩ n σ) :=
  lockset_no_race ⟨[exLocked.somePath], [unguardedReader]⟩ exGuard (by decide) (by decide)

/-- … and the checks reject the table that lists it as a worker event -/
theorem unguarded_worker_event_rejected :
    MethodTable.disciplined [exLocked.somePath, unguardedReader] exGuard = false := by decide

/-- a write to a location declared read-only is rejected, as is re-locking a held mutex -/
example : Stmt.disciplined exGuard [] (.acc (.write 1)) = false := by decide
example : Stmt.balanced [] (.locked 0 (.locked 0 .skip)) = false := by decide

end Cppcheck.Lockset

import Cppcheck.Proofs.ClangLine
import Cppcheck.Proofs.ClangDeclMap
import Cppcheck.Proofs.Links
/-
C35 — Clang-AST import yields a consistent program model: the decided part.

  (i)   AST      the import touches the AST only through `astOperand1/astOperand2` (Model/ClangDeclMap.lean `SetOp`), so C14's
                 invariant holds for every token list the model import produces; the checker that re-checks the invariant on the token
                 list of the REAL importer is sound; the link vector is compared with C14's verified bracket linker
  (ii)  lines    `splitString` inverts clang's field joining for clang's field shapes
  (iii) decls    the address-keyed map links every use to the declaration with the referenced address, before or after it
  (iv)  places   a location token resolves to clang's location when the inherited line is clang's last printed line; the importer
                 inherits from the parent node instead (counterexample), and takes the END column for the `<line:…>` form
-/
namespace Cppcheck.C35
open Cppcheck.ClangLine Cppcheck.ClangDeclMap

/-! ## (ii) the line splitter -/

/-- For every sequence of well-formed fields (any number, any length): splitting the joined text gives the fields back. -/
theorem split_join (fs : List Field) (h : fs.all Field.ok = true) :
    splitString (join (fs.map Field.render)) = some (fs.map Field.render) :=
  splitString_join fs h

/-- Without the well-formedness the round trip fails: clang prints an invalid range as `<<invalid sloc>>`, which the splitter cuts at
    the first `>` (the importer's `setLocations` knows the fragment `<<invalid sloc>`); a quoted string with an escaped quote and a
    bare word with `::` are cut as well. -/
theorem split_join_counterexample : ¬ ∀ fs : List Str, splitString (join fs) = some fs := by
  intro h
  exact absurd (h ["<<invalid sloc>>".toList]) (by decide)

example : splitString (join ["<<invalid sloc>>".toList]) = some ["<<invalid sloc>".toList, ">".toList] := by decide
example : splitString (join ["ns::f".toList]) = some ["ns".toList, "::".toList, "f".toList] := by decide
example : splitString (join ["\"a\\\"b\"".toList]) = some ["\"a\\\"".toList, "b\"".toList] := by decide

/-- the hypothesis is satisfiable by a typical clang line -/
example : [Field.word "0x55d5c8".toList, .angle "col:3, col:11".toList, .word "col:7".toList, .word "used".toList, .word "x".toList,
    .squote2 "int (*)(int)".toList "int (*)(int)".toList, .word "cinit".toList, .punct '(', .dquote "a b".toList].all Field.ok = true := by decide

/-! ## (iii) the declaration map -/

/-- what `use_links_referenced` promises for a token that looked up address `a` -/
def Linked (D : Data) (evs : List Ev) (a : Addr) (t : Nat) : Prop :=
  match declAt evs a with
  | some ⟨.var, d, o⟩ => (D.attrs t).var = some o ∧ (D.attrs t).varId = (D.attrs d).varId ∧ (D.attrs d).var = some o ∧ (D.attrs d).varId ≠ 0
  | some ⟨.func, _, o⟩ => (D.attrs t).func = some o
  | some ⟨.enumr, _, o⟩ => (D.attrs t).enumr = some o
  | some ⟨.scope, _, _⟩ => D.attrs t = {}
  | none => D.attrs t = {} ∧ (lookup D.notFound a).isSome = true

/-- For every sequence of declaration-map calls in which each clang address is declared at most once and each call has a token and a
    Variable object of its own: every token that looked an address up — before or after the declaration was seen — ends up linked to
    exactly the declaration with that address (variable and varId of its name token / function / enumerator); a token whose address is
    never declared stays untouched and pending. -/
theorem use_links_referenced (evs : List Ev) (hu : addrsUnique evs) (hf : toksFresh evs) (ho : objsFresh evs)
    (hn : evs.all (fun e => !isReplace e) = true) :
    ∀ a t, Ev.ref a t ∈ evs → Linked (runEvents {} evs) evs a t := by
  intro a t hr
  have hJ := J_run evs ⟨hu, hf, ho, hn⟩
  have htr : t ∈ refToks evs a := mem_refToks.2 hr
  unfold Linked
  cases hd : declAt evs a with
  | none =>
    refine ⟨hJ.pendAttr a t htr hd, ?_⟩
    rw [hJ.pend a hd]
    have : refToks evs a ≠ [] := fun h => by rw [h] at htr; cases htr
    simp [this]
  | some d =>
    have hl := hJ.link a t d htr hd
    obtain ⟨k, dt, o⟩ := d
    cases k with
    | var =>
      obtain ⟨v1, v2, v3, v4, _⟩ := hJ.vdef a dt o (declAt_var hd)
      have hid : (runEvents {} evs).attrs ((runEvents {} evs).varDef o) = (runEvents {} evs).attrs dt := by rw [v1]
      have hne : (0 : Nat) ≠ ((runEvents {} evs).attrs dt).varId := by omega
      simp only [Decl.mark, hid] at hl
      refine ⟨?_, ?_, ?_, by omega⟩
      · rw [hl]; simp [Attr.setVariable, Attr.setVarId, Attr.var, hne]; omega
      · rw [hl]; simp [Attr.setVariable, Attr.setVarId, hne]
      · simp [Attr.var, v2, v3]
    | func => simp only [Decl.mark] at hl; rw [hl]; simp [Attr.setFunction, Attr.func]
    | enumr => simp only [Decl.mark] at hl; rw [hl]; simp [Attr.setEnumerator, Attr.enumr]
    | scope => simpa [Decl.mark] using hl

/-- Different variable declarations get different varIds (and none gets 0). -/
theorem varIds_distinct (evs : List Ev) (hu : addrsUnique evs) (hf : toksFresh evs) (ho : objsFresh evs)
    (hn : evs.all (fun e => !isReplace e) = true) (a a' : Addr) (d d' o o' : Nat)
    (h1 : Ev.varDecl a d o ∈ evs) (h2 : Ev.varDecl a' d' o' ∈ evs) (hne : d ≠ d') :
    ((runEvents {} evs).attrs d).varId ≠ ((runEvents {} evs).attrs d').varId ∧ ((runEvents {} evs).attrs d).varId ≠ 0 := by
  have hJ := J_run evs ⟨hu, hf, ho, hn⟩
  refine ⟨hJ.inj a d o a' d' o' h1 h2 hne, ?_⟩
  have := (hJ.vdef a d o h1).2.2.2.1
  omega

/-- what the import promises for the token `t` that looked up address `a`.  Tokens carry their map names here: `2 * index` when the
    token is spelt like an identifier (`update_property_info` then derives `eVariable` from the varId), `2 * index + 1` otherwise
    (`~C`, `<NoName>`); `Imported.attrs i = rawAttrs (encOf toks i)`. -/
def LinkedImport (im : Imported) (a : Addr) (t : Nat) : Prop :=
  match declAt im.events a with
  | some ⟨.var, d, o⟩ => (im.rawAttrs t).varId = (im.rawAttrs d).varId ∧ (im.rawAttrs d).varId ≠ 0 ∧
      (t % 2 = 0 → (im.rawAttrs t).var = some o) ∧ (d % 2 = 0 → (im.rawAttrs d).var = some o)
  | some ⟨.func, _, o⟩ => t % 2 = 0 → (im.rawAttrs t).func = some o
  | some ⟨.enumr, _, o⟩ => t % 2 = 0 → (im.rawAttrs t).enumr = some o
  | some ⟨.scope, _, _⟩ => t % 2 = 0 → im.rawAttrs t = {}
  | none => t % 2 = 0 → im.rawAttrs t = {}

/-- (iii) composed with the import: the token attributes a successful model import returns ARE the result of running its logged
    declaration-map calls (`importDump_data`: the import can change the map through `Log.emit` only), so whenever those calls satisfy the
    hypotheses (measured on every real dump, evidence `theorem_hypotheses_on_real_dumps`) every use the import issued is linked to the
    declaration with the referenced address. -/
theorem import_uses_linked {file0 text : Str} {im : Imported} (h : importDump file0 text = .ok im)
    (hu : addrsUnique im.events) (hf : toksFresh im.events) (ho : objsFresh im.events)
    (hn : im.events.all (fun e => !isReplace e) = true) :
    ∀ a t, Ev.ref a t ∈ im.events → LinkedImport im a t := by
  intro a t hr
  have hL := use_links_referenced im.events hu hf ho hn a t hr
  have hS := Sim.run im.events Sim.init
  have eqOf : ∀ u, u % 2 = 0 → (runEvents initData im.events).attrs u = (runEvents {} im.events).attrs u := by
    intro u hu
    have hs := hS.attrs u
    exact hs.same (by rw [hs.name]; simp [hu])
  unfold LinkedImport
  unfold Linked at hL
  rw [(importDump_data h).1]
  cases hd : declAt im.events a with
  | none =>
    rw [hd] at hL
    intro ht; rw [eqOf t ht]; exact hL.1
  | some d =>
    rw [hd] at hL
    obtain ⟨k, dt, o⟩ := d
    cases k with
    | var =>
      simp only at hL ⊢
      obtain ⟨l1, l2, l3, l4⟩ := hL
      refine ⟨?_, ?_, ?_, ?_⟩
      · rw [(hS.attrs t).varId, (hS.attrs dt).varId]; exact l2
      · rw [(hS.attrs dt).varId]; exact l4
      · intro ht; rw [eqOf t ht]; exact l1
      · intro ht; rw [eqOf dt ht]; exact l3
    | func => simp only at hL ⊢; intro ht; rw [eqOf t ht]; exact hL
    | enumr => simp only at hL ⊢; intro ht; rw [eqOf t ht]; exact hL
    | scope => simp only at hL ⊢; intro ht; rw [eqOf t ht]; exact hL

/-- the hypotheses are satisfiable: two uses before their declarations, one after, one never declared -/
def sampleEvents : List Ev :=
  [.ref "0x2".toList 0, .varDecl "0x1".toList 1 0, .ref "0x1".toList 2, .ref "0x2".toList 3, .varDecl "0x2".toList 4 1,
   .funcDecl "0x3".toList 5 0, .ref "0x3".toList 6, .ref "0x9".toList 7]
example : addrsUnique sampleEvents ∧ toksFresh sampleEvents ∧ objsFresh sampleEvents ∧ sampleEvents.all (fun e => !isReplace e) = true := by decide
example : ((runEvents {} sampleEvents).attrs 0).var = some 1 ∧ ((runEvents {} sampleEvents).attrs 0).varId = 2 ∧
    ((runEvents {} sampleEvents).attrs 2).varId = 1 ∧ ((runEvents {} sampleEvents).attrs 6).func = some 0 ∧
    (runEvents {} sampleEvents).attrs 7 = {} := by decide

/-- `addrsUnique` is needed: when an address is declared twice (`emplace` keeps the first entry) a later use is linked to the FIRST
    declaration although the second one carries the same address. -/
theorem use_links_dup_address_counterexample :
    ¬ ∀ (evs : List Ev) (a : Addr) (t d o : Nat), Ev.ref a t ∈ evs → Ev.varDecl a d o ∈ evs → ((runEvents {} evs).attrs t).var = some o := by
  intro h
  have := h [.varDecl "0x1".toList 0 0, .varDecl "0x1".toList 1 1, .ref "0x1".toList 2] "0x1".toList 2 1 1 (by decide) (by decide)
  revert this
  decide

/-! ## (iv) locations -/

/-- One location token (`mExtTokens[1]` as clang prints it for the range `b … e` in state `st`): the importer reads the file and the line
    of the begin location correctly when the file / line it inherits are clang's last printed ones in the cases where clang relies on
    them, and the column when clang printed `col:`. -/
theorem location_token_resolves (files : List Str) (st : PState) (b e : Loc) (hb : b.ok = true) (he : e.ok = true) (inh : Pos)
    (hfile : b.file = st.file → files[inh.file]? = some st.file) (hline : (formOf st b).1 = .col b.col → inh.line = (st.line : Int)) :
    ∃ files' p, setLoc files (printRange st b e).1 inh = .ok (files', p) ∧
      files'[p.file]? = some b.file ∧ p.line = (b.line : Int) ∧ ((formOf st b).1 = .col b.col → p.col = (b.col : Int)) :=
  begin_resolves files st b e hb he inh hfile hline

/-- Any dump (any tree shape, any number of nodes, any mixture of the three spellings): if at every node the inheritance condition
    holds, every node gets the line clang means. -/
theorem location_sequence_resolves (nodes : List SNode) (files : List Str) (stack : List Pos) (init : Pos) (st : PState)
    (hok : nodes.all SNode.ok = true) (hth : lineThreadOK files stack init st nodes = true) :
    ∃ ps, setLocSeq files stack init (printSeq st nodes) = .ok ps ∧ ps.map (·.line) = nodes.map (fun n => (n.b.line : Int)) :=
  seq_lines_resolve nodes files stack init st hok hth

example : oneLineFunction.all SNode.ok = true ∧ lineThreadOK [] [] ⟨0, 1, 1⟩ ⟨[], 0⟩ oneLineFunction = true := by decide +kernel

/-- The condition is not met by clang's output in general: `setLocations` hands every child the position of its PARENT, clang continues
    from the LAST PRINTED location.  `int f(int a,⏎ int b) { … }`: the body is printed `<col:14, col:26>` after the second parameter
    moved clang to line 2; the importer puts it on line 1. -/
theorem location_inheritance_counterexample :
    ¬ ∀ (nodes : List SNode), nodes.all SNode.ok = true →
      ∃ ps, setLocSeq [] [] ⟨0, 1, 1⟩ (printSeq ⟨[], 0⟩ nodes) = .ok ps ∧ ps.map (·.line) = nodes.map (fun n => (n.b.line : Int)) := by
  intro h
  obtain ⟨ps, h1, h2⟩ := h twoLineFunction (by decide +kernel)
  have h3 : (setLocSeq [] [] ⟨0, 1, 1⟩ (printSeq ⟨[], 0⟩ twoLineFunction)).toOption.map (fun ps => ps.map (·.line)) =
      some [1, 1, 2, 1] := by decide +kernel
  rw [h1] at h3
  simp only [Except.toOption, Option.map_some, Option.some.injEq] at h3
  rw [h3] at h2
  revert h2
  decide +kernel

/-- The column: for the `<line:L:C, col:E>` spelling the importer takes `E`, the END column (and keeps the inherited column when the end
    is not printed as `col:`). -/
theorem location_column_counterexample :
    ¬ ∀ (l c E : Nat) (inh : Pos), ∃ files p, setLoc [] (rangeStr (.line l c) (some (.col E))) inh = .ok (files, p) ∧ p.col = (c : Int) := by
  intro h
  obtain ⟨files, p, h1, h2⟩ := h 3 7 11 ⟨0, 1, 1⟩
  have h3 : (setLoc [] (rangeStr (.line 3 7) (some (.col 11))) ⟨0, 1, 1⟩).toOption = some ([], ⟨0, 3, 11⟩) := by decide +kernel
  rw [h1] at h3
  simp only [Except.toOption, Option.some.injEq, Prod.mk.injEq] at h3
  obtain ⟨_, rfl⟩ := h3
  revert h2
  decide

/-- what it takes instead, for every range printed in the line form -/
theorem location_lineform_column (files : List Str) (l c : Nat) (hl : l < 2147483648) (e : Option LForm) (he : endOK e = true) (inh : Pos) :
    setLoc files (rangeStr (.line l c) e) inh = .ok (files, { inh with line := (l : Int), col := lineFormCol e inh }) :=
  setLoc_line files l c hl e he inh

/-! ## (i) the AST and the links -/

/-- The model import (any dump) issues only `astOperand1` / `astOperand2` calls … -/
theorem import_setters_only {file0 text : Str} {im : Imported} (h : importDump file0 text = .ok im) :
    im.ops.all AstStore.Op.viaOperands = true :=
  import_ops_viaOperands h

/-- … therefore the AST of every token list it produces satisfies C14's invariant (acyclic, an operand's parent points back, a child is
    listed by its parent, op1 ≠ op2). -/
theorem import_ast_invariant {file0 text : Str} {im : Imported} (h : importDump file0 text = .ok im) :
    AstStore.Inv im.store :=
  import_store_inv h

/-- The checker the check runs on the token list of the REAL importer accepts only stores that satisfy the invariant. -/
theorem checker_sound (parent op1 op2 : List (Option Nat)) (h : checkInv parent op1 op2 = true) :
    AstStore.Inv (storeOf parent op1 op2) :=
  checkInv_sound parent op1 op2 h

/-- The link vector of the real token list is compared with what C14's verified linker computes from the first characters; when they agree
    the links are symmetric, join an opening bracket to a later closing bracket of the same kind, cover all brackets and never cross. -/
theorem checked_links (ts : List Links.Tok) (L : List (Option Nat)) (h : Links.createLinks ts = .ok L) :
    Links.Symmetric L ∧ Links.ProperlyNested ts L :=
  (Links.createLinks_spec ts).2 L h

example : checkInv [some 1, none, some 1] [none, some 0, none] [none, some 2, none] = true := by decide
example : checkInv [some 1, some 0] [some 1, some 0] [none, none] = false := by decide

end Cppcheck.C35

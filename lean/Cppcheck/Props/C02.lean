import Cppcheck.Model.ContainerSize
import Cppcheck.Proofs.ContainerSize
import Cppcheck.Gen.StdCfgContainers
/-!
C02 — container-size facts hold in every UB-free execution.

`Gen.StdCfgContainers.stdCfgContainers` is the flattened member-function table of cfg/std.cfg (regenerated on every run).
`absEffect` is what the value-flow analysis assumes a call does to the size (from its configured action / yield),
`refEffect` what the member function of the C++ standard library does.  The table obligation is decided over the *whole*
generated table; the lifting theorem `known_size_sound` turns row soundness into: a Known size computed by the forward
analysis along a straight-line call sequence of any length is the size in every execution.
-/
namespace Cppcheck.ContainerSize
open Cppcheck.Gen.StdCfgContainers

/-- the decidable refinement test is sound for the effect relations -/
theorem refinesB_sound (r a : Eff) (h : refinesB r a = true) : ∀ arg n n', r.rel arg n n' → a.rel arg n n' :=
  fun arg n n' hr => refinesB_sound_aux r a h arg n n' hr

example : refinesB (.add 1) (.add 1) = true ∧ refinesB .addUnique (.add 1) = false ∧ refinesB .grow .any = true := by decide

/-- the rows of cfg/std.cfg whose configured action is *not* sound today (F6): insertion into a container with unique keys is
    configured as `push` (+1), but it adds nothing when the key is already present -/
def knownUnsoundRows : List (String × String) :=
  [("stdMap", "emplace"), ("stdMap", "emplace_hint"), ("stdMap", "insert"), ("stdMap", "insert_or_assign"), ("stdMap", "try_emplace"),
   ("stdSet", "emplace"), ("stdSet", "emplace_hint"), ("stdSet", "insert")]

/-- **every other row of the table is sound**: the effect the analysis assumes contains the reference effect, and where the
    analysis assumes "not empty afterwards" the reference effect guarantees it -/
theorem cfg_actions_sound_partial :
    ∀ e ∈ stdCfgContainers, (e.container, e.method) ∉ knownUnsoundRows → entrySound e = true := by
  decide +kernel

/-- a row of the table is unsound **iff** it is one of the listed rows and still configured as `push` (today: all eight;
    after proposed/C02-set-insert-action.diff: none, and then this theorem says that every row is sound).
    A second class of unsound rows would break this theorem. -/
theorem cfg_actions_unsound_rows_exact :
    (stdCfgContainers.filter fun e => !entrySound e) =
      (stdCfgContainers.filter fun e => knownUnsoundRows.contains (e.container, e.method) && e.action == .push) := by
  decide +kernel

/-- the full statement ("every configured action is sound") is false for a unique-key insertion configured as `push`:
    the reference effect of `std::set::insert` (over all overloads: the size does not shrink) allows 1 → 1, inserting a key that
    is present; the assumed effect of `push` is 1 → 2 -/
theorem cfg_set_insert_counterexample :
    refEffect .set "insert" = some .grow ∧ entrySound ⟨"stdSet", "insert", .push, .noYield⟩ = false ∧
    ¬ ∀ arg n n', Eff.grow.rel arg n n' → (absEffect .push .noYield).rel arg n n' := by
  refine ⟨by decide, by decide, ?_⟩
  intro h
  have := h 0 1 1 (by simp [Eff.rel])
  simp [absEffect, Eff.rel] at this

/-- sound rows with action `push`: the container is not empty after the call (the Impossible-0 fact valueFlowContainerSize
    forwards behind a push) -/
theorem cfg_nonempty_after_push_sound (e : Entry) (he : entrySound e = true) (hp : e.action = .push)
    (k : Kind) (r : Eff) (hk : kindOf e.container = some k) (hr : refEffect k e.method = some r) :
    ∀ arg n n', r.rel arg n n' → 1 ≤ n' := by
  intro arg n n' hrel
  unfold entrySound at he
  simp only [hk, hr, hp, assumesNonEmptyAfter] at he
  simp at he
  exact leavesNonEmpty_sound r he.2 arg n n' hrel

example : entrySound ⟨"stdVector", "push_back", .push, .noYield⟩ = true := by decide

/-- **lifting**: along a call sequence of any length whose assumed effects contain the reference effects, a Known size
    computed by the forward analysis (`absRun`, i.e. writeValue / invalidation) equals the size of every execution -/
theorem known_size_sound (calls : List Call) (h : ∀ c ∈ calls, refinesB c.ref c.abs = true) :
    ∀ (n0 : Nat) (k0 : Option Int), (∀ k, k0 = some k → k = n0) →
    ∀ n, RefRun calls n0 n → ∀ k, absRun calls k0 = some k → k = n := by
  induction calls with
  | nil =>
    intro n0 k0 hk0 n hrun k hk
    cases hrun
    simp only [absRun] at hk
    exact hk0 k hk
  | cons c rest ih =>
    intro n0 k0 hk0 n hrun k hk
    cases hrun with
    | cons _ _ _ m _ hrel hrest =>
      simp only [absRun] at hk
      have habs : c.abs.rel c.arg n0 m := refinesB_sound c.ref c.abs (h c List.mem_cons_self) c.arg n0 m hrel
      exact ih (fun c' hc' => h c' (List.mem_cons_of_mem _ hc')) m (absStep c.abs c.arg k0)
        (absStep_sound c.abs c.arg n0 m k0 hk0 habs) n hrest k hk

example : (∀ c ∈ [({ abs := .add 1, ref := .add 1, arg := 0 } : Call), { abs := .pop, ref := .pop, arg := 0 }, { abs := .any, ref := .shrink, arg := 0 }],
      refinesB c.ref c.abs = true) ∧
    absRun [{ abs := .add 1, ref := .add 1, arg := 0 }, { abs := .add 1, ref := .add 1, arg := 0 }, { abs := .pop, ref := .pop, arg := 0 }] (some 0) = some 1 := by
  decide

/-- the call site of a table row -/
def callOf (e : Entry) (arg : Nat) : Call :=
  { abs := absEffect e.action e.yield,
    ref := ((kindOf e.container).bind fun k => refEffect k e.method).getD .any,
    arg := arg }

theorem callOf_sound (e : Entry) (arg : Nat) (h : entrySound e = true) : refinesB (callOf e arg).ref (callOf e arg).abs = true := by
  unfold entrySound at h
  unfold callOf
  cases hk : kindOf e.container with
  | none => simp [hk] at h
  | some k =>
    cases hr : refEffect k e.method with
    | none => simp [hk, hr] at h
    | some r =>
      simp only [hk, hr] at h
      simp at h
      simp only [Option.bind, hr, Option.getD]
      exact h.1

/-- the lifting theorem instantiated with the generated table: any sequence of calls of configured member functions other than
    the listed unsound rows -/
theorem known_size_sound_table (rows : List (Entry × Nat))
    (h : ∀ p ∈ rows, p.1 ∈ stdCfgContainers ∧ (p.1.container, p.1.method) ∉ knownUnsoundRows) :
    ∀ n, RefRun (rows.map fun p => callOf p.1 p.2) 0 n → ∀ k, absRun (rows.map fun p => callOf p.1 p.2) (some 0) = some k → k = n := by
  apply known_size_sound _ _ 0 (some 0) (by intro k hk; injection hk with hk; omega)
  intro c hc
  obtain ⟨p, hp, rfl⟩ := List.mem_map.mp hc
  exact callOf_sound p.1 p.2 (cfg_actions_sound_partial p.1 (h p hp).1 (h p hp).2)

example : (⟨"stdVector", "push_back", .push, .noYield⟩ : Entry) ∈ stdCfgContainers ∧
    (("stdVector", "push_back") : String × String) ∉ knownUnsoundRows := by decide +kernel

/-- with a listed row the lifted statement fails: `std::set<int> s; s.insert(1); s.insert(1);` has size 1, the analysis says 2 -/
theorem known_size_unsound_set_insert_counterexample :
    ¬ ∀ n, RefRun [callOf ⟨"stdSet", "insert", .push, .noYield⟩ 0, callOf ⟨"stdSet", "insert", .push, .noYield⟩ 0] 0 n →
        ∀ k, absRun [callOf ⟨"stdSet", "insert", .push, .noYield⟩ 0, callOf ⟨"stdSet", "insert", .push, .noYield⟩ 0] (some 0) = some k → k = n := by
  intro h
  have hrun : RefRun [callOf ⟨"stdSet", "insert", .push, .noYield⟩ 0, callOf ⟨"stdSet", "insert", .push, .noYield⟩ 0] 0 1 := by
    refine RefRun.cons _ _ 0 1 1 ?_ (RefRun.cons _ _ 1 1 1 ?_ (RefRun.nil 1)) <;> simp [callOf, kindOf, refEffect, keepMethods, Kind.isSequence, Kind.isMulti, Kind.isUnique, Eff.rel]
  have := h 1 hrun 2 (by decide)
  omega

end Cppcheck.ContainerSize

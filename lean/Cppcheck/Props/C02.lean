import Cppcheck.Model.ContainerSize
import Cppcheck.Proofs.ContainerSize
import Cppcheck.Gen.StdCfgContainers
/-!
C02 — container-size facts hold in every UB-free execution.

`Gen.StdCfgContainers.stdCfgContainers` is the flattened member-function table of cfg/std.cfg (regenerated on every run).
`absEffect` is what the value-flow analysis assumes a call does to the size (from its configured action / yield),
`refEffect` what the member function of the C++ standard library does.  The table obligation is decided over the *whole*
generated table; the lifting theorem `known_size_sound` turns row soundness into: a Known size computed by the forward
analysis along a straight-line call sequence of any length is the size in every execution.
-/
namespace Cppcheck.ContainerSize
open Cppcheck.Gen.StdCfgContainers

/-- the decidable refinement test is sound for the effect relations -/
theorem refinesB_sound (r a : Eff) (h : refinesB r a = true) : ∀ arg n n', r.rel arg n n' → a.rel arg n n' :=
  fun arg n n' hr => refinesB_sound_aux r a h arg n n' hr

example : refinesB (.add 1) (.add 1) = true ∧ refinesB .addUnique (.add 1) = false ∧ refinesB .grow .any = true := by decide

/-- **every row of the table is sound**: the effect the analysis assumes contains the reference effect, and where the analysis
    assumes "not empty afterwards" the reference effect guarantees it — decided over the whole generated table -/
theorem cfg_actions_sound : ∀ e ∈ stdCfgContainers, entrySound e = true := by
  decide +kernel

/-- regression (F6, repaired by 8c7e264): the rows cfg/std.cfg had for unique-key insertion — action `push` — are unsound: the
    reference effect of `std::set::insert` (over all overloads: the size does not shrink) allows 1 → 1, inserting a key that is
    present; the assumed effect of `push` is 1 → 2.  The same holds for emplace / emplace_hint (and try_emplace / insert_or_assign
    of std::map). -/
theorem cfg_set_insert_counterexample :
    refEffect .set "insert" = some .grow ∧
    (["insert", "emplace", "emplace_hint"].all fun m => !entrySound ⟨"stdSet", m, .push, .noYield⟩) = true ∧
    (["insert", "emplace", "emplace_hint", "try_emplace", "insert_or_assign"].all fun m => !entrySound ⟨"stdMap", m, .push, .noYield⟩) = true ∧
    ¬ ∀ arg n n', Eff.grow.rel arg n n' → (absEffect .push .noYield).rel arg n n' := by
  refine ⟨by decide, by decide, by decide, ?_⟩
  intro h
  have := h 0 1 1 (by simp [Eff.rel])
  simp [absEffect, Eff.rel] at this

/-- sound rows with action `push`: the container is not empty after the call (the Impossible-0 fact valueFlowContainerSize
    forwards behind a push) -/
theorem cfg_nonempty_after_push_sound (e : Entry) (he : entrySound e = true) (hp : e.action = .push)
    (k : Kind) (r : Eff) (hk : kindOf e.container = some k) (hr : refEffect k e.method = some r) :
    ∀ arg n n', r.rel arg n n' → 1 ≤ n' := by
  intro arg n n' hrel
  unfold entrySound at he
  simp only [hk, hr, hp, assumesNonEmptyAfter] at he
  simp at he
  exact leavesNonEmpty_sound r he.2 arg n n' hrel

example : entrySound ⟨"stdVector", "push_back", .push, .noYield⟩ = true := by decide

/-- **lifting**: along a call sequence of any length whose assumed effects contain the reference effects, a Known size
    computed by the forward analysis (`absRun`, i.e. writeValue / invalidation) equals the size of every execution -/
theorem known_size_sound (calls : List Call) (h : ∀ c ∈ calls, refinesB c.ref c.abs = true) :
    ∀ (n0 : Nat) (k0 : Option Int), (∀ k, k0 = some k → k = n0) →
    ∀ n, RefRun calls n0 n → ∀ k, absRun calls k0 = some k → k = n := by
  induction calls with
  | nil =>
    intro n0 k0 hk0 n hrun k hk
    cases hrun
    simp only [absRun] at hk
    exact hk0 k hk
  | cons c rest ih =>
    intro n0 k0 hk0 n hrun k hk
    cases hrun with
    | cons _ _ _ m _ hrel hrest =>
      simp only [absRun] at hk
      have habs : c.abs.rel c.arg n0 m := refinesB_sound c.ref c.abs (h c List.mem_cons_self) c.arg n0 m hrel
      exact ih (fun c' hc' => h c' (List.mem_cons_of_mem _ hc')) m (absStep c.abs c.arg k0)
        (absStep_sound c.abs c.arg n0 m k0 hk0 habs) n hrest k hk

example : (∀ c ∈ [({ abs := .add 1, ref := .add 1, arg := 0 } : Call), { abs := .pop, ref := .pop, arg := 0 }, { abs := .any, ref := .shrink, arg := 0 }],
      refinesB c.ref c.abs = true) ∧
    absRun [{ abs := .add 1, ref := .add 1, arg := 0 }, { abs := .add 1, ref := .add 1, arg := 0 }, { abs := .pop, ref := .pop, arg := 0 }] (some 0) = some 1 := by
  decide

/-- the call site of a table row -/
def callOf (e : Entry) (arg : Nat) : Call :=
  { abs := absEffect e.action e.yield,
    ref := ((kindOf e.container).bind fun k => refEffect k e.method).getD .any,
    arg := arg }

theorem callOf_sound (e : Entry) (arg : Nat) (h : entrySound e = true) : refinesB (callOf e arg).ref (callOf e arg).abs = true := by
  unfold entrySound at h
  unfold callOf
  cases hk : kindOf e.container with
  | none => simp [hk] at h
  | some k =>
    cases hr : refEffect k e.method with
    | none => simp [hk, hr] at h
    | some r =>
      simp only [hk, hr] at h
      simp at h
      simp only [Option.bind, hr, Option.getD]
      exact h.1

/-- the lifting theorem instantiated with the generated table: any sequence of calls of configured member functions -/
theorem known_size_sound_table (rows : List (Entry × Nat)) (h : ∀ p ∈ rows, p.1 ∈ stdCfgContainers) :
    ∀ n, RefRun (rows.map fun p => callOf p.1 p.2) 0 n → ∀ k, absRun (rows.map fun p => callOf p.1 p.2) (some 0) = some k → k = n := by
  apply known_size_sound _ _ 0 (some 0) (by intro k hk; injection hk with hk; omega)
  intro c hc
  obtain ⟨p, hp, rfl⟩ := List.mem_map.mp hc
  exact callOf_sound p.1 p.2 (cfg_actions_sound p.1 (h p hp))

example : (⟨"stdVector", "push_back", .push, .noYield⟩ : Entry) ∈ stdCfgContainers ∧
    (⟨"stdSet", "insert", .insert, .noYield⟩ : Entry) ∈ stdCfgContainers := by decide +kernel

/-- regression (F6): with the row as it was (`push`) the lifted statement fails: `std::set<int> s; s.insert(1); s.insert(1);` has
    size 1, the analysis said 2 -/
theorem known_size_unsound_set_insert_counterexample :
    ¬ ∀ n, RefRun [callOf ⟨"stdSet", "insert", .push, .noYield⟩ 0, callOf ⟨"stdSet", "insert", .push, .noYield⟩ 0] 0 n →
        ∀ k, absRun [callOf ⟨"stdSet", "insert", .push, .noYield⟩ 0, callOf ⟨"stdSet", "insert", .push, .noYield⟩ 0] (some 0) = some k → k = n := by
  intro h
  have hrun : RefRun [callOf ⟨"stdSet", "insert", .push, .noYield⟩ 0, callOf ⟨"stdSet", "insert", .push, .noYield⟩ 0] 0 1 := by
    refine RefRun.cons _ _ 0 1 1 ?_ (RefRun.cons _ _ 1 1 1 ?_ (RefRun.nil 1)) <;> simp [callOf, kindOf, refEffect, keepMethods, Kind.isSequence, Kind.isMulti, Kind.isUnique, Eff.rel]
  have := h 1 hrun 2 (by decide)
  omega

/-! ### the size of a freshly constructed container (`getInitListSize` / `getContainerSizeFromConstructorArgs`) -/

/-- **a Known size given to `T x(args)` / `T x{args}` is the size the constructor call produces** — for std::string / wstring,
    vector / deque / list, set, unordered_set, multiset of `int`, any argument values, parentheses and braces (with the
    initializer_list preference of [over.match.list]) — outside the call forms `ctorExcluded` lists, for which the code as it is
    states a wrong size (counterexamples below; F02b, F02c, F02f, F02g, F02h). -/
theorem ctorSize_sound_partial (k : CKind) (braces : Bool) (args : List Arg) (s r : Nat)
    (hwf : args.all Arg.wf = true) (hex : ctorExcluded k braces args = false)
    (hs : ctorSize k braces args = some s) (hr : ctorRef k braces args = some r) : s = r :=
  ctorSize_sound_aux k braces args s r hwf hex hs hr

/-- hypotheses are satisfiable, and the forms around the seeded change: `std::string s(3, 'a')` and `std::string s{3, 'a'}` get no
    size (the second argument is integral), `std::vector<int> v{3, 0}` gets 2, `std::string s{'a', 'b'}` gets 2 -/
example :
    ctorSize .string false [.num false 3 true, .num true 97 true] = none ∧ ctorRef .string false [.num false 3 true, .num true 97 true] = some 3 ∧
    ctorSize .string true [.num false 3 true, .num true 97 true] = none ∧ ctorRef .string true [.num false 3 true, .num true 97 true] = some 2 ∧
    ctorSize .seq true [.num false 3 true, .num false 0 true] = some 2 ∧ ctorRef .seq true [.num false 3 true, .num false 0 true] = some 2 ∧
    ctorSize .string true [.num true 97 true, .num true 98 true] = some 2 ∧
    ctorExcluded .seq true [.num false 3 true, .num false 0 true] = false ∧
    ctorSize .string false [.cont 6 6 true, .num false 1 true, .num false 2 true] = some 2 ∧
    ctorRef .string false [.cont 6 6 true, .num false 1 true, .num false 2 true] = some 2 := by decide

/-- the statement without the exclusions is false of the code as it is; one witness per excluded class:
    F02b `std::set<int> s{1, 1, 2}` (3 vs 2), F02f `std::set<int> s(v.begin(), v.end())` with a duplicate in `v` (4 vs 3),
    F02g `std::unordered_set<int> s(16)` (16 vs 0), F02c `std::string u(t, 1, 100)` with `t.size() == 6` (100 vs 5),
    F02h `std::string s{65}` (65 vs 1) -/
theorem ctorSize_sound_counterexamples :
    (ctorSize .set true [.num false 1 true, .num false 1 true, .num false 2 true] = some 3 ∧
      ctorRef .set true [.num false 1 true, .num false 1 true, .num false 2 true] = some 2) ∧
    (ctorSize .set false [.itBegin 4 3 true, .itEnd] = some 4 ∧ ctorRef .set false [.itBegin 4 3 true, .itEnd] = some 3) ∧
    (ctorSize .uset false [.num false 16 true] = some 16 ∧ ctorRef .uset false [.num false 16 true] = some 0) ∧
    (ctorSize .string false [.cont 6 6 true, .num false 1 true, .num false 100 true] = some 100 ∧
      ctorRef .string false [.cont 6 6 true, .num false 1 true, .num false 100 true] = some 5) ∧
    (ctorSize .string true [.num false 65 true] = some 65 ∧ ctorRef .string true [.num false 65 true] = some 1) := by
  decide

theorem ctorSize_sound_counterexample :
    ¬ ∀ (k : CKind) (braces : Bool) (args : List Arg) (s r : Nat), args.all Arg.wf = true →
        ctorSize k braces args = some s → ctorRef k braces args = some r → s = r := by
  intro h
  exact absurd (h .uset false [.num false 16 true] 16 0 (by decide) (by decide) (by decide)) (by decide)

end Cppcheck.ContainerSize

import Cppcheck.Props.C16
import Cppcheck.Gen.LockTable

/-!
C16 — statements over the table extracted from the current source (`Gen/LockTable.lean`, regenerated on every run by
`vlib/props/c16.py`).  `lockTable` = the structured events of all member functions of shared objects that can run on a
worker thread; `guardOf` = the guard of every shared location as inferred by the translator (the inference is not trusted:
`extracted_table_disciplined` re-checks every access of every event against it).
-/
namespace Cppcheck.Lockset
open Cppcheck.Gen.LockTable

/-- every extracted worker event has RAII-balanced, non-recursive locking and performs every access under the guard of the
    accessed location -/
theorem extracted_table_disciplined :
    lockTable.balanced = true ∧ lockTable.disciplined guardOf = true := by decide

/-- no interleaving of any number of workers executing any control-flow paths of the extracted events, with a main thread
    that executes arbitrary events `M` before the spawn / after the join, reaches a race -/
theorem extracted_no_race (M : List Op → Prop) (n : Nat) (s : State) (h : Reach lockTable.paths M n s) : ¬ Race s :=
  structured_no_race lockTable M guardOf extracted_table_disciplined.1 extracted_table_disciplined.2 n s h

/-- executable instance ONLY (one canonical complete path per extracted event as worker table, the undisciplined main-phase
    events as main table); strictly weaker than `extracted_no_race`, which covers all paths -/
theorem extracted_flat_no_race :
    ∀ (n : Nat) (σ : List Sched), ¬ Race (run ⟨lockTable.map Stmt.somePath, mainTable.map Stmt.somePath⟩ n σ) := by
  intro n σ
  refine reach_no_race (· ∈ lockTable.map Stmt.somePath) (· ∈ mainTable.map Stmt.somePath) guardOf ?_ n _
    (run_reach ⟨lockTable.map Stmt.somePath, mainTable.map Stmt.somePath⟩ n σ)
  intro b hb
  obtain ⟨s, hs, rfl⟩ := List.mem_map.mp hb
  exact structured_paths_disciplined lockTable guardOf extracted_table_disciplined.1 extracted_table_disciplined.2 _
    ⟨s, hs, true, somePath_path s⟩

/-- the nine (location, mutex) pairs of the property record (ThreadData::mFileSync ×4, SyncLogForwarder::mReportSync,
    Executor::mErrorListSync, SuppressionList::mSuppressionsSync ×2, TimerResults::mResultsSync) are all present in the
    extracted table and are the guards the translator inferred -/
theorem extracted_anchor_guards :
    anchorGuards.length = 9 ∧ anchorGuards.all (fun p => guardOf p.1 == Guard.mutex p.2) = true := by decide

/-- non-vacuity on the extracted table itself: two workers start the witness event (`SyncLogForwarder::reportOut` on the
    current tree); after worker 1 executed its `acq` it holds exactly one mutex, and worker 2 — although scheduled twice — is
    still in front of its first operation (blocked on the same mutex), holding nothing -/
theorem extracted_table_runs :
    let T : Tables := ⟨lockTable.map Stmt.somePath, mainTable.map Stmt.somePath⟩
    let s := run T 2 [.spawn, .start 1 witnessEvent, .start 2 witnessEvent, .exec 1, .exec 2, .exec 2]
    s.phase = .par ∧ s.threads[1]?.map (·.held.length) = some 1 ∧ s.threads[2]?.map (·.held) = some [] ∧
      s.threads[2]?.map (·.rest) = T.worker[witnessEvent]? ∧ (T.worker[witnessEvent]?.bind List.head?).isSome = true := by
  decide

/-- … and the same event with its lock operations removed is a race between two workers: the discipline check is what
    excludes it, not the shape of the table -/
theorem extracted_witness_unlocked_races :
    Race (run ⟨[((lockTable.map Stmt.somePath)[witnessEvent]?.getD []).filter (fun o => !o.isLock)], []⟩ 2
      [.spawn, .start 1 0, .start 2 0]) := by
  rw [race_iff_raceB]; decide

end Cppcheck.Lockset

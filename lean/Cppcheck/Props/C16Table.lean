import Cppcheck.Props.C16
import Cppcheck.Gen.LockTable

/-!
C16 — statements over the table extracted from the current source (`Gen/LockTable.lean`, regenerated on every run by
`vlib/props/c16.py`).  `lockTable` = the structured events of all member functions of shared objects that can run on a
worker thread; `guardOf` = the guard of every shared location as inferred by the translator (the inference is not trusted:
`extracted_table_disciplined` re-checks every access of every event against it).
-/
namespace Cppcheck.Lockset
open Cppcheck.Gen.LockTable

/-- every extracted worker event has RAII-balanced, non-recursive locking and performs every access under the guard of the
    accessed location -/
theorem extracted_table_disciplined :
    lockTable.balanced = true ∧ lockTable.disciplined guardOf = true := by decide

/-- no interleaving of any number of workers executing any control-flow paths of the extracted events, with a main thread
    that executes arbitrary events `M` before the spawn / after the join, reaches a race -/
theorem extracted_no_race (M : List Op → Prop) (n : Nat) (s : State) (h : Reach lockTable.paths M n s) : ¬ Race s :=
  structured_no_race lockTable M guardOf extracted_table_disciplined.1 extracted_table_disciplined.2 n s h

/-- executable instance: one complete path per extracted event as worker table, the (undisciplined) main-phase events as
    main table, any number of workers, any schedule -/
theorem extracted_flat_no_race :
    ∀ (n : Nat) (σ : List Sched), ¬ Race (run ⟨lockTable.map Stmt.somePath, mainTable.map Stmt.somePath⟩ n σ) := by
  intro n σ
  refine reach_no_race (· ∈ lockTable.map Stmt.somePath) (· ∈ mainTable.map Stmt.somePath) guardOf ?_ n _
    (run_reach ⟨lockTable.map Stmt.somePath, mainTable.map Stmt.somePath⟩ n σ)
  intro b hb
  obtain ⟨s, hs, rfl⟩ := List.mem_map.mp hb
  exact structured_paths_disciplined lockTable guardOf extracted_table_disciplined.1 extracted_table_disciplined.2 _
    ⟨s, hs, true, somePath_path s⟩

/-- the locations the property record names are guarded by the mutexes it names -/
theorem extracted_anchor_guards :
    anchorGuards.all (fun p => guardOf p.1 == Guard.mutex p.2) = true := by decide

end Cppcheck.Lockset

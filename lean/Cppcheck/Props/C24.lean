import Cppcheck.Model.Unmatched
import Cppcheck.Proofs.Unmatched
/-!
C24 — unmatched suppressions are reported exactly.

The verdict of one suppression on one message (`v : Suppr → Msg → Res`, the real `Suppression::isSuppressed`) is a
parameter: every theorem holds for every `v` that reads no flag (`FlagFree`).  `MatchedBy v ops s` / `CheckedBy v ops s`
are the history facts the `matched` / `checked` flags are meant to record.
-/
namespace Cppcheck.Unmatched
open Cppcheck.Wire (Str)

/- ---- sample data for the `example`s ------------------------------------------------------------------------------ -/

def mkSuppr (id file : String) (line : Int) (inl : Bool := false) : Suppr :=
  { errorId := id.toList, fileName := file.toList, lineNumber := line, symbolName := [], macroName := [], hash := 0, thisAndNextLine := false,
    type := .unique, lineBegin := noLine, lineEnd := noLine, column := if inl then 1 else 0, isInline := inl, isPolyspace := false,
    checked := false, matched := false }

/-- a toy verdict: same id ⇒ Matched when the message tag is the line (or the suppression has no line), Checked on the line
    with another id, None elsewhere.  It reads no flag. -/
def toyVerdict (s : Suppr) (m : Msg) : Res :=
  if s.lineNumber != noLine && s.lineNumber != Int.ofNat m.tag then .none
  else if s.errorId == m.id then .matched else .checked

example : FlagFree toyVerdict := fun _ _ => rfl

/-- **The flags are exactly the history facts.**  After any sequence of `addSuppression` / `isSuppressed` /
    `markUnmatchedInlineSuppressionsAsChecked` calls, every entry of the list stems from the initial list or from an `add`,
    kept its parameters, and its `checked` (`matched`) flag is set iff it was set initially or one of the calls *after it
    entered the list* checked (matched) it. -/
theorem flags_exact (v : Suppr → Msg → Res) (hv : FlagFree v) (st0 : State) (ops : List Op) (e : Suppr)
    (he : e ∈ runOps v st0 ops) :
    ∃ s0 after, Origin st0 ops s0 after ∧ clear e = clear s0 ∧
      (e.checked = true ↔ s0.checked = true ∨ CheckedBy v after s0) ∧
      (e.matched = true ↔ s0.matched = true ∨ MatchedBy v after s0) := by
  rcases runOps_origin v ops st0 e he with ⟨s0, after, ho, rfl⟩
  have := evolve_flags v hv after s0
  exact ⟨s0, after, ho, clear_evolve v after s0, this.1, this.2⟩

example : (runOps toyVerdict [] [.add (mkSuppr "nullPointer" "a.c" 3), .sup true ⟨"uninitvar".toList, 3⟩,
    .add (mkSuppr "zerodiv" "" noLine), .sup true ⟨"zerodiv".toList, 9⟩]).map (fun s => (s.checked, s.matched))
    = [(true, false), (true, true)] := by decide

/-- **The reported set, exactly.**  An entry is named by an unmatchedSuppression message iff the run did not bail out on a
    global `unmatchedSuppression` suppression, the entry never matched, carries no hash, is not filtered (disabled
    checks), is not silenced by an `unmatchedSuppression` entry of its own group, and
    * (file-local, not inline) one of the analysed files matches its file name, and it has no line or was checked;
    * (inline, with `--inline-suppr`) it was checked;
    * (global or wildcard, not inline) it is not a wildcard or was checked. -/
theorem unmatched_exact {F : Type} (files : List F) (pm : F → Suppr → Bool) (inl : Bool) (filt : Suppr → Bool) (st : State) (s : Suppr) :
    s ∈ report files pm inl filt st ↔
      bail st = false ∧ s ∈ recopy st ∧ s.matched = false ∧ s.hash = 0 ∧ filt s = false ∧
      ((s.isInline = false ∧ s.isLocal = true ∧ s.type ≠ .macro ∧ s.errorId ≠ checkersReportId ∧
          (s.lineNumber = noLine ∨ s.checked = true) ∧
          ∃ f ∈ files, pm f s = true ∧ selfSuppressed (unmatchedLocal (pm f) (recopy st)) s = false) ∨
       (s.isInline = true ∧ inl = true ∧ s.checked = true ∧ selfSuppressed (unmatchedInline (recopy st)) s = false) ∨
       (s.isInline = false ∧ s.isLocal = false ∧ s.errorId ≠ checkersReportId ∧ (s.checked = true ∨ s.isWildcard = false) ∧
          selfSuppressed (unmatchedGlobal (recopy st)) s = false)) :=
  report_iff files pm inl filt st s

/-- **The property, composed**: reported ⇔ applied to analysed code ∧ matched no finding, in terms of the *history* only.
    For an entry with origin `s0` (initial list or an `add`) that lived through the calls `after`: it is named by an
    unmatchedSuppression message iff no bail-out, it survived into the copy list, it started unmatched and **no call matched
    it**, it has no hash, is not filtered, and, by scope:
    file-local — an analysed file matches and (no line number ∨ it started checked ∨ **some call or token line checked it**);
    inline — `--inline-suppr` and it was checked;  global / wildcard — not a wildcard, or it was checked. -/
theorem reported_iff_history {F : Type} (v : Suppr → Msg → Res) (hv : FlagFree v) (st0 : State) (ops : List Op)
    (files : List F) (pm : F → Suppr → Bool) (inl : Bool) (filt : Suppr → Bool) (s0 : Suppr) (after : List Op) :
    let st := runOps v st0 ops
    let e := evolve v s0 after
    e ∈ report files pm inl filt st ↔
      bail st = false ∧ e ∈ recopy st ∧ ¬ (s0.matched = true ∨ MatchedBy v after s0) ∧ s0.hash = 0 ∧ filt e = false ∧
      ((s0.isInline = false ∧ s0.isLocal = true ∧ s0.type ≠ .macro ∧ s0.errorId ≠ checkersReportId ∧
          (s0.lineNumber = noLine ∨ s0.checked = true ∨ CheckedBy v after s0) ∧
          ∃ f ∈ files, pm f e = true ∧ selfSuppressed (unmatchedLocal (pm f) (recopy st)) e = false) ∨
       (s0.isInline = true ∧ inl = true ∧ (s0.checked = true ∨ CheckedBy v after s0) ∧
          selfSuppressed (unmatchedInline (recopy st)) e = false) ∨
       (s0.isInline = false ∧ s0.isLocal = false ∧ s0.errorId ≠ checkersReportId ∧
          ((s0.checked = true ∨ CheckedBy v after s0) ∨ s0.isWildcard = false) ∧
          selfSuppressed (unmatchedGlobal (recopy st)) e = false)) := by
  intro st e
  have hc : clear e = clear s0 := clear_evolve v after s0
  have hfl := evolve_flags v hv after s0
  have h1 : e.hash = s0.hash := congrArg (·.hash) hc
  have h2 : e.isInline = s0.isInline := congrArg (·.isInline) hc
  have h3 : e.isLocal = s0.isLocal := congrArg (·.isLocal) hc
  have h4 : e.type = s0.type := congrArg (·.type) hc
  have h5 : e.errorId = s0.errorId := congrArg (·.errorId) hc
  have h6 : e.lineNumber = s0.lineNumber := congrArg (·.lineNumber) hc
  have h7 : e.isWildcard = s0.isWildcard := congrArg (·.isWildcard) hc
  have hm : e.matched = false ↔ ¬ (s0.matched = true ∨ MatchedBy v after s0) := by
    rw [← hfl.2]; cases e.matched <;> simp
  rw [unmatched_exact, hm, h1, h2, h3, h4, h5, h6, h7, hfl.1]

/-- the history theorem is about entries that are really in the list: every entry of the final list has such an origin -/
theorem reported_has_origin (v : Suppr → Msg → Res) (st0 : State) (ops : List Op) (e : Suppr) (he : e ∈ runOps v st0 ops) :
    ∃ s0 after, Origin st0 ops s0 after ∧ e = evolve v s0 after :=
  runOps_origin v ops st0 e he

/-- **Never for a suppression that matched**: an entry of the list whose `matched` flag is set is in no report, and (history
    form) neither is an entry that some call after its origin matched. -/
theorem never_for_matched {F : Type} (v : Suppr → Msg → Res) (hv : FlagFree v) (st : State)
    (files : List F) (pm : F → Suppr → Bool) (inl : Bool) (filt : Suppr → Bool) :
    (∀ e, e.matched = true → e ∉ report files pm inl filt st) ∧
    (∀ s0 after, MatchedBy v after s0 → evolve v s0 after ∉ report files pm inl filt st) := by
  refine ⟨fun e h => not_reported_of_matched files pm inl filt st e h, fun s0 after hm => ?_⟩
  apply not_reported_of_matched
  exact (evolve_flags v hv after s0).2.mpr (Or.inr hm)

/-- **Every token position is marked**: after `markUnmatchedInlineSuppressionsAsChecked` over a token stream, every entry whose
    scope contains the (file, line) of some token is checked — whatever the neighbouring tokens are (in particular when the
    stream changes file at an unchanged line number).  `markStream` is the loop with its current-position variables. -/
theorem mark_complete (toks : List (Str × Int)) (st : State) (l : Str × Int) (hl : l ∈ toks) (s : Suppr) (hs : s ∈ st)
    (hit : markHit l s = true) :
    ∃ s' ∈ markStream none toks st, clear s' = clear s ∧ s'.checked = true := by
  rw [markStream_eq_mark, mark_map]
  refine ⟨evolve1 (fun _ _ => Res.none) s (.mark toks), List.mem_map.mpr ⟨s, hs, rfl⟩, clear_evolve1 _ s _, ?_⟩
  exact (markFold_flags toks s).1.mpr (Or.inr ⟨l, hl, hit⟩)

example : ((markStream none [("h.h".toList, 3), ("a.c".toList, 3)] [mkSuppr "nullPointer" "a.c" 3]).map (·.checked)) = [true] := by
  decide

/-- **The worker's logger leaves the flags of the single call** (thread / process executor, cc259cb): asking the file-local
    suppressions first and then all of them = asking all of them once. -/
theorem worker_reportErr_equals_single_call (v : Suppr → Msg → Res) (hv : FlagFree v) (st : State) (m : Msg) :
    workerReportErr true v st m = stepOp v st (.sup true m) :=
  workerReportErr_true_eq v hv st m

/-- **At the suppression's own location**: the message names the suppression's id, carries its file, line (0 when it has none)
    and column, and has no location at all when the suppression has no file name. -/
theorem message_location (s : Suppr) :
    message s = (s.isPolyspace, s.errorId, s.fileName, (if s.lineNumber == noLine then 0 else s.lineNumber),
      (if s.fileName.isEmpty then 0 else s.column)) := rfl

example : (report [()] (fun _ s => s.fileName == "a.c".toList) false (fun _ => false)
    (runOps toyVerdict [] [.add (mkSuppr "nullPointer" "a.c" 3), .add (mkSuppr "zerodiv" "a.c" noLine), .add (mkSuppr "memleak" "" noLine),
      .sup true ⟨"nullPointer".toList, 3⟩])).map (·.errorId) = ["zerodiv".toList, "memleak".toList] := by decide

/-- **Merging worker states is order independent.**  The parent folds every REPORT_SUPPR message into its list
    (`recv`); for any two arrival orders the flags stored under every key are the same. -/
theorem merge_commutes (st : State) (ms ms' : List Suppr) (hp : ms.Perm ms') (ha : ∀ m ∈ ms, Acceptable m) (k) :
    flagsAt (ms.foldl (recv true) st) k = flagsAt (ms'.foldl (recv true) st) k := by
  have ha' : ∀ m ∈ ms', Acceptable m := fun m hm => ha m (hp.symm.subset hm)
  rw [foldl_recv_flagsAt k ms st ha, foldl_recv_flagsAt k ms' st ha']
  exact foldl_mergeFlags_perm (hp.filter _) _

example : Acceptable (wire (mkSuppr "nullPointer" "a.c" 3)) := by decide

/-- **… and equals the sequential run.**  For an entry `s0` of the initial list: folding the copies the workers send
    back (each worker ran its own ops on its own copy; a non-inline copy is only sent when checked) into the parent's
    flags gives exactly the flags `s0` has after the sequential run of all ops. -/
theorem merge_equals_sequential (v : Suppr → Msg → Res) (hv : FlagFree v) (s0 : Suppr) (opss : List (List Op)) :
    (((opss.map (evolve v s0)).filter (fun e => e.isInline || e.checked)).map wire).foldl mergeFlags (some (s0.checked, s0.matched))
      = some ((evolve v s0 opss.flatten).checked, (evolve v s0 opss.flatten).matched) := by
  rw [foldl_mergeFlags_closed]
  have hC : (evolve v s0 opss.flatten).checked =
      (s0.checked || (((opss.map (evolve v s0)).filter (fun e => e.isInline || e.checked)).map wire).any (·.checked)) := by
    rw [Bool.eq_iff_iff, (evolve_flags v hv _ s0).1, CheckedBy_flatten]
    simp only [Bool.or_eq_true, List.any_eq_true, List.mem_map, List.mem_filter]
    constructor
    · rintro (h | ⟨ops, h1, h2⟩)
      · exact Or.inl h
      · have hc : (evolve v s0 ops).checked = true := (evolve_flags v hv ops s0).1.mpr (Or.inr h2)
        exact Or.inr ⟨wire (evolve v s0 ops), ⟨evolve v s0 ops, ⟨⟨ops, h1, rfl⟩, by simp [hc]⟩, rfl⟩, hc⟩
    · rintro (h | ⟨w, ⟨e, ⟨⟨ops, h1, rfl⟩, _⟩, rfl⟩, h3⟩)
      · exact Or.inl h
      · have : (evolve v s0 ops).checked = true := h3
        rcases (evolve_flags v hv ops s0).1.mp this with h4 | h4
        · exact Or.inl h4
        · exact Or.inr ⟨ops, h1, h4⟩
  have hM : (evolve v s0 opss.flatten).matched =
      (s0.matched || (((opss.map (evolve v s0)).filter (fun e => e.isInline || e.checked)).map wire).any (·.matched)) := by
    rw [Bool.eq_iff_iff, (evolve_flags v hv _ s0).2, MatchedBy_flatten]
    simp only [Bool.or_eq_true, List.any_eq_true, List.mem_map, List.mem_filter]
    constructor
    · rintro (h | ⟨ops, h1, h2⟩)
      · exact Or.inl h
      · have hm : (evolve v s0 ops).matched = true := (evolve_flags v hv ops s0).2.mpr (Or.inr h2)
        have hc : (evolve v s0 ops).checked = true := (evolve_flags v hv ops s0).1.mpr (Or.inr (MatchedBy_CheckedBy h2))
        exact Or.inr ⟨wire (evolve v s0 ops), ⟨evolve v s0 ops, ⟨⟨ops, h1, rfl⟩, by simp [hc]⟩, rfl⟩, hm⟩
    · rintro (h | ⟨w, ⟨e, ⟨⟨ops, h1, rfl⟩, _⟩, rfl⟩, h3⟩)
      · exact Or.inl h
      · have : (evolve v s0 ops).matched = true := h3
        rcases (evolve_flags v hv ops s0).2.mp this with h4 | h4
        · exact Or.inl h4
        · exact Or.inr ⟨ops, h1, h4⟩
  split
  · rename_i he
    rw [hC, hM]
    have : (((opss.map (evolve v s0)).filter (fun e => e.isInline || e.checked)).map wire) = [] := by
      simpa using he
    simp [this]
  · rw [hC, hM]; rfl

example : (((([[Op.sup true ⟨"uninitvar".toList, 3⟩], [Op.sup true ⟨"nullPointer".toList, 3⟩], []] : List (List Op)).map
      (evolve toyVerdict (mkSuppr "nullPointer" "a.c" 3))).filter (fun e => e.isInline || e.checked)).map wire).map
      (fun s => (s.checked, s.matched)) = [(true, false), (true, true)] := by decide

/- ---- where the code deviates from the property: two witnesses -------------------------------------------------------- -/

/-- a.c: three lines of code, no finding; `--suppress=uninitvar:a.c:3` -/
def lineRun : FileRun :=
  { path := "a.c".toList, inlineSupprs := [], tokenLines := [("a.c".toList, 1), ("a.c".toList, 2), ("a.c".toList, 3)], findings := [] }

/-- F24a: a command-line suppression for a line of analysed code that matches nothing is reported only when the
    unrelated option `--inline-suppr` is on (legacy caller: the token lines are fed to the list only then); with the
    proposed repair (`markAlways`) it is reported either way -/
theorem line_suppression_needs_inline_counterexample :
    report [()] (fun _ s => s.fileName == "a.c".toList) false (fun _ => false)
        (runOps toyVerdict [mkSuppr "uninitvar" "a.c" 3] (fileOps false false lineRun)) = [] ∧
    (report [()] (fun _ s => s.fileName == "a.c".toList) true (fun _ => false)
        (runOps toyVerdict [mkSuppr "uninitvar" "a.c" 3] (fileOps false true lineRun))).map (·.errorId)
      = ["uninitvar".toList] ∧
    (report [()] (fun _ s => s.fileName == "a.c".toList) false (fun _ => false)
        (runOps toyVerdict [mkSuppr "uninitvar" "a.c" 3] (fileOps true false lineRun))).map (·.errorId)
      = ["uninitvar".toList] := by
  decide

/-- F24b: a suppression with a hash loses the hash on the way from a worker to the parent (`toString` does not print it):
    the parent adds a second, hash-less entry, which the report then names, although the single executor (one list)
    never reports an entry with a hash.  With the proposed repair (`skipHash`) nothing is sent for it. -/
theorem hash_lost_on_wire_counterexample :
    let s : Suppr := { mkSuppr "nullPointer" "a.c" noLine with hash := 12345 }
    let worker := runOps (fun _ _ => Res.checked) [s] [.sup true ⟨"nullPointer".toList, 1⟩]
    let parent := (workerReport false worker).foldl (recv true) [s]
    report [()] (fun _ x => x.fileName == "a.c".toList) false (fun _ => false) worker = [] ∧
    (report [()] (fun _ x => x.fileName == "a.c".toList) false (fun _ => false) parent).map (fun x => (x.errorId, x.hash))
      = [("nullPointer".toList, 0)] ∧
    workerReport true worker = [] := by
  decide

/-- what a worker sends has no hash, and keeps its key on the wire whenever the entry is a plain one: no `thisAndNextLine`
    flag, type unique without block lines and macro name, a line number only together with a file name — the parent then
    finds its own entry instead of adding a twin (inline block / macro / file suppressions do change their key: the parent
    holds them as a separate `unique` entry with the same flags) -/
theorem wire_keeps_key (st : State) (m : Suppr) (hm : m ∈ workerReport true st) :
    ∃ e ∈ st, m = wire e ∧ e.hash = 0 ∧
      (e.thisAndNextLine = false → e.type = .unique → e.lineBegin = noLine → e.lineEnd = noLine → e.macroName = [] →
        (e.fileName = [] → e.lineNumber = noLine) → key m = key e) := by
  simp only [workerReport, List.mem_map, List.mem_filter, Bool.and_eq_true, Bool.not_eq_true', Bool.and_eq_false_imp,
    decide_eq_false_iff_not, Bool.true_and] at hm
  rcases hm with ⟨e, ⟨he, hh, _⟩, rfl⟩
  have h0 : e.hash = 0 := by
    apply Classical.byContradiction
    intro hne
    exact hh (by omega)
  refine ⟨e, he, rfl, h0, ?_⟩
  intro ht hty hb hE hmac hl
  simp only [key, wire, h0, ht, hty, hb, hE, hmac]
  by_cases hf : e.fileName = []
  · simp [hf, hl hf]
  · have : e.fileName.isEmpty = false := by cases hfe : e.fileName <;> simp_all
    simp [this]

/-- F24c: `--suppress=zerodiv:g.c:1 --suppress=zerodiv`, one zerodiv finding at g.c:1.  With one job both suppressions
    see the finding and nothing is reported; a worker of the thread / process executor stops at the local one, the
    global one stays unmatched and is reported.  With the proposed repair (`showGlobal`) the worker marks both. -/
theorem local_hides_from_global_counterexample :
    let st0 := [mkSuppr "zerodiv" "g.c" 1, mkSuppr "zerodiv" "" noLine]
    let m : Msg := ⟨"zerodiv".toList, 1⟩
    let rep := fun st => (report [()] (fun _ s => s.fileName == "g.c".toList) false (fun _ => false) st).map (·.fileName)
    rep (runOps toyVerdict st0 [.sup true m]) = [] ∧
    rep (workerReportErr false toyVerdict st0 m) = [[]] ∧
    rep (workerReportErr true toyVerdict st0 m) = [] := by
  decide

end Cppcheck.Unmatched

import Cppcheck.Model.ExitCode
import Cppcheck.Proofs.ExitCode
/-!
C25 — exit status reflects the reported findings.

`Run` describes everything a run raises (findings per file, whole-program findings, the unmatchedSuppression
messages, lost worker pipes) together with the answers of the real suppression lists for each finding;
`exitStatus` is the status the parent process sees, `printed` the findings StdLogger prints (the checkers
summary is printed by StdLogger itself and is not part of `printed`, it never influences `exitStatus`).
-/
namespace Cppcheck.ExitCode

/-- a small run used to show that hypotheses are satisfiable: two files, three findings (one message-suppressed,
    one exit-code-suppressed, one plain), an unmatchedSuppression that is not exit-code-suppressed -/
def sampleFinding (key : Nat) (nomsg nofail : Bool) : Finding :=
  { key := key, internal := false, libSkip := false, emptyText := false, critical := false,
    nomsgLocal := nomsg, nomsgGlobal := nomsg, explLocal := nomsg, explGlobal := nomsg, nofail := nofail }

def sampleOpts (code : Int) (ex : Executor) : Opts :=
  { errorExitCode := code, safety := false, checkConfig := false, emitDuplicates := false, executor := ex, project := false }

def sampleRun (v : Variant) (ex : Executor) : Run :=
  { v := v, o := sampleOpts 7 ex,
    files := [[sampleFinding 1 true false, sampleFinding 2 false true], [sampleFinding 3 false false]],
    wp1 := [], wp1Errors := false, wp2 := [sampleFinding 4 false true],
    unmatchedGate := true, unmatched := [sampleFinding 5 false false], lostPipes := 0 }

/-- **Exit status ⇔ a reported finding that is not exit-code-suppressed** (outside `--safety`).
    Hypotheses: the exit code is visible in an 8-bit status, no worker pipe was lost, no 2^32 wrap-around, equal
    rendered text ⇒ equal suppression answers, and — for the legacy variant only — the run avoids the two input
    classes on which the statements repaired by a59832c / 4c58edf deviated (vacuous for `patched`, see `exit_iff_patched`). -/
theorem exit_iff_partial (r : Run)
    (hsafe : r.o.safety = false)
    (hcode : r.o.errorExitCode % 256 ≠ 0)
    (hlost : r.lostPipes = 0)
    (hwrap : noWrap r = true)
    (hkey : keyCoherent r = true)
    (hplain : unmatchedPlain r = true)
    (hF9 : avoidsUnmatchedNofail r = true)
    (hcc : avoidsCheckConfig r = true) :
    exitStatus r = waitStatus r.o.errorExitCode ↔ ∃ f ∈ printed r, f.nofail = false :=
  ⟨sound r hsafe hcode hlost hkey hplain hF9, fun ⟨f, hf, hn⟩ => complete r hsafe hwrap hcc f hf hn⟩

example : (sampleRun patched .thread).o.safety = false ∧ (sampleRun patched .thread).o.errorExitCode % 256 ≠ 0 ∧
    (sampleRun patched .thread).lostPipes = 0 ∧ noWrap (sampleRun patched .thread) = true ∧
    keyCoherent (sampleRun patched .thread) = true ∧ unmatchedPlain (sampleRun patched .thread) = true ∧
    avoidsUnmatchedNofail (sampleRun patched .thread) = true ∧ avoidsCheckConfig (sampleRun patched .thread) = true ∧
    exitStatus (sampleRun patched .thread) = 7 ∧ (printed (sampleRun patched .thread)).map (·.key) = [2, 3, 4, 5] := by
  decide

/-- **the theorem about the tree as it is** (both repairs in): no input class is excluded -/
theorem exit_iff_patched (r : Run) (hv : r.v = patched)
    (hsafe : r.o.safety = false) (hcode : r.o.errorExitCode % 256 ≠ 0) (hlost : r.lostPipes = 0)
    (hwrap : noWrap r = true) (hkey : keyCoherent r = true) (hplain : unmatchedPlain r = true) :
    exitStatus r = waitStatus r.o.errorExitCode ↔ ∃ f ∈ printed r, f.nofail = false :=
  exit_iff_partial r hsafe hcode hlost hwrap hkey hplain (by simp [avoidsUnmatchedNofail, hv, patched])
    (by simp [avoidsCheckConfig, hv, patched])

/-- **Every schedule.**  With the thread / process executor the messages of the workers reach the executor in some interleaving
    `es` of the per-file streams (any list with the same elements as `fromFiles r`, in particular any permutation).  The exit
    status does not depend on `es` at all, and it equals the error exit code iff the run *as printed under that schedule* shows a
    finding that is not exitcode-suppressed.  (`printed r = printedOf r (fromFiles r)` is the file-after-file schedule.) -/
theorem exit_iff_any_schedule (r : Run) (hv : r.v = patched)
    (hsafe : r.o.safety = false) (hcode : r.o.errorExitCode % 256 ≠ 0) (hlost : r.lostPipes = 0)
    (hwrap : noWrap r = true) (hkey : keyCoherent r = true) (hplain : unmatchedPlain r = true)
    (es : List Emit) (hes : es.Perm (fromFiles r)) :
    exitStatus r = waitStatus r.o.errorExitCode ↔ ∃ f ∈ printedOf r es, f.nofail = false := by
  rw [exit_iff_patched r hv hsafe hcode hlost hwrap hkey hplain, printed_eq,
    printedOf_iff_cand r hsafe hkey hplain es (fun e => hes.mem_iff),
    printedOf_iff_cand r hsafe hkey hplain (fromFiles r) (fun _ => Iff.rfl)]

example : printedOf (sampleRun patched .thread) (fromFiles (sampleRun patched .thread)).reverse = printed (sampleRun patched .thread) ∨
    (printedOf (sampleRun patched .thread) (fromFiles (sampleRun patched .thread)).reverse).map (·.key) = [3, 2, 4, 5] := by decide

/- ---- runs whose only findings come from the whole-program stages ---------------------------------------------------- -/

/-- `--enable=unusedFunction --error-exitcode=7 clean.c static.c`: the only finding is a staticFunction raised by the in-memory
    stage (`CheckUnusedFunctions::check` returns false for it, so `errors` is false and the stage adds nothing to the executor's
    result), the second stage raises it again and the duplicate filter drops it — the status is still 7, because the logger's code
    set in the first stage is not reset before `returnValue |= analyseWholeProgram(buildDir, …)` reads it -/
def wpOnlyRun (b : Bool) (nofail : Bool) : Run :=
  { v := patched, o := sampleOpts 7 .single, files := [[], []], wp1 := [sampleFinding 1 false nofail], wp1Errors := b,
    wp2 := [sampleFinding 1 false nofail], unmatchedGate := false, unmatched := [], lostPipes := 0 }

example : exitStatus (wpOnlyRun false false) = 7 ∧ (printed (wpOnlyRun false false)).map (·.key) = [1] ∧
    execResult (wpOnlyRun false false) = 0 ∧ rv1 (wpOnlyRun false false) = 1 ∧
    exitStatus (wpOnlyRun false true) = 0 ∧ (printed (wpOnlyRun false true)).map (·.key) = [1] := by decide

/-- the `errors` flag of the in-memory whole-program stage (`return errors && mLogger->exitcode() > 0`) never decides the exit
    status: whenever it could add to the executor's result, the sticky logger code is set and reaches `returnValue` through the second
    stage (`returnValue |= analyseWholeProgram(buildDir, …)`, which returns the same logger's code and does not reset it) -/
theorem stage_one_errors_flag_irrelevant (r : Run) (b : Bool) (hs : r.o.safety = false) :
    exitStatus { r with wp1Errors := b } = exitStatus r := by
  apply status_eq_of_rv1 (r' := { r with wp1Errors := b }) (r := r) rfl rfl rfl rfl
  by_cases hm : (main1 r).exit = true
  · right
    have h2 : (main2 r).exit = true := main12_mono r hs hm
    exact ⟨or_ne_zero_right (by show (if (main2 r).exit = true then 1 else 0) ≠ 0; simp [h2]),
           or_ne_zero_right (by simp [h2])⟩
  · left
    have hm' : (main1 r).exit = false := by simpa using hm
    show execResult { r with wp1Errors := b } ||| _ = execResult r ||| _
    have : execResult { r with wp1Errors := b } = execResult r := by
      unfold execResult
      show (sumRets r + (if (r.o.executor == Executor.single && b && (main1 r).exit) = true then 1 else 0) + _) % two32 = _
      simp [hm']
    rw [this]
    rfl


/-- outside `--safety` the status is the error exit code or 0, and it is 0 when nothing that counts was printed -/
theorem exit_else_zero (r : Run) (hsafe : r.o.safety = false) :
    (exitStatus r = waitStatus r.o.errorExitCode ∨ exitStatus r = 0) ∧
    (r.lostPipes = 0 → keyCoherent r = true → unmatchedPlain r = true → avoidsUnmatchedNofail r = true →
      (¬ ∃ f ∈ printed r, f.nofail = false) → exitStatus r = 0) := by
  have h1 : exitStatus r = waitStatus r.o.errorExitCode ∨ exitStatus r = 0 := by
    by_cases hz : rv2 r = 0
    · exact Or.inr (status_of_rv2_zero hsafe hz)
    · exact Or.inl (status_of_rv2 hsafe hz)
  refine ⟨h1, fun hl hk hu h9 hno => ?_⟩
  by_cases hc : r.o.errorExitCode % 256 = 0
  · rcases h1 with h1 | h1
    · rw [h1]; unfold waitStatus; omega
    · exact h1
  · rcases h1 with h1 | h1
    · exact absurd (sound r hsafe hc hl hk hu h9 h1) hno
    · exact h1

/-- `--error-exitcode=0` (the default), or any multiple of 256: the status is 0 whatever was found -/
theorem exit_zero_when_errorExitCode_zero (r : Run) (hsafe : r.o.safety = false) (hcode : r.o.errorExitCode % 256 = 0) :
    exitStatus r = 0 := by
  rcases (exit_else_zero r hsafe).1 with h | h
  · rw [h]; unfold waitStatus; omega
  · exact h

example : exitStatus { sampleRun patched .single with o := sampleOpts 0 .single } = 0 ∧
    exitStatus { sampleRun patched .single with o := sampleOpts 256 .single } = 0 := by decide

/-- an invalid command line exits with 1, `--help`/`--version` with 0, before anything is analysed.  True by the definition of
    `processStatus`: the content of this clause is in the tie (statement extraction of `CppCheckExecutor::check` and the invalid
    command lines of the CLI grid), the theorem only records which definition the tie validates. -/
theorem invalid_cmdline_is_1 (r : Run) : processStatus .fail r = 1 ∧ processStatus .exit r = 0 ∧
    processStatus .ok r = exitStatus r := ⟨rfl, rfl, rfl⟩

/-- `--safety`: a critical error that reaches StdLogger (even suppressed, as an internal message) makes the status 1 -/
theorem safety_critical_is_1 (r : Run) (hsafe : r.o.safety = true) (hcrit : hasCritical r = true) : exitStatus r = 1 := by
  unfold exitStatus mainReturn
  simp [hsafe, hcrit, waitStatus]

example : exitStatus { sampleRun patched .single with
    o := { sampleOpts 7 .single with safety := true },
    files := [[{ sampleFinding 1 true true with critical := true }]], wp2 := [], unmatched := [] } = 1 := by decide

/-- process executor: a worker whose pipe closed before CHILD_END forces the error exit code -/
theorem lost_pipe_fails (r : Run) (hsafe : r.o.safety = false) (hproc : r.o.executor = .process)
    (hlost : 0 < r.lostPipes) (hwrap : noWrap r = true) : exitStatus r = waitStatus r.o.errorExitCode := by
  apply status_of_rv2 hsafe
  apply rv2_of_rv1
  apply or_ne_zero_left
  have h3 := sumRets_le r
  simp only [noWrap, decide_eq_true_eq] at hwrap
  unfold execResult
  simp only [hproc, beq_self_eq_true, if_true]
  have h5 : (if ((Executor.process == Executor.single) && r.wp1Errors && (main1 r).exit) = true then 1 else 0) ≤ 1 := by
    split <;> omega
  rw [Nat.mod_eq_of_lt (by omega)]
  omega

/- ---- the full-strength statement was false of the legacy statements (kept as regression witnesses), and stays false
        without `keyCoherent` ------------------------------------------------------------------------------------ -/

/-- F9 witness: `--enable=information --suppress=uninitvar:e.c --exitcode-suppressions=<unmatchedSuppression>
    --error-exitcode=7 e.c` on a file without findings: one unmatchedSuppression is printed, it is matched by the
    exit-code suppression, the status is 7 -/
def witnessF9 (v : Variant) : Run :=
  { v := v, o := sampleOpts 7 .single, files := [[]], wp1 := [], wp1Errors := false, wp2 := [],
    unmatchedGate := true, unmatched := [sampleFinding 1 false true], lostPipes := 0 }

theorem unmatched_ignores_nofail_counterexample :
    ¬ (∀ r : Run, r.v = legacy → r.o.safety = false → r.o.errorExitCode % 256 ≠ 0 → r.lostPipes = 0 →
        noWrap r = true → keyCoherent r = true → unmatchedPlain r = true → avoidsCheckConfig r = true →
        (exitStatus r = waitStatus r.o.errorExitCode ↔ ∃ f ∈ printed r, f.nofail = false)) := by
  intro h
  have := h (witnessF9 legacy) rfl rfl (by decide) rfl (by decide) (by decide) (by decide) (by decide)
  revert this
  decide

/-- the patch removes the deviation on the same input -/
example : exitStatus (witnessF9 legacy) = 7 ∧ exitStatus (witnessF9 patched) = 0 ∧
    (printed (witnessF9 legacy)).map (·.nofail) = [true] := by decide

/-- `--check-config --enable=missingInclude --error-exitcode=7 m.c ok.c` (m.c has a missing include): the finding is
    printed and is not exit-code-suppressed, the status is 0; with the files in the other order the status is 7; with
    `-j2` it is 0 in both orders -/
def witnessCC (v : Variant) (ex : Executor) (mFirst : Bool) : Run :=
  { v := v, o := { sampleOpts 7 ex with checkConfig := true },
    files := if mFirst then [[sampleFinding 1 false false], []] else [[], [sampleFinding 1 false false]],
    wp1 := [], wp1Errors := false, wp2 := [], unmatchedGate := false, unmatched := [], lostPipes := 0 }

theorem check_config_counterexample :
    ¬ (∀ r : Run, r.v = legacy → r.o.safety = false → r.o.errorExitCode % 256 ≠ 0 → r.lostPipes = 0 →
        noWrap r = true → keyCoherent r = true → unmatchedPlain r = true → avoidsUnmatchedNofail r = true →
        (exitStatus r = waitStatus r.o.errorExitCode ↔ ∃ f ∈ printed r, f.nofail = false)) := by
  intro h
  have := h (witnessCC legacy .single true) rfl rfl (by decide) rfl (by decide) (by decide) (by decide) (by decide)
  revert this
  decide

/-- the status of a `--check-config` run depends on the order of the files and on the executor (legacy statement only) -/
theorem check_config_order_dependent :
    exitStatus (witnessCC legacy .single true) = 0 ∧ exitStatus (witnessCC legacy .single false) = 7 ∧
    exitStatus (witnessCC legacy .thread false) = 0 ∧ exitStatus (witnessCC legacy .process false) = 0 ∧
    (∀ ex b, exitStatus (witnessCC patched ex b) = 7) := by
  refine ⟨by decide, by decide, by decide, by decide, ?_⟩
  intro ex b
  cases ex <;> cases b <;> decide

/-- `keyCoherent` cannot be dropped: `--template={id} --exitcode-suppress=nullPointer:a.c --error-exitcode=7 a.c b.c`
    prints one line (the finding of a.c, exit-code-suppressed; the finding of b.c has the same text and is dropped as a
    duplicate) and exits with 7 -/
def witnessDup : Run :=
  { v := patched, o := sampleOpts 7 .single,
    files := [[sampleFinding 1 false true], [sampleFinding 1 false false]],
    wp1 := [], wp1Errors := false, wp2 := [], unmatchedGate := false, unmatched := [], lostPipes := 0 }

theorem duplicate_text_counterexample :
    ¬ (∀ r : Run, r.v = patched → r.o.safety = false → r.o.errorExitCode % 256 ≠ 0 → r.lostPipes = 0 →
        noWrap r = true → unmatchedPlain r = true →
        (exitStatus r = waitStatus r.o.errorExitCode ↔ ∃ f ∈ printed r, f.nofail = false)) := by
  intro h
  have := h witnessDup rfl rfl (by decide) rfl (by decide) (by decide)
  revert this
  decide

end Cppcheck.ExitCode

import Cppcheck.Model.AstUnary
import Cppcheck.Gen.AstLadder
/- C07 — property theorems (under construction) -/
namespace Cppcheck.AstLadder
end Cppcheck.AstLadder

import Cppcheck.Proofs.AstUnary
import Cppcheck.Gen.AstLadder
/-
C07 — expression trees follow the C/C++ operator grammar: property theorems.

Objects (Model/AstLadder.lean, Model/AstUnary.lean):
  `Ladder`            a precedence table as cppcheck's compile* ladder encodes it; `Gen.AstLadder.astLadder` is the table
                      extracted from the current lib/tokenlist.cpp
  `PExpr`             parse trees of the expression grammar, parentheses explicit; `print`, `toAst` (the tree cppcheck
                      should store), `strip` (forget parentheses), `minParen` (fewest parentheses)
  `Gram L false ls e` e is derivable from the non-terminal of level list `ls` (ISO grammar shape: left-associative
                      levels, the right-associative assignment / conditional level, middle operand of ?: a full expression,
                      prefix operators - ! ~ * & on cast-expressions, parentheses, variables, literals)
  `astOf L cpp ts`    model of prepareTernaryOpForAST (twice) + createAst (compileExpression) on a token list

All theorems are for every tree of any size and nesting; `need e ≤ L.maxDepth` is the AST_MAX_DEPTH guard (deeper
inputs are rejected by cppcheck, so the property says nothing about them).  `declFine L e` = `L.declVarGuard || e.declOK`:
true for every tree once skipDecl has the early return for variables (`declFine_extracted`), the `declOK` restriction
otherwise (`createAst_follows_grammar_prefix_partial` / `_prefix_counterexample`: the code before fix 1fbcd63).
-/
namespace Cppcheck.AstLadder
open PExpr

/-- the table extracted from the working tree is the ISO C++20 [expr] table (which contains C17 6.5.5–6.5.17):
same levels in the same order, same operators per level, same associativity -/
theorem extracted_table_is_C : tableEq Gen.AstLadder.astLadder.toTable isoTable = true := by decide

/-- the extracted functions really form a ladder (each level's callee is the next level) and the table is well-formed -/
theorem extracted_ladder_wf : Gen.AstLadder.astLadder.chain = true ∧ Gen.AstLadder.astLadder.WF = true := by decide

/-- skipDecl of the working tree returns at once when the name behind `(` is a variable (commit 1fbcd63, extracted by
the translator from the body of skipDecl on every run) -/
theorem extracted_skipDecl_guard : Gen.AstLadder.astLadder.declVarGuard = true := by decide

/-- MAIN THEOREM.  For every well-formed table whose skipDecl has the early return for variables, every parse tree `e` of
the expression grammar over it (any parenthesisation the grammar admits, any size): `print e` followed by `)`, `]`, `;`
or nothing is turned by prepareTernaryOpForAST + createAst into exactly one tree, `toAst e`, each operator with the
operands the grammar gives it.  The only hypothesis besides "e is a tree of the grammar" is the depth guard
(AST_MAX_DEPTH: deeper input is rejected by cppcheck). -/
theorem createAst_follows_grammar {L : Ladder} (hL : L.WF = true) (hcode : L.declVarGuard = true) (cpp : Bool) (e : PExpr)
    (hg : Gram L false L.levels e = true) (hn : e.need ≤ L.maxDepth)
    (rest : List Tok) (hr : endOK rest = true) (ha : rest.all Tok.inAlphabet = true) (hq : ∀ t ∈ rest, t ≠ Tok.op ['?']) :
    astOf L cpp (e.print ++ rest) = .ok ⟨(prepE e).print.reverse, rest, [⟨(prepE e).rootOff, e.toAst⟩], 0⟩ :=
  astOf_print hL cpp e hg (by simp [declFine, hcode]) hn rest hr ha hq

/-- the main theorem for the table of the working tree (all side conditions on the table decided) -/
theorem createAst_follows_grammar_extracted (cpp : Bool) (e : PExpr)
    (hg : Gram Gen.AstLadder.astLadder false Gen.AstLadder.astLadder.levels e = true)
    (hn : e.need ≤ Gen.AstLadder.astLadder.maxDepth) :
    astOf Gen.AstLadder.astLadder cpp (e.print ++ [Tok.op [';']]) =
      .ok ⟨(prepE e).print.reverse, [Tok.op [';']], [⟨(prepE e).rootOff, e.toAst⟩], 0⟩ :=
  createAst_follows_grammar extracted_ladder_wf.2 extracted_skipDecl_guard cpp e hg hn _ rfl rfl (by simp)

/-- the code BEFORE fix 1fbcd63 (`Ladder.preFix`: skipDecl without the early return): the statement only holds with the
extra hypothesis `declOK` (no `(` is followed by something skipDecl takes for a declaration: `( a * b =`, `( a * b (`) -/
theorem createAst_follows_grammar_prefix_partial {L : Ladder} (hL : L.WF = true) (cpp : Bool) (e : PExpr)
    (hg : Gram L false L.levels e = true) (hd : (prepE e).declOK = true) (hn : e.need ≤ L.maxDepth)
    (rest : List Tok) (hr : endOK rest = true) (ha : rest.all Tok.inAlphabet = true) (hq : ∀ t ∈ rest, t ≠ Tok.op ['?']) :
    astOf L cpp (e.print ++ rest) = .ok ⟨(prepE e).print.reverse, rest, [⟨(prepE e).rootOff, e.toAst⟩], 0⟩ :=
  astOf_print hL cpp e hg (by simp [declFine, hd]) hn rest hr ha hq

/-- … and `declOK` could not be dropped there: with the pre-fix skipDecl, `( a * b = c ) ;` (a tree of the grammar, in
C++ `(a * b) = c`) lost `a *` and came out as `=`(b, c) (finding F7a, fixed by 1fbcd63; the real-code witnesses stay in
corpus/C07 and now pass) -/
theorem createAst_follows_grammar_prefix_counterexample :
    ¬ ∀ (e : PExpr), Gram Gen.AstLadder.astLadder.preFix false Gen.AstLadder.astLadder.preFix.levels e = true →
        e.need ≤ Gen.AstLadder.astLadder.preFix.maxDepth →
        astOf Gen.AstLadder.astLadder.preFix true (e.print ++ [Tok.op [';']]) =
          .ok ⟨(prepE e).print.reverse, [Tok.op [';']], [⟨(prepE e).rootOff, e.toAst⟩], 0⟩ := by
  intro h
  have h1 := h declWitness (by decide) (by decide)
  rw [declWitness_parse (L := Gen.AstLadder.astLadder.preFix) (by decide) true (by decide) (by decide) rfl] at h1
  have h2 := congrArg (fun r => match r with | .ok st => st.stk.map Entry.ast | .error _ => []) h1
  revert h2
  decide

/-- the fixed code handles that witness: the hypotheses of the main theorem hold for it although `declOK` fails -/
example : Gram Gen.AstLadder.astLadder false Gen.AstLadder.astLadder.levels declWitness = true ∧
    (prepE declWitness).declOK = false ∧ declWitness.need ≤ Gen.AstLadder.astLadder.maxDepth := by decide

/-- for the table of the working tree the skipDecl side condition `declFine` of the corollaries below is always met -/
theorem declFine_extracted (e : PExpr) : declFine Gen.AstLadder.astLadder e = true := by
  simp [declFine, extracted_skipDecl_guard]

/-- round trip: printing a parenthesis-free tree with the fewest parentheses and parsing it back gives the tree -/
theorem ladder_roundtrip {L : Ladder} (hL : L.WF = true) (cpp : Bool) (e : PExpr) (he : over L e = true)
    (hd : declFine L (prepE (minParen L L.levels e)) = true) (hn : e.need ≤ L.maxDepth) :
    ∃ st, astOf L cpp ((minParen L L.levels e).print ++ [Tok.op [';']]) = .ok st ∧
      st.inp = [Tok.op [';']] ∧ st.stk.map Entry.ast = [e.toAst] := by
  have hg := gram_minParen hL e he L.levels (Suffix.refl L)
  have hn' : (minParen L L.levels e).need ≤ L.maxDepth := by
    rw [← need_strip, strip_minParen L e he]; exact hn
  refine ⟨_, astOf_print hL cpp _ hg hd hn' _ rfl rfl (by simp), rfl, ?_⟩
  simp only [List.map_cons, List.map_nil]
  rw [← toAst_strip, strip_minParen L e he]

/-- redundant parentheses never change the tree: two grammatical strings that differ only in parentheses give the
same tree, namely that of the parenthesis-free tree -/
theorem ladder_respects_parens {L : Ladder} (hL : L.WF = true) (cpp : Bool) (e : PExpr)
    (hg : Gram L false L.levels e = true) (hd : declFine L (prepE e) = true) (hn : e.need ≤ L.maxDepth) :
    ∃ st, astOf L cpp (e.print ++ [Tok.op [';']]) = .ok st ∧ st.stk.map Entry.ast = [(strip e).toAst] := by
  refine ⟨_, astOf_print hL cpp e hg hd hn _ rfl rfl (by simp), ?_⟩
  simp [toAst_strip]

/-- "the expression in the middle of the conditional operator is parsed as if parenthesised": with or without
parentheses around the middle operand (whatever it contains: commas, assignments, other conditionals) the tree is
`?`(c, `:`(t, e)) -/
theorem ternary_middle_as_parenthesised {L : Ladder} (hL : L.WF = true) (cpp : Bool) (c t e : PExpr)
    (hg : Gram L false L.levels (tern c t e) = true)
    (hd1 : declFine L (prepE (tern c t e)) = true) (hd2 : declFine L (prepE (tern c (paren t) e)) = true)
    (hn : (tern c t e).need ≤ L.maxDepth) :
    ∃ st1 st2, astOf L cpp ((tern c t e).print ++ [Tok.op [';']]) = .ok st1 ∧
      astOf L cpp ((tern c (paren t) e).print ++ [Tok.op [';']]) = .ok st2 ∧
      st1.stk.map Entry.ast = [.node ['?'] c.toAst (.node [':'] t.toAst e.toAst)] ∧
      st2.stk.map Entry.ast = st1.stk.map Entry.ast := by
  have hg2 : Gram L false L.levels (tern c (paren t) e) = true := by
    simp only [Gram] at hg ⊢; exact hg
  refine ⟨_, _, astOf_print hL cpp _ hg hd1 hn _ rfl rfl (by simp),
    astOf_print hL cpp _ hg2 hd2 (by simpa [need] using hn) _ rfl rfl (by simp), ?_, ?_⟩ <;> simp [toAst]

/-- assignment is right-associative in the table of the working tree: `a o1 b o2 c` is `a o1 (b o2 c)` for all
assignment operators -/
theorem assign_right_assoc (cpp : Bool) (a b c o1 o2 : Wire.Str) (h1 : o1 ∈ assignOps) (h2 : o2 ∈ assignOps) :
    ∃ st, astOf Gen.AstLadder.astLadder cpp [Tok.var a, Tok.op o1, Tok.var b, Tok.op o2, Tok.var c, Tok.op [';']] = .ok st ∧
      st.stk.map Entry.ast = [.node o1 (.leaf a) (.node o2 (.leaf b) (.leaf c))] := by
  have key : ∀ o ∈ assignOps, ∀ o' ∈ assignOps, ∀ x y z : PExpr, (match x, y, z with | .var _, .var _, .var _ => true | _, _, _ => false) = true →
      Gram Gen.AstLadder.astLadder false Gen.AstLadder.astLadder.levels (bin o x (bin o' y z)) = true := by
    intro o ho o' ho' x y z hxyz
    match x, y, z, hxyz with
    | .var _, .var _, .var _, _ =>
      simp only [assignOps, List.mem_cons, List.not_mem_nil, or_false] at ho ho'
      rcases ho with rfl | rfl | rfl | rfl | rfl | rfl | rfl | rfl | rfl | rfl | rfl <;>
      rcases ho' with rfl | rfl | rfl | rfl | rfl | rfl | rfl | rfl | rfl | rfl | rfl <;> rfl
  have hg := key o1 h1 o2 h2 (var a) (var b) (var c) rfl
  refine ⟨_, astOf_print extracted_ladder_wf.2 cpp (bin o1 (var a) (bin o2 (var b) (var c))) hg rfl (by simp [need, Gen.AstLadder.astLadder]) _ rfl rfl (by simp), ?_⟩
  simp [toAst, Ast.leaf]

/-- the hypotheses of the theorems are satisfiable by non-trivial trees: `a = b + c * (d, e) ? f : g` -/
example : let e := bin ['='] (var ['a']) (tern (bin ['+'] (var ['b']) (bin ['*'] (var ['c']) (paren (bin [','] (var ['d']) (var ['e'])))))
                    (var ['f']) (var ['g']))
    Gram Gen.AstLadder.astLadder false Gen.AstLadder.astLadder.levels e = true ∧ (prepE e).declOK = true ∧
      e.need ≤ Gen.AstLadder.astLadder.maxDepth := by decide

/-- … and with prefix operators: `- a * ! ( b , c ) ? * p & ~ d : - - e` -/
example : let e := tern (bin ['*'] (pre ['-'] (var ['a'])) (pre ['!'] (paren (bin [','] (var ['b']) (var ['c'])))))
                    (bin ['&'] (pre ['*'] (var ['p'])) (pre ['~'] (var ['d']))) (pre ['-'] (pre ['-'] (var ['e'])))
    Gram Gen.AstLadder.astLadder false Gen.AstLadder.astLadder.levels e = true ∧ (prepE e).declOK = true ∧
      e.need ≤ Gen.AstLadder.astLadder.maxDepth := by decide

example : over Gen.AstLadder.astLadder (bin ['*'] (bin ['+'] (var ['a']) (var ['b'])) (tern (var ['c']) (bin [','] (var ['d']) (var ['e'])) (var ['f']))) = true := by
  decide

end Cppcheck.AstLadder

import Cppcheck.Props.C33
import Cppcheck.Proofs.MatchInterp
/-
C33 (interpreter side) — property theorems closing the chain

    interpreted matcher (`Token::Match`, byte level)  =  documented pattern language  =  compiled matcher

for EVERY well-formed pattern string, EVERY token list and EVERY varid — the InternalError outcome of
`%varid%` under varid 0 included (no bound on pattern size or list length; the proofs are by induction
on the interpreter's fuel / the word list, see Proofs/MatchInterp.lean) — and the same for the find
loops (`Token::findmatch` / `findsimplematch`, with and without `end`).

Hypotheses (all decidable, each one necessary — see the counterexample theorems in this file):

  * `patternWF p` the pattern is inside the documented grammar (checked for every pattern literal of
                  lib/*.cpp on every run, obligation T2).
  * `noNul p`     the pattern contains no NUL byte.  A `const char*` pattern ends at its first NUL
                  (lib/token.cpp: `while (*p && *p != ' ')`, `haystack[1] != '\0'`); the model's byte
                  list would carry on behind it, so a list with a NUL does not denote a C string.
  * `TokStrOK t`  the token text contains neither a blank nor a NUL (the empty text is allowed).
                  `multiCompareImpl` compares `tok->str().c_str()` bytewise against the *whole rest of
                  the pattern* and tests `*needlePointer == *haystack` BEFORE `*haystack == ' '`
                  (token.cpp:569 vs :574), and `firstWordEquals` likewise (token.cpp:643): a blank
                  inside the token text is matched against the pattern's word separator, so the
                  interpreter lets ONE token such as the string literal `" "` consume the pattern text
                  `" "` which the language (and the match compiler) read as TWO words.  Such tokens
                  exist in every real token list; the deviation is reproduced on the real code (known
                  finding `blank-in-token-text`, witness in corpus/C33) and excluded here.
                  A NUL inside `std::string` text ends `c_str()`; the model's byte list does not end
                  there, so such a list does not denote what the C++ reads.
  * `TokWF t`     (compiled side only) see Props/C33.lean.
-/
namespace Cppcheck.Match
open Cppcheck.Wire

/-- **interpreted = documented language**, every varid (the error outcome included). -/
theorem interpreted_eq_language (p : Str) (ts : List Tok) (v : Nat)
    (hp : patternWF p = true) (hn : noNul p = true) (hts : ∀ t ∈ ts, TokStrOK t = true) :
    interpB p ts v = lang (parse p) ts v :=
  interpB_eq_langWords p ts v hp hn hts

/-- the statement without the hypotheses on pattern bytes and token texts -/
def InterpEqLanguageUnrestricted : Prop :=
  ∀ (p : Str) (ts : List Tok) (v : Nat), patternWF p = true → interpB p ts v = lang (parse p) ts v

/-- the statement one would like for the two matchers: well-formed pattern, nothing else -/
def CompiledEqInterpretedUnrestricted : Prop :=
  ∀ (p : Str) (hasVarid : Bool) (ts : List Tok) (v : Nat), patternWF p = true →
    run (compile p hasVarid) ts v = interpB p ts v

/-- **C33: compiled = interpreted**, partial: tokens inside `TokWF` and `TokStrOK`, and either a
    non-zero varid or a call without varid argument on a pattern that does not use `%varid%`
    (these are the two call shapes the compiler accepts, T2 checks every call site). -/
theorem compiled_eq_interpreted_partial (p : Str) (hasVarid : Bool) (ts : List Tok) (v : Nat)
    (hp : patternWF p = true) (hn : noNul p = true)
    (hts : ∀ t ∈ ts, TokWF t = true) (hts' : ∀ t ∈ ts, TokStrOK t = true)
    (hv : v ≠ 0 ∨ (hasVarid = false ∧ usesVarid (parse p) = false)) :
    run (compile p hasVarid) ts v = interpB p ts v := by
  rw [compiled_eq_language_partial p hasVarid ts v hts hv, interpreted_eq_language p ts v hp hn hts']

/-- **every varid: the compiled matcher refines the interpreted one.**  It returns the interpreter's
    result or — only under varid 0 — throws InternalError (earlier than the interpreter would). -/
theorem compiled_refines_interpreted (p : Str) (ts : List Tok) (v : Nat)
    (hp : patternWF p = true) (hn : noNul p = true)
    (hts : ∀ t ∈ ts, TokWF t = true) (hts' : ∀ t ∈ ts, TokStrOK t = true) :
    run (compile p true) ts v = interpB p ts v ∨ (v = 0 ∧ run (compile p true) ts v = .err) := by
  rw [interpreted_eq_language p ts v hp hn hts']
  exact compiled_refines_language p ts v hts

/-! ### simpleMatch: interpreted = exact word equality = documented language = compiled
    (no hypothesis on the tokens or on NUL bytes is needed on the interpreter side) -/

/-- `Token::simpleMatch` = the token texts equal the pattern's words, one by one -/
theorem simple_interp_eq_words (p : Str) (ts : List Tok) (hp : simplePatternWF p = true) :
    simpleMatchB p ts = exactWords (words p) ts :=
  simpleMatchB_eq_words p ts hp

theorem simple_lits (p : Str) (hp : simplePatternWF p = true) :
    ∀ w ∈ words p, ∃ s, Word.ofStr w = .one (.lit s) := by
  rw [words_of_simple p hp]
  exact fun w hw => ((simplePatternWF_iff p hp).2 w hw).2

/-- the documented language on a simpleMatch pattern = exact word equality (and never an error) -/
theorem simple_language_eq_words (p : Str) (ts : List Tok) (v : Nat) (hp : simplePatternWF p = true) :
    lang (parse p) ts v = Res.ofBool (exactWords (words p) ts) :=
  langWords_lits v (words p) ts (simple_lits p hp)

theorem simple_interp_eq_language (p : Str) (ts : List Tok) (v : Nat) (hp : simplePatternWF p = true) :
    Res.ofBool (simpleMatchB p ts) = lang (parse p) ts v := by
  rw [simple_language_eq_words p ts v hp, simple_interp_eq_words p ts hp]

/-- **C33 (simpleMatch): compiled = interpreted**, partial: tokens inside `TokWF` (the compiler
    never passes a varid to a simpleMatch function: `hasVarid = false`). -/
theorem simple_compiled_eq_interpreted_partial (p : Str) (hasVarid : Bool) (ts : List Tok) (v : Nat)
    (hp : simplePatternWF p = true) (hts : ∀ t ∈ ts, TokWF t = true)
    (hv : v ≠ 0 ∨ hasVarid = false) :
    run (compile p hasVarid) ts v = Res.ofBool (simpleMatchB p ts) := by
  have hl := simple_lits p hp
  have hok : ∀ w ∈ words p, wordOk v (Word.ofStr w) := by
    intro w hw
    obtain ⟨s, hs⟩ := hl w hw
    rw [hs]
    simp [wordOk, atomOk]
  rcases run_compileWords hasVarid v (words p) .none false ts hts (Or.inl ⟨hv, hok⟩) with h | ⟨h1, h2, _⟩
  · simp only [advance] at h
    unfold compile
    rw [h, langWords_lits v (words p) ts hl, simple_interp_eq_words p ts hp]
  · rcases hv with h | h
    · exact absurd h2 h
    · rw [h] at h1; cases h1

/-! ### the find loops: compiled = interpreted = first match of the language -/

/-- **`Token::findmatch` (interpreted) returns the language's first match**, all three outcomes,
    any `end` budget, every varid -/
theorem find_interpreted_eq_language (p : Str) (v : Nat) (ts : List Tok) (budget : Nat)
    (hp : patternWF p = true) (hn : noNul p = true) (hts : ∀ t ∈ ts, TokStrOK t = true) :
    FirstMatch (fun ts' => lang (parse p) ts' v) ts budget (findInterp p v ts budget) := by
  unfold findInterp
  rw [findWith_congr _ (fun ts' => lang (parse p) ts' v) ts budget (fun j _ =>
    interpreted_eq_language p (ts.drop j) v hp hn (fun t ht => hts t (List.mem_of_mem_drop ht)))]
  exact findWith_spec _ ts budget

/-- **C33 (findmatch): compiled find = interpreted find**, partial (same hypotheses as for Match) -/
theorem find_compiled_eq_interpreted_partial (p : Str) (hasVarid : Bool) (v : Nat) (ts : List Tok) (budget : Nat)
    (hp : patternWF p = true) (hn : noNul p = true)
    (hts : ∀ t ∈ ts, TokWF t = true) (hts' : ∀ t ∈ ts, TokStrOK t = true)
    (hv : v ≠ 0 ∨ (hasVarid = false ∧ usesVarid (parse p) = false)) :
    findWith (fun ts' => run (compile p hasVarid) ts' v) ts budget = findInterp p v ts budget :=
  findWith_congr _ _ ts budget (fun j _ =>
    compiled_eq_interpreted_partial p hasVarid (ts.drop j) v hp hn
      (fun t ht => hts t (List.mem_of_mem_drop ht)) (fun t ht => hts' t (List.mem_of_mem_drop ht)) hv)

/-- the same about the accumulator form the compiler emits (`findFrom`, run by the driver) -/
theorem findFrom_eq_findInterp_partial (p : Str) (hasVarid : Bool) (v : Nat) (ts : List Tok) (idx budget : Nat)
    (hp : patternWF p = true) (hn : noNul p = true)
    (hts : ∀ t ∈ ts, TokWF t = true) (hts' : ∀ t ∈ ts, TokStrOK t = true)
    (hv : v ≠ 0 ∨ (hasVarid = false ∧ usesVarid (parse p) = false)) :
    findFrom (compile p hasVarid) v ts idx budget = (findInterp p v ts budget).legacy idx := by
  rw [findFrom_eq_findWith, find_compiled_eq_interpreted_partial p hasVarid v ts budget hp hn hts hts' hv]

/-- **C33 (findsimplematch): compiled find = interpreted find**, partial: tokens inside `TokWF` -/
theorem findsimple_compiled_eq_interpreted_partial (p : Str) (hasVarid : Bool) (v : Nat) (ts : List Tok)
    (idx budget : Nat) (hp : simplePatternWF p = true) (hts : ∀ t ∈ ts, TokWF t = true)
    (hv : v ≠ 0 ∨ hasVarid = false) :
    findFrom (compile p hasVarid) v ts idx budget = (findSimpleInterp p ts budget).legacy idx := by
  rw [findFrom_eq_findWith]
  unfold findSimpleInterp
  rw [findWith_congr _ (fun ts' => Res.ofBool (simpleMatchB p ts')) ts budget (fun j _ =>
    simple_compiled_eq_interpreted_partial p hasVarid (ts.drop j) v hp
      (fun t ht => hts t (List.mem_of_mem_drop ht)) hv)]

/-- `Token::findsimplematch` returns the first position whose tokens spell the pattern's words -/
theorem findsimple_interpreted_eq_language (p : Str) (v : Nat) (ts : List Tok) (budget : Nat)
    (hp : simplePatternWF p = true) :
    FirstMatch (fun ts' => lang (parse p) ts' v) ts budget (findSimpleInterp p ts budget) := by
  unfold findSimpleInterp
  rw [findWith_congr _ (fun ts' => lang (parse p) ts' v) ts budget (fun j _ =>
    simple_interp_eq_language p (ts.drop j) v hp)]
  exact findWith_spec _ ts budget

/-! ### name kept for Props/C05.lean (statement over the coarse `sem`) -/

theorem interp_eq_language (p : Str) (ts : List Tok) (v : Nat)
    (hp : patternWF p = true) (hn : noNul p = true) (hts : ∀ t ∈ ts, TokStrOK t = true)
    (hv : v ≠ 0 ∨ usesVarid (parse p) = false) :
    interpB p ts v = sem (parse p) ts v := by
  rw [interpreted_eq_language p ts v hp hn hts, lang_eq_sem _ _ _ hv]

/-! ### the hypotheses are satisfiable by ordinary inputs, and the theorems are about all word kinds -/

example : patternWF "%varid% =|+= !!0 [;,] %name%|foo|".toList = true
    ∧ noNul "%varid% =|+= !!0 [;,] %name%|foo|".toList = true := by decide
example : TokStrOK (exTok "x" .eVariable 3 true) = true ∧ TokStrOK (exTok "+=" .eAssignmentOp 0 false) = true
    ∧ TokStrOK (exTok "||" .eLogicalOp 0 false) = true := by decide
example : simplePatternWF "if ( x".toList = true := by decide
-- the empty token text is inside the theorem (it takes the NUL = NUL exit of token.cpp:569-571
-- on a trailing `a|`, with the same verdict)
example : TokStrOK (exTok "" .eNone 0 false) = true := by decide
example : interpB "%varid% =|+= !!0 [;,] foo|".toList
    [exTok "x" .eVariable 3 true, exTok "+=" .eAssignmentOp 0 false, exTok "1" .eNumber 0 false,
     exTok ";" .eExtendedOp 0 false] 3 = .t := by decide
-- varid 0 is inside `interpreted_eq_language`: the throw happens exactly when the language says so
example : interpB "a|%varid%".toList [exTok "b" .eName 0 true] 0 = .err
    ∧ interpB "a|%varid%".toList [exTok "a" .eName 0 true] 0 = .t
    ∧ interpB "a %varid%".toList [exTok "b" .eName 0 true] 0 = .f
    ∧ interpB "%varid%".toList [] 0 = .f := by decide
-- a find with an `end` budget: the interpreted and the compiled loop stop in front of `end`
example : findInterp "x =".toList 0
    [exTok "x" .eName 0 true, exTok ";" .eExtendedOp 0 false, exTok "x" .eName 0 true, exTok "=" .eAssignmentOp 0 false] 4
      = .hit 2
    ∧ findInterp "x =".toList 0
    [exTok "x" .eName 0 true, exTok ";" .eExtendedOp 0 false, exTok "x" .eName 0 true, exTok "=" .eAssignmentOp 0 false] 2
      = .none := by decide

/-! ### the unrestricted statements are false: counterexamples (each replayed on the real code) -/

/-- a token with a blank inside (the string literal `" "`): the interpreter lets it swallow the two
    pattern words `"` and `"|%any%`'s first alternative; the language says no match. -/
theorem interp_ne_language_blank_token :
    interpB "\" \"|%any%".toList [exTok "\" \"" .eString 0 false, exTok "x" .eVariable 1 true] 1
      ≠ lang (parse "\" \"|%any%".toList) [exTok "\" \"" .eString 0 false, exTok "x" .eVariable 1 true] 1 := by
  decide

/-- **M1 finding `blank-in-token-text`**: on the same input the two real matchers disagree — the
    tokens are inside `TokWF`, only `TokStrOK` fails. -/
theorem compiled_ne_interpreted_blank_token :
    patternWF "\" \"|%any%".toList = true ∧
    TokWF (exTok "\" \"" .eString 0 false) = true ∧ TokStrOK (exTok "\" \"" .eString 0 false) = false ∧
    run (compile "\" \"|%any%".toList false) [exTok "\" \"" .eString 0 false, exTok "x" .eVariable 1 true] 0 = .f ∧
    interpB "\" \"|%any%".toList [exTok "\" \"" .eString 0 false, exTok "x" .eVariable 1 true] 0 = .t := by
  decide

/-- same for `!!`: `firstWordEquals` runs over the blank -/
theorem interp_ne_language_blank_token_neg :
    interpB "!!a b".toList [exTok "a b" .eName 0 true, exTok "b" .eName 0 true] 1
      ≠ lang (parse "!!a b".toList) [exTok "a b" .eName 0 true, exTok "b" .eName 0 true] 1 := by
  decide

/-- a NUL byte inside the token text (the model does not cut the text there as `c_str()` does) -/
theorem interp_ne_language_nul_token :
    interpB ['a'] [⟨['a', '\x00'], .eName, 0, true⟩] 1 ≠ lang (parse ['a']) [⟨['a', '\x00'], .eName, 0, true⟩] 1 := by
  decide

/-- a NUL byte inside the pattern list (not a C string): the byte loop stops there, the word
    splitter does not -/
theorem interp_ne_language_nul_pattern :
    interpB ['a', '\x00', 'b'] [exTok "a" .eName 0 true] 1
      ≠ lang (parse ['a', '\x00', 'b']) [exTok "a" .eName 0 true] 1 := by
  decide

theorem interp_eq_language_unrestricted_false : ¬ InterpEqLanguageUnrestricted := by
  intro h
  exact interp_ne_language_blank_token (h _ _ 1 (by decide))

/-- **M3 finding `varid0-eager-throw`**: under varid 0 the compiled matcher throws where the
    interpreter returns a verdict (well-formed pattern, ordinary tokens) -/
theorem compiled_ne_interpreted_varid0 :
    patternWF "x|%varid%".toList = true ∧
    TokWF (exTok "x" .eName 0 true) = true ∧ TokStrOK (exTok "x" .eName 0 true) = true ∧
    run (compile "x|%varid%".toList true) [exTok "x" .eName 0 true] 0 = .err ∧
    interpB "x|%varid%".toList [exTok "x" .eName 0 true] 0 = .t ∧
    run (compile "%varid%".toList true) [] 0 = .err ∧ interpB "%varid%".toList [] 0 = .f := by
  decide

/-- **F17 finding `literal-typed-token`** between the two matchers -/
theorem compiled_ne_interpreted_literal_typed_token :
    patternWF "const|restrict".toList = true ∧ TokStrOK (exTok "restrict" .eVariable 1 true) = true ∧
    TokWF (exTok "restrict" .eVariable 1 true) = false ∧
    run (compile "const|restrict".toList false) [exTok "restrict" .eVariable 1 true] 0 = .f ∧
    interpB "const|restrict".toList [exTok "restrict" .eVariable 1 true] 0 = .t := by
  decide

theorem compiled_eq_interpreted_unrestricted_false : ¬ CompiledEqInterpretedUnrestricted := by
  intro h
  have := h "const|restrict".toList false [exTok "restrict" .eVariable 1 true] 0 (by decide)
  rw [compiled_ne_interpreted_literal_typed_token.2.2.2.1, compiled_ne_interpreted_literal_typed_token.2.2.2.2] at this
  cases this

end Cppcheck.Match

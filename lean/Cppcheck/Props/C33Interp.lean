import Cppcheck.Props.C33
import Cppcheck.Proofs.MatchInterp
/-
C33 (interpreter side) — property theorems closing the chain

    interpreted matcher (`Token::Match`, byte level)  =  documented pattern language  =  compiled matcher

for EVERY well-formed pattern string and EVERY token list (no bound on pattern size or list length;
the proofs are by induction on the interpreter's fuel / the word list, see Proofs/MatchInterp.lean).

Hypotheses added to the statement asked for (all decidable, each one necessary — see the
counterexample theorems at the end of this file):

  * `noNul p`     the pattern contains no NUL byte.  A `const char*` pattern ends at its first NUL
                  (lib/token.cpp: `while (*p && *p != ' ')`, `haystack[1] != '\0'`); the model's byte
                  list would carry on behind it, so a list with a NUL does not denote a C string.
  * `TokStrOK t`  the token text contains neither a blank nor a NUL (the empty text is allowed).
                  `multiCompareImpl` compares `tok->str().c_str()` bytewise against the *whole rest of
                  the pattern* and tests `*needlePointer == *haystack` BEFORE `*haystack == ' '`
                  (token.cpp:569 vs :574), and `firstWordEquals` likewise (token.cpp:643): a blank
                  inside the token text is matched against the pattern's word separator, so the
                  interpreter lets ONE token such as the string literal `" "` consume the pattern text
                  `" "` which the language (and the match compiler) read as TWO words.  This is a real
                  deviation of the interpreter from the documented language (reproduced on the real
                  code, see docs/C33-interp.md); it is excluded here by the hypothesis and reported.
                  A NUL inside `std::string` text ends `c_str()`; the model's byte list does not end
                  there, so such a list does not denote what the C++ reads.
-/
namespace Cppcheck.Match
open Cppcheck.Wire

/-- **interpreted = documented language.**  For every well-formed pattern and every token list the
    byte-level interpreter returns the result of the documented word-level language. -/
theorem interp_eq_language (p : Wire.Str) (ts : List Tok) (v : Nat)
    (hp : patternWF p = true) (hn : noNul p = true) (hts : ∀ t ∈ ts, TokStrOK t = true)
    (hv : v ≠ 0 ∨ usesVarid (parse p) = false) :
    interpB p ts v = sem (parse p) ts v := by
  rw [interpB_eq_semWords p ts v hp hn hts hv]
  unfold sem
  rcases hv with h | h
  · simp [h]
  · simp [h]

/-- **C33: compiled = interpreted** (calls with a varid argument, `varid ≠ 0`). -/
theorem compiled_eq_interpreted (p : Wire.Str) (hasVarid : Bool) (ts : List Tok) (v : Nat)
    (hp : patternWF p = true) (hn : noNul p = true)
    (hts : ∀ t ∈ ts, TokWF t = true) (hts' : ∀ t ∈ ts, TokStrOK t = true) (hv : v ≠ 0) :
    run (compile p hasVarid) ts v = interpB p ts v := by
  rw [compiled_eq_language p hasVarid ts v hts hv, interp_eq_language p ts v hp hn hts' (Or.inl hv)]

/-- **C33: compiled = interpreted** for calls without a varid argument (both run with varid 0):
    patterns that do not mention `%varid%`. -/
theorem compiled_eq_interpreted_novarid (p : Wire.Str) (ts : List Tok)
    (hp : patternWF p = true) (hn : noNul p = true)
    (hts : ∀ t ∈ ts, TokWF t = true) (hts' : ∀ t ∈ ts, TokStrOK t = true)
    (hu : usesVarid (parse p) = false) :
    run (compile p false) ts 0 = interpB p ts 0 := by
  rw [compiled_eq_language_novarid p ts hts hu, interp_eq_language p ts 0 hp hn hts' (Or.inr hu)]

/-! ### simpleMatch: interpreted = exact word equality = documented language = compiled
    (no hypothesis on the tokens or on NUL bytes is needed on the interpreter side) -/

/-- `Token::simpleMatch` = the token texts equal the pattern's words, one by one -/
theorem simple_interp_eq_words (p : Wire.Str) (ts : List Tok) (hp : simplePatternWF p = true) :
    simpleMatchB p ts = exactWords (words p) ts :=
  simpleMatchB_eq_words p ts hp

/-- the documented language on a simpleMatch pattern = exact word equality (and never an error) -/
theorem simple_language_eq_words (p : Wire.Str) (ts : List Tok) (v : Nat) (hp : simplePatternWF p = true) :
    sem (parse p) ts v = Res.ofBool (exactWords (words p) ts) := by
  have hl : ∀ w ∈ words p, ∃ s, Word.ofStr w = .one (.lit s) := by
    rw [words_of_simple p hp]
    exact fun w hw => ((simplePatternWF_iff p hp).2 w hw).2
  unfold sem parse
  rw [usesVarid_lits (words p) hl, semWords_lits v (words p) ts hl]
  simp

theorem simple_interp_eq_language (p : Wire.Str) (ts : List Tok) (v : Nat) (hp : simplePatternWF p = true) :
    Res.ofBool (simpleMatchB p ts) = sem (parse p) ts v := by
  rw [simple_language_eq_words p ts v hp, simple_interp_eq_words p ts hp]

/-- **C33 (simpleMatch): compiled = interpreted.** -/
theorem simple_compiled_eq_interpreted (p : Wire.Str) (hasVarid : Bool) (ts : List Tok) (v : Nat)
    (hp : simplePatternWF p = true) (hts : ∀ t ∈ ts, TokWF t = true)
    (hv : v ≠ 0 ∨ hasVarid = false) :
    run (compile p hasVarid) ts v = Res.ofBool (simpleMatchB p ts) := by
  have hl : ∀ w ∈ words p, ∃ s, Word.ofStr w = .one (.lit s) := by
    rw [words_of_simple p hp]
    exact fun w hw => ((simplePatternWF_iff p hp).2 w hw).2
  have h := run_compileWords hasVarid v hv (words p) .none false ts hts (by
    intro w hw
    obtain ⟨s, hs⟩ := hl w hw
    rw [hs]
    simp [wordOk, atomOk])
  simp only [advance] at h
  unfold compile
  rw [h, semWords_lits v (words p) ts hl, simple_interp_eq_words p ts hp]

/-! ### the hypotheses are satisfiable by ordinary inputs, and the theorems are about all word kinds -/

example : patternWF "%varid% =|+= !!0 [;,] %name%|foo|".toList = true
    ∧ noNul "%varid% =|+= !!0 [;,] %name%|foo|".toList = true := by decide
example : TokStrOK (exTok "x" .eVariable 3 true) = true ∧ TokStrOK (exTok "+=" .eAssignmentOp 0 false) = true
    ∧ TokStrOK (exTok "||" .eLogicalOp 0 false) = true := by decide
example : simplePatternWF "if ( x".toList = true := by decide
-- the empty token text is inside the theorem (it takes the NUL = NUL exit of token.cpp:569-571
-- on a trailing `a|`, with the same verdict)
example : TokStrOK (exTok "" .eNone 0 false) = true := by decide
example : interpB "%varid% =|+= !!0 [;,] foo|".toList
    [exTok "x" .eVariable 3 true, exTok "+=" .eAssignmentOp 0 false, exTok "1" .eNumber 0 false,
     exTok ";" .eExtendedOp 0 false] 3 = .t := by decide

/-! ### the statement without the two extra hypotheses is false: counterexamples -/

/-- the statement as first asked for: well-formedness of the pattern only -/
def InterpEqLanguageUnrestricted : Prop :=
  ∀ (p : Wire.Str) (ts : List Tok) (v : Nat), patternWF p = true →
    (v ≠ 0 ∨ usesVarid (parse p) = false) → interpB p ts v = sem (parse p) ts v

/-- a token with a blank inside (the string literal `" "`): the interpreter lets it swallow the two
    pattern words `"` and `"|%any%`'s first alternative; the language says no match.
    Reproduced on the real `Token::Match`. -/
theorem interp_ne_language_blank_token :
    interpB "\" \"|%any%".toList [exTok "\" \"" .eString 0 false, exTok "x" .eVariable 1 true] 1
      ≠ sem (parse "\" \"|%any%".toList) [exTok "\" \"" .eString 0 false, exTok "x" .eVariable 1 true] 1 := by
  decide

/-- same for `!!`: `firstWordEquals` runs over the blank -/
theorem interp_ne_language_blank_token_neg :
    interpB "!!a b".toList [exTok "a b" .eName 0 true, exTok "b" .eName 0 true] 1
      ≠ sem (parse "!!a b".toList) [exTok "a b" .eName 0 true, exTok "b" .eName 0 true] 1 := by
  decide

/-- a NUL byte inside the token text (the model does not cut the text there as `c_str()` does) -/
theorem interp_ne_language_nul_token :
    interpB ['a'] [⟨['a', '\x00'], .eName, 0, true⟩] 1 ≠ sem (parse ['a']) [⟨['a', '\x00'], .eName, 0, true⟩] 1 := by
  decide

/-- a NUL byte inside the pattern list (not a C string): the byte loop stops there, the word
    splitter does not -/
theorem interp_ne_language_nul_pattern :
    interpB ['a', '\x00', 'b'] [exTok "a" .eName 0 true] 1
      ≠ sem (parse ['a', '\x00', 'b']) [exTok "a" .eName 0 true] 1 := by
  decide

theorem interp_eq_language_unrestricted_false : ¬ InterpEqLanguageUnrestricted := by
  intro h
  exact interp_ne_language_blank_token (h _ _ 1 (by decide) (Or.inl (by decide)))

end Cppcheck.Match

import Cppcheck.Proofs.Match
/-
C33 — property theorems.

`compiled_eq_language`: for EVERY pattern string, every token list (of any length) whose tokens
satisfy the token-type invariant, and every varid, running the program the match compiler emits
gives exactly the documented-language result.  No bound on pattern size or list length.
-/
namespace Cppcheck.Match

/-- core induction: compiled words from any goto state = word semantics on the advanced list -/
theorem run_compileWords (hv : Bool) (v : Nat) (hchk : v ≠ 0 ∨ hv = false) :
    ∀ (ws : List Wire.Str) (g : Goto) (chk : Bool) (ts : List Tok),
      (∀ t ∈ ts, TokWF t = true) → (∀ w ∈ ws, wordOk v (Word.ofStr w)) →
      run (compileWords hv ws g chk) ts v = Res.ofBool (semWords (ws.map Word.ofStr) (advance g ts) v) := by
  intro ws
  induction ws with
  | nil => intro g chk ts _ _; simp [compileWords, run, semWords, Res.ofBool]
  | cons w ws ih =>
    intro g chk ts hts hws
    have hw := hws w (by simp)
    have hws' : ∀ w' ∈ ws, wordOk v (Word.ofStr w') := fun w' h' => hws w' (by simp [h'])
    have hadv : ∀ t ∈ advance g ts, TokWF t = true := by
      intro t ht
      cases g <;> simp only [advance] at ht
      · exact hts t ht
      · exact hts t (List.mem_of_mem_drop ht)
      · exact hts t (List.mem_of_mem_drop ht)
    -- the optional varid check is a no-op under hchk
    have hck' : ∀ (p : Prog) (ts' : List Tok),
        run ((if (hv && wordMentionsVarid w && !chk) = true then [Step.checkVarid] else []) ++ p) ts' v = run p ts' v := by
      intro p ts'
      split
      · rename_i hb
        rcases hchk with h | h
        · simp [run, h]
        · simp [h] at hb
      · rfl
    simp only [compileWords, List.map_cons]
    generalize hA : advance g ts = A at hadv
    cases hwd : Word.ofStr w with
    | cls cs =>
      simp only [List.append_assoc, run_goto, hA, hck']
      cases A with
      | nil => simp [run, semWords, Res.ofBool]
      | cons t r =>
        have := ih .next (chk || (hv && wordMentionsVarid w && !chk)) (t :: r) hadv hws'
        simp only [advance, List.drop_one, List.tail_cons] at this
        simp only [List.singleton_append, run, semWords]
        cases hs : t.str with
        | nil => simp [Res.ofBool]
        | cons c cr =>
          cases cr with
          | nil =>
            by_cases hc : c ∈ cs
            · simp [hc, this]
            · simp [hc, Res.ofBool]
          | cons _ _ => simp [Res.ofBool]
    | alts as opt =>
      rw [hwd] at hw
      simp only [wordOk] at hw
      cases opt with
      | true =>
        simp only [if_true, List.append_assoc, run_goto, hA, hck']
        have hrec := ih .none (chk || (hv && wordMentionsVarid w && !chk))
        simp only [advance] at hrec
        cases A with
        | nil =>
          simp only [List.singleton_append, run, semWords, Bool.true_and]
          exact hrec [] (by simp) hws'
        | cons t r =>
          have ht : TokWF t = true := hadv t (by simp)
          simp only [List.singleton_append, run, semWords, Bool.true_and, any_cond_eq as t v ht hw]
          by_cases hc : as.any (·.eval t v) = true
          · simp only [hc, if_true]
            exact hrec r (fun t' h' => hadv t' (by simp [h'])) hws'
          · simp only [hc]
            exact hrec (t :: r) hadv hws'
      | false =>
        simp only [Bool.false_eq_true, if_false, List.append_assoc, run_goto, hA, hck']
        cases A with
        | nil => simp [run, semWords, Res.ofBool]
        | cons t r =>
          have ht : TokWF t = true := hadv t (by simp)
          have := ih .next (chk || (hv && wordMentionsVarid w && !chk)) (t :: r) hadv hws'
          simp only [advance, List.drop_one, List.tail_cons] at this
          simp only [List.singleton_append, run, semWords, any_cond_eq as t v ht hw]
          by_cases hc : as.any (·.eval t v) = true
          · simp [hc, this]
          · simp [hc, Res.ofBool]
    | neg s =>
      simp only [List.append_assoc, run_goto, hA, hck']
      have hrec := ih .nextSafe (chk || (hv && wordMentionsVarid w && !chk))
      simp only [advance] at hrec
      cases A with
      | nil =>
        simp only [List.singleton_append, run, semWords]
        simpa using hrec [] (by simp) hws'
      | cons t r =>
        simp only [List.singleton_append, run, semWords]
        by_cases hs : t.str = s
        · simp [hs, Res.ofBool]
        · have := hrec (t :: r) hadv hws'
          simp only [List.drop_one, List.tail_cons] at this
          simp [hs, this]
    | one a =>
      rw [hwd] at hw
      simp only [wordOk] at hw
      simp only [List.append_assoc, run_goto, hA, hck']
      cases A with
      | nil => simp [run, semWords, Res.ofBool]
      | cons t r =>
        have ht : TokWF t = true := hadv t (by simp)
        have := ih .next (chk || (hv && wordMentionsVarid w && !chk)) (t :: r) hadv hws'
        simp only [advance, List.drop_one, List.tail_cons] at this
        simp only [List.singleton_append, run, semWords, List.any_cons, List.any_nil, Bool.or_false,
          cond_eval_eq a t v ht hw]
        by_cases hc : a.eval t v = true
        · simp [hc, this]
        · simp [hc, Res.ofBool]

theorem wordOk_of_nonzero (v : Nat) (hv : v ≠ 0) (w : Word) : wordOk v w := by
  cases w <;> simp [wordOk, atomOk, hv]

theorem wordOk_of_not_uses (ws : List Word) (h : usesVarid ws = false) : ∀ w ∈ ws, wordOk 0 w := by
  intro w hw
  simp only [usesVarid, List.any_eq_false] at h
  have := h w hw
  cases w with
  | alts as opt =>
    simp only [wordOk, atomOk]
    intro a ha
    left
    simp only [List.any_eq_true, decide_eq_true_eq, not_exists, not_and] at this
    exact fun e => this a ha e
  | one a =>
    simp only [wordOk, atomOk]
    left
    simpa using this
  | cls _ => trivial
  | neg _ => trivial

/-- **C33 (compiled side), full strength.**  The specialised matcher generated for pattern `p`
    (call with a varid argument: `hasVarid = true`) returns the documented-language result on every
    token list, provided the varid passed is non-zero. -/
theorem compiled_eq_language (p : Wire.Str) (hasVarid : Bool) (ts : List Tok) (v : Nat)
    (hts : ∀ t ∈ ts, TokWF t = true) (hv : v ≠ 0) :
    run (compile p hasVarid) ts v = sem (parse p) ts v := by
  have h := run_compileWords hasVarid v (Or.inl hv) (words p) .none false ts hts
    (fun w _ => wordOk_of_nonzero v hv _)
  simp only [advance] at h
  simp only [compile, sem, parse, h, hv, ne_eq, not_true_eq_false, and_false, if_false]

/-- same for calls without a varid argument (the interpreter then runs with varid 0): patterns
    that do not mention `%varid%`. -/
theorem compiled_eq_language_novarid (p : Wire.Str) (ts : List Tok)
    (hts : ∀ t ∈ ts, TokWF t = true) (hp : usesVarid (parse p) = false) :
    run (compile p false) ts 0 = sem (parse p) ts 0 := by
  have hw := wordOk_of_not_uses (parse p) hp
  have h := run_compileWords false 0 (Or.inr rfl) (words p) .none false ts hts
    (fun w hw' => hw _ (by simp only [parse, List.mem_map]; exact ⟨w, hw', rfl⟩))
  simp only [advance] at h
  simp only [compile, sem, h, hp, Bool.false_eq_true, false_and, if_false]
  rfl

/-- the compiled findmatch returns the first position at which the language matches -/
theorem find_first (p : Wire.Str) (hasVarid : Bool) (v : Nat) (hv : v ≠ 0) :
    ∀ (ts : List Tok) (idx budget : Nat), (∀ t ∈ ts, TokWF t = true) →
      ∀ i, findFrom (compile p hasVarid) v ts idx budget = .inl (some i) →
        idx ≤ i ∧ sem (parse p) (ts.drop (i - idx)) v = .t := by
  intro ts
  induction ts with
  | nil => intro idx budget _ i h; simp [findFrom] at h
  | cons t r ih =>
    intro idx budget hts i h
    cases budget with
    | zero => simp [findFrom] at h
    | succ b =>
      simp only [findFrom] at h
      rw [compiled_eq_language p hasVarid (t :: r) v hts hv] at h
      cases hs : sem (parse p) (t :: r) v with
      | t =>
        rw [hs] at h
        simp at h
        subst h
        simp [hs]
      | err => rw [hs] at h; simp at h
      | f =>
        rw [hs] at h
        simp only at h
        have := ih (idx + 1) b (fun t' h' => hts t' (by simp [h'])) i h
        refine ⟨by omega, ?_⟩
        have h2 : i - idx = (i - (idx + 1)) + 1 := by omega
        rw [h2]
        simpa using this.2

/-! non-vacuity: the hypotheses are met by ordinary tokens, and the theorem is about a program
    with several step kinds -/
def exTok (s : String) (ty : TokType) (vid : Nat) (nm : Bool) : Tok := ⟨s.toList, ty, vid, nm⟩

example : TokWF (exTok "x" .eVariable 3 true) = true ∧ TokWF (exTok "=" .eAssignmentOp 0 false) = true := by decide
example : compile "%varid% =|+= !!0 [;,] foo|".toList true =
    [.checkVarid, .require [.varidName], .next,
     .require [.lit ['='] [.eAssignmentOp], .lit ['+', '='] [.eAssignmentOp]], .next,
     .reject ['0'], .nextSafe, .cls [';', ','], .next, .optional [.lit ['f','o','o'] []]] := by decide

end Cppcheck.Match

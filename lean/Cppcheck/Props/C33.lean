import Cppcheck.Proofs.Match
/-
C33 — property theorems (compiled side and the find loop).

`lang (parse p) ts v` is the documented pattern language with its three outcomes (match / no match /
InternalError for `%varid%` evaluated under varid 0).  For EVERY pattern string, every token list (of
any length) and every varid the program the match compiler emits is compared with it.  No bound on
pattern size or list length: the core induction is `run_compileWords` (Proofs/Match.lean).

The unrestricted statement is FALSE on the real code, in two reachable ways, and both are kept
visible here with their counterexamples:
  * a token spelled like a literal of the compiler's `tokTypes` table but typed differently (F17,
    e.g. the C++ variable `restrict`): the compiled literal test also asks for the token type;
  * varid 0 with a pattern that spells `%varid%`: the compiled code throws as soon as it reaches
    the word, the language (and the interpreter) only when the `%varid%` alternative is evaluated.
-/
namespace Cppcheck.Match
open Cppcheck.Wire

/-- the statement one would like: no hypothesis on tokens or varid -/
def CompiledEqLanguageUnrestricted : Prop :=
  ∀ (p : Str) (hasVarid : Bool) (ts : List Tok) (v : Nat),
    run (compile p hasVarid) ts v = lang (parse p) ts v

def exTok (s : String) (ty : TokType) (vid : Nat) (nm : Bool) : Tok := ⟨s.toList, ty, vid, nm⟩

/-- outside `TokWF` (F17): the variable `restrict` against `const|restrict` — the language accepts
    the spelling, the compiled test `tokType()==eKeyword && str()=="restrict"` does not.
    Reproduced on the real code (corpus/C33, known finding `literal-typed-token`). -/
theorem compiled_ne_language_literal_typed_token :
    TokWF (exTok "restrict" .eVariable 1 true) = false ∧
    run (compile "const|restrict".toList false) [exTok "restrict" .eVariable 1 true] 0 = .f ∧
    lang (parse "const|restrict".toList) [exTok "restrict" .eVariable 1 true] 0 = .t := by decide

/-- varid 0: `x|%varid%` against the token `x` — compiled throws before looking at the token, the
    language matches on the first alternative; `%varid%` against the null token — compiled throws,
    the language says no match.  Reproduced on the real code (known finding `varid0-eager-throw`). -/
theorem compiled_ne_language_varid0 :
    run (compile "x|%varid%".toList true) [exTok "x" .eName 0 true] 0 = .err ∧
    lang (parse "x|%varid%".toList) [exTok "x" .eName 0 true] 0 = .t ∧
    run (compile "%varid%".toList true) [] 0 = .err ∧
    lang (parse "%varid%".toList) [] 0 = .f := by decide

theorem compiled_eq_language_unrestricted_false : ¬ CompiledEqLanguageUnrestricted := by
  intro h
  have := h "const|restrict".toList false [exTok "restrict" .eVariable 1 true] 0
  rw [compiled_ne_language_literal_typed_token.2.1, compiled_ne_language_literal_typed_token.2.2] at this
  cases this

/-- **C33 (compiled side), partial: tokens inside `TokWF`, and either a non-zero varid or a function
    compiled without varid argument for a pattern that does not use `%varid%`.**
    The specialised matcher generated for pattern `p` returns the documented-language result on every
    token list. -/
theorem compiled_eq_language_partial (p : Str) (hasVarid : Bool) (ts : List Tok) (v : Nat)
    (hts : ∀ t ∈ ts, TokWF t = true)
    (hv : v ≠ 0 ∨ (hasVarid = false ∧ usesVarid (parse p) = false)) :
    run (compile p hasVarid) ts v = lang (parse p) ts v := by
  have hreg : ((v ≠ 0 ∨ hasVarid = false) ∧ ∀ w ∈ words p, wordOk v (Word.ofStr w)) ∨
      (hasVarid = true ∧ v = 0 ∧ false = false) := by
    left
    by_cases h0 : v = 0
    · rcases hv with h | ⟨h1, h2⟩
      · exact absurd h0 h
      · subst h0
        refine ⟨Or.inr h1, fun w hw => ?_⟩
        exact wordOk_of_not_uses (parse p) h2 _ (by simp only [parse, List.mem_map]; exact ⟨w, hw, rfl⟩)
    · exact ⟨Or.inl h0, fun w _ => wordOk_of_nonzero v h0 _⟩
  rcases run_compileWords hasVarid v (words p) .none false ts hts hreg with h | ⟨h1, h2, _⟩
  · simpa [compile, lang, parse, advance] using h
  · rcases hv with h | ⟨h', _⟩
    · exact absurd h2 h
    · rw [h'] at h1; cases h1

/-- **C33 (compiled side), every varid: the compiled matcher refines the language.**  Whatever the
    varid, the function generated with a varid argument returns the language result, or — only under
    varid 0 — throws InternalError.  In particular whenever the language throws, so does the compiled
    matcher, and a verdict (true/false) of the compiled matcher is always the language's. -/
theorem compiled_refines_language (p : Str) (ts : List Tok) (v : Nat)
    (hts : ∀ t ∈ ts, TokWF t = true) :
    run (compile p true) ts v = lang (parse p) ts v ∨ (v = 0 ∧ run (compile p true) ts v = .err) := by
  have hreg : ((v ≠ 0 ∨ true = false) ∧ ∀ w ∈ words p, wordOk v (Word.ofStr w)) ∨
      (true = true ∧ v = 0 ∧ false = false) := by
    by_cases h0 : v = 0
    · exact Or.inr ⟨rfl, h0, rfl⟩
    · exact Or.inl ⟨Or.inl h0, fun w _ => wordOk_of_nonzero v h0 _⟩
  rcases run_compileWords true v (words p) .none false ts hts hreg with h | ⟨_, h2, h3⟩
  · left; simpa [compile, lang, parse, advance] using h
  · right; exact ⟨h2, by simpa [compile] using h3⟩

/-- a pattern that nowhere spells `%varid%` (e.g. `Token::Match(tok, "a b", 0)`): equality for every
    varid and both call shapes -/
theorem compiled_eq_language_nomention (p : Str) (hasVarid : Bool) (ts : List Tok) (v : Nat)
    (hts : ∀ t ∈ ts, TokWF t = true) (hm : ∀ w ∈ words p, wordMentionsVarid w = false) :
    run (compile p hasVarid) ts v = lang (parse p) ts v := by
  by_cases h0 : v = 0
  · subst h0
    have hok : ∀ w ∈ words p, wordOk 0 (Word.ofStr w) := fun w hw => wordOk_of_not_mentions w (hm w hw)
    -- no word emits the check: compile does not depend on hasVarid
    have hc : ∀ (ws : List Str) (g : Goto) (chk : Bool), (∀ w ∈ ws, wordMentionsVarid w = false) →
        compileWords hasVarid ws g chk = compileWords false ws g chk := by
      intro ws
      induction ws with
      | nil => intro g chk _; rfl
      | cons w ws ih =>
        intro g chk h
        have hw := h w (by simp)
        have ih' := fun g' chk' => ih g' chk' (fun w' hw' => h w' (by simp [hw']))
        simp only [compileWords, hw, Bool.and_false, Bool.false_and, Bool.or_false, Bool.false_eq_true, if_false, ih']
    rcases run_compileWords false 0 (words p) .none false ts hts (Or.inl ⟨Or.inr rfl, hok⟩) with h | ⟨h1, _, _⟩
    · simp only [compile, hc (words p) .none false hm]
      simpa [lang, parse, advance] using h
    · cases h1
  · exact compiled_eq_language_partial p hasVarid ts v hts (Or.inl h0)

/-! ### names kept for Props/C05.lean (statements over the coarse `sem`; `lang_eq_sem` is the bridge) -/

theorem compiled_eq_language (p : Str) (hasVarid : Bool) (ts : List Tok) (v : Nat)
    (hts : ∀ t ∈ ts, TokWF t = true) (hv : v ≠ 0) :
    run (compile p hasVarid) ts v = sem (parse p) ts v := by
  rw [compiled_eq_language_partial p hasVarid ts v hts (Or.inl hv), lang_eq_sem _ _ _ (Or.inl hv)]

theorem compiled_eq_language_novarid (p : Str) (ts : List Tok)
    (hts : ∀ t ∈ ts, TokWF t = true) (hp : usesVarid (parse p) = false) :
    run (compile p false) ts 0 = sem (parse p) ts 0 := by
  rw [compiled_eq_language_partial p false ts 0 hts (Or.inr ⟨rfl, hp⟩), lang_eq_sem _ _ _ (Or.inr hp)]

/-! ### findmatch: the compiled find returns the language's first match

`FirstMatch m ts budget r` (Proofs/Match.lean) is the declarative statement "r is what a find has to
return": a hit at `i` means `m` accepts at `i` and rejects at every `j < i`; `none` means `m` rejects
at every position of the range; `err` means the first position that is not a rejection throws.  It
determines `r` uniquely (`firstMatch_unique`). -/

/-- **compiled findmatch = first match of the language**, all three outcomes -/
theorem find_compiled_eq_language (p : Str) (hasVarid : Bool) (v : Nat) (ts : List Tok) (budget : Nat)
    (hts : ∀ t ∈ ts, TokWF t = true)
    (hv : v ≠ 0 ∨ (hasVarid = false ∧ usesVarid (parse p) = false)) :
    FirstMatch (fun ts' => lang (parse p) ts' v) ts budget
      (findWith (fun ts' => run (compile p hasVarid) ts' v) ts budget) := by
  rw [findWith_congr _ (fun ts' => lang (parse p) ts' v) ts budget (fun j _ =>
    compiled_eq_language_partial p hasVarid (ts.drop j) v (fun t ht => hts t (List.mem_of_mem_drop ht)) hv)]
  exact findWith_spec _ ts budget

/-- a hit of the compiled `findmatchN` (accumulator form, as emitted) is the FIRST position of the
    range at which the language matches -/
theorem findFrom_first (p : Str) (hasVarid : Bool) (v : Nat) (ts : List Tok) (idx budget i : Nat)
    (hts : ∀ t ∈ ts, TokWF t = true)
    (hv : v ≠ 0 ∨ (hasVarid = false ∧ usesVarid (parse p) = false))
    (h : findFrom (compile p hasVarid) v ts idx budget = .inl (some i)) :
    idx ≤ i ∧ i - idx < ts.length ∧ i - idx < budget ∧
      lang (parse p) (ts.drop (i - idx)) v = .t ∧
      ∀ j, j < i - idx → lang (parse p) (ts.drop j) v = .f := by
  rw [findFrom_eq_findWith] at h
  have hs := find_compiled_eq_language p hasVarid v ts budget hts hv
  cases hf : findWith (fun ts' => run (compile p hasVarid) ts' v) ts budget with
  | hit k =>
    rw [hf] at h hs
    simp only [Find.legacy, Sum.inl.injEq, Option.some.injEq] at h
    simp only [FirstMatch] at hs
    subst h
    simpa using hs
  | none => rw [hf] at h; simp [Find.legacy] at h
  | err => rw [hf] at h; simp [Find.legacy] at h

/-- `nullptr` from the compiled `findmatchN`: no position of the range matches -/
theorem findFrom_none (p : Str) (hasVarid : Bool) (v : Nat) (ts : List Tok) (idx budget : Nat)
    (hts : ∀ t ∈ ts, TokWF t = true)
    (hv : v ≠ 0 ∨ (hasVarid = false ∧ usesVarid (parse p) = false))
    (h : findFrom (compile p hasVarid) v ts idx budget = .inl none) :
    ∀ j, j < ts.length → j < budget → lang (parse p) (ts.drop j) v = .f := by
  rw [findFrom_eq_findWith] at h
  have hs := find_compiled_eq_language p hasVarid v ts budget hts hv
  cases hf : findWith (fun ts' => run (compile p hasVarid) ts' v) ts budget with
  | hit k => rw [hf] at h; simp [Find.legacy] at h
  | none => rw [hf] at hs; exact hs
  | err => rw [hf] at h; simp [Find.legacy] at h

/-- under the hypotheses of the partial theorem the compiled find never throws when `v ≠ 0` -/
theorem findFrom_no_throw (p : Str) (hasVarid : Bool) (v : Nat) (ts : List Tok) (idx budget : Nat)
    (hts : ∀ t ∈ ts, TokWF t = true) (hv : v ≠ 0) :
    findFrom (compile p hasVarid) v ts idx budget ≠ .inr () := by
  intro h
  rw [findFrom_eq_findWith] at h
  have hs := find_compiled_eq_language p hasVarid v ts budget hts (Or.inl hv)
  cases hf : findWith (fun ts' => run (compile p hasVarid) ts' v) ts budget with
  | hit k => rw [hf] at h; simp [Find.legacy] at h
  | none => rw [hf] at h; simp [Find.legacy] at h
  | err =>
    rw [hf] at hs
    obtain ⟨i, _, _, h3, _⟩ := hs
    simp only [] at h3
    rw [lang_eq_sem _ _ _ (Or.inl hv)] at h3
    simp only [sem, hv, and_false, if_false, Res.ofBool] at h3
    split at h3 <;> cases h3

/-! non-vacuity: the hypotheses are met by ordinary tokens, the theorems are about programs with
    several step kinds, and each outcome of a find occurs -/

example : TokWF (exTok "x" .eVariable 3 true) = true ∧ TokWF (exTok "=" .eAssignmentOp 0 false) = true := by decide
example : compile "%varid% =|+= !!0 [;,] foo|".toList true =
    [.checkVarid, .require [.varidName], .next,
     .require [.lit ['='] [.eAssignmentOp], .lit ['+', '='] [.eAssignmentOp]], .next,
     .reject ['0'], .nextSafe, .cls [';', ','], .next, .optional [.lit ['f','o','o'] []]] := by decide
example : usesVarid (parse "a b|c".toList) = false := by decide
example : ∀ w ∈ words "a b|c !!d [xy]".toList, wordMentionsVarid w = false := by decide
-- hit at 2 (not at the earlier near-miss), nullptr because of the `end` budget, nullptr on the empty list
example : findFrom (compile "x =".toList false) 0
    [exTok "x" .eName 0 true, exTok ";" .eExtendedOp 0 false, exTok "x" .eName 0 true, exTok "=" .eAssignmentOp 0 false] 0 4
      = .inl (some 2) := by decide
example : findFrom (compile "x =".toList false) 0
    [exTok "x" .eName 0 true, exTok ";" .eExtendedOp 0 false, exTok "x" .eName 0 true, exTok "=" .eAssignmentOp 0 false] 0 2
      = .inl none := by decide
example : findFrom (compile "x".toList false) 0 [] 0 5 = .inl none := by decide
-- the throw of a find: varid 0, first position rejects on an earlier word, second reaches `%varid%`
example : findFrom (compile "a %varid%".toList true) 0 [exTok "b" .eName 0 true, exTok "a" .eName 0 true] 0 2
    = .inr () := by decide

end Cppcheck.Match

import Cppcheck.Model.Ctu
import Cppcheck.Model.Unused
namespace Cppcheck.Ctu
end Cppcheck.Ctu

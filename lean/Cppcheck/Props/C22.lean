import Cppcheck.Proofs.UnusedText
/-
C22 — whole-program results do not depend on how summaries are stored: property theorems.

Reading guide.  `toStr`/`toXml`/`store` are the writers of the code (text, byte for byte), `fromBuildDir` is the reader
(`processFilesTxt` + handler: modelled tinyxml2 lexer, tree builder, attribute reader, then the `loadFromXml` family),
`inMemory` is what `CppCheck::analyseWholeProgram()` uses without a build dir.  `simp` stands for `Path::simplifyPath`
(a parameter).  Every hypothesis is a decidable predicate on the value:
  * `XmlSafe s`  – all bytes of `s` are TAB, LF, CR or 0x20..0x7f (needed for strings written through `toxml`),
  * `RawSafe s`  – no `"`, `&`, CR, NUL (needed for the fields written without escaping: function ids, argument names),
  * `inS n i` / `inU n i` – `i` is a value of the C++ field's integer type,
  * `simp p.file = p.file` – value-path file names are already simplified (they always are: `FileLocation` stores
    `simplifyPath(file)`).
Each hypothesis comes with a counterexample theorem (and a replayed witness in corpus/C22).
-/
namespace Cppcheck.Ctu
open Cppcheck.Wire

/-! ## text layer -/

/-- **escaping.** What the tinyxml2 attribute reader returns for a string written with `ErrorLogger::toxml`, for EVERY byte
    string: bytes outside TAB/LF/CR/0x20..0x7f come back as 'x', NUL as the two characters `\0`. -/
theorem attrDecode_toxml (s : Str) : attrDecode (toxml s) = lossy s := attrDecode_toxml' s

/-- the image is the string itself exactly for XML-safe strings -/
theorem lossy_eq_self_iff (s : Str) : lossy s = s ↔ XmlSafe s = true :=
  ⟨safe_of_lossy s, lossy_of_safe s⟩

/-- the hypothesis is needed: a UTF-8 file name does not survive (ä.c ↦ xx.c) -/
theorem toxml_lossy_counterexample :
    attrDecode (toxml [Char.ofNat 0xC3, Char.ofNat 0xA4, '.', 'c']) = "xx.c".toList
    ∧ ¬ (∀ s : Str, attrDecode (toxml s) = s) := by
  refine ⟨by decide, ?_⟩
  intro h
  exact absurd (h [Char.ofNat 0xC3]) (by decide)

/-- **numbers.** Every `long long` written with `operator<<` is read back by `XMLUtil::ToInt64` -/
theorem scanInt64_showInt (i : Int) (h : inS 64 i = true) : scanInt64 (showInt i) = some i := scanInt64_showInt' i h

example : XmlSafe "a<b> & \"q\"\t'x'\r\n".toList = true := by decide
example : RawSafe "dir/x.h:12:7".toList = true := by decide
example : inS 64 (-9223372036854775808) = true ∧ inS 32 2147483647 = true ∧ inU 8 255 = true := by decide

/-! ## the whole-program input -/

/-- **C22, main theorem.**  For every list of translation-unit summaries (function calls with value paths, nested calls,
    unsafe usages of the three CTU checks, class definitions), each written to its cache file by the writers of the code:
    what `analyseWholeProgram(buildDir)` reads back is exactly the in-memory input of `analyseWholeProgram()`.
    Hence every whole-program result computed from it (`analysis` is arbitrary) is the same in both modes. -/
theorem wholeProgram_storage_independent {α : Type} (simp : Str → Str) (tus : List (Nat × TUSummary))
    (h : ∀ t ∈ tus, t.2.Ok simp = true) (analysis : WholeProgram → α) :
    (fromBuildDir (tus.map fun t => t.2.store simp t.1) WholeProgram.empty).map analysis
      = some (analysis (inMemory (tus.map (·.2)))) := by
  rw [fromBuildDir_stores simp tus WholeProgram.empty h]
  rfl

/-- one cache file: reading it adds to the accumulated input what the in-memory run adds -/
theorem cacheFile_roundtrip (simp : Str → Str) (hash : Nat) (t : TUSummary) (h : t.Ok simp = true) (wp : WholeProgram) :
    fromBuildDir [t.store simp hash] wp = some (addInMemory wp t) := by
  have := fromBuildDir_stores simp [(hash, t)] wp (by intro x hx; simp at hx; subst hx; exact h)
  simpa using this

/-! ## per summary kind -/

/-- a summary with only CTU call data -/
def onlyCtu (fi : FileInfo) : TUSummary := ⟨fi, ⟨[], []⟩, [], [], []⟩

/-- **CTU file info** (any number of function calls and nested calls) -/
theorem fileInfo_roundtrip (simp : Str → Str) (hash : Nat) (fi : FileInfo) (h : fi.Ok simp = true) :
    fromBuildDir [(onlyCtu fi).store simp hash] WholeProgram.empty = some { WholeProgram.empty with ctu := fi } := by
  have hok : (onlyCtu fi).Ok simp = true := by simp [onlyCtu, TUSummary.Ok, h, BufferInfo.Ok]
  rw [cacheFile_roundtrip simp hash _ hok]
  simp [addInMemory, onlyCtu, WholeProgram.empty]

/-- **function call** incl. its value path -/
theorem functionCall_roundtrip (simp : Str → Str) (hash : Nat) (c : FunctionCall) (h : c.Ok simp = true) :
    fromBuildDir [(onlyCtu ⟨[c], []⟩).store simp hash] WholeProgram.empty = some { WholeProgram.empty with ctu := ⟨[c], []⟩ } :=
  fileInfo_roundtrip simp hash ⟨[c], []⟩ (by simp [FileInfo.Ok, h])

/-- **nested call** (with the element name `<nested-call>` of the proposed fix) -/
theorem nestedCall_roundtrip (simp : Str → Str) (hash : Nat) (c : NestedCall) (h : c.Ok = true) :
    fromBuildDir [(onlyCtu ⟨[], [c]⟩).store simp hash] WholeProgram.empty = some { WholeProgram.empty with ctu := ⟨[], [c]⟩ } :=
  fileInfo_roundtrip simp hash ⟨[], [c]⟩ (by simp [FileInfo.Ok, h])

example : FunctionCall.Ok id ⟨"x.h:1:6".toList, "ns::h<int>".toList, 1, ⟨"dir/b.c".toList, 2, 15⟩, "&buf[\"k\"]".toList, 7, -1, 1, true,
    [⟨"b.c".toList, "Assignment 'p=0', assigned value is <0>".toList, 3, 4294967295⟩]⟩ = true := by decide
example : NestedCall.Ok ⟨"x.h:1:6".toList, "h".toList, 1, ⟨"b.c".toList, 2, 15⟩, "x.h:1:20".toList, 1⟩ = true := by decide

/-- **unsafe usage list** (CheckNullPointer; CheckUninitVar is the same with `uninitVar`) -/
theorem unsafeUsage_roundtrip (simp : Str → Str) (hash : Nat) (l : List UnsafeUsage) (h : l.all UnsafeUsage.Ok = true) :
    fromBuildDir [TUSummary.store simp hash ⟨⟨[], []⟩, ⟨[], []⟩, [], l, l⟩] WholeProgram.empty
      = some { WholeProgram.empty with nullPointer := if l = [] then [] else [l], uninitVar := if l = [] then [] else [l] } := by
  have hok : TUSummary.Ok simp ⟨⟨[], []⟩, ⟨[], []⟩, [], l, l⟩ = true := by simp [TUSummary.Ok, FileInfo.Ok, BufferInfo.Ok, h]
  rw [cacheFile_roundtrip simp hash _ hok]
  simp [addInMemory, WholeProgram.empty]

/-- **CheckBufferOverrun** (array-index and pointer-arith lists) -/
theorem bufferInfo_roundtrip (simp : Str → Str) (hash : Nat) (b : BufferInfo) (h : b.Ok = true) :
    fromBuildDir [TUSummary.store simp hash ⟨⟨[], []⟩, b, [], [], []⟩] WholeProgram.empty
      = some { WholeProgram.empty with buffer := if b.arrayIndex = [] ∧ b.pointerArith = [] then [] else [b] } := by
  have hok : TUSummary.Ok simp ⟨⟨[], []⟩, b, [], [], []⟩ = true := by simp [TUSummary.Ok, FileInfo.Ok, h]
  rw [cacheFile_roundtrip simp hash _ hok]
  simp [addInMemory, WholeProgram.empty]

/-- **CheckClass** (one-definition-rule data) -/
theorem classInfo_roundtrip (simp : Str → Str) (hash : Nat) (l : List ClassDef) (h : l.all ClassDef.Ok = true) :
    fromBuildDir [TUSummary.store simp hash ⟨⟨[], []⟩, ⟨[], []⟩, l, [], []⟩] WholeProgram.empty
      = some { WholeProgram.empty with classes := if l = [] then [] else [l] } := by
  have hok : TUSummary.Ok simp ⟨⟨[], []⟩, ⟨[], []⟩, l, [], []⟩ = true := by simp [TUSummary.Ok, FileInfo.Ok, BufferInfo.Ok, h]
  rw [cacheFile_roundtrip simp hash _ hok]
  simp [addInMemory, WholeProgram.empty]

example : UnsafeUsage.Ok ⟨"x.h:1:6".toList, 1, "p".toList, ⟨"a&b.c".toList, 2, 16⟩, -9223372036854775808⟩ = true := by decide
example : ClassDef.Ok ⟨"ns::S<int>".toList, "k.cpp".toList, "A;B=\"1\"".toList, 1, 8, 18446744073709551615⟩ = true := by decide

/-! ## the behaviour before the fix (F2), kept as documentation -/

/-- the old writer: nested calls as `<function-call …>` -/
def storeOld (simp : Str → Str) (hash : Nat) (fi : FileInfo) : Str := storeFile hash [("ctu".toList, fi.toStrOld simp)]

/-- **before the fix, every nested call was lost**: whatever the summary, only the function calls came back -/
theorem nestedCall_lost_before_fix (simp : Str → Str) (hash : Nat) (fi : FileInfo) (h : fi.Ok simp = true) :
    fromBuildDir [storeOld simp hash fi] WholeProgram.empty = some { WholeProgram.empty with ctu := ⟨fi.functionCalls, []⟩ } := by
  have hraw := fileInfo_ok_raw simp fi h
  have hr := fileInfo_renders simp "function-call" (by decide) (by decide) fi hraw.1 hraw.2
  simp only [FileInfo.Ok, Bool.and_eq_true] at h
  unfold storeOld fromBuildDir
  rw [loadFile_single hash "ctu".toList (fi.toStrOld simp) _ (by decide) hr]
  simp only
  by_cases he : fi.toStrOld simp = []
  · have := fileInfo_toStr_nil simp "function-call" fi he
    simp [he, handleInfos, fromBuildDir, this.1, WholeProgram.empty]
  · simp only [he, if_false]
    rw [handleInfos_one, handleInfo_ctu]
    simp only [fromBuildDir, FileInfo.loadFromXml, Elem.kids, loadCalls_append, loadCalls_fcs simp _ _ h.1, loadCalls_ncs_old,
      WholeProgram.empty, List.nil_append]

/-- so the round trip was false of the old code: a single nested call is a counterexample -/
theorem nestedCall_old_counterexample :
    ¬ (∀ (simp : Str → Str) (hash : Nat) (fi : FileInfo), fi.Ok simp = true →
        fromBuildDir [storeOld simp hash fi] WholeProgram.empty = some { WholeProgram.empty with ctu := fi }) := by
  intro hall
  let nc : NestedCall := ⟨"x.h:1:6".toList, "h".toList, 1, ⟨"b.c".toList, 2, 15⟩, "x.h:1:20".toList, 1⟩
  have hok : FileInfo.Ok id ⟨[], [nc]⟩ = true := by decide
  have h1 := hall id 1 ⟨[], [nc]⟩ hok
  rw [nestedCall_lost_before_fix id 1 ⟨[], [nc]⟩ hok] at h1
  simp [WholeProgram.empty] at h1

/-! ## the hypotheses are needed -/

/-- a function id with an entity look-alike (file `&amp;.h`) comes back different; one with a quote (`a"b.h`) makes the
    whole cache file unreadable (`failed to load …`, internalError, no whole-program analysis at all) -/
theorem rawField_counterexample :
    fromBuildDir [(onlyCtu ⟨[⟨"&amp;.h:1:6".toList, "f".toList, 1, ⟨"a.c".toList, 1, 2⟩, "p".toList, 0, 0, 0, false, []⟩], []⟩).store id 1] WholeProgram.empty
      = some { WholeProgram.empty with ctu := ⟨[⟨"&.h:1:6".toList, "f".toList, 1, ⟨"a.c".toList, 1, 2⟩, "p".toList, 0, 0, 0, false, []⟩], []⟩ }
    ∧ fromBuildDir [(onlyCtu ⟨[⟨"a\"b.h:1:6".toList, "f".toList, 1, ⟨"a.c".toList, 1, 2⟩, "p".toList, 0, 0, 0, false, []⟩], []⟩).store id 1] WholeProgram.empty
      = none := by
  constructor <;> decide +kernel

/-- the unrestricted statement ("every summary value survives") is therefore false of the code -/
theorem roundtrip_unrestricted_counterexample :
    ¬ (∀ (simp : Str → Str) (hash : Nat) (fi : FileInfo),
        fromBuildDir [(onlyCtu fi).store simp hash] WholeProgram.empty = some { WholeProgram.empty with ctu := fi }) := by
  intro hall
  have h1 := hall id 1 ⟨[⟨"a\"b.h:1:6".toList, "f".toList, 1, ⟨"a.c".toList, 1, 2⟩, "p".toList, 0, 0, 0, false, []⟩], []⟩
  rw [rawField_counterexample.2] at h1
  exact absurd h1 (by simp)

/-- a value-path file name that `simplifyPath` changes does not come back (here `simp` maps everything to "a.c") -/
theorem pathFile_counterexample :
    fromBuildDir [(onlyCtu ⟨[⟨"x.h:1:6".toList, "f".toList, 1, ⟨"a.c".toList, 1, 2⟩, "p".toList, 0, 0, 0, false,
        [⟨"./a.c".toList, "note".toList, 3, 4⟩]⟩], []⟩).store (fun _ => "a.c".toList) 1] WholeProgram.empty
      = some { WholeProgram.empty with ctu := ⟨[⟨"x.h:1:6".toList, "f".toList, 1, ⟨"a.c".toList, 1, 2⟩, "p".toList, 0, 0, 0, false,
        [⟨"a.c".toList, "note".toList, 3, 4⟩]⟩], []⟩ } := by
  decide +kernel

end Cppcheck.Ctu

namespace Cppcheck.Unused
open Cppcheck.Wire Cppcheck.Ctu

/-! ## unused functions -/

/-- **summary text.** The `<FileInfo check="CheckUnusedFunctions">` text of a translation unit, written into a cache file
    and read back by the handler of `analyseWholeProgram(buildDir)`, yields the declarations and calls of that unit. -/
theorem unusedInfo_roundtrip (src : Str) (c : Collected) (t : TU) (h : t.TextOk = true) :
    collectText src c (analyzerInfo t) = .ok (collectTU c t) := collectText_analyzerInfo src c t h

example : TU.TextOk ⟨[⟨"f<1>".toList, "u0.c".toList, 3, 13, true, false, false⟩], [⟨"g".toList, "u0.c".toList⟩]⟩ = true := by decide

/-- **the two algorithms, on the collected data** (text layer removed; the statement about what the driver and the code
    execute is `unused_wp_equiv` below).  On every program (list of translation units given by the effects of `parseTokens`) that satisfies
    `UnusedHyp`, the `unusedFunction` findings of the in-memory algorithm (`CheckUnusedFunctions::check`) and of the build-dir
    algorithm (`analyseWholeProgram(buildDir)`) are the same set, and neither list has duplicates.
    `entry` = `Library::isentrypoint`, arbitrary. -/
theorem unused_collected_equiv (entry : Str → Bool) (tus : List TU) (h : UnusedHyp tus = true) :
    (∀ x, x ∈ unusedInMemory entry tus ↔ x ∈ unusedBuildDir entry tus)
    ∧ (unusedInMemory entry tus).Nodup ∧ (unusedBuildDir entry tus).Nodup := by
  have inv : Inv (allDecls tus) (finalMap tus) (tus.foldl collectTU ⟨[], []⟩) :=
    inv_tus (allDecls tus) tus [] ⟨[], []⟩ (declOk_of_hyp tus h) (inv_empty _)
  have hstrip : ∀ n, n ∈ amKeys (tus.foldl collectTU ⟨[], []⟩).decls → strip n = n := by
    intro n hn
    obtain ⟨d, hd, hname, _⟩ := inv.fromDecl n hn
    obtain ⟨t, ht, hdt⟩ := List.mem_flatMap.mp hd
    have := (declOk_of_hyp tus h t ht d hdt).noLt
    rw [← hname]; exact strip_id _ this
  refine ⟨?_, ?_, ?_⟩
  · intro x
    rw [mem_unusedInMemory, unusedBuildDir, mem_checkCollected]
    constructor
    · rintro ⟨e, he, ⟨h1, h2, h3, h4, h5⟩, rfl⟩
      have hget := get_of_mem _ _ _ inv.mkeys he
      have hkey : e.1 ∈ amKeys (finalMap tus) := List.mem_map.mpr ⟨e, he, rfl⟩
      have hlk : lookup (finalMap tus) e.1 = e.2 := by unfold lookup; rw [hget]; rfl
      have hdecl : e.1 ∈ amKeys (tus.foldl collectTU ⟨[], []⟩).decls := (inv.declared e.1).mpr ⟨hkey, by rw [hlk]; exact h2⟩
      have hloc := inv.loc e.1 hdecl
      rw [hlk] at hloc
      have hs := hstrip e.1 hdecl
      refine ⟨(e.1, (e.2.filename, e.2.line, e.2.col)), mem_of_get _ _ _ hloc, ⟨by rw [hs]; exact h3, ?_, by rw [hs]; exact h5⟩, ?_⟩
      · rw [hs]
        intro hc
        have := ((inv.called e.1).mp hc).2
        rw [hlk, h1, h4] at this
        exact absurd this (by decide)
      · have hp := inv.notPlus e.1
        rw [hlk] at hp
        simp [shownFile, hp, hs]
    · rintro ⟨e, he, ⟨h1, h2, h3⟩, rfl⟩
      have hkey : e.1 ∈ amKeys (tus.foldl collectTU ⟨[], []⟩).decls := List.mem_map.mpr ⟨e, he, rfl⟩
      have hs := hstrip e.1 hkey
      rw [hs] at h1 h2 h3
      have hm := (inv.declared e.1).mp hkey
      have hloc := inv.loc e.1 hkey
      rw [get_of_mem _ _ _ inv.dkeys he] at hloc
      have heq := Option.some.inj hloc
      have hnc : ¬ (((lookup (finalMap tus) e.1).usedSameFile || (lookup (finalMap tus) e.1).usedOtherFile) = true) :=
        fun hf => h2 ((inv.called e.1).mpr ⟨hm.1, hf⟩)
      have hflags : (lookup (finalMap tus) e.1).usedSameFile = false ∧ (lookup (finalMap tus) e.1).usedOtherFile = false := by
        cases hA : (lookup (finalMap tus) e.1).usedSameFile <;> cases hB : (lookup (finalMap tus) e.1).usedOtherFile <;> simp_all
      have hget : ∃ u, amGet? (finalMap tus) e.1 = some u ∧ lookup (finalMap tus) e.1 = u := by
        have := (mem_keys_iff_get _ _).mp hm.1
        cases hg : amGet? (finalMap tus) e.1 with
        | none => rw [hg] at this; simp at this
        | some u => exact ⟨u, rfl, by unfold lookup; rw [hg]; rfl⟩
      obtain ⟨u, hgu, hlu⟩ := hget
      rw [hlu] at hm hflags heq
      refine ⟨(e.1, u), mem_of_get _ _ _ hgu, ⟨hflags.2, hm.2, h1, hflags.1, h3⟩, ?_⟩
      have hp := inv.notPlus e.1
      rw [hlu] at hp
      have e1 : e.2.1 = u.filename := (congrArg (·.1) heq)
      have e2 : e.2.2.1 = u.line := (congrArg (·.2.1) heq)
      have e3 : e.2.2.2 = u.col := (congrArg (·.2.2) heq)
      simp [shownFile, hp, hs, e1, e2, e3]
  · unfold unusedInMemory
    apply nodup_filterMap_keys _ _ inv.mkeys
    intro e _ x hx
    by_cases h1 : (e.2.usedOtherFile || decide (e.2.filename = [])) = true
    · simp [h1] at hx
    · simp only [h1, Bool.false_eq_true, if_false] at hx
      split at hx
      · simp at hx
      · split at hx
        · split at hx
          · simp at hx
          · simp only [Option.some.injEq] at hx; rw [← hx]
        · simp at hx
  · unfold unusedBuildDir checkCollected
    apply nodup_filterMap_keys _ _ inv.dkeys
    intro e he x hx
    have hs := hstrip e.1 (List.mem_map.mpr ⟨e, he, rfl⟩)
    simp only at hx
    split at hx
    · simp at hx
    · split at hx
      · simp only [Option.some.injEq] at hx; rw [← hx]; exact hs
      · simp at hx

example : UnusedHyp [⟨[⟨"f".toList, "u0.c".toList, 1, 13, true, true, false⟩, ⟨"main".toList, "u0.c".toList, 2, 5, true, false, false⟩],
    [⟨"f".toList, "u0.c".toList⟩]⟩, ⟨[⟨"g".toList, "u1.c".toList, 1, 6, true, false, false⟩], []⟩] = true := by decide

def isMainName (n : Str) : Bool := n = "main".toList

/-- the location hypothesis is needed (F19): one name defined in two files, both unused —
    in memory the first definition is reported, with a build dir the last one -/
theorem unused_dupname_counterexample :
    unusedInMemory isMainName [⟨[⟨"f".toList, "a.c".toList, 1, 13, true, true, false⟩], []⟩, ⟨[⟨"f".toList, "b.c".toList, 3, 13, true, true, false⟩], []⟩]
      = [⟨"a.c".toList, 1, 13, "f".toList⟩]
    ∧ unusedBuildDir isMainName [⟨[⟨"f".toList, "a.c".toList, 1, 13, true, true, false⟩], []⟩, ⟨[⟨"f".toList, "b.c".toList, 3, 13, true, true, false⟩], []⟩]
      = [⟨"b.c".toList, 3, 13, "f".toList⟩] := by
  constructor <;> decide +kernel

/-- **the build-dir run through the text.**  The fold the driver executes (every translation unit's summary written as text into a
    cache file, parsed, handled) collects exactly the text-free data. -/
theorem unusedBuildDir_via_text (entry : Str → Bool) (tus : List TU) (ht : ∀ t ∈ tus, t.TextOk = true) :
    unusedViaText entry tus = some (unusedBuildDir entry tus) := by
  unfold unusedViaText collectViaText
  rw [collectViaText_eq tus ⟨[], []⟩ ht]
  rfl

/-- **C22 for unusedFunction.**  `unusedViaText` = `analyseWholeProgram(settings, logger, buildDir)` on the written summaries,
    `unusedInMemory` = `CheckUnusedFunctions::check`: same findings, no duplicates, for every program satisfying `UnusedHyp`
    whose names / files are XML-safe (`TextOk`). -/
theorem unused_wp_equiv (entry : Str → Bool) (tus : List TU) (h : UnusedHyp tus = true) (ht : ∀ t ∈ tus, t.TextOk = true) :
    ∃ b, unusedViaText entry tus = some b ∧ (∀ x, x ∈ unusedInMemory entry tus ↔ x ∈ b)
      ∧ (unusedInMemory entry tus).Nodup ∧ b.Nodup :=
  ⟨_, unusedBuildDir_via_text entry tus ht, unused_collected_equiv entry tus h⟩

/-- **the real cache file** (five whole-program summaries and the `CheckUnusedFunctions` summary in one file): the whole-program
    handler and the unused-function handler each read their part and ignore the rest -/
theorem realCacheFile_both (simp : Str → Str) (hash : Nat) (t : TUSummary) (u : TU) (h : t.Ok simp = true) (hu : u.TextOk = true)
    (wp : WholeProgram) (src : Str) (c : Collected) :
    fromBuildDir [storeAll simp hash t u] wp = some (addInMemory wp t)
    ∧ collectFile src c (storeAll simp hash t u) = .ok (collectTU c u) :=
  storeAll_both simp hash t u h hu wp src c

/-- **main theorem on the real files**: for every list of (hash, whole-program summaries, unused-function summary), both
    consumers of the build dir get exactly what the in-memory run has -/
theorem wholeProgram_storage_independent_realFiles (simp : Str → Str) (l : List (Nat × TUSummary × TU))
    (h : ∀ x ∈ l, x.2.1.Ok simp = true ∧ x.2.2.TextOk = true) :
    fromBuildDir (l.map fun x => storeAll simp x.1 x.2.1 x.2.2) WholeProgram.empty = some (inMemory (l.map (·.2.1)))
    ∧ collectFiles (l.map fun x => storeAll simp x.1 x.2.1 x.2.2) = .ok ((l.map (·.2.2)).foldl collectTU ⟨[], []⟩) :=
  ⟨fromBuildDir_storeAll simp l WholeProgram.empty h, collectFiles_storeAll simp l ⟨[], []⟩ h⟩

example : TUSummary.Ok id ⟨⟨[⟨"x.h:1:6".toList, "h".toList, 1, ⟨"b.c".toList, 2, 15⟩, "0".toList, 0, 0, 0, false, [⟨"b.c".toList, "note".toList, 3, 4⟩]⟩],
      [⟨"x.h:1:6".toList, "h".toList, 1, ⟨"b.c".toList, 2, 15⟩, "x.h:1:20".toList, 1⟩]⟩,
    ⟨[⟨"x.h:2:6".toList, 1, "p".toList, ⟨"a.c".toList, 2, 16⟩, 40⟩], []⟩,
    [⟨"S".toList, "k.cpp".toList, "".toList, 1, 8, 77⟩], [⟨"x.h:1:6".toList, 1, "p".toList, ⟨"a.c".toList, 2, 16⟩, 0⟩], []⟩ = true := by decide

/-- the clause "no '<' in declared names" of `UnusedHyp` is needed: `ab<1>` and `ab<2>` are one entry `a` of `mFunctions`
    (`stripTemplateParameters`) but two entries of the build-dir map -/
theorem unused_templatename_counterexample :
    unusedInMemory isMainName [⟨[⟨"ab<1>".toList, "a.cpp".toList, 1, 6, false, false, false⟩, ⟨"ab<2>".toList, "a.cpp".toList, 2, 6, false, false, false⟩], []⟩]
      = [⟨"a.cpp".toList, 1, 6, "a".toList⟩]
    ∧ unusedBuildDir isMainName [⟨[⟨"ab<1>".toList, "a.cpp".toList, 1, 6, false, false, false⟩, ⟨"ab<2>".toList, "a.cpp".toList, 2, 6, false, false, false⟩], []⟩]
      = [⟨"a.cpp".toList, 1, 6, "a".toList⟩, ⟨"a.cpp".toList, 2, 6, "a".toList⟩] := by
  constructor <;> decide +kernel

/-- `staticFunction` exists only in memory (F20): `void g(void){}` used only inside its own C file -/
theorem static_counterexample :
    staticInMemory isMainName [⟨[⟨"g".toList, "c.c".toList, 1, 6, true, false, false⟩, ⟨"k".toList, "c.c".toList, 2, 6, true, false, false⟩],
      [⟨"g".toList, "c.c".toList⟩]⟩] = [⟨"c.c".toList, 1, 6, "g".toList⟩]
    ∧ unusedBuildDir isMainName [⟨[⟨"g".toList, "c.c".toList, 1, 6, true, false, false⟩, ⟨"k".toList, "c.c".toList, 2, 6, true, false, false⟩],
      [⟨"g".toList, "c.c".toList⟩]⟩] = [⟨"c.c".toList, 2, 6, "k".toList⟩] := by
  constructor <;> decide +kernel

/-- the attribute hypothesis is needed in the model (no C input that reaches this branch of `parseTokens` was found) -/
theorem unused_retattr_counterexample :
    unusedInMemory isMainName [⟨[⟨"f".toList, "a.c".toList, 1, 13, true, false, true⟩], []⟩] = []
    ∧ unusedBuildDir isMainName [⟨[⟨"f".toList, "a.c".toList, 1, 13, true, false, true⟩], []⟩] = [⟨"a.c".toList, 1, 13, "f".toList⟩] := by
  constructor <;> decide +kernel

end Cppcheck.Unused
